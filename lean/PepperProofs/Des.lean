import PepperModel.Des
/-!
# C03 — lemmas about the `.des` document, its semantics and the design of the object tables

1. the four line kinds of a component / signal block (`*Lines_compDoc`, `*Lines_signalDoc`); the `done` set of
   `System.output_nupack` (`dedupEntries_sub` / `_cover` / `_keys_nodup` / `_sublist` / `_first` / `_eq_self`); the
   `-_rc` suffix of the complementary connector of a port bound both ways (`RcNamed`, `rcSuffix_cases`,
   `rcSuffix_of_consistent`, `connTail_inj`, `connTails_nodup_iff`; repair F17b);
2. base pairs of a duplex `(ⁿ+)ⁿ` (`pairs_duplex`) and what a duplex over `X Y` says (`duplex_sat`);
3. the signal connector over any complement-involutive base type (`gadget_forces`, `gadget_holds`,
   `signal_gadget_equiv`);
4. positions of component structures and connector structures (`desPositions_comp`, `structNucs_comp`,
   `self_positions`, `entry_positions`);
5. the two directions `satDes_sat` / `sat_satDes` and the projected equivalence `des_equiv_blocks`;
6. the listing clause `lists_blocks`.
-/
set_option linter.unusedSimpArgs false
namespace Pepper.Des
open Pepper Pepper.Comp Pepper.Sys Pepper.LinkSpec

theorem filterMap_none' {α β} (l : List α) : l.filterMap (fun _ => (none : Option β)) = [] := by
  induction l <;> simp_all

theorem flatMap_singleton' {α β} (l : List α) (f : α → List β) (g : α → β) (h : ∀ a ∈ l, f a = [g a]) :
    l.flatMap f = l.map g := by
  induction l with
  | nil => rfl
  | cons a r ih =>
    simp only [List.flatMap_cons, List.map_cons]
    rw [h a (by simp), ih (fun x hx => h x (by simp [hx]))]; rfl

theorem flatMap_nil' {α β} (l : List α) (f : α → List β) (h : ∀ a ∈ l, f a = []) : l.flatMap f = [] := by
  induction l with
  | nil => rfl
  | cons a r ih => simp [h a (by simp), ih (fun x hx => h x (by simp [hx]))]

@[simp] theorem asSeq_struct (n dp) : (Line.struct n dp).asSeq = none := rfl
@[simp] theorem asSeq_seq (n t) : (Line.seq n t).asSeq = some (n, t) := rfl
@[simp] theorem asSeq_assign (n t) : (Line.assign n t).asSeq = none := rfl
@[simp] theorem asSeq_bound (n t) : (Line.bound n t).asSeq = none := rfl
@[simp] theorem asStruct_struct (n dp) : (Line.struct n dp).asStruct = some (n, dp) := rfl
@[simp] theorem asStruct_seq (n t) : (Line.seq n t).asStruct = none := rfl
@[simp] theorem asStruct_assign (n t) : (Line.assign n t).asStruct = none := rfl
@[simp] theorem asStruct_bound (n t) : (Line.bound n t).asStruct = none := rfl
@[simp] theorem asAssign_struct (n dp) : (Line.struct n dp).asAssign = none := rfl
@[simp] theorem asAssign_seq (n t) : (Line.seq n t).asAssign = none := rfl
@[simp] theorem asAssign_assign (n t) : (Line.assign n t).asAssign = some (n, t) := rfl
@[simp] theorem asAssign_bound (n t) : (Line.bound n t).asAssign = none := rfl
@[simp] theorem asBound_struct (n dp) : (Line.struct n dp).asBound = none := rfl
@[simp] theorem asBound_seq (n t) : (Line.seq n t).asBound = none := rfl
@[simp] theorem asBound_assign (n t) : (Line.assign n t).asBound = none := rfl
@[simp] theorem asBound_bound (n t) : (Line.bound n t).asBound = some (n, t) := rfl

/-! ### the four projections of a component block -/

theorem seqLines_compDoc (st : Comp.St) :
    seqLines (compDoc st) = (st.baseSeqs.filter (·.len != 0)).map (fun e => (st.pfx ++ e.name, e.const)) := by
  simp only [seqLines, compDoc, List.filterMap_append, List.filterMap_map, List.filterMap_flatMap, Function.comp_def,
    asSeq_struct, asSeq_seq, filterMap_none']
  rw [flatMap_nil']
  · simp
  · intro e _; split <;> simp

theorem structLines_compDoc (st : Comp.St) :
    structLines (compDoc st) = st.structs.map (fun e => (st.pfx ++ e.name, e.struct)) := by
  simp only [structLines, compDoc, List.filterMap_append, List.filterMap_map, List.filterMap_flatMap, Function.comp_def,
    asStruct_struct, asStruct_seq, filterMap_none']
  rw [flatMap_nil']
  · simp
  · intro e _; split <;> simp

theorem assignLines_compDoc (st : Comp.St) :
    assignLines (compDoc st) = st.structs.map (fun e =>
      (st.pfx ++ e.name, (e.bases.filter (·.len != 0)).map (baseItem st.pfx))) := by
  simp only [assignLines, compDoc, List.filterMap_append, List.filterMap_map, List.filterMap_flatMap, Function.comp_def,
    asAssign_struct, asAssign_seq, filterMap_none']
  rw [flatMap_singleton' _ _ (fun e => (st.pfx ++ e.name, (e.bases.filter (·.len != 0)).map (baseItem st.pfx)))]
  · simp
  · intro e _; split <;> simp

theorem boundLines_compDoc (st : Comp.St) :
    boundLines (compDoc st) = (st.structs.filter (fun e => !e.opt.isZero)).map (fun e =>
      (st.pfx ++ e.name, String.ofList e.opt.fmtF)) := by
  simp only [boundLines, compDoc, List.filterMap_append, List.filterMap_map, List.filterMap_flatMap, Function.comp_def,
    asBound_struct, asBound_seq, filterMap_none', List.nil_append]
  induction st.structs with
  | nil => rfl
  | cons e r ih =>
    simp only [List.flatMap_cons, ih, List.filter_cons]
    cases h : e.opt.isZero <;> simp

/-! ### the `done` set of `System.output_nupack` (`Sys.dedupEntries`, repair F17) -/

/-- the key under which `System.output_nupack` remembers a written connector: its name after the signal's, and the
    orientation -/
def dupKey (e : SigEntry) : String × Bool := (e.connName, e.wc)

theorem portItems_fst_connName (pfx : String) (e : SigEntry) : (portItems pfx e).1 = e.connName := by
  unfold portItems SigEntry.connName
  cases e.port with
  | seq i b => simp only; split <;> rfl
  | sig n => rfl

theorem mem_dedupAux {seen : List (String × Bool)} {es : List SigEntry} {e : SigEntry}
    (h : e ∈ dedupEntriesAux seen es) : e ∈ es ∧ dupKey e ∉ seen := by
  induction es generalizing seen with
  | nil => simp [dedupEntriesAux] at h
  | cons x r ih =>
    simp only [dedupEntriesAux] at h
    split at h
    · obtain ⟨h1, h2⟩ := ih h; exact ⟨List.mem_cons_of_mem _ h1, h2⟩
    · rename_i hc
      rcases List.mem_cons.1 h with rfl | h'
      · exact ⟨List.mem_cons_self, by simpa [dupKey] using hc⟩
      · obtain ⟨h1, h2⟩ := ih h'
        exact ⟨List.mem_cons_of_mem _ h1, fun hm => h2 (List.mem_cons_of_mem _ hm)⟩

/-- every deduplicated entry is an entry -/
theorem dedupEntries_sub {es : List SigEntry} {e : SigEntry} (h : e ∈ dedupEntries es) : e ∈ es := (mem_dedupAux h).1

theorem dedupAux_cover {seen : List (String × Bool)} {es : List SigEntry} {e : SigEntry} (he : e ∈ es)
    (hs : dupKey e ∉ seen) : ∃ e' ∈ dedupEntriesAux seen es, dupKey e' = dupKey e := by
  induction es generalizing seen with
  | nil => cases he
  | cons x r ih =>
    simp only [dedupEntriesAux]
    by_cases hc : seen.contains (x.connName, x.wc) = true
    · rw [if_pos hc]
      rcases List.mem_cons.1 he with rfl | he'
      · exact absurd (by simpa [dupKey] using hc) hs
      · exact ih he' hs
    · rw [if_neg hc]
      by_cases hk : dupKey e = dupKey x
      · exact ⟨x, List.mem_cons_self, hk.symm⟩
      · rcases List.mem_cons.1 he with rfl | he'
        · exact absurd rfl hk
        · obtain ⟨e', h1, h2⟩ := ih (seen := (x.connName, x.wc) :: seen) he' (by
            intro hm
            rcases List.mem_cons.1 hm with h | h
            · exact hk h
            · exact hs h)
          exact ⟨e', List.mem_cons_of_mem _ h1, h2⟩

/-- every entry is represented: an entry with the same connector name and orientation is kept -/
theorem dedupEntries_cover {es : List SigEntry} {e : SigEntry} (he : e ∈ es) :
    ∃ e' ∈ dedupEntries es, e'.connName = e.connName ∧ e'.wc = e.wc := by
  obtain ⟨e', h1, h2⟩ := dedupAux_cover (seen := []) he (by simp)
  exact ⟨e', h1, (Prod.mk.inj h2).1, (Prod.mk.inj h2).2⟩

theorem dedupAux_keys_nodup (seen : List (String × Bool)) (es : List SigEntry) :
    ((dedupEntriesAux seen es).map dupKey).Nodup := by
  induction es generalizing seen with
  | nil => simp [dedupEntriesAux]
  | cons x r ih =>
    simp only [dedupEntriesAux]
    split
    · exact ih seen
    · rw [List.map_cons, List.nodup_cons]
      refine ⟨?_, ih _⟩
      intro hm
      obtain ⟨e, he, hk⟩ := List.mem_map.1 hm
      exact (mem_dedupAux he).2 (by rw [hk]; exact List.mem_cons_self)

/-- the kept entries have pairwise distinct (connector name, orientation) -/
theorem dedupEntries_keys_nodup (es : List SigEntry) : ((dedupEntries es).map dupKey).Nodup :=
  dedupAux_keys_nodup [] es

theorem dedupAux_sublist (seen : List (String × Bool)) (es : List SigEntry) : (dedupEntriesAux seen es).Sublist es := by
  induction es generalizing seen with
  | nil => simp [dedupEntriesAux]
  | cons x r ih =>
    simp only [dedupEntriesAux]
    split
    · exact (ih seen).cons _
    · exact (ih _).cons_cons _

/-- the kept entries come in the order of the table -/
theorem dedupEntries_sublist (es : List SigEntry) : (dedupEntries es).Sublist es := dedupAux_sublist [] es

theorem dedupAux_eq_self {seen : List (String × Bool)} {es : List SigEntry} (hn : (es.map dupKey).Nodup)
    (hs : ∀ e ∈ es, dupKey e ∉ seen) : dedupEntriesAux seen es = es := by
  induction es generalizing seen with
  | nil => rfl
  | cons x r ih =>
    rw [List.map_cons, List.nodup_cons] at hn
    simp only [dedupEntriesAux]
    have hc : ¬ seen.contains (x.connName, x.wc) = true := by
      have := hs x List.mem_cons_self
      simpa [dupKey] using this
    rw [if_neg hc, ih hn.2]
    intro e he hm
    rcases List.mem_cons.1 hm with h | h
    · exact hn.1 (List.mem_map.2 ⟨e, he, h⟩)
    · exact hs e (List.mem_cons_of_mem _ he) h

/-- nothing is dropped from a table without repeated (connector name, orientation) -/
theorem dedupEntries_eq_self {es : List SigEntry} (hn : (es.map dupKey).Nodup) : dedupEntries es = es :=
  dedupAux_eq_self hn (fun _ _ => by simp)

/-- the first entry of the table is kept -/
theorem dedupEntries_head (e : SigEntry) (r : List SigEntry) : ∃ t, dedupEntries (e :: r) = e :: t := by
  simp [dedupEntries, dedupEntriesAux]

theorem dedupAux_first {seen : List (String × Bool)} {es : List SigEntry} {e : SigEntry}
    (he : e ∈ dedupEntriesAux seen es) : es.find? (fun x => dupKey x == dupKey e) = some e := by
  induction es generalizing seen with
  | nil => simp [dedupEntriesAux] at he
  | cons x r ih =>
    simp only [dedupEntriesAux] at he
    rw [List.find?_cons]
    split at he
    · rename_i hc
      have hx : dupKey x ∈ seen := by simpa [dupKey] using hc
      have hne : (dupKey x == dupKey e) = false := by
        apply beq_false_of_ne
        intro h
        exact (mem_dedupAux he).2 (h ▸ hx)
      rw [hne]; exact ih he
    · rcases List.mem_cons.1 he with rfl | he'
      · simp
      · have hne : (dupKey x == dupKey e) = false := by
          apply beq_false_of_ne
          intro h
          exact (mem_dedupAux he').2 (h ▸ List.mem_cons_self)
        rw [hne]; exact ih he'

/-- the kept entry of a (connector name, orientation) is the first one of the table -/
theorem dedupEntries_first {es : List SigEntry} {e : SigEntry} (he : e ∈ dedupEntries es) :
    es.find? (fun x => dupKey x == dupKey e) = some e := dedupAux_first he

/-- entries that share connector name and orientation are the same entry -/
def SameDup (es : List SigEntry) : Prop :=
  ∀ e ∈ es, ∀ e' ∈ es, e.connName = e'.connName → e.wc = e'.wc → e = e'

theorem mem_dedup_of_same {es : List SigEntry} (hd : SameDup es) {e : SigEntry} (he : e ∈ es) : e ∈ dedupEntries es := by
  obtain ⟨e', h1, h2, h3⟩ := dedupEntries_cover he
  have := hd e' (dedupEntries_sub h1) e he h2 h3
  exact this ▸ h1

/-! ### the projections of a signal block -/

theorem seqLines_signalDoc (pfx sg : String) (len : Nat) (es : List SigEntry) :
    seqLines (signalDoc pfx sg len es) =
      [(pfx ++ sg, List.replicate len 'N'), (wcName pfx sg, List.replicate len 'N')] := by
  simp only [seqLines, signalDoc, List.filterMap_append, List.filterMap_flatMap]
  rw [flatMap_nil']
  · rfl
  · intro e _; rfl

theorem structLines_signalDoc (pfx sg : String) (len : Nat) (es : List SigEntry) :
    structLines (signalDoc pfx sg len es) =
      (pfx ++ sg ++ "-_Self", duplex len) ::
        (dedupEntries es).map (fun e => (pfx ++ sg ++ "-" ++ (portItems pfx e).1 ++ rcSuffix es e, duplex len)) := by
  simp only [structLines, signalDoc, List.filterMap_append, List.filterMap_flatMap]
  rw [flatMap_singleton' _ _ (fun e => (pfx ++ sg ++ "-" ++ (portItems pfx e).1 ++ rcSuffix es e, duplex len))]
  · rfl
  · intro e _; rfl

theorem assignLines_signalDoc (pfx sg : String) (len : Nat) (es : List SigEntry) :
    assignLines (signalDoc pfx sg len es) =
      (pfx ++ sg ++ "-_Self", [⟨wcName pfx sg, false⟩, ⟨pfx ++ sg, false⟩]) ::
      (dedupEntries es).map (fun e => (pfx ++ sg ++ "-" ++ (portItems pfx e).1 ++ rcSuffix es e,
        (⟨if e.wc then pfx ++ sg else wcName pfx sg, false⟩ : Item) :: (portItems pfx e).2)) := by
  simp only [assignLines, signalDoc, List.filterMap_append, List.filterMap_flatMap]
  rw [flatMap_singleton' _ _ (fun e => (pfx ++ sg ++ "-" ++ (portItems pfx e).1 ++ rcSuffix es e,
        (⟨if e.wc then pfx ++ sg else wcName pfx sg, false⟩ : Item) :: (portItems pfx e).2))]
  · rfl
  · intro e _; rfl

theorem boundLines_signalDoc (pfx sg : String) (len : Nat) (es : List SigEntry) :
    boundLines (signalDoc pfx sg len es) = [] := by
  simp only [boundLines, signalDoc, List.filterMap_append, List.filterMap_flatMap]
  rw [flatMap_nil']
  · rfl
  · intro e _; rfl

theorem seqLines_docOf (bs : List Block) : seqLines (docOf bs) = bs.flatMap (fun b => seqLines (blockDoc b)) := by
  simp [seqLines, docOf, List.filterMap_flatMap]
theorem structLines_docOf (bs : List Block) : structLines (docOf bs) = bs.flatMap (fun b => structLines (blockDoc b)) := by
  simp [structLines, docOf, List.filterMap_flatMap]
theorem assignLines_docOf (bs : List Block) : assignLines (docOf bs) = bs.flatMap (fun b => assignLines (blockDoc b)) := by
  simp [assignLines, docOf, List.filterMap_flatMap]
theorem boundLines_docOf (bs : List Block) : boundLines (docOf bs) = bs.flatMap (fun b => boundLines (blockDoc b)) := by
  simp [boundLines, docOf, List.filterMap_flatMap]

/-! ### general list facts -/

theorem nodup_flatMap_inj {α β} {f : α → List β} {l : List α} (h : (l.flatMap f).Nodup) {a b : α} (ha : a ∈ l)
    (hb : b ∈ l) {x : β} (hxa : x ∈ f a) (hxb : x ∈ f b) : a = b := by
  induction l with
  | nil => cases ha
  | cons c r ih =>
    rw [List.flatMap_cons, List.nodup_append] at h
    obtain ⟨_, hr, hd⟩ := h
    rcases List.mem_cons.1 ha with rfl | ha' <;> rcases List.mem_cons.1 hb with rfl | hb'
    · rfl
    · exact absurd rfl (hd x hxa x (List.mem_flatMap.2 ⟨b, hb', hxb⟩))
    · exact absurd rfl (hd x hxb x (List.mem_flatMap.2 ⟨a, ha', hxa⟩))
    · exact ih hr ha' hb'

theorem nodup_flatMap_inner {α β} {f : α → List β} {l : List α} (h : (l.flatMap f).Nodup) {a : α} (ha : a ∈ l) :
    (f a).Nodup := by
  induction l with
  | nil => cases ha
  | cons c r ih =>
    rw [List.flatMap_cons, List.nodup_append] at h
    rcases List.mem_cons.1 ha with rfl | ha'
    · exact h.1
    · exact ih h.2.1 ha'

theorem flatMap_congr' {α β} {l : List α} {f g : α → List β} (h : ∀ a ∈ l, f a = g a) : l.flatMap f = l.flatMap g := by
  induction l with
  | nil => rfl
  | cons a r ih => simp [h a (by simp), ih (fun x hx => h x (by simp [hx]))]

theorem nodup_map_inj {α β} {f : α → β} {l : List α} (h : (l.map f).Nodup) {a b : α} (ha : a ∈ l) (hb : b ∈ l)
    (e : f a = f b) : a = b := by
  induction l with
  | nil => cases ha
  | cons c r ih =>
    rw [List.map_cons, List.nodup_cons] at h
    rcases List.mem_cons.1 ha with rfl | ha' <;> rcases List.mem_cons.1 hb with rfl | hb'
    · rfl
    · exact absurd (List.mem_map.2 ⟨b, hb', e.symm⟩) h.1
    · exact absurd (List.mem_map.2 ⟨a, ha', e⟩) h.1
    · exact ih h.2 ha' hb'

theorem nodup_map_of_inj {α β} {f : α → β} (hf : ∀ a b, f a = f b → a = b) {l : List α} (h : l.Nodup) :
    (l.map f).Nodup := by
  induction l with
  | nil => simp
  | cons a r ih =>
    rw [List.nodup_cons] at h
    rw [List.map_cons, List.nodup_cons]
    refine ⟨?_, ih h.2⟩
    intro hm
    obtain ⟨b, hb, e⟩ := List.mem_map.1 hm
    exact h.1 (hf _ _ e ▸ hb)

theorem lookup_of_mem {β} {l : List (String × β)} (hn : (l.map (·.1)).Nodup) {k : String} {v : β} (hx : (k, v) ∈ l) :
    l.lookup k = some v := by
  induction l with
  | nil => cases hx
  | cons y r ih =>
    obtain ⟨yk, yv⟩ := y
    rw [List.map_cons, List.nodup_cons] at hn
    rw [List.lookup_cons]
    rcases List.mem_cons.1 hx with e | hx'
    · cases e; simp
    · have : (k == yk) = false := by
        apply beq_false_of_ne
        rintro rfl
        exact hn.1 (List.mem_map.2 ⟨(k, v), hx', rfl⟩)
      rw [this]; exact ih hn.2 hx'

theorem find?_of_mem {α} (key : α → String) {l : List α} (hn : (l.map key).Nodup) {x : α} (hx : x ∈ l) :
    l.find? (fun y => key y == key x) = some x := by
  induction l with
  | nil => cases hx
  | cons y r ih =>
    rw [List.map_cons, List.nodup_cons] at hn
    rw [List.find?_cons]
    rcases List.mem_cons.1 hx with e | hx'
    · subst e; simp
    · have : (key y == key x) = false := by
        apply beq_false_of_ne
        intro e
        exact hn.1 (List.mem_map.2 ⟨x, hx', e.symm⟩)
      rw [this]; exact ih hn.2 hx'

theorem filter_eq_singleton {β} {l : List (String × β)} (hn : (l.map (·.1)).Nodup) {k : String} {v : β}
    (hx : (k, v) ∈ l) : l.filter (·.1 == k) = [(k, v)] := by
  induction l with
  | nil => cases hx
  | cons y r ih =>
    obtain ⟨yk, yv⟩ := y
    rw [List.map_cons, List.nodup_cons] at hn
    rcases List.mem_cons.1 hx with e | hx'
    · cases e
      have : r.filter (·.1 == k) = [] := by
        rw [List.filter_eq_nil_iff]
        intro z hz hk
        exact hn.1 (List.mem_map.2 ⟨z, hz, by simpa using hk⟩)
      simp [List.filter_cons, this]
    · have : (yk == k) = false := by
        apply beq_false_of_ne
        rintro rfl
        exact hn.1 (List.mem_map.2 ⟨(yk, v), hx', rfl⟩)
      simp only [List.filter_cons, this, Bool.false_eq_true, if_false]
      exact ih hn.2 hx'

theorem sublist_flatMap {α β} {l : List α} {f g : α → List β} (h : ∀ a ∈ l, (f a).Sublist (g a)) :
    (l.flatMap f).Sublist (l.flatMap g) := by
  induction l with
  | nil => exact List.Sublist.refl _
  | cons a r ih =>
    simp only [List.flatMap_cons]
    exact List.Sublist.append (h a (by simp)) (ih (fun x hx => h x (by simp [hx])))

/-! ### the `-_rc` suffix of `System.output_nupack` (`Sys.rcSuffix`, repair F17b) -/

/-- `e` is a complementary binding of a port that the same signal also binds plainly: its connector is the one
    `System.output_nupack` calls `…-_rc` -/
def RcNamed (es : List SigEntry) (e : SigEntry) : Prop :=
  e.wc = true ∧ ∃ e' ∈ es, e'.connName = e.connName ∧ e'.wc = false

theorem rcNamed_iff (es : List SigEntry) (e : SigEntry) :
    (e.wc && es.any (fun e' => e'.connName == e.connName && !e'.wc)) = true ↔ RcNamed es e := by
  simp [RcNamed, List.any_eq_true]

theorem rcSuffix_eq_rc {es : List SigEntry} {e : SigEntry} (h : RcNamed es e) : rcSuffix es e = "-_rc" := by
  unfold rcSuffix; rw [if_pos ((rcNamed_iff es e).2 h)]

theorem rcSuffix_eq_empty {es : List SigEntry} {e : SigEntry} (h : ¬ RcNamed es e) : rcSuffix es e = "" := by
  unfold rcSuffix; rw [if_neg (fun c => h ((rcNamed_iff es e).1 c))]

/-- the suffix is `-_rc` for a complementary binding of a port also bound plainly, and empty otherwise -/
theorem rcSuffix_cases (es : List SigEntry) (e : SigEntry) :
    (RcNamed es e ∧ rcSuffix es e = "-_rc") ∨ (¬ RcNamed es e ∧ rcSuffix es e = "") := by
  by_cases h : RcNamed es e
  · exact Or.inl ⟨h, rcSuffix_eq_rc h⟩
  · exact Or.inr ⟨h, rcSuffix_eq_empty h⟩

theorem rcSuffix_eq_rc_iff (es : List SigEntry) (e : SigEntry) : rcSuffix es e = "-_rc" ↔ RcNamed es e := by
  rcases rcSuffix_cases es e with ⟨h, e1⟩ | ⟨h, e1⟩
  · exact ⟨fun _ => h, fun _ => e1⟩
  · rw [e1]; exact ⟨fun c => absurd c (by decide), fun c => absurd c h⟩

/-- the suffix depends on the entry only through its connector name and orientation -/
theorem rcSuffix_congr (es : List SigEntry) {e e' : SigEntry} (h1 : e.connName = e'.connName) (h2 : e.wc = e'.wc) :
    rcSuffix es e = rcSuffix es e' := by
  unfold rcSuffix; rw [h1, h2]

/-- no suffix on a table in which entries of one connector name have one orientation (in particular: pairwise
    distinct connector names, the loaded case) -/
theorem rcSuffix_of_consistent {es : List SigEntry}
    (h : ∀ e ∈ es, ∀ e' ∈ es, e.connName = e'.connName → e.wc = e'.wc) {e : SigEntry} (he : e ∈ es) :
    rcSuffix es e = "" := by
  apply rcSuffix_eq_empty
  rintro ⟨hw, e', he', hc, hw'⟩
  have := h e' he' e he hc
  rw [hw, hw'] at this
  cases this

/-- the name of an entry's connector after `<signal>-` -/
def connTail (es : List SigEntry) (e : SigEntry) : String := e.connName ++ rcSuffix es e

theorem ne_append_rc (s : String) : s ≠ s ++ "-_rc" := by
  intro h
  have h' : s ++ "" = s ++ "-_rc" := by rw [String.append_empty]; exact h
  exact absurd ((String.append_right_inj s).1 h') (by decide)

/-- two kept entries get the same connector name only if they are the same entry, or one of them is an `…-_rc`
    connector of port `p` and the other a connector (without suffix) of a port called `p-_rc` -/
theorem connTail_inj {es : List SigEntry} {k k' : SigEntry} (hk : k ∈ es) (hk' : k' ∈ es)
    (h : connTail es k = connTail es k') :
    dupKey k = dupKey k' ∨ (RcNamed es k ∧ k'.connName = k.connName ++ "-_rc") ∨
      (RcNamed es k' ∧ k.connName = k'.connName ++ "-_rc") := by
  unfold connTail at h
  rcases rcSuffix_cases es k with ⟨r, e1⟩ | ⟨r, e1⟩ <;> rcases rcSuffix_cases es k' with ⟨r', e2⟩ | ⟨r', e2⟩
  · rw [e1, e2, String.append_left_inj] at h
    exact Or.inl (Prod.ext h (by rw [show (dupKey k).2 = k.wc from rfl, show (dupKey k').2 = k'.wc from rfl, r.1, r'.1]))
  · rw [e1, e2, String.append_empty] at h
    exact Or.inr (Or.inl ⟨r, h.symm⟩)
  · rw [e1, e2, String.append_empty] at h
    exact Or.inr (Or.inr ⟨r', h⟩)
  · rw [e1, e2, String.append_empty, String.append_empty] at h
    refine Or.inl (Prod.ext h ?_)
    show k.wc = k'.wc
    cases hw : k.wc <;> cases hw' : k'.wc
    · rfl
    · exact absurd ⟨hw', k, hk, h, hw⟩ r'
    · exact absurd ⟨hw, k', hk', h.symm, hw'⟩ r
    · rfl

/-- **when the connector names of one signal are pairwise distinct**: exactly when no port bound in both
    orientations (whose complementary connector is therefore called `<port>-_rc`) has a sibling entry whose own
    connector name is `<port>-_rc` -/
theorem connTails_nodup_iff (es : List SigEntry) :
    ((dedupEntries es).map (connTail es)).Nodup ↔
      ∀ e ∈ es, ∀ e₀ ∈ es, ∀ e' ∈ es, e.wc = true → e₀.wc = false → e₀.connName = e.connName →
        e'.connName ≠ e.connName ++ "-_rc" := by
  constructor
  · intro hn e he e₀ he₀ e' he' hw hw₀ hc₀ hc'
    -- a sibling without suffix carrying the clashing name
    obtain ⟨x, hx, hxc, hxs⟩ : ∃ x ∈ es, x.connName = e.connName ++ "-_rc" ∧ rcSuffix es x = "" := by
      rcases rcSuffix_cases es e' with ⟨r, _⟩ | ⟨_, e1⟩
      · obtain ⟨_, x, hx, hxc, hxw⟩ := r
        refine ⟨x, hx, hxc.trans hc', rcSuffix_eq_empty ?_⟩
        rintro ⟨c, _⟩; rw [hxw] at c; cases c
      · exact ⟨e', he', hc', e1⟩
    obtain ⟨k, hk, hk1, hk2⟩ := dedupEntries_cover he
    obtain ⟨k', hk', hk1', hk2'⟩ := dedupEntries_cover hx
    have hkr : RcNamed es k := ⟨hk2.trans hw, e₀, he₀, hc₀.trans hk1.symm, hw₀⟩
    have t1 : connTail es k = e.connName ++ "-_rc" := by unfold connTail; rw [rcSuffix_eq_rc hkr, hk1]
    have t2 : connTail es k' = e.connName ++ "-_rc" := by
      unfold connTail; rw [rcSuffix_congr es hk1' hk2', hxs, String.append_empty, hk1', hxc]
    have : k = k' := nodup_map_inj hn hk hk' (t1.trans t2.symm)
    subst this
    exact ne_append_rc e.connName (hk1.symm.trans (hk1'.trans hxc))
  · intro h
    have hp : (dedupEntries es).Pairwise (fun a b => dupKey a ≠ dupKey b) :=
      List.pairwise_map.1 (dedupEntries_keys_nodup es)
    unfold List.Nodup
    rw [List.pairwise_map]
    refine List.Pairwise.imp_of_mem ?_ hp
    intro a b ha hb hne heq
    have ha' := dedupEntries_sub ha
    have hb' := dedupEntries_sub hb
    rcases connTail_inj ha' hb' heq with e | ⟨⟨hw, e₀, he₀, hc₀, hw₀⟩, hc⟩ | ⟨⟨hw, e₀, he₀, hc₀, hw₀⟩, hc⟩
    · exact hne e
    · exact h a ha' e₀ he₀ b hb' hw hw₀ hc₀ hc
    · exact h b hb' e₀ he₀ a ha' hw hw₀ hc₀ hc

theorem connTails_nodup_of_consistent {es : List SigEntry}
    (h : ∀ e ∈ es, ∀ e' ∈ es, e.connName = e'.connName → e.wc = e'.wc) : ((dedupEntries es).map (connTail es)).Nodup := by
  rw [connTails_nodup_iff]
  intro e he e₀ he₀ _ _ hw hw₀ hc₀
  have := h e₀ he₀ e he hc₀
  rw [hw, hw₀] at this
  cases this

/-! ### base pairs of a duplex -/

theorem pairsAux_plus (r : List Char) (p : Nat) (stk : List Nat) : pairsAux ('+' :: r) p stk = pairsAux r p stk := by
  simp [pairsAux]
theorem pairsAux_lp (r : List Char) (p : Nat) (stk : List Nat) :
    pairsAux ('(' :: r) p stk = pairsAux r (p + 1) (p :: stk) := by
  simp [pairsAux]
theorem pairsAux_rp (r : List Char) (p o : Nat) (stk : List Nat) :
    pairsAux (')' :: r) p (o :: stk) = (o, p) :: pairsAux r (p + 1) stk := by
  simp [pairsAux]

theorem pairsAux_open (m : Nat) (r : List Char) (p : Nat) (stk : List Nat) :
    pairsAux (List.replicate m '(' ++ r) p stk = pairsAux r (p + m) ((List.range' p m).reverse ++ stk) := by
  induction m generalizing p stk with
  | zero => simp
  | succ m ih =>
    rw [List.replicate_succ, List.cons_append, pairsAux_lp, ih, List.range'_succ, List.reverse_cons]
    simp [Nat.add_assoc, Nat.add_comm 1 m]

theorem pairsAux_close (m p q : Nat) (stk : List Nat) :
    pairsAux (List.replicate m ')') q ((List.range' p m).reverse ++ stk) =
      (List.range m).map (fun k => (p + m - 1 - k, q + k)) := by
  induction m generalizing q with
  | zero => simp [pairsAux]
  | succ m ih =>
    rw [List.range'_concat, List.reverse_append, List.replicate_succ]
    simp only [List.reverse_cons, List.reverse_nil, List.nil_append, List.cons_append]
    rw [pairsAux_rp, ih, List.range_succ_eq_map]
    simp only [List.map_cons, List.map_map]
    congr 1
    · simp
    · apply List.map_congr_left
      intro k _
      simp only [Function.comp]
      congr 1 <;> omega

theorem pairs_duplex (n : Nat) : pairs (duplex n) = (List.range n).map (fun k => (n - 1 - k, n + k)) := by
  unfold pairs duplex
  rw [pairsAux_open, pairsAux_plus]
  have := pairsAux_close n 0 n []
  simp only [List.append_nil, Nat.zero_add] at this ⊢
  exact this


/-! ### values of regions; the constraint a structure puts on its positions (any complement-involutive base type) -/

section Generic
variable {β : Type} (compl : β → β)

/-- the base a nucleotide carries -/
def valG (a : Var → β) (n : Nuc) : β := if n.comp then compl (a n.var) else a n.var

/-- the bases along a region -/
def vs (a : Var → β) (l : List Nuc) : List β := l.map (valG compl a)

/-- reverse complement on base strings -/
def rcv (l : List β) : List β := l.reverse.map compl

/-- every base pair of `dp` over the positions `l` is complementary -/
def PairSat (a : Var → β) (dp : List Char) (l : List Nuc) : Prop :=
  ∀ x ∈ pairLinksOn dp l, valG compl a x.1 = compl (valG compl a x.2)

/-- an `equals` entry holds: any two of its regions agree position by position -/
def EqualSat (a : Var → β) (e : List (List Nuc)) : Prop :=
  ∀ r ∈ e, ∀ s ∈ e, ∀ (k : Nat) (m n : Nuc), r[k]? = some m → s[k]? = some n → valG compl a m = valG compl a n

variable {compl}

theorem mem_pairLinksOn {dp : List Char} {l : List Nuc} {x : Nuc × Nuc} :
    x ∈ pairLinksOn dp l ↔ ∃ ij ∈ pairs dp, l[ij.1]? = some x.1 ∧ l[ij.2]? = some x.2 := by
  unfold pairLinksOn
  rw [List.mem_filterMap]
  constructor
  · rintro ⟨⟨i, j⟩, hij, h⟩
    refine ⟨(i, j), hij, ?_⟩
    dsimp only at h ⊢
    split at h
    · rename_i m n hm hn
      cases h; exact ⟨hm, hn⟩
    · cases h
  · rintro ⟨⟨i, j⟩, hij, h1, h2⟩
    refine ⟨(i, j), hij, ?_⟩
    dsimp only at h1 h2 ⊢
    rw [h1, h2]

theorem pairSat_iff {a : Var → β} {dp : List Char} {l : List Nuc} :
    PairSat compl a dp l ↔ ∀ ij ∈ pairs dp, ∀ m n, l[ij.1]? = some m → l[ij.2]? = some n →
      valG compl a m = compl (valG compl a n) := by
  unfold PairSat
  constructor
  · intro h ij hij m n hm hn
    exact h (m, n) (mem_pairLinksOn.2 ⟨ij, hij, hm, hn⟩)
  · intro h x hx
    obtain ⟨ij, hij, hm, hn⟩ := mem_pairLinksOn.1 hx
    exact h ij hij _ _ hm hn

theorem vs_congr {a a' : Var → β} {l : List Nuc} (h : ∀ m ∈ l, a' m.var = a m.var) : vs compl a' l = vs compl a l := by
  unfold vs
  apply List.map_congr_left
  intro m hm
  simp [valG, h m hm]

theorem pairSat_congr {a a' : Var → β} {dp : List Char} {l : List Nuc} (h : ∀ m ∈ l, a' m.var = a m.var) :
    PairSat compl a' dp l ↔ PairSat compl a dp l := by
  have hv : ∀ m ∈ l, valG compl a' m = valG compl a m := by
    intro m hm; simp [valG, h m hm]
  rw [pairSat_iff, pairSat_iff]
  constructor
  · intro H ij hij m n hm hn
    rw [← hv m (List.mem_of_getElem? hm), ← hv n (List.mem_of_getElem? hn)]
    exact H ij hij m n hm hn
  · intro H ij hij m n hm hn
    rw [hv m (List.mem_of_getElem? hm), hv n (List.mem_of_getElem? hn)]
    exact H ij hij m n hm hn

variable (hcc : ∀ b, compl (compl b) = b)
include hcc

theorem valG_flip (a : Var → β) (m : Nuc) : valG compl a m.flip = compl (valG compl a m) := by
  cases m with | mk v c => cases c <;> simp [valG, Nuc.flip, hcc]

theorem vs_rc (a : Var → β) (l : List Nuc) : vs compl a (rc l) = rcv compl (vs compl a l) := by
  simp [vs, rc, rcv, List.map_reverse, valG_flip hcc, Function.comp_def]

theorem rcv_rcv (l : List β) : rcv compl (rcv compl l) = l := by
  simp [rcv, List.map_reverse, Function.comp_def, hcc]

theorem rcv_inj {l l' : List β} (h : rcv compl l = rcv compl l') : l = l' := by
  rw [← rcv_rcv hcc l, h, rcv_rcv hcc]

/-- a duplex `(ⁿ+)ⁿ` over `X Y` says exactly: `Y` carries the reverse complement of `X` -/
theorem duplex_sat (a : Var → β) {n : Nat} {X Y : List Nuc} (hX : X.length = n) (hY : Y.length = n) :
    PairSat compl a (duplex n) (X ++ Y) ↔ rcv compl (vs compl a X) = vs compl a Y := by
  rw [pairSat_iff, pairs_duplex]
  have key : ∀ k, k < n → ((X ++ Y)[n - 1 - k]? = X[n - 1 - k]? ∧ (X ++ Y)[n + k]? = Y[k]?) := by
    intro k hk
    constructor
    · rw [List.getElem?_append_left (by omega)]
    · rw [List.getElem?_append_right (by omega)]; congr 1; omega
  constructor
  · intro H
    apply List.ext_getElem
    · simp [rcv, vs, hX, hY]
    · intro k h1 h2
      have hk : k < n := by simpa [rcv, vs, hX] using h1
      have hx : n - 1 - k < X.length := by omega
      have hy : k < Y.length := by omega
      have := H (n - 1 - k, n + k) (List.mem_map.2 ⟨k, List.mem_range.2 hk, rfl⟩) X[n - 1 - k] Y[k]
        (by rw [(key k hk).1]; exact List.getElem?_eq_getElem hx)
        (by rw [(key k hk).2]; exact List.getElem?_eq_getElem hy)
      simp only [rcv, vs, List.getElem_map, List.getElem_reverse, List.length_map, hX]
      rw [this, hcc]
  · intro H ij hij m m' hm hm'
    obtain ⟨k, hk, rfl⟩ := List.mem_map.1 hij
    have hk : k < n := List.mem_range.1 hk
    rw [(key k hk).1] at hm
    rw [(key k hk).2] at hm'
    have hx : n - 1 - k < X.length := by omega
    have hy : k < Y.length := by omega
    have e := congrArg (fun l => l[k]?) H
    simp only [rcv, vs, List.getElem?_map, List.map_reverse] at e
    rw [List.getElem?_reverse (by simpa [hX] using hk)] at e
    simp only [List.length_map, hX, List.getElem?_map, hm, hm', Option.map_some] at e
    have e' := Option.some.inj e
    rw [← e', hcc]

omit hcc in
/-- an `equals` entry `S :: regions` (all of one length) holds iff every region carries the bases of `S` -/
theorem equalSat_iff (a : Var → β) {n : Nat} {S : List Nuc} {regs : List (List Nuc)} (hS : S.length = n)
    (hR : ∀ r ∈ regs, r.length = n) :
    EqualSat compl a (S :: regs) ↔ ∀ r ∈ regs, vs compl a r = vs compl a S := by
  constructor
  · intro H r hr
    apply List.ext_getElem
    · simp [vs, hS, hR r hr]
    · intro k h1 h2
      have h1' : k < r.length := by simpa [vs] using h1
      have h2' : k < S.length := by simpa [vs] using h2
      simp only [vs, List.getElem_map]
      exact H r (by simp [hr]) S (by simp) k _ _ (List.getElem?_eq_getElem h1') (List.getElem?_eq_getElem h2')
  · intro H
    have all : ∀ r ∈ S :: regs, vs compl a r = vs compl a S := by
      intro r hr
      rcases List.mem_cons.1 hr with rfl | hr
      · rfl
      · exact H r hr
    intro r hr s hs k m m' hm hm'
    have e := (all r hr).trans (all s hs).symm
    have e' := congrArg (fun l => l[k]?) e
    simp only [vs, List.getElem?_map, hm, hm', Option.map_some] at e'
    exact Option.some.inj e'

/-- the region a signal is declared equal to: the port, or its reverse complement for a complementary binding -/
def regionOf (r : List Nuc × Bool) : List Nuc := if r.2 then rc r.1 else r.1

/-- the connector structures of one signal: `S-_Self` over `W S`, and per bound region a duplex over
    `S R` (complementary binding) or `W R` (equal binding) -/
def GadgetSat (a : Var → β) (n : Nat) (S W : List Nuc) (Rs : List (List Nuc × Bool)) : Prop :=
  PairSat compl a (duplex n) (W ++ S) ∧
  ∀ r ∈ Rs, PairSat compl a (duplex n) ((if r.2 then S else W) ++ r.1)

theorem gadget_forces (a : Var → β) {n : Nat} {S W : List Nuc} {Rs : List (List Nuc × Bool)} (hS : S.length = n)
    (hW : W.length = n) (hR : ∀ r ∈ Rs, r.1.length = n) (h : GadgetSat (compl := compl) a n S W Rs) :
    ∀ r ∈ Rs, vs compl a (regionOf r) = vs compl a S := by
  intro r hr
  have hs := (duplex_sat hcc a hW hS).1 h.1
  have he := h.2 r hr
  unfold regionOf
  cases hwc : r.2
  · simp only [hwc, Bool.false_eq_true, if_false] at he ⊢
    rw [← (duplex_sat hcc a hW (hR r hr)).1 he, hs]
  · simp only [hwc, if_true] at he ⊢
    rw [vs_rc hcc, ← (duplex_sat hcc a hS (hR r hr)).1 he, rcv_rcv hcc]

theorem gadget_holds (a : Var → β) {n : Nat} {S W : List Nuc} {Rs : List (List Nuc × Bool)} (hS : S.length = n)
    (hW : W.length = n) (hR : ∀ r ∈ Rs, r.1.length = n) (hWS : vs compl a W = rcv compl (vs compl a S))
    (h : ∀ r ∈ Rs, vs compl a (regionOf r) = vs compl a S) : GadgetSat (compl := compl) a n S W Rs := by
  refine ⟨(duplex_sat hcc a hW hS).2 (by rw [hWS, rcv_rcv hcc]), ?_⟩
  intro r hr
  have e := h r hr
  unfold regionOf at e
  cases hwc : r.2
  · simp only [hwc, Bool.false_eq_true, if_false] at e ⊢
    exact (duplex_sat hcc a hW (hR r hr)).2 (by rw [hWS, rcv_rcv hcc, e])
  · simp only [hwc, if_true] at e ⊢
    apply (duplex_sat hcc a hS (hR r hr)).2
    rw [vs_rc hcc] at e
    rw [← e, rcv_rcv hcc]

end Generic

section Gadget
variable {β : Type} {compl : β → β}

theorem mem_fwd {s : String} {n : Nat} {m : Nuc} (h : m ∈ fwd s n) : m.var.dom = s ∧ m.comp = false ∧ m.var.idx < n := by
  unfold fwd at h
  obtain ⟨k, hk, rfl⟩ := List.mem_map.1 h
  exact ⟨rfl, rfl, List.mem_range.1 hk⟩

theorem mem_rc {l : List Nuc} {m : Nuc} (h : m ∈ rc l) : ∃ m' ∈ l, m'.var = m.var := by
  unfold rc at h
  obtain ⟨m', hm', rfl⟩ := List.mem_map.1 h
  exact ⟨m', List.mem_reverse.1 hm', rfl⟩

theorem mem_regionOf {r : List Nuc × Bool} {m : Nuc} (h : m ∈ regionOf r) : ∃ m' ∈ r.1, m'.var = m.var := by
  unfold regionOf at h
  split at h
  · exact mem_rc h
  · exact ⟨m, h, rfl⟩

@[simp] theorem length_fwd (s : String) (n : Nat) : (fwd s n).length = n := by simp [fwd]
@[simp] theorem length_rc (l : List Nuc) : (rc l).length = l.length := by simp [rc]
@[simp] theorem length_regionOf (r : List Nuc × Bool) : (regionOf r).length = r.1.length := by
  unfold regionOf; split <;> simp

/-- when `W` carries the reverse complement of `S`, variable by variable -/
theorem vs_wc_of (a : Var → β) (sName wName : String) (n : Nat)
    (hw : ∀ k, k < n → a ⟨wName, k⟩ = compl (a ⟨sName, n - 1 - k⟩)) :
    vs compl a (fwd wName n) = rcv compl (vs compl a (fwd sName n)) := by
  apply List.ext_getElem
  · simp [vs, rcv]
  · intro k h1 _
    have hk : k < n := by simpa [vs] using h1
    simp only [vs, rcv, fwd, List.getElem_map, List.getElem_reverse, List.getElem_range, List.length_map,
      List.length_range, valG, Bool.false_eq_true, if_false]
    exact hw k hk

/-- **The signal connector, exactly.**  One signal `S` of length `n` with auxiliary sequence `W` and bound
    regions `Rᵢ` (flag = complementary binding), none of which mentions `S` or `W`.  An assignment `a`
    of the other variables extends to `S`, `W` satisfying the duplex `S-_Self` over `W S` and, per
    region, the duplex over `S Rᵢ` (complementary) or `W Rᵢ` (equal)  **iff**  it extends to `S` alone
    satisfying the source's `equals` entry `[S, R₁', …]` with `Rᵢ' = rc Rᵢ` for a complementary binding. -/
theorem signal_gadget_equiv (hcc : ∀ b, compl (compl b) = b) (n : Nat) (sName wName : String)
    (hne : sName ≠ wName) (Rs : List (List Nuc × Bool)) (hlen : ∀ r ∈ Rs, r.1.length = n)
    (hfresh : ∀ r ∈ Rs, ∀ m ∈ r.1, m.var.dom ≠ sName ∧ m.var.dom ≠ wName) (a : Var → β) :
    (∃ a', (∀ v : Var, v.dom ≠ sName → v.dom ≠ wName → a' v = a v) ∧
        GadgetSat (compl := compl) a' n (fwd sName n) (fwd wName n) Rs) ↔
    (∃ a'', (∀ v : Var, v.dom ≠ sName → a'' v = a v) ∧
        EqualSat compl a'' (fwd sName n :: Rs.map regionOf)) := by
  have hlen' : ∀ r ∈ Rs.map regionOf, r.length = n := by
    intro r hr
    obtain ⟨r0, hr0, rfl⟩ := List.mem_map.1 hr
    simp [hlen r0 hr0]
  constructor
  · rintro ⟨a', hag, hg⟩
    refine ⟨fun v => if v.dom = wName then a v else a' v, ?_, ?_⟩
    · intro v hv
      by_cases hw : v.dom = wName
      · simp [hw]
      · simp [hw, hag v hv hw]
    · rw [equalSat_iff _ (length_fwd sName n) hlen']
      intro r hr
      obtain ⟨r0, hr0, rfl⟩ := List.mem_map.1 hr
      have e1 : vs compl (fun v => if v.dom = wName then a v else a' v) (regionOf r0) = vs compl a' (regionOf r0) := by
        apply vs_congr
        intro m hm
        obtain ⟨m', hm', e⟩ := mem_regionOf hm
        have := (hfresh r0 hr0 m' hm').2
        rw [e] at this
        simp [this]
      have e2 : vs compl (fun v => if v.dom = wName then a v else a' v) (fwd sName n) = vs compl a' (fwd sName n) := by
        apply vs_congr
        intro m hm
        have := (mem_fwd hm).1
        simp [this, hne]
      rw [e1, e2]
      exact gadget_forces hcc a' (length_fwd sName n) (length_fwd wName n) hlen hg r0 hr0
  · rintro ⟨a'', hag, he⟩
    let a' : Var → β := fun v => if v.dom = wName then compl (a'' ⟨sName, n - 1 - v.idx⟩) else a'' v
    refine ⟨a', ?_, ?_⟩
    · intro v hs hw
      simp [a', hw, hag v hs]
    · rw [equalSat_iff _ (length_fwd sName n) hlen'] at he
      have eS : vs compl a' (fwd sName n) = vs compl a'' (fwd sName n) := by
        apply vs_congr
        intro m hm
        have := (mem_fwd hm).1
        simp [a', this, hne]
      apply gadget_holds hcc a' (length_fwd sName n) (length_fwd wName n) hlen
      · apply vs_wc_of
        intro k _
        simp [a', hne]
      · intro r hr
        have e1 : vs compl a' (regionOf r) = vs compl a'' (regionOf r) := by
          apply vs_congr
          intro m hm
          obtain ⟨m', hm', e⟩ := mem_regionOf hm
          have := (hfresh r hr m' hm').2
          rw [e] at this
          simp [a', this]
        rw [e1, eS]
        exact he (regionOf r) (List.mem_map.2 ⟨r, hr, rfl⟩)

end Gadget

/-! ### the document and the design of a list of blocks -/

theorem val_eq (a : Var → Base) (n : Nuc) : val a n = valG Base.compl a n := rfl

theorem base_cc (b : Base) : b.compl.compl = b := by cases b <;> rfl

/-- the auxiliary sequence lines of a block -/
def wcLines : Block → List (String × List Char)
  | .comp _ => []
  | .signal pfx sg len _ => [(wcName pfx sg, List.replicate len 'N')]

theorem seqLines_block (b : Block) : seqLines (blockDoc b) = (blockDesign b).domains ++ wcLines b := by
  cases b with
  | comp st => simp [blockDoc, blockDesign, wcLines, seqLines_compDoc, compDesign]
  | signal pfx sg len es => simp [blockDoc, blockDesign, wcLines, seqLines_signalDoc, signalDesign]

theorem structs_block (b : Block) :
    (blockDesign b).structs = match b with
      | .comp st => st.structs.map (fun e => ⟨st.pfx ++ e.name, e.strands.map (st.pfx ++ ·), e.struct, optOfDec e.opt⟩)
      | .signal _ _ _ _ => [] := by
  cases b <;> rfl

theorem domains_sub {bs : List Block} {q : String × List Char} (h : q ∈ (designOfBlocks bs).domains) :
    q ∈ seqLines (docOf bs) := by
  rw [seqLines_docOf]
  obtain ⟨b, hb, hq⟩ := List.mem_flatMap.1 h
  exact List.mem_flatMap.2 ⟨b, hb, by rw [seqLines_block]; exact List.mem_append_left _ hq⟩

theorem seqNames_docOf (bs : List Block) :
    (seqLines (docOf bs)).map (·.1) = bs.flatMap (fun b => (seqLines (blockDoc b)).map (·.1)) := by
  rw [seqLines_docOf, List.map_flatMap]

theorem assignNames_docOf (bs : List Block) :
    (assignLines (docOf bs)).map (·.1) = bs.flatMap (fun b => (assignLines (blockDoc b)).map (·.1)) := by
  rw [assignLines_docOf, List.map_flatMap]

/-- a domain of the program is never an auxiliary `-_WC` sequence -/
theorem wc_fresh {bs : List Block} (ok : BlocksOk bs) {q : String × List Char} (hq : q ∈ (designOfBlocks bs).domains)
    {pfx sg : String} {len : Nat} {es : List SigEntry} (hb : Block.signal pfx sg len es ∈ bs) :
    q.1 ≠ wcName pfx sg := by
  intro e
  obtain ⟨b1, hb1, hq1⟩ := List.mem_flatMap.1 hq
  have hn := ok.seqNames
  rw [seqNames_docOf] at hn
  have m1 : q.1 ∈ (seqLines (blockDoc b1)).map (·.1) := by
    rw [seqLines_block]; exact List.mem_map.2 ⟨q, List.mem_append_left _ hq1, rfl⟩
  have m2 : q.1 ∈ (seqLines (blockDoc (Block.signal pfx sg len es))).map (·.1) := by
    rw [e]; simp [blockDoc, seqLines_signalDoc]
  have := nodup_flatMap_inj hn hb1 hb m1 m2
  subst this
  have inner := nodup_flatMap_inner hn hb
  simp only [blockDoc, seqLines_signalDoc, List.map_cons, List.map_nil] at inner
  simp only [blockDesign, signalDesign, Design.empty, List.mem_singleton] at hq1
  subst hq1
  simp only [List.nodup_cons, List.mem_singleton] at inner
  exact inner.1 e

theorem seqLen_of {bs : List Block} (ok : BlocksOk bs) {x : String} {t : List Char} (h : (x, t) ∈ seqLines (docOf bs)) :
    seqLen (docOf bs) x = t.length := by
  unfold seqLen
  rw [lookup_of_mem ok.seqNames h]

theorem seqLen_resolves {bs : List Block} (ok : BlocksOk bs) {lines : List (String × List Char)}
    (hsub : ∀ q ∈ lines, q ∈ seqLines (docOf bs)) {x : String} {l : Nat} (h : Resolves lines x l) :
    seqLen (docOf bs) x = l := by
  obtain ⟨⟨x', t⟩, hq, rfl, rfl⟩ := h
  exact seqLen_of ok (hsub _ hq)

theorem nucsB_of_len_zero (p : String) (b : BaseRef) (h : b.len = 0) : nucsB p b = [] := by
  unfold nucsB; simp [h, rc, fwd]

theorem cnucs_filter (p : String) (bs : List BaseRef) : cnucs p (bs.filter (·.len != 0)) = cnucs p bs := by
  induction bs with
  | nil => rfl
  | cons b r ih =>
    by_cases h : b.len = 0
    · simp [cnucs, h, nucsB_of_len_zero] at ih ⊢; exact ih
    · simp [cnucs, h] at ih ⊢; exact ih

theorem itemNucs_base (doc : DesDoc) (p : String) (b : BaseRef) (h : seqLen doc (p ++ b.name) = b.len) :
    itemNucs doc (baseItem p b) = nucsB p b := by
  simp [itemNucs, baseItem, nucsB, h]

theorem flatMap_itemNucs_bases (doc : DesDoc) (p : String) (bs : List BaseRef)
    (h : ∀ b ∈ bs, b.len ≠ 0 → seqLen doc (p ++ b.name) = b.len) :
    ((bs.filter (·.len != 0)).map (baseItem p)).flatMap (itemNucs doc) = cnucs p bs := by
  rw [← cnucs_filter, cnucs, List.flatMap_map]
  apply flatMap_congr'
  intro b hb
  rw [List.mem_filter] at hb
  exact itemNucs_base doc p b (h b hb.1 (by simpa using hb.2))

theorem desPositions_of {bs : List Block} (ok : BlocksOk bs) {name : String} {its : List Item}
    (h : (name, its) ∈ assignLines (docOf bs)) : desPositions (docOf bs) name = its.flatMap (itemNucs (docOf bs)) := by
  unfold desPositions
  rw [lookup_of_mem ok.structNames h]

theorem mem_assign_block {bs : List Block} {b : Block} (hb : b ∈ bs) {x : String × List Item}
    (hx : x ∈ assignLines (blockDoc b)) : x ∈ assignLines (docOf bs) := by
  rw [assignLines_docOf]; exact List.mem_flatMap.2 ⟨b, hb, hx⟩

theorem mem_seq_block {bs : List Block} {b : Block} (hb : b ∈ bs) {x : String × List Char}
    (hx : x ∈ seqLines (blockDoc b)) : x ∈ seqLines (docOf bs) := by
  rw [seqLines_docOf]; exact List.mem_flatMap.2 ⟨b, hb, hx⟩

/-- DES side of `positions_agree` -/
theorem desPositions_comp {bs : List Block} (ok : BlocksOk bs) {st : Comp.St} (hb : Block.comp st ∈ bs)
    {e : StructE} (he : e ∈ st.structs) :
    desPositions (docOf bs) (st.pfx ++ e.name) = cnucs st.pfx e.bases := by
  have hA : (st.pfx ++ e.name, (e.bases.filter (·.len != 0)).map (baseItem st.pfx)) ∈ assignLines (docOf bs) := by
    apply mem_assign_block hb
    simp only [blockDoc, assignLines_compDoc]
    exact List.mem_map.2 ⟨e, he, rfl⟩
  rw [desPositions_of ok hA]
  apply flatMap_itemNucs_bases
  intro b hbm hne
  have cok : CompOk st := ok.blocks _ hb
  exact seqLen_resolves ok (fun q hq => mem_seq_block hb hq) (cok.2 e he b hbm hne)

theorem strandNucs_of {bs : List Block} (ok : BlocksOk bs) {x : String × Bool × List Nuc}
    (hx : x ∈ (designOfBlocks bs).strands) : strandNucs (designOfBlocks bs) x.1 = x.2.2 := by
  unfold strandNucs
  rw [find?_of_mem (·.1) ok.strandNames hx]

theorem cnucs_flatMap {α} (p : String) (l : List α) (f : α → List BaseRef) :
    cnucs p (l.flatMap f) = l.flatMap (fun x => cnucs p (f x)) := by
  simp [cnucs, List.flatMap_assoc]

/-- design side of `positions_agree` -/
theorem structNucs_comp {bs : List Block} (ok : BlocksOk bs) {st : Comp.St} (hb : Block.comp st ∈ bs)
    {e : StructE} (he : e ∈ st.structs) (o : Opt) :
    structNucs (designOfBlocks bs) ⟨st.pfx ++ e.name, e.strands.map (st.pfx ++ ·), e.struct, o⟩ = cnucs st.pfx e.bases := by
  have cok : CompOk st := ok.blocks _ hb
  obtain ⟨hfound, hbases⟩ := cok.1 e he
  unfold structNucs
  rw [hbases, cnucs_flatMap, List.flatMap_map]
  apply flatMap_congr'
  intro n hn
  have hs := hfound n hn
  cases hf : st.findStrand n with
  | none => simp [hf] at hs
  | some t =>
    have ht := List.find?_some hf
    have htm := List.mem_of_find?_eq_some hf
    have hname : t.name = n := by simpa using ht
    have hx : (st.pfx ++ t.name, t.dummy, cnucs st.pfx t.bases) ∈ (designOfBlocks bs).strands :=
      List.mem_flatMap.2 ⟨_, hb, List.mem_map.2 ⟨t, htm, rfl⟩⟩
    have := strandNucs_of ok hx
    simp only at this
    rw [hname] at this
    rw [this]

/-! ### positions of the connector structures -/

theorem mem_nucsB {p : String} {b : BaseRef} {m : Nuc} (h : m ∈ nucsB p b) : m.var.dom = p ++ b.name ∧ b.len ≠ 0 := by
  unfold nucsB at h
  split at h
  · obtain ⟨m', hm', e⟩ := mem_rc h
    have := mem_fwd hm'
    exact ⟨by rw [← e]; exact this.1, by omega⟩
  · have := mem_fwd h
    exact ⟨this.1, by omega⟩

theorem nucsB_length (p : String) (b : BaseRef) : (nucsB p b).length = b.len := by
  unfold nucsB; split <;> simp

theorem cnucs_length (p : String) (bs : List BaseRef) : (cnucs p bs).length = (bs.map (·.len)).sum := by
  induction bs with
  | nil => rfl
  | cons b r ih => simp [cnucs, nucsB_length] at ih ⊢

section Signal
variable {bs : List Block} (ok : BlocksOk bs) {pfx sg : String} {len : Nat} {es : List SigEntry}
  (hb : Block.signal pfx sg len es ∈ bs)
include ok hb

theorem seqLen_sig : seqLen (docOf bs) (pfx ++ sg) = len := by
  have : (pfx ++ sg, List.replicate len 'N') ∈ seqLines (docOf bs) :=
    mem_seq_block hb (by simp [blockDoc, seqLines_signalDoc])
  rw [seqLen_of ok this]; simp

theorem seqLen_wc : seqLen (docOf bs) (wcName pfx sg) = len := by
  have : (wcName pfx sg, List.replicate len 'N') ∈ seqLines (docOf bs) :=
    mem_seq_block hb (by simp [blockDoc, seqLines_signalDoc])
  rw [seqLen_of ok this]; simp

theorem self_positions :
    desPositions (docOf bs) (pfx ++ sg ++ "-_Self") = fwd (wcName pfx sg) len ++ fwd (pfx ++ sg) len := by
  have hA : (pfx ++ sg ++ "-_Self", [(⟨wcName pfx sg, false⟩ : Item), ⟨pfx ++ sg, false⟩]) ∈ assignLines (docOf bs) :=
    mem_assign_block hb (by simp [blockDoc, assignLines_signalDoc])
  rw [desPositions_of ok hA]
  simp [itemNucs, seqLen_sig ok hb, seqLen_wc ok hb]

theorem port_items_nucs {e : SigEntry} (he : e ∈ es) :
    (portItems pfx e).2.flatMap (itemNucs (docOf bs)) = portNucs pfx len e := by
  have eok : EntryOk (designOfBlocks bs).domains pfx len e := (ok.blocks _ hb).1 e he
  have sub : ∀ q ∈ (designOfBlocks bs).domains, q ∈ seqLines (docOf bs) := fun q hq => domains_sub hq
  unfold EntryOk at eok
  unfold portItems portNucs
  cases hp : e.port with
  | seq i bases =>
    simp only [hp] at eok ⊢
    by_cases hs : i.isSup = true
    · simp only [hs, if_true] at eok ⊢
      apply flatMap_itemNucs_bases
      intro b hbm hne
      exact seqLen_resolves ok sub (eok.2 b hbm hne)
    · simp only [hs, Bool.false_eq_true, if_false] at eok ⊢
      simp [itemNucs, seqLen_resolves ok sub eok.2, eok.1]
  | sig n =>
    simp only [hp] at eok ⊢
    simp [itemNucs, seqLen_resolves ok sub eok]

theorem entry_positions {e : SigEntry} (he : e ∈ dedupEntries es) :
    desPositions (docOf bs) (pfx ++ sg ++ "-" ++ (portItems pfx e).1 ++ rcSuffix es e) =
      (if e.wc then fwd (pfx ++ sg) len else fwd (wcName pfx sg) len) ++ portNucs pfx len e := by
  have hA : (pfx ++ sg ++ "-" ++ (portItems pfx e).1 ++ rcSuffix es e,
      (⟨if e.wc then pfx ++ sg else wcName pfx sg, false⟩ : Item) :: (portItems pfx e).2) ∈ assignLines (docOf bs) := by
    apply mem_assign_block hb
    simp only [blockDoc, assignLines_signalDoc]
    exact List.mem_cons_of_mem _ (List.mem_map.2 ⟨e, he, rfl⟩)
  rw [desPositions_of ok hA, List.flatMap_cons, port_items_nucs ok hb (dedupEntries_sub he)]
  congr 1
  cases e.wc <;> simp [itemNucs, seqLen_sig ok hb, seqLen_wc ok hb]

theorem portNucs_length {e : SigEntry} (he : e ∈ es) : (portNucs pfx len e).length = len := by
  have eok : EntryOk (designOfBlocks bs).domains pfx len e := (ok.blocks _ hb).1 e he
  unfold EntryOk at eok
  unfold portNucs
  cases hp : e.port with
  | seq i bases =>
    simp only [hp] at eok ⊢
    by_cases hs : i.isSup = true
    · simp only [hs, if_true] at eok ⊢
      rw [cnucs_length, eok.1]
    · simp only [hs, Bool.false_eq_true, if_false] at eok ⊢
      simp [eok.1]
  | sig n => simp

/-- the nucleotides of a bound port lie on domains of the program -/
theorem portNucs_dom {e : SigEntry} (he : e ∈ es) {m : Nuc} (hm : m ∈ portNucs pfx len e) :
    ∃ q ∈ (designOfBlocks bs).domains, q.1 = m.var.dom := by
  have eok : EntryOk (designOfBlocks bs).domains pfx len e := (ok.blocks _ hb).1 e he
  unfold EntryOk at eok
  unfold portNucs at hm
  cases hp : e.port with
  | seq i bases =>
    simp only [hp] at eok hm
    by_cases hs : i.isSup = true
    · simp only [hs, if_true] at eok hm
      obtain ⟨b, hbm, hmb⟩ := List.mem_flatMap.1 hm
      obtain ⟨hd, hne⟩ := mem_nucsB hmb
      obtain ⟨q, hq, hq1, _⟩ := eok.2 b hbm hne
      exact ⟨q, hq, by rw [hq1, hd]⟩
    · simp only [hs, Bool.false_eq_true, if_false] at eok hm
      obtain ⟨q, hq, hq1, _⟩ := eok.2
      exact ⟨q, hq, by rw [hq1, (mem_fwd hm).1]⟩
  | sig n =>
    simp only [hp] at eok hm
    obtain ⟨q, hq, hq1, _⟩ := eok
    exact ⟨q, hq, by rw [hq1, (mem_fwd hm).1]⟩

omit ok in
theorem sig_domain : (pfx ++ sg, List.replicate len 'N') ∈ (designOfBlocks bs).domains :=
  List.mem_flatMap.2 ⟨_, hb, by simp [blockDesign, signalDesign]⟩

end Signal

/-- the nucleotides of a component structure lie on domains of the program -/
theorem comp_struct_dom {bs : List Block} (ok : BlocksOk bs) {st : Comp.St} (hb : Block.comp st ∈ bs)
    {e : StructE} (he : e ∈ st.structs) {m : Nuc} (hm : m ∈ cnucs st.pfx e.bases) :
    ∃ q ∈ (designOfBlocks bs).domains, q.1 = m.var.dom := by
  have cok : CompOk st := ok.blocks _ hb
  obtain ⟨b, hbm, hmb⟩ := List.mem_flatMap.1 hm
  obtain ⟨hd, hne⟩ := mem_nucsB hmb
  obtain ⟨q, hq, hq1, _⟩ := cok.2 e he b hbm hne
  refine ⟨q, List.mem_flatMap.2 ⟨_, hb, ?_⟩, by rw [hq1, hd]⟩
  have := seqLines_block (Block.comp st)
  simp only [wcLines, List.append_nil, blockDoc] at this
  rw [← this]; exact hq

/-! ### the two directions -/

theorem mem_desLinks {doc : DesDoc} {l : Nuc × Nuc} :
    l ∈ desLinks doc ↔ ∃ s ∈ structLines doc, l ∈ pairLinksOn s.2 (desPositions doc s.1) := by
  unfold desLinks
  rw [List.mem_flatMap]

theorem satDes_pair_iff {doc : DesDoc} {a : Var → Base} :
    (∀ l ∈ desLinks doc, val a l.1 = (val a l.2).compl) ↔
      ∀ s ∈ structLines doc, PairSat Base.compl a s.2 (desPositions doc s.1) := by
  constructor
  · intro h s hs x hx
    exact h x (mem_desLinks.2 ⟨s, hs, hx⟩)
  · intro h l hl
    obtain ⟨s, hs, hx⟩ := mem_desLinks.1 hl
    exact h s hs l hx

theorem mem_struct_block {bs : List Block} {b : Block} (hb : b ∈ bs) {x : String × List Char}
    (hx : x ∈ structLines (blockDoc b)) : x ∈ structLines (docOf bs) := by
  rw [structLines_docOf]; exact List.mem_flatMap.2 ⟨b, hb, hx⟩

/-- the connector structures of a signal block hold under `a` iff `GadgetSat` does -/
theorem gadget_of_block {bs : List Block} (ok : BlocksOk bs) {pfx sg : String} {len : Nat} {es : List SigEntry}
    (hb : Block.signal pfx sg len es ∈ bs) (a : Var → Base) :
    (∀ s ∈ structLines (blockDoc (Block.signal pfx sg len es)), PairSat Base.compl a s.2 (desPositions (docOf bs) s.1)) ↔
    GadgetSat (compl := Base.compl) a len (fwd (pfx ++ sg) len) (fwd (wcName pfx sg) len)
      (es.map (fun e => (portNucs pfx len e, e.wc))) := by
  unfold GadgetSat
  simp only [blockDoc, structLines_signalDoc, List.forall_mem_cons, List.forall_mem_map]
  rw [self_positions ok hb]
  apply and_congr Iff.rfl
  have hd : SameDup es := (ok.blocks _ hb).2
  constructor
  · intro h e he
    have hde := mem_dedup_of_same hd he
    have := h e hde
    rw [entry_positions ok hb hde] at this
    cases hw : e.wc <;> simpa [hw] using this
  · intro h e he
    rw [entry_positions ok hb he]
    have := h e (dedupEntries_sub he)
    cases hw : e.wc <;> simpa [hw] using this

theorem regionOf_port (pfx : String) (len : Nat) (e : SigEntry) :
    regionOf (portNucs pfx len e, e.wc) = portRegion pfx len e := rfl

/-- every solution of the document is a solution of the design -/
theorem satDes_sat (tbl : CodeTable) {bs : List Block} (ok : BlocksOk bs) {a : Var → Base}
    (h : SatDes tbl (docOf bs) a) : Sat tbl (designOfBlocks bs) a := by
  have hp := satDes_pair_iff.1 h.pair
  refine ⟨fun p hp' => h.tmpl p (domains_sub hp'), ?_, ?_⟩
  · intro e he
    obtain ⟨b, hb, heb⟩ := List.mem_flatMap.1 he
    cases b with
    | comp st => simp [blockDesign, compDesign] at heb
    | signal pfx sg len es =>
      simp only [blockDesign, signalDesign, Design.empty, List.mem_singleton] at heb
      subst heb
      have hg := (gadget_of_block ok hb a).1 (fun s hs => hp s (mem_struct_block hb hs))
      have hlen : ∀ r ∈ es.map (fun e => (portNucs pfx len e, e.wc)), r.1.length = len := by
        intro r hr
        obtain ⟨e, he, rfl⟩ := List.mem_map.1 hr
        exact portNucs_length ok hb he
      have hf := gadget_forces base_cc a (length_fwd _ len) (length_fwd _ len) hlen hg
      have : EqualSat Base.compl a (fwd (pfx ++ sg) len :: es.map (portRegion pfx len)) := by
        rw [equalSat_iff a (length_fwd _ len)]
        · intro r hr
          obtain ⟨e, he, rfl⟩ := List.mem_map.1 hr
          exact hf _ (List.mem_map.2 ⟨e, he, rfl⟩)
        · intro r hr
          obtain ⟨e, he, rfl⟩ := List.mem_map.1 hr
          unfold portRegion
          split <;> simp [portNucs_length ok hb he]
      exact this
  · intro s hs
    obtain ⟨b, hb, hsb⟩ := List.mem_flatMap.1 hs
    cases b with
    | signal pfx sg len es => simp [blockDesign, signalDesign, Design.empty] at hsb
    | comp st =>
      simp only [blockDesign, compDesign] at hsb
      obtain ⟨e, he, rfl⟩ := List.mem_map.1 hsb
      rw [structNucs_comp ok hb he]
      have hl : (st.pfx ++ e.name, e.struct) ∈ structLines (docOf bs) :=
        mem_struct_block hb (by simp only [blockDoc, structLines_compDoc]; exact List.mem_map.2 ⟨e, he, rfl⟩)
      have := hp _ hl
      rw [desPositions_comp ok hb he] at this
      exact pairSat_iff.1 this

/-- overwrite every auxiliary `S-_WC` with the reverse complement of its signal `S` -/
def fixW : List Block → (Var → Base) → Var → Base
  | [], a, v => a v
  | .comp _ :: r, a, v => fixW r a v
  | .signal pfx sg len _ :: r, a, v =>
    if v.dom = wcName pfx sg then (a ⟨pfx ++ sg, len - 1 - v.idx⟩).compl else fixW r a v

theorem fixW_other (l : List Block) (a : Var → Base) (v : Var)
    (h : ∀ pfx sg len es, Block.signal pfx sg len es ∈ l → v.dom ≠ wcName pfx sg) : fixW l a v = a v := by
  induction l with
  | nil => rfl
  | cons b r ih =>
    cases b with
    | comp st => exact ih (fun p s n es hm => h p s n es (List.mem_cons_of_mem _ hm))
    | signal pfx sg len es =>
      simp only [fixW]
      rw [if_neg (h pfx sg len es (by simp))]
      exact ih (fun p s n es hm => h p s n es (List.mem_cons_of_mem _ hm))

theorem fixW_wc (l : List Block) (a : Var → Base)
    (hinj : ∀ p1 s1 n1 e1 p2 s2 n2 e2, Block.signal p1 s1 n1 e1 ∈ l → Block.signal p2 s2 n2 e2 ∈ l →
      wcName p1 s1 = wcName p2 s2 → p1 ++ s1 = p2 ++ s2 ∧ n1 = n2)
    {pfx sg : String} {len : Nat} {es : List SigEntry} (hb : Block.signal pfx sg len es ∈ l) (k : Nat) :
    fixW l a ⟨wcName pfx sg, k⟩ = (a ⟨pfx ++ sg, len - 1 - k⟩).compl := by
  induction l with
  | nil => cases hb
  | cons b r ih =>
    cases b with
    | comp st =>
      simp only [fixW]
      rcases List.mem_cons.1 hb with e | hb'
      · cases e
      · exact ih (fun p1 s1 n1 e1 p2 s2 n2 e2 h1 h2 => hinj p1 s1 n1 e1 p2 s2 n2 e2
          (List.mem_cons_of_mem _ h1) (List.mem_cons_of_mem _ h2)) hb'
    | signal p' s' n' e' =>
      simp only [fixW]
      by_cases hw : wcName pfx sg = wcName p' s'
      · rw [if_pos hw]
        obtain ⟨e1, e2⟩ := hinj pfx sg len es p' s' n' e' hb (by simp) hw
        rw [e1, e2]
      · rw [if_neg hw]
        rcases List.mem_cons.1 hb with e | hb'
        · cases e; exact absurd rfl hw
        · exact ih (fun p1 s1 n1 e1 p2 s2 n2 e2 h1 h2 => hinj p1 s1 n1 e1 p2 s2 n2 e2
            (List.mem_cons_of_mem _ h1) (List.mem_cons_of_mem _ h2)) hb'

theorem wc_inj {bs : List Block} (ok : BlocksOk bs) :
    ∀ p1 s1 n1 e1 p2 s2 n2 e2, Block.signal p1 s1 n1 e1 ∈ bs → Block.signal p2 s2 n2 e2 ∈ bs →
      wcName p1 s1 = wcName p2 s2 → p1 ++ s1 = p2 ++ s2 ∧ n1 = n2 := by
  intro p1 s1 n1 e1 p2 s2 n2 e2 h1 h2 e
  have hn := ok.seqNames
  rw [seqNames_docOf] at hn
  have m1 : wcName p1 s1 ∈ (seqLines (blockDoc (Block.signal p1 s1 n1 e1))).map (·.1) := by
    simp [blockDoc, seqLines_signalDoc]
  have m2 : wcName p1 s1 ∈ (seqLines (blockDoc (Block.signal p2 s2 n2 e2))).map (·.1) := by
    rw [e]; simp [blockDoc, seqLines_signalDoc]
  have := nodup_flatMap_inj hn h1 h2 m1 m2
  cases this
  exact ⟨rfl, rfl⟩

/-- on the domains of the program `fixW` changes nothing -/
theorem fixW_domain {bs : List Block} (ok : BlocksOk bs) (a : Var → Base) {q : String × List Char}
    (hq : q ∈ (designOfBlocks bs).domains) (k : Nat) : fixW bs a ⟨q.1, k⟩ = a ⟨q.1, k⟩ :=
  fixW_other bs a _ (fun _ _ _ _ hm => wc_fresh ok hq hm)

theorem fixW_on {bs : List Block} (ok : BlocksOk bs) (a : Var → Base) {l : List Nuc}
    (h : ∀ m ∈ l, ∃ q ∈ (designOfBlocks bs).domains, q.1 = m.var.dom) : ∀ m ∈ l, fixW bs a m.var = a m.var := by
  intro m hm
  obtain ⟨q, hq, e⟩ := h m hm
  have := fixW_domain ok a hq m.var.idx
  rw [e] at this
  exact this

/-- every solution of the design becomes a solution of the document once every `S-_WC` is set to the
    reverse complement of `S` -/
theorem sat_satDes (tbl : CodeTable) (hN : ∀ b, allows tbl 'N' b) {bs : List Block} (ok : BlocksOk bs)
    {a : Var → Base} (h : Sat tbl (designOfBlocks bs) a) : SatDes tbl (docOf bs) (fixW bs a) := by
  refine ⟨?_, satDes_pair_iff.2 ?_⟩
  · intro p hp k c hc
    rw [seqLines_docOf] at hp
    obtain ⟨b, hb, hpb⟩ := List.mem_flatMap.1 hp
    rw [seqLines_block] at hpb
    rcases List.mem_append.1 hpb with hd | hw
    · have hq : p ∈ (designOfBlocks bs).domains := List.mem_flatMap.2 ⟨b, hb, hd⟩
      rw [fixW_domain ok a hq k]
      exact h.tmpl p hq k c hc
    · cases b with
      | comp st => simp [wcLines] at hw
      | signal pfx sg len es =>
        simp only [wcLines, List.mem_singleton] at hw
        subst hw
        have : c = 'N' := by
          simp only at hc
          exact (List.mem_replicate.1 (List.mem_of_getElem? hc)).2
        subst this
        exact hN _
  · intro s hs
    rw [structLines_docOf] at hs
    obtain ⟨b, hb, hsb⟩ := List.mem_flatMap.1 hs
    cases b with
    | comp st =>
      simp only [blockDoc, structLines_compDoc] at hsb
      obtain ⟨e, he, rfl⟩ := List.mem_map.1 hsb
      simp only
      rw [desPositions_comp ok hb he,
        pairSat_congr (fixW_on ok a (fun m hm => comp_struct_dom ok hb he hm))]
      have hsD : (⟨st.pfx ++ e.name, e.strands.map (st.pfx ++ ·), e.struct, optOfDec e.opt⟩ : StructD) ∈
          (designOfBlocks bs).structs :=
        List.mem_flatMap.2 ⟨_, hb, List.mem_map.2 ⟨e, he, rfl⟩⟩
      have := h.pair _ hsD
      rw [structNucs_comp ok hb he] at this
      exact pairSat_iff.2 this
    | signal pfx sg len es =>
      refine (gadget_of_block ok hb (fixW bs a)).2 ?_ s hsb
      have hlen : ∀ r ∈ es.map (fun e => (portNucs pfx len e, e.wc)), r.1.length = len := by
        intro r hr
        obtain ⟨e, he, rfl⟩ := List.mem_map.1 hr
        exact portNucs_length ok hb he
      have hSd := sig_domain hb
      have eS : vs Base.compl (fixW bs a) (fwd (pfx ++ sg) len) = vs Base.compl a (fwd (pfx ++ sg) len) := by
        apply vs_congr
        apply fixW_on ok a
        intro m hm
        exact ⟨_, hSd, (mem_fwd hm).1.symm⟩
      apply gadget_holds base_cc _ (length_fwd _ len) (length_fwd _ len) hlen
      · apply vs_wc_of
        intro k _
        rw [fixW_wc bs a (wc_inj ok) hb k]
        have := fixW_domain ok a hSd (len - 1 - k)
        simp only at this
        rw [this]
      · intro r hr
        obtain ⟨e, he, rfl⟩ := List.mem_map.1 hr
        have e1 : vs Base.compl (fixW bs a) (regionOf (portNucs pfx len e, e.wc)) =
            vs Base.compl a (regionOf (portNucs pfx len e, e.wc)) := by
          apply vs_congr
          intro m hm
          obtain ⟨m', hm', ev⟩ := mem_regionOf hm
          have := fixW_on ok a (fun m hm => portNucs_dom ok hb he hm) m' hm'
          rw [ev] at this
          exact this
        rw [e1, eS]
        have hE : (fwd (pfx ++ sg) len :: es.map (portRegion pfx len)) ∈ (designOfBlocks bs).equals :=
          List.mem_flatMap.2 ⟨_, hb, by simp [blockDesign, signalDesign, Design.empty]⟩
        have hes : EqualSat Base.compl a (fwd (pfx ++ sg) len :: es.map (portRegion pfx len)) := h.equal _ hE
        rw [equalSat_iff a (length_fwd _ len)] at hes
        · exact hes _ (List.mem_map.2 ⟨e, he, rfl⟩)
        · intro r hr
          obtain ⟨e', he', rfl⟩ := List.mem_map.1 hr
          unfold portRegion
          split <;> simp [portNucs_length ok hb he']

/-! ### the four line kinds, by name -/

theorem structNames_block (b : Block) :
    (structLines (blockDoc b)).map (·.1) = (assignLines (blockDoc b)).map (·.1) := by
  cases b with
  | comp st => simp [blockDoc, structLines_compDoc, assignLines_compDoc]
  | signal pfx sg len es => simp [blockDoc, structLines_signalDoc, assignLines_signalDoc]

theorem structNames_docOf (bs : List Block) :
    (structLines (docOf bs)).map (·.1) = (assignLines (docOf bs)).map (·.1) := by
  rw [structLines_docOf, assignLines_docOf, List.map_flatMap, List.map_flatMap]
  exact flatMap_congr' (fun b _ => structNames_block b)

theorem boundNames_sublist (bs : List Block) :
    ((boundLines (docOf bs)).map (·.1)).Sublist ((assignLines (docOf bs)).map (·.1)) := by
  rw [boundLines_docOf, assignLines_docOf, List.map_flatMap, List.map_flatMap]
  apply sublist_flatMap
  intro b _
  cases b with
  | comp st =>
    simp only [blockDoc, boundLines_compDoc, assignLines_compDoc, List.map_map]
    exact (List.filter_sublist).map _
  | signal pfx sg len es => simp [blockDoc, boundLines_signalDoc]

theorem designStructNames_sublist (bs : List Block) :
    ((designOfBlocks bs).structs.map (·.name)).Sublist ((assignLines (docOf bs)).map (·.1)) := by
  show ((bs.flatMap (fun b => (blockDesign b).structs)).map (·.name)).Sublist _
  rw [assignLines_docOf, List.map_flatMap, List.map_flatMap]
  apply sublist_flatMap
  intro b _
  cases b with
  | comp st =>
    simp only [blockDoc, blockDesign, compDesign, assignLines_compDoc, List.map_map]
    exact List.Sublist.refl _
  | signal pfx sg len es => simp [blockDesign, signalDesign, Design.empty]

/-- a bound line with the name of a component structure is that structure's bound line -/
theorem bound_of_name {bs : List Block} (hn : ((assignLines (docOf bs)).map (·.1)).Nodup) {st : Comp.St}
    (hb : Block.comp st ∈ bs) {e : StructE} (he : e ∈ st.structs) {t : String}
    (ht : (st.pfx ++ e.name, t) ∈ boundLines (docOf bs)) : e.opt.isZero = false ∧ t = String.ofList e.opt.fmtF := by
  rw [boundLines_docOf] at ht
  obtain ⟨b', hb', htb⟩ := List.mem_flatMap.1 ht
  rw [assignNames_docOf] at hn
  cases b' with
  | signal pfx sg len es => simp [blockDoc, boundLines_signalDoc] at htb
  | comp st' =>
    simp only [blockDoc, boundLines_compDoc] at htb
    obtain ⟨e', he', heq⟩ := List.mem_map.1 htb
    rw [List.mem_filter] at he'
    have hname : st'.pfx ++ e'.name = st.pfx ++ e.name := (Prod.mk.inj heq).1
    have m1 : st.pfx ++ e.name ∈ (assignLines (blockDoc (Block.comp st))).map (·.1) := by
      simp only [blockDoc, assignLines_compDoc, List.map_map]
      exact List.mem_map.2 ⟨e, he, rfl⟩
    have m2 : st.pfx ++ e.name ∈ (assignLines (blockDoc (Block.comp st'))).map (·.1) := by
      simp only [blockDoc, assignLines_compDoc, List.map_map]
      exact List.mem_map.2 ⟨e', he'.1, hname⟩
    have := nodup_flatMap_inj hn hb hb' m1 m2
    cases this
    have inner := nodup_flatMap_inner hn hb
    simp only [blockDoc, assignLines_compDoc, List.map_map] at inner
    have ee : e' = e := nodup_map_inj inner he'.1 he (by simpa using hname)
    subst ee
    exact ⟨by simpa using he'.2, (Prod.mk.inj heq).2.symm⟩

/-- every structure of every component of the tree is listed exactly once: one `structure` line with its
    target, one assignment line with its non-dummy base sequences in order, and a bound line iff its
    optimisation parameter is non-zero -/
theorem lists_blocks {bs : List Block} (hn : ((assignLines (docOf bs)).map (·.1)).Nodup) {st : Comp.St}
    (hb : Block.comp st ∈ bs) {e : StructE} (he : e ∈ st.structs) :
    (structLines (docOf bs)).filter (·.1 == st.pfx ++ e.name) = [(st.pfx ++ e.name, e.struct)] ∧
    (assignLines (docOf bs)).filter (·.1 == st.pfx ++ e.name) =
      [(st.pfx ++ e.name, (e.bases.filter (·.len != 0)).map (fun b => ⟨st.pfx ++ b.name, b.rev⟩))] ∧
    (boundLines (docOf bs)).filter (·.1 == st.pfx ++ e.name) =
      if e.opt.isZero then [] else [(st.pfx ++ e.name, String.ofList e.opt.fmtF)] := by
  refine ⟨?_, ?_, ?_⟩
  · apply filter_eq_singleton (by rw [structNames_docOf]; exact hn)
    exact mem_struct_block hb (by simp only [blockDoc, structLines_compDoc]; exact List.mem_map.2 ⟨e, he, rfl⟩)
  · apply filter_eq_singleton hn
    exact mem_assign_block hb (by simp only [blockDoc, assignLines_compDoc]; exact List.mem_map.2 ⟨e, he, rfl⟩)
  · cases hz : e.opt.isZero
    · simp only [Bool.false_eq_true, if_false]
      apply filter_eq_singleton ((boundNames_sublist bs).nodup hn)
      rw [boundLines_docOf]
      refine List.mem_flatMap.2 ⟨_, hb, ?_⟩
      simp only [blockDoc, boundLines_compDoc]
      exact List.mem_map.2 ⟨e, List.mem_filter.2 ⟨he, by simp [hz]⟩, rfl⟩
    · simp only [if_true]
      rw [List.filter_eq_nil_iff]
      intro z hz' hk
      have hk' : z.1 = st.pfx ++ e.name := by simpa using hk
      have : (st.pfx ++ e.name, z.2) ∈ boundLines (docOf bs) := by rw [← hk']; exact hz'
      have := (bound_of_name hn hb he this).1
      rw [hz] at this; cases this

/-- `positions_agree`, both sides, for a list of blocks -/
theorem positions_blocks {bs : List Block} (ok : BlocksOk bs) {st : Comp.St} (hb : Block.comp st ∈ bs)
    {e : StructE} (he : e ∈ st.structs) :
    desPositions (docOf bs) (st.pfx ++ e.name) = cnucs st.pfx e.bases ∧
    designPositions (designOfBlocks bs) (st.pfx ++ e.name) = cnucs st.pfx e.bases := by
  refine ⟨desPositions_comp ok hb he, ?_⟩
  unfold designPositions
  have hsD : (⟨st.pfx ++ e.name, e.strands.map (st.pfx ++ ·), e.struct, optOfDec e.opt⟩ : StructD) ∈
      (designOfBlocks bs).structs :=
    List.mem_flatMap.2 ⟨_, hb, List.mem_map.2 ⟨e, he, rfl⟩⟩
  have := find?_of_mem (·.name) ((designStructNames_sublist bs).nodup ok.structNames) hsD
  simp only at this
  rw [this]
  exact structNucs_comp ok hb he _

/-- the names of the components' base sequences: the program's own domain variables -/
def compDomains (bs : List Block) : List String :=
  bs.flatMap (fun b => match b with | .comp st => (seqLines (compDoc st)).map (·.1) | .signal _ _ _ _ => [])

theorem compDomains_sub {bs : List Block} {x : String} (h : x ∈ compDomains bs) :
    ∃ q ∈ (designOfBlocks bs).domains, q.1 = x := by
  obtain ⟨b, hb, hx⟩ := List.mem_flatMap.1 h
  cases b with
  | signal pfx sg len es => cases hx
  | comp st =>
    obtain ⟨q, hq, rfl⟩ := List.mem_map.1 hx
    refine ⟨q, List.mem_flatMap.2 ⟨_, hb, ?_⟩, rfl⟩
    have := seqLines_block (Block.comp st)
    simp only [wcLines, List.append_nil, blockDoc] at this
    rw [← this]; exact hq

/-- the equivalence for a list of blocks, in projected form -/
theorem des_equiv_blocks (tbl : CodeTable) (hN : ∀ b, allows tbl 'N' b) {bs : List Block} (ok : BlocksOk bs)
    (a : Var → Base) :
    (∃ a', (∀ v : Var, v.dom ∈ compDomains bs → a' v = a v) ∧ SatDes tbl (docOf bs) a') ↔
    (∃ a'', (∀ v : Var, v.dom ∈ compDomains bs → a'' v = a v) ∧ Sat tbl (designOfBlocks bs) a'') := by
  constructor
  · rintro ⟨a', hag, h⟩
    exact ⟨a', hag, satDes_sat tbl ok h⟩
  · rintro ⟨a'', hag, h⟩
    refine ⟨fixW bs a'', ?_, sat_satDes tbl hN ok h⟩
    intro v hv
    obtain ⟨q, hq, e⟩ := compDomains_sub hv
    have := fixW_domain ok a'' hq v.idx
    rw [e] at this
    rw [this]; exact hag v hv

end Pepper.Des
