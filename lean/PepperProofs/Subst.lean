import PepperModel.Subst
/-!
# Helper lemmas for template parameter substitution (C13)

* `splitOn_joinWith` — `",".join(alts).split(",") = alts`
* `findGroup_first`, `findGroup_sound` — what `re.search(r"{([^{}]*?)}", line)` finds
* `dup_render` — the recursive expansion of the first group is the lexicographic product, leftmost slowest
* `segs_spec` — for lines with flat braces `segs` is a well-formed decomposition that renders back to the line
* `duplicate_unfold` — the fuel of `duplicate` never runs out
-/
namespace Pepper.Subst

/-! ### split / join -/

theorem splitOn_ne_nil (sep : Char) (l : Str) : splitOn sep l ≠ [] := by
  induction l with
  | nil => simp [splitOn]
  | cons c r ih =>
    unfold splitOn
    split
    · simp
    · split <;> simp

theorem splitOn_nosep {sep : Char} {a : Str} (h : sep ∉ a) : splitOn sep a = [a] := by
  induction a with
  | nil => simp [splitOn]
  | cons c r ih =>
    have hc : c ≠ sep := fun e => h (by simp [e])
    have hr : sep ∉ r := fun m => h (by simp [m])
    simp [splitOn, hc, ih hr]

theorem splitOn_append_sep {sep : Char} {a : Str} (r : Str) (h : sep ∉ a) :
    splitOn sep (a ++ sep :: r) = a :: splitOn sep r := by
  induction a with
  | nil => simp [splitOn]
  | cons c t ih =>
    have hc : c ≠ sep := fun e => h (by simp [e])
    have ht : sep ∉ t := fun m => h (by simp [m])
    simp [splitOn, hc, ih ht]

theorem splitOn_joinWith (sep : Char) : ∀ (as : List Str), as ≠ [] → (∀ a ∈ as, sep ∉ a) →
    splitOn sep (joinWith sep as) = as
  | [], h, _ => absurd rfl h
  | [a], _, h => by simpa [joinWith] using splitOn_nosep (h a (by simp))
  | a :: b :: r, _, h => by
    have ih := splitOn_joinWith sep (b :: r) (by simp) (fun x hx => h x (by simp [hx]))
    simp only [joinWith]
    rw [splitOn_append_sep _ (h a (by simp)), ih]

theorem mem_splitOn {sep : Char} : ∀ {l a : Str}, a ∈ splitOn sep l → ∀ c ∈ a, c ∈ l := by
  intro l
  induction l with
  | nil => intro a h c hc; simp [splitOn] at h; subst h; simp at hc
  | cons x r ih =>
    intro a h c hc
    unfold splitOn at h
    split at h
    · rcases List.mem_cons.1 h with e | m
      · subst e; simp at hc
      · exact List.mem_cons_of_mem _ (ih m c hc)
    · split at h
      · rename_i a' as' e
        rcases List.mem_cons.1 h with e' | m
        · subst e'
          rcases List.mem_cons.1 hc with e'' | m'
          · simp [e'']
          · exact List.mem_cons_of_mem _ (ih (by rw [e]; simp) c m')
        · exact List.mem_cons_of_mem _ (ih (by rw [e]; simp [m]) c hc)
      · simp at h; subst h; simp at hc; simp [hc]

theorem all_joinWith {p : Char → Bool} {sep : Char} (hs : p sep = true) :
    ∀ (as : List Str), (∀ a ∈ as, a.all p = true) → (joinWith sep as).all p = true
  | [], _ => by simp [joinWith]
  | [a], h => by simpa [joinWith] using h a (by simp)
  | a :: b :: r, h => by
    have ih := all_joinWith hs (b :: r) (fun x hx => h x (by simp [hx]))
    have ha := h a (by simp)
    simp only [joinWith, List.all_append, List.all_cons, ha, hs, ih, Bool.and_self]

/-! ### the search for the first group -/

theorem takeWhile_append_stop {p : Char → Bool} {i : Str} (c : Char) (e : Str)
    (hi : i.all p = true) (hc : p c = false) : (i ++ c :: e).takeWhile p = i := by
  induction i with
  | nil => simp [hc]
  | cons x t ih =>
    simp only [List.all_cons, Bool.and_eq_true] at hi
    simp [hi.1, ih hi.2]

theorem dropWhile_append_stop {p : Char → Bool} {i : Str} (c : Char) (e : Str)
    (hi : i.all p = true) (hc : p c = false) : (i ++ c :: e).dropWhile p = c :: e := by
  induction i with
  | nil => simp [hc]
  | cons x t ih =>
    simp only [List.all_cons, Bool.and_eq_true] at hi
    simp [hi.1, ih hi.2]

theorem findGroup_noOpen {l : Str} (h : '{' ∉ l) : findGroup l = none := by
  induction l with
  | nil => simp [findGroup]
  | cons c r ih =>
    have hc : c ≠ '{' := fun e => h (by simp [e])
    have hr : '{' ∉ r := fun m => h (by simp [m])
    simp [findGroup, hc, ih hr]

theorem not_mem_of_all_notBrace {l : Str} (h : l.all notBrace = true) : '{' ∉ l := by
  intro m
  have := List.all_eq_true.1 h _ m
  simp [notBrace] at this

theorem findGroup_first {p i : Str} (e : Str) (hp : p.all notBrace = true) (hi : i.all notBrace = true) :
    findGroup (p ++ '{' :: (i ++ '}' :: e)) = some (p, i, e) := by
  induction p with
  | nil =>
    have h1 := takeWhile_append_stop (p := notBrace) '}' e hi (by decide)
    have h2 := dropWhile_append_stop (p := notBrace) '}' e hi (by decide)
    simp [findGroup, h1, h2]
  | cons c t ih =>
    simp only [List.all_cons, Bool.and_eq_true] at hp
    have hc : c ≠ '{' := by
      intro e'; subst e'; simp [notBrace] at hp
    simp [findGroup, hc, ih hp.2]

theorem takeWhile_append_dropWhile' (p : Char → Bool) (l : Str) : l.takeWhile p ++ l.dropWhile p = l :=
  List.takeWhile_append_dropWhile

theorem all_takeWhile (p : Char → Bool) (l : Str) : (l.takeWhile p).all p = true := by
  induction l with
  | nil => simp
  | cons c r ih =>
    by_cases h : p c = true
    · simp [List.takeWhile, h, ih]
    · simp [List.takeWhile, h]

theorem findGroup_sound : ∀ {l s i e : Str}, findGroup l = some (s, i, e) →
    l = s ++ '{' :: (i ++ '}' :: e) ∧ i.all notBrace = true := by
  intro l
  induction l with
  | nil => intro s i e h; simp [findGroup] at h
  | cons c r ih =>
    intro s i e h
    unfold findGroup at h
    split at h
    · rename_i hc
      split at h
      · rename_i e' hd
        simp only [Option.some.injEq, Prod.mk.injEq] at h
        obtain ⟨h1, h2, h3⟩ := h
        subst h1 h2 h3 hc
        refine ⟨?_, all_takeWhile _ _⟩
        have := takeWhile_append_dropWhile' notBrace r
        rw [hd] at this
        simp [this]
      · cases hf : findGroup r with
        | none => simp [hf] at h
        | some x =>
          obtain ⟨s', i', e'⟩ := x
          simp only [hf, Option.map_some, Option.some.injEq, Prod.mk.injEq] at h
          obtain ⟨h1, h2, h3⟩ := h
          subst h1 h2 h3
          obtain ⟨a, b⟩ := ih hf
          exact ⟨by rw [a]; simp, b⟩
    · cases hf : findGroup r with
      | none => simp [hf] at h
      | some x =>
        obtain ⟨s', i', e'⟩ := x
        simp only [hf, Option.map_some, Option.some.injEq, Prod.mk.injEq] at h
        obtain ⟨h1, h2, h3⟩ := h
        subst h1 h2 h3
        obtain ⟨a, b⟩ := ih hf
        exact ⟨by rw [a]; simp, b⟩

/-! ### recursive expansion of the first group = lexicographic product -/

@[simp] theorem render_nil : render [] = [] := rfl
@[simp] theorem render_cons (s : Seg) (r : List Seg) : render (s :: r) = s.render ++ render r := rfl

theorem wfSegs_cons {s : Seg} {r : List Seg} : wfSegs (s :: r) = true ↔ s.wf = true ∧ wfSegs r = true := by
  simp [wfSegs]

theorem duplicateFuel_noOpen (n : Nat) {l : Str} (h : '{' ∉ l) : duplicateFuel n l = l := by
  cases n with
  | zero => rfl
  | succ m => simp [duplicateFuel, findGroup_noOpen h]

theorem group_wf_iff {alts : List Str} : (Seg.group alts).wf = true ↔
    alts ≠ [] ∧ ∀ a ∈ alts, ∀ c ∈ a, notBrace c = true ∧ c ≠ ',' := by
  simp only [Seg.wf, Bool.and_eq_true, Bool.not_eq_true', List.all_eq_true, bne_iff_ne, ne_eq,
    List.isEmpty_eq_false_iff]

theorem group_wf {alts : List Str} (h : (Seg.group alts).wf = true) :
    alts ≠ [] ∧ (∀ a ∈ alts, a.all notBrace = true) ∧ (∀ a ∈ alts, ',' ∉ a) := by
  simp only [Seg.wf, Bool.and_eq_true, Bool.not_eq_true', List.all_eq_true] at h
  refine ⟨?_, ?_, ?_⟩
  · intro e; simp [e] at h
  · intro a ha
    apply List.all_eq_true.2
    intro c hc
    exact (h.2 a ha c hc).1
  · intro a ha m
    have := (h.2 a ha ',' m).2
    simp at this

theorem prod_flatten (p : Str) (C : List Str) (alts : List Str) :
    (alts.map (fun op => (C.map ((p ++ op) ++ ·)).flatten)).flatten =
      ((alts.flatMap (fun a => C.map (a ++ ·))).map (p ++ ·)).flatten := by
  induction alts with
  | nil => simp
  | cons a t iht =>
    simp only [List.map_cons, List.flatten_cons, List.flatMap_cons, List.map_append, List.flatten_append,
      List.map_map, iht]
    congr 2
    apply List.map_congr_left
    intro x _
    simp

theorem dup_render : ∀ (S : List Seg) (n : Nat) (p : Str), wfSegs S = true → p.all notBrace = true →
    groups S ≤ n → duplicateFuel n (p ++ render S) = ((choices S).map (p ++ ·)).flatten
  | [], n, p, _, hp, _ => by
    simp [choices, duplicateFuel_noOpen n (not_mem_of_all_notBrace hp)]
  | .text s :: r, n, p, hw, hp, hn => by
    obtain ⟨hs, hr⟩ := wfSegs_cons.1 hw
    have hs' : s.all notBrace = true := hs
    have hps : (p ++ s).all notBrace = true := by simp [List.all_append, hp, hs']
    have ih := dup_render r n (p ++ s) hr hps (by simpa [groups] using hn)
    simp only [render_cons, Seg.render, choices, List.map_map]
    rw [← List.append_assoc, ih]
    congr 2
    funext x
    simp
  | .group alts :: r, n, p, hw, hp, hn => by
    obtain ⟨hg, hr⟩ := wfSegs_cons.1 hw
    obtain ⟨hne, hnb, hnc⟩ := group_wf hg
    cases n with
    | zero => simp [groups] at hn
    | succ m =>
      have hm : groups r ≤ m := by simp [groups] at hn; omega
      have hi : (joinWith ',' alts).all notBrace = true := all_joinWith (by decide) alts hnb
      have hshape : p ++ render (.group alts :: r) = p ++ '{' :: (joinWith ',' alts ++ '}' :: render r) := by
        simp [Seg.render]
      rw [hshape]
      simp only [duplicateFuel, findGroup_first (render r) hp hi, splitOn_joinWith ',' alts hne hnc]
      have hmap : alts.map (fun op => duplicateFuel m (p ++ op ++ render r)) =
          alts.map (fun op => ((choices r).map ((p ++ op) ++ ·)).flatten) := by
        apply List.map_congr_left
        intro a ha
        have hpa : (p ++ a).all notBrace = true := by simp [List.all_append, hp, hnb a ha]
        exact dup_render r m (p ++ a) hr hpa hm
      rw [hmap]
      simp only [choices]
      exact prod_flatten p (choices r) alts

theorem count_eq_zero_of_all_notBrace {l : Str} (h : l.all notBrace = true) : l.count '{' = 0 :=
  List.count_eq_zero.2 (not_mem_of_all_notBrace h)

theorem countOpen_render : ∀ (S : List Seg), wfSegs S = true → countOpen (render S) = groups S
  | [], _ => rfl
  | .text s :: r, hw => by
    obtain ⟨hs, hr⟩ := wfSegs_cons.1 hw
    have hs' : s.all notBrace = true := hs
    have ih := countOpen_render r hr
    simp only [countOpen] at ih ⊢
    simp [Seg.render, groups, List.count_append, count_eq_zero_of_all_notBrace hs', ih]
  | .group alts :: r, hw => by
    obtain ⟨hg, hr⟩ := wfSegs_cons.1 hw
    obtain ⟨_, hnb, _⟩ := group_wf hg
    have hi : (joinWith ',' alts).all notBrace = true := all_joinWith (by decide) alts hnb
    have ih := countOpen_render r hr
    simp only [countOpen] at ih ⊢
    simp [Seg.render, groups, List.count_append, count_eq_zero_of_all_notBrace hi, ih]

/-- recursive expansion of a rendered well-formed decomposition = the lexicographic product of its groups -/
theorem duplicate_render (S : List Seg) (hw : wfSegs S = true) : duplicate (render S) = (choices S).flatten := by
  have h := dup_render S (countOpen (render S)) [] hw (by simp) (by rw [countOpen_render S hw]; exact Nat.le_refl _)
  simpa [duplicate] using h

/-! ### the decomposition of a flat line -/

theorem render_pushChar (c : Char) (S : List Seg) : render (pushChar c S) = c :: render S := by
  unfold pushChar
  split <;> simp [Seg.render]

theorem wf_pushChar {c : Char} {S : List Seg} (hc : notBrace c = true) (h : wfSegs S = true) :
    wfSegs (pushChar c S) = true := by
  unfold pushChar
  split
  · rename_i s r
    obtain ⟨a, b⟩ := wfSegs_cons.1 h
    apply wfSegs_cons.2
    refine ⟨?_, b⟩
    have a' : s.all notBrace = true := a
    simp [Seg.wf, hc, a']
  · apply wfSegs_cons.2
    exact ⟨by simp [Seg.wf, hc], h⟩

theorem joinWith_cons_char (sep c : Char) (a : Str) (as : List Str) :
    joinWith sep ((c :: a) :: as) = c :: joinWith sep (a :: as) := by
  cases as <;> simp [joinWith]

/-- what `segs true l` looks like when the group we are in is closed properly -/
def InsideOk (l : Str) : Prop :=
  ∃ a as R, segs true l = .group (a :: as) :: R ∧ (Seg.group (a :: as)).wf = true ∧ wfSegs R = true ∧
    l = joinWith ',' (a :: as) ++ '}' :: render R

theorem segs_spec : ∀ (l : Str),
    (flatB false l = true → wfSegs (segs false l) = true ∧ render (segs false l) = l) ∧
    (flatB true l = true → InsideOk l)
  | [] => by
    refine ⟨fun _ => by simp [segs, wfSegs], fun h => by simp [flatB] at h⟩
  | c :: r => by
    obtain ⟨ihO, ihI⟩ := segs_spec r
    refine ⟨fun h => ?_, fun h => ?_⟩
    · by_cases h1 : c = '{'
      · subst h1
        simp only [flatB, ↓reduceIte] at h
        obtain ⟨a, as, R, e1, w1, w2, e2⟩ := ihI h
        simp only [segs, ↓reduceIte, e1]
        refine ⟨wfSegs_cons.2 ⟨w1, w2⟩, ?_⟩
        simp [Seg.render, e2]
      · by_cases h2 : c = '}'
        · subst h2; simp [flatB] at h
        · simp only [flatB, h1, h2, ↓reduceIte] at h
          obtain ⟨w, e⟩ := ihO h
          simp only [segs, h1, ↓reduceIte]
          refine ⟨wf_pushChar (by simp [notBrace, h1, h2]) w, ?_⟩
          rw [render_pushChar, e]
    · by_cases h2 : c = '}'
      · subst h2
        simp only [flatB, ↓reduceIte] at h
        obtain ⟨w, e⟩ := ihO h
        exact ⟨[], [], segs false r, by simp [segs], by simp [Seg.wf], w, by simp [joinWith, e]⟩
      · by_cases h1 : c = '{'
        · subst h1; simp [flatB] at h
        · simp only [flatB, h1, h2, ↓reduceIte] at h
          obtain ⟨a, as, R, e1, w1, w2, e2⟩ := ihI h
          by_cases h3 : c = ','
          · subst h3
            refine ⟨[], a :: as, R, by simp [segs, e1, newAlt], ?_, w2, by simp [joinWith, e2]⟩
            rw [group_wf_iff] at w1 ⊢
            refine ⟨by simp, fun x hx => ?_⟩
            rcases List.mem_cons.1 hx with e | m
            · subst e; intro c hc; simp at hc
            · exact w1.2 x m
          · refine ⟨c :: a, as, R, by simp [segs, h2, h3, e1, pushAltChar], ?_, w2, ?_⟩
            · rw [group_wf_iff] at w1 ⊢
              refine ⟨by simp, fun x hx => ?_⟩
              rcases List.mem_cons.1 hx with e | m
              · subst e
                intro d hd
                rcases List.mem_cons.1 hd with e' | m'
                · subst e'; exact ⟨by simp [notBrace, h1, h2], h3⟩
                · exact w1.2 a (by simp) d m'
              · exact w1.2 x (by simp [m])
            · rw [joinWith_cons_char, e2]; simp

/-- for a line with flat braces `segs` is a well-formed decomposition of exactly that line -/
theorem segs_flat {l : Str} (h : FlatBraces l) : wfSegs (segs false l) = true ∧ render (segs false l) = l :=
  (segs_spec l).1 h

/-- single line: the recursion of `duplicate` computes the hand expansion -/
theorem duplicate_eq_expandLine {l : Str} (h : FlatBraces l) : duplicate l = expandLine l := by
  obtain ⟨w, e⟩ := segs_flat h
  have := duplicate_render (segs false l) w
  rw [e] at this
  exact this

/-! ### the fuel of `duplicate` is sufficient on every line -/

theorem countOpen_step {s i e op : Str} (hi : i.all notBrace = true) (hop : ∀ c ∈ op, c ∈ i) :
    countOpen (s ++ op ++ e) + 1 = countOpen (s ++ '{' :: (i ++ '}' :: e)) := by
  have h1 : op.count '{' = 0 := by
    apply List.count_eq_zero.2
    intro m
    exact not_mem_of_all_notBrace hi (hop _ m)
  have h2 := count_eq_zero_of_all_notBrace hi
  simp only [countOpen, List.count_append, List.count_cons, h1, h2]
  simp
  omega

theorem duplicateFuel_stable : ∀ (n m : Nat) (l : Str), countOpen l ≤ n → countOpen l ≤ m →
    duplicateFuel n l = duplicateFuel m l
  | 0, m, l, hn, _ => by
    have : '{' ∉ l := List.count_eq_zero.1 (by simpa [countOpen] using hn)
    rw [duplicateFuel_noOpen 0 this, duplicateFuel_noOpen m this]
  | n + 1, 0, l, _, hm => by
    have : '{' ∉ l := List.count_eq_zero.1 (by simpa [countOpen] using hm)
    rw [duplicateFuel_noOpen _ this, duplicateFuel_noOpen _ this]
  | n + 1, m + 1, l, hn, hm => by
    simp only [duplicateFuel]
    cases hf : findGroup l with
    | none => rfl
    | some x =>
      obtain ⟨s, i, e⟩ := x
      obtain ⟨el, hi⟩ := findGroup_sound hf
      simp only
      congr 1
      apply List.map_congr_left
      intro op hop
      have hc := countOpen_step (s := s) (e := e) hi (mem_splitOn hop)
      rw [← el] at hc
      exact duplicateFuel_stable n m _ (by omega) (by omega)

/-- `duplicate` satisfies the recursion equation of the Python function (the fuel never runs out) -/
theorem duplicate_unfold (l : Str) :
    duplicate l = match findGroup l with
      | none => l
      | some (start, inner, stop) =>
        ((splitOn ',' inner).map (fun op => duplicate (start ++ op ++ stop))).flatten := by
  cases hf : findGroup l with
  | none =>
    simp only [duplicate]
    cases countOpen l with
    | zero => rfl
    | succ k => simp [duplicateFuel, hf]
  | some x =>
    obtain ⟨s, i, e⟩ := x
    obtain ⟨el, hi⟩ := findGroup_sound hf
    have hpos : countOpen l = (countOpen l - 1) + 1 := by
      have : 0 < countOpen l := by
        rw [el]; simp only [countOpen, List.count_append, List.count_cons]; simp; omega
      omega
    simp only [duplicate]
    rw [hpos]
    simp only [duplicateFuel, hf]
    congr 1
    apply List.map_congr_left
    intro op hop
    have hc := countOpen_step (s := s) (e := e) hi (mem_splitOn hop)
    rw [← el] at hc
    have : countOpen (s ++ op ++ e) = countOpen l - 1 := by omega
    rw [← this]

/-! ### the whole file -/

theorem processList_eq_handExpand {E Val : Type} (evalExpr : Env Val → Str → Except E Val) (str : Val → Str) :
    ∀ (lines : List Str) (env : Env Val), (∀ l ∈ substituted evalExpr str lines env, FlatBraces l) →
      processList evalExpr str lines env = handExpand evalExpr str lines env
  | [], _, _ => rfl
  | line :: rest, env, h => by
    simp only [processList, handExpand]
    simp only [substituted] at h
    split
    · rename_i name src hm
      simp only [hm] at h
      split
      · rfl
      · rename_i v hv
        simp only [hv] at h
        exact processList_eq_handExpand evalExpr str rest _ h
    · rename_i hm
      simp only [hm] at h
      split
      · rfl
      · rename_i l2 hs
        simp only [hs] at h
        have hfl := h (terminate l2) (by simp)
        rw [duplicate_eq_expandLine hfl,
          processList_eq_handExpand evalExpr str rest env (fun l hl => h l (by simp [hl]))]

/-! ### arity binding -/

theorem foldl_set_eq {Val : Type} (l : List (Str × Val)) (acc : Env Val) :
    l.foldl (fun env pa => env.set pa.1 pa.2) acc = l.reverse ++ acc := by
  induction l generalizing acc with
  | nil => rfl
  | cons x t ih => simp [List.foldl, Env.set]

theorem get_of_mem_nodup {Val : Type} : ∀ {l : Env Val} {x : Str} {v : Val},
    (l.map Prod.fst).Nodup → (x, v) ∈ l → Env.get l x = some v := by
  intro l
  induction l with
  | nil => intro x v _ h; simp at h
  | cons kv t ih =>
    intro x v hn hm
    obtain ⟨k, w⟩ := kv
    simp only [List.map_cons, List.nodup_cons] at hn
    rcases List.mem_cons.1 hm with e | m
    · simp only [Prod.mk.injEq] at e
      simp [Env.get, e.1, e.2]
    · have hk : k ≠ x := by
        intro e; subst e
        exact hn.1 (List.mem_map.2 ⟨(k, v), m, rfl⟩)
      simp [Env.get, hk, ih hn.2 m]

theorem get_none_of_not_mem {Val : Type} : ∀ {l : Env Val} {x : Str},
    x ∉ l.map Prod.fst → Env.get l x = none := by
  intro l
  induction l with
  | nil => intro x _; rfl
  | cons kv t ih =>
    intro x h
    obtain ⟨k, w⟩ := kv
    simp only [List.map_cons, List.mem_cons, not_or] at h
    have hk : k ≠ x := fun e => h.1 e.symm
    simp [Env.get, hk, ih h.2]

theorem nodup_reverse {α : Type} {l : List α} (h : l.Nodup) : l.reverse.Nodup := by
  unfold List.Nodup at *
  rw [List.pairwise_reverse]
  exact h.imp (fun h => Ne.symm h)

theorem bindArgs_ok {Val : Type} (ps : List Str) (as : List Val) (h : ps.length = as.length) :
    bindArgs ps as = .ok (ps.zip as).reverse := by
  simp [bindArgs, h, foldl_set_eq]

theorem bindArgs_err {Val : Type} (ps : List Str) (as : List Val) (h : ps.length ≠ as.length) :
    bindArgs ps as = .error .arity := by
  simp [bindArgs, h]

/-! ### every produced line is newline-terminated; number of produced lines -/

theorem choices_of_render_nil : ∀ (S : List Seg), render S = [] → choices S = [[]]
  | [], _ => rfl
  | .text s :: r, h => by
    simp only [render_cons, Seg.render, List.append_eq_nil_iff] at h
    simp [choices, choices_of_render_nil r h.2, h.1]
  | .group alts :: r, h => by simp [Seg.render] at h

theorem choices_last : ∀ (S : List Seg) (c : Char), (render S).getLast? = some c → notBrace c = true →
    ∀ x ∈ choices S, x.getLast? = some c
  | [], c, h, _ => by simp at h
  | .text s :: r, c, h, hc => by
    intro x hx
    simp only [choices, List.mem_map] at hx
    obtain ⟨y, hy, e⟩ := hx
    subst e
    simp only [render_cons, Seg.render] at h
    by_cases hr : render r = []
    · rw [choices_of_render_nil r hr] at hy
      simp at hy
      subst hy
      simpa [hr] using h
    · have hl : (render r).getLast? = some c := by
        rw [List.getLast?_append] at h
        cases hg : (render r).getLast? with
        | none => exact absurd (List.getLast?_eq_none_iff.1 hg) hr
        | some d => simpa [hg] using h
      have := choices_last r c hl hc y hy
      rw [List.getLast?_append, this]; rfl
  | .group alts :: r, c, h, hc => by
    intro x hx
    simp only [choices, List.mem_flatMap, List.mem_map] at hx
    obtain ⟨a, _, y, hy, e⟩ := hx
    subst e
    have e : render (.group alts :: r) = ('{' :: joinWith ',' alts) ++ ('}' :: render r) := by
      simp [Seg.render]
    rw [e, List.getLast?_append] at h
    by_cases hr : render r = []
    · rw [hr] at h
      simp at h
      subst h
      simp [notBrace] at hc
    · obtain ⟨b, t, eb⟩ := List.exists_cons_of_ne_nil hr
      have hl : (render r).getLast? = some c := by
        rw [eb, List.getLast?_cons_cons, ← eb] at h
        cases hg : (render r).getLast? with
        | none => exact absurd (List.getLast?_eq_none_iff.1 hg) hr
        | some d => simpa [hg] using h
      have := choices_last r c hl hc y hy
      rw [List.getLast?_append, this]; rfl

theorem terminate_last (l : Str) : (terminate l).getLast? = some '\n' := by
  unfold terminate
  split
  · assumption
  · simp

theorem choices_length : ∀ (S : List Seg), (choices S).length = total S
  | [] => rfl
  | .text s :: r => by simp [choices, total, choices_length r]
  | .group alts :: r => by
    simp only [choices, total]
    induction alts with
    | nil => simp
    | cons a t ih => simp [List.flatMap_cons, choices_length r, ih, Nat.succ_mul, Nat.add_comm]

/-! ### position of an instance in the output: mixed radix, leftmost group most significant -/

theorem flatMap_block {α β : Type} (f : α → List β) (m : Nat) :
    ∀ (l : List α), (∀ a ∈ l, (f a).length = m) → ∀ j, j < l.length * m →
      (l.flatMap f)[j]? = (l[j / m]?).bind (fun a => (f a)[j % m]?)
  | [], _, j, hj => by simp at hj
  | a :: t, hl, j, hj => by
    have ha : (f a).length = m := hl a (by simp)
    have ih := flatMap_block f m t (fun x hx => hl x (by simp [hx]))
    rw [List.flatMap_cons]
    by_cases hlt : j < m
    · rw [List.getElem?_append_left (by omega), Nat.div_eq_of_lt hlt, Nat.mod_eq_of_lt hlt]
      simp
    · have hge : m ≤ j := by omega
      have hpos : 0 < m := by
        rcases Nat.eq_zero_or_pos m with e | e
        · subst e; simp at hj
        · exact e
      have hj' : j - m < t.length * m := by
        simp only [List.length_cons, Nat.succ_mul] at hj
        omega
      rw [List.getElem?_append_right (by omega), ha, ih (j - m) hj',
        Nat.div_eq_sub_div hpos hge, ← Nat.mod_eq_sub_mod hge]
      simp

theorem choices_index : ∀ (S : List Seg) (j : Nat), j < total S → (choices S)[j]? = some (pickAt S j)
  | [], j, h => by
    simp only [total] at h
    have : j = 0 := by omega
    subst this
    simp [choices, pickAt]
  | .text s :: r, j, h => by
    simp only [total] at h
    simp [choices, pickAt, choices_index r j h]
  | .group alts :: r, j, h => by
    simp only [total] at h
    have hpos : 0 < total r := by
      rcases Nat.eq_zero_or_pos (total r) with e | e
      · rw [e] at h; simp at h
      · exact e
    have hdiv : j / total r < alts.length := by
      apply (Nat.div_lt_iff_lt_mul hpos).2; exact h
    have hmod : j % total r < total r := Nat.mod_lt _ hpos
    simp only [choices, pickAt]
    rw [flatMap_block (fun a => (choices r).map (a ++ ·)) (total r) alts
      (fun a _ => by simp [choices_length]) j h]
    simp [List.getElem?_eq_getElem hdiv, choices_index r _ hmod]

end Pepper.Subst
