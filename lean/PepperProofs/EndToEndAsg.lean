import PepperProofs.EndToEnd
import PepperProps.C04
import PepperProps.C15
/-!
# C06 end to end, stage 1: a nucleotide string that satisfies the arrays IS an assignment satisfying the specification

From C04 `arrays_exact` (the arrays are the exact closure of the link graph of `Pil.denote spec`) and
`ArraysGood a nts`: two non-blank indices whose nucleotides the design forces equal / complementary carry equal /
complementary letters (`letters_respect`) — they share `eq[·]`, resp. `wc[i]` is a position forced equal to the
other one.  So the letters define a partial assignment of the domain positions that lie on the line; it is extended
to all positions with the abstract core of C15 (`core_extend`: a base per class, read off a placed member where
there is one, chosen among the common bases of the class where there is none).
-/
namespace Pepper.EndToEnd
open Pepper Pepper.Pil Pepper.ConstraintGen Pepper.LinkSpec

/-! ### the abstract core, with a partial assignment to respect -/

open Classical in
/-- **C15's core, extending a partial assignment.**  `F x b`: item `x` is already given base `b`.  If `F` respects
    the relation and every given base suits the whole class of its item, a satisfying total assignment extends `F`. -/
theorem core_extend {α : Type} {R : α → Bool → α → Prop} {ok : α → Base → Prop} (E : ParityEquiv R)
    (hself : ∀ x, ¬ R x true x) (hcom : ∀ x, ∃ b, ∀ y p, R x p y → ok y (flipB b p))
    (F : α → Base → Prop)
    (hF : ∀ x y p b b', R x p y → F x b → F y b' → b' = flipB b p)
    (hFok : ∀ x b, F x b → ∀ y p, R x p y → ok y (flipB b p)) :
    ∃ a, ASat R ok a ∧ ∀ x b, F x b → a x = b := by
  -- representatives as in `core`
  let mem : α → α → Prop := fun x y => ∃ p, R x p y
  have hmem : ∀ x, ∃ y, mem x y := fun x => ⟨x, false, E.refl x⟩
  let rep : α → α := fun x => Classical.choose (hmem x)
  have rep_mem : ∀ x, mem x (rep x) := fun x => Classical.choose_spec (hmem x)
  have mem_eq : ∀ x y, mem x y → mem x = mem y := by
    intro x y ⟨p, hp⟩
    funext z
    apply propext
    constructor
    · rintro ⟨q, hq⟩; exact ⟨_, E.trans (E.symm hp) hq⟩
    · rintro ⟨q, hq⟩; exact ⟨_, E.trans hp hq⟩
  have rep_eq : ∀ x y, mem x y → rep x = rep y := fun x y h => choose_congr (mem_eq x y h) _ _
  -- the base of a class: read off a given member if there is one
  let given : α → Prop := fun r => ∃ q : α × Bool × Base, R r q.2.1 q.1 ∧ F q.1 q.2.2
  let base : α → Base := fun r =>
    if h : given r then flipB (Classical.choose h).2.2 (Classical.choose h).2.1 else Classical.choose (hcom r)
  have base_ok : ∀ r y p, R r p y → ok y (flipB (base r) p) := by
    intro r y p hr
    by_cases h : given r
    · have hs := Classical.choose_spec h
      simp only [base, dif_pos h]
      have h1 : R (Classical.choose h).1 ((Classical.choose h).2.1 ^^ p) y := E.trans (E.symm hs.1) hr
      have := hFok _ _ hs.2 y _ h1
      rwa [← flipB_flipB] at this
    · simp only [base, dif_neg h]
      exact Classical.choose_spec (hcom r) y p hr
  have base_given : ∀ r y p b, R r p y → F y b → b = flipB (base r) p := by
    intro r y p b hr hb
    have h : given r := ⟨(y, p, b), hr, hb⟩
    have hs := Classical.choose_spec h
    simp only [base, dif_pos h]
    have h1 : R (Classical.choose h).1 ((Classical.choose h).2.1 ^^ p) y := E.trans (E.symm hs.1) hr
    have := hF _ _ _ _ _ h1 hs.2 hb
    rw [this, flipB_flipB]
  have par_unique : ∀ r x p q, R r p x → R r q x → p = q := by
    intro r x p q hp hq
    cases p <;> cases q <;> try rfl
    · exact absurd (by simpa using E.trans hp (E.symm hq)) (hself r)
    · exact absurd (by simpa using E.trans hp (E.symm hq)) (hself r)
  have hpar : ∀ x, ∃ p, R (rep x) p x := fun x => by
    obtain ⟨p, hp⟩ := rep_mem x
    exact ⟨p, E.symm hp⟩
  let par : α → Bool := fun x => Classical.choose (hpar x)
  have par_spec : ∀ x, R (rep x) (par x) x := fun x => Classical.choose_spec (hpar x)
  refine ⟨fun x => flipB (base (rep x)) (par x), ⟨fun x => base_ok _ _ _ (par_spec x), ?_⟩, ?_⟩
  · intro x p y hxy
    have hr : rep x = rep y := rep_eq x y ⟨p, hxy⟩
    have h1 : R (rep y) (par x ^^ p) y := by
      have := E.trans (par_spec x) hxy
      rwa [hr] at this
    have h2 := par_unique _ _ _ _ h1 (par_spec y)
    show flipB (base (rep y)) (par y) = flipB (flipB (base (rep x)) (par x)) p
    rw [flipB_flipB, hr, h2]
  · intro x b hb
    exact (base_given (rep x) x (par x) b (par_spec x) hb).symm

/-! ### letters on the line -/

theorem toChar_inj {b b' : Base} (h : b.toChar = b'.toChar) : b = b' := by
  cases b <;> cases b' <;> first | rfl | (revert h; decide)

theorem flipB_true (b : Base) : flipB b true = b.compl := rfl
theorem flipB_false (b : Base) : flipB b false = b := rfl

section Line
variable {mode : Layout} {stmts : List Stmt} {spec : Spec} {s : Seeds} {c : Cons} {a : Arrays} {nts : List Char}

/-- **letters respect the design**: if the design forces the nucleotides at two non-blank indices equal (`p = false`)
    or complementary (`p = true`), the letters there are equal / complementary -/
theorem letters_respect (hload : Pil.load Generated.nupackTable stmts {} = .ok spec)
    (hs : seeds mode spec = .ok s) (hb : build s = .ok c) (ha : getConstraints mode spec = .ok a)
    (hg : ArraysGood a nts) {i j : Nat} {ci cj : Char} (hi : a.2.2[i]? = some (some ci))
    (hj : a.2.2[j]? = some (some cj)) {m n : Nuc} (hm : denOf mode spec i = some m) (hn : denOf mode spec j = some n)
    {p : Bool} (hr : NucReach (Pil.denote spec) m p n) {bi bj : Base} (hbi : nts[i]? = some bi.toChar)
    (hbj : nts[j]? = some bj.toChar) : bj = flipB bi p := by
  have E := C04.arrays_exact hload hs hb ha
  -- the equal case, for any two indices
  have hEq : ∀ {i j : Nat} {ci cj : Char}, a.2.2[i]? = some (some ci) → a.2.2[j]? = some (some cj) →
      ∀ {m n : Nuc}, denOf mode spec i = some m → denOf mode spec j = some n → NucReach (Pil.denote spec) m false n →
      ∀ {bi bj : Base}, nts[i]? = some bi.toChar → nts[j]? = some bj.toChar → bj = bi := by
    intro i j ci cj hi hj m n hm hn hr bi bj hbi hbj
    have he := (C04.eq_iff_forced_equal hload hs hb ha hi hj hm hn).2 hr
    obtain ⟨m', v, _, hm', hv, _, hsv, _, _⟩ := E.2.2.2 i ci hi
    rw [hm] at hm'; cases hm'
    cases v with
    | none => exact absurd (NucReach.refl _ m) (hsv i ci m hi hm)
    | some r =>
      have h1 := hg.eq i r hv
      have h2 := hg.eq j r (he ▸ hv)
      have : nts[i]? = nts[j]? := h1.trans h2.symm
      rw [hbi, hbj] at this
      exact (toChar_inj (Option.some.inj this)).symm
  cases p with
  | false => exact hEq hi hj hm hn hr hbi hbj
  | true =>
    obtain ⟨m', _, w, hm', _, hw, _, hsw, _⟩ := E.2.2.2 i ci hi
    rw [hm] at hm'; cases hm'
    cases w with
    | none => exact absurd hr (hsw j cj n hj hn)
    | some r =>
      obtain ⟨⟨chr, nr, hr1, hr2, hr3⟩, _⟩ := hsw
      obtain ⟨br, hbr, _⟩ := hg.base r chr hr1
      have h1 : bi = br.compl := hg.wc i r hw bi br hbi hbr
      have h2 : NucReach (Pil.denote spec) n false nr := by
        have := NucReach.trans (NucReach.symm hr) hr3
        simpa using this
      have h3 : br = bj := hEq hj hr1 hn hr2 h2 hbj hbr
      rw [flipB_true, h1, h3, Base.compl_compl]

/-- **Stage 1.**  A nucleotide string that satisfies the emitted arrays determines an assignment of bases to ALL
    domain positions that satisfies the specification (`LinkSpec.Sat`: templates, `equal` lines, base pairs) and
    whose value at the nucleotide of every non-blank index is the letter there. -/
theorem assignment_of_good (hload : Pil.load Generated.nupackTable stmts {} = .ok spec)
    (hs : seeds mode spec = .ok s) (hb : build s = .ok c) (ha : getConstraints mode spec = .ok a)
    (hg : ArraysGood a nts) :
    ∃ asg : Var → Base, Sat Generated.pilTable (Pil.denote spec) asg ∧
      ∀ (i : Nat) (m : Nuc), denOf mode spec i = some m → (∃ ch, a.2.2[i]? = some (some ch)) →
        nts[i]? = some (val asg m).toChar := by
  have E := C04.arrays_exact hload hs hb ha
  have hsat := C15.arrays_imply_satisfiable hload hs hb ha
  obtain ⟨hself, hcom⟩ := (satisfiable_iff Generated.pilTable (Pil.denote spec)).1 hsat
  -- the partial assignment read off the line
  let F : Var → Base → Prop := fun v b => ∃ (i : Nat) (ch : Char) (m : Nuc) (bi : Base),
    a.2.2[i]? = some (some ch) ∧ denOf mode spec i = some m ∧ m.var = v ∧ nts[i]? = some bi.toChar ∧
      b = flipB bi m.comp
  have hF : ∀ x y p b b', ParityReach (Pil.denote spec) x p y → F x b → F y b' → b' = flipB b p := by
    rintro x y p b b' hr ⟨i, ci, m, bi, hi, hm, rfl, hbi, rfl⟩ ⟨j, cj, n, bj, hj, hn, rfl, hbj, rfl⟩
    have hq : NucReach (Pil.denote spec) m ((p != m.comp) != n.comp) n := by
      unfold NucReach
      have : ((((p != m.comp) != n.comp) != m.comp) != n.comp) = p := by
        cases p <;> cases m.comp <;> cases n.comp <;> rfl
      rw [this]; exact hr
    have := letters_respect hload hs hb ha hg hi hj hm hn hq hbi hbj
    rw [this, flipB_flipB, flipB_flipB]
    cases p <;> cases m.comp <;> cases n.comp <;> rfl
  have hFok : ∀ x b, F x b → ∀ y p, ParityReach (Pil.denote spec) x p y →
      okVar Generated.pilTable (Pil.denote spec) y (flipB b p) := by
    rintro x b ⟨i, ci, m, bi, hi, hm, rfl, hbi, rfl⟩ y p hr
    obtain ⟨m', _, _, hm', _, _, _, _, hbits⟩ := E.2.2.2 i ci hi
    rw [hm] at hm'; cases hm'
    obtain ⟨b0, hb0, hal⟩ := hg.base i ci hi
    have : b0 = bi := toChar_inj (Option.some.inj (hb0.symm.trans hbi))
    subst this
    exact (hbits b0).1 hal y p hr
  obtain ⟨asg, hA, hext⟩ := core_extend (parityEquiv (Pil.denote spec)) hself hcom F hF hFok
  refine ⟨asg, (sat_iff_asat _ _ _).2 hA, ?_⟩
  rintro i m hm ⟨ch, hch⟩
  obtain ⟨bi, hbi, _⟩ := hg.base i ch hch
  have := hext m.var (flipB bi m.comp) ⟨i, ch, m, bi, hch, hm, rfl, hbi, rfl⟩
  rw [hbi, val_eq, this, flipB_flipB]
  cases m.comp <;> rfl

end Line

end Pepper.EndToEnd
