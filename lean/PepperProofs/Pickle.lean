import PepperModel.Pickle
/-!
# Lemmas about the pickle model (`PepperModel/Pickle.lean`), used by `PepperProps/C16Pickle.lean`

* frame lemmas of the unpickler: `Frame a b T` = heap `b` is at least as long as `a` and agrees with it on every old cell
  outside `T`; `step_frame`: one opcode rewrites only its `targets`;
* `visit` (the depth-first walk of `canon`) returns a duplicate-free list of reachable non-atomic cells; together with the
  fact that `canon` fails when a kid is missing from that list this makes the list exactly the reachable set;
* `canon_iso`: equal canonical forms ⇒ isomorphic reachable parts; `iso_canon`: the converse (with `visit_fuel`: the fuel of
  `reach` is enough whenever any fuel is);
* the simulation `Sim` between the pickler's memo and the unpickler's state (memo entries correspond index by index; every
  memoised cell that is not OPEN — on the pickler's recursion stack: lists, dicts and instances are memoised before their
  items / state are saved — has a new cell with the same tag and related kids; an instance's state dict is related to the
  private attribute dict `BUILD` made, `Copy`, not to its own memo image), one lemma per `save` case (`fresh_complete`,
  `save_list_ok`, `save_dict_ok`, `alloc_finish` for tuples and classes, `rec_finish` for memo hits and recursive tuples,
  `save_obj_ok` with `obj_ditems_phase` for instances), `save_ok` by induction on the fuel, `iso_of_sim` (nothing open ⇒
  the correspondence is an isomorphism; uses that a state dict is referenced by its one instance only, `Owned`),
  `roundtrip_supported`, and `supportedB_sound` (the decidable check of the hypothesis).
-/
namespace Pepper.Pickle

/-! ## the unpickler: what one opcode can change -/

/-- cells of `a` survive in `b`, except at the references in `T` -/
def Frame (a b : Heap) (T : List Ref) : Prop :=
  a.size ≤ b.size ∧ ∀ i, i < a.size → i ∉ T → b[i]? = a[i]?

theorem Frame.refl (a : Heap) (T) : Frame a a T := ⟨Nat.le_refl _, fun _ _ _ => rfl⟩

theorem Frame.push (a : Heap) (c : Cell) (T) : Frame a (a.push c) T :=
  ⟨by simp, fun i hi _ => by simp [Array.getElem?_push, Nat.ne_of_lt hi]⟩

theorem Frame.set (a : Heap) (t : Ref) (c : Cell) (T) (ht : t ∈ T) : Frame a (a.setIfInBounds t c) T :=
  ⟨by simp, fun i _ hT => by
    have : t ≠ i := fun e => hT (e ▸ ht)
    simp [this]⟩

theorem Frame.trans {a b c : Heap} {T} (h1 : Frame a b T) (h2 : Frame b c T) : Frame a c T :=
  ⟨Nat.le_trans h1.1 h2.1, fun i hi hT => by rw [h2.2 i (Nat.lt_of_lt_of_le hi h1.1) hT, h1.2 i hi hT]⟩

theorem popRef_ok {v : VM} {r v1} (h : v.popRef = .ok (r, v1)) :
    v.stack = .ref r :: v1.stack ∧ v1.heap = v.heap ∧ v1.memo = v.memo := by
  unfold VM.popRef at h
  split at h
  · rename_i r' rest hs
    cases h
    exact ⟨hs, rfl, rfl⟩
  · cases h

theorem topRef_ok {v : VM} {r} (h : v.topRef = .ok r) : ∃ rest, v.stack = .ref r :: rest := by
  unfold VM.topRef at h
  split at h
  · rename_i r' rest hs
    cases h
    exact ⟨rest, hs⟩
  · cases h

theorem popMark_ok {v : VM} {items v1} (h : v.popMark = .ok (items, v1)) :
    v1.heap = v.heap ∧ v1.memo = v.memo ∧ splitMark v.stack [] = some (items, v1.stack) := by
  unfold VM.popMark at h
  split at h
  · rename_i it rest hs
    cases h
    exact ⟨rfl, rfl, hs⟩
  · cases h


theorem setCell_frame (v : VM) (t : Ref) (c : Cell) : Frame v.heap (v.setCell t c).heap [t] ∧
    (v.setCell t c).stack = v.stack ∧ (v.setCell t c).memo = v.memo :=
  ⟨Frame.set _ _ _ _ (by simp), rfl, rfl⟩

theorem extend_ok {v : VM} {t items v'} (h : v.extend t items = .ok v') :
    Frame v.heap v'.heap [t] ∧ v'.heap.size = v.heap.size ∧ v'.stack = v.stack ∧ v'.memo = v.memo := by
  unfold VM.extend at h
  simp only [bind, Except.bind] at h
  split at h
  · cases h
  · rename_i c hc
    split at h
    · cases h; exact ⟨Frame.set _ _ _ _ (by simp), by simp [VM.setCell], rfl, rfl⟩
    · split at h
      · cases h; exact ⟨Frame.set _ _ _ _ (by simp), by simp [VM.setCell], rfl, rfl⟩
      · cases h
    · cases h

theorem setitems_ok {v : VM} {t kvs v'} (h : v.setitems t kvs = .ok v') :
    Frame v.heap v'.heap [t] ∧ v'.heap.size = v.heap.size ∧ v'.stack = v.stack ∧ v'.memo = v.memo := by
  unfold VM.setitems at h
  simp only [bind, Except.bind] at h
  split at h
  · cases h
  · rename_i c hc
    split at h
    · split at h
      · cases h
      · cases h; exact ⟨Frame.set _ _ _ _ (by simp), by simp [VM.setCell], rfl, rfl⟩
    · split at h
      · split at h
        · cases h
        · cases h; exact ⟨Frame.set _ _ _ _ (by simp), by simp [VM.setCell], rfl, rfl⟩
      · cases h
    · cases h


theorem Frame.set' {a b : Heap} {T} (h : Frame a b T) (t : Ref) (c : Cell) (ht : t ∈ T ∨ a.size ≤ t) :
    Frame a (b.setIfInBounds t c) T :=
  ⟨by simpa using h.1, fun i hi hT => by
    have : t ≠ i := by
      intro e; subst e
      rcases ht with ht | ht
      · exact hT ht
      · omega
    simp [this, h.2 i hi hT]⟩

theorem Frame.mono {a b : Heap} {T T'} (h : Frame a b T) (hs : ∀ x, x ∈ T → x ∈ T') : Frame a b T' :=
  ⟨h.1, fun i hi hT => h.2 i hi (fun m => hT (hs _ m))⟩

theorem instDict_frame (v : VM) (inst : Ref) (p : ObjParts) :
    Frame v.heap (v.instDict inst p).2.heap (inst :: p.state.toList) ∧
    ((v.instDict inst p).1 ∈ p.state.toList ∨ v.heap.size ≤ (v.instDict inst p).1) ∧
    (v.instDict inst p).2.stack = v.stack ∧ (v.instDict inst p).2.memo = v.memo := by
  unfold VM.instDict
  cases hp : p.state with
  | some d => simp [Frame.refl]
  | none =>
    refine ⟨?_, by simp, rfl, rfl⟩
    exact Frame.set' (Frame.push _ _ _) _ _ (by simp)

theorem updateAttrs_ok {v : VM} {inst p dc v'} (h : v.updateAttrs inst p dc = .ok v') :
    Frame v.heap v'.heap (inst :: p.state.toList) ∧ v'.stack = v.stack ∧ v'.memo = v.memo := by
  unfold VM.updateAttrs at h
  obtain ⟨hf, hd, hs, hm⟩ := instDict_frame v inst p
  split at h
  · cases h
  · cases h; exact ⟨Frame.refl _ _, rfl, rfl⟩
  · split at h
    · cases h
    · split at h
      · cases h
      · split at h
        · cases h
        · split at h
          · cases h
          · cases h
            refine ⟨?_, hs, hm⟩
            refine Frame.set' hf _ _ ?_
            rcases hd with hd | hd
            · exact Or.inl (by simp [hd])
            · exact Or.inr hd

theorem slotState_ok {v : VM} {slot v'} (h : v.slotState slot = .ok v') : v' = v := by
  unfold VM.slotState at h
  split at h
  · cases h; rfl
  · split at h
    · cases h
    · split at h
      · cases h; rfl
      · cases h

/-- the cells `BUILD` may rewrite: the instance under the state, and its attribute dict if it has one -/
def buildTargets (v : VM) : List Ref :=
  match v.stack with
  | _ :: .ref inst :: _ =>
    inst :: (match v.heap[inst]? with
      | some c => match c.objParts? with
        | some p => p.state.toList
        | none => []
      | none => [])
  | _ => []

theorem build_ok {cfg} {v v' : VM} (h : v.build cfg = .ok v') :
    Frame v.heap v'.heap (buildTargets v) ∧ v'.memo = v.memo ∧
    ∃ st inst rest, v.stack = .ref st :: .ref inst :: rest ∧ v'.stack = .ref inst :: rest := by
  unfold VM.build at h
  simp only [bind, Except.bind] at h
  split at h
  · cases h
  · rename_i x hx
    obtain ⟨st, v1⟩ := x
    obtain ⟨hs1, hh1, hm1⟩ := popRef_ok hx
    simp only at h
    split at h
    · cases h
    · rename_i inst hinst
      obtain ⟨rest, hrest⟩ := topRef_ok hinst
      split at h
      · cases h
      · rename_i ic hic
        split at h
        · cases h
        · rename_i p hp
          split at h
          · cases h
          · split at h
            · cases h
            · split at h
              · cases h
              · split at h
                · cases h
                · split at h
                  · cases h
                  · rename_i v2 hv2
                    obtain ⟨hf, hs2, hm2⟩ := updateAttrs_ok hv2
                    have := slotState_ok h
                    subst this
                    have hcell : v.heap[inst]? = some ic := by
                      unfold VM.cell at hic
                      rw [hh1] at hic
                      split at hic
                      · rename_i c hc; cases hic; exact hc
                      · cases hic
                    refine ⟨?_, by rw [hm2, hm1], st, inst, rest, by rw [hs1, hrest], by rw [hs2, hrest]⟩
                    rw [← hh1]
                    have : buildTargets v = inst :: p.state.toList := by
                      unfold buildTargets
                      rw [hs1, hrest]
                      simp [hcell, hp]
                    rw [this]
                    exact hf


/-- the one cell an opcode may rewrite (none for most opcodes; two for `BUILD`) -/
def targets (v : VM) : Op → List Ref
  | .setitem => match v.stack with | _ :: _ :: .ref t :: _ => [t] | _ => []
  | .append => match v.stack with | _ :: .ref t :: _ => [t] | _ => []
  | .setitems | .appends | .additems => match splitMark v.stack [] with | some (_, .ref t :: _) => [t] | _ => []
  | .build => buildTargets v
  | _ => []

theorem alloc_frame (v : VM) (c : Cell) (T) : Frame v.heap (v.alloc c).heap T := Frame.push _ _ _

theorem step_frame {cfg : Cfg} {v v' : VM} {op : Op} (h : v.step cfg op = .ok v') :
    Frame v.heap v'.heap (targets v op) := by
  cases op <;> simp only [VM.step, bind, Except.bind, pure, Except.pure, throw, throwThe, MonadExceptOf.throw] at h
  case proto n => split at h <;> cases h; exact Frame.refl _ _
  case frame => cases h; exact Frame.refl _ _
  case stop => cases h; exact Frame.refl _ _
  case none => cases h; exact alloc_frame _ _ _
  case newtrue => cases h; exact alloc_frame _ _ _
  case newfalse => cases h; exact alloc_frame _ _ _
  case int => cases h; exact alloc_frame _ _ _
  case float => cases h; exact alloc_frame _ _ _
  case str => cases h; exact alloc_frame _ _ _
  case bytes => cases h; exact alloc_frame _ _ _
  case memoize => split at h <;> cases h; exact Frame.refl _ _
  case get => split at h <;> cases h; exact Frame.refl _ _
  case put =>
    split at h
    · cases h
    · split at h
      · cases h; exact Frame.refl _ _
      · split at h <;> cases h; exact Frame.refl _ _
  case emptyDict => cases h; exact alloc_frame _ _ _
  case emptyList => cases h; exact alloc_frame _ _ _
  case emptyTuple => cases h; exact alloc_frame _ _ _
  case emptySet => cases h; exact alloc_frame _ _ _
  case mark => cases h; exact Frame.refl _ _
  case setitem =>
    split at h
    · cases h
    · rename_i x hx; obtain ⟨val, v1⟩ := x; obtain ⟨s1, h1, _⟩ := popRef_ok hx; simp only at h
      split at h
      · cases h
      · rename_i x hx; obtain ⟨key, v2⟩ := x; obtain ⟨s2, h2, _⟩ := popRef_ok hx; simp only at h
        split at h
        · cases h
        · rename_i t ht; obtain ⟨rest, hr⟩ := topRef_ok ht
          have := (setitems_ok h).1
          rw [h2, h1] at this
          simpa [targets, s1, s2, hr] using this
  case setitems =>
    split at h
    · cases h
    · rename_i x hx; obtain ⟨items, v1⟩ := x; obtain ⟨h1, _, s1⟩ := popMark_ok hx; simp only at h
      split at h
      · cases h
      · rename_i t ht; obtain ⟨rest, hr⟩ := topRef_ok ht
        have := (setitems_ok h).1
        rw [h1] at this
        simpa [targets, s1, hr] using this
  case append =>
    split at h
    · cases h
    · rename_i x hx; obtain ⟨val, v1⟩ := x; obtain ⟨s1, h1, _⟩ := popRef_ok hx; simp only at h
      split at h
      · cases h
      · rename_i t ht; obtain ⟨rest, hr⟩ := topRef_ok ht
        have := (extend_ok h).1
        rw [h1] at this
        simpa [targets, s1, hr] using this
  case appends =>
    split at h
    · cases h
    · rename_i x hx; obtain ⟨items, v1⟩ := x; obtain ⟨h1, _, s1⟩ := popMark_ok hx; simp only at h
      split at h
      · cases h
      · rename_i t ht; obtain ⟨rest, hr⟩ := topRef_ok ht
        have := (extend_ok h).1
        rw [h1] at this
        simpa [targets, s1, hr] using this
  case additems =>
    split at h
    · cases h
    · rename_i x hx; obtain ⟨items, v1⟩ := x; obtain ⟨h1, _, s1⟩ := popMark_ok hx; simp only at h
      split at h
      · cases h
      · rename_i t ht; obtain ⟨rest, hr⟩ := topRef_ok ht
        split at h
        · cases h
        · split at h
          · cases h
          · split at h
            · cases h
            · cases h
              have key : ∀ c, Frame v.heap (v1.setCell t c).heap [t] := by
                intro c; rw [← h1]; exact (setCell_frame v1 t c).1
              simpa [targets, s1, hr] using key _
  case frozenset =>
    split at h
    · cases h
    · rename_i x hx; obtain ⟨items, v1⟩ := x; obtain ⟨h1, _, s1⟩ := popMark_ok hx; simp only at h
      split at h
      · cases h
      · cases h; rw [← h1]; exact alloc_frame _ _ _
  case tuple =>
    split at h
    · cases h
    · rename_i x hx; obtain ⟨items, v1⟩ := x; obtain ⟨h1, _, s1⟩ := popMark_ok hx; simp only at h
      cases h; rw [← h1]; exact alloc_frame _ _ _
  case tuple1 =>
    split at h
    · cases h
    · rename_i x hx; obtain ⟨a, v1⟩ := x; obtain ⟨s1, h1, _⟩ := popRef_ok hx; simp only at h
      cases h; rw [← h1]; exact alloc_frame _ _ _
  case tuple2 =>
    split at h
    · cases h
    · rename_i x hx; obtain ⟨a, v1⟩ := x; obtain ⟨s1, h1, _⟩ := popRef_ok hx; simp only at h
      split at h
      · cases h
      · rename_i x hx; obtain ⟨b, v2⟩ := x; obtain ⟨s2, h2, _⟩ := popRef_ok hx; simp only at h
        cases h; rw [← h1, ← h2]; exact alloc_frame _ _ _
  case tuple3 =>
    split at h
    · cases h
    · rename_i x hx; obtain ⟨a, v1⟩ := x; obtain ⟨s1, h1, _⟩ := popRef_ok hx; simp only at h
      split at h
      · cases h
      · rename_i x hx; obtain ⟨b, v2⟩ := x; obtain ⟨s2, h2, _⟩ := popRef_ok hx; simp only at h
        split at h
        · cases h
        · rename_i x hx; obtain ⟨c, v3⟩ := x; obtain ⟨s3, h3, _⟩ := popRef_ok hx; simp only at h
          cases h; rw [← h1, ← h2, ← h3]; exact alloc_frame _ _ _
  case global m n =>
    cases h
    exact Frame.trans (Frame.trans (Frame.push _ _ _) (Frame.push _ _ _)) (Frame.push _ _ _)
  case stackGlobal =>
    split at h
    · cases h
    · rename_i x hx; obtain ⟨a, v1⟩ := x; obtain ⟨s1, h1, _⟩ := popRef_ok hx; simp only at h
      split at h
      · cases h
      · rename_i x hx; obtain ⟨b, v2⟩ := x; obtain ⟨s2, h2, _⟩ := popRef_ok hx; simp only at h
        split at h
        · cases h; rw [← h1, ← h2]; exact alloc_frame _ _ _
        · cases h
  case newobj =>
    split at h
    · cases h
    · rename_i x hx; obtain ⟨a, v1⟩ := x; obtain ⟨s1, h1, _⟩ := popRef_ok hx; simp only at h
      split at h
      · cases h
      · rename_i x hx; obtain ⟨b, v2⟩ := x; obtain ⟨s2, h2, _⟩ := popRef_ok hx; simp only at h
        split at h
        · cases h
        · split at h
          · cases h
          · split at h
            · cases h
            · split at h
              · cases h
              · cases h; rw [← h1, ← h2]; exact alloc_frame _ _ _
  case newobjEx =>
    split at h
    · cases h
    · rename_i x hx; obtain ⟨k, v0⟩ := x; obtain ⟨s0, h0, _⟩ := popRef_ok hx; simp only at h
      split at h
      · cases h
      · rename_i x hx; obtain ⟨a, v1⟩ := x; obtain ⟨s1, h1, _⟩ := popRef_ok hx; simp only at h
        split at h
        · cases h
        · rename_i x hx; obtain ⟨b, v2⟩ := x; obtain ⟨s2, h2, _⟩ := popRef_ok hx; simp only at h
          split at h
          · cases h
          · split at h
            · cases h
            · split at h
              · cases h
              · split at h
                · cases h
                · split at h
                  · cases h
                  · split at h
                    · cases h
                    · split at h
                      · cases h
                      · cases h; rw [← h0, ← h1, ← h2]; exact alloc_frame _ _ _
  case reduce =>
    split at h
    · cases h
    · rename_i x hx; obtain ⟨a, v1⟩ := x; obtain ⟨s1, h1, _⟩ := popRef_ok hx; simp only at h
      split at h
      · cases h
      · rename_i x hx; obtain ⟨b, v2⟩ := x; obtain ⟨s2, h2, _⟩ := popRef_ok hx; simp only at h
        split at h
        · cases h
        · split at h
          · cases h
          · split at h
            · cases h
            · split at h
              · cases h
              · cases h; rw [← h1, ← h2]; exact alloc_frame _ _ _
  case build => exact (build_ok h).1
  case pop => split at h <;> cases h; exact Frame.refl _ _
  case popMark =>
    split at h
    · cases h
    · rename_i x hx; obtain ⟨items, v1⟩ := x; obtain ⟨h1, _, s1⟩ := popMark_ok hx; simp only at h
      cases h; rw [h1]; exact Frame.refl _ _
  case dup => split at h <;> cases h; exact Frame.refl _ _

/-! ## canonical forms -/

/-! ### reachability, isomorphism of rooted heaps -/

def NonAtom (h : Heap) (x : Ref) : Prop := ∃ c, h[x]? = some c ∧ c.isAtom = false

/-- the non-atomic cells reachable from `r` through kids of non-atomic cells -/
inductive Reach (h : Heap) (r : Ref) : Ref → Prop
  | root : NonAtom h r → Reach h r r
  | step {x k : Ref} {c : Cell} : Reach h r x → h[x]? = some c → k ∈ c.kids → NonAtom h k → Reach h r k

/-- element-wise relation of two lists of the same length -/
inductive Pointwise {α β : Type} (R : α → β → Prop) : List α → List β → Prop
  | nil : Pointwise R [] []
  | cons {a : α} {b : β} {as : List α} {bs : List β} : R a b → Pointwise R as bs → Pointwise R (a :: as) (b :: bs)

/-- two references denote "the same thing" under `R`: equal atoms (by value), or `R`-related cells -/
def RelRef (h h' : Heap) (R : Ref → Ref → Prop) (k k' : Ref) : Prop :=
  (∃ c c', h[k]? = some c ∧ h'[k']? = some c' ∧ c.isAtom = true ∧ c'.isAtom = true ∧ c.tag = c'.tag) ∨ R k k'

/-- `R` is an isomorphism between the part of `h` reachable from `r` and the part of `h'` reachable from `r'` -/
structure Iso (h : Heap) (r : Ref) (h' : Heap) (r' : Ref) (R : Ref → Ref → Prop) : Prop where
  root : RelRef h h' R r r'
  dom : ∀ x y, R x y → Reach h r x ∧ Reach h' r' y
  left_total : ∀ x, Reach h r x → ∃ y, R x y
  right_total : ∀ y, Reach h' r' y → ∃ x, R x y
  functional : ∀ x y y', R x y → R x y' → y = y'
  injective : ∀ x x' y, R x y → R x' y → x = x'
  cells : ∀ x y, R x y → ∃ c c', h[x]? = some c ∧ h'[y]? = some c' ∧ c.tag = c'.tag ∧
            Pointwise (RelRef h h' R) c.kids c'.kids

/-! ### `visit` -/

theorem visit_inv {h : Heap} {r : Ref} : ∀ (fuel : Nat) (todo seen o : List Ref), visit h fuel todo seen = some o →
    seen.Nodup → (∀ x ∈ seen, Reach h r x) → (∀ x ∈ todo, NonAtom h x → Reach h r x) →
    o.Nodup ∧ (∀ x ∈ o, Reach h r x) := by
  intro fuel
  induction fuel with
  | zero => intro todo seen o hv; simp [visit] at hv
  | succ fuel ih =>
    intro todo seen o hv hnd hseen htodo
    cases todo with
    | nil => simp [visit] at hv; subst hv; exact ⟨hnd, hseen⟩
    | cons x todo =>
      simp only [visit] at hv
      split at hv
      · cases hv
      · rename_i c hc
        split at hv
        · exact ih todo seen o hv hnd hseen (fun y hy => htodo y (List.mem_cons_of_mem _ hy))
        · rename_i hcond
          simp only [Bool.or_eq_true, not_or, Bool.not_eq_true] at hcond
          have hx : Reach h r x := htodo x (List.mem_cons_self) ⟨c, hc, hcond.1⟩
          have hns : x ∉ seen := by
            intro hm
            have := hcond.2
            simp [hm] at this
          refine ih (c.kids ++ todo) (seen ++ [x]) o hv ?_ ?_ ?_
          · rw [List.nodup_append]
            refine ⟨hnd, by simp, ?_⟩
            intro a ha b hb
            simp at hb; subst hb
            intro e; subst e; exact hns ha
          · intro y hy
            rcases List.mem_append.mp hy with hy | hy
            · exact hseen y hy
            · simp at hy; subst hy; exact hx
          · intro y hy hna
            rcases List.mem_append.mp hy with hy | hy
            · exact Reach.step hx hc hy hna
            · exact htodo y (List.mem_cons_of_mem _ hy) hna

theorem reach_sound {h : Heap} {r : Ref} {o : List Ref} (ho : reach h r = some o) :
    o.Nodup ∧ ∀ x ∈ o, Reach h r x := by
  unfold reach at ho
  refine visit_inv _ _ _ _ ho List.nodup_nil (by simp) ?_
  intro x hx hna
  simp at hx; subst hx
  exact Reach.root hna

/-! ### small list facts -/

theorem indexOf?_some {x : Ref} : ∀ {l : List Ref} {i : Nat}, indexOf? x l = some i → l[i]? = some x := by
  intro l
  induction l with
  | nil => intro i h; simp [indexOf?] at h
  | cons y ys ih =>
    intro i h
    simp only [indexOf?] at h
    split at h
    · rename_i e; cases h; simp [e]
    · cases hq : indexOf? x ys with
      | none => simp [hq] at h
      | some j =>
        simp [hq] at h; subst h
        simpa using ih hq

theorem nodup_index_unique : ∀ {l : List Ref} {i j : Nat} {x : Ref}, l.Nodup → l[i]? = some x → l[j]? = some x → i = j := by
  intro l
  induction l with
  | nil => intro i j x _ h; simp at h
  | cons y ys ih =>
    intro i j x hnd hi hj
    rw [List.nodup_cons] at hnd
    cases i with
    | zero =>
      cases j with
      | zero => rfl
      | succ j =>
        simp at hi hj; subst hi
        exact absurd (List.mem_of_getElem? hj) hnd.1
    | succ i =>
      cases j with
      | zero =>
        simp at hi hj; subst hj
        exact absurd (List.mem_of_getElem? hi) hnd.1
      | succ j =>
        simp at hi hj
        rw [ih hnd.2 hi hj]

theorem mapOpt_length {α β : Type} {f : α → Option β} : ∀ {l : List α} {ys : List β}, mapOpt f l = some ys → ys.length = l.length := by
  intro l
  induction l with
  | nil => intro ys h; simp [mapOpt] at h; subst h; rfl
  | cons x xs ih =>
    intro ys h
    simp only [mapOpt] at h
    split at h
    · rename_i y ys' hy hys; cases h; simp [ih hys]
    · cases h

theorem mapOpt_get {α β : Type} {f : α → Option β} : ∀ {l : List α} {ys : List β}, mapOpt f l = some ys →
    ∀ {i : Nat} {x : α}, l[i]? = some x → ∃ y, ys[i]? = some y ∧ f x = some y := by
  intro l
  induction l with
  | nil => intro ys _ i x hx; simp at hx
  | cons a xs ih =>
    intro ys h i x hx
    simp only [mapOpt] at h
    split at h
    · rename_i y ys' hy hys
      cases h
      cases i with
      | zero => simp at hx; subst hx; exact ⟨y, by simp, hy⟩
      | succ i => simp at hx; simpa using ih hys hx
    · cases h

theorem mapOpt_forall2 {α α' β : Type} {f : α → Option β} {g : α' → Option β} :
    ∀ {l : List α} {l' : List α'} {ys : List β}, mapOpt f l = some ys → mapOpt g l' = some ys →
    Pointwise (fun a b => ∃ y, f a = some y ∧ g b = some y) l l' := by
  intro l
  induction l with
  | nil =>
    intro l' ys h h'
    simp [mapOpt] at h; subst h
    cases l' with
    | nil => exact Pointwise.nil
    | cons b bs =>
      simp only [mapOpt] at h'
      split at h' <;> cases h'
  | cons a xs ih =>
    intro l' ys h h'
    simp only [mapOpt] at h
    split at h
    · rename_i y ys' hy hys
      cases h
      cases l' with
      | nil => simp [mapOpt] at h'
      | cons b bs =>
        simp only [mapOpt] at h'
        split at h'
        · rename_i y2 ys2 hy2 hys2
          cases h'
          exact Pointwise.cons ⟨y, hy, hy2⟩ (ih hys hys2)
        · cases h'
    · cases h


/-! ### the canonical form determines the reachable part up to isomorphism -/

theorem canon_some {h : Heap} {r : Ref} {c : Canon} (hc : canon h r = some c) :
    ∃ o, reach h r = some o ∧ rename h o r = some c.root ∧ mapOpt (canonCell h o) o = some c.cells := by
  unfold canon at hc
  split at hc
  · cases hc
  · rename_i o ho
    split at hc
    · rename_i root cells h1 h2
      cases hc
      exact ⟨o, ho, h1, h2⟩
    · cases hc

theorem rename_atom {h : Heap} {o : List Ref} {k : Ref} {t : Tag} (hr : rename h o k = some (.atom t)) :
    ∃ c, h[k]? = some c ∧ c.isAtom = true ∧ c.tag = t := by
  unfold rename at hr
  split at hr
  · cases hr
  · rename_i c hc
    split at hr
    · rename_i ha; cases hr; exact ⟨c, hc, ha, rfl⟩
    · cases hq : indexOf? k o with
      | none => simp [hq] at hr
      | some j => simp [hq] at hr

theorem rename_idx {h : Heap} {o : List Ref} {k : Ref} {i : Nat} (hr : rename h o k = some (.idx i)) :
    NonAtom h k ∧ o[i]? = some k := by
  unfold rename at hr
  split at hr
  · cases hr
  · rename_i c hc
    split at hr
    · cases hr
    · rename_i ha
      cases hq : indexOf? k o with
      | none => simp [hq] at hr
      | some j =>
        simp [hq] at hr; subst hr
        exact ⟨⟨c, hc, by simpa using ha⟩, indexOf?_some hq⟩

theorem rename_nonatom {h : Heap} {o : List Ref} {k : Ref} {cr : CRef} (hr : rename h o k = some cr) (hna : NonAtom h k) :
    ∃ i, cr = .idx i ∧ o[i]? = some k := by
  cases cr with
  | atom t =>
    obtain ⟨c, hc, ha, _⟩ := rename_atom hr
    obtain ⟨c', hc', hna'⟩ := hna
    rw [hc] at hc'; cases hc'
    rw [ha] at hna'; cases hna'
  | idx i => exact ⟨i, rfl, (rename_idx hr).2⟩

theorem canonCell_some {h : Heap} {o : List Ref} {x : Ref} {t : Tag} {ks : List CRef}
    (hx : canonCell h o x = some (t, ks)) : ∃ c, h[x]? = some c ∧ c.tag = t ∧ mapOpt (rename h o) c.kids = some ks := by
  unfold canonCell at hx
  split at hx
  · cases hx
  · rename_i c hc
    cases hm : mapOpt (rename h o) c.kids with
    | none => simp [hm] at hx
    | some ks' =>
      simp [hm] at hx
      exact ⟨c, hc, hx.1, by rw [← hx.2]; exact hm⟩

/-- the order list contains every reachable non-atomic cell -/
theorem reach_complete {h : Heap} {r : Ref} {o : List Ref} {root : CRef} {cells : List (Tag × List CRef)}
    (hroot : rename h o r = some root) (hcells : mapOpt (canonCell h o) o = some cells) :
    ∀ x, Reach h r x → x ∈ o := by
  intro x hx
  induction hx with
  | root hna =>
    obtain ⟨i, _, hi⟩ := rename_nonatom hroot hna
    exact List.mem_of_getElem? hi
  | step hxr hc hk hna ih =>
    rename_i x k c
    obtain ⟨i, hi⟩ := List.getElem?_of_mem ih
    obtain ⟨⟨t, ks⟩, _, hcc⟩ := mapOpt_get hcells hi
    obtain ⟨c', hc', _, hks⟩ := canonCell_some hcc
    rw [hc] at hc'; cases hc'
    obtain ⟨j, hj⟩ := List.getElem?_of_mem hk
    obtain ⟨cr, _, hcr⟩ := mapOpt_get hks hj
    obtain ⟨i', _, hi'⟩ := rename_nonatom hcr hna
    exact List.mem_of_getElem? hi'

theorem relRef_of_rename {h h' : Heap} {o o' : List Ref} {k k' : Ref} {cr : CRef}
    (h1 : rename h o k = some cr) (h2 : rename h' o' k' = some cr) :
    RelRef h h' (fun x y => ∃ i : Nat, o[i]? = some x ∧ o'[i]? = some y) k k' := by
  cases cr with
  | atom t =>
    obtain ⟨c, hc, ha, ht⟩ := rename_atom h1
    obtain ⟨c', hc', ha', ht'⟩ := rename_atom h2
    exact Or.inl ⟨c, c', hc, hc', ha, ha', by rw [ht, ht']⟩
  | idx i => exact Or.inr ⟨i, (rename_idx h1).2, (rename_idx h2).2⟩

/-- **T1.**  Equal canonical forms ⇒ the reachable parts are isomorphic. -/
theorem canon_iso {h h' : Heap} {r r' : Ref} {c : Canon} (hc : canon h r = some c) (hc' : canon h' r' = some c) :
    ∃ R, Iso h r h' r' R := by
  obtain ⟨o, ho, hroot, hcells⟩ := canon_some hc
  obtain ⟨o', ho', hroot', hcells'⟩ := canon_some hc'
  obtain ⟨hnd, hsound⟩ := reach_sound ho
  obtain ⟨hnd', hsound'⟩ := reach_sound ho'
  have hlen : o.length = o'.length := by rw [← mapOpt_length hcells, ← mapOpt_length hcells']
  refine ⟨fun x y => ∃ i : Nat, o[i]? = some x ∧ o'[i]? = some y, ?_⟩
  refine ⟨relRef_of_rename hroot hroot', ?_, ?_, ?_, ?_, ?_, ?_⟩
  · rintro x y ⟨i, hi, hi'⟩
    exact ⟨hsound x (List.mem_of_getElem? hi), hsound' y (List.mem_of_getElem? hi')⟩
  · intro x hx
    obtain ⟨i, hi⟩ := List.getElem?_of_mem (reach_complete hroot hcells x hx)
    have hlt : i < o'.length := by
      rw [← hlen]; exact (List.getElem?_eq_some_iff.mp hi).1
    exact ⟨o'[i], i, hi, by simp [hlt]⟩
  · intro y hy
    obtain ⟨i, hi⟩ := List.getElem?_of_mem (reach_complete hroot' hcells' y hy)
    have hlt : i < o.length := by
      rw [hlen]; exact (List.getElem?_eq_some_iff.mp hi).1
    exact ⟨o[i], i, by simp [hlt], hi⟩
  · rintro x y y' ⟨i, hi, hi'⟩ ⟨j, hj, hj'⟩
    have := nodup_index_unique hnd hi hj
    subst this
    rw [hi'] at hj'; cases hj'; rfl
  · rintro x x' y ⟨i, hi, hi'⟩ ⟨j, hj, hj'⟩
    have := nodup_index_unique hnd' hi' hj'
    subst this
    rw [hi] at hj; cases hj; rfl
  · rintro x y ⟨i, hi, hi'⟩
    obtain ⟨⟨t, ks⟩, hci, hcc⟩ := mapOpt_get hcells hi
    obtain ⟨⟨t', ks'⟩, hci', hcc'⟩ := mapOpt_get hcells' hi'
    rw [hci] at hci'; cases hci'
    obtain ⟨cx, hcx, htx, hkx⟩ := canonCell_some hcc
    obtain ⟨cy, hcy, hty, hky⟩ := canonCell_some hcc'
    refine ⟨cx, cy, hcx, hcy, by rw [htx, hty], ?_⟩
    have := mapOpt_forall2 hkx hky
    clear hkx hky
    generalize cx.kids = l1 at this
    generalize cy.kids = l2 at this
    induction this with
    | nil => exact Pointwise.nil
    | cons hab _ ih =>
      obtain ⟨cr, h1, h2⟩ := hab
      exact Pointwise.cons (relRef_of_rename h1 h2) ih

/-! ## the round trip: evaluated check, and the fragments proved for every heap -/

theorem visitFuel_ge (h : Heap) : 2 ≤ visitFuel h := by
  unfold visitFuel
  exact Nat.le_add_right _ _

/-- the statement of the round trip for one rooted heap -/
def Roundtrip (h : Heap) (r : Ref) : Prop :=
  ∃ ops h' r' c, dump h r = .ok ops ∧ run ops = .ok (h', r') ∧ canon h r = some c ∧ canon h' r' = some c

theorem roundtripB_iff (h : Heap) (r : Ref) : roundtripB h r = true ↔ Roundtrip h r := by
  unfold roundtripB Roundtrip
  constructor
  · intro hb
    split at hb
    · cases hb
    · rename_i ops hd
      split at hb
      · cases hb
      · rename_i h' r' hr
        split at hb
        · rename_i c c' hc hc'
          have : c = c' := by simpa using hb
          subst this
          exact ⟨ops, h', r', c, hd, hr, hc, hc'⟩
        · cases hb
  · rintro ⟨ops, h', r', c, hd, hr, hc, hc'⟩
    simp [hd, hr, hc, hc']

theorem canon_atom {h : Heap} {r : Ref} {c : Cell} (hc : h[r]? = some c) (ha : c.isAtom = true) :
    canon h r = some ⟨.atom c.tag, []⟩ := by
  have hf := visitFuel_ge h
  obtain ⟨n, hn⟩ : ∃ n, visitFuel h = n + 2 := ⟨visitFuel h - 2, by omega⟩
  simp [canon, reach, hn, visit, hc, ha, rename, mapOpt]

theorem canon_leaf {h : Heap} {r : Ref} {t : Tag} (hc : h[r]? = some ⟨t, []⟩) (ha : (Cell.mk t []).isAtom = false) :
    canon h r = some ⟨.idx 0, [(t, [])]⟩ := by
  have hf := visitFuel_ge h
  obtain ⟨n, hn⟩ : ∃ n, visitFuel h = n + 2 := ⟨visitFuel h - 2, by omega⟩
  simp [canon, reach, hn, visit, hc, ha, rename, mapOpt, indexOf?, canonCell]


/-- round trip of an atomic root (`None`, a bool, an int, a float, the empty tuple), in any heap -/
theorem roundtrip_atom {h : Heap} {r : Ref} {c : Cell} (hc : h[r]? = some c) (ha : c.isAtom = true) : Roundtrip h r := by
  obtain ⟨t, ks⟩ := c
  have hcan := canon_atom hc ha
  cases t <;> simp [Cell.isAtom] at ha
  case none =>
    refine ⟨[.none, .stop], #[⟨.none, []⟩], 0, _, ?_, ?_, hcan, canon_atom (c := ⟨.none, []⟩) (by simp) rfl⟩
    · simp [dump, dumpWith, dumpFuel, save, hc, atomOp?, bind, Except.bind, pure, Except.pure]
    · simp [run, runWith, runOps, VM.step, VM.alloc, VM.topRef, bind, Except.bind, pure, Except.pure]
  case bool b =>
    cases b
    · refine ⟨[.newfalse, .stop], #[⟨.bool false, []⟩], 0, _, ?_, ?_, hcan, canon_atom (c := ⟨.bool false, []⟩) (by simp) rfl⟩
      · simp [dump, dumpWith, dumpFuel, save, hc, atomOp?, bind, Except.bind, pure, Except.pure]
      · simp [run, runWith, runOps, VM.step, VM.alloc, VM.topRef, bind, Except.bind, pure, Except.pure]
    · refine ⟨[.newtrue, .stop], #[⟨.bool true, []⟩], 0, _, ?_, ?_, hcan, canon_atom (c := ⟨.bool true, []⟩) (by simp) rfl⟩
      · simp [dump, dumpWith, dumpFuel, save, hc, atomOp?, bind, Except.bind, pure, Except.pure]
      · simp [run, runWith, runOps, VM.step, VM.alloc, VM.topRef, bind, Except.bind, pure, Except.pure]
  case int z =>
    refine ⟨[.int z, .stop], #[⟨.int z, []⟩], 0, _, ?_, ?_, hcan, canon_atom (c := ⟨.int z, []⟩) (by simp) rfl⟩
    · simp [dump, dumpWith, dumpFuel, save, hc, atomOp?, bind, Except.bind, pure, Except.pure]
    · simp [run, runWith, runOps, VM.step, VM.alloc, VM.topRef, bind, Except.bind, pure, Except.pure]
  case float b =>
    refine ⟨[.float b, .stop], #[⟨.float b, []⟩], 0, _, ?_, ?_, hcan, canon_atom (c := ⟨.float b, []⟩) (by simp) rfl⟩
    · simp [dump, dumpWith, dumpFuel, save, hc, atomOp?, bind, Except.bind, pure, Except.pure]
    · simp [run, runWith, runOps, VM.step, VM.alloc, VM.topRef, bind, Except.bind, pure, Except.pure]
  case tuple =>
    subst ha
    refine ⟨[.emptyTuple, .stop], #[⟨.tuple, []⟩], 0, _, ?_, ?_, hcan, canon_atom (c := ⟨.tuple, []⟩) (by simp) rfl⟩
    · simp [dump, dumpWith, dumpFuel, save, hc, atomOp?, bind, Except.bind, pure, Except.pure]
    · simp [run, runWith, runOps, VM.step, VM.alloc, VM.topRef, bind, Except.bind, pure, Except.pure]

/-- round trip of a string root, in any heap -/
theorem roundtrip_str {h : Heap} {r : Ref} {s : String} (hc : h[r]? = some ⟨.str s, []⟩) : Roundtrip h r := by
  refine ⟨[.str s, .memoize, .stop], #[⟨.str s, []⟩], 0, _, ?_, ?_, canon_leaf hc rfl, canon_leaf (by simp) rfl⟩
  · simp [dump, dumpWith, dumpFuel, save, hc, atomOp?, memoIdx, indexOf?, bind, Except.bind, pure, Except.pure]
  · simp [run, runWith, runOps, VM.step, VM.alloc, VM.topRef, bind, Except.bind, pure, Except.pure]

/-- round trip of a bytes root, in any heap -/
theorem roundtrip_bytes {h : Heap} {r : Ref} {s : String} (hc : h[r]? = some ⟨.bytes s, []⟩) : Roundtrip h r := by
  refine ⟨[.bytes s, .memoize, .stop], #[⟨.bytes s, []⟩], 0, _, ?_, ?_, canon_leaf hc rfl, canon_leaf (by simp) rfl⟩
  · simp [dump, dumpWith, dumpFuel, save, hc, atomOp?, memoIdx, indexOf?, bind, Except.bind, pure, Except.pure]
  · simp [run, runWith, runOps, VM.step, VM.alloc, VM.topRef, bind, Except.bind, pure, Except.pure]

/-! ### enough fuel -/

theorem sum_filter_remove (w : Nat → Nat) (p : Nat → Bool) (x : Nat) (hp : p x = true) :
    ∀ l : List Nat, l.Nodup → x ∈ l →
      ((l.filter (fun i => p i && i != x)).map w).sum + w x = ((l.filter p).map w).sum := by
  intro l
  induction l with
  | nil => intro _ hx; cases hx
  | cons a l ih =>
    intro hnd hx
    rw [List.nodup_cons] at hnd
    by_cases hax : a = x
    · subst hax
      have hcongr : l.filter (fun i => p i && i != a) = l.filter p := by
        apply List.filter_congr
        intro i hi
        have : i ≠ a := fun e => hnd.1 (e ▸ hi)
        simp [this]
      simp [hp, hcongr, Nat.add_comm]
    · have hxl : x ∈ l := by
        rcases List.mem_cons.mp hx with e | e
        · exact absurd e.symm hax
        · exact e
      have := ih hnd.2 hxl
      by_cases hpa : p a = true
      · simp [hpa, hax]
        omega
      · simp [hpa]
        simpa using this

/-- kids of the cells not yet visited -/
def restKids (h : Heap) (seen : List Ref) : Nat :=
  (((List.range h.size).filter (fun i => !seen.contains i)).map (kidsLen h)).sum

theorem restKids_snoc {h : Heap} {seen : List Ref} {x : Ref} {c : Cell} (hc : h[x]? = some c) (hx : seen.contains x = false) :
    restKids h (seen ++ [x]) + c.kids.length = restKids h seen := by
  have hlt : x < h.size := by
    rcases Nat.lt_or_ge x h.size with hl | hl
    · exact hl
    · simp [Array.getElem?_eq_none hl] at hc
  have hk : kidsLen h x = c.kids.length := by simp [kidsLen, hc]
  unfold restKids
  have hcongr : (List.range h.size).filter (fun i => !(seen ++ [x]).contains i) =
      (List.range h.size).filter (fun i => (fun i => !seen.contains i) i && i != x) := by
    apply List.filter_congr
    intro i _
    by_cases e : i = x <;> simp [e]
  rw [hcongr, ← hk]
  exact sum_filter_remove (kidsLen h) (fun i => !seen.contains i) x (by simpa using hx) _ List.nodup_range
    (List.mem_range.mpr hlt)

/-- a successful walk succeeds, with the same result, with any fuel above the potential -/
theorem visit_fuel {h : Heap} : ∀ (f : Nat) (todo seen o : List Ref), visit h f todo seen = some o →
    ∀ f2, todo.length + restKids h seen + 1 ≤ f2 → visit h f2 todo seen = some o := by
  intro f
  induction f with
  | zero => intro todo seen o hv; simp [visit] at hv
  | succ f ih =>
    intro todo seen o hv f2 hf2
    obtain ⟨n, rfl⟩ : ∃ n, f2 = n + 1 := ⟨f2 - 1, by omega⟩
    cases todo with
    | nil => simp [visit] at hv ⊢; exact hv
    | cons x todo =>
      simp only [visit] at hv ⊢
      split at hv
      · cases hv
      · rename_i c hc
        split at hv
        · rename_i hcond
          simp only [hcond, if_true]
          exact ih todo seen o hv n (by simp at hf2; omega)
        · rename_i hcond
          simp only [hcond]
          simp only [Bool.or_eq_true, not_or, Bool.not_eq_true] at hcond
          have := restKids_snoc hc hcond.2
          refine ih _ _ o hv n ?_
          simp at hf2 ⊢
          omega

theorem restKids_nil_le (h : Heap) : restKids h [] + 2 = visitFuel h := by
  have : (List.range h.size).filter (fun i => !([] : List Ref).contains i) = List.range h.size := by
    rw [List.filter_eq_self]; intro a _; simp
  unfold restKids visitFuel
  rw [this, Nat.add_comm]

theorem reach_of_visit {h : Heap} {r : Ref} {f : Nat} {o : List Ref} (hv : visit h f [r] [] = some o) :
    reach h r = some o := by
  unfold reach
  refine visit_fuel f _ _ o hv _ ?_
  have := restKids_nil_le h
  simp; omega


/-! ### isomorphic rooted heaps have the same canonical form (converse of `canon_iso`) -/

theorem reach_nonAtom {h : Heap} {r x : Ref} (hx : Reach h r x) : NonAtom h x := by
  cases hx <;> assumption

theorem Pointwise.append {α β : Type} {R : α → β → Prop} {a1 a2 : List α} {b1 b2 : List β}
    (h1 : Pointwise R a1 b1) (h2 : Pointwise R a2 b2) : Pointwise R (a1 ++ a2) (b1 ++ b2) := by
  induction h1 with
  | nil => exact h2
  | cons hab _ ih => exact Pointwise.cons hab ih

theorem Pointwise.mem_iff {R : Ref → Ref → Prop} (hf : ∀ x y y', R x y → R x y' → y = y')
    (hi : ∀ x x' y, R x y → R x' y → x = x') {l l' : List Ref} (hp : Pointwise R l l') {x x' : Ref} (hx : R x x') :
    x ∈ l ↔ x' ∈ l' := by
  induction hp with
  | nil => simp
  | cons hab htl ih =>
    rename_i a b as bs
    constructor
    · intro hm
      rcases List.mem_cons.mp hm with e | e
      · subst e; rw [hf _ _ _ hx hab]; exact List.mem_cons_self
      · exact List.mem_cons_of_mem _ (ih.mp e)
    · intro hm
      rcases List.mem_cons.mp hm with e | e
      · subst e; rw [hi _ _ _ hx hab]; exact List.mem_cons_self
      · exact List.mem_cons_of_mem _ (ih.mpr e)

theorem visit_iso {h h' : Heap} {r r' : Ref} {R : Ref → Ref → Prop} (iso : Iso h r h' r' R) :
    ∀ (f : Nat) (todo todo' seen seen' o : List Ref), Pointwise (RelRef h h' R) todo todo' → Pointwise R seen seen' →
      visit h f todo seen = some o → ∃ o', visit h' f todo' seen' = some o' ∧ Pointwise R o o' := by
  intro f
  induction f with
  | zero => intro todo todo' seen seen' o _ _ hv; simp [visit] at hv
  | succ f ih =>
    intro todo todo' seen seen' o ht hs hv
    cases ht with
    | nil => simp [visit] at hv ⊢; subst hv; exact hs
    | cons hrel htl =>
      rename_i x x' t t'
      simp only [visit] at hv ⊢
      split at hv
      · cases hv
      · rename_i c hc
        rcases hrel with ⟨c0, c0', h0, h0', ha, ha', _⟩ | hR
        · rw [hc] at h0; cases h0
          simp only [h0', ha, ha', Bool.true_or, if_true] at hv ⊢
          exact ih _ _ _ _ o htl hs hv
        · obtain ⟨cx, cy, hcx, hcy, _, hkids⟩ := iso.cells x x' hR
          rw [hc] at hcx; cases hcx
          obtain ⟨hrx, hry⟩ := iso.dom x x' hR
          obtain ⟨c1, hc1, hna⟩ := reach_nonAtom hrx
          rw [hc] at hc1; cases hc1
          obtain ⟨c2, hc2, hna'⟩ := reach_nonAtom hry
          rw [hcy] at hc2; cases hc2
          have hcont : seen.contains x = seen'.contains x' := by
            have := Pointwise.mem_iff iso.functional iso.injective hs hR
            by_cases hm : x ∈ seen
            · simp [hm, this.mp hm]
            · have hm' : x' ∉ seen' := fun e => hm (this.mpr e)
              simp [hm, hm']
          simp only [hcy, hna, hna', Bool.false_or, hcont] at hv ⊢
          split at hv
          · rename_i hcond
            simp only [hcond, if_true]
            exact ih _ _ _ _ o htl hs hv
          · rename_i hcond
            simp only [hcond]
            exact ih _ _ _ _ o (Pointwise.append hkids htl)
              (Pointwise.append hs (Pointwise.cons hR Pointwise.nil)) hv

theorem indexOf?_rel {R : Ref → Ref → Prop} (hf : ∀ x y y', R x y → R x y' → y = y')
    (hi : ∀ x x' y, R x y → R x' y → x = x') {o o' : List Ref} (hp : Pointwise R o o') {k k' : Ref} (hk : R k k') :
    indexOf? k o = indexOf? k' o' := by
  induction hp with
  | nil => rfl
  | cons hab htl ih =>
    rename_i a b as bs
    simp only [indexOf?]
    by_cases e : a = k
    · subst e
      have : b = k' := hf _ _ _ hab hk
      simp [this]
    · have : b ≠ k' := fun e' => e (hi _ _ _ hab (e' ▸ hk))
      simp [e, this, ih]

theorem rename_rel {h h' : Heap} {r r' : Ref} {R : Ref → Ref → Prop} (iso : Iso h r h' r' R) {o o' : List Ref}
    (hp : Pointwise R o o') {k k' : Ref} (hk : RelRef h h' R k k') : rename h o k = rename h' o' k' := by
  rcases hk with ⟨c, c', hc, hc', ha, ha', ht⟩ | hR
  · simp [rename, hc, hc', ha, ha', ht]
  · obtain ⟨hrx, hry⟩ := iso.dom k k' hR
    obtain ⟨c1, hc1, hna⟩ := reach_nonAtom hrx
    obtain ⟨c2, hc2, hna'⟩ := reach_nonAtom hry
    simp [rename, hc1, hc2, hna, hna', indexOf?_rel iso.functional iso.injective hp hR]

theorem mapOpt_pointwise {α α' β : Type} {f : α → Option β} {g : α' → Option β} {l : List α} {l' : List α'}
    (hp : Pointwise (fun a b => f a = g b) l l') : mapOpt f l = mapOpt g l' := by
  induction hp with
  | nil => rfl
  | cons hab _ ih => simp only [mapOpt, hab, ih]

theorem Pointwise.imp {α β : Type} {R S : α → β → Prop} (hRS : ∀ a b, R a b → S a b) {l : List α} {l' : List β}
    (hp : Pointwise R l l') : Pointwise S l l' := by
  induction hp with
  | nil => exact Pointwise.nil
  | cons hab _ ih => exact Pointwise.cons (hRS _ _ hab) ih

theorem canonCell_rel {h h' : Heap} {r r' : Ref} {R : Ref → Ref → Prop} (iso : Iso h r h' r' R) {o o' : List Ref}
    (hp : Pointwise R o o') {x x' : Ref} (hx : R x x') : canonCell h o x = canonCell h' o' x' := by
  obtain ⟨cx, cy, hcx, hcy, htag, hkids⟩ := iso.cells x x' hx
  simp only [canonCell, hcx, hcy, htag]
  have := mapOpt_pointwise (f := rename h o) (g := rename h' o')
    (Pointwise.imp (fun a b hab => rename_rel iso hp hab) hkids)
  rw [this]

/-- **converse of T1.**  Isomorphic rooted heaps have the same canonical form (when the first has one). -/
theorem iso_canon {h h' : Heap} {r r' : Ref} {R : Ref → Ref → Prop} (iso : Iso h r h' r' R) {c : Canon}
    (hc : canon h r = some c) : canon h' r' = some c := by
  obtain ⟨o, ho, hroot, hcells⟩ := canon_some hc
  obtain ⟨o', hv', hoo⟩ := visit_iso iso _ [r] [r'] [] [] o (Pointwise.cons iso.root Pointwise.nil) Pointwise.nil ho
  have ho' := reach_of_visit hv'
  have h1 : rename h' o' r' = some c.root := by rw [← rename_rel iso hoo iso.root]; exact hroot
  have h2 : mapOpt (canonCell h' o') o' = some c.cells := by
    have := mapOpt_pointwise (f := canonCell h o) (g := canonCell h' o')
      (Pointwise.imp (fun a b hab => canonCell_rel iso hoo hab) hoo)
    rw [← this]; exact hcells
  simp [canon, ho', h1, h2]


/-! ### dicts: keys are strings with pairwise distinct texts -/

theorem strOf_cell {H : Heap} {k : Ref} {s : String} (hs : strOf H k = some s) : ∃ ks, H[k]? = some ⟨.str s, ks⟩ := by
  unfold strOf at hs
  split at hs
  · rename_i s' ks heq; cases hs; exact ⟨ks, heq⟩
  · cases hs

theorem keyEq_str {H : Heap} {a b : Ref} {s t : String} (ha : strOf H a = some s) (hb : strOf H b = some t) (hne : s ≠ t) :
    keyEq H a b = .ok false := by
  obtain ⟨ka, ha'⟩ := strOf_cell ha
  obtain ⟨kb, hb'⟩ := strOf_cell hb
  have hab : a ≠ b := by
    intro e; subst e; rw [ha'] at hb'; cases hb'; exact hne rfl
  simp [keyEq, hab, ha', hb', hne]

theorem keyStrs_cons {H : Heap} {k v : Ref} {rest : List Ref} {sa : List String} (h0 : keyStrs H (k :: v :: rest) = some sa) :
    ∃ s ss, strOf H k = some s ∧ keyStrs H rest = some ss ∧ sa = s :: ss := by
  simp only [keyStrs] at h0
  split at h0
  · rename_i s ss e1 e2; cases h0; exact ⟨s, ss, e1, e2, rfl⟩
  · cases h0

theorem dictSet_fresh {H : Heap} {k v : Ref} {s : String} (hk : strOf H k = some s) :
    ∀ (acc : List Ref) (sa : List String), keyStrs H acc = some sa → s ∉ sa → dictSet H acc k v = .ok (acc ++ [k, v])
  | [], _, _, _ => by simp [dictSet]
  | [_], _, h0, _ => by simp [keyStrs] at h0
  | k0 :: v0 :: rest, sa, h0, hns => by
    obtain ⟨s0, ss, hs0, hrest, rfl⟩ := keyStrs_cons h0
    have hne : s0 ≠ s := fun e => hns (by simp [e])
    simp only [dictSet, bind, Except.bind, keyEq_str hs0 hk hne]
    rw [dictSet_fresh hk rest ss hrest (fun e => hns (by simp [e]))]
    simp [pure, Except.pure]

theorem keyStrs_snoc {H : Heap} {k v : Ref} {s : String} (hk : strOf H k = some s) :
    ∀ (acc : List Ref) (sa : List String), keyStrs H acc = some sa → keyStrs H (acc ++ [k, v]) = some (sa ++ [s])
  | [], _, h0 => by simp [keyStrs] at h0; subst h0; simp [keyStrs, hk]
  | [_], _, h0 => by simp [keyStrs] at h0
  | k0 :: v0 :: rest, sa, h0 => by
    obtain ⟨s0, ss, hs0, hrest, rfl⟩ := keyStrs_cons h0
    simp [keyStrs, hs0, keyStrs_snoc hk rest ss hrest]

theorem hashable_str {H : Heap} {k : Ref} {s : String} (hk : strOf H k = some s) : hashable H k = .ok () := by
  obtain ⟨ks, hc⟩ := strOf_cell hk
  simp [hashable, hc]

/-- `SETITEMS` with string keys that are pairwise distinct and distinct from the keys already there appends the pairs -/
theorem dictSetMany_fresh {H : Heap} : ∀ (ys acc : List Ref) (sa ss : List String), keyStrs H acc = some sa →
    keyStrs H ys = some ss → (sa ++ ss).Nodup → dictSetMany H acc ys = .ok (acc ++ ys)
  | [], acc, _, _, _, _, _ => by simp [dictSetMany]
  | [_], _, _, _, _, h0, _ => by simp [keyStrs] at h0
  | k :: v :: rest, acc, sa, ss, ha, h0, hnd => by
    obtain ⟨s, ss', hs, hrest, rfl⟩ := keyStrs_cons h0
    have hns : s ∉ sa := by
      intro e
      rw [List.nodup_append] at hnd
      exact hnd.2.2 s e s (by simp) rfl
    simp only [dictSetMany, bind, Except.bind, hashable_str hs, dictSet_fresh hs acc sa ha hns]
    have := dictSetMany_fresh rest (acc ++ [k, v]) (sa ++ [s]) ss' (keyStrs_snoc hs acc sa ha) hrest (by
      simpa [List.append_assoc] using hnd)
    simpa [List.append_assoc] using this



/-! ## small facts about running opcodes, used by the simulation -/

theorem Pointwise.length_eq {α β : Type} {R : α → β → Prop} {l : List α} {l' : List β} (hp : Pointwise R l l') :
    l.length = l'.length := by
  induction hp with
  | nil => rfl
  | cons _ _ ih => simp [ih]

theorem runOps_cons {cfg : Cfg} {op : Op} {rest : List Op} {v v' : VM} (hne : op ≠ .stop) (hs : v.step cfg op = .ok v') :
    runOps cfg (op :: rest) v = runOps cfg rest v' := by
  cases op <;> first | exact absurd rfl hne | simp [runOps, hs, bind, Except.bind]

theorem atomOp?_some {c : Cell} {op : Op} (ha : atomOp? c = some op) :
    c.isAtom = true ∧ (Cell.mk c.tag []).isAtom = true ∧ op ≠ .stop ∧ ∀ v : VM, v.step {} op = .ok (v.alloc ⟨c.tag, []⟩) := by
  obtain ⟨t, ks⟩ := c
  cases t <;> simp [atomOp?] at ha
  case none => subst ha; exact ⟨rfl, rfl, by simp, fun _ => rfl⟩
  case bool b => cases b <;> simp at ha <;> subst ha <;> exact ⟨rfl, rfl, by simp, fun _ => rfl⟩
  case int z => subst ha; exact ⟨rfl, rfl, by simp, fun _ => rfl⟩
  case float z => subst ha; exact ⟨rfl, rfl, by simp, fun _ => rfl⟩
  case tuple =>
    obtain ⟨hk, rfl⟩ := ha
    exact ⟨by simp [Cell.isAtom, hk], rfl, by simp, fun _ => rfl⟩

theorem atomOp?_none {c : Cell} (ha : atomOp? c = none) : c.isAtom = false := by
  obtain ⟨t, ks⟩ := c
  cases t <;> simp [atomOp?, Cell.isAtom] at ha ⊢
  case bool b => cases b <;> simp at ha
  case tuple => exact ha

theorem indexOf?_none {x : Ref} : ∀ {l : List Ref}, indexOf? x l = none → x ∉ l := by
  intro l
  induction l with
  | nil => intro _; simp
  | cons y ys ih =>
    intro hn
    simp only [indexOf?] at hn
    split at hn
    · cases hn
    · rename_i e
      cases hq : indexOf? x ys with
      | none => simp; exact ⟨fun e' => e e'.symm, ih hq⟩
      | some j => simp [hq] at hn

theorem step_memoize {v : VM} {y : Ref} {S : List Item} (hs : v.stack = .ref y :: S) :
    v.step {} .memoize = .ok { v with memo := v.memo.push y } := by
  simp [VM.step, VM.topRef, hs, bind, Except.bind, pure, Except.pure]

theorem splitMark_refs (S : List Item) : ∀ (l acc : List Ref),
    splitMark (l.map Item.ref ++ Item.mark :: S) acc = some (l.reverse ++ acc, S) := by
  intro l
  induction l with
  | nil => intro acc; simp [splitMark]
  | cons a l ih => intro acc; simp [splitMark, ih]

theorem popMark_refs {v : VM} {ys : List Ref} {S : List Item} (hs : v.stack = ys.reverse.map Item.ref ++ Item.mark :: S) :
    v.popMark = .ok (ys, { v with stack := S }) := by
  have := splitMark_refs S ys.reverse []
  simp only [List.reverse_reverse, List.append_nil] at this
  simp only [VM.popMark, hs, this]

theorem chunks_single {l : List Ref} {n : Nat} (h0 : l ≠ []) (hn : l.length ≤ n) : chunks n l = [l] := by
  unfold chunks
  cases l with
  | nil => exact absurd rfl h0
  | cons a t =>
    have : chunksAux n t.length ([] : List Ref) = [] := by cases t.length <;> simp [chunksAux]
    simp [chunksAux, List.take_of_length_le hn, List.drop_of_length_le hn, this]

theorem step_appends {v : VM} {ys k0 : List Ref} {y : Ref} {S : List Item}
    (hs : v.stack = ys.reverse.map Item.ref ++ Item.mark :: .ref y :: S) (hy : v.heap[y]? = some ⟨.list, k0⟩) :
    v.step {} .appends = .ok { v with heap := v.heap.setIfInBounds y ⟨.list, k0 ++ ys⟩, stack := .ref y :: S } := by
  simp [VM.step, popMark_refs hs, VM.topRef, VM.extend, VM.cell, hy, VM.setCell, bind, Except.bind, pure, Except.pure]

theorem step_append {v : VM} {y1 : Ref} {k0 : List Ref} {y : Ref} {S : List Item}
    (hs : v.stack = .ref y1 :: .ref y :: S) (hy : v.heap[y]? = some ⟨.list, k0⟩) :
    v.step {} .append = .ok { v with heap := v.heap.setIfInBounds y ⟨.list, k0 ++ [y1]⟩, stack := .ref y :: S } := by
  simp [VM.step, VM.popRef, hs, VM.topRef, VM.extend, VM.cell, hy, VM.setCell, bind, Except.bind, pure, Except.pure]

theorem run_pops : ∀ (l : List Ref) (v : VM) (S : List Item) (rest : List Op), v.stack = l.map Item.ref ++ S →
    runOps {} (List.replicate l.length Op.pop ++ rest) v = runOps {} rest { v with stack := S } := by
  intro l
  induction l with
  | nil => intro v S rest hs; simp at hs ⊢; rw [← hs]
  | cons a l ih =>
    intro v S rest hs
    have hst : v.step {} .pop = .ok { v with stack := l.map Item.ref ++ S } := by
      simp [VM.step, hs, pure, Except.pure]
    simp only [List.length_cons, List.replicate_succ, List.cons_append]
    rw [runOps_cons (by simp) hst]
    exact ih _ S rest rfl

theorem step_tupleN {v : VM} {ys : List Ref} {S : List Item} (hs : v.stack = ys.reverse.map Item.ref ++ S) :
    (ys.length = 1 → v.step {} .tuple1 = .ok (VM.alloc { v with stack := S } ⟨.tuple, ys⟩)) ∧
    (ys.length = 2 → v.step {} .tuple2 = .ok (VM.alloc { v with stack := S } ⟨.tuple, ys⟩)) ∧
    (ys.length = 3 → v.step {} .tuple3 = .ok (VM.alloc { v with stack := S } ⟨.tuple, ys⟩)) := by
  refine ⟨?_, ?_, ?_⟩ <;> intro hl
  · match ys, hl with
    | [a], _ => simp at hs; simp [VM.step, VM.popRef, hs, bind, Except.bind, pure, Except.pure]
  · match ys, hl with
    | [a, b], _ => simp at hs; simp [VM.step, VM.popRef, hs, bind, Except.bind, pure, Except.pure]
  · match ys, hl with
    | [a, b, c], _ => simp at hs; simp [VM.step, VM.popRef, hs, bind, Except.bind, pure, Except.pure]

theorem step_tupleM {v : VM} {ys : List Ref} {S : List Item} (hs : v.stack = ys.reverse.map Item.ref ++ Item.mark :: S) :
    v.step {} .tuple = .ok (VM.alloc { v with stack := S } ⟨.tuple, ys⟩) := by
  simp [VM.step, popMark_refs hs, bind, Except.bind, pure, Except.pure]

theorem step_popMarkM {v : VM} {ys : List Ref} {S : List Item} (hs : v.stack = ys.reverse.map Item.ref ++ Item.mark :: S) :
    v.step {} .popMark = .ok { v with stack := S } := by
  simp [VM.step, popMark_refs hs, bind, Except.bind, pure, Except.pure]

theorem step_get {v : VM} {i : Nat} {z : Ref} (hz : v.memo[i]? = some z) :
    v.step {} (.get i) = .ok { v with stack := .ref z :: v.stack } := by
  simp [VM.step, hz, pure, Except.pure]

theorem Pointwise.imp_mem {α β : Type} {R S : α → β → Prop} {l : List α} {l' : List β} (hp : Pointwise R l l')
    (hRS : ∀ a b, a ∈ l → b ∈ l' → R a b → S a b) : Pointwise S l l' := by
  induction hp with
  | nil => exact Pointwise.nil
  | cons hab _ ih =>
    exact Pointwise.cons (hRS _ _ List.mem_cons_self List.mem_cons_self hab)
      (ih (fun a b ha hb => hRS a b (List.mem_cons_of_mem _ ha) (List.mem_cons_of_mem _ hb)))

theorem Pointwise.exists_left {α β : Type} {R : α → β → Prop} {l : List α} {l' : List β} (hp : Pointwise R l l') :
    ∀ b, b ∈ l' → ∃ a, a ∈ l ∧ R a b := by
  induction hp with
  | nil => intro b hb; cases hb
  | cons hab _ ih =>
    intro b hb
    rcases List.mem_cons.mp hb with e | e
    · subst e; exact ⟨_, List.mem_cons_self, hab⟩
    · obtain ⟨a, ha, hr⟩ := ih b e
      exact ⟨a, List.mem_cons_of_mem _ ha, hr⟩

theorem Pointwise.exists_right {α β : Type} {R : α → β → Prop} {l : List α} {l' : List β} (hp : Pointwise R l l') :
    ∀ a, a ∈ l → ∃ b, b ∈ l' ∧ R a b := by
  induction hp with
  | nil => intro a ha; cases ha
  | cons hab _ ih =>
    intro a ha
    rcases List.mem_cons.mp ha with e | e
    · subst e; exact ⟨_, List.mem_cons_self, hab⟩
    · obtain ⟨b, hb, hr⟩ := ih a e
      exact ⟨b, List.mem_cons_of_mem _ hb, hr⟩

/-! ## the simulation between the pickler and the unpickler -/

section
variable (h : Heap) (r : Ref)

/-- `d` is the state (`__dict__`) of some instance of the old heap -/
def IsState (d : Ref) : Prop := ∃ (o : Ref) (c : Cell) (p : ObjParts), h[o]? = some c ∧ c.objParts? = some p ∧ p.state = some d

/-- old reference `k` and new reference `k'` denote the same thing: equal atoms, or the same memo index -/
def Rel (m : PMemo) (H : Heap) (M : Array Ref) (k k' : Ref) : Prop :=
  (∃ c c', h[k]? = some c ∧ H[k']? = some c' ∧ c.isAtom = true ∧ c'.isAtom = true ∧ c.tag = c'.tag) ∨
  (∃ i : Nat, m[i]? = some k ∧ M[i]? = some k')

/-- `z` is the private attribute dict that `BUILD` filled from the pickled state dict `d`: a dict cell outside the memo
    with kids related to `d`'s -/
def Copy (m : PMemo) (H : Heap) (M : Array Ref) (d z : Ref) : Prop :=
  ∃ c K, h[d]? = some c ∧ c.tag = .dict ∧ H[z]? = some ⟨.dict, K⟩ ∧ Pointwise (Rel h m H M) c.kids K ∧
    (∀ j : Nat, M[j]? ≠ some z)

/-- how the kids of a completed cell are related: an instance's state dict to its private copy, everything else by `Rel` -/
def RelK (m : PMemo) (H : Heap) (M : Array Ref) (k k' : Ref) : Prop :=
  (¬ IsState h k ∧ Rel h m H M k k') ∨ (IsState h k ∧ Copy h m H M k k')

def Complete (m : PMemo) (H : Heap) (M : Array Ref) (x y : Ref) : Prop :=
  ∃ c c', h[x]? = some c ∧ H[y]? = some c' ∧ c'.tag = c.tag ∧ Pointwise (RelK h m H M) c.kids c'.kids

/-- the kinds of cells that are memoised BEFORE their items are saved (and are therefore "open" for a while) -/
def opens : Tag → Bool
  | .list | .dict | .obj .. => true
  | _ => false

/-- `x` is the root, or a kid of a cell that is memoised or a tuple (whose elements are saved before it is memoised),
    or not of a kind that is ever open -/
def Par (m : PMemo) (x : Ref) : Prop :=
  x = r ∨ (∃ p c, h[p]? = some c ∧ x ∈ c.kids ∧ (p ∈ m ∨ c.tag = .tuple)) ∨ (∃ c, h[x]? = some c ∧ opens c.tag = false)

structure Sim (m : PMemo) (H : Heap) (M : Array Ref) (O : List Ref) : Prop where
  len : m.length = M.size
  nodup : m.Nodup
  inj : ∀ (i j : Nat) (y : Ref), M[i]? = some y → M[j]? = some y → i = j
  nonatom : ∀ x, x ∈ m → NonAtom h x
  nonatom' : ∀ (i : Nat) (y : Ref), M[i]? = some y → ∃ c', H[y]? = some c' ∧ c'.isAtom = false
  complete : ∀ (i : Nat) (x y : Ref), m[i]? = some x → M[i]? = some y → x ∉ O → Complete h m H M x y
  openKind : ∀ x, x ∈ O → ∃ c, h[x]? = some c ∧ opens c.tag = true
  opar : ∀ a, a ∈ O → Par h r m a
  /-- the attribute dicts of the instances built so far are pairwise different cells of the heap -/
  stinj : ∀ (i j : Nat) (yi yj : Ref) (ci cj : Cell) (pi pj : ObjParts) (z : Ref), M[i]? = some yi → M[j]? = some yj →
    H[yi]? = some ci → H[yj]? = some cj → ci.objParts? = some pi → cj.objParts? = some pj →
    pi.state = some z → pj.state = some z → i = j
  stlt : ∀ (i : Nat) (yi : Ref) (ci : Cell) (pi : ObjParts) (z : Ref), M[i]? = some yi → H[yi]? = some ci →
    ci.objParts? = some pi → pi.state = some z → z < H.size

/-- memo prefix -/
def MPre (m m' : PMemo) : Prop := ∀ (i : Nat) (z : Ref), m[i]? = some z → m'[i]? = some z

structure Ext (H : Heap) (M : Array Ref) (H' : Heap) (M' : Array Ref) : Prop where
  size : H.size ≤ H'.size
  memo : ∀ (i : Nat) (y : Ref), M[i]? = some y → M'[i]? = some y
  old : ∀ (k : Nat) (c : Cell), H[k]? = some c → H'[k]? = some c
  newmemo : ∀ (j : Nat) (y : Ref), M'[j]? = some y → M[j]? = some y ∨ H.size ≤ y

theorem MPre.refl (m : PMemo) : MPre m m := fun _ _ h => h
theorem MPre.trans {a b c : PMemo} (h1 : MPre a b) (h2 : MPre b c) : MPre a c := fun i z h => h2 i z (h1 i z h)
theorem MPre.append (m t : PMemo) : MPre m (m ++ t) := fun i z hz => by
  have hl : i < m.length := (List.getElem?_eq_some_iff.mp hz).1
  rw [List.getElem?_append_left hl]; exact hz
theorem MPre.mem {m m' : PMemo} (hp : MPre m m') {x : Ref} (hx : x ∈ m) : x ∈ m' := by
  obtain ⟨i, hi⟩ := List.getElem?_of_mem hx
  exact List.mem_of_getElem? (hp i x hi)

theorem Ext.refl (H : Heap) (M : Array Ref) : Ext H M H M :=
  ⟨Nat.le_refl _, fun _ _ h => h, fun _ _ h => h, fun _ _ h => Or.inl h⟩
theorem Ext.trans {H1 H2 H3 : Heap} {M1 M2 M3 : Array Ref} (a : Ext H1 M1 H2 M2) (b : Ext H2 M2 H3 M3) : Ext H1 M1 H3 M3 :=
  ⟨Nat.le_trans a.size b.size, fun i y h => b.memo i y (a.memo i y h), fun k c h => b.old k c (a.old k c h),
   fun j y hy => by
    rcases b.newmemo j y hy with e | e
    · exact a.newmemo j y e
    · exact Or.inr (Nat.le_trans a.size e)⟩

variable {h r}

theorem get_lt {H : Heap} {y : Ref} {c : Cell} (hc : H[y]? = some c) : y < H.size := by
  rcases Nat.lt_or_ge y H.size with hl | hl
  · exact hl
  · simp [Array.getElem?_eq_none hl] at hc

theorem aget_lt {α : Type} {M : Array α} {i : Nat} {y : α} (hc : M[i]? = some y) : i < M.size := by
  rcases Nat.lt_or_ge i M.size with hl | hl
  · exact hl
  · simp [Array.getElem?_eq_none hl] at hc

theorem Par.mono {m m' : PMemo} {x : Ref} (hp : Par h r m x) (hm : MPre m m') : Par h r m' x := by
  rcases hp with e | ⟨p, c, hc, hk, hpm⟩ | e
  · exact Or.inl e
  · exact Or.inr (Or.inl ⟨p, c, hc, hk, hpm.imp (fun e => hm.mem e) id⟩)
  · exact Or.inr (Or.inr e)

theorem Rel.mono {m m' : PMemo} {H H' : Heap} {M M' : Array Ref} {k k' : Ref} (hr : Rel h m H M k k')
    (hm : MPre m m') (he : Ext H M H' M') : Rel h m' H' M' k k' := by
  rcases hr with ⟨c, c', hc, hc', ha, ha', ht⟩ | ⟨i, hi, hi'⟩
  · exact Or.inl ⟨c, c', hc, he.old _ _ hc', ha, ha', ht⟩
  · exact Or.inr ⟨i, hm i k hi, he.memo i k' hi'⟩

theorem Copy.mono {m m' : PMemo} {H H' : Heap} {M M' : Array Ref} {k k' : Ref} (hc : Copy h m H M k k')
    (hm : MPre m m') (he : Ext H M H' M') : Copy h m' H' M' k k' := by
  obtain ⟨c, K, h1, h2, h3, h4, h5⟩ := hc
  refine ⟨c, K, h1, h2, he.old _ _ h3, Pointwise.imp (fun a b hab => Rel.mono hab hm he) h4, ?_⟩
  intro j e
  rcases he.newmemo j k' e with e' | e'
  · exact h5 j e'
  · exact absurd (Nat.lt_of_lt_of_le (get_lt h3) e') (Nat.lt_irrefl _)

theorem RelK.mono {m m' : PMemo} {H H' : Heap} {M M' : Array Ref} {k k' : Ref} (hr : RelK h m H M k k')
    (hm : MPre m m') (he : Ext H M H' M') : RelK h m' H' M' k k' :=
  hr.imp (fun ⟨a, b⟩ => ⟨a, b.mono hm he⟩) (fun ⟨a, b⟩ => ⟨a, b.mono hm he⟩)

theorem Complete.mono {m m' : PMemo} {H H' : Heap} {M M' : Array Ref} {x y : Ref} (hc : Complete h m H M x y)
    (hm : MPre m m') (he : Ext H M H' M') : Complete h m' H' M' x y := by
  obtain ⟨c, c', h1, h2, h3, h4⟩ := hc
  exact ⟨c, c', h1, he.old _ _ h2, h3, Pointwise.imp (fun a b hab => RelK.mono hab hm he) h4⟩


theorem snoc_get {α : Type} {l : List α} {a z : α} {i : Nat} (hz : (l ++ [a])[i]? = some z) :
    (i < l.length ∧ l[i]? = some z) ∨ (i = l.length ∧ z = a) := by
  rcases Nat.lt_or_ge i l.length with hl | hl
  · rw [List.getElem?_append_left hl] at hz; exact Or.inl ⟨hl, hz⟩
  · rw [List.getElem?_append_right hl] at hz
    rcases Nat.eq_or_lt_of_le hl with e | e
    · subst e; simp at hz; exact Or.inr ⟨rfl, hz.symm⟩
    · have : i - l.length ≠ 0 := by omega
      cases hq : i - l.length with
      | zero => exact absurd hq this
      | succ n => rw [hq] at hz; simp at hz

theorem push_get {α : Type} {l : Array α} {a z : α} {i : Nat} (hz : (l.push a)[i]? = some z) :
    (i < l.size ∧ l[i]? = some z) ∨ (i = l.size ∧ z = a) := by
  rw [Array.getElem?_push] at hz
  split at hz
  · rename_i e; cases hz; exact Or.inr ⟨e, rfl⟩
  · rename_i e
    exact Or.inl ⟨aget_lt hz, hz⟩

theorem push_old {α : Type} {H : Array α} {c : α} {i : Nat} (hi : i < H.size) : (H.push c)[i]? = H[i]? := by
  simp [Array.getElem?_push, Nat.ne_of_lt hi]

theorem Ext.alloc (H : Heap) (M : Array Ref) (c : Cell) : Ext H M (H.push c) M :=
  ⟨by simp, fun _ _ h => h, fun k c0 hk => by rw [push_old (get_lt hk)]; exact hk, fun _ _ h => Or.inl h⟩

theorem Ext.allocMemo (H : Heap) (M : Array Ref) (c : Cell) : Ext H M (H.push c) (M.push H.size) :=
  ⟨by simp, fun i z hz => by rw [push_old (aget_lt hz)]; exact hz,
   fun k c0 hk => by rw [push_old (get_lt hk)]; exact hk,
   fun j y hy => by
    rcases push_get hy with ⟨_, e⟩ | ⟨_, e⟩
    · exact Or.inl e
    · exact Or.inr (by rw [e]; exact Nat.le_refl _)⟩

/-- allocate a cell (memo unchanged) -/
theorem Sim.alloc {m : PMemo} {H : Heap} {M : Array Ref} {O : List Ref} (s : Sim h r m H M O) (c : Cell) :
    Sim h r m (H.push c) M O := by
  have hext := Ext.alloc H M c
  refine ⟨s.len, s.nodup, s.inj, s.nonatom, ?_, ?_, s.openKind, s.opar, ?_, ?_⟩
  · intro i y hy
    obtain ⟨c', hc', ha⟩ := s.nonatom' i y hy
    exact ⟨c', hext.old _ _ hc', ha⟩
  · intro i x y hx hy hO
    exact (s.complete i x y hx hy hO).mono (MPre.refl _) hext
  · intro i j yi yj ci cj pi pj z hi hj hci hcj
    obtain ⟨c1, h1, _⟩ := s.nonatom' i yi hi
    obtain ⟨c2, h2, _⟩ := s.nonatom' j yj hj
    rw [push_old (get_lt h1)] at hci
    rw [push_old (get_lt h2)] at hcj
    exact s.stinj i j yi yj ci cj pi pj z hi hj hci hcj
  · intro i yi ci pi z hi hci hp hz
    obtain ⟨c1, h1, _⟩ := s.nonatom' i yi hi
    rw [push_old (get_lt h1)] at hci
    have := s.stlt i yi ci pi z hi hci hp hz
    exact Nat.lt_of_lt_of_le this (by simp)

theorem memo_fresh {m : PMemo} {H : Heap} {M : Array Ref} {O : List Ref} (s : Sim h r m H M O) (i : Nat) : M[i]? ≠ some H.size := by
  intro e
  obtain ⟨c', hc', _⟩ := s.nonatom' i _ e
  exact Nat.lt_irrefl _ (get_lt hc')

/-- allocate the cell `cn` for `x` and memoise it -/
theorem Sim.allocMemo {m : PMemo} {H : Heap} {M : Array Ref} {O : List Ref} (s : Sim h r m H M O) {x : Ref} {cn : Cell}
    (hx : x ∉ m) (hna : NonAtom h x) (hcn : cn.isAtom = false)
    (hst : ∀ p, cn.objParts? = some p → p.state = none)
    (hc : x ∉ O → Complete h (m ++ [x]) (H.push cn) (M.push H.size) x H.size) :
    Sim h r (m ++ [x]) (H.push cn) (M.push H.size) O ∧ Rel h (m ++ [x]) (H.push cn) (M.push H.size) x H.size := by
  have hext := Ext.allocMemo H M cn
  have hpre := MPre.append m [x]
  have cellOf : ∀ (i : Nat) (yi : Ref) (ci : Cell), (M.push H.size)[i]? = some yi → (H.push cn)[yi]? = some ci →
      (M[i]? = some yi ∧ H[yi]? = some ci) ∨ (i = M.size ∧ yi = H.size ∧ ci = cn) := by
    intro i yi ci hi hci
    rcases push_get hi with ⟨_, e⟩ | ⟨e1, e2⟩
    · obtain ⟨c1, h1, _⟩ := s.nonatom' i yi e
      rw [push_old (get_lt h1)] at hci
      exact Or.inl ⟨e, hci⟩
    · subst e2; simp at hci; exact Or.inr ⟨e1, rfl, hci.symm⟩
  refine ⟨⟨by simp [s.len], ?_, ?_, ?_, ?_, ?_, s.openKind, fun a ha => (s.opar a ha).mono hpre, ?_, ?_⟩,
    Or.inr ⟨m.length, by simp, by simp [s.len]⟩⟩
  · rw [List.nodup_append]
    refine ⟨s.nodup, by simp, ?_⟩
    intro a ha b hb e
    simp at hb; subst hb; subst e; exact hx ha
  · intro i j z hi hj
    rcases push_get hi with ⟨_, hi2⟩ | ⟨ei, ez⟩ <;> rcases push_get hj with ⟨_, hj2⟩ | ⟨ej, ez'⟩
    · exact s.inj i j z hi2 hj2
    · subst ez'; exact absurd hi2 (memo_fresh s i)
    · subst ez; exact absurd hj2 (memo_fresh s j)
    · rw [ei, ej]
  · intro a ha
    rcases List.mem_append.mp ha with ha | ha
    · exact s.nonatom a ha
    · simp at ha; subst ha; exact hna
  · intro i z hz
    rcases push_get hz with ⟨_, hz⟩ | ⟨_, ez⟩
    · obtain ⟨c', hc', ha⟩ := s.nonatom' i z hz
      exact ⟨c', hext.old _ _ hc', ha⟩
    · subst ez; exact ⟨cn, by simp, hcn⟩
  · intro i a z ha hz hO
    rcases snoc_get ha with ⟨hl, ha⟩ | ⟨ei, ea⟩
    · rcases push_get hz with ⟨_, hz⟩ | ⟨ei', _⟩
      · exact (s.complete i a z ha hz hO).mono hpre hext
      · rw [s.len] at hl; omega
    · rcases push_get hz with ⟨hl', _⟩ | ⟨_, ez⟩
      · rw [← s.len] at hl'; omega
      · subst ea; subst ez; exact hc hO
  · intro i j yi yj ci cj pi pj z hi hj hci hcj hpi hpj hzi hzj
    rcases cellOf i yi ci hi hci with ⟨a1, a2⟩ | ⟨_, _, a3⟩
    · rcases cellOf j yj cj hj hcj with ⟨b1, b2⟩ | ⟨_, _, b3⟩
      · exact s.stinj i j yi yj ci cj pi pj z a1 b1 a2 b2 hpi hpj hzi hzj
      · subst b3; rw [hst pj hpj] at hzj; cases hzj
    · subst a3; rw [hst pi hpi] at hzi; cases hzi
  · intro i yi ci pi z hi hci hp hz
    rcases cellOf i yi ci hi hci with ⟨a1, a2⟩ | ⟨_, _, a3⟩
    · have := s.stlt i yi ci pi z a1 a2 hp hz
      exact Nat.lt_of_lt_of_le this (by simp)
    · subst a3; rw [hst pi hp] at hz; cases hz

/-- regard `x` as open -/
theorem Sim.open {m : PMemo} {H : Heap} {M : Array Ref} {O : List Ref} (s : Sim h r m H M O) {x : Ref} {c : Cell}
    (hc : h[x]? = some c) (ho : opens c.tag = true) (hp : Par h r m x) : Sim h r m H M (x :: O) :=
  ⟨s.len, s.nodup, s.inj, s.nonatom, s.nonatom',
   fun i a z ha hz hO => s.complete i a z ha hz (fun e => hO (List.mem_cons_of_mem _ e)),
   fun a ha => by
    rcases List.mem_cons.mp ha with e | e
    · subst e; exact ⟨c, hc, ho⟩
    · exact s.openKind a e,
   fun a ha => by
    rcases List.mem_cons.mp ha with e | e
    · subst e; exact hp
    · exact s.opar a e,
   s.stinj, s.stlt⟩


/-- `H'` keeps every cell of `H` except possibly the non-atomic cell `y` -/
structure Keep (H H' : Heap) (y : Ref) : Prop where
  old : ∀ (k : Nat) (c : Cell), H[k]? = some c → k ≠ y → H'[k]? = some c
  nonatom : ∃ c0, H[y]? = some c0 ∧ c0.isAtom = false

theorem Rel.keep {m : PMemo} {H H' : Heap} {M : Array Ref} {k k' y : Ref} (hr : Rel h m H M k k') (hk : Keep H H' y) :
    Rel h m H' M k k' := by
  rcases hr with ⟨c, c', hc, hc', ha, ha', ht⟩ | hm
  · refine Or.inl ⟨c, c', hc, hk.old _ _ hc' ?_, ha, ha', ht⟩
    intro e; subst e
    obtain ⟨c0, h0, n0⟩ := hk.nonatom
    rw [h0] at hc'; cases hc'; rw [n0] at ha'; cases ha'
  · exact Or.inr hm

theorem RelK.keep {m : PMemo} {H H' : Heap} {M : Array Ref} {k k' y : Ref} {i : Nat} (hr : RelK h m H M k k') (hk : Keep H H' y)
    (hy : M[i]? = some y) : RelK h m H' M k k' := by
  rcases hr with ⟨a, b⟩ | ⟨a, c, K, h1, h2, h3, h4, h5⟩
  · exact Or.inl ⟨a, b.keep hk⟩
  · refine Or.inr ⟨a, c, K, h1, h2, hk.old _ _ h3 ?_, Pointwise.imp (fun p q hpq => Rel.keep hpq hk) h4, h5⟩
    intro e; subst e; exact h5 i hy

/-- rewrite the cell `y` of the open `x` (and possibly grow the heap); `x` may become complete -/
theorem Sim.modify {m : PMemo} {H H' : Heap} {M : Array Ref} {O O' : List Ref} {x y : Ref} {i : Nat} {cn : Cell}
    (s : Sim h r m H M O) (hi : m[i]? = some x) (hi' : M[i]? = some y)
    (hOO : ∀ a, a ∈ O' → a ∈ O) (hOx : ∀ a, a ∈ O → a ∉ O' → a = x)
    (hsz : H.size ≤ H'.size) (hold : ∀ (k : Nat) (c : Cell), H[k]? = some c → k ≠ y → H'[k]? = some c)
    (hy : H'[y]? = some cn) (hcn : cn.isAtom = false)
    (hc : x ∉ O' → Complete h m H' M x y)
    (hstate : ∀ p z, cn.objParts? = some p → p.state = some z → H.size ≤ z ∧ z < H'.size) :
    Sim h r m H' M O' := by
  have hk : Keep H H' y := ⟨hold, s.nonatom' i y hi'⟩
  have other : ∀ (j : Nat) (z : Ref), M[j]? = some z → z ≠ y → ∀ c, H'[z]? = some c → H[z]? = some c := by
    intro j z hz hne c hc'
    obtain ⟨c1, h1, _⟩ := s.nonatom' j z hz
    rw [hold z c1 h1 hne] at hc'; cases hc'; exact h1
  refine ⟨s.len, s.nodup, s.inj, s.nonatom, ?_, ?_, fun a ha => s.openKind a (hOO a ha), fun a ha => s.opar a (hOO a ha), ?_, ?_⟩
  · intro j z hz
    by_cases e : z = y
    · subst e; exact ⟨cn, hy, hcn⟩
    · obtain ⟨c', hc', ha'⟩ := s.nonatom' j z hz
      exact ⟨c', hold _ _ hc' e, ha'⟩
  · intro j a z ha hz hO
    by_cases e : a = x
    · subst e
      have : j = i := nodup_index_unique s.nodup ha hi
      subst this
      rw [hi'] at hz; cases hz
      exact hc hO
    · have hne : z ≠ y := by
        intro e'; subst e'
        have := s.inj i j z hi' hz
        subst this
        rw [hi] at ha; cases ha; exact e rfl
      have hOa : a ∉ O := fun ha' => e (hOx a ha' hO)
      obtain ⟨c, c', h1, h2, h3, h4⟩ := s.complete j a z ha hz hOa
      exact ⟨c, c', h1, hold _ _ h2 hne, h3, Pointwise.imp (fun p q hpq => RelK.keep hpq hk hi') h4⟩
  · intro j1 j2 y1 y2 c1 c2 p1 p2 z h1 h2 hc1 hc2 hp1 hp2 hz1 hz2
    by_cases e1 : y1 = y <;> by_cases e2 : y2 = y
    · subst e1; subst e2; exact s.inj j1 j2 _ h1 h2
    · subst e1
      rw [hy] at hc1; cases hc1
      have a1 := s.stlt j2 y2 c2 p2 z h2 (other j2 y2 h2 e2 c2 hc2) hp2 hz2
      have a2 := (hstate p1 z hp1 hz1).1
      exact absurd a1 (Nat.not_lt.mpr a2)
    · subst e2
      rw [hy] at hc2; cases hc2
      have a1 := s.stlt j1 y1 c1 p1 z h1 (other j1 y1 h1 e1 c1 hc1) hp1 hz1
      have a2 := (hstate p2 z hp2 hz2).1
      exact absurd a1 (Nat.not_lt.mpr a2)
    · exact s.stinj j1 j2 y1 y2 c1 c2 p1 p2 z h1 h2 (other j1 y1 h1 e1 c1 hc1) (other j2 y2 h2 e2 c2 hc2) hp1 hp2 hz1 hz2
  · intro j yj cj pj z hj hcj hp hz
    by_cases e : yj = y
    · subst e; rw [hy] at hcj; cases hcj; exact (hstate pj z hp hz).2
    · exact Nat.lt_of_lt_of_le (s.stlt j yj cj pj z hj (other j yj hj e cj hcj) hp hz) hsz


/-! ### running emitted opcodes -/

structure Post (h : Heap) (r : Ref) (m : PMemo) (v : VM) (O : List Ref) (ops : List Op) (m' : PMemo) (v' : VM) : Prop where
  run : ∀ rest, runOps {} (ops ++ rest) v = runOps {} rest v'
  sim : Sim h r m' v'.heap v'.memo O
  pre : MPre m m'
  ext : Ext v.heap v.memo v'.heap v'.memo

/-- what `save x` must achieve from any simulating state -/
def SaveOK (h : Heap) (r : Ref) (sv : Saver) : Prop :=
  ∀ x m ops m', sv x m = .ok (ops, m') → ∀ (v : VM) (O : List Ref), Sim h r m v.heap v.memo O → Par h r m x →
    ∃ v' y, Post h r m v O ops m' v' ∧ v'.stack = .ref y :: v.stack ∧ Rel h m' v'.heap v'.memo x y

theorem Post.refl {m : PMemo} {v : VM} {O : List Ref} (s : Sim h r m v.heap v.memo O) : Post h r m v O [] m v :=
  ⟨fun _ => rfl, s, MPre.refl _, Ext.refl _ _⟩

theorem Post.trans {m m1 m2 : PMemo} {v v1 v2 : VM} {O : List Ref} {o1 o2 : List Op}
    (p1 : Post h r m v O o1 m1 v1) (p2 : Post h r m1 v1 O o2 m2 v2) : Post h r m v O (o1 ++ o2) m2 v2 :=
  ⟨fun rest => by rw [List.append_assoc, p1.run, p2.run], p2.sim, p1.pre.trans p2.pre, p1.ext.trans p2.ext⟩

theorem saveAll_sim {sv : Saver} (ih : SaveOK h r sv) : ∀ (ks : List Ref) (m : PMemo) (ops : List Op) (m' : PMemo),
    saveAll sv ks m = .ok (ops, m') → ∀ (v : VM) (O : List Ref), Sim h r m v.heap v.memo O → (∀ k, k ∈ ks → Par h r m k) →
    ∃ v' ys, Post h r m v O ops m' v' ∧ v'.stack = (ys.reverse.map Item.ref) ++ v.stack ∧
      Pointwise (Rel h m' v'.heap v'.memo) ks ys := by
  intro ks
  induction ks with
  | nil =>
    intro m ops m' hs v O s _
    simp [saveAll] at hs
    obtain ⟨rfl, rfl⟩ := hs
    exact ⟨v, [], Post.refl s, by simp, Pointwise.nil⟩
  | cons k ks ihk =>
    intro m ops m' hs v O s hpar
    simp only [saveAll, bind, Except.bind] at hs
    split at hs
    · cases hs
    · rename_i r1 h1
      obtain ⟨o1, m1⟩ := r1
      simp only at hs
      split at hs
      · cases hs
      · rename_i r2 h2
        obtain ⟨o2, m2⟩ := r2
        simp only [pure, Except.pure] at hs
        cases hs
        obtain ⟨v1, y1, p1, st1, r1⟩ := ih k m o1 m1 h1 v O s (hpar k List.mem_cons_self)
        obtain ⟨v2, ys, p2, st2, r2⟩ := ihk m1 o2 _ h2 v1 O p1.sim
          (fun k' hk' => (hpar k' (List.mem_cons_of_mem _ hk')).mono p1.pre)
        refine ⟨v2, y1 :: ys, p1.trans p2, ?_, Pointwise.cons (r1.mono p2.pre p2.ext) r2⟩
        rw [st2, st1]; simp

theorem Post.alloc {m : PMemo} {v : VM} {O : List Ref} {op : Op} {c : Cell} (s : Sim h r m v.heap v.memo O)
    (hne : op ≠ .stop) (hst : v.step {} op = .ok (v.alloc c)) : Post h r m v O [op] m (v.alloc c) :=
  ⟨fun rest => by simpa using runOps_cons hne hst, s.alloc c, MPre.refl _, Ext.alloc _ _ _⟩

/-- state after `EMPTY_x MEMOIZE` (or `NEWOBJ MEMOIZE`) -/
def opened (v : VM) (cn : Cell) : VM :=
  { heap := v.heap.push cn, stack := .ref v.heap.size :: v.stack, memo := v.memo.push v.heap.size }

theorem run_opened {v : VM} {op : Op} {cn : Cell} (hne : op ≠ .stop) (hst : v.step {} op = .ok (v.alloc cn)) (rest : List Op) :
    runOps {} (op :: .memoize :: rest) v = runOps {} rest (opened v cn) := by
  rw [runOps_cons hne hst, runOps_cons (by simp) (step_memoize (v := v.alloc cn) (y := v.heap.size) (S := v.stack) rfl)]
  rfl

theorem objParts?_none {c : Cell} (ht : ∀ a b n, c.tag ≠ .obj a b n) : c.objParts? = none := by
  obtain ⟨t, ks⟩ := c
  cases t <;> first | rfl | exact absurd rfl (ht _ _ _)

/-- static well-formedness of the old heap with respect to instance state dicts -/
structure Owned (h : Heap) (r : Ref) : Prop where
  root : ¬ IsState h r
  owner : ∀ (p : Ref) (c : Cell) (k : Ref), h[p]? = some c → k ∈ c.kids → IsState h k →
    ∃ pp, c.objParts? = some pp ∧ pp.state = some k ∧ k ≠ pp.cls ∧ k ≠ pp.args ∧ k ∉ pp.items ∧ k ∉ pp.ditems
  uniq : ∀ (o1 o2 : Ref) (c1 c2 : Cell) (p1 p2 : ObjParts) (d : Ref), h[o1]? = some c1 → h[o2]? = some c2 →
    c1.objParts? = some p1 → c2.objParts? = some p2 → p1.state = some d → p2.state = some d → o1 = o2

theorem Owned.kid_notState (w : Owned h r) {p : Ref} {c : Cell} (hc : h[p]? = some c) (ht : ∀ a b n, c.tag ≠ .obj a b n)
    {k : Ref} (hk : k ∈ c.kids) : ¬ IsState h k := by
  intro hs
  obtain ⟨pp, hpp, _⟩ := w.owner p c k hc hk hs
  rw [objParts?_none ht] at hpp; cases hpp

theorem relK_of_rel {m : PMemo} {H : Heap} {M : Array Ref} {l l' : List Ref} (hp : Pointwise (Rel h m H M) l l')
    (hns : ∀ k, k ∈ l → ¬ IsState h k) : Pointwise (RelK h m H M) l l' := by
  induction hp with
  | nil => exact Pointwise.nil
  | cons hab _ ih =>
    exact Pointwise.cons (Or.inl ⟨hns _ List.mem_cons_self, hab⟩) (ih (fun k hk => hns k (List.mem_cons_of_mem _ hk)))

theorem opened_sim {m : PMemo} {v : VM} {O : List Ref} {x : Ref} {c : Cell} {cn0 : Cell} (s : Sim h r m v.heap v.memo O)
    (hc : h[x]? = some c) (ho : opens c.tag = true) (hx : x ∉ m) (hp : Par h r m x) (hcn0 : cn0.isAtom = false)
    (hst : ∀ p, cn0.objParts? = some p → p.state = none) :
    Sim h r (m ++ [x]) (opened v cn0).heap (opened v cn0).memo (x :: O) := by
  have hna : NonAtom h x := ⟨c, hc, by
    obtain ⟨t, ks⟩ := c
    cases t <;> simp [opens] at ho <;> rfl⟩
  exact ((s.open hc ho hp).allocMemo hx hna hcn0 hst (fun hO => absurd List.mem_cons_self hO)).1


theorem set_keep {H : Heap} {y : Ref} {cn c0 : Cell} (h0 : H[y]? = some c0) (ha : c0.isAtom = false) :
    Keep H (H.setIfInBounds y cn) y :=
  ⟨fun k c hk hne => by simp [Ne.symm hne, hk], ⟨c0, h0, ha⟩⟩

/-- common end of the list / dict / state-less object cases: the items were saved from the opened state (possibly
    under a MARK), one opcode then rewrote the container cell `y = v.heap.size` to `cn` -/
theorem container_post {m m1 : PMemo} {v v2 v3 v4 : VM} {O : List Ref} {x : Ref} {c : Cell} {cn cn0 : Cell}
    {op0 opc : Op} {pre o1 : List Op}
    (s : Sim h r m v.heap v.memo O) (hc : h[x]? = some c) (htag : cn.tag = c.tag) (hna : cn.isAtom = false)
    (hst : ∀ p z, cn.objParts? = some p → p.state = some z → False)
    (h2h : v2.heap = (opened v cn0).heap) (h2m : v2.memo = (opened v cn0).memo)
    (hrun1 : ∀ rest, runOps {} (op0 :: .memoize :: (pre ++ rest)) v = runOps {} rest v2)
    (p3 : Post h r (m ++ [x]) v2 (x :: O) o1 m1 v3)
    (r3 : Pointwise (Rel h m1 v3.heap v3.memo) c.kids cn.kids) (hns : ∀ k, k ∈ c.kids → ¬ IsState h k)
    (hstep : v3.step {} opc = .ok v4) (hne : opc ≠ .stop)
    (h4h : v4.heap = v3.heap.setIfInBounds v.heap.size cn) (h4m : v4.memo = v3.memo) (h4s : v4.stack = .ref v.heap.size :: v.stack) :
    ∃ v' y, Post h r m v O (op0 :: .memoize :: (pre ++ o1 ++ [opc])) m1 v' ∧ v'.stack = .ref y :: v.stack ∧
      Rel h m1 v'.heap v'.memo x y := by
  have hmemo : ∀ (i : Nat) (z : Ref), (v.memo.push v.heap.size)[i]? = some z → v3.memo[i]? = some z := by
    intro i z hz; exact p3.ext.memo i z (by rw [h2m]; exact hz)
  have hi : m1[m.length]? = some x := p3.pre m.length x (by simp)
  have hi' : v3.memo[m.length]? = some v.heap.size := hmemo m.length _ (by simp [s.len])
  obtain ⟨c0, h0, ha0⟩ := p3.sim.nonatom' _ _ hi'
  have hk := set_keep (cn := cn) h0 ha0
  have s4 : Sim h r m1 v4.heap v4.memo O := by
    rw [h4h, h4m]
    refine p3.sim.modify hi hi' (fun a ha => List.mem_cons_of_mem _ ha) ?_ (by simp) hk.old (by simp [get_lt h0]) hna ?_ ?_
    · intro a ha hO
      rcases List.mem_cons.mp ha with e | e
      · exact e
      · exact absurd e hO
    · intro _
      exact ⟨c, cn, hc, by simp [get_lt h0], htag,
        relK_of_rel (Pointwise.imp (fun p q hpq => Rel.keep hpq hk) r3) hns⟩
    · intro p z hp hz; exact absurd hz (fun e => hst p z hp e)
  have hpre : MPre m m1 := (MPre.append m [x]).trans p3.pre
  have hext : Ext v.heap v.memo v4.heap v4.memo := by
    refine ⟨?_, ?_, ?_, ?_⟩
    · rw [h4h]; simp; have := p3.ext.size; rw [h2h] at this; simp [opened] at this; omega
    · intro i z hz
      rw [h4m]
      exact hmemo i z ((Ext.allocMemo v.heap v.memo cn0).memo i z hz)
    · intro k c1 hk1
      rw [h4h]
      have hne' : v.heap.size ≠ k := Nat.ne_of_gt (get_lt hk1)
      simp only [Array.getElem?_setIfInBounds_ne hne']
      exact p3.ext.old k c1 (by rw [h2h]; exact (Ext.alloc v.heap v.memo cn0).old k c1 hk1)
    · intro j z hz
      rw [h4m] at hz
      rcases p3.ext.newmemo j z hz with e | e
      · rw [h2m] at e
        exact (Ext.allocMemo v.heap v.memo cn0).newmemo j z e
      · rw [h2h] at e; simp [opened] at e; exact Or.inr (by omega)
  refine ⟨v4, v.heap.size, ⟨?_, s4, hpre, hext⟩, h4s, ?_⟩
  · intro rest
    have : op0 :: Op.memoize :: (pre ++ o1 ++ [opc]) ++ rest = op0 :: Op.memoize :: (pre ++ (o1 ++ (opc :: rest))) := by simp
    rw [this, hrun1, p3.run, runOps_cons hne hstep]
  · exact Or.inr ⟨m.length, hi, by rw [h4m]; exact hi'⟩


/-- an empty container (or any cell all of whose kids are saved before it): allocate, memoise, complete at once -/
theorem fresh_complete {m : PMemo} {v : VM} {O : List Ref} {x : Ref} {c : Cell} {op : Op}
    (s : Sim h r m v.heap v.memo O) (hc : h[x]? = some c) (hk : c.kids = []) (hcna : c.isAtom = false) (hne : op ≠ .stop)
    (hst : v.step {} op = .ok (v.alloc ⟨c.tag, []⟩)) (hx : x ∉ m) (hobj : ∀ a b n, c.tag ≠ .obj a b n) :
    ∃ v' y, Post h r m v O [op, .memoize] (m ++ [x]) v' ∧ v'.stack = .ref y :: v.stack ∧
      Rel h (m ++ [x]) v'.heap v'.memo x y := by
  have hcn : (Cell.mk c.tag []).isAtom = false := by
    obtain ⟨t, ks⟩ := c
    simp at hk; subst hk; exact hcna
  obtain ⟨s', r'⟩ := s.allocMemo (cn := ⟨c.tag, []⟩) hx ⟨c, hc, hcna⟩ hcn
    (fun p hp => by rw [objParts?_none (c := ⟨c.tag, []⟩) hobj] at hp; cases hp)
    (fun _ => ⟨c, ⟨c.tag, []⟩, hc, by simp, rfl, by rw [hk]; exact Pointwise.nil⟩)
  exact ⟨opened v ⟨c.tag, []⟩, v.heap.size, ⟨fun rest => run_opened hne hst rest, s', MPre.append _ _,
    Ext.allocMemo _ _ _⟩, rfl, r'⟩

theorem par_kid {m : PMemo} {x : Ref} {c : Cell} (hc : h[x]? = some c) (hm : x ∈ m ∨ c.tag = .tuple) :
    ∀ k, k ∈ c.kids → Par h r m k :=
  fun k hk => Or.inr (Or.inl ⟨x, c, hc, hk, hm⟩)

theorem save_list_ok (w : Owned h r) {sv : Saver} (ih : SaveOK h r sv) {x : Ref} {m : PMemo} {c : Cell} (hc : h[x]? = some c)
    (htag : c.tag = .list) (hlen : c.kids.length ≤ batchSize) (hx : x ∉ m) (hpx : Par h r m x) {o : List Op} {m1 : PMemo}
    (hb : batchExact sv 1 .appends .append false true c.kids (m ++ [x]) = .ok (o, m1))
    (v : VM) (O : List Ref) (s : Sim h r m v.heap v.memo O) :
    ∃ v' y, Post h r m v O (Op.emptyList :: .memoize :: o) m1 v' ∧ v'.stack = .ref y :: v.stack ∧
      Rel h m1 v'.heap v'.memo x y := by
  have ho : opens c.tag = true := by simp [htag, opens]
  have hnobj : ∀ a b n, c.tag ≠ .obj a b n := by intro a b n e; rw [htag] at e; cases e
  have hns := fun k hk => w.kid_notState hc hnobj (k := k) hk
  have s2 := opened_sim (cn0 := ⟨.list, []⟩) s hc ho hx hpx rfl (fun p hp => by cases hp)
  have hpar : ∀ k, k ∈ c.kids → Par h r (m ++ [x]) k := par_kid hc (Or.inl (by simp))
  have hrun0 : ∀ rest, runOps {} (Op.emptyList :: .memoize :: rest) v = runOps {} rest (opened v ⟨.list, []⟩) :=
    run_opened (by simp) rfl
  have hy2 : (opened v ⟨.list, []⟩).heap[v.heap.size]? = some ⟨.list, []⟩ := by simp [opened]
  unfold batchExact at hb
  simp only [bind, Except.bind, pure, Except.pure] at hb
  split at hb
  · rename_i hemp
    cases hb
    have hk : c.kids = [] := by simpa using hemp
    have := fresh_complete (op := .emptyList) s hc hk (by simp [Cell.isAtom, htag]) (by simp) (by rw [htag]; rfl) hx hnobj
    simpa using this
  · rename_i hemp
    split at hb
    · rename_i hone
      split at hb
      · cases hb
      · rename_i r1 h1
        obtain ⟨o1, m1'⟩ := r1
        simp only at hb
        cases hb
        obtain ⟨v3, ys, p3, st3, r3⟩ := saveAll_sim ih _ _ _ _ h1 (opened v ⟨.list, []⟩) (x :: O) s2 hpar
        have hl : c.kids.length = 1 := by simpa using hone
        obtain ⟨y1, rfl⟩ : ∃ y1, ys = [y1] := by
          have := r3.length_eq
          rw [hl] at this
          cases ys with
          | nil => simp at this
          | cons a t => cases t with
            | nil => exact ⟨a, rfl⟩
            | cons _ _ => simp at this
        have hy3 : v3.heap[v.heap.size]? = some ⟨.list, []⟩ := p3.ext.old _ _ hy2
        have hst : v3.step {} .append = .ok ⟨v3.heap.setIfInBounds v.heap.size ⟨.list, [] ++ [y1]⟩,
            .ref v.heap.size :: v.stack, v3.memo⟩ := step_append (by rw [st3]; rfl) hy3
        have := container_post (pre := []) (op0 := .emptyList) (cn := ⟨.list, [] ++ [y1]⟩) s hc htag.symm rfl
          (fun p z hp => by cases hp) rfl rfl (fun rest => hrun0 rest) p3 r3 hns hst (by simp) rfl rfl rfl
        simpa using this
    · rename_i hone
      have hne : c.kids ≠ [] := by simpa using hemp
      rw [chunks_single hne (by simpa using hlen)] at hb
      simp only [saveBatches, bind, Except.bind, pure, Except.pure] at hb
      split at hb
      · cases hb
      · rename_i r0 h0
        obtain ⟨ob, mb⟩ := r0
        split at h0
        · cases h0
        · rename_i r1 h1
          obtain ⟨o1, m1'⟩ := r1
          simp only at h0
          cases h0
          simp only at hb
          cases hb
          let v2 : VM := { opened v ⟨.list, []⟩ with stack := .mark :: (opened v ⟨.list, []⟩).stack }
          obtain ⟨v3, ys, p3, st3, r3⟩ := saveAll_sim ih _ _ _ _ h1 v2 (x :: O) s2 hpar
          have hy3 : v3.heap[v.heap.size]? = some ⟨.list, []⟩ := p3.ext.old _ _ hy2
          have hst : v3.step {} .appends = .ok ⟨v3.heap.setIfInBounds v.heap.size ⟨.list, [] ++ ys⟩,
              .ref v.heap.size :: v.stack, v3.memo⟩ := step_appends (by rw [st3]; rfl) hy3
          have hrun1 : ∀ rest, runOps {} (Op.emptyList :: .memoize :: ([Op.mark] ++ rest)) v = runOps {} rest v2 := by
            intro rest
            rw [hrun0]
            exact runOps_cons (by simp) rfl
          have := container_post (v2 := v2) (cn0 := ⟨.list, []⟩) (pre := [.mark]) (op0 := .emptyList) (cn := ⟨.list, [] ++ ys⟩)
            s hc htag.symm rfl (fun p z hp => by cases hp) rfl rfl hrun1 p3 r3 hns hst (by simp) rfl rfl rfl
          simpa using this


theorem strOf_rel {m : PMemo} {H : Heap} {M : Array Ref} {O : List Ref} (s : Sim h r m H M O) {k k' : Ref} {st : String}
    (hk : strOf h k = some st) (hr : Rel h m H M k k') : strOf H k' = some st := by
  obtain ⟨ks, hc⟩ := strOf_cell hk
  rcases hr with ⟨c, c', h1, _, ha, _, _⟩ | ⟨i, hi, hi'⟩
  · rw [hc] at h1; cases h1; simp [Cell.isAtom] at ha
  · have hO : k ∉ O := by
      intro e
      obtain ⟨c, h1, ho⟩ := s.openKind k e
      rw [hc] at h1; cases h1; simp [opens] at ho
    obtain ⟨c, c', h1, h2, h3, _⟩ := s.complete i k k' hi hi' hO
    rw [hc] at h1; cases h1
    obtain ⟨t', ks'⟩ := c'
    simp at h3; subst h3
    simp [strOf, h2]

theorem keyStrs_rel {m : PMemo} {H : Heap} {M : Array Ref} {O : List Ref} (s : Sim h r m H M O) :
    ∀ (kids ys : List Ref) (ss : List String), Pointwise (Rel h m H M) kids ys → keyStrs h kids = some ss →
      keyStrs H ys = some ss
  | [], _, _, hp, h0 => by cases hp; simpa [keyStrs] using h0
  | [_], _, _, _, h0 => by simp [keyStrs] at h0
  | k :: v :: rest, ys, ss, hp, h0 => by
    obtain ⟨s0, ss', hs0, hrest, rfl⟩ := keyStrs_cons h0
    cases hp with
    | cons hk hp' =>
      cases hp' with
      | cons hv hp'' =>
        simp [keyStrs, strOf_rel s hs0 hk, keyStrs_rel s rest _ ss' hp'' hrest]

theorem step_setitems_dict {v : VM} {ys : List Ref} {y : Ref} {S : List Item}
    (hs : v.stack = ys.reverse.map Item.ref ++ Item.mark :: .ref y :: S) (hy : v.heap[y]? = some ⟨.dict, []⟩)
    (hd : dictSetMany v.heap [] ys = .ok ys) :
    v.step {} .setitems = .ok ⟨v.heap.setIfInBounds y ⟨.dict, ys⟩, .ref y :: S, v.memo⟩ := by
  simp [VM.step, popMark_refs hs, VM.topRef, VM.setitems, VM.cell, hy, hd, VM.setCell, bind, Except.bind, pure, Except.pure]

theorem step_setitem_dict {v : VM} {k1 v1 : Ref} {y : Ref} {S : List Item}
    (hs : v.stack = .ref v1 :: .ref k1 :: .ref y :: S) (hy : v.heap[y]? = some ⟨.dict, []⟩)
    (hd : dictSetMany v.heap [] [k1, v1] = .ok [k1, v1]) :
    v.step {} .setitem = .ok ⟨v.heap.setIfInBounds y ⟨.dict, [k1, v1]⟩, .ref y :: S, v.memo⟩ := by
  simp [VM.step, VM.popRef, hs, VM.topRef, VM.setitems, VM.cell, hy, hd, VM.setCell, bind, Except.bind, pure, Except.pure]

theorem save_dict_ok (w : Owned h r) {sv : Saver} (ih : SaveOK h r sv) {x : Ref} {m : PMemo} {c : Cell} (hc : h[x]? = some c)
    (htag : c.tag = .dict) (hlen : c.kids.length < 2 * batchSize) {ss : List String} (hks : keyStrs h c.kids = some ss)
    (hnd : ss.Nodup) (hx : x ∉ m) (hpx : Par h r m x) {o : List Op} {m1 : PMemo}
    (hb : batchExact sv 2 .setitems .setitem true true c.kids (m ++ [x]) = .ok (o, m1))
    (v : VM) (O : List Ref) (s : Sim h r m v.heap v.memo O) :
    ∃ v' y, Post h r m v O (Op.emptyDict :: .memoize :: o) m1 v' ∧ v'.stack = .ref y :: v.stack ∧
      Rel h m1 v'.heap v'.memo x y := by
  have ho : opens c.tag = true := by simp [htag, opens]
  have hnobj : ∀ a b n, c.tag ≠ .obj a b n := by intro a b n e; rw [htag] at e; cases e
  have hns := fun k hk => w.kid_notState hc hnobj (k := k) hk
  have s2 := opened_sim (cn0 := ⟨.dict, []⟩) s hc ho hx hpx rfl (fun p hp => by cases hp)
  have hpar : ∀ k, k ∈ c.kids → Par h r (m ++ [x]) k := par_kid hc (Or.inl (by simp))
  have hrun0 : ∀ rest, runOps {} (Op.emptyDict :: .memoize :: rest) v = runOps {} rest (opened v ⟨.dict, []⟩) :=
    run_opened (by simp) rfl
  have hy2 : (opened v ⟨.dict, []⟩).heap[v.heap.size]? = some ⟨.dict, []⟩ := by simp [opened]
  have hset : ∀ (v3 : VM) (ys : List Ref), Sim h r m1 v3.heap v3.memo (x :: O) → Pointwise (Rel h m1 v3.heap v3.memo) c.kids ys →
      dictSetMany v3.heap [] ys = .ok ys := by
    intro v3 ys s3 r3
    have := dictSetMany_fresh (H := v3.heap) ys [] [] ss rfl (keyStrs_rel s3 _ _ _ r3 hks) (by simpa using hnd)
    simpa using this
  unfold batchExact at hb
  simp only [bind, Except.bind, pure, Except.pure] at hb
  split at hb
  · rename_i hemp
    cases hb
    have hk : c.kids = [] := by simpa using hemp
    have := fresh_complete (op := .emptyDict) s hc hk (by simp [Cell.isAtom, htag]) (by simp) (by rw [htag]; rfl) hx hnobj
    simpa using this
  · rename_i hemp
    split at hb
    · rename_i hone
      split at hb
      · cases hb
      · rename_i r1 h1
        obtain ⟨o1, m1'⟩ := r1
        simp only at hb
        cases hb
        obtain ⟨v3, ys, p3, st3, r3⟩ := saveAll_sim ih _ _ _ _ h1 (opened v ⟨.dict, []⟩) (x :: O) s2 hpar
        have hl : c.kids.length = 2 := by simpa using hone
        obtain ⟨k1, v1, rfl⟩ : ∃ k1 v1, ys = [k1, v1] := by
          have := r3.length_eq
          rw [hl] at this
          match ys, this with
          | [a, b], _ => exact ⟨a, b, rfl⟩
        have hy3 : v3.heap[v.heap.size]? = some ⟨.dict, []⟩ := p3.ext.old _ _ hy2
        have hst := step_setitem_dict (S := v.stack) (by rw [st3]; rfl) hy3 (hset v3 _ p3.sim r3)
        have := container_post (pre := []) (op0 := .emptyDict) (cn := ⟨.dict, [k1, v1]⟩) s hc htag.symm rfl
          (fun p z hp => by cases hp) rfl rfl (fun rest => hrun0 rest) p3 r3 hns hst (by simp) rfl rfl rfl
        simpa using this
    · rename_i hone
      have hne : c.kids ≠ [] := by simpa using hemp
      have hpos : 0 < c.kids.length := List.length_pos_iff.mpr hne
      rw [chunks_single hne (by simp [batchSize] at hlen ⊢; omega)] at hb
      simp only [saveBatches, bind, Except.bind, pure, Except.pure] at hb
      split at hb
      · cases hb
      · rename_i r0 h0
        obtain ⟨ob, mb⟩ := r0
        split at h0
        · cases h0
        · rename_i r1 h1
          obtain ⟨o1, m1'⟩ := r1
          simp only at h0
          cases h0
          have hmod : ¬ ((true && c.kids.length % (2 * batchSize) == 0) = true) := by
            simp [batchSize] at hlen ⊢; omega
          simp only [hmod] at hb
          cases hb
          let v2 : VM := { opened v ⟨.dict, []⟩ with stack := .mark :: (opened v ⟨.dict, []⟩).stack }
          obtain ⟨v3, ys, p3, st3, r3⟩ := saveAll_sim ih _ _ _ _ h1 v2 (x :: O) s2 hpar
          have hy3 : v3.heap[v.heap.size]? = some ⟨.dict, []⟩ := p3.ext.old _ _ hy2
          have hst := step_setitems_dict (S := v.stack) (by rw [st3]; rfl) hy3 (hset v3 _ p3.sim r3)
          have hrun1 : ∀ rest, runOps {} (Op.emptyDict :: .memoize :: ([Op.mark] ++ rest)) v = runOps {} rest v2 := by
            intro rest
            rw [hrun0]
            exact runOps_cons (by simp) rfl
          have := container_post (v2 := v2) (cn0 := ⟨.dict, []⟩) (pre := [.mark]) (op0 := .emptyDict) (cn := ⟨.dict, ys⟩)
            s hc htag.symm rfl (fun p z hp => by cases hp) rfl rfl hrun1 p3 r3 hns hst (by simp) rfl rfl rfl
          simpa using this


/-- the end of the tuple / class cases: the kids are saved, `mk` builds the cell from them, `MEMOIZE` follows -/
theorem alloc_finish (w : Owned h r) {m m1 : PMemo} {v v3 : VM} {O : List Ref} {x : Ref} {c : Cell} {ys : List Ref} {o : List Op}
    (hc : h[x]? = some c) (hnobj : ∀ a b n, c.tag ≠ .obj a b n) (hcna : c.isAtom = false)
    (hcn : (Cell.mk c.tag ys).isAtom = false)
    (p3 : Post h r m v O o m1 v3) (r3 : Pointwise (Rel h m1 v3.heap v3.memo) c.kids ys) (S : List Item)
    {mk : List Op} (hmk : ∀ rest, runOps {} (mk ++ rest) v3 = runOps {} rest (VM.alloc { v3 with stack := S } ⟨c.tag, ys⟩))
    (hx : x ∉ m1) :
    ∃ v' y, Post h r m v O (o ++ mk ++ [.memoize]) (m1 ++ [x]) v' ∧ v'.stack = .ref y :: S ∧
      Rel h (m1 ++ [x]) v'.heap v'.memo x y := by
  have hns := fun k hk => w.kid_notState hc hnobj (k := k) hk
  obtain ⟨s', r'⟩ := p3.sim.allocMemo (cn := ⟨c.tag, ys⟩) hx ⟨c, hc, hcna⟩ hcn
    (fun p hp => by rw [objParts?_none (c := ⟨c.tag, ys⟩) hnobj] at hp; cases hp)
    (fun _ => ⟨c, ⟨c.tag, ys⟩, hc, by simp, rfl,
      relK_of_rel (Pointwise.imp (fun a b hab => Rel.mono hab (MPre.append _ _) (Ext.allocMemo _ _ _)) r3) hns⟩)
  let v4 : VM := ⟨v3.heap.push ⟨c.tag, ys⟩, .ref v3.heap.size :: S, v3.memo.push v3.heap.size⟩
  refine ⟨v4, v3.heap.size, ⟨?_, s', p3.pre.trans (MPre.append _ _), p3.ext.trans (Ext.allocMemo _ _ _)⟩, rfl, r'⟩
  intro rest
  rw [List.append_assoc, List.append_assoc, p3.run, hmk]
  exact runOps_cons (by simp) (step_memoize (v := VM.alloc { v3 with stack := S } ⟨c.tag, ys⟩) (y := v3.heap.size) (S := S) rfl)

theorem Post.under {m m1 : PMemo} {v vm v3 : VM} {O : List Ref} {pre o : List Op} (hh : vm.heap = v.heap) (hm : vm.memo = v.memo)
    (hrun : ∀ rest, runOps {} (pre ++ rest) v = runOps {} rest vm) (p : Post h r m vm O o m1 v3) :
    Post h r m v O (pre ++ o) m1 v3 :=
  ⟨fun rest => by rw [List.append_assoc, hrun, p.run], p.sim, p.pre, by rw [← hh, ← hm]; exact p.ext⟩

theorem rec_finish {m m1 : PMemo} {v v3 : VM} {O : List Ref} {x : Ref} {o cl : List Op} {i : Nat}
    (p3 : Post h r m v O o m1 v3) (hi : memoIdx m1 x = some i) (S : List Item)
    (hcl : ∀ rest, runOps {} (cl ++ rest) v3 = runOps {} rest { v3 with stack := S }) :
    ∃ v' y, Post h r m v O (o ++ cl ++ [.get i]) m1 v' ∧ v'.stack = .ref y :: S ∧ Rel h m1 v'.heap v'.memo x y := by
  have hx : m1[i]? = some x := indexOf?_some hi
  have hlt : i < v3.memo.size := by rw [← p3.sim.len]; exact (List.getElem?_eq_some_iff.mp hx).1
  refine ⟨{ v3 with stack := .ref v3.memo[i] :: S }, v3.memo[i], ⟨?_, p3.sim, p3.pre, p3.ext⟩, rfl,
    Or.inr ⟨i, hx, by simp [hlt]⟩⟩
  intro rest
  rw [List.append_assoc, List.append_assoc, p3.run, hcl]
  exact runOps_cons (by simp) (step_get (v := { v3 with stack := S }) (by simp [hlt]))

theorem step_stackGlobal {v : VM} {mo na : Ref} {S : List Item} {a b : String}
    (hs : v.stack = .ref na :: .ref mo :: S) (hm : strOf v.heap mo = some a) (hn : strOf v.heap na = some b) :
    v.step {} .stackGlobal = .ok (VM.alloc { v with stack := S } ⟨.global, [mo, na]⟩) := by
  simp [VM.step, VM.popRef, hs, hm, hn, bind, Except.bind, pure, Except.pure]


/-! ### what saving an atom, a string, a class adds to the memo -/

theorem save_atom_memo {x : Ref} {c : Cell} (hc : h[x]? = some c) (ha : c.isAtom = true) {fuel : Nat} {m : PMemo}
    {o : List Op} {m' : PMemo} (hs : save h fuel x m = .ok (o, m')) : m' = m := by
  cases fuel with
  | zero => simp [save] at hs
  | succ f =>
    unfold save at hs
    simp only [hc] at hs
    cases hop : atomOp? c with
    | none => rw [atomOp?_none hop] at ha; cases ha
    | some op => simp [hop] at hs; exact hs.2.symm

theorem save_str_memo {x : Ref} {st : String} (hk : strOf h x = some st) {fuel : Nat} {m : PMemo}
    {o : List Op} {m' : PMemo} (hs : save h fuel x m = .ok (o, m')) : ∀ z, z ∈ m' → z ∈ m ∨ z = x := by
  obtain ⟨ks, hc⟩ := strOf_cell hk
  cases fuel with
  | zero => simp [save] at hs
  | succ f =>
    unfold save at hs
    simp only [hc] at hs
    have hop : atomOp? (Cell.mk (.str st) ks) = none := rfl
    simp only [hop] at hs
    split at hs
    · cases hs; intro z hz; exact Or.inl hz
    · cases hs; intro z hz
      rcases List.mem_append.mp hz with e | e
      · exact Or.inl e
      · simp at e; exact Or.inr e

theorem save_global_memo {g mo na : Ref} {a b : String} (hc : h[g]? = some ⟨.global, [mo, na]⟩)
    (hm : strOf h mo = some a) (hn : strOf h na = some b) {fuel : Nat} {m : PMemo}
    {o : List Op} {m' : PMemo} (hs : save h fuel g m = .ok (o, m')) : ∀ z, z ∈ m' → z ∈ m ∨ z = mo ∨ z = na ∨ z = g := by
  cases fuel with
  | zero => simp [save] at hs
  | succ f =>
    unfold save at hs
    simp only [hc] at hs
    have hop : atomOp? (Cell.mk .global [mo, na]) = none := rfl
    simp only [hop] at hs
    split at hs
    · cases hs; intro z hz; exact Or.inl hz
    · simp only [hm, hn, bind, Except.bind, pure, Except.pure] at hs
      split at hs
      · cases hs
      · rename_i r1 h1
        obtain ⟨o1, m1⟩ := r1
        simp only at hs
        split at hs
        · cases hs
        · rename_i r2 h2
          obtain ⟨o2, m2⟩ := r2
          simp only at hs
          cases hs
          intro z hz
          rcases List.mem_append.mp hz with e | e
          · rcases save_str_memo hn h2 z e with e2 | e2
            · rcases save_str_memo hm h1 z e2 with e3 | e3
              · exact Or.inl e3
              · exact Or.inr (Or.inl e3)
            · exact Or.inr (Or.inr (Or.inl e2))
          · simp at e; exact Or.inr (Or.inr (Or.inr e))


/-! ### instances: `NEWOBJ` / `REDUCE`, dict items, `BUILD` -/

theorem objParts?_cell (p : ObjParts) : p.cell.objParts? = some p := by
  obtain ⟨vn, cls, args, st, items, ditems⟩ := p
  cases st <;> simp [ObjParts.cell, Cell.objParts?]

theorem step_mkobj {v : VM} {cls args : Ref} {S : List Item} {ca cc : Cell} (vn : Bool)
    (hs : v.stack = .ref args :: .ref cls :: S) (ha : v.heap[args]? = some ca) (hat : ca.tag = .tuple)
    (hcl : v.heap[cls]? = some cc) (hct : cc.tag = .global) :
    v.step {} (if vn then .newobj else .reduce) =
      .ok (VM.alloc { v with stack := S } (ObjParts.cell ⟨vn, cls, args, none, [], []⟩)) := by
  cases vn <;>
    simp [VM.step, VM.popRef, hs, VM.cell, ha, hcl, hat, hct, bind, Except.bind, pure, Except.pure]

theorem step_setitems_obj {v : VM} {ys : List Ref} {y : Ref} {S : List Item} {p0 : ObjParts}
    (hs : v.stack = ys.reverse.map Item.ref ++ Item.mark :: .ref y :: S) (hy : v.heap[y]? = some p0.cell)
    (hd0 : p0.ditems = []) (hd : dictSetMany v.heap [] ys = .ok ys) :
    v.step {} .setitems = .ok ⟨v.heap.setIfInBounds y { p0 with ditems := ys }.cell, .ref y :: S, v.memo⟩ := by
  have ht : ∃ a b n, p0.cell.tag = .obj a b n := ⟨_, _, _, rfl⟩
  obtain ⟨a, b, n, ht⟩ := ht
  simp [VM.step, popMark_refs hs, VM.topRef, VM.setitems, VM.cell, hy, ht, objParts?_cell, hd0, hd, VM.setCell, bind,
    Except.bind, pure, Except.pure]

theorem step_setitem_obj {v : VM} {k1 v1 : Ref} {y : Ref} {S : List Item} {p0 : ObjParts}
    (hs : v.stack = .ref v1 :: .ref k1 :: .ref y :: S) (hy : v.heap[y]? = some p0.cell)
    (hd0 : p0.ditems = []) (hd : dictSetMany v.heap [] [k1, v1] = .ok [k1, v1]) :
    v.step {} .setitem = .ok ⟨v.heap.setIfInBounds y { p0 with ditems := [k1, v1] }.cell, .ref y :: S, v.memo⟩ := by
  have ht : ∃ a b n, p0.cell.tag = .obj a b n := ⟨_, _, _, rfl⟩
  obtain ⟨a, b, n, ht⟩ := ht
  simp [VM.step, VM.popRef, hs, VM.topRef, VM.setitems, VM.cell, hy, ht, objParts?_cell, hd0, hd, VM.setCell, bind,
    Except.bind, pure, Except.pure]


theorem updateAttrs_new {v : VM} {inst : Ref} {p : ObjParts} {K : List Ref} (hK : K ≠ []) (hst : p.state = none)
    (hne : inst ≠ v.heap.size)
    (hset : dictSetMany ((v.heap.push ⟨.dict, []⟩).setIfInBounds inst { p with state := some v.heap.size }.cell) [] K = .ok K) :
    v.updateAttrs inst p ⟨.dict, K⟩ = .ok ⟨((v.heap.push ⟨.dict, []⟩).setIfInBounds inst
      { p with state := some v.heap.size }.cell).setIfInBounds v.heap.size ⟨.dict, K⟩, v.stack, v.memo⟩ := by
  have hKe : K.isEmpty = false := by cases K <;> simp at hK ⊢
  have hcur : ((v.heap.push ⟨.dict, []⟩).setIfInBounds inst { p with state := some v.heap.size }.cell)[v.heap.size]? =
      some ⟨.dict, []⟩ := by simp [hne]
  have hid : v.instDict inst p = (v.heap.size, (⟨(v.heap.push ⟨.dict, []⟩).setIfInBounds inst
      ({ p with state := some v.heap.size } : ObjParts).cell, v.stack, v.memo⟩ : VM)) := by simp [VM.instDict, hst]
  unfold VM.updateAttrs
  have ht : truthy ⟨.dict, K⟩ = some true := by simp [truthy, hKe]
  rw [ht, hid]
  simp only [VM.cell]
  rw [hcur]
  simp only [bne_self_eq_false, Bool.false_eq_true, if_false]
  rw [hset]
  rfl

theorem step_build_obj {v : VM} {d' y : Ref} {S : List Item} {pB : ObjParts} {K : List Ref} {mn : String × String}
    (hs : v.stack = .ref d' :: .ref y :: S) (hy : v.heap[y]? = some pB.cell) (hst : pB.state = none)
    (hcn : classNames v.heap pB.cls = some mn) (hd : v.heap[d']? = some ⟨.dict, K⟩) (hK : K ≠ [])
    (hset : dictSetMany ((v.heap.push ⟨.dict, []⟩).setIfInBounds y { pB with state := some v.heap.size }.cell) [] K = .ok K) :
    v.step {} .build = .ok ⟨((v.heap.push ⟨.dict, []⟩).setIfInBounds y { pB with state := some v.heap.size }.cell).setIfInBounds
      v.heap.size ⟨.dict, K⟩, .ref y :: S, v.memo⟩ := by
  have hne : y ≠ v.heap.size := Nat.ne_of_lt (get_lt hy)
  have hu := updateAttrs_new (v := { v with stack := .ref y :: S }) (inst := y) (p := pB) hK hst hne hset
  simp only [VM.step, VM.build, VM.popRef, hs, VM.topRef, VM.cell, hy, objParts?_cell, hcn, hd, bind, Except.bind, pure,
    Except.pure]
  simp [hu, VM.slotState]


/-- like `Ext`, except that the cell `y` may have been rewritten -/
structure ExtX (H : Heap) (M : Array Ref) (H' : Heap) (M' : Array Ref) (y : Ref) : Prop where
  size : H.size ≤ H'.size
  memo : ∀ (i : Nat) (z : Ref), M[i]? = some z → M'[i]? = some z
  old : ∀ (k : Nat) (c : Cell), H[k]? = some c → k ≠ y → H'[k]? = some c
  newmemo : ∀ (j : Nat) (z : Ref), M'[j]? = some z → M[j]? = some z ∨ H.size ≤ z

theorem Ext.toX {H H' : Heap} {M M' : Array Ref} (e : Ext H M H' M') (y : Ref) : ExtX H M H' M' y :=
  ⟨e.size, e.memo, fun k c hk _ => e.old k c hk, e.newmemo⟩

theorem ExtX.refl (H : Heap) (M : Array Ref) (y : Ref) : ExtX H M H M y := (Ext.refl H M).toX y

theorem ExtX.trans {H1 H2 H3 : Heap} {M1 M2 M3 : Array Ref} {y : Ref} (a : ExtX H1 M1 H2 M2 y) (b : ExtX H2 M2 H3 M3 y) :
    ExtX H1 M1 H3 M3 y :=
  ⟨Nat.le_trans a.size b.size, fun i z hz => b.memo i z (a.memo i z hz),
   fun k c hk hne => b.old k c (a.old k c hk hne) hne,
   fun j z hz => by
    rcases b.newmemo j z hz with e | e
    · exact a.newmemo j z e
    · exact Or.inr (Nat.le_trans a.size e)⟩

theorem ExtX.set (H : Heap) (M : Array Ref) (y : Ref) (cn : Cell) : ExtX H M (H.setIfInBounds y cn) M y :=
  ⟨by simp, fun _ _ hz => hz, fun k c hk hne => by simp [Ne.symm hne, hk], fun _ _ hz => Or.inl hz⟩

theorem Ext.ofX {H0 H H' : Heap} {M0 M M' : Array Ref} {y : Ref} (a : Ext H0 M0 H M) (b : ExtX H M H' M' y) (hy : H0.size ≤ y) :
    Ext H0 M0 H' M' :=
  ⟨Nat.le_trans a.size b.size, fun i z hz => b.memo i z (a.memo i z hz),
   fun k c hk => b.old k c (a.old k c hk) (Nat.ne_of_lt (Nat.lt_of_lt_of_le (get_lt hk) hy)),
   fun j z hz => by
    rcases b.newmemo j z hz with e | e
    · exact a.newmemo j z e
    · exact Or.inr (Nat.le_trans a.size e)⟩


theorem objParts?_kids {c : Cell} {p : ObjParts} (hp : c.objParts? = some p) :
    c.kids = p.cls :: p.args :: (p.state.toList ++ (p.items ++ p.ditems)) ∧ ∃ n, c.tag = .obj p.viaNew p.state.isSome n := by
  obtain ⟨t, ks⟩ := c
  unfold Cell.objParts? at hp
  split at hp
  · rename_i vn n cls args st rest ht hk
    cases hp
    simp at ht hk
    subst ht; subst hk
    exact ⟨by simp, n, rfl⟩
  · rename_i vn n cls args rest ht hk
    cases hp
    simp at ht hk
    subst ht; subst hk
    exact ⟨by simp, n, rfl⟩
  · cases hp

theorem chunks_nil (n : Nat) : chunks n ([] : List Ref) = [] := by simp [chunks, chunksAux]

theorem obj_ditems_phase {sv : Saver} (ih : SaveOK h r sv) {x : Ref} {c : Cell} {p : ObjParts} (hc : h[x]? = some c)
    (hp : c.objParts? = some p) {mA : PMemo} {vA : VM} {O : List Ref} {y : Ref} {p0 : ObjParts} {S : List Item} {i : Nat}
    (sA : Sim h r mA vA.heap vA.memo (x :: O)) (hi : mA[i]? = some x) (hi' : vA.memo[i]? = some y)
    (hyA : vA.heap[y]? = some p0.cell) (hd0 : p0.ditems = []) (hs0 : p0.state = none) (hstk : vA.stack = .ref y :: S)
    (hdl : p.ditems.length < 2 * batchSize) {ss : List String} (hks : keyStrs h p.ditems = some ss) (hnd : ss.Nodup)
    {o5 : List Op} {m5 : PMemo} (h5 : batchIter sv 2 .setitems .setitem p.ditems mA = .ok (o5, m5)) :
    ∃ vB kvs, (∀ rest, runOps {} (o5 ++ rest) vA = runOps {} rest vB) ∧ Sim h r m5 vB.heap vB.memo (x :: O) ∧ MPre mA m5 ∧
      ExtX vA.heap vA.memo vB.heap vB.memo y ∧ vB.heap[y]? = some ({ p0 with ditems := kvs } : ObjParts).cell ∧
      Pointwise (Rel h m5 vB.heap vB.memo) p.ditems kvs ∧ vB.stack = .ref y :: S := by
  have hkids := (objParts?_kids hp).1
  have hpar : ∀ k, k ∈ p.ditems → Par h r mA k := fun k hk =>
    par_kid hc (Or.inl (List.mem_of_getElem? hi)) k (by rw [hkids]; simp [hk])
  have hset : ∀ (v3 : VM) (m3 : PMemo) (ys : List Ref), Sim h r m3 v3.heap v3.memo (x :: O) →
      Pointwise (Rel h m3 v3.heap v3.memo) p.ditems ys → dictSetMany v3.heap [] ys = .ok ys := by
    intro v3 m3 ys s3 r3
    have := dictSetMany_fresh (H := v3.heap) ys [] [] ss rfl (keyStrs_rel s3 _ _ _ r3 hks) (by simpa using hnd)
    simpa using this
  -- the end of both non-empty cases
  have finish : ∀ (v3 v4 : VM) (m3 : PMemo) (ys : List Ref) (o1 pre : List Op) (vm : VM) (opc : Op),
      vm.heap = vA.heap → vm.memo = vA.memo → (∀ rest, runOps {} (pre ++ rest) vA = runOps {} rest vm) →
      Post h r mA vm (x :: O) o1 m3 v3 → Pointwise (Rel h m3 v3.heap v3.memo) p.ditems ys →
      v3.step {} opc = .ok v4 → opc ≠ .stop →
      v4.heap = v3.heap.setIfInBounds y ({ p0 with ditems := ys } : ObjParts).cell → v4.memo = v3.memo →
      v4.stack = .ref y :: S →
      ∃ vB kvs, (∀ rest, runOps {} ((pre ++ o1 ++ [opc]) ++ rest) vA = runOps {} rest vB) ∧ Sim h r m3 vB.heap vB.memo (x :: O) ∧
        MPre mA m3 ∧ ExtX vA.heap vA.memo vB.heap vB.memo y ∧ vB.heap[y]? = some ({ p0 with ditems := kvs } : ObjParts).cell ∧
        Pointwise (Rel h m3 vB.heap vB.memo) p.ditems kvs ∧ vB.stack = .ref y :: S := by
    intro v3 v4 m3 ys o1 pre vm opc hh hm hrun p3 r3 hstep hne h4h h4m h4s
    have hy3 : v3.heap[y]? = some p0.cell := p3.ext.old _ _ (by rw [hh]; exact hyA)
    have hi3 : m3[i]? = some x := p3.pre i x hi
    have hi3' : v3.memo[i]? = some y := p3.ext.memo i y (by rw [hm]; exact hi')
    obtain ⟨c0, h0, ha0⟩ := p3.sim.nonatom' _ _ hi3'
    have hk := set_keep (cn := ({ p0 with ditems := ys } : ObjParts).cell) h0 ha0
    have s4 : Sim h r m3 v4.heap v4.memo (x :: O) := by
      rw [h4h, h4m]
      refine p3.sim.modify (cn := ({ p0 with ditems := ys } : ObjParts).cell) hi3 hi3' (fun a ha => ha)
        (fun a ha hO => absurd ha hO) (by simp) hk.old
        (by simp [get_lt h0]) rfl (fun hO => absurd List.mem_cons_self hO) ?_
      intro p' z hp' hz
      rw [objParts?_cell] at hp'; cases hp'
      simp [hs0] at hz
    refine ⟨v4, ys, ?_, s4, p3.pre, ?_, by rw [h4h]; simp [get_lt h0], ?_, h4s⟩
    · intro rest
      have : pre ++ o1 ++ [opc] ++ rest = pre ++ (o1 ++ (opc :: rest)) := by simp
      rw [this, hrun, p3.run, runOps_cons hne hstep]
    · have e1 : ExtX vA.heap vA.memo v3.heap v3.memo y := by
        have := p3.ext.toX y; rw [hh, hm] at this; exact this
      have e2 : ExtX v3.heap v3.memo v4.heap v4.memo y := by rw [h4h, h4m]; exact ExtX.set _ _ _ _
      exact e1.trans e2
    · rw [h4h, h4m]; exact Pointwise.imp (fun a b hab => Rel.keep hab hk) r3
  unfold batchIter at h5
  by_cases hemp : p.ditems = []
  · rw [hemp, chunks_nil] at h5
    simp [saveBatches] at h5
    obtain ⟨rfl, rfl⟩ := h5
    refine ⟨vA, [], fun rest => rfl, sA, MPre.refl _, ExtX.refl _ _ _, ?_, by rw [hemp]; exact Pointwise.nil, hstk⟩
    rw [hyA]; congr 1; cases p0; simp at hd0; subst hd0; rfl
  · have hpos : 0 < p.ditems.length := List.length_pos_iff.mpr hemp
    rw [chunks_single hemp (by simp [batchSize] at hdl ⊢; omega)] at h5
    simp only [saveBatches, bind, Except.bind, pure, Except.pure] at h5
    split at h5
    · cases h5
    · rename_i r1 h1
      obtain ⟨o1, m1⟩ := r1
      simp only at h5
      cases h5
      by_cases hone : (p.ditems.length == 2) = true
      · simp only [hone, if_true]
        obtain ⟨v3, ys, p3, st3, r3⟩ := saveAll_sim ih _ _ _ _ h1 vA (x :: O) sA hpar
        have hl : p.ditems.length = 2 := by simpa using hone
        obtain ⟨k1, v1, rfl⟩ : ∃ k1 v1, ys = [k1, v1] := by
          have := r3.length_eq
          rw [hl] at this
          match ys, this with
          | [a, b], _ => exact ⟨a, b, rfl⟩
        have hy3 : v3.heap[y]? = some p0.cell := p3.ext.old _ _ hyA
        have hst := step_setitem_obj (S := S) (by rw [st3, hstk]; rfl) hy3 hd0 (hset v3 _ _ p3.sim r3)
        have := finish v3 _ _ _ o1 [] vA .setitem rfl rfl (fun rest => rfl) p3 r3 hst (by simp) rfl rfl rfl
        simpa using this
      · simp only [hone]
        let vm : VM := { vA with stack := .mark :: vA.stack }
        obtain ⟨v3, ys, p3, st3, r3⟩ := saveAll_sim ih _ _ _ _ h1 vm (x :: O) sA hpar
        have hy3 : v3.heap[y]? = some p0.cell := p3.ext.old _ _ hyA
        have hst := step_setitems_obj (S := S) (by rw [st3]; simp [vm, hstk]) hy3 hd0 (hset v3 _ _ p3.sim r3)
        have := finish v3 _ _ _ o1 [.mark] vm .setitems rfl rfl (fun rest => runOps_cons (by simp) rfl) p3 r3 hst (by simp) rfl rfl rfl
        simpa using this


theorem Rel.monoX {m m' : PMemo} {H H' : Heap} {M M' : Array Ref} {k k' y : Ref} {c0 : Cell} (hr : Rel h m H M k k')
    (hm : MPre m m') (he : ExtX H M H' M' y) (h0 : H[y]? = some c0) (ha0 : c0.isAtom = false) : Rel h m' H' M' k k' := by
  rcases hr with ⟨c, c', hc, hc', ha, ha', ht⟩ | ⟨i, hi, hi'⟩
  · refine Or.inl ⟨c, c', hc, he.old _ _ hc' ?_, ha, ha', ht⟩
    intro e; subst e; rw [h0] at hc'; cases hc'; rw [ha0] at ha'; cases ha'
  · exact Or.inr ⟨i, hm i k hi, he.memo i k' hi'⟩

theorem rel_of_relK {m : PMemo} {H : Heap} {M : Array Ref} {l l' : List Ref} (hp : Pointwise (RelK h m H M) l l')
    (hns : ∀ k, k ∈ l → ¬ IsState h k) : Pointwise (Rel h m H M) l l' :=
  hp.imp_mem (fun a b ha _ hab => by
    rcases hab with ⟨_, hr⟩ | ⟨hs, _⟩
    · exact hr
    · exact absurd hs (hns a ha))

/-- the image of a class cell is a class cell whose two names are readable -/
theorem class_image {m : PMemo} {H : Heap} {M : Array Ref} {O : List Ref} (s : Sim h r m H M O) {cls cls' mo na : Ref}
    {a b : String} (hcls : h[cls]? = some ⟨.global, [mo, na]⟩) (hmo : strOf h mo = some a) (hna : strOf h na = some b)
    (hr : Rel h m H M cls cls') : ∃ cc', H[cls']? = some cc' ∧ cc'.tag = .global ∧ classNames H cls' = some (a, b) := by
  rcases hr with ⟨c, c', hc, _, ha, _, _⟩ | ⟨i, hi, hi'⟩
  · rw [hcls] at hc; cases hc; simp [Cell.isAtom] at ha
  · have hO : cls ∉ O := by
      intro e
      obtain ⟨c, h1, ho⟩ := s.openKind cls e
      rw [hcls] at h1; cases h1; simp [opens] at ho
    obtain ⟨c, c', h1, h2, h3, h4⟩ := s.complete i cls cls' hi hi' hO
    rw [hcls] at h1; cases h1
    obtain ⟨t', ks'⟩ := c'
    simp at h3; subst h3
    have strK : ∀ k k' st, strOf h k = some st → RelK h m H M k k' → strOf H k' = some st := by
      intro k k' st hk hrel
      rcases hrel with ⟨_, hr⟩ | ⟨_, cd, K, hcd, htd, _⟩
      · exact strOf_rel s hk hr
      · obtain ⟨ks, hcell⟩ := strOf_cell hk
        rw [hcell] at hcd; cases hcd; cases htd
    cases h4 with
    | cons hm' h5 =>
      cases h5 with
      | cons hn' h6 =>
        cases h6
        rename_i m' n'
        refine ⟨_, h2, rfl, ?_⟩
        simp [classNames, h2, strK mo m' a hmo hm', strK na n' b hna hn']

theorem keyStrs_congr {H H' : Heap} (hs : ∀ k st, strOf H k = some st → strOf H' k = some st) :
    ∀ (K : List Ref) (ss : List String), keyStrs H K = some ss → keyStrs H' K = some ss
  | [], _, h0 => by simpa [keyStrs] using h0
  | [_], _, h0 => by simp [keyStrs] at h0
  | k :: v :: rest, ss, h0 => by
    obtain ⟨s0, ss', hs0, hrest, rfl⟩ := keyStrs_cons h0
    simp [keyStrs, hs k s0 hs0, keyStrs_congr hs rest ss' hrest]

theorem strOf_old {H H' : Heap} {y : Ref} {cy : Cell} (hold : ∀ (k : Nat) (c : Cell), H[k]? = some c → k ≠ y → H'[k]? = some c)
    (hy : H[y]? = some cy) (hyt : ∀ st, cy.tag ≠ .str st) {k : Ref} {st : String} (hk : strOf H k = some st) :
    strOf H' k = some st := by
  obtain ⟨ks, hc⟩ := strOf_cell hk
  have hne : k ≠ y := by
    intro e; subst e; rw [hy] at hc; cases hc; exact hyt st rfl
  simp [strOf, hold k _ hc hne]

/-- the heap after `BUILD` on the instance `y` whose state dict has the kids `K` -/
def builtHeap (H : Heap) (y : Ref) (pB : ObjParts) (K : List Ref) : Heap :=
  ((H.push ⟨.dict, []⟩).setIfInBounds y ({ pB with state := some H.size } : ObjParts).cell).setIfInBounds H.size ⟨.dict, K⟩

theorem builtHeap_old {H : Heap} {y : Ref} {pB : ObjParts} {K : List Ref} (k : Nat) (c : Cell) (hk : H[k]? = some c) (hne : k ≠ y) :
    (builtHeap H y pB K)[k]? = some c := by
  have hl := get_lt hk
  have h1 : H.size ≠ k := Nat.ne_of_gt hl
  simp [builtHeap, h1, Ne.symm hne, push_old hl, hk]

theorem builtHeap_y {H : Heap} {y : Ref} {pB : ObjParts} {K : List Ref} (hy : y < H.size) :
    (builtHeap H y pB K)[y]? = some ({ pB with state := some H.size } : ObjParts).cell := by
  have h1 : H.size ≠ y := Nat.ne_of_gt hy
  simp [builtHeap, h1, Nat.lt_succ_of_lt hy]

theorem builtHeap_new {H : Heap} {y : Ref} {pB : ObjParts} {K : List Ref} :
    (builtHeap H y pB K)[H.size]? = some ⟨.dict, K⟩ ∧ (builtHeap H y pB K).size = H.size + 1 := by
  simp [builtHeap]


/-- a kid of an instance other than its state is not a state dict -/
theorem Owned.obj_kid (w : Owned h r) {x : Ref} {c : Cell} {p : ObjParts} (hc : h[x]? = some c) (hp : c.objParts? = some p)
    {k : Ref} (hk : k ∈ c.kids) (hpos : k = p.cls ∨ k = p.args ∨ k ∈ p.items ∨ k ∈ p.ditems) : ¬ IsState h k := by
  intro hs
  obtain ⟨pp, hpp, _, n1, n2, n3, n4⟩ := w.owner x c k hc hk hs
  rw [hp] at hpp; cases hpp
  rcases hpos with e | e | e | e
  · exact n1 e
  · exact n2 e
  · exact n3 e
  · exact n4 e

theorem save_obj_ok (w : Owned h r) {fuel : Nat} (ih : SaveOK h r (save h fuel)) {x : Ref} {m : PMemo} {c : Cell} {p : ObjParts}
    (hc : h[x]? = some c) (hcell : c = p.cell) (hitems : p.items = [])
    {ca : Cell} (hargs : h[p.args]? = some ca) (hat : ca.tag = .tuple) (hak : ca.kids = [])
    {mo na : Ref} {a b : String} (hcls : h[p.cls]? = some ⟨.global, [mo, na]⟩) (hmo : strOf h mo = some a)
    (hna : strOf h na = some b)
    (hdl : p.ditems.length < 2 * batchSize) {ss : List String} (hks : keyStrs h p.ditems = some ss) (hnd : ss.Nodup)
    (hstate : ∀ d, p.state = some d → ∃ cd ssd, h[d]? = some cd ∧ cd.tag = .dict ∧ cd.kids ≠ [] ∧
      keyStrs h cd.kids = some ssd ∧ ssd.Nodup)
    (hx : x ∉ m) (hpx : Par h r m x)
    {o1 : List Op} {m1 : PMemo} (h1 : save h fuel p.cls m = .ok (o1, m1))
    {o2 : List Op} {m2 : PMemo} (h2 : save h fuel p.args m1 = .ok (o2, m2))
    {o5 : List Op} {m5 : PMemo} (h5 : batchIter (save h fuel) 2 .setitems .setitem p.ditems (m2 ++ [x]) = .ok (o5, m5))
    {o6 : List Op} {m6 : PMemo}
    (h6 : (p.state = none ∧ o6 = [] ∧ m6 = m5) ∨
          (∃ d o, p.state = some d ∧ save h fuel d m5 = .ok (o, m6) ∧ o6 = o ++ [.build]))
    (v : VM) (O : List Ref) (s : Sim h r m v.heap v.memo O) :
    ∃ v' y, Post h r m v O (o1 ++ o2 ++ [if p.viaNew then Op.newobj else Op.reduce] ++ [.memoize] ++ o5 ++ o6) m6 v' ∧
      v'.stack = .ref y :: v.stack ∧ Rel h m6 v'.heap v'.memo x y := by
  have hp : c.objParts? = some p := by rw [hcell]; exact objParts?_cell p
  have hkids : c.kids = p.cls :: p.args :: (p.state.toList ++ (p.items ++ p.ditems)) := by rw [hcell]; rfl
  have htag : c.tag = .obj p.viaNew p.state.isSome p.items.length := by rw [hcell]; rfl
  have hatom : ca.isAtom = true := by simp [Cell.isAtom, hat, hak]
  -- class and arguments
  obtain ⟨v1, cls', p1, st1, r1⟩ := ih p.cls m o1 m1 h1 v O s (Or.inr (Or.inr ⟨_, hcls, rfl⟩))
  obtain ⟨v2, args', p2, st2, r2⟩ := ih p.args m1 o2 m2 h2 v1 O p1.sim (Or.inr (Or.inr ⟨ca, hargs, by simp [opens, hat]⟩))
  have hm2 : m2 = m1 := save_atom_memo hargs hatom h2
  subst hm2
  have hx1 : x ∉ m2 := by
    intro e
    have tagOf : ∀ z st, strOf h z = some st → z ≠ x := by
      intro z st hz e'; subst e'
      obtain ⟨ks, hcell⟩ := strOf_cell hz
      rw [hc] at hcell; cases hcell; cases htag
    rcases save_global_memo hcls hmo hna h1 x e with e1 | e1 | e1 | e1
    · exact hx e1
    · exact tagOf mo a hmo e1.symm
    · exact tagOf na b hna e1.symm
    · subst e1; rw [hc] at hcls; cases hcls; cases htag
  have r1' : Rel h m2 v2.heap v2.memo p.cls cls' := r1.mono p2.pre p2.ext
  obtain ⟨cc', hcc', hcct, _⟩ := class_image p2.sim hcls hmo hna r1'
  obtain ⟨ca', hca', hcat'⟩ : ∃ ca', v2.heap[args']? = some ca' ∧ ca'.tag = .tuple := by
    rcases r2 with ⟨c0, c0', h0, h0', _, _, ht⟩ | ⟨i, hi, _⟩
    · rw [hargs] at h0; cases h0; exact ⟨c0', h0', by rw [← ht, hat]⟩
    · obtain ⟨c0, h0, n0⟩ := p2.sim.nonatom _ (List.mem_of_getElem? hi)
      rw [hargs] at h0; cases h0; rw [hatom] at n0; cases n0
  -- NEWOBJ / REDUCE, MEMOIZE
  let p0 : ObjParts := ⟨p.viaNew, cls', args', none, [], []⟩
  let v2S : VM := { v2 with stack := v.stack }
  have hstk2 : v2.stack = .ref args' :: .ref cls' :: v.stack := by rw [st2, st1]
  have hmk := step_mkobj (S := v.stack) p.viaNew hstk2 hca' hcat' hcc' hcct
  let vA := opened v2S p0.cell
  have hrunA : ∀ rest, runOps {} ((if p.viaNew then Op.newobj else Op.reduce) :: .memoize :: rest) v2 = runOps {} rest vA := by
    intro rest
    rw [runOps_cons (by cases p.viaNew <;> simp) hmk,
      runOps_cons (by simp) (step_memoize (v := VM.alloc v2S p0.cell) (y := v2.heap.size) (S := v.stack) rfl)]
    rfl
  have hopen : opens c.tag = true := by rw [htag]; rfl
  have hpx2 : Par h r m2 x := hpx.mono (p1.pre.trans p2.pre)
  have sA : Sim h r (m2 ++ [x]) vA.heap vA.memo (x :: O) :=
    opened_sim (v := v2S) (cn0 := p0.cell) p2.sim hc hopen hx1 hpx2 rfl
      (fun q hq => by rw [objParts?_cell] at hq; cases hq; rfl)
  have hiA : (m2 ++ [x])[m2.length]? = some x := by simp
  have hiA' : vA.memo[m2.length]? = some v2.heap.size := by simp [vA, opened, v2S, p2.sim.len]
  have hyA : vA.heap[v2.heap.size]? = some p0.cell := by simp [vA, opened, v2S]
  -- dict items
  obtain ⟨vB, kvs, runB, sB, preB, extB, hyB, relB, stkB⟩ :=
    obj_ditems_phase ih hc hp sA hiA hiA' hyA rfl rfl (S := v.stack) rfl hdl hks hnd h5
  let pB : ObjParts := { p0 with ditems := kvs }
  have hiB : m5[m2.length]? = some x := preB _ _ hiA
  have hiB' : vB.memo[m2.length]? = some v2.heap.size := extB.memo _ _ hiA'
  have extA : Ext v.heap v.memo vA.heap vA.memo := (p1.ext.trans p2.ext).trans (Ext.allocMemo v2.heap v2.memo p0.cell)
  have hyv : v.heap.size ≤ v2.heap.size := (p1.ext.trans p2.ext).size
  have hmpre : MPre m m5 := ((p1.pre.trans p2.pre).trans (MPre.append _ _)).trans preB
  obtain ⟨cA, hcA, hcAn⟩ := sA.nonatom' _ _ hiA'
  -- relations of class, arguments, dict items in a later state
  have liftA : ∀ {k k' : Ref}, Rel h m2 v2.heap v2.memo k k' → Rel h (m2 ++ [x]) vA.heap vA.memo k k' :=
    fun hr => hr.mono (MPre.append _ _) (Ext.allocMemo v2.heap v2.memo p0.cell)
  have liftB : ∀ {k k' : Ref}, Rel h m2 v2.heap v2.memo k k' → Rel h m5 vB.heap vB.memo k k' :=
    fun hr => (liftA hr).monoX preB extB hcA hcAn
  have hrunAll : ∀ rest, runOps {} ((o1 ++ o2 ++ [if p.viaNew then Op.newobj else Op.reduce] ++ [.memoize] ++ o5) ++ rest) v =
      runOps {} rest vB := by
    intro rest
    have : (o1 ++ o2 ++ [if p.viaNew then Op.newobj else Op.reduce] ++ [Op.memoize] ++ o5) ++ rest =
        o1 ++ (o2 ++ ((if p.viaNew then Op.newobj else Op.reduce) :: Op.memoize :: (o5 ++ rest))) := by simp
    rw [this, p1.run, p2.run, hrunA, runB]
  rcases h6 with ⟨hst, rfl, rfl⟩ | ⟨d, o, hst, hsd, rfl⟩
  · -- no state: the instance is complete
    have hcomp : Complete h m6 vB.heap vB.memo x v2.heap.size := by
      refine ⟨c, pB.cell, hc, hyB, ?_, ?_⟩
      · rw [htag, hst, hitems]; rfl
      · rw [hkids, hst, hitems]
        refine relK_of_rel (Pointwise.cons (liftB r1') (Pointwise.cons (liftB r2) (by
          show Pointwise _ (Option.toList none ++ ([] ++ p.ditems)) (Option.toList none ++ ([] ++ kvs))
          simpa using relB))) ?_
        intro k hk
        have hkc : k ∈ c.kids := by rw [hkids, hst, hitems]; exact hk
        refine w.obj_kid hc hp hkc ?_
        simp at hk
        rcases hk with e | e | e
        · exact Or.inl e
        · exact Or.inr (Or.inl e)
        · exact Or.inr (Or.inr (Or.inr e))
    have sEnd : Sim h r m6 vB.heap vB.memo O :=
      sB.modify (H' := vB.heap) (cn := pB.cell) hiB hiB' (fun a ha => List.mem_cons_of_mem _ ha)
        (fun a ha hO => by
          rcases List.mem_cons.mp ha with e | e
          · exact e
          · exact absurd e hO)
        (Nat.le_refl _) (fun k c0 hk _ => hk) hyB rfl (fun _ => hcomp)
        (fun q z hq hz => by rw [objParts?_cell] at hq; cases hq; cases hz)
    refine ⟨vB, v2.heap.size, ⟨?_, sEnd, hmpre, Ext.ofX extA extB hyv⟩, stkB, Or.inr ⟨m2.length, hiB, hiB'⟩⟩
    intro rest
    simpa using hrunAll rest
  · -- state: save it, BUILD
    obtain ⟨cd, ssd, hcd, hcdt, hcdk, hcdks, hcdnd⟩ := hstate d hst
    have hdkid : d ∈ c.kids := by rw [hkids, hst]; simp
    have hisd : IsState h d := ⟨x, c, p, hc, hp, hst⟩
    obtain ⟨vC, d', pC, stC, rC⟩ := ih d m5 o m6 hsd vB (x :: O) sB
      (par_kid hc (Or.inl (List.mem_of_getElem? hiB)) d hdkid)
    have hdO : d ∉ x :: O := by
      intro e
      rcases List.mem_cons.mp e with e | e
      · subst e; rw [hc] at hcd; cases hcd; rw [htag] at hcdt; cases hcdt
      · rcases s.opar d e with e1 | ⟨q, cq, hq, hdq, hqm⟩ | ⟨c0, h0, ho⟩
        · subst e1; exact w.root hisd
        · obtain ⟨pp, hpp, hpst, _⟩ := w.owner q cq d hq hdq hisd
          have hqx : q = x := w.uniq q x cq c pp p d hq hc hpp hp hpst hst
          subst hqx
          rcases hqm with e2 | e2
          · exact hx e2
          · rw [hc] at hq; cases hq; rw [htag] at e2; cases e2
        · rw [hcd] at h0; cases h0; rw [hcdt] at ho; cases ho
    obtain ⟨j, hj, hj'⟩ : ∃ j : Nat, m6[j]? = some d ∧ vC.memo[j]? = some d' := by
      rcases rC with ⟨c0, _, h0, _, a0, _, _⟩ | hm'
      · rw [hcd] at h0; cases h0; simp [Cell.isAtom, hcdt] at a0
      · exact hm'
    obtain ⟨cd0, cd', hcd0, hcd', htd, hkd⟩ := pC.sim.complete j d d' hj hj' hdO
    rw [hcd] at hcd0; cases hcd0
    obtain ⟨td, K⟩ := cd'
    simp at htd; rw [hcdt] at htd; subst htd
    have hnobjd : ∀ a b n, cd.tag ≠ .obj a b n := by intro a b n e; rw [hcdt] at e; cases e
    have relK : Pointwise (Rel h m6 vC.heap vC.memo) cd.kids K :=
      rel_of_relK hkd (fun k hk => w.kid_notState hcd hnobjd hk)
    have hK : K ≠ [] := by
      intro e; subst e
      have := relK.length_eq
      simp at this; exact hcdk this
    have hyC : vC.heap[v2.heap.size]? = some pB.cell := pC.ext.old _ _ hyB
    have hylt : v2.heap.size < vC.heap.size := get_lt hyC
    obtain ⟨_, _, _, hcn⟩ := class_image pC.sim hcls hmo hna ((liftB r1').mono pC.pre pC.ext)
    have hksC : keyStrs vC.heap K = some ssd := keyStrs_rel pC.sim _ _ _ relK hcdks
    have hksB : keyStrs ((vC.heap.push ⟨.dict, []⟩).setIfInBounds v2.heap.size ({ pB with state := some vC.heap.size } : ObjParts).cell)
        K = some ssd := by
      refine keyStrs_congr (fun k st hk => ?_) K ssd hksC
      refine strOf_old (y := v2.heap.size) (cy := pB.cell) ?_ hyC (fun st e => by cases e) hk
      intro k0 c0 hk0 hne
      simp [Ne.symm hne, push_old (get_lt hk0), hk0]
    have hsetK := dictSetMany_fresh (H := (vC.heap.push ⟨.dict, []⟩).setIfInBounds v2.heap.size
      ({ pB with state := some vC.heap.size } : ObjParts).cell) K [] [] ssd rfl hksB (by simpa using hcdnd)
    have hbuild := step_build_obj (v := vC) (S := v.stack) (pB := pB) (by rw [stC, stkB]) hyC rfl hcn hcd' hK
      (by simpa using hsetK)
    let vD : VM := ⟨builtHeap vC.heap v2.heap.size pB K, .ref v2.heap.size :: v.stack, vC.memo⟩
    have hiC : m6[m2.length]? = some x := pC.pre _ _ hiB
    have hiC' : vC.memo[m2.length]? = some v2.heap.size := pC.ext.memo _ _ hiB'
    have extD : ExtX vC.heap vC.memo vD.heap vD.memo v2.heap.size :=
      ⟨by simp [vD, builtHeap_new.2], fun _ _ hz => hz, fun k c0 hk hne => builtHeap_old k c0 hk hne, fun _ _ hz => Or.inl hz⟩
    obtain ⟨cC, hcC, hcCn⟩ := pC.sim.nonatom' _ _ hiC'
    have liftD : ∀ {k k' : Ref}, Rel h m6 vC.heap vC.memo k k' → Rel h m6 vD.heap vD.memo k k' :=
      fun hr => hr.monoX (MPre.refl _) extD hcC hcCn
    have liftBD : ∀ {k k' : Ref}, Rel h m2 v2.heap v2.memo k k' → Rel h m6 vD.heap vD.memo k k' :=
      fun hr => liftD ((liftB hr).mono pC.pre pC.ext)
    have hcomp : Complete h m6 vD.heap vD.memo x v2.heap.size := by
      refine ⟨c, ({ pB with state := some vC.heap.size } : ObjParts).cell, hc, builtHeap_y hylt, ?_, ?_⟩
      · rw [htag, hst, hitems]; rfl
      · rw [hkids, hst, hitems]
        have nsOf : ∀ k, (k = p.cls ∨ k = p.args ∨ k ∈ p.items ∨ k ∈ p.ditems) → k ∈ c.kids → ¬ IsState h k :=
          fun k hpos hk => w.obj_kid hc hp hk hpos
        refine Pointwise.cons (Or.inl ⟨nsOf _ (Or.inl rfl) (by rw [hkids]; simp), liftBD r1'⟩)
          (Pointwise.cons (Or.inl ⟨nsOf _ (Or.inr (Or.inl rfl)) (by rw [hkids]; simp), liftBD r2⟩)
          (Pointwise.cons (Or.inr ⟨hisd, cd, K, hcd, hcdt, builtHeap_new.1, Pointwise.imp (fun _ _ hab => liftD hab) relK,
            fun j' => memo_fresh pC.sim j'⟩) ?_))
        have : Pointwise (Rel h m6 vD.heap vD.memo) p.ditems kvs :=
          Pointwise.imp (fun _ _ hab => liftD (hab.mono pC.pre pC.ext)) relB
        show Pointwise _ ([] ++ p.ditems) ([] ++ kvs)
        simpa using relK_of_rel this (fun k hk => nsOf k (Or.inr (Or.inr (Or.inr hk))) (by rw [hkids]; simp [hk]))
    have sEnd : Sim h r m6 vD.heap vD.memo O :=
      pC.sim.modify (H' := vD.heap) (cn := ({ pB with state := some vC.heap.size } : ObjParts).cell) hiC hiC'
        (fun a ha => List.mem_cons_of_mem _ ha)
        (fun a ha hO => by
          rcases List.mem_cons.mp ha with e | e
          · exact e
          · exact absurd e hO)
        extD.size extD.old (builtHeap_y hylt) rfl (fun _ => hcomp)
        (fun q z hq hz => by
          rw [objParts?_cell] at hq; cases hq
          simp at hz; subst hz
          exact ⟨Nat.le_refl _, by simp [vD, builtHeap_new.2]⟩)
    have extAll : Ext v.heap v.memo vD.heap vD.memo :=
      Ext.ofX extA ((extB.trans (pC.ext.toX _)).trans extD) hyv
    refine ⟨vD, v2.heap.size, ⟨?_, sEnd, hmpre.trans pC.pre, extAll⟩, rfl, Or.inr ⟨m2.length, hiC, hiC'⟩⟩
    intro rest
    have : o1 ++ o2 ++ [if p.viaNew then Op.newobj else Op.reduce] ++ [Op.memoize] ++ o5 ++ (o ++ [Op.build]) ++ rest =
        (o1 ++ o2 ++ [if p.viaNew then Op.newobj else Op.reduce] ++ [Op.memoize] ++ o5) ++ (o ++ (Op.build :: rest)) := by simp
    rw [this, hrunAll, pC.run, runOps_cons (by simp) hbuild]
    rfl


theorem obj_fresh {fuel : Nat} {x : Ref} {m : PMemo} {c : Cell} {p : ObjParts} (hc : h[x]? = some c) (hcell : c = p.cell)
    {ca : Cell} (hargs : h[p.args]? = some ca) (hat : ca.tag = .tuple) (hak : ca.kids = [])
    {mo na : Ref} {a b : String} (hcls : h[p.cls]? = some ⟨.global, [mo, na]⟩) (hmo : strOf h mo = some a)
    (hna : strOf h na = some b) (hx : x ∉ m)
    {o1 : List Op} {m1 : PMemo} (h1 : save h fuel p.cls m = .ok (o1, m1))
    {o2 : List Op} {m2 : PMemo} (h2 : save h fuel p.args m1 = .ok (o2, m2)) : m2 = m1 ∧ x ∉ m2 := by
  have htag : c.tag = .obj p.viaNew p.state.isSome p.items.length := by rw [hcell]; rfl
  have hatom : ca.isAtom = true := by simp [Cell.isAtom, hat, hak]
  have hm2 : m2 = m1 := save_atom_memo hargs hatom h2
  subst hm2
  refine ⟨rfl, ?_⟩
  intro e
  have tagOf : ∀ z st, strOf h z = some st → z ≠ x := by
    intro z st hz e'; subst e'
    obtain ⟨ks, hcell'⟩ := strOf_cell hz
    rw [hc] at hcell'; cases hcell'; cases htag
  rcases save_global_memo hcls hmo hna h1 x e with e1 | e1 | e1 | e1
  · exact hx e1
  · exact tagOf mo a hmo e1.symm
  · exact tagOf na b hna e1.symm
  · subst e1; rw [hc] at hcls; cases hcls; cases htag

/-- the heaps for which the round trip is proved, cell by cell: atoms; strings and bytes (no kids); tuples; lists of at
    most `batchSize` elements; dicts of fewer than `batchSize` pairs whose keys are strings with pairwise different texts;
    classes (two name strings); instances `p.cell` without list items, with the empty argument tuple, a class as `cls`,
    dict items like a dict, and as state nothing or a non-empty dict with string keys; no sets / frozensets -/
def okCell (h : Heap) (c : Cell) : Prop :=
  match c.tag with
  | .str _ | .bytes _ => c.kids = []
  | .list => c.kids.length ≤ batchSize
  | .dict => c.kids.length < 2 * batchSize ∧ ∃ ss, keyStrs h c.kids = some ss ∧ ss.Nodup
  | .global => ∃ mo na a b, c.kids = [mo, na] ∧ strOf h mo = some a ∧ strOf h na = some b
  | .obj .. => ∃ p : ObjParts, c = p.cell ∧ p.items = [] ∧
      (∃ ca, h[p.args]? = some ca ∧ ca.tag = .tuple ∧ ca.kids = []) ∧
      (∃ mo na a b, h[p.cls]? = some ⟨.global, [mo, na]⟩ ∧ strOf h mo = some a ∧ strOf h na = some b) ∧
      p.ditems.length < 2 * batchSize ∧ (∃ ss, keyStrs h p.ditems = some ss ∧ ss.Nodup) ∧
      (∀ d, p.state = some d → ∃ cd ssd, h[d]? = some cd ∧ cd.tag = .dict ∧ cd.kids ≠ [] ∧
        keyStrs h cd.kids = some ssd ∧ ssd.Nodup)
  | .set | .frozenset => False
  | _ => True

structure Supported (h : Heap) (r : Ref) : Prop where
  cells : ∀ (i : Nat) (c : Cell), h[i]? = some c → okCell h c
  owned : Owned h r

theorem save_ok (hS : Supported h r) : ∀ fuel, SaveOK h r (save h fuel) := by
  have w := hS.owned
  intro fuel
  induction fuel with
  | zero => intro x m ops m' hs; simp [save] at hs
  | succ fuel ih =>
    intro x m ops m' hs v O s hpx
    unfold save at hs
    split at hs
    · cases hs
    · rename_i c hc
      have hok := hS.cells x c hc
      split at hs
      · rename_i op hop
        cases hs
        obtain ⟨ha, ha', hne, hst⟩ := atomOp?_some hop
        exact ⟨v.alloc ⟨c.tag, []⟩, v.heap.size, Post.alloc s hne (hst v), rfl,
          Or.inl ⟨c, ⟨c.tag, []⟩, hc, by simp [VM.alloc], ha, ha', rfl⟩⟩
      · rename_i hop
        have hcna := atomOp?_none hop
        split at hs
        · rename_i i hi
          cases hs
          have := rec_finish (o := []) (cl := []) (x := x) (Post.refl s) hi v.stack (fun rest => rfl)
          simpa using this
        · rename_i hmi
          have hx : x ∉ m := indexOf?_none hmi
          split at hs
          · -- str
            rename_i sv htag
            cases hs
            have hk : c.kids = [] := by simpa [okCell, htag] using hok
            exact fresh_complete s hc hk hcna (by simp) (by rw [htag]; rfl) hx (by intro a b n e; rw [htag] at e; cases e)
          · -- bytes
            rename_i sv htag
            cases hs
            have hk : c.kids = [] := by simpa [okCell, htag] using hok
            exact fresh_complete s hc hk hcna (by simp) (by rw [htag]; rfl) hx (by intro a b n e; rw [htag] at e; cases e)
          · -- tuple
            rename_i htag
            have hnobj : ∀ a b n, c.tag ≠ .obj a b n := by intro a b n e; rw [htag] at e; cases e
            simp only [bind, Except.bind, pure, Except.pure] at hs
            have hne : c.kids ≠ [] := by
              intro e; simp [Cell.isAtom, htag, e] at hcna
            have hpos : 0 < c.kids.length := List.length_pos_iff.mpr hne
            have hpar : ∀ k, k ∈ c.kids → Par h r m k := par_kid hc (Or.inr htag)
            have hcnOf : ∀ ys : List Ref, c.kids.length = ys.length → (Cell.mk c.tag ys).isAtom = false := by
              intro ys hl
              cases ys with
              | nil => simp at hl; exact absurd hl hne
              | cons a t => simp [Cell.isAtom, htag]
            split at hs
            · cases hs
            · rename_i res hsa
              obtain ⟨o, m1⟩ := res
              simp only at hs
              by_cases hn : c.kids.length ≤ 3
              · obtain ⟨v3, ys, p3, st3, r3⟩ := saveAll_sim ih _ _ _ _ hsa v O s hpar
                have hlen := r3.length_eq
                split at hs
                · rename_i i hi
                  cases hs
                  simp only [hn, if_true]
                  have := rec_finish (cl := List.replicate c.kids.length Op.pop) p3 hi v.stack (fun rest => by
                    rw [hlen, ← List.length_reverse]
                    exact run_pops ys.reverse v3 v.stack rest (by rw [st3]))
                  simpa using this
                · rename_i hmi1
                  cases hs
                  have hx1 := indexOf?_none hmi1
                  obtain ⟨t1, t2, t3⟩ := step_tupleN (v := v3) (ys := ys) (S := v.stack) st3
                  have h123 : c.kids.length = 1 ∨ c.kids.length = 2 ∨ c.kids.length = 3 := by omega
                  rcases h123 with hl | hl | hl
                  · simp only [hl]
                    exact alloc_finish w (mk := [.tuple1]) hc hnobj hcna (hcnOf ys hlen) p3 r3 v.stack
                      (fun rest => by rw [htag]; exact runOps_cons (by simp) (t1 (by omega))) hx1
                  · simp only [hl]
                    exact alloc_finish w (mk := [.tuple2]) hc hnobj hcna (hcnOf ys hlen) p3 r3 v.stack
                      (fun rest => by rw [htag]; exact runOps_cons (by simp) (t2 (by omega))) hx1
                  · simp only [hl]
                    exact alloc_finish w (mk := [.tuple3]) hc hnobj hcna (hcnOf ys hlen) p3 r3 v.stack
                      (fun rest => by rw [htag]; exact runOps_cons (by simp) (t3 (by omega))) hx1
              · let vm : VM := { v with stack := .mark :: v.stack }
                obtain ⟨v3, ys, p3', st3, r3⟩ := saveAll_sim ih _ _ _ _ hsa vm O s hpar
                have hlen := r3.length_eq
                have p3 : Post h r m v O ([Op.mark] ++ o) m1 v3 :=
                  Post.under (vm := vm) rfl rfl (fun rest => runOps_cons (by simp) rfl) p3'
                split at hs
                · rename_i i hi
                  cases hs
                  simp only [hn, if_false]
                  have := rec_finish (cl := [.popMark]) p3 hi v.stack
                    (fun rest => runOps_cons (by simp) (step_popMarkM st3))
                  simpa using this
                · rename_i hmi1
                  cases hs
                  have hx1 := indexOf?_none hmi1
                  obtain ⟨k, hk⟩ : ∃ k, c.kids.length = k + 4 := ⟨c.kids.length - 4, by omega⟩
                  simp only [hk]
                  have := alloc_finish w (mk := [.tuple]) hc hnobj hcna (hcnOf ys hlen) p3 r3 v.stack
                    (fun rest => by rw [htag]; exact runOps_cons (by simp) (step_tupleM st3)) hx1
                  simpa using this
          · -- list
            rename_i htag
            simp only [bind, Except.bind, pure, Except.pure] at hs
            split at hs
            · cases hs
            · rename_i res hb
              obtain ⟨o, m1⟩ := res
              simp only at hs
              cases hs
              exact save_list_ok w ih hc htag (by simpa [okCell, htag] using hok) hx hpx hb v O s
          · -- dict
            rename_i htag
            simp only [bind, Except.bind, pure, Except.pure] at hs
            obtain ⟨hlen, ss, hks, hnd⟩ : c.kids.length < 2 * batchSize ∧ ∃ ss, keyStrs h c.kids = some ss ∧ ss.Nodup := by
              simpa [okCell, htag] using hok
            split at hs
            · cases hs
            · split at hs
              · cases hs
              · rename_i res hb
                obtain ⟨o, m1⟩ := res
                simp only at hs
                cases hs
                exact save_dict_ok w ih hc htag hlen hks hnd hx hpx hb v O s
          · rename_i htag; simp [okCell, htag] at hok
          · rename_i htag; simp [okCell, htag] at hok
          · -- class
            rename_i htag
            have hnobj : ∀ a b n, c.tag ≠ .obj a b n := by intro a b n e; rw [htag] at e; cases e
            obtain ⟨mo, na, a, b, hkk, hmo, hna⟩ : ∃ mo na a b, c.kids = [mo, na] ∧ strOf h mo = some a ∧ strOf h na = some b := by
              simpa [okCell, htag] using hok
            simp only [hkk, hmo, hna, bind, Except.bind, pure, Except.pure] at hs
            split at hs
            · cases hs
            · rename_i r1 h1
              obtain ⟨o1, m1⟩ := r1
              simp only at hs
              split at hs
              · cases hs
              · rename_i r2 h2
                obtain ⟨o2, m2⟩ := r2
                simp only at hs
                cases hs
                have tagOf : ∀ z st, strOf h z = some st → z ≠ x := by
                  intro z st hz e'; subst e'
                  obtain ⟨ks, hcell⟩ := strOf_cell hz
                  rw [hc] at hcell; cases hcell; cases htag
                have hx2 : x ∉ m2 := by
                  intro e
                  rcases save_str_memo hna h2 x e with e1 | e1
                  · rcases save_str_memo hmo h1 x e1 with e2 | e2
                    · exact hx e2
                    · exact tagOf mo a hmo e2.symm
                  · exact tagOf na b hna e1.symm
                have hstr : ∀ k st, strOf h k = some st → Par h r m k := by
                  intro k st hk
                  obtain ⟨ks, hcell⟩ := strOf_cell hk
                  exact Or.inr (Or.inr ⟨_, hcell, rfl⟩)
                obtain ⟨v1, mo', p1, st1, r1⟩ := ih mo m o1 m1 h1 v O s (hstr mo a hmo)
                obtain ⟨v2, na', p2, st2, r2⟩ := ih na m1 o2 m2 h2 v1 O p1.sim ((hstr na b hna).mono p1.pre)
                have r1' := r1.mono p2.pre p2.ext
                have hstk : v2.stack = .ref na' :: .ref mo' :: v.stack := by rw [st2, st1]
                have hsg := step_stackGlobal hstk (strOf_rel p2.sim hmo r1') (strOf_rel p2.sim hna r2)
                have r3 : Pointwise (Rel h m2 v2.heap v2.memo) c.kids [mo', na'] := by
                  rw [hkk]; exact Pointwise.cons r1' (Pointwise.cons r2 Pointwise.nil)
                have := alloc_finish w (mk := [.stackGlobal]) hc hnobj hcna (by simp [Cell.isAtom, htag]) (p1.trans p2) r3 v.stack
                  (fun rest => by rw [htag]; exact runOps_cons (by simp) hsg) hx2
                simpa using this
          · -- instance
            rename_i vn hs' n htag
            obtain ⟨p, hcell, hitems, ⟨ca, hargs, hat, hak⟩, ⟨mo, na, a, b, hcls, hmo, hna⟩, hdl, ⟨ss, hks, hnd⟩, hstate⟩ :
                ∃ p : ObjParts, c = p.cell ∧ p.items = [] ∧
                (∃ ca, h[p.args]? = some ca ∧ ca.tag = .tuple ∧ ca.kids = []) ∧
                (∃ mo na a b, h[p.cls]? = some ⟨.global, [mo, na]⟩ ∧ strOf h mo = some a ∧ strOf h na = some b) ∧
                p.ditems.length < 2 * batchSize ∧ (∃ ss, keyStrs h p.ditems = some ss ∧ ss.Nodup) ∧
                (∀ d, p.state = some d → ∃ cd ssd, h[d]? = some cd ∧ cd.tag = .dict ∧ cd.kids ≠ [] ∧
                  keyStrs h cd.kids = some ssd ∧ ssd.Nodup) := by
              simpa [okCell, htag] using hok
            have hp : c.objParts? = some p := by rw [hcell]; exact objParts?_cell p
            simp only [hp, bind, Except.bind, pure, Except.pure] at hs
            split at hs
            · cases hs
            · split at hs
              · cases hs
              · rename_i r1 h1
                obtain ⟨o1, m1⟩ := r1
                simp only at hs
                split at hs
                · cases hs
                · rename_i r2 h2
                  obtain ⟨o2, m2⟩ := r2
                  simp only at hs
                  obtain ⟨hm21, hx2⟩ := obj_fresh hc hcell hargs hat hak hcls hmo hna hx h1 h2
                  have hmi2 : memoIdx m2 x = none := by
                    cases hq : memoIdx m2 x with
                    | none => rfl
                    | some i => exact absurd (List.mem_of_getElem? (indexOf?_some hq)) hx2
                  have hit : batchIter (save h fuel) 1 Op.appends Op.append p.items (m2 ++ [x]) = .ok ([], m2 ++ [x]) := by
                    rw [hitems]; simp [batchIter, chunks_nil, saveBatches]
                  simp only [hmi2, hit] at hs
                  split at hs
                  · cases hs
                  · rename_i r5 h5
                    obtain ⟨o5, m5⟩ := r5
                    simp only at hs
                    split at hs
                    · rename_i hst
                      cases hs
                      have := save_obj_ok w ih hc hcell hitems hargs hat hak hcls hmo hna hdl hks hnd hstate hx hpx h1 h2 h5
                        (o6 := []) (Or.inl ⟨hst, rfl, rfl⟩) v O s
                      simpa using this
                    · rename_i d hst
                      split at hs
                      · cases hs
                      · rename_i r6 h6
                        obtain ⟨o6, m6⟩ := r6
                        simp only at hs
                        cases hs
                        have := save_obj_ok w ih hc hcell hitems hargs hat hak hcls hmo hna hdl hks hnd hstate hx hpx h1 h2 h5
                          (o6 := o6 ++ [.build]) (Or.inr ⟨d, o6, hst, h6, rfl⟩) v O s
                        simpa using this
          · cases hs


/-! ### from the final simulation to the isomorphism -/

theorem Pointwise.get {α β : Type} {R : α → β → Prop} {l : List α} {l' : List β} (hp : Pointwise R l l') :
    ∀ (j : Nat) (a : α) (b : β), l[j]? = some a → l'[j]? = some b → R a b := by
  induction hp with
  | nil => intro j a b ha; simp at ha
  | cons hab _ ih =>
    intro j a b ha hb
    cases j with
    | zero => simp at ha hb; subst ha; subst hb; exact hab
    | succ j => simp at ha hb; exact ih j a b ha hb

theorem Pointwise.of_get {α β : Type} {S : α → β → Prop} : ∀ {l : List α} {l' : List β}, l.length = l'.length →
    (∀ (j : Nat) (a : α) (b : β), l[j]? = some a → l'[j]? = some b → S a b) → Pointwise S l l'
  | [], [], _, _ => Pointwise.nil
  | [], _ :: _, hl, _ => by simp at hl
  | _ :: _, [], hl, _ => by simp at hl
  | a :: l, b :: l', hl, hS =>
    Pointwise.cons (hS 0 a b (by simp) (by simp))
      (Pointwise.of_get (by simpa using hl) (fun j a' b' ha hb => hS (j + 1) a' b' (by simpa using ha) (by simpa using hb)))

/-- when nothing is open any more: the memo correspondence, with every instance's state dict sent to the instance's private
    attribute dict instead of its memo image, is an isomorphism of the reachable parts -/
theorem iso_of_sim (w : Owned h r) {m : PMemo} {H : Heap} {M : Array Ref} {y : Ref} (s : Sim h r m H M [])
    (hr : Rel h m H M r y) : ∃ R, Iso h r H y R := by
  let Z : Ref → Ref → Prop := fun x z => ∃ i : Nat, m[i]? = some x ∧ M[i]? = some z
  let A : Ref → Ref → Prop := fun d z => ∃ (i : Nat) (o yo : Ref) (co cy : Cell) (po py : ObjParts), m[i]? = some o ∧ M[i]? = some yo ∧
    h[o]? = some co ∧ H[yo]? = some cy ∧ co.objParts? = some po ∧ cy.objParts? = some py ∧ po.state = some d ∧
    py.state = some z ∧ Copy h m H M d z
  let R0 : Ref → Ref → Prop := fun x z => (¬ IsState h x ∧ Z x z) ∨ (IsState h x ∧ A x z)
  let R : Ref → Ref → Prop := fun x z => R0 x z ∧ Reach h r x ∧ Reach H y z
  have hZna : ∀ x z, Z x z → NonAtom h x ∧ NonAtom H z := by
    rintro x z ⟨i, hi, hi'⟩
    exact ⟨s.nonatom x (List.mem_of_getElem? hi), s.nonatom' i z hi'⟩
  have hAna : ∀ d z, A d z → NonAtom h d ∧ NonAtom H z := by
    rintro d z ⟨_, _, _, _, _, _, _, _, _, _, _, _, _, _, _, c, K, hc, ht, hK, _, _⟩
    exact ⟨⟨c, hc, by simp [Cell.isAtom, ht]⟩, ⟨_, hK, rfl⟩⟩
  have hR0na : ∀ x z, R0 x z → NonAtom h x ∧ NonAtom H z := by
    rintro x z (⟨_, hz⟩ | ⟨_, ha⟩)
    · exact hZna x z hz
    · exact hAna x z ha
  -- a plain `Rel` between a non-state old cell and a new cell
  have relRef : ∀ k k', ¬ IsState h k → Rel h m H M k k' → (Reach h r k ∧ Reach H y k' ∨ ¬ NonAtom h k) → RelRef h H R k k' := by
    rintro k k' hns (⟨c, c', hc, hc', ha, ha', ht⟩ | hz) hreach
    · exact Or.inl ⟨c, c', hc, hc', ha, ha', ht⟩
    · rcases hreach with hre | hre
      · exact Or.inr ⟨Or.inl ⟨hns, hz⟩, hre⟩
      · exact absurd (hZna k k' hz).1 hre
  have cells : ∀ x z, R x z → ∃ c c', h[x]? = some c ∧ H[z]? = some c' ∧ c.tag = c'.tag ∧
      Pointwise (RelRef h H R) c.kids c'.kids := by
    rintro x z ⟨hxz, hrx, hrz⟩
    rcases hxz with ⟨hnsx, i, hi, hi'⟩ | ⟨hsx, i, o, yo, co, cy, po, py, hi, hi', hco, hcy, hpo, hpy, hso, hsy, c, K, hc, ht, hK, hrel, hfr⟩
    · obtain ⟨c, c', hc, hc', ht, hk⟩ := s.complete i x z hi hi' (by simp)
      refine ⟨c, c', hc, hc', ht.symm, Pointwise.of_get hk.length_eq ?_⟩
      intro j a b ha hb
      have hak : a ∈ c.kids := List.mem_of_getElem? ha
      have hbk : b ∈ c'.kids := List.mem_of_getElem? hb
      have reach : NonAtom h a → NonAtom H b → Reach h r a ∧ Reach H y b :=
        fun na nb => ⟨Reach.step hrx hc hak na, Reach.step hrz hc' hbk nb⟩
      rcases Pointwise.get hk j a b ha hb with ⟨hns, hrel⟩ | ⟨hsa, hcopy⟩
      · rcases hrel with ⟨c1, c1', h1, h1', a1, a1', t1⟩ | hz
        · exact Or.inl ⟨c1, c1', h1, h1', a1, a1', t1⟩
        · exact Or.inr ⟨Or.inl ⟨hns, hz⟩, reach (hZna a b hz).1 (hZna a b hz).2⟩
      · -- `a` is the state dict of `x`, so `b` must be the state kid of `z`
        obtain ⟨pp, hpp, hps, n1, n2, n3, n4⟩ := w.owner x c a hc hak hsa
        obtain ⟨hkids, nn, htag⟩ := objParts?_kids hpp
        rw [hps] at hkids htag
        simp only [Option.toList, Option.isSome] at hkids htag
        have hj : j = 2 := by
          rw [hkids] at ha
          match j, ha with
          | 0, ha => simp at ha; exact absurd ha.symm n1
          | 1, ha => simp at ha; exact absurd ha.symm n2
          | 2, _ => rfl
          | j + 3, ha =>
            simp at ha
            have : a ∈ pp.items ++ pp.ditems := List.mem_of_getElem? ha
            rcases List.mem_append.mp this with e | e
            · exact absurd e n3
            · exact absurd e n4
        subst hj
        -- the layout of the new cell
        have hlen := hk.length_eq
        rw [hkids] at hlen
        obtain ⟨c0', c1', rest', hk'⟩ : ∃ c0' c1' rest', c'.kids = c0' :: c1' :: b :: rest' := by
          match hq : c'.kids, hlen, hb with
          | c0' :: c1' :: b' :: rest', _, hb => simp [hq] at hb; exact ⟨c0', c1', rest', by rw [hb]⟩
        have hpy : c'.objParts? = some ⟨pp.viaNew, c0', c1', some b, rest'.take nn, rest'.drop nn⟩ := by
          obtain ⟨t', ks'⟩ := c'
          simp at ht hk'
          subst hk'
          rw [htag] at ht
          subst ht
          simp [Cell.objParts?]
        have hA : A a b := ⟨i, x, z, c, c', pp, _, hi, hi', hc, hc', hpp, hpy, hps, rfl, hcopy⟩
        exact Or.inr ⟨Or.inr ⟨hsa, hA⟩, reach (hAna a b hA).1 (hAna a b hA).2⟩
    · refine ⟨c, ⟨.dict, K⟩, hc, hK, ht, Pointwise.of_get hrel.length_eq ?_⟩
      intro j a b ha hb
      have hak : a ∈ c.kids := List.mem_of_getElem? ha
      have hns : ¬ IsState h a := w.kid_notState hc (by intro a' b' n e; rw [ht] at e; cases e) hak
      rcases Pointwise.get hrel j a b ha hb with ⟨c1, c1', h1, h1', a1, a1', t1⟩ | hz
      · exact Or.inl ⟨c1, c1', h1, h1', a1, a1', t1⟩
      · exact Or.inr ⟨Or.inl ⟨hns, hz⟩, Reach.step hrx hc hak (hZna a b hz).1,
          Reach.step hrz hK (List.mem_of_getElem? hb) (hZna a b hz).2⟩
  have rootR : NonAtom h r ∨ NonAtom H y → R r y := by
    intro hna
    rcases hr with ⟨c, c', hc, hc', ha, ha', _⟩ | hz
    · rcases hna with ⟨c1, h1, n1⟩ | ⟨c1, h1, n1⟩
      · rw [hc] at h1; cases h1; rw [ha] at n1; cases n1
      · rw [hc'] at h1; cases h1; rw [ha'] at n1; cases n1
    · exact ⟨Or.inl ⟨w.root, hz⟩, Reach.root (hZna r y hz).1, Reach.root (hZna r y hz).2⟩
  refine ⟨R, ⟨?_, fun x z hxz => hxz.2, ?_, ?_, ?_, ?_, cells⟩⟩
  · rcases hr with ⟨c, c', hc, hc', ha, ha', ht⟩ | hz
    · exact Or.inl ⟨c, c', hc, hc', ha, ha', ht⟩
    · exact Or.inr (rootR (Or.inl (hZna r y hz).1))
  · intro x hx
    induction hx with
    | root hna => exact ⟨y, rootR (Or.inl hna)⟩
    | step hxr hc hk hna ih =>
      rename_i x k c
      obtain ⟨z, hxz⟩ := ih
      obtain ⟨c1, c', hc1, hc', _, hkids⟩ := cells x z hxz
      rw [hc] at hc1; cases hc1
      obtain ⟨k', hk', hrel⟩ := hkids.exists_right k hk
      rcases hrel with ⟨c2, _, h2, _, a2, _, _⟩ | hR
      · obtain ⟨c3, h3, n3⟩ := hna
        rw [h2] at h3; cases h3; rw [a2] at n3; cases n3
      · exact ⟨k', hR⟩
  · intro z hz
    induction hz with
    | root hna => exact ⟨r, rootR (Or.inr hna)⟩
    | step hzr hc hk hna ih =>
      rename_i z k' c'
      obtain ⟨x, hxz⟩ := ih
      obtain ⟨c, c1, hc0, hc1, _, hkids⟩ := cells x z hxz
      rw [hc] at hc1; cases hc1
      obtain ⟨k, hk0, hrel⟩ := hkids.exists_left k' hk
      rcases hrel with ⟨_, c2, _, h2, _, a2, _⟩ | hR
      · obtain ⟨c3, h3, n3⟩ := hna
        rw [h2] at h3; cases h3; rw [a2] at n3; cases n3
      · exact ⟨k, hR⟩
  · rintro x z z' ⟨h1, _⟩ ⟨h2, _⟩
    rcases h1 with ⟨hns1, i, hi, hi'⟩ | ⟨hs1, i, o, yo, co, cy, po, py, hi, hi', hco, hcy, hpo, hpy, hso, hsy, _⟩
    · rcases h2 with ⟨_, j, hj, hj'⟩ | ⟨hs2, _⟩
      · have := nodup_index_unique s.nodup hi hj
        subst this
        rw [hi'] at hj'; cases hj'; rfl
      · exact absurd hs2 hns1
    · rcases h2 with ⟨hns, _⟩ | ⟨_, j, o2, yo2, co2, cy2, po2, py2, hj, hj', hco2, hcy2, hpo2, hpy2, hso2, hsy2, _⟩
      · exact absurd hs1 hns
      · have ho : o = o2 := w.uniq o o2 co co2 po po2 x hco hco2 hpo hpo2 hso hso2
        subst ho
        have := nodup_index_unique s.nodup hi hj
        subst this
        rw [hi'] at hj'; cases hj'
        rw [hcy] at hcy2; cases hcy2
        rw [hpy] at hpy2; cases hpy2
        rw [hsy] at hsy2; cases hsy2; rfl
  · rintro x x' z ⟨h1, _⟩ ⟨h2, _⟩
    rcases h1 with ⟨_, i, hi, hi'⟩ | ⟨hs1, i, o, yo, co, cy, po, py, hi, hi', hco, hcy, hpo, hpy, hso, hsy, _, _, _, _, _, _, hfr⟩
    · rcases h2 with ⟨_, j, hj, hj'⟩ | ⟨_, _, _, _, _, _, _, _, _, _, _, _, _, _, _, _, _, _, _, _, _, _, hfr2⟩
      · have := s.inj i j z hi' hj'
        subst this
        rw [hi] at hj; cases hj; rfl
      · exact absurd hi' (hfr2 i)
    · rcases h2 with ⟨_, j, hj, hj'⟩ | ⟨_, j, o2, yo2, co2, cy2, po2, py2, hj, hj', hco2, hcy2, hpo2, hpy2, hso2, hsy2, _⟩
      · exact absurd hj' (hfr j)
      · have := s.stinj i j yo yo2 cy cy2 py py2 z hi' hj' hcy hcy2 hpy hpy2 hsy hsy2
        subst this
        rw [hi] at hj; cases hj
        rw [hco] at hco2; cases hco2
        rw [hpo] at hpo2; cases hpo2
        rw [hso] at hso2; cases hso2; rfl


theorem Sim.init : Sim h r [] #[] #[] [] := by
  refine ⟨rfl, List.nodup_nil, ?_, ?_, ?_, ?_, ?_, ?_, ?_, ?_⟩
  · intro i j y hi; simp at hi
  · intro x hx; cases hx
  · intro i y hi; simp at hi
  · intro i x y hi; simp at hi
  · intro x hx; cases hx
  · intro x hx; cases hx
  · intro i j yi yj ci cj pi pj z hi; simp at hi
  · intro i yi ci pi z hi; simp at hi

/-- **T2 for the supported heaps**: atoms, strings, bytes, tuples, lists, dicts with string keys, classes and instances
    (`NEWOBJ` / `REDUCE`, dict items, state + `BUILD`), with arbitrary sharing and arbitrary cycles -/
theorem roundtrip_supported (hS : Supported h r) {ops : List Op} (hd : dump h r = .ok ops) {c : Canon}
    (hc : canon h r = some c) : Roundtrip h r := by
  have hd0 := hd
  unfold dump dumpWith at hd
  simp only [bind, Except.bind, pure, Except.pure] at hd
  split at hd
  · cases hd
  · rename_i res hsv
    obtain ⟨o, m'⟩ := res
    simp only at hd
    cases hd
    obtain ⟨v', y, p, hst, hrel⟩ := save_ok hS _ r [] o m' hsv {} [] Sim.init (Or.inl rfl)
    have hrun : run (o ++ [.stop]) = .ok (v'.heap, y) := by
      have := p.run [.stop]
      simp only [run, runWith, bind, Except.bind, pure, Except.pure]
      rw [this]
      simp [runOps, VM.topRef, hst, bind, Except.bind, pure, Except.pure]
    obtain ⟨R, iso⟩ := iso_of_sim hS.owned p.sim hrel
    exact ⟨o ++ [.stop], v'.heap, y, c, hd0, hrun, hc, iso_canon iso hc⟩

end

/-! ### the decidable check is sound -/

theorem strKeysB_sound {h : Heap} {kids : List Ref} (hb : strKeysB h kids = true) : ∃ ss, keyStrs h kids = some ss ∧ ss.Nodup := by
  unfold strKeysB at hb
  split at hb
  · rename_i ss hss; exact ⟨ss, hss, of_decide_eq_true hb⟩
  · cases hb

theorem isSome_some {α : Type} {o : Option α} (h : o.isSome = true) : ∃ a, o = some a := by
  cases o with
  | none => cases h
  | some a => exact ⟨a, rfl⟩

theorem classB_sound {h : Heap} {cls : Ref} (hb : classB h cls = true) :
    ∃ mo na a b, h[cls]? = some ⟨.global, [mo, na]⟩ ∧ strOf h mo = some a ∧ strOf h na = some b := by
  unfold classB at hb
  split at hb
  · rename_i mo na heq
    simp at hb
    obtain ⟨a, ha⟩ := isSome_some hb.1
    obtain ⟨b, hb'⟩ := isSome_some hb.2
    exact ⟨mo, na, a, b, heq, ha, hb'⟩
  · cases hb

theorem okCellB_sound {h : Heap} {c : Cell} (hb : okCellB h c = true) : okCell h c := by
  unfold okCellB at hb
  unfold okCell
  split at hb
  · rename_i s ht; simp only [ht]; simpa using hb
  · rename_i s ht; simp only [ht]; simpa using hb
  · rename_i ht; simp only [ht]; simpa using hb
  · rename_i ht; simp only [ht]
    simp at hb
    exact ⟨hb.1, strKeysB_sound hb.2⟩
  · rename_i ht; simp only [ht]
    split at hb
    · rename_i mo na hk
      simp at hb
      obtain ⟨a, ha⟩ := isSome_some hb.1
      obtain ⟨b, hb'⟩ := isSome_some hb.2
      exact ⟨mo, na, a, b, hk, ha, hb'⟩
    · cases hb
  · rename_i vn hs n ht; simp only [ht]
    split at hb
    · cases hb
    · rename_i p hp
      simp only [Bool.and_eq_true] at hb
      obtain ⟨⟨⟨⟨⟨⟨h1, h2⟩, h3⟩, h4⟩, h5⟩, h6⟩, h7⟩ := hb
      refine ⟨p, by simpa using h1, by simpa using h2, ?_, classB_sound h4, of_decide_eq_true h5, strKeysB_sound h6, ?_⟩
      · split at h3
        · rename_i ca hca
          simp at h3
          exact ⟨ca, hca, h3.1, h3.2⟩
        · cases h3
      · intro d hd
        rw [hd] at h7
        simp only at h7
        split at h7
        · rename_i cd hcd
          simp only [Bool.and_eq_true] at h7
          obtain ⟨ss, hss, hnd⟩ := strKeysB_sound h7.2
          exact ⟨cd, ss, hcd, by simpa using h7.1.1, by simpa using h7.1.2, hss, hnd⟩
        · cases h7
  · cases hb
  · cases hb
  · rename_i h1 h2 h3 h4 h5 h6 h7 h8
    split <;> first | trivial | (rename_i ht; first | exact absurd ht (h1 _) | exact absurd ht (h2 _) | exact absurd ht h3 | exact absurd ht h4 | exact absurd ht h5 | exact absurd ht (h6 _ _ _) | exact absurd ht h7 | exact absurd ht h8)


theorem stateAt_of {h : Heap} {o : Ref} {c : Cell} {p : ObjParts} {d : Ref} (hc : h[o]? = some c) (hp : c.objParts? = some p)
    (hs : p.state = some d) : stateAt h o = some d := by
  simp [stateAt, hc, hp, hs]

theorem stateAt_some {h : Heap} {o d : Ref} (hs : stateAt h o = some d) :
    ∃ c p, h[o]? = some c ∧ c.objParts? = some p ∧ p.state = some d := by
  unfold stateAt at hs
  split at hs
  · rename_i c hc
    split at hs
    · rename_i p hp; exact ⟨c, p, hc, hp, hs⟩
    · cases hs
  · cases hs

theorem hlt_of_get {h : Heap} {o : Ref} {c : Cell} (hc : h[o]? = some c) : o < h.size := by
  rcases Nat.lt_or_ge o h.size with hl | hl
  · exact hl
  · simp [Array.getElem?_eq_none hl] at hc

theorem isState_mem {h : Heap} {d : Ref} (hs : IsState h d) : d ∈ stateRefs h := by
  obtain ⟨o, c, p, hc, hp, hst⟩ := hs
  unfold stateRefs
  exact List.mem_filterMap.mpr ⟨o, List.mem_range.mpr (hlt_of_get hc), stateAt_of hc hp hst⟩

theorem supportedB_sound {h : Heap} {r : Ref} (hb : supportedB h r = true) : Supported h r := by
  unfold supportedB at hb
  simp only [Bool.and_eq_true] at hb
  obtain ⟨⟨⟨h1, h2⟩, h3⟩, h4⟩ := hb
  refine ⟨?_, ?_, ?_, ?_⟩
  · intro i c hc
    have := List.all_eq_true.mp h1 i (List.mem_range.mpr (hlt_of_get hc))
    simp only [hc] at this
    exact okCellB_sound this
  · intro hs
    have := isState_mem hs
    simp at h2
    exact h2 this
  · intro p c k hc hk hs
    have hp := List.all_eq_true.mp h3 p (List.mem_range.mpr (hlt_of_get hc))
    simp only [hc] at hp
    have hk' := List.all_eq_true.mp hp k hk
    have hmem : (stateRefs h).contains k = true := by simpa using isState_mem hs
    simp only [hmem, Bool.not_true, Bool.false_or] at hk'
    split at hk'
    · rename_i pp hpp
      simp only [Bool.and_eq_true] at hk'
      obtain ⟨⟨⟨⟨a1, a2⟩, a3⟩, a4⟩, a5⟩ := hk'
      exact ⟨pp, hpp, by simpa using a1, by simpa using a2, by simpa using a3, by simpa using a4, by simpa using a5⟩
    · cases hk'
  · intro o1 o2 c1 c2 p1 p2 d hc1 hc2 hp1 hp2 hs1 hs2
    have s1 := stateAt_of hc1 hp1 hs1
    have s2 := stateAt_of hc2 hp2 hs2
    unfold uniqB at h4
    simp only at h4
    have m1 : o1 ∈ (List.range h.size).filter (fun o => (stateAt h o).isSome) :=
      List.mem_filter.mpr ⟨List.mem_range.mpr (hlt_of_get hc1), by simp [s1]⟩
    have m2 : o2 ∈ (List.range h.size).filter (fun o => (stateAt h o).isSome) :=
      List.mem_filter.mpr ⟨List.mem_range.mpr (hlt_of_get hc2), by simp [s2]⟩
    have := List.all_eq_true.mp (List.all_eq_true.mp h4 o1 m1) o2 m2
    simp [s1, s2] at this
    exact this


end Pepper.Pickle
