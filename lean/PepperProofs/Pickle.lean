import PepperModel.Pickle
/-!
# Lemmas about the pickle model (`PepperModel/Pickle.lean`), used by `PepperProps/C16Pickle.lean`

* frame lemmas of the unpickler: `Frame a b T` = heap `b` is at least as long as `a` and agrees with it on every old cell
  outside `T`; `step_frame`: one opcode rewrites only its `targets`;
* `visit` (the depth-first walk of `canon`) returns a duplicate-free list of reachable non-atomic cells; together with the
  fact that `canon` fails when a kid is missing from that list this makes the list exactly the reachable set;
* `canon_iso`: equal canonical forms ⇒ isomorphic reachable parts.
-/
namespace Pepper.Pickle

/-! ## the unpickler: what one opcode can change -/

/-- cells of `a` survive in `b`, except at the references in `T` -/
def Frame (a b : Heap) (T : List Ref) : Prop :=
  a.size ≤ b.size ∧ ∀ i, i < a.size → i ∉ T → b[i]? = a[i]?

theorem Frame.refl (a : Heap) (T) : Frame a a T := ⟨Nat.le_refl _, fun _ _ _ => rfl⟩

theorem Frame.push (a : Heap) (c : Cell) (T) : Frame a (a.push c) T :=
  ⟨by simp, fun i hi _ => by simp [Array.getElem?_push, Nat.ne_of_lt hi]⟩

theorem Frame.set (a : Heap) (t : Ref) (c : Cell) (T) (ht : t ∈ T) : Frame a (a.setIfInBounds t c) T :=
  ⟨by simp, fun i _ hT => by
    have : t ≠ i := fun e => hT (e ▸ ht)
    simp [this]⟩

theorem Frame.trans {a b c : Heap} {T} (h1 : Frame a b T) (h2 : Frame b c T) : Frame a c T :=
  ⟨Nat.le_trans h1.1 h2.1, fun i hi hT => by rw [h2.2 i (Nat.lt_of_lt_of_le hi h1.1) hT, h1.2 i hi hT]⟩

theorem popRef_ok {v : VM} {r v1} (h : v.popRef = .ok (r, v1)) :
    v.stack = .ref r :: v1.stack ∧ v1.heap = v.heap ∧ v1.memo = v.memo := by
  unfold VM.popRef at h
  split at h
  · rename_i r' rest hs
    cases h
    exact ⟨hs, rfl, rfl⟩
  · cases h

theorem topRef_ok {v : VM} {r} (h : v.topRef = .ok r) : ∃ rest, v.stack = .ref r :: rest := by
  unfold VM.topRef at h
  split at h
  · rename_i r' rest hs
    cases h
    exact ⟨rest, hs⟩
  · cases h

theorem popMark_ok {v : VM} {items v1} (h : v.popMark = .ok (items, v1)) :
    v1.heap = v.heap ∧ v1.memo = v.memo ∧ splitMark v.stack [] = some (items, v1.stack) := by
  unfold VM.popMark at h
  split at h
  · rename_i it rest hs
    cases h
    exact ⟨rfl, rfl, hs⟩
  · cases h


theorem setCell_frame (v : VM) (t : Ref) (c : Cell) : Frame v.heap (v.setCell t c).heap [t] ∧
    (v.setCell t c).stack = v.stack ∧ (v.setCell t c).memo = v.memo :=
  ⟨Frame.set _ _ _ _ (by simp), rfl, rfl⟩

theorem extend_ok {v : VM} {t items v'} (h : v.extend t items = .ok v') :
    Frame v.heap v'.heap [t] ∧ v'.heap.size = v.heap.size ∧ v'.stack = v.stack ∧ v'.memo = v.memo := by
  unfold VM.extend at h
  simp only [bind, Except.bind] at h
  split at h
  · cases h
  · rename_i c hc
    split at h
    · cases h; exact ⟨Frame.set _ _ _ _ (by simp), by simp [VM.setCell], rfl, rfl⟩
    · split at h
      · cases h; exact ⟨Frame.set _ _ _ _ (by simp), by simp [VM.setCell], rfl, rfl⟩
      · cases h
    · cases h

theorem setitems_ok {v : VM} {t kvs v'} (h : v.setitems t kvs = .ok v') :
    Frame v.heap v'.heap [t] ∧ v'.heap.size = v.heap.size ∧ v'.stack = v.stack ∧ v'.memo = v.memo := by
  unfold VM.setitems at h
  simp only [bind, Except.bind] at h
  split at h
  · cases h
  · rename_i c hc
    split at h
    · split at h
      · cases h
      · cases h; exact ⟨Frame.set _ _ _ _ (by simp), by simp [VM.setCell], rfl, rfl⟩
    · split at h
      · split at h
        · cases h
        · cases h; exact ⟨Frame.set _ _ _ _ (by simp), by simp [VM.setCell], rfl, rfl⟩
      · cases h
    · cases h


theorem Frame.set' {a b : Heap} {T} (h : Frame a b T) (t : Ref) (c : Cell) (ht : t ∈ T ∨ a.size ≤ t) :
    Frame a (b.setIfInBounds t c) T :=
  ⟨by simpa using h.1, fun i hi hT => by
    have : t ≠ i := by
      intro e; subst e
      rcases ht with ht | ht
      · exact hT ht
      · omega
    simp [this, h.2 i hi hT]⟩

theorem Frame.mono {a b : Heap} {T T'} (h : Frame a b T) (hs : ∀ x, x ∈ T → x ∈ T') : Frame a b T' :=
  ⟨h.1, fun i hi hT => h.2 i hi (fun m => hT (hs _ m))⟩

theorem instDict_frame (v : VM) (inst : Ref) (p : ObjParts) :
    Frame v.heap (v.instDict inst p).2.heap (inst :: p.state.toList) ∧
    ((v.instDict inst p).1 ∈ p.state.toList ∨ v.heap.size ≤ (v.instDict inst p).1) ∧
    (v.instDict inst p).2.stack = v.stack ∧ (v.instDict inst p).2.memo = v.memo := by
  unfold VM.instDict
  cases hp : p.state with
  | some d => simp [Frame.refl]
  | none =>
    refine ⟨?_, by simp, rfl, rfl⟩
    exact Frame.set' (Frame.push _ _ _) _ _ (by simp)

theorem updateAttrs_ok {v : VM} {inst p dc v'} (h : v.updateAttrs inst p dc = .ok v') :
    Frame v.heap v'.heap (inst :: p.state.toList) ∧ v'.stack = v.stack ∧ v'.memo = v.memo := by
  unfold VM.updateAttrs at h
  obtain ⟨hf, hd, hs, hm⟩ := instDict_frame v inst p
  split at h
  · cases h
  · cases h; exact ⟨Frame.refl _ _, rfl, rfl⟩
  · split at h
    · cases h
    · split at h
      · cases h
      · split at h
        · cases h
        · split at h
          · cases h
          · cases h
            refine ⟨?_, hs, hm⟩
            refine Frame.set' hf _ _ ?_
            rcases hd with hd | hd
            · exact Or.inl (by simp [hd])
            · exact Or.inr hd

theorem slotState_ok {v : VM} {slot v'} (h : v.slotState slot = .ok v') : v' = v := by
  unfold VM.slotState at h
  split at h
  · cases h; rfl
  · split at h
    · cases h
    · split at h
      · cases h; rfl
      · cases h

/-- the cells `BUILD` may rewrite: the instance under the state, and its attribute dict if it has one -/
def buildTargets (v : VM) : List Ref :=
  match v.stack with
  | _ :: .ref inst :: _ =>
    inst :: (match v.heap[inst]? with
      | some c => match c.objParts? with
        | some p => p.state.toList
        | none => []
      | none => [])
  | _ => []

theorem build_ok {cfg} {v v' : VM} (h : v.build cfg = .ok v') :
    Frame v.heap v'.heap (buildTargets v) ∧ v'.memo = v.memo ∧
    ∃ st inst rest, v.stack = .ref st :: .ref inst :: rest ∧ v'.stack = .ref inst :: rest := by
  unfold VM.build at h
  simp only [bind, Except.bind] at h
  split at h
  · cases h
  · rename_i x hx
    obtain ⟨st, v1⟩ := x
    obtain ⟨hs1, hh1, hm1⟩ := popRef_ok hx
    simp only at h
    split at h
    · cases h
    · rename_i inst hinst
      obtain ⟨rest, hrest⟩ := topRef_ok hinst
      split at h
      · cases h
      · rename_i ic hic
        split at h
        · cases h
        · rename_i p hp
          split at h
          · cases h
          · split at h
            · cases h
            · split at h
              · cases h
              · split at h
                · cases h
                · split at h
                  · cases h
                  · rename_i v2 hv2
                    obtain ⟨hf, hs2, hm2⟩ := updateAttrs_ok hv2
                    have := slotState_ok h
                    subst this
                    have hcell : v.heap[inst]? = some ic := by
                      unfold VM.cell at hic
                      rw [hh1] at hic
                      split at hic
                      · rename_i c hc; cases hic; exact hc
                      · cases hic
                    refine ⟨?_, by rw [hm2, hm1], st, inst, rest, by rw [hs1, hrest], by rw [hs2, hrest]⟩
                    rw [← hh1]
                    have : buildTargets v = inst :: p.state.toList := by
                      unfold buildTargets
                      rw [hs1, hrest]
                      simp [hcell, hp]
                    rw [this]
                    exact hf


/-- the one cell an opcode may rewrite (none for most opcodes; two for `BUILD`) -/
def targets (v : VM) : Op → List Ref
  | .setitem => match v.stack with | _ :: _ :: .ref t :: _ => [t] | _ => []
  | .append => match v.stack with | _ :: .ref t :: _ => [t] | _ => []
  | .setitems | .appends | .additems => match splitMark v.stack [] with | some (_, .ref t :: _) => [t] | _ => []
  | .build => buildTargets v
  | _ => []

theorem alloc_frame (v : VM) (c : Cell) (T) : Frame v.heap (v.alloc c).heap T := Frame.push _ _ _

theorem step_frame {cfg : Cfg} {v v' : VM} {op : Op} (h : v.step cfg op = .ok v') :
    Frame v.heap v'.heap (targets v op) := by
  cases op <;> simp only [VM.step, bind, Except.bind, pure, Except.pure, throw, throwThe, MonadExceptOf.throw] at h
  case proto n => split at h <;> cases h; exact Frame.refl _ _
  case frame => cases h; exact Frame.refl _ _
  case stop => cases h; exact Frame.refl _ _
  case none => cases h; exact alloc_frame _ _ _
  case newtrue => cases h; exact alloc_frame _ _ _
  case newfalse => cases h; exact alloc_frame _ _ _
  case int => cases h; exact alloc_frame _ _ _
  case float => cases h; exact alloc_frame _ _ _
  case str => cases h; exact alloc_frame _ _ _
  case bytes => cases h; exact alloc_frame _ _ _
  case memoize => split at h <;> cases h; exact Frame.refl _ _
  case get => split at h <;> cases h; exact Frame.refl _ _
  case put =>
    split at h
    · cases h
    · split at h
      · cases h; exact Frame.refl _ _
      · split at h <;> cases h; exact Frame.refl _ _
  case emptyDict => cases h; exact alloc_frame _ _ _
  case emptyList => cases h; exact alloc_frame _ _ _
  case emptyTuple => cases h; exact alloc_frame _ _ _
  case emptySet => cases h; exact alloc_frame _ _ _
  case mark => cases h; exact Frame.refl _ _
  case setitem =>
    split at h
    · cases h
    · rename_i x hx; obtain ⟨val, v1⟩ := x; obtain ⟨s1, h1, _⟩ := popRef_ok hx; simp only at h
      split at h
      · cases h
      · rename_i x hx; obtain ⟨key, v2⟩ := x; obtain ⟨s2, h2, _⟩ := popRef_ok hx; simp only at h
        split at h
        · cases h
        · rename_i t ht; obtain ⟨rest, hr⟩ := topRef_ok ht
          have := (setitems_ok h).1
          rw [h2, h1] at this
          simpa [targets, s1, s2, hr] using this
  case setitems =>
    split at h
    · cases h
    · rename_i x hx; obtain ⟨items, v1⟩ := x; obtain ⟨h1, _, s1⟩ := popMark_ok hx; simp only at h
      split at h
      · cases h
      · rename_i t ht; obtain ⟨rest, hr⟩ := topRef_ok ht
        have := (setitems_ok h).1
        rw [h1] at this
        simpa [targets, s1, hr] using this
  case append =>
    split at h
    · cases h
    · rename_i x hx; obtain ⟨val, v1⟩ := x; obtain ⟨s1, h1, _⟩ := popRef_ok hx; simp only at h
      split at h
      · cases h
      · rename_i t ht; obtain ⟨rest, hr⟩ := topRef_ok ht
        have := (extend_ok h).1
        rw [h1] at this
        simpa [targets, s1, hr] using this
  case appends =>
    split at h
    · cases h
    · rename_i x hx; obtain ⟨items, v1⟩ := x; obtain ⟨h1, _, s1⟩ := popMark_ok hx; simp only at h
      split at h
      · cases h
      · rename_i t ht; obtain ⟨rest, hr⟩ := topRef_ok ht
        have := (extend_ok h).1
        rw [h1] at this
        simpa [targets, s1, hr] using this
  case additems =>
    split at h
    · cases h
    · rename_i x hx; obtain ⟨items, v1⟩ := x; obtain ⟨h1, _, s1⟩ := popMark_ok hx; simp only at h
      split at h
      · cases h
      · rename_i t ht; obtain ⟨rest, hr⟩ := topRef_ok ht
        split at h
        · cases h
        · split at h
          · cases h
          · split at h
            · cases h
            · cases h
              have key : ∀ c, Frame v.heap (v1.setCell t c).heap [t] := by
                intro c; rw [← h1]; exact (setCell_frame v1 t c).1
              simpa [targets, s1, hr] using key _
  case frozenset =>
    split at h
    · cases h
    · rename_i x hx; obtain ⟨items, v1⟩ := x; obtain ⟨h1, _, s1⟩ := popMark_ok hx; simp only at h
      split at h
      · cases h
      · cases h; rw [← h1]; exact alloc_frame _ _ _
  case tuple =>
    split at h
    · cases h
    · rename_i x hx; obtain ⟨items, v1⟩ := x; obtain ⟨h1, _, s1⟩ := popMark_ok hx; simp only at h
      cases h; rw [← h1]; exact alloc_frame _ _ _
  case tuple1 =>
    split at h
    · cases h
    · rename_i x hx; obtain ⟨a, v1⟩ := x; obtain ⟨s1, h1, _⟩ := popRef_ok hx; simp only at h
      cases h; rw [← h1]; exact alloc_frame _ _ _
  case tuple2 =>
    split at h
    · cases h
    · rename_i x hx; obtain ⟨a, v1⟩ := x; obtain ⟨s1, h1, _⟩ := popRef_ok hx; simp only at h
      split at h
      · cases h
      · rename_i x hx; obtain ⟨b, v2⟩ := x; obtain ⟨s2, h2, _⟩ := popRef_ok hx; simp only at h
        cases h; rw [← h1, ← h2]; exact alloc_frame _ _ _
  case tuple3 =>
    split at h
    · cases h
    · rename_i x hx; obtain ⟨a, v1⟩ := x; obtain ⟨s1, h1, _⟩ := popRef_ok hx; simp only at h
      split at h
      · cases h
      · rename_i x hx; obtain ⟨b, v2⟩ := x; obtain ⟨s2, h2, _⟩ := popRef_ok hx; simp only at h
        split at h
        · cases h
        · rename_i x hx; obtain ⟨c, v3⟩ := x; obtain ⟨s3, h3, _⟩ := popRef_ok hx; simp only at h
          cases h; rw [← h1, ← h2, ← h3]; exact alloc_frame _ _ _
  case global m n =>
    cases h
    exact Frame.trans (Frame.trans (Frame.push _ _ _) (Frame.push _ _ _)) (Frame.push _ _ _)
  case stackGlobal =>
    split at h
    · cases h
    · rename_i x hx; obtain ⟨a, v1⟩ := x; obtain ⟨s1, h1, _⟩ := popRef_ok hx; simp only at h
      split at h
      · cases h
      · rename_i x hx; obtain ⟨b, v2⟩ := x; obtain ⟨s2, h2, _⟩ := popRef_ok hx; simp only at h
        split at h
        · cases h; rw [← h1, ← h2]; exact alloc_frame _ _ _
        · cases h
  case newobj =>
    split at h
    · cases h
    · rename_i x hx; obtain ⟨a, v1⟩ := x; obtain ⟨s1, h1, _⟩ := popRef_ok hx; simp only at h
      split at h
      · cases h
      · rename_i x hx; obtain ⟨b, v2⟩ := x; obtain ⟨s2, h2, _⟩ := popRef_ok hx; simp only at h
        split at h
        · cases h
        · split at h
          · cases h
          · split at h
            · cases h
            · split at h
              · cases h
              · cases h; rw [← h1, ← h2]; exact alloc_frame _ _ _
  case newobjEx =>
    split at h
    · cases h
    · rename_i x hx; obtain ⟨k, v0⟩ := x; obtain ⟨s0, h0, _⟩ := popRef_ok hx; simp only at h
      split at h
      · cases h
      · rename_i x hx; obtain ⟨a, v1⟩ := x; obtain ⟨s1, h1, _⟩ := popRef_ok hx; simp only at h
        split at h
        · cases h
        · rename_i x hx; obtain ⟨b, v2⟩ := x; obtain ⟨s2, h2, _⟩ := popRef_ok hx; simp only at h
          split at h
          · cases h
          · split at h
            · cases h
            · split at h
              · cases h
              · split at h
                · cases h
                · split at h
                  · cases h
                  · split at h
                    · cases h
                    · split at h
                      · cases h
                      · cases h; rw [← h0, ← h1, ← h2]; exact alloc_frame _ _ _
  case reduce =>
    split at h
    · cases h
    · rename_i x hx; obtain ⟨a, v1⟩ := x; obtain ⟨s1, h1, _⟩ := popRef_ok hx; simp only at h
      split at h
      · cases h
      · rename_i x hx; obtain ⟨b, v2⟩ := x; obtain ⟨s2, h2, _⟩ := popRef_ok hx; simp only at h
        split at h
        · cases h
        · split at h
          · cases h
          · split at h
            · cases h
            · split at h
              · cases h
              · cases h; rw [← h1, ← h2]; exact alloc_frame _ _ _
  case build => exact (build_ok h).1
  case pop => split at h <;> cases h; exact Frame.refl _ _
  case popMark =>
    split at h
    · cases h
    · rename_i x hx; obtain ⟨items, v1⟩ := x; obtain ⟨h1, _, s1⟩ := popMark_ok hx; simp only at h
      cases h; rw [h1]; exact Frame.refl _ _
  case dup => split at h <;> cases h; exact Frame.refl _ _

/-! ## canonical forms -/

/-! ### reachability, isomorphism of rooted heaps -/

def NonAtom (h : Heap) (x : Ref) : Prop := ∃ c, h[x]? = some c ∧ c.isAtom = false

/-- the non-atomic cells reachable from `r` through kids of non-atomic cells -/
inductive Reach (h : Heap) (r : Ref) : Ref → Prop
  | root : NonAtom h r → Reach h r r
  | step {x k : Ref} {c : Cell} : Reach h r x → h[x]? = some c → k ∈ c.kids → NonAtom h k → Reach h r k

/-- element-wise relation of two lists of the same length -/
inductive Pointwise {α β : Type} (R : α → β → Prop) : List α → List β → Prop
  | nil : Pointwise R [] []
  | cons {a : α} {b : β} {as : List α} {bs : List β} : R a b → Pointwise R as bs → Pointwise R (a :: as) (b :: bs)

/-- two references denote "the same thing" under `R`: equal atoms (by value), or `R`-related cells -/
def RelRef (h h' : Heap) (R : Ref → Ref → Prop) (k k' : Ref) : Prop :=
  (∃ c c', h[k]? = some c ∧ h'[k']? = some c' ∧ c.isAtom = true ∧ c'.isAtom = true ∧ c.tag = c'.tag) ∨ R k k'

/-- `R` is an isomorphism between the part of `h` reachable from `r` and the part of `h'` reachable from `r'` -/
structure Iso (h : Heap) (r : Ref) (h' : Heap) (r' : Ref) (R : Ref → Ref → Prop) : Prop where
  root : RelRef h h' R r r'
  dom : ∀ x y, R x y → Reach h r x ∧ Reach h' r' y
  left_total : ∀ x, Reach h r x → ∃ y, R x y
  right_total : ∀ y, Reach h' r' y → ∃ x, R x y
  functional : ∀ x y y', R x y → R x y' → y = y'
  injective : ∀ x x' y, R x y → R x' y → x = x'
  cells : ∀ x y, R x y → ∃ c c', h[x]? = some c ∧ h'[y]? = some c' ∧ c.tag = c'.tag ∧
            Pointwise (RelRef h h' R) c.kids c'.kids

/-! ### `visit` -/

theorem visit_inv {h : Heap} {r : Ref} : ∀ (fuel : Nat) (todo seen o : List Ref), visit h fuel todo seen = some o →
    seen.Nodup → (∀ x ∈ seen, Reach h r x) → (∀ x ∈ todo, NonAtom h x → Reach h r x) →
    o.Nodup ∧ (∀ x ∈ o, Reach h r x) := by
  intro fuel
  induction fuel with
  | zero => intro todo seen o hv; simp [visit] at hv
  | succ fuel ih =>
    intro todo seen o hv hnd hseen htodo
    cases todo with
    | nil => simp [visit] at hv; subst hv; exact ⟨hnd, hseen⟩
    | cons x todo =>
      simp only [visit] at hv
      split at hv
      · cases hv
      · rename_i c hc
        split at hv
        · exact ih todo seen o hv hnd hseen (fun y hy => htodo y (List.mem_cons_of_mem _ hy))
        · rename_i hcond
          simp only [Bool.or_eq_true, not_or, Bool.not_eq_true] at hcond
          have hx : Reach h r x := htodo x (List.mem_cons_self) ⟨c, hc, hcond.1⟩
          have hns : x ∉ seen := by
            intro hm
            have := hcond.2
            simp [hm] at this
          refine ih (c.kids ++ todo) (seen ++ [x]) o hv ?_ ?_ ?_
          · rw [List.nodup_append]
            refine ⟨hnd, by simp, ?_⟩
            intro a ha b hb
            simp at hb; subst hb
            intro e; subst e; exact hns ha
          · intro y hy
            rcases List.mem_append.mp hy with hy | hy
            · exact hseen y hy
            · simp at hy; subst hy; exact hx
          · intro y hy hna
            rcases List.mem_append.mp hy with hy | hy
            · exact Reach.step hx hc hy hna
            · exact htodo y (List.mem_cons_of_mem _ hy) hna

theorem reach_sound {h : Heap} {r : Ref} {o : List Ref} (ho : reach h r = some o) :
    o.Nodup ∧ ∀ x ∈ o, Reach h r x := by
  unfold reach at ho
  refine visit_inv _ _ _ _ ho List.nodup_nil (by simp) ?_
  intro x hx hna
  simp at hx; subst hx
  exact Reach.root hna

/-! ### small list facts -/

theorem indexOf?_some {x : Ref} : ∀ {l : List Ref} {i : Nat}, indexOf? x l = some i → l[i]? = some x := by
  intro l
  induction l with
  | nil => intro i h; simp [indexOf?] at h
  | cons y ys ih =>
    intro i h
    simp only [indexOf?] at h
    split at h
    · rename_i e; cases h; simp [e]
    · cases hq : indexOf? x ys with
      | none => simp [hq] at h
      | some j =>
        simp [hq] at h; subst h
        simpa using ih hq

theorem nodup_index_unique : ∀ {l : List Ref} {i j : Nat} {x : Ref}, l.Nodup → l[i]? = some x → l[j]? = some x → i = j := by
  intro l
  induction l with
  | nil => intro i j x _ h; simp at h
  | cons y ys ih =>
    intro i j x hnd hi hj
    rw [List.nodup_cons] at hnd
    cases i with
    | zero =>
      cases j with
      | zero => rfl
      | succ j =>
        simp at hi hj; subst hi
        exact absurd (List.mem_of_getElem? hj) hnd.1
    | succ i =>
      cases j with
      | zero =>
        simp at hi hj; subst hj
        exact absurd (List.mem_of_getElem? hi) hnd.1
      | succ j =>
        simp at hi hj
        rw [ih hnd.2 hi hj]

theorem mapOpt_length {α β : Type} {f : α → Option β} : ∀ {l : List α} {ys : List β}, mapOpt f l = some ys → ys.length = l.length := by
  intro l
  induction l with
  | nil => intro ys h; simp [mapOpt] at h; subst h; rfl
  | cons x xs ih =>
    intro ys h
    simp only [mapOpt] at h
    split at h
    · rename_i y ys' hy hys; cases h; simp [ih hys]
    · cases h

theorem mapOpt_get {α β : Type} {f : α → Option β} : ∀ {l : List α} {ys : List β}, mapOpt f l = some ys →
    ∀ {i : Nat} {x : α}, l[i]? = some x → ∃ y, ys[i]? = some y ∧ f x = some y := by
  intro l
  induction l with
  | nil => intro ys _ i x hx; simp at hx
  | cons a xs ih =>
    intro ys h i x hx
    simp only [mapOpt] at h
    split at h
    · rename_i y ys' hy hys
      cases h
      cases i with
      | zero => simp at hx; subst hx; exact ⟨y, by simp, hy⟩
      | succ i => simp at hx; simpa using ih hys hx
    · cases h

theorem mapOpt_forall2 {α α' β : Type} {f : α → Option β} {g : α' → Option β} :
    ∀ {l : List α} {l' : List α'} {ys : List β}, mapOpt f l = some ys → mapOpt g l' = some ys →
    Pointwise (fun a b => ∃ y, f a = some y ∧ g b = some y) l l' := by
  intro l
  induction l with
  | nil =>
    intro l' ys h h'
    simp [mapOpt] at h; subst h
    cases l' with
    | nil => exact Pointwise.nil
    | cons b bs =>
      simp only [mapOpt] at h'
      split at h' <;> cases h'
  | cons a xs ih =>
    intro l' ys h h'
    simp only [mapOpt] at h
    split at h
    · rename_i y ys' hy hys
      cases h
      cases l' with
      | nil => simp [mapOpt] at h'
      | cons b bs =>
        simp only [mapOpt] at h'
        split at h'
        · rename_i y2 ys2 hy2 hys2
          cases h'
          exact Pointwise.cons ⟨y, hy, hy2⟩ (ih hys hys2)
        · cases h'
    · cases h


/-! ### the canonical form determines the reachable part up to isomorphism -/

theorem canon_some {h : Heap} {r : Ref} {c : Canon} (hc : canon h r = some c) :
    ∃ o, reach h r = some o ∧ rename h o r = some c.root ∧ mapOpt (canonCell h o) o = some c.cells := by
  unfold canon at hc
  split at hc
  · cases hc
  · rename_i o ho
    split at hc
    · rename_i root cells h1 h2
      cases hc
      exact ⟨o, ho, h1, h2⟩
    · cases hc

theorem rename_atom {h : Heap} {o : List Ref} {k : Ref} {t : Tag} (hr : rename h o k = some (.atom t)) :
    ∃ c, h[k]? = some c ∧ c.isAtom = true ∧ c.tag = t := by
  unfold rename at hr
  split at hr
  · cases hr
  · rename_i c hc
    split at hr
    · rename_i ha; cases hr; exact ⟨c, hc, ha, rfl⟩
    · cases hq : indexOf? k o with
      | none => simp [hq] at hr
      | some j => simp [hq] at hr

theorem rename_idx {h : Heap} {o : List Ref} {k : Ref} {i : Nat} (hr : rename h o k = some (.idx i)) :
    NonAtom h k ∧ o[i]? = some k := by
  unfold rename at hr
  split at hr
  · cases hr
  · rename_i c hc
    split at hr
    · cases hr
    · rename_i ha
      cases hq : indexOf? k o with
      | none => simp [hq] at hr
      | some j =>
        simp [hq] at hr; subst hr
        exact ⟨⟨c, hc, by simpa using ha⟩, indexOf?_some hq⟩

theorem rename_nonatom {h : Heap} {o : List Ref} {k : Ref} {cr : CRef} (hr : rename h o k = some cr) (hna : NonAtom h k) :
    ∃ i, cr = .idx i ∧ o[i]? = some k := by
  cases cr with
  | atom t =>
    obtain ⟨c, hc, ha, _⟩ := rename_atom hr
    obtain ⟨c', hc', hna'⟩ := hna
    rw [hc] at hc'; cases hc'
    rw [ha] at hna'; cases hna'
  | idx i => exact ⟨i, rfl, (rename_idx hr).2⟩

theorem canonCell_some {h : Heap} {o : List Ref} {x : Ref} {t : Tag} {ks : List CRef}
    (hx : canonCell h o x = some (t, ks)) : ∃ c, h[x]? = some c ∧ c.tag = t ∧ mapOpt (rename h o) c.kids = some ks := by
  unfold canonCell at hx
  split at hx
  · cases hx
  · rename_i c hc
    cases hm : mapOpt (rename h o) c.kids with
    | none => simp [hm] at hx
    | some ks' =>
      simp [hm] at hx
      exact ⟨c, hc, hx.1, by rw [← hx.2]; exact hm⟩

/-- the order list contains every reachable non-atomic cell -/
theorem reach_complete {h : Heap} {r : Ref} {o : List Ref} {root : CRef} {cells : List (Tag × List CRef)}
    (hroot : rename h o r = some root) (hcells : mapOpt (canonCell h o) o = some cells) :
    ∀ x, Reach h r x → x ∈ o := by
  intro x hx
  induction hx with
  | root hna =>
    obtain ⟨i, _, hi⟩ := rename_nonatom hroot hna
    exact List.mem_of_getElem? hi
  | step hxr hc hk hna ih =>
    rename_i x k c
    obtain ⟨i, hi⟩ := List.getElem?_of_mem ih
    obtain ⟨⟨t, ks⟩, _, hcc⟩ := mapOpt_get hcells hi
    obtain ⟨c', hc', _, hks⟩ := canonCell_some hcc
    rw [hc] at hc'; cases hc'
    obtain ⟨j, hj⟩ := List.getElem?_of_mem hk
    obtain ⟨cr, _, hcr⟩ := mapOpt_get hks hj
    obtain ⟨i', _, hi'⟩ := rename_nonatom hcr hna
    exact List.mem_of_getElem? hi'

theorem relRef_of_rename {h h' : Heap} {o o' : List Ref} {k k' : Ref} {cr : CRef}
    (h1 : rename h o k = some cr) (h2 : rename h' o' k' = some cr) :
    RelRef h h' (fun x y => ∃ i : Nat, o[i]? = some x ∧ o'[i]? = some y) k k' := by
  cases cr with
  | atom t =>
    obtain ⟨c, hc, ha, ht⟩ := rename_atom h1
    obtain ⟨c', hc', ha', ht'⟩ := rename_atom h2
    exact Or.inl ⟨c, c', hc, hc', ha, ha', by rw [ht, ht']⟩
  | idx i => exact Or.inr ⟨i, (rename_idx h1).2, (rename_idx h2).2⟩

/-- **T1.**  Equal canonical forms ⇒ the reachable parts are isomorphic. -/
theorem canon_iso {h h' : Heap} {r r' : Ref} {c : Canon} (hc : canon h r = some c) (hc' : canon h' r' = some c) :
    ∃ R, Iso h r h' r' R := by
  obtain ⟨o, ho, hroot, hcells⟩ := canon_some hc
  obtain ⟨o', ho', hroot', hcells'⟩ := canon_some hc'
  obtain ⟨hnd, hsound⟩ := reach_sound ho
  obtain ⟨hnd', hsound'⟩ := reach_sound ho'
  have hlen : o.length = o'.length := by rw [← mapOpt_length hcells, ← mapOpt_length hcells']
  refine ⟨fun x y => ∃ i : Nat, o[i]? = some x ∧ o'[i]? = some y, ?_⟩
  refine ⟨relRef_of_rename hroot hroot', ?_, ?_, ?_, ?_, ?_, ?_⟩
  · rintro x y ⟨i, hi, hi'⟩
    exact ⟨hsound x (List.mem_of_getElem? hi), hsound' y (List.mem_of_getElem? hi')⟩
  · intro x hx
    obtain ⟨i, hi⟩ := List.getElem?_of_mem (reach_complete hroot hcells x hx)
    have hlt : i < o'.length := by
      rw [← hlen]; exact (List.getElem?_eq_some_iff.mp hi).1
    exact ⟨o'[i], i, hi, by simp [hlt]⟩
  · intro y hy
    obtain ⟨i, hi⟩ := List.getElem?_of_mem (reach_complete hroot' hcells' y hy)
    have hlt : i < o.length := by
      rw [hlen]; exact (List.getElem?_eq_some_iff.mp hi).1
    exact ⟨o[i], i, by simp [hlt], hi⟩
  · rintro x y y' ⟨i, hi, hi'⟩ ⟨j, hj, hj'⟩
    have := nodup_index_unique hnd hi hj
    subst this
    rw [hi'] at hj'; cases hj'; rfl
  · rintro x x' y ⟨i, hi, hi'⟩ ⟨j, hj, hj'⟩
    have := nodup_index_unique hnd' hi' hj'
    subst this
    rw [hi] at hj; cases hj; rfl
  · rintro x y ⟨i, hi, hi'⟩
    obtain ⟨⟨t, ks⟩, hci, hcc⟩ := mapOpt_get hcells hi
    obtain ⟨⟨t', ks'⟩, hci', hcc'⟩ := mapOpt_get hcells' hi'
    rw [hci] at hci'; cases hci'
    obtain ⟨cx, hcx, htx, hkx⟩ := canonCell_some hcc
    obtain ⟨cy, hcy, hty, hky⟩ := canonCell_some hcc'
    refine ⟨cx, cy, hcx, hcy, by rw [htx, hty], ?_⟩
    have := mapOpt_forall2 hkx hky
    clear hkx hky
    generalize cx.kids = l1 at this
    generalize cy.kids = l2 at this
    induction this with
    | nil => exact Pointwise.nil
    | cons hab _ ih =>
      obtain ⟨cr, h1, h2⟩ := hab
      exact Pointwise.cons (relRef_of_rename h1 h2) ih

/-! ## the round trip: evaluated check, and the fragments proved for every heap -/

theorem foldl_ge (l : List Cell) : ∀ a : Nat, a ≤ l.foldl (fun a c => a + c.kids.length) a := by
  induction l with
  | nil => intro a; exact Nat.le_refl _
  | cons c cs ih => intro a; exact Nat.le_trans (Nat.le_add_right _ _) (ih _)

theorem visitFuel_ge (h : Heap) : 2 ≤ visitFuel h := by
  unfold visitFuel
  rw [← Array.foldl_toList]
  exact foldl_ge _ _

/-- the statement of the round trip for one rooted heap -/
def Roundtrip (h : Heap) (r : Ref) : Prop :=
  ∃ ops h' r' c, dump h r = .ok ops ∧ run ops = .ok (h', r') ∧ canon h r = some c ∧ canon h' r' = some c

theorem roundtripB_iff (h : Heap) (r : Ref) : roundtripB h r = true ↔ Roundtrip h r := by
  unfold roundtripB Roundtrip
  constructor
  · intro hb
    split at hb
    · cases hb
    · rename_i ops hd
      split at hb
      · cases hb
      · rename_i h' r' hr
        split at hb
        · rename_i c c' hc hc'
          have : c = c' := by simpa using hb
          subst this
          exact ⟨ops, h', r', c, hd, hr, hc, hc'⟩
        · cases hb
  · rintro ⟨ops, h', r', c, hd, hr, hc, hc'⟩
    simp [hd, hr, hc, hc']

theorem canon_atom {h : Heap} {r : Ref} {c : Cell} (hc : h[r]? = some c) (ha : c.isAtom = true) :
    canon h r = some ⟨.atom c.tag, []⟩ := by
  have hf := visitFuel_ge h
  obtain ⟨n, hn⟩ : ∃ n, visitFuel h = n + 2 := ⟨visitFuel h - 2, by omega⟩
  simp [canon, reach, hn, visit, hc, ha, rename, mapOpt]

theorem canon_leaf {h : Heap} {r : Ref} {t : Tag} (hc : h[r]? = some ⟨t, []⟩) (ha : (Cell.mk t []).isAtom = false) :
    canon h r = some ⟨.idx 0, [(t, [])]⟩ := by
  have hf := visitFuel_ge h
  obtain ⟨n, hn⟩ : ∃ n, visitFuel h = n + 2 := ⟨visitFuel h - 2, by omega⟩
  simp [canon, reach, hn, visit, hc, ha, rename, mapOpt, indexOf?, canonCell]


/-- round trip of an atomic root (`None`, a bool, an int, a float, the empty tuple), in any heap -/
theorem roundtrip_atom {h : Heap} {r : Ref} {c : Cell} (hc : h[r]? = some c) (ha : c.isAtom = true) : Roundtrip h r := by
  obtain ⟨t, ks⟩ := c
  have hcan := canon_atom hc ha
  cases t <;> simp [Cell.isAtom] at ha
  case none =>
    refine ⟨[.none, .stop], #[⟨.none, []⟩], 0, _, ?_, ?_, hcan, canon_atom (c := ⟨.none, []⟩) (by simp) rfl⟩
    · simp [dump, dumpWith, dumpFuel, save, hc, atomOp?, bind, Except.bind, pure, Except.pure]
    · simp [run, runWith, runOps, VM.step, VM.alloc, VM.topRef, bind, Except.bind, pure, Except.pure]
  case bool b =>
    cases b
    · refine ⟨[.newfalse, .stop], #[⟨.bool false, []⟩], 0, _, ?_, ?_, hcan, canon_atom (c := ⟨.bool false, []⟩) (by simp) rfl⟩
      · simp [dump, dumpWith, dumpFuel, save, hc, atomOp?, bind, Except.bind, pure, Except.pure]
      · simp [run, runWith, runOps, VM.step, VM.alloc, VM.topRef, bind, Except.bind, pure, Except.pure]
    · refine ⟨[.newtrue, .stop], #[⟨.bool true, []⟩], 0, _, ?_, ?_, hcan, canon_atom (c := ⟨.bool true, []⟩) (by simp) rfl⟩
      · simp [dump, dumpWith, dumpFuel, save, hc, atomOp?, bind, Except.bind, pure, Except.pure]
      · simp [run, runWith, runOps, VM.step, VM.alloc, VM.topRef, bind, Except.bind, pure, Except.pure]
  case int z =>
    refine ⟨[.int z, .stop], #[⟨.int z, []⟩], 0, _, ?_, ?_, hcan, canon_atom (c := ⟨.int z, []⟩) (by simp) rfl⟩
    · simp [dump, dumpWith, dumpFuel, save, hc, atomOp?, bind, Except.bind, pure, Except.pure]
    · simp [run, runWith, runOps, VM.step, VM.alloc, VM.topRef, bind, Except.bind, pure, Except.pure]
  case float b =>
    refine ⟨[.float b, .stop], #[⟨.float b, []⟩], 0, _, ?_, ?_, hcan, canon_atom (c := ⟨.float b, []⟩) (by simp) rfl⟩
    · simp [dump, dumpWith, dumpFuel, save, hc, atomOp?, bind, Except.bind, pure, Except.pure]
    · simp [run, runWith, runOps, VM.step, VM.alloc, VM.topRef, bind, Except.bind, pure, Except.pure]
  case tuple =>
    subst ha
    refine ⟨[.emptyTuple, .stop], #[⟨.tuple, []⟩], 0, _, ?_, ?_, hcan, canon_atom (c := ⟨.tuple, []⟩) (by simp) rfl⟩
    · simp [dump, dumpWith, dumpFuel, save, hc, atomOp?, bind, Except.bind, pure, Except.pure]
    · simp [run, runWith, runOps, VM.step, VM.alloc, VM.topRef, bind, Except.bind, pure, Except.pure]

/-- round trip of a string root, in any heap -/
theorem roundtrip_str {h : Heap} {r : Ref} {s : String} (hc : h[r]? = some ⟨.str s, []⟩) : Roundtrip h r := by
  refine ⟨[.str s, .memoize, .stop], #[⟨.str s, []⟩], 0, _, ?_, ?_, canon_leaf hc rfl, canon_leaf (by simp) rfl⟩
  · simp [dump, dumpWith, dumpFuel, save, hc, atomOp?, memoIdx, indexOf?, bind, Except.bind, pure, Except.pure]
  · simp [run, runWith, runOps, VM.step, VM.alloc, VM.topRef, bind, Except.bind, pure, Except.pure]

/-- round trip of a bytes root, in any heap -/
theorem roundtrip_bytes {h : Heap} {r : Ref} {s : String} (hc : h[r]? = some ⟨.bytes s, []⟩) : Roundtrip h r := by
  refine ⟨[.bytes s, .memoize, .stop], #[⟨.bytes s, []⟩], 0, _, ?_, ?_, canon_leaf hc rfl, canon_leaf (by simp) rfl⟩
  · simp [dump, dumpWith, dumpFuel, save, hc, atomOp?, memoIdx, indexOf?, bind, Except.bind, pure, Except.pure]
  · simp [run, runWith, runOps, VM.step, VM.alloc, VM.topRef, bind, Except.bind, pure, Except.pure]

end Pepper.Pickle
