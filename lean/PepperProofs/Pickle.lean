import PepperModel.Pickle
/-!
# Lemmas about the pickle model (`PepperModel/Pickle.lean`), used by `PepperProps/C16Pickle.lean`

* frame lemmas of the unpickler: `Frame a b T` = heap `b` is at least as long as `a` and agrees with it on every old cell
  outside `T`; `step_frame`: one opcode rewrites only its `targets`;
* `visit` (the depth-first walk of `canon`) returns a duplicate-free list of reachable non-atomic cells; together with the
  fact that `canon` fails when a kid is missing from that list this makes the list exactly the reachable set;
* `canon_iso`: equal canonical forms ⇒ isomorphic reachable parts; `iso_canon`: the converse (with `visit_fuel`: the fuel of
  `reach` is enough whenever any fuel is);
* the simulation `Sim` between the pickler's memo and the unpickler's state (memo entries correspond index by index; every
  memoised cell that is not OPEN — on the pickler's recursion stack — has a new cell with the same tag and related kids),
  one lemma per `save` case (`leaf_ok`, `save_list_ok`, `tuple_finish`, `tuple_rec_finish`), `save_ok` by induction on
  the fuel, `iso_of_sim` (nothing open ⇒ the memo correspondence is an isomorphism) and `roundtrip_supported`.
-/
namespace Pepper.Pickle

/-! ## the unpickler: what one opcode can change -/

/-- cells of `a` survive in `b`, except at the references in `T` -/
def Frame (a b : Heap) (T : List Ref) : Prop :=
  a.size ≤ b.size ∧ ∀ i, i < a.size → i ∉ T → b[i]? = a[i]?

theorem Frame.refl (a : Heap) (T) : Frame a a T := ⟨Nat.le_refl _, fun _ _ _ => rfl⟩

theorem Frame.push (a : Heap) (c : Cell) (T) : Frame a (a.push c) T :=
  ⟨by simp, fun i hi _ => by simp [Array.getElem?_push, Nat.ne_of_lt hi]⟩

theorem Frame.set (a : Heap) (t : Ref) (c : Cell) (T) (ht : t ∈ T) : Frame a (a.setIfInBounds t c) T :=
  ⟨by simp, fun i _ hT => by
    have : t ≠ i := fun e => hT (e ▸ ht)
    simp [this]⟩

theorem Frame.trans {a b c : Heap} {T} (h1 : Frame a b T) (h2 : Frame b c T) : Frame a c T :=
  ⟨Nat.le_trans h1.1 h2.1, fun i hi hT => by rw [h2.2 i (Nat.lt_of_lt_of_le hi h1.1) hT, h1.2 i hi hT]⟩

theorem popRef_ok {v : VM} {r v1} (h : v.popRef = .ok (r, v1)) :
    v.stack = .ref r :: v1.stack ∧ v1.heap = v.heap ∧ v1.memo = v.memo := by
  unfold VM.popRef at h
  split at h
  · rename_i r' rest hs
    cases h
    exact ⟨hs, rfl, rfl⟩
  · cases h

theorem topRef_ok {v : VM} {r} (h : v.topRef = .ok r) : ∃ rest, v.stack = .ref r :: rest := by
  unfold VM.topRef at h
  split at h
  · rename_i r' rest hs
    cases h
    exact ⟨rest, hs⟩
  · cases h

theorem popMark_ok {v : VM} {items v1} (h : v.popMark = .ok (items, v1)) :
    v1.heap = v.heap ∧ v1.memo = v.memo ∧ splitMark v.stack [] = some (items, v1.stack) := by
  unfold VM.popMark at h
  split at h
  · rename_i it rest hs
    cases h
    exact ⟨rfl, rfl, hs⟩
  · cases h


theorem setCell_frame (v : VM) (t : Ref) (c : Cell) : Frame v.heap (v.setCell t c).heap [t] ∧
    (v.setCell t c).stack = v.stack ∧ (v.setCell t c).memo = v.memo :=
  ⟨Frame.set _ _ _ _ (by simp), rfl, rfl⟩

theorem extend_ok {v : VM} {t items v'} (h : v.extend t items = .ok v') :
    Frame v.heap v'.heap [t] ∧ v'.heap.size = v.heap.size ∧ v'.stack = v.stack ∧ v'.memo = v.memo := by
  unfold VM.extend at h
  simp only [bind, Except.bind] at h
  split at h
  · cases h
  · rename_i c hc
    split at h
    · cases h; exact ⟨Frame.set _ _ _ _ (by simp), by simp [VM.setCell], rfl, rfl⟩
    · split at h
      · cases h; exact ⟨Frame.set _ _ _ _ (by simp), by simp [VM.setCell], rfl, rfl⟩
      · cases h
    · cases h

theorem setitems_ok {v : VM} {t kvs v'} (h : v.setitems t kvs = .ok v') :
    Frame v.heap v'.heap [t] ∧ v'.heap.size = v.heap.size ∧ v'.stack = v.stack ∧ v'.memo = v.memo := by
  unfold VM.setitems at h
  simp only [bind, Except.bind] at h
  split at h
  · cases h
  · rename_i c hc
    split at h
    · split at h
      · cases h
      · cases h; exact ⟨Frame.set _ _ _ _ (by simp), by simp [VM.setCell], rfl, rfl⟩
    · split at h
      · split at h
        · cases h
        · cases h; exact ⟨Frame.set _ _ _ _ (by simp), by simp [VM.setCell], rfl, rfl⟩
      · cases h
    · cases h


theorem Frame.set' {a b : Heap} {T} (h : Frame a b T) (t : Ref) (c : Cell) (ht : t ∈ T ∨ a.size ≤ t) :
    Frame a (b.setIfInBounds t c) T :=
  ⟨by simpa using h.1, fun i hi hT => by
    have : t ≠ i := by
      intro e; subst e
      rcases ht with ht | ht
      · exact hT ht
      · omega
    simp [this, h.2 i hi hT]⟩

theorem Frame.mono {a b : Heap} {T T'} (h : Frame a b T) (hs : ∀ x, x ∈ T → x ∈ T') : Frame a b T' :=
  ⟨h.1, fun i hi hT => h.2 i hi (fun m => hT (hs _ m))⟩

theorem instDict_frame (v : VM) (inst : Ref) (p : ObjParts) :
    Frame v.heap (v.instDict inst p).2.heap (inst :: p.state.toList) ∧
    ((v.instDict inst p).1 ∈ p.state.toList ∨ v.heap.size ≤ (v.instDict inst p).1) ∧
    (v.instDict inst p).2.stack = v.stack ∧ (v.instDict inst p).2.memo = v.memo := by
  unfold VM.instDict
  cases hp : p.state with
  | some d => simp [Frame.refl]
  | none =>
    refine ⟨?_, by simp, rfl, rfl⟩
    exact Frame.set' (Frame.push _ _ _) _ _ (by simp)

theorem updateAttrs_ok {v : VM} {inst p dc v'} (h : v.updateAttrs inst p dc = .ok v') :
    Frame v.heap v'.heap (inst :: p.state.toList) ∧ v'.stack = v.stack ∧ v'.memo = v.memo := by
  unfold VM.updateAttrs at h
  obtain ⟨hf, hd, hs, hm⟩ := instDict_frame v inst p
  split at h
  · cases h
  · cases h; exact ⟨Frame.refl _ _, rfl, rfl⟩
  · split at h
    · cases h
    · split at h
      · cases h
      · split at h
        · cases h
        · split at h
          · cases h
          · cases h
            refine ⟨?_, hs, hm⟩
            refine Frame.set' hf _ _ ?_
            rcases hd with hd | hd
            · exact Or.inl (by simp [hd])
            · exact Or.inr hd

theorem slotState_ok {v : VM} {slot v'} (h : v.slotState slot = .ok v') : v' = v := by
  unfold VM.slotState at h
  split at h
  · cases h; rfl
  · split at h
    · cases h
    · split at h
      · cases h; rfl
      · cases h

/-- the cells `BUILD` may rewrite: the instance under the state, and its attribute dict if it has one -/
def buildTargets (v : VM) : List Ref :=
  match v.stack with
  | _ :: .ref inst :: _ =>
    inst :: (match v.heap[inst]? with
      | some c => match c.objParts? with
        | some p => p.state.toList
        | none => []
      | none => [])
  | _ => []

theorem build_ok {cfg} {v v' : VM} (h : v.build cfg = .ok v') :
    Frame v.heap v'.heap (buildTargets v) ∧ v'.memo = v.memo ∧
    ∃ st inst rest, v.stack = .ref st :: .ref inst :: rest ∧ v'.stack = .ref inst :: rest := by
  unfold VM.build at h
  simp only [bind, Except.bind] at h
  split at h
  · cases h
  · rename_i x hx
    obtain ⟨st, v1⟩ := x
    obtain ⟨hs1, hh1, hm1⟩ := popRef_ok hx
    simp only at h
    split at h
    · cases h
    · rename_i inst hinst
      obtain ⟨rest, hrest⟩ := topRef_ok hinst
      split at h
      · cases h
      · rename_i ic hic
        split at h
        · cases h
        · rename_i p hp
          split at h
          · cases h
          · split at h
            · cases h
            · split at h
              · cases h
              · split at h
                · cases h
                · split at h
                  · cases h
                  · rename_i v2 hv2
                    obtain ⟨hf, hs2, hm2⟩ := updateAttrs_ok hv2
                    have := slotState_ok h
                    subst this
                    have hcell : v.heap[inst]? = some ic := by
                      unfold VM.cell at hic
                      rw [hh1] at hic
                      split at hic
                      · rename_i c hc; cases hic; exact hc
                      · cases hic
                    refine ⟨?_, by rw [hm2, hm1], st, inst, rest, by rw [hs1, hrest], by rw [hs2, hrest]⟩
                    rw [← hh1]
                    have : buildTargets v = inst :: p.state.toList := by
                      unfold buildTargets
                      rw [hs1, hrest]
                      simp [hcell, hp]
                    rw [this]
                    exact hf


/-- the one cell an opcode may rewrite (none for most opcodes; two for `BUILD`) -/
def targets (v : VM) : Op → List Ref
  | .setitem => match v.stack with | _ :: _ :: .ref t :: _ => [t] | _ => []
  | .append => match v.stack with | _ :: .ref t :: _ => [t] | _ => []
  | .setitems | .appends | .additems => match splitMark v.stack [] with | some (_, .ref t :: _) => [t] | _ => []
  | .build => buildTargets v
  | _ => []

theorem alloc_frame (v : VM) (c : Cell) (T) : Frame v.heap (v.alloc c).heap T := Frame.push _ _ _

theorem step_frame {cfg : Cfg} {v v' : VM} {op : Op} (h : v.step cfg op = .ok v') :
    Frame v.heap v'.heap (targets v op) := by
  cases op <;> simp only [VM.step, bind, Except.bind, pure, Except.pure, throw, throwThe, MonadExceptOf.throw] at h
  case proto n => split at h <;> cases h; exact Frame.refl _ _
  case frame => cases h; exact Frame.refl _ _
  case stop => cases h; exact Frame.refl _ _
  case none => cases h; exact alloc_frame _ _ _
  case newtrue => cases h; exact alloc_frame _ _ _
  case newfalse => cases h; exact alloc_frame _ _ _
  case int => cases h; exact alloc_frame _ _ _
  case float => cases h; exact alloc_frame _ _ _
  case str => cases h; exact alloc_frame _ _ _
  case bytes => cases h; exact alloc_frame _ _ _
  case memoize => split at h <;> cases h; exact Frame.refl _ _
  case get => split at h <;> cases h; exact Frame.refl _ _
  case put =>
    split at h
    · cases h
    · split at h
      · cases h; exact Frame.refl _ _
      · split at h <;> cases h; exact Frame.refl _ _
  case emptyDict => cases h; exact alloc_frame _ _ _
  case emptyList => cases h; exact alloc_frame _ _ _
  case emptyTuple => cases h; exact alloc_frame _ _ _
  case emptySet => cases h; exact alloc_frame _ _ _
  case mark => cases h; exact Frame.refl _ _
  case setitem =>
    split at h
    · cases h
    · rename_i x hx; obtain ⟨val, v1⟩ := x; obtain ⟨s1, h1, _⟩ := popRef_ok hx; simp only at h
      split at h
      · cases h
      · rename_i x hx; obtain ⟨key, v2⟩ := x; obtain ⟨s2, h2, _⟩ := popRef_ok hx; simp only at h
        split at h
        · cases h
        · rename_i t ht; obtain ⟨rest, hr⟩ := topRef_ok ht
          have := (setitems_ok h).1
          rw [h2, h1] at this
          simpa [targets, s1, s2, hr] using this
  case setitems =>
    split at h
    · cases h
    · rename_i x hx; obtain ⟨items, v1⟩ := x; obtain ⟨h1, _, s1⟩ := popMark_ok hx; simp only at h
      split at h
      · cases h
      · rename_i t ht; obtain ⟨rest, hr⟩ := topRef_ok ht
        have := (setitems_ok h).1
        rw [h1] at this
        simpa [targets, s1, hr] using this
  case append =>
    split at h
    · cases h
    · rename_i x hx; obtain ⟨val, v1⟩ := x; obtain ⟨s1, h1, _⟩ := popRef_ok hx; simp only at h
      split at h
      · cases h
      · rename_i t ht; obtain ⟨rest, hr⟩ := topRef_ok ht
        have := (extend_ok h).1
        rw [h1] at this
        simpa [targets, s1, hr] using this
  case appends =>
    split at h
    · cases h
    · rename_i x hx; obtain ⟨items, v1⟩ := x; obtain ⟨h1, _, s1⟩ := popMark_ok hx; simp only at h
      split at h
      · cases h
      · rename_i t ht; obtain ⟨rest, hr⟩ := topRef_ok ht
        have := (extend_ok h).1
        rw [h1] at this
        simpa [targets, s1, hr] using this
  case additems =>
    split at h
    · cases h
    · rename_i x hx; obtain ⟨items, v1⟩ := x; obtain ⟨h1, _, s1⟩ := popMark_ok hx; simp only at h
      split at h
      · cases h
      · rename_i t ht; obtain ⟨rest, hr⟩ := topRef_ok ht
        split at h
        · cases h
        · split at h
          · cases h
          · split at h
            · cases h
            · cases h
              have key : ∀ c, Frame v.heap (v1.setCell t c).heap [t] := by
                intro c; rw [← h1]; exact (setCell_frame v1 t c).1
              simpa [targets, s1, hr] using key _
  case frozenset =>
    split at h
    · cases h
    · rename_i x hx; obtain ⟨items, v1⟩ := x; obtain ⟨h1, _, s1⟩ := popMark_ok hx; simp only at h
      split at h
      · cases h
      · cases h; rw [← h1]; exact alloc_frame _ _ _
  case tuple =>
    split at h
    · cases h
    · rename_i x hx; obtain ⟨items, v1⟩ := x; obtain ⟨h1, _, s1⟩ := popMark_ok hx; simp only at h
      cases h; rw [← h1]; exact alloc_frame _ _ _
  case tuple1 =>
    split at h
    · cases h
    · rename_i x hx; obtain ⟨a, v1⟩ := x; obtain ⟨s1, h1, _⟩ := popRef_ok hx; simp only at h
      cases h; rw [← h1]; exact alloc_frame _ _ _
  case tuple2 =>
    split at h
    · cases h
    · rename_i x hx; obtain ⟨a, v1⟩ := x; obtain ⟨s1, h1, _⟩ := popRef_ok hx; simp only at h
      split at h
      · cases h
      · rename_i x hx; obtain ⟨b, v2⟩ := x; obtain ⟨s2, h2, _⟩ := popRef_ok hx; simp only at h
        cases h; rw [← h1, ← h2]; exact alloc_frame _ _ _
  case tuple3 =>
    split at h
    · cases h
    · rename_i x hx; obtain ⟨a, v1⟩ := x; obtain ⟨s1, h1, _⟩ := popRef_ok hx; simp only at h
      split at h
      · cases h
      · rename_i x hx; obtain ⟨b, v2⟩ := x; obtain ⟨s2, h2, _⟩ := popRef_ok hx; simp only at h
        split at h
        · cases h
        · rename_i x hx; obtain ⟨c, v3⟩ := x; obtain ⟨s3, h3, _⟩ := popRef_ok hx; simp only at h
          cases h; rw [← h1, ← h2, ← h3]; exact alloc_frame _ _ _
  case global m n =>
    cases h
    exact Frame.trans (Frame.trans (Frame.push _ _ _) (Frame.push _ _ _)) (Frame.push _ _ _)
  case stackGlobal =>
    split at h
    · cases h
    · rename_i x hx; obtain ⟨a, v1⟩ := x; obtain ⟨s1, h1, _⟩ := popRef_ok hx; simp only at h
      split at h
      · cases h
      · rename_i x hx; obtain ⟨b, v2⟩ := x; obtain ⟨s2, h2, _⟩ := popRef_ok hx; simp only at h
        split at h
        · cases h; rw [← h1, ← h2]; exact alloc_frame _ _ _
        · cases h
  case newobj =>
    split at h
    · cases h
    · rename_i x hx; obtain ⟨a, v1⟩ := x; obtain ⟨s1, h1, _⟩ := popRef_ok hx; simp only at h
      split at h
      · cases h
      · rename_i x hx; obtain ⟨b, v2⟩ := x; obtain ⟨s2, h2, _⟩ := popRef_ok hx; simp only at h
        split at h
        · cases h
        · split at h
          · cases h
          · split at h
            · cases h
            · split at h
              · cases h
              · cases h; rw [← h1, ← h2]; exact alloc_frame _ _ _
  case newobjEx =>
    split at h
    · cases h
    · rename_i x hx; obtain ⟨k, v0⟩ := x; obtain ⟨s0, h0, _⟩ := popRef_ok hx; simp only at h
      split at h
      · cases h
      · rename_i x hx; obtain ⟨a, v1⟩ := x; obtain ⟨s1, h1, _⟩ := popRef_ok hx; simp only at h
        split at h
        · cases h
        · rename_i x hx; obtain ⟨b, v2⟩ := x; obtain ⟨s2, h2, _⟩ := popRef_ok hx; simp only at h
          split at h
          · cases h
          · split at h
            · cases h
            · split at h
              · cases h
              · split at h
                · cases h
                · split at h
                  · cases h
                  · split at h
                    · cases h
                    · split at h
                      · cases h
                      · cases h; rw [← h0, ← h1, ← h2]; exact alloc_frame _ _ _
  case reduce =>
    split at h
    · cases h
    · rename_i x hx; obtain ⟨a, v1⟩ := x; obtain ⟨s1, h1, _⟩ := popRef_ok hx; simp only at h
      split at h
      · cases h
      · rename_i x hx; obtain ⟨b, v2⟩ := x; obtain ⟨s2, h2, _⟩ := popRef_ok hx; simp only at h
        split at h
        · cases h
        · split at h
          · cases h
          · split at h
            · cases h
            · split at h
              · cases h
              · cases h; rw [← h1, ← h2]; exact alloc_frame _ _ _
  case build => exact (build_ok h).1
  case pop => split at h <;> cases h; exact Frame.refl _ _
  case popMark =>
    split at h
    · cases h
    · rename_i x hx; obtain ⟨items, v1⟩ := x; obtain ⟨h1, _, s1⟩ := popMark_ok hx; simp only at h
      cases h; rw [h1]; exact Frame.refl _ _
  case dup => split at h <;> cases h; exact Frame.refl _ _

/-! ## canonical forms -/

/-! ### reachability, isomorphism of rooted heaps -/

def NonAtom (h : Heap) (x : Ref) : Prop := ∃ c, h[x]? = some c ∧ c.isAtom = false

/-- the non-atomic cells reachable from `r` through kids of non-atomic cells -/
inductive Reach (h : Heap) (r : Ref) : Ref → Prop
  | root : NonAtom h r → Reach h r r
  | step {x k : Ref} {c : Cell} : Reach h r x → h[x]? = some c → k ∈ c.kids → NonAtom h k → Reach h r k

/-- element-wise relation of two lists of the same length -/
inductive Pointwise {α β : Type} (R : α → β → Prop) : List α → List β → Prop
  | nil : Pointwise R [] []
  | cons {a : α} {b : β} {as : List α} {bs : List β} : R a b → Pointwise R as bs → Pointwise R (a :: as) (b :: bs)

/-- two references denote "the same thing" under `R`: equal atoms (by value), or `R`-related cells -/
def RelRef (h h' : Heap) (R : Ref → Ref → Prop) (k k' : Ref) : Prop :=
  (∃ c c', h[k]? = some c ∧ h'[k']? = some c' ∧ c.isAtom = true ∧ c'.isAtom = true ∧ c.tag = c'.tag) ∨ R k k'

/-- `R` is an isomorphism between the part of `h` reachable from `r` and the part of `h'` reachable from `r'` -/
structure Iso (h : Heap) (r : Ref) (h' : Heap) (r' : Ref) (R : Ref → Ref → Prop) : Prop where
  root : RelRef h h' R r r'
  dom : ∀ x y, R x y → Reach h r x ∧ Reach h' r' y
  left_total : ∀ x, Reach h r x → ∃ y, R x y
  right_total : ∀ y, Reach h' r' y → ∃ x, R x y
  functional : ∀ x y y', R x y → R x y' → y = y'
  injective : ∀ x x' y, R x y → R x' y → x = x'
  cells : ∀ x y, R x y → ∃ c c', h[x]? = some c ∧ h'[y]? = some c' ∧ c.tag = c'.tag ∧
            Pointwise (RelRef h h' R) c.kids c'.kids

/-! ### `visit` -/

theorem visit_inv {h : Heap} {r : Ref} : ∀ (fuel : Nat) (todo seen o : List Ref), visit h fuel todo seen = some o →
    seen.Nodup → (∀ x ∈ seen, Reach h r x) → (∀ x ∈ todo, NonAtom h x → Reach h r x) →
    o.Nodup ∧ (∀ x ∈ o, Reach h r x) := by
  intro fuel
  induction fuel with
  | zero => intro todo seen o hv; simp [visit] at hv
  | succ fuel ih =>
    intro todo seen o hv hnd hseen htodo
    cases todo with
    | nil => simp [visit] at hv; subst hv; exact ⟨hnd, hseen⟩
    | cons x todo =>
      simp only [visit] at hv
      split at hv
      · cases hv
      · rename_i c hc
        split at hv
        · exact ih todo seen o hv hnd hseen (fun y hy => htodo y (List.mem_cons_of_mem _ hy))
        · rename_i hcond
          simp only [Bool.or_eq_true, not_or, Bool.not_eq_true] at hcond
          have hx : Reach h r x := htodo x (List.mem_cons_self) ⟨c, hc, hcond.1⟩
          have hns : x ∉ seen := by
            intro hm
            have := hcond.2
            simp [hm] at this
          refine ih (c.kids ++ todo) (seen ++ [x]) o hv ?_ ?_ ?_
          · rw [List.nodup_append]
            refine ⟨hnd, by simp, ?_⟩
            intro a ha b hb
            simp at hb; subst hb
            intro e; subst e; exact hns ha
          · intro y hy
            rcases List.mem_append.mp hy with hy | hy
            · exact hseen y hy
            · simp at hy; subst hy; exact hx
          · intro y hy hna
            rcases List.mem_append.mp hy with hy | hy
            · exact Reach.step hx hc hy hna
            · exact htodo y (List.mem_cons_of_mem _ hy) hna

theorem reach_sound {h : Heap} {r : Ref} {o : List Ref} (ho : reach h r = some o) :
    o.Nodup ∧ ∀ x ∈ o, Reach h r x := by
  unfold reach at ho
  refine visit_inv _ _ _ _ ho List.nodup_nil (by simp) ?_
  intro x hx hna
  simp at hx; subst hx
  exact Reach.root hna

/-! ### small list facts -/

theorem indexOf?_some {x : Ref} : ∀ {l : List Ref} {i : Nat}, indexOf? x l = some i → l[i]? = some x := by
  intro l
  induction l with
  | nil => intro i h; simp [indexOf?] at h
  | cons y ys ih =>
    intro i h
    simp only [indexOf?] at h
    split at h
    · rename_i e; cases h; simp [e]
    · cases hq : indexOf? x ys with
      | none => simp [hq] at h
      | some j =>
        simp [hq] at h; subst h
        simpa using ih hq

theorem nodup_index_unique : ∀ {l : List Ref} {i j : Nat} {x : Ref}, l.Nodup → l[i]? = some x → l[j]? = some x → i = j := by
  intro l
  induction l with
  | nil => intro i j x _ h; simp at h
  | cons y ys ih =>
    intro i j x hnd hi hj
    rw [List.nodup_cons] at hnd
    cases i with
    | zero =>
      cases j with
      | zero => rfl
      | succ j =>
        simp at hi hj; subst hi
        exact absurd (List.mem_of_getElem? hj) hnd.1
    | succ i =>
      cases j with
      | zero =>
        simp at hi hj; subst hj
        exact absurd (List.mem_of_getElem? hi) hnd.1
      | succ j =>
        simp at hi hj
        rw [ih hnd.2 hi hj]

theorem mapOpt_length {α β : Type} {f : α → Option β} : ∀ {l : List α} {ys : List β}, mapOpt f l = some ys → ys.length = l.length := by
  intro l
  induction l with
  | nil => intro ys h; simp [mapOpt] at h; subst h; rfl
  | cons x xs ih =>
    intro ys h
    simp only [mapOpt] at h
    split at h
    · rename_i y ys' hy hys; cases h; simp [ih hys]
    · cases h

theorem mapOpt_get {α β : Type} {f : α → Option β} : ∀ {l : List α} {ys : List β}, mapOpt f l = some ys →
    ∀ {i : Nat} {x : α}, l[i]? = some x → ∃ y, ys[i]? = some y ∧ f x = some y := by
  intro l
  induction l with
  | nil => intro ys _ i x hx; simp at hx
  | cons a xs ih =>
    intro ys h i x hx
    simp only [mapOpt] at h
    split at h
    · rename_i y ys' hy hys
      cases h
      cases i with
      | zero => simp at hx; subst hx; exact ⟨y, by simp, hy⟩
      | succ i => simp at hx; simpa using ih hys hx
    · cases h

theorem mapOpt_forall2 {α α' β : Type} {f : α → Option β} {g : α' → Option β} :
    ∀ {l : List α} {l' : List α'} {ys : List β}, mapOpt f l = some ys → mapOpt g l' = some ys →
    Pointwise (fun a b => ∃ y, f a = some y ∧ g b = some y) l l' := by
  intro l
  induction l with
  | nil =>
    intro l' ys h h'
    simp [mapOpt] at h; subst h
    cases l' with
    | nil => exact Pointwise.nil
    | cons b bs =>
      simp only [mapOpt] at h'
      split at h' <;> cases h'
  | cons a xs ih =>
    intro l' ys h h'
    simp only [mapOpt] at h
    split at h
    · rename_i y ys' hy hys
      cases h
      cases l' with
      | nil => simp [mapOpt] at h'
      | cons b bs =>
        simp only [mapOpt] at h'
        split at h'
        · rename_i y2 ys2 hy2 hys2
          cases h'
          exact Pointwise.cons ⟨y, hy, hy2⟩ (ih hys hys2)
        · cases h'
    · cases h


/-! ### the canonical form determines the reachable part up to isomorphism -/

theorem canon_some {h : Heap} {r : Ref} {c : Canon} (hc : canon h r = some c) :
    ∃ o, reach h r = some o ∧ rename h o r = some c.root ∧ mapOpt (canonCell h o) o = some c.cells := by
  unfold canon at hc
  split at hc
  · cases hc
  · rename_i o ho
    split at hc
    · rename_i root cells h1 h2
      cases hc
      exact ⟨o, ho, h1, h2⟩
    · cases hc

theorem rename_atom {h : Heap} {o : List Ref} {k : Ref} {t : Tag} (hr : rename h o k = some (.atom t)) :
    ∃ c, h[k]? = some c ∧ c.isAtom = true ∧ c.tag = t := by
  unfold rename at hr
  split at hr
  · cases hr
  · rename_i c hc
    split at hr
    · rename_i ha; cases hr; exact ⟨c, hc, ha, rfl⟩
    · cases hq : indexOf? k o with
      | none => simp [hq] at hr
      | some j => simp [hq] at hr

theorem rename_idx {h : Heap} {o : List Ref} {k : Ref} {i : Nat} (hr : rename h o k = some (.idx i)) :
    NonAtom h k ∧ o[i]? = some k := by
  unfold rename at hr
  split at hr
  · cases hr
  · rename_i c hc
    split at hr
    · cases hr
    · rename_i ha
      cases hq : indexOf? k o with
      | none => simp [hq] at hr
      | some j =>
        simp [hq] at hr; subst hr
        exact ⟨⟨c, hc, by simpa using ha⟩, indexOf?_some hq⟩

theorem rename_nonatom {h : Heap} {o : List Ref} {k : Ref} {cr : CRef} (hr : rename h o k = some cr) (hna : NonAtom h k) :
    ∃ i, cr = .idx i ∧ o[i]? = some k := by
  cases cr with
  | atom t =>
    obtain ⟨c, hc, ha, _⟩ := rename_atom hr
    obtain ⟨c', hc', hna'⟩ := hna
    rw [hc] at hc'; cases hc'
    rw [ha] at hna'; cases hna'
  | idx i => exact ⟨i, rfl, (rename_idx hr).2⟩

theorem canonCell_some {h : Heap} {o : List Ref} {x : Ref} {t : Tag} {ks : List CRef}
    (hx : canonCell h o x = some (t, ks)) : ∃ c, h[x]? = some c ∧ c.tag = t ∧ mapOpt (rename h o) c.kids = some ks := by
  unfold canonCell at hx
  split at hx
  · cases hx
  · rename_i c hc
    cases hm : mapOpt (rename h o) c.kids with
    | none => simp [hm] at hx
    | some ks' =>
      simp [hm] at hx
      exact ⟨c, hc, hx.1, by rw [← hx.2]; exact hm⟩

/-- the order list contains every reachable non-atomic cell -/
theorem reach_complete {h : Heap} {r : Ref} {o : List Ref} {root : CRef} {cells : List (Tag × List CRef)}
    (hroot : rename h o r = some root) (hcells : mapOpt (canonCell h o) o = some cells) :
    ∀ x, Reach h r x → x ∈ o := by
  intro x hx
  induction hx with
  | root hna =>
    obtain ⟨i, _, hi⟩ := rename_nonatom hroot hna
    exact List.mem_of_getElem? hi
  | step hxr hc hk hna ih =>
    rename_i x k c
    obtain ⟨i, hi⟩ := List.getElem?_of_mem ih
    obtain ⟨⟨t, ks⟩, _, hcc⟩ := mapOpt_get hcells hi
    obtain ⟨c', hc', _, hks⟩ := canonCell_some hcc
    rw [hc] at hc'; cases hc'
    obtain ⟨j, hj⟩ := List.getElem?_of_mem hk
    obtain ⟨cr, _, hcr⟩ := mapOpt_get hks hj
    obtain ⟨i', _, hi'⟩ := rename_nonatom hcr hna
    exact List.mem_of_getElem? hi'

theorem relRef_of_rename {h h' : Heap} {o o' : List Ref} {k k' : Ref} {cr : CRef}
    (h1 : rename h o k = some cr) (h2 : rename h' o' k' = some cr) :
    RelRef h h' (fun x y => ∃ i : Nat, o[i]? = some x ∧ o'[i]? = some y) k k' := by
  cases cr with
  | atom t =>
    obtain ⟨c, hc, ha, ht⟩ := rename_atom h1
    obtain ⟨c', hc', ha', ht'⟩ := rename_atom h2
    exact Or.inl ⟨c, c', hc, hc', ha, ha', by rw [ht, ht']⟩
  | idx i => exact Or.inr ⟨i, (rename_idx h1).2, (rename_idx h2).2⟩

/-- **T1.**  Equal canonical forms ⇒ the reachable parts are isomorphic. -/
theorem canon_iso {h h' : Heap} {r r' : Ref} {c : Canon} (hc : canon h r = some c) (hc' : canon h' r' = some c) :
    ∃ R, Iso h r h' r' R := by
  obtain ⟨o, ho, hroot, hcells⟩ := canon_some hc
  obtain ⟨o', ho', hroot', hcells'⟩ := canon_some hc'
  obtain ⟨hnd, hsound⟩ := reach_sound ho
  obtain ⟨hnd', hsound'⟩ := reach_sound ho'
  have hlen : o.length = o'.length := by rw [← mapOpt_length hcells, ← mapOpt_length hcells']
  refine ⟨fun x y => ∃ i : Nat, o[i]? = some x ∧ o'[i]? = some y, ?_⟩
  refine ⟨relRef_of_rename hroot hroot', ?_, ?_, ?_, ?_, ?_, ?_⟩
  · rintro x y ⟨i, hi, hi'⟩
    exact ⟨hsound x (List.mem_of_getElem? hi), hsound' y (List.mem_of_getElem? hi')⟩
  · intro x hx
    obtain ⟨i, hi⟩ := List.getElem?_of_mem (reach_complete hroot hcells x hx)
    have hlt : i < o'.length := by
      rw [← hlen]; exact (List.getElem?_eq_some_iff.mp hi).1
    exact ⟨o'[i], i, hi, by simp [hlt]⟩
  · intro y hy
    obtain ⟨i, hi⟩ := List.getElem?_of_mem (reach_complete hroot' hcells' y hy)
    have hlt : i < o.length := by
      rw [hlen]; exact (List.getElem?_eq_some_iff.mp hi).1
    exact ⟨o[i], i, by simp [hlt], hi⟩
  · rintro x y y' ⟨i, hi, hi'⟩ ⟨j, hj, hj'⟩
    have := nodup_index_unique hnd hi hj
    subst this
    rw [hi'] at hj'; cases hj'; rfl
  · rintro x x' y ⟨i, hi, hi'⟩ ⟨j, hj, hj'⟩
    have := nodup_index_unique hnd' hi' hj'
    subst this
    rw [hi] at hj; cases hj; rfl
  · rintro x y ⟨i, hi, hi'⟩
    obtain ⟨⟨t, ks⟩, hci, hcc⟩ := mapOpt_get hcells hi
    obtain ⟨⟨t', ks'⟩, hci', hcc'⟩ := mapOpt_get hcells' hi'
    rw [hci] at hci'; cases hci'
    obtain ⟨cx, hcx, htx, hkx⟩ := canonCell_some hcc
    obtain ⟨cy, hcy, hty, hky⟩ := canonCell_some hcc'
    refine ⟨cx, cy, hcx, hcy, by rw [htx, hty], ?_⟩
    have := mapOpt_forall2 hkx hky
    clear hkx hky
    generalize cx.kids = l1 at this
    generalize cy.kids = l2 at this
    induction this with
    | nil => exact Pointwise.nil
    | cons hab _ ih =>
      obtain ⟨cr, h1, h2⟩ := hab
      exact Pointwise.cons (relRef_of_rename h1 h2) ih

/-! ## the round trip: evaluated check, and the fragments proved for every heap -/

theorem visitFuel_ge (h : Heap) : 2 ≤ visitFuel h := by
  unfold visitFuel
  exact Nat.le_add_right _ _

/-- the statement of the round trip for one rooted heap -/
def Roundtrip (h : Heap) (r : Ref) : Prop :=
  ∃ ops h' r' c, dump h r = .ok ops ∧ run ops = .ok (h', r') ∧ canon h r = some c ∧ canon h' r' = some c

theorem roundtripB_iff (h : Heap) (r : Ref) : roundtripB h r = true ↔ Roundtrip h r := by
  unfold roundtripB Roundtrip
  constructor
  · intro hb
    split at hb
    · cases hb
    · rename_i ops hd
      split at hb
      · cases hb
      · rename_i h' r' hr
        split at hb
        · rename_i c c' hc hc'
          have : c = c' := by simpa using hb
          subst this
          exact ⟨ops, h', r', c, hd, hr, hc, hc'⟩
        · cases hb
  · rintro ⟨ops, h', r', c, hd, hr, hc, hc'⟩
    simp [hd, hr, hc, hc']

theorem canon_atom {h : Heap} {r : Ref} {c : Cell} (hc : h[r]? = some c) (ha : c.isAtom = true) :
    canon h r = some ⟨.atom c.tag, []⟩ := by
  have hf := visitFuel_ge h
  obtain ⟨n, hn⟩ : ∃ n, visitFuel h = n + 2 := ⟨visitFuel h - 2, by omega⟩
  simp [canon, reach, hn, visit, hc, ha, rename, mapOpt]

theorem canon_leaf {h : Heap} {r : Ref} {t : Tag} (hc : h[r]? = some ⟨t, []⟩) (ha : (Cell.mk t []).isAtom = false) :
    canon h r = some ⟨.idx 0, [(t, [])]⟩ := by
  have hf := visitFuel_ge h
  obtain ⟨n, hn⟩ : ∃ n, visitFuel h = n + 2 := ⟨visitFuel h - 2, by omega⟩
  simp [canon, reach, hn, visit, hc, ha, rename, mapOpt, indexOf?, canonCell]


/-- round trip of an atomic root (`None`, a bool, an int, a float, the empty tuple), in any heap -/
theorem roundtrip_atom {h : Heap} {r : Ref} {c : Cell} (hc : h[r]? = some c) (ha : c.isAtom = true) : Roundtrip h r := by
  obtain ⟨t, ks⟩ := c
  have hcan := canon_atom hc ha
  cases t <;> simp [Cell.isAtom] at ha
  case none =>
    refine ⟨[.none, .stop], #[⟨.none, []⟩], 0, _, ?_, ?_, hcan, canon_atom (c := ⟨.none, []⟩) (by simp) rfl⟩
    · simp [dump, dumpWith, dumpFuel, save, hc, atomOp?, bind, Except.bind, pure, Except.pure]
    · simp [run, runWith, runOps, VM.step, VM.alloc, VM.topRef, bind, Except.bind, pure, Except.pure]
  case bool b =>
    cases b
    · refine ⟨[.newfalse, .stop], #[⟨.bool false, []⟩], 0, _, ?_, ?_, hcan, canon_atom (c := ⟨.bool false, []⟩) (by simp) rfl⟩
      · simp [dump, dumpWith, dumpFuel, save, hc, atomOp?, bind, Except.bind, pure, Except.pure]
      · simp [run, runWith, runOps, VM.step, VM.alloc, VM.topRef, bind, Except.bind, pure, Except.pure]
    · refine ⟨[.newtrue, .stop], #[⟨.bool true, []⟩], 0, _, ?_, ?_, hcan, canon_atom (c := ⟨.bool true, []⟩) (by simp) rfl⟩
      · simp [dump, dumpWith, dumpFuel, save, hc, atomOp?, bind, Except.bind, pure, Except.pure]
      · simp [run, runWith, runOps, VM.step, VM.alloc, VM.topRef, bind, Except.bind, pure, Except.pure]
  case int z =>
    refine ⟨[.int z, .stop], #[⟨.int z, []⟩], 0, _, ?_, ?_, hcan, canon_atom (c := ⟨.int z, []⟩) (by simp) rfl⟩
    · simp [dump, dumpWith, dumpFuel, save, hc, atomOp?, bind, Except.bind, pure, Except.pure]
    · simp [run, runWith, runOps, VM.step, VM.alloc, VM.topRef, bind, Except.bind, pure, Except.pure]
  case float b =>
    refine ⟨[.float b, .stop], #[⟨.float b, []⟩], 0, _, ?_, ?_, hcan, canon_atom (c := ⟨.float b, []⟩) (by simp) rfl⟩
    · simp [dump, dumpWith, dumpFuel, save, hc, atomOp?, bind, Except.bind, pure, Except.pure]
    · simp [run, runWith, runOps, VM.step, VM.alloc, VM.topRef, bind, Except.bind, pure, Except.pure]
  case tuple =>
    subst ha
    refine ⟨[.emptyTuple, .stop], #[⟨.tuple, []⟩], 0, _, ?_, ?_, hcan, canon_atom (c := ⟨.tuple, []⟩) (by simp) rfl⟩
    · simp [dump, dumpWith, dumpFuel, save, hc, atomOp?, bind, Except.bind, pure, Except.pure]
    · simp [run, runWith, runOps, VM.step, VM.alloc, VM.topRef, bind, Except.bind, pure, Except.pure]

/-- round trip of a string root, in any heap -/
theorem roundtrip_str {h : Heap} {r : Ref} {s : String} (hc : h[r]? = some ⟨.str s, []⟩) : Roundtrip h r := by
  refine ⟨[.str s, .memoize, .stop], #[⟨.str s, []⟩], 0, _, ?_, ?_, canon_leaf hc rfl, canon_leaf (by simp) rfl⟩
  · simp [dump, dumpWith, dumpFuel, save, hc, atomOp?, memoIdx, indexOf?, bind, Except.bind, pure, Except.pure]
  · simp [run, runWith, runOps, VM.step, VM.alloc, VM.topRef, bind, Except.bind, pure, Except.pure]

/-- round trip of a bytes root, in any heap -/
theorem roundtrip_bytes {h : Heap} {r : Ref} {s : String} (hc : h[r]? = some ⟨.bytes s, []⟩) : Roundtrip h r := by
  refine ⟨[.bytes s, .memoize, .stop], #[⟨.bytes s, []⟩], 0, _, ?_, ?_, canon_leaf hc rfl, canon_leaf (by simp) rfl⟩
  · simp [dump, dumpWith, dumpFuel, save, hc, atomOp?, memoIdx, indexOf?, bind, Except.bind, pure, Except.pure]
  · simp [run, runWith, runOps, VM.step, VM.alloc, VM.topRef, bind, Except.bind, pure, Except.pure]

/-! ### enough fuel -/

theorem sum_filter_remove (w : Nat → Nat) (p : Nat → Bool) (x : Nat) (hp : p x = true) :
    ∀ l : List Nat, l.Nodup → x ∈ l →
      ((l.filter (fun i => p i && i != x)).map w).sum + w x = ((l.filter p).map w).sum := by
  intro l
  induction l with
  | nil => intro _ hx; cases hx
  | cons a l ih =>
    intro hnd hx
    rw [List.nodup_cons] at hnd
    by_cases hax : a = x
    · subst hax
      have hcongr : l.filter (fun i => p i && i != a) = l.filter p := by
        apply List.filter_congr
        intro i hi
        have : i ≠ a := fun e => hnd.1 (e ▸ hi)
        simp [this]
      simp [hp, hcongr, Nat.add_comm]
    · have hxl : x ∈ l := by
        rcases List.mem_cons.mp hx with e | e
        · exact absurd e.symm hax
        · exact e
      have := ih hnd.2 hxl
      by_cases hpa : p a = true
      · simp [hpa, hax]
        omega
      · simp [hpa]
        simpa using this

/-- kids of the cells not yet visited -/
def restKids (h : Heap) (seen : List Ref) : Nat :=
  (((List.range h.size).filter (fun i => !seen.contains i)).map (kidsLen h)).sum

theorem restKids_snoc {h : Heap} {seen : List Ref} {x : Ref} {c : Cell} (hc : h[x]? = some c) (hx : seen.contains x = false) :
    restKids h (seen ++ [x]) + c.kids.length = restKids h seen := by
  have hlt : x < h.size := by
    rcases Nat.lt_or_ge x h.size with hl | hl
    · exact hl
    · simp [Array.getElem?_eq_none hl] at hc
  have hk : kidsLen h x = c.kids.length := by simp [kidsLen, hc]
  unfold restKids
  have hcongr : (List.range h.size).filter (fun i => !(seen ++ [x]).contains i) =
      (List.range h.size).filter (fun i => (fun i => !seen.contains i) i && i != x) := by
    apply List.filter_congr
    intro i _
    by_cases e : i = x <;> simp [e]
  rw [hcongr, ← hk]
  exact sum_filter_remove (kidsLen h) (fun i => !seen.contains i) x (by simpa using hx) _ List.nodup_range
    (List.mem_range.mpr hlt)

/-- a successful walk succeeds, with the same result, with any fuel above the potential -/
theorem visit_fuel {h : Heap} : ∀ (f : Nat) (todo seen o : List Ref), visit h f todo seen = some o →
    ∀ f2, todo.length + restKids h seen + 1 ≤ f2 → visit h f2 todo seen = some o := by
  intro f
  induction f with
  | zero => intro todo seen o hv; simp [visit] at hv
  | succ f ih =>
    intro todo seen o hv f2 hf2
    obtain ⟨n, rfl⟩ : ∃ n, f2 = n + 1 := ⟨f2 - 1, by omega⟩
    cases todo with
    | nil => simp [visit] at hv ⊢; exact hv
    | cons x todo =>
      simp only [visit] at hv ⊢
      split at hv
      · cases hv
      · rename_i c hc
        split at hv
        · rename_i hcond
          simp only [hcond, if_true]
          exact ih todo seen o hv n (by simp at hf2; omega)
        · rename_i hcond
          simp only [hcond]
          simp only [Bool.or_eq_true, not_or, Bool.not_eq_true] at hcond
          have := restKids_snoc hc hcond.2
          refine ih _ _ o hv n ?_
          simp at hf2 ⊢
          omega

theorem restKids_nil_le (h : Heap) : restKids h [] + 2 = visitFuel h := by
  have : (List.range h.size).filter (fun i => !([] : List Ref).contains i) = List.range h.size := by
    rw [List.filter_eq_self]; intro a _; simp
  unfold restKids visitFuel
  rw [this, Nat.add_comm]

theorem reach_of_visit {h : Heap} {r : Ref} {f : Nat} {o : List Ref} (hv : visit h f [r] [] = some o) :
    reach h r = some o := by
  unfold reach
  refine visit_fuel f _ _ o hv _ ?_
  have := restKids_nil_le h
  simp; omega


/-! ### isomorphic rooted heaps have the same canonical form (converse of `canon_iso`) -/

theorem reach_nonAtom {h : Heap} {r x : Ref} (hx : Reach h r x) : NonAtom h x := by
  cases hx <;> assumption

theorem Pointwise.append {α β : Type} {R : α → β → Prop} {a1 a2 : List α} {b1 b2 : List β}
    (h1 : Pointwise R a1 b1) (h2 : Pointwise R a2 b2) : Pointwise R (a1 ++ a2) (b1 ++ b2) := by
  induction h1 with
  | nil => exact h2
  | cons hab _ ih => exact Pointwise.cons hab ih

theorem Pointwise.mem_iff {R : Ref → Ref → Prop} (hf : ∀ x y y', R x y → R x y' → y = y')
    (hi : ∀ x x' y, R x y → R x' y → x = x') {l l' : List Ref} (hp : Pointwise R l l') {x x' : Ref} (hx : R x x') :
    x ∈ l ↔ x' ∈ l' := by
  induction hp with
  | nil => simp
  | cons hab htl ih =>
    rename_i a b as bs
    constructor
    · intro hm
      rcases List.mem_cons.mp hm with e | e
      · subst e; rw [hf _ _ _ hx hab]; exact List.mem_cons_self
      · exact List.mem_cons_of_mem _ (ih.mp e)
    · intro hm
      rcases List.mem_cons.mp hm with e | e
      · subst e; rw [hi _ _ _ hx hab]; exact List.mem_cons_self
      · exact List.mem_cons_of_mem _ (ih.mpr e)

theorem visit_iso {h h' : Heap} {r r' : Ref} {R : Ref → Ref → Prop} (iso : Iso h r h' r' R) :
    ∀ (f : Nat) (todo todo' seen seen' o : List Ref), Pointwise (RelRef h h' R) todo todo' → Pointwise R seen seen' →
      visit h f todo seen = some o → ∃ o', visit h' f todo' seen' = some o' ∧ Pointwise R o o' := by
  intro f
  induction f with
  | zero => intro todo todo' seen seen' o _ _ hv; simp [visit] at hv
  | succ f ih =>
    intro todo todo' seen seen' o ht hs hv
    cases ht with
    | nil => simp [visit] at hv ⊢; subst hv; exact hs
    | cons hrel htl =>
      rename_i x x' t t'
      simp only [visit] at hv ⊢
      split at hv
      · cases hv
      · rename_i c hc
        rcases hrel with ⟨c0, c0', h0, h0', ha, ha', _⟩ | hR
        · rw [hc] at h0; cases h0
          simp only [h0', ha, ha', Bool.true_or, if_true] at hv ⊢
          exact ih _ _ _ _ o htl hs hv
        · obtain ⟨cx, cy, hcx, hcy, _, hkids⟩ := iso.cells x x' hR
          rw [hc] at hcx; cases hcx
          obtain ⟨hrx, hry⟩ := iso.dom x x' hR
          obtain ⟨c1, hc1, hna⟩ := reach_nonAtom hrx
          rw [hc] at hc1; cases hc1
          obtain ⟨c2, hc2, hna'⟩ := reach_nonAtom hry
          rw [hcy] at hc2; cases hc2
          have hcont : seen.contains x = seen'.contains x' := by
            have := Pointwise.mem_iff iso.functional iso.injective hs hR
            by_cases hm : x ∈ seen
            · simp [hm, this.mp hm]
            · have hm' : x' ∉ seen' := fun e => hm (this.mpr e)
              simp [hm, hm']
          simp only [hcy, hna, hna', Bool.false_or, hcont] at hv ⊢
          split at hv
          · rename_i hcond
            simp only [hcond, if_true]
            exact ih _ _ _ _ o htl hs hv
          · rename_i hcond
            simp only [hcond]
            exact ih _ _ _ _ o (Pointwise.append hkids htl)
              (Pointwise.append hs (Pointwise.cons hR Pointwise.nil)) hv

theorem indexOf?_rel {R : Ref → Ref → Prop} (hf : ∀ x y y', R x y → R x y' → y = y')
    (hi : ∀ x x' y, R x y → R x' y → x = x') {o o' : List Ref} (hp : Pointwise R o o') {k k' : Ref} (hk : R k k') :
    indexOf? k o = indexOf? k' o' := by
  induction hp with
  | nil => rfl
  | cons hab htl ih =>
    rename_i a b as bs
    simp only [indexOf?]
    by_cases e : a = k
    · subst e
      have : b = k' := hf _ _ _ hab hk
      simp [this]
    · have : b ≠ k' := fun e' => e (hi _ _ _ hab (e' ▸ hk))
      simp [e, this, ih]

theorem rename_rel {h h' : Heap} {r r' : Ref} {R : Ref → Ref → Prop} (iso : Iso h r h' r' R) {o o' : List Ref}
    (hp : Pointwise R o o') {k k' : Ref} (hk : RelRef h h' R k k') : rename h o k = rename h' o' k' := by
  rcases hk with ⟨c, c', hc, hc', ha, ha', ht⟩ | hR
  · simp [rename, hc, hc', ha, ha', ht]
  · obtain ⟨hrx, hry⟩ := iso.dom k k' hR
    obtain ⟨c1, hc1, hna⟩ := reach_nonAtom hrx
    obtain ⟨c2, hc2, hna'⟩ := reach_nonAtom hry
    simp [rename, hc1, hc2, hna, hna', indexOf?_rel iso.functional iso.injective hp hR]

theorem mapOpt_pointwise {α α' β : Type} {f : α → Option β} {g : α' → Option β} {l : List α} {l' : List α'}
    (hp : Pointwise (fun a b => f a = g b) l l') : mapOpt f l = mapOpt g l' := by
  induction hp with
  | nil => rfl
  | cons hab _ ih => simp only [mapOpt, hab, ih]

theorem Pointwise.imp {α β : Type} {R S : α → β → Prop} (hRS : ∀ a b, R a b → S a b) {l : List α} {l' : List β}
    (hp : Pointwise R l l') : Pointwise S l l' := by
  induction hp with
  | nil => exact Pointwise.nil
  | cons hab _ ih => exact Pointwise.cons (hRS _ _ hab) ih

theorem canonCell_rel {h h' : Heap} {r r' : Ref} {R : Ref → Ref → Prop} (iso : Iso h r h' r' R) {o o' : List Ref}
    (hp : Pointwise R o o') {x x' : Ref} (hx : R x x') : canonCell h o x = canonCell h' o' x' := by
  obtain ⟨cx, cy, hcx, hcy, htag, hkids⟩ := iso.cells x x' hx
  simp only [canonCell, hcx, hcy, htag]
  have := mapOpt_pointwise (f := rename h o) (g := rename h' o')
    (Pointwise.imp (fun a b hab => rename_rel iso hp hab) hkids)
  rw [this]

/-- **converse of T1.**  Isomorphic rooted heaps have the same canonical form (when the first has one). -/
theorem iso_canon {h h' : Heap} {r r' : Ref} {R : Ref → Ref → Prop} (iso : Iso h r h' r' R) {c : Canon}
    (hc : canon h r = some c) : canon h' r' = some c := by
  obtain ⟨o, ho, hroot, hcells⟩ := canon_some hc
  obtain ⟨o', hv', hoo⟩ := visit_iso iso _ [r] [r'] [] [] o (Pointwise.cons iso.root Pointwise.nil) Pointwise.nil ho
  have ho' := reach_of_visit hv'
  have h1 : rename h' o' r' = some c.root := by rw [← rename_rel iso hoo iso.root]; exact hroot
  have h2 : mapOpt (canonCell h' o') o' = some c.cells := by
    have := mapOpt_pointwise (f := canonCell h o) (g := canonCell h' o')
      (Pointwise.imp (fun a b hab => canonCell_rel iso hoo hab) hoo)
    rw [← this]; exact hcells
  simp [canon, ho', h1, h2]


/-! ## the simulation between the pickler and the unpickler -/

section
variable (h : Heap)

/-- old reference `k` and new reference `k'` denote the same thing: equal atoms, or the same memo index -/
def Rel (m : PMemo) (H : Heap) (M : Array Ref) (k k' : Ref) : Prop :=
  (∃ c c', h[k]? = some c ∧ H[k']? = some c' ∧ c.isAtom = true ∧ c'.isAtom = true ∧ c.tag = c'.tag) ∨
  (∃ i : Nat, m[i]? = some k ∧ M[i]? = some k')

/-- the new cell has the old cell's tag and related kids -/
def Complete (m : PMemo) (H : Heap) (M : Array Ref) (x y : Ref) : Prop :=
  ∃ c c', h[x]? = some c ∧ H[y]? = some c' ∧ c'.tag = c.tag ∧ Pointwise (Rel h m H M) c.kids c'.kids

def opens : Tag → Bool
  | .list | .dict | .obj .. => true
  | _ => false

structure Sim (m : PMemo) (H : Heap) (M : Array Ref) (O : List Ref) : Prop where
  len : m.length = M.size
  nodup : m.Nodup
  inj : ∀ (i j : Nat) (y : Ref), M[i]? = some y → M[j]? = some y → i = j
  nonatom : ∀ x, x ∈ m → NonAtom h x
  nonatom' : ∀ (i : Nat) (y : Ref), M[i]? = some y → ∃ c', H[y]? = some c' ∧ c'.isAtom = false
  complete : ∀ (i : Nat) (x y : Ref), m[i]? = some x → M[i]? = some y → x ∉ O → Complete h m H M x y
  openKind : ∀ x, x ∈ O → ∃ c, h[x]? = some c ∧ opens c.tag = true

/-- memo prefix -/
def MPre (m m' : PMemo) : Prop := ∀ (i : Nat) (z : Ref), m[i]? = some z → m'[i]? = some z

structure Ext (H : Heap) (M : Array Ref) (H' : Heap) (M' : Array Ref) : Prop where
  size : H.size ≤ H'.size
  memo : ∀ (i : Nat) (y : Ref), M[i]? = some y → M'[i]? = some y
  atoms : ∀ (k : Nat) (c : Cell), H[k]? = some c → c.isAtom = true → H'[k]? = some c

theorem MPre.refl (m : PMemo) : MPre m m := fun _ _ h => h
theorem MPre.trans {a b c : PMemo} (h1 : MPre a b) (h2 : MPre b c) : MPre a c := fun i z h => h2 i z (h1 i z h)
theorem MPre.append (m t : PMemo) : MPre m (m ++ t) := fun i z hz => by
  have hl : i < m.length := (List.getElem?_eq_some_iff.mp hz).1
  rw [List.getElem?_append_left hl]; exact hz

theorem Ext.refl (H : Heap) (M : Array Ref) : Ext H M H M := ⟨Nat.le_refl _, fun _ _ h => h, fun _ _ h _ => h⟩
theorem Ext.trans {H1 H2 H3 : Heap} {M1 M2 M3 : Array Ref} (a : Ext H1 M1 H2 M2) (b : Ext H2 M2 H3 M3) : Ext H1 M1 H3 M3 :=
  ⟨Nat.le_trans a.size b.size, fun i y h => b.memo i y (a.memo i y h), fun k c h ha => b.atoms k c (a.atoms k c h ha) ha⟩

variable {h}

theorem Rel.mono {m m' : PMemo} {H H' : Heap} {M M' : Array Ref} {k k' : Ref} (hr : Rel h m H M k k')
    (hm : MPre m m') (he : Ext H M H' M') : Rel h m' H' M' k k' := by
  rcases hr with ⟨c, c', hc, hc', ha, ha', ht⟩ | ⟨i, hi, hi'⟩
  · exact Or.inl ⟨c, c', hc, he.atoms _ _ hc' ha', ha, ha', ht⟩
  · exact Or.inr ⟨i, hm i k hi, he.memo i k' hi'⟩

theorem Complete.mono {m m' : PMemo} {H H' : Heap} {M M' : Array Ref} {x y : Ref} (hc : Complete h m H M x y)
    (hm : MPre m m') (he : Ext H M H' M') (hy : H'[y]? = H[y]?) : Complete h m' H' M' x y := by
  obtain ⟨c, c', h1, h2, h3, h4⟩ := hc
  exact ⟨c, c', h1, by rw [hy]; exact h2, h3, Pointwise.imp (fun a b hab => Rel.mono hab hm he) h4⟩

/-- allocate a cell (memo unchanged) -/
theorem Sim.alloc {m : PMemo} {H : Heap} {M : Array Ref} {O : List Ref} (s : Sim h m H M O) (c : Cell) :
    Sim h m (H.push c) M O ∧ Ext H M (H.push c) M := by
  have hext : Ext H M (H.push c) M := ⟨by simp, fun _ _ h => h, fun k c0 hk _ => by
    have hl : k < H.size := by
      rcases Nat.lt_or_ge k H.size with hl | hl
      · exact hl
      · simp [Array.getElem?_eq_none hl] at hk
    simp [Array.getElem?_push, Nat.ne_of_lt hl, hk]⟩
  have old : ∀ (i : Nat) (y : Ref), M[i]? = some y → (H.push c)[y]? = H[y]? := by
    intro i y hy
    obtain ⟨c', hc', _⟩ := s.nonatom' i y hy
    have hl : y < H.size := by
      rcases Nat.lt_or_ge y H.size with hl | hl
      · exact hl
      · simp [Array.getElem?_eq_none hl] at hc'
    simp [Array.getElem?_push, Nat.ne_of_lt hl]
  refine ⟨⟨s.len, s.nodup, s.inj, s.nonatom, ?_, ?_, s.openKind⟩, hext⟩
  · intro i y hy
    rw [old i y hy]; exact s.nonatom' i y hy
  · intro i x y hx hy hO
    exact (s.complete i x y hx hy hO).mono (MPre.refl _) hext (old i y hy)


theorem snoc_get {α : Type} {l : List α} {a z : α} {i : Nat} (hz : (l ++ [a])[i]? = some z) :
    (i < l.length ∧ l[i]? = some z) ∨ (i = l.length ∧ z = a) := by
  rcases Nat.lt_or_ge i l.length with hl | hl
  · rw [List.getElem?_append_left hl] at hz; exact Or.inl ⟨hl, hz⟩
  · rw [List.getElem?_append_right hl] at hz
    rcases Nat.eq_or_lt_of_le hl with e | e
    · subst e; simp at hz; exact Or.inr ⟨rfl, hz.symm⟩
    · have : i - l.length ≠ 0 := by omega
      cases hq : i - l.length with
      | zero => exact absurd hq this
      | succ n => rw [hq] at hz; simp at hz

theorem push_get {α : Type} {l : Array α} {a z : α} {i : Nat} (hz : (l.push a)[i]? = some z) :
    (i < l.size ∧ l[i]? = some z) ∨ (i = l.size ∧ z = a) := by
  rw [Array.getElem?_push] at hz
  split at hz
  · rename_i e; cases hz; exact Or.inr ⟨e, rfl⟩
  · rename_i e
    have hl : i < l.size := by
      rcases Nat.lt_or_ge i l.size with hl | hl
      · exact hl
      · simp [Array.getElem?_eq_none hl] at hz
    exact Or.inl ⟨hl, hz⟩

theorem get_lt {H : Heap} {y : Ref} {c : Cell} (hc : H[y]? = some c) : y < H.size := by
  rcases Nat.lt_or_ge y H.size with hl | hl
  · exact hl
  · simp [Array.getElem?_eq_none hl] at hc

theorem aget_lt {M : Array Ref} {i : Nat} {y : Ref} (hc : M[i]? = some y) : i < M.size := by
  rcases Nat.lt_or_ge i M.size with hl | hl
  · exact hl
  · simp [Array.getElem?_eq_none hl] at hc

theorem Ext.pushMemo (H : Heap) (M : Array Ref) (y : Ref) : Ext H M H (M.push y) :=
  ⟨Nat.le_refl _, fun i z hz => by
    have := aget_lt hz
    simp [Array.getElem?_push, Nat.ne_of_lt this, hz], fun _ _ h _ => h⟩

/-- memoise `x ↦ y` -/
theorem Sim.memoize {m : PMemo} {H : Heap} {M : Array Ref} {O : List Ref} (s : Sim h m H M O) {x y : Ref} {c' : Cell}
    (hx : x ∉ m) (hna : NonAtom h x) (hy : H[y]? = some c') (hya : c'.isAtom = false)
    (hfresh : ∀ i : Nat, M[i]? ≠ some y)
    (hc : x ∉ O → Complete h (m ++ [x]) H (M.push y) x y) :
    Sim h (m ++ [x]) H (M.push y) O := by
  have hext := Ext.pushMemo H M y
  have hpre := MPre.append m [x]
  refine ⟨by simp [s.len], ?_, ?_, ?_, ?_, ?_, s.openKind⟩
  · rw [List.nodup_append]
    refine ⟨s.nodup, by simp, ?_⟩
    intro a ha b hb e
    simp at hb; subst hb; subst e; exact hx ha
  · intro i j z hi hj
    rcases push_get hi with ⟨_, hi2⟩ | ⟨ei, ez⟩ <;> rcases push_get hj with ⟨_, hj2⟩ | ⟨ej, ez'⟩
    · exact s.inj i j z hi2 hj2
    · subst ez'; exact absurd hi2 (hfresh i)
    · subst ez; exact absurd hj2 (hfresh j)
    · rw [ei, ej]
  · intro a ha
    rcases List.mem_append.mp ha with ha | ha
    · exact s.nonatom a ha
    · simp at ha; subst ha; exact hna
  · intro i z hz
    rcases push_get hz with ⟨_, hz⟩ | ⟨_, ez⟩
    · exact s.nonatom' i z hz
    · subst ez; exact ⟨c', hy, hya⟩
  · intro i a z ha hz hO
    rcases snoc_get ha with ⟨hl, ha⟩ | ⟨ei, ea⟩
    · rcases push_get hz with ⟨_, hz⟩ | ⟨ei', _⟩
      · exact (s.complete i a z ha hz hO).mono hpre hext rfl
      · rw [s.len] at hl; omega
    · rcases push_get hz with ⟨hl', _⟩ | ⟨_, ez⟩
      · rw [← s.len] at hl'; omega
      · subst ea; subst ez; exact hc hO

/-- regard `x` as open -/
theorem Sim.open {m : PMemo} {H : Heap} {M : Array Ref} {O : List Ref} (s : Sim h m H M O) {x : Ref} {c : Cell}
    (hc : h[x]? = some c) (ho : opens c.tag = true) : Sim h m H M (x :: O) :=
  ⟨s.len, s.nodup, s.inj, s.nonatom, s.nonatom', fun i a z ha hz hO => s.complete i a z ha hz (fun e => hO (List.mem_cons_of_mem _ e)),
   fun a ha => by
    rcases List.mem_cons.mp ha with e | e
    · subst e; exact ⟨c, hc, ho⟩
    · exact s.openKind a e⟩

theorem Rel.set {m : PMemo} {H : Heap} {M : Array Ref} {k k' y : Ref} {c0 cn : Cell} (hr : Rel h m H M k k')
    (h0 : H[y]? = some c0) (ha0 : c0.isAtom = false) : Rel h m (H.setIfInBounds y cn) M k k' := by
  rcases hr with ⟨c, c', hc, hc', ha, ha', ht⟩ | hm
  · refine Or.inl ⟨c, c', hc, ?_, ha, ha', ht⟩
    have : y ≠ k' := by
      intro e; subst e; rw [h0] at hc'; cases hc'; rw [ha0] at ha'; cases ha'
    simp [this, hc']
  · exact Or.inr hm

/-- complete the open cell `x ↦ y` by rewriting `y` -/
theorem Sim.close {m : PMemo} {H : Heap} {M : Array Ref} {O : List Ref} {x y : Ref} {i : Nat} {cn : Cell}
    (s : Sim h m H M (x :: O)) (hi : m[i]? = some x) (hi' : M[i]? = some y) (hcn : cn.isAtom = false)
    (hc : Complete h m (H.setIfInBounds y cn) M x y) : Sim h m (H.setIfInBounds y cn) M O := by
  obtain ⟨c0, h0, ha0⟩ := s.nonatom' i y hi'
  refine ⟨s.len, s.nodup, s.inj, s.nonatom, ?_, ?_, fun a ha => s.openKind a (List.mem_cons_of_mem _ ha)⟩
  · intro j z hz
    by_cases e : y = z
    · subst e; exact ⟨cn, by simp [get_lt h0], hcn⟩
    · obtain ⟨c', hc', ha'⟩ := s.nonatom' j z hz
      exact ⟨c', by simp [e, hc'], ha'⟩
  · intro j a z ha hz hO
    by_cases e : a = x
    · subst e
      have : j = i := by
        have hj := (List.getElem?_eq_some_iff.mp ha)
        have hi2 := (List.getElem?_eq_some_iff.mp hi)
        exact nodup_index_unique s.nodup ha hi
      subst this
      rw [hi'] at hz; cases hz
      exact hc
    · have hne : y ≠ z := by
        intro e'; subst e'
        have := s.inj i j y hi' hz
        subst this
        rw [hi] at ha; cases ha; exact e rfl
      obtain ⟨c, c', h1, h2, h3, h4⟩ := s.complete j a z ha hz (by simp [e, hO])
      exact ⟨c, c', h1, by simp [hne, h2], h3, Pointwise.imp (fun p q hpq => Rel.set hpq h0 ha0) h4⟩


theorem Pointwise.length_eq {α β : Type} {R : α → β → Prop} {l : List α} {l' : List β} (hp : Pointwise R l l') :
    l.length = l'.length := by
  induction hp with
  | nil => rfl
  | cons _ _ ih => simp [ih]

/-! ### running emitted opcodes -/

theorem runOps_cons {cfg : Cfg} {op : Op} {rest : List Op} {v v' : VM} (hne : op ≠ .stop) (hs : v.step cfg op = .ok v') :
    runOps cfg (op :: rest) v = runOps cfg rest v' := by
  cases op <;> first | exact absurd rfl hne | simp [runOps, hs, bind, Except.bind]

structure Post (h : Heap) (m : PMemo) (v : VM) (O : List Ref) (ops : List Op) (m' : PMemo) (v' : VM) : Prop where
  run : ∀ rest, runOps {} (ops ++ rest) v = runOps {} rest v'
  sim : Sim h m' v'.heap v'.memo O
  pre : MPre m m'
  ext : Ext v.heap v.memo v'.heap v'.memo
  frame : ∀ i, i < v.heap.size → v'.heap[i]? = v.heap[i]?

/-- what `save x` must achieve from any simulating state -/
def SaveOK (h : Heap) (sv : Saver) : Prop :=
  ∀ x m ops m', sv x m = .ok (ops, m') → ∀ (v : VM) (O : List Ref), Sim h m v.heap v.memo O →
    ∃ v' y, Post h m v O ops m' v' ∧ v'.stack = .ref y :: v.stack ∧ Rel h m' v'.heap v'.memo x y

theorem Post.refl {m : PMemo} {v : VM} {O : List Ref} (s : Sim h m v.heap v.memo O) : Post h m v O [] m v :=
  ⟨fun _ => rfl, s, MPre.refl _, Ext.refl _ _, fun _ _ => rfl⟩

theorem Post.trans {m m1 m2 : PMemo} {v v1 v2 : VM} {O : List Ref} {o1 o2 : List Op}
    (p1 : Post h m v O o1 m1 v1) (p2 : Post h m1 v1 O o2 m2 v2) : Post h m v O (o1 ++ o2) m2 v2 :=
  ⟨fun rest => by rw [List.append_assoc, p1.run, p2.run], p2.sim, p1.pre.trans p2.pre, p1.ext.trans p2.ext,
   fun i hi => by rw [p2.frame i (Nat.lt_of_lt_of_le hi p1.ext.size), p1.frame i hi]⟩

theorem saveAll_sim {sv : Saver} (ih : SaveOK h sv) : ∀ (ks : List Ref) (m : PMemo) (ops : List Op) (m' : PMemo),
    saveAll sv ks m = .ok (ops, m') → ∀ (v : VM) (O : List Ref), Sim h m v.heap v.memo O →
    ∃ v' ys, Post h m v O ops m' v' ∧ v'.stack = (ys.reverse.map Item.ref) ++ v.stack ∧
      Pointwise (Rel h m' v'.heap v'.memo) ks ys := by
  intro ks
  induction ks with
  | nil =>
    intro m ops m' hs v O s
    simp [saveAll] at hs
    obtain ⟨rfl, rfl⟩ := hs
    exact ⟨v, [], Post.refl s, by simp, Pointwise.nil⟩
  | cons k ks ihk =>
    intro m ops m' hs v O s
    simp only [saveAll, bind, Except.bind] at hs
    split at hs
    · cases hs
    · rename_i r1 h1
      obtain ⟨o1, m1⟩ := r1
      simp only at hs
      split at hs
      · cases hs
      · rename_i r2 h2
        obtain ⟨o2, m2⟩ := r2
        simp only [pure, Except.pure] at hs
        cases hs
        obtain ⟨v1, y1, p1, st1, r1⟩ := ih k m o1 m1 h1 v O s
        obtain ⟨v2, ys, p2, st2, r2⟩ := ihk m1 o2 _ h2 v1 O p1.sim
        refine ⟨v2, y1 :: ys, p1.trans p2, ?_, Pointwise.cons (r1.mono p2.pre p2.ext) r2⟩
        rw [st2, st1]; simp

theorem atomOp?_some {c : Cell} {op : Op} (ha : atomOp? c = some op) :
    c.isAtom = true ∧ (Cell.mk c.tag []).isAtom = true ∧ op ≠ .stop ∧ ∀ v : VM, v.step {} op = .ok (v.alloc ⟨c.tag, []⟩) := by
  obtain ⟨t, ks⟩ := c
  cases t <;> simp [atomOp?] at ha
  case none => subst ha; exact ⟨rfl, rfl, by simp, fun _ => rfl⟩
  case bool b => cases b <;> simp at ha <;> subst ha <;> exact ⟨rfl, rfl, by simp, fun _ => rfl⟩
  case int z => subst ha; exact ⟨rfl, rfl, by simp, fun _ => rfl⟩
  case float z => subst ha; exact ⟨rfl, rfl, by simp, fun _ => rfl⟩
  case tuple =>
    obtain ⟨hk, rfl⟩ := ha
    exact ⟨by simp [Cell.isAtom, hk], rfl, by simp, fun _ => rfl⟩

theorem atomOp?_none {c : Cell} (ha : atomOp? c = none) : c.isAtom = false := by
  obtain ⟨t, ks⟩ := c
  cases t <;> simp [atomOp?, Cell.isAtom] at ha ⊢
  case bool b => cases b <;> simp at ha
  case tuple => exact ha

theorem push_old {H : Heap} {c : Cell} {i : Nat} (hi : i < H.size) : (H.push c)[i]? = H[i]? := by
  simp [Array.getElem?_push, Nat.ne_of_lt hi]

theorem Post.alloc {m : PMemo} {v : VM} {O : List Ref} {op : Op} {c : Cell} (s : Sim h m v.heap v.memo O)
    (hne : op ≠ .stop) (hst : v.step {} op = .ok (v.alloc c)) : Post h m v O [op] m (v.alloc c) :=
  ⟨fun rest => by simpa using runOps_cons hne hst, (s.alloc c).1, MPre.refl _, (s.alloc c).2, fun i hi => push_old hi⟩

theorem indexOf?_none {x : Ref} : ∀ {l : List Ref}, indexOf? x l = none → x ∉ l := by
  intro l
  induction l with
  | nil => intro _; simp
  | cons y ys ih =>
    intro hn
    simp only [indexOf?] at hn
    split at hn
    · cases hn
    · rename_i e
      cases hq : indexOf? x ys with
      | none => simp; exact ⟨fun e' => e e'.symm, ih hq⟩
      | some j => simp [hq] at hn


theorem Ext.ofFrame {H H' : Heap} {M M' : Array Ref} (hs : H.size ≤ H'.size) (hm : ∀ (i : Nat) (y : Ref), M[i]? = some y → M'[i]? = some y)
    (hf : ∀ i, i < H.size → H'[i]? = H[i]?) : Ext H M H' M' :=
  ⟨hs, hm, fun k c hk _ => by rw [hf k (get_lt hk)]; exact hk⟩

theorem memo_fresh {m : PMemo} {H : Heap} {M : Array Ref} {O : List Ref} (s : Sim h m H M O) (i : Nat) : M[i]? ≠ some H.size := by
  intro e
  obtain ⟨c', hc', _⟩ := s.nonatom' i _ e
  exact Nat.lt_irrefl _ (get_lt hc')

/-- allocate the cell `cn` for `x` and memoise it -/
theorem Sim.allocMemo {m : PMemo} {H : Heap} {M : Array Ref} {O : List Ref} (s : Sim h m H M O) {x : Ref} {cn : Cell}
    (hx : x ∉ m) (hna : NonAtom h x) (hcn : cn.isAtom = false)
    (hc : x ∉ O → Complete h (m ++ [x]) (H.push cn) (M.push H.size) x H.size) :
    Sim h (m ++ [x]) (H.push cn) (M.push H.size) O ∧ Rel h (m ++ [x]) (H.push cn) (M.push H.size) x H.size := by
  refine ⟨(s.alloc cn).1.memoize hx hna (by simp) hcn (fun i => ?_) hc, Or.inr ⟨m.length, by simp, by simp [s.len]⟩⟩
  exact memo_fresh s i

theorem step_memoize {v : VM} {y : Ref} {S : List Item} (hs : v.stack = .ref y :: S) :
    v.step {} .memoize = .ok { v with memo := v.memo.push y } := by
  simp [VM.step, VM.topRef, hs, bind, Except.bind, pure, Except.pure]

theorem splitMark_refs (S : List Item) : ∀ (l acc : List Ref),
    splitMark (l.map Item.ref ++ Item.mark :: S) acc = some (l.reverse ++ acc, S) := by
  intro l
  induction l with
  | nil => intro acc; simp [splitMark]
  | cons a l ih => intro acc; simp [splitMark, ih]

theorem popMark_refs {v : VM} {ys : List Ref} {S : List Item} (hs : v.stack = ys.reverse.map Item.ref ++ Item.mark :: S) :
    v.popMark = .ok (ys, { v with stack := S }) := by
  have := splitMark_refs S ys.reverse []
  simp only [List.reverse_reverse, List.append_nil] at this
  simp only [VM.popMark, hs, this]

/-- the memo of the new state contains `x ↦ y` at the index where it was put, whatever was added later -/
theorem chunks_single {l : List Ref} {n : Nat} (h0 : l ≠ []) (hn : l.length ≤ n) : chunks n l = [l] := by
  unfold chunks
  cases l with
  | nil => exact absurd rfl h0
  | cons a t =>
    have : chunksAux n t.length ([] : List Ref) = [] := by cases t.length <;> simp [chunksAux]
    simp [chunksAux, List.take_of_length_le hn, List.drop_of_length_le hn, this]


/-- state after `EMPTY_x MEMOIZE` -/
def opened (v : VM) (cn : Cell) : VM :=
  { heap := v.heap.push cn, stack := .ref v.heap.size :: v.stack, memo := v.memo.push v.heap.size }

theorem run_opened {v : VM} {op : Op} {cn : Cell} (hne : op ≠ .stop) (hst : v.step {} op = .ok (v.alloc cn)) (rest : List Op) :
    runOps {} (op :: .memoize :: rest) v = runOps {} rest (opened v cn) := by
  rw [runOps_cons hne hst, runOps_cons (by simp) (step_memoize (v := v.alloc cn) (y := v.heap.size) (S := v.stack) rfl)]
  rfl

/-- closing a list / dict: `y` still holds the empty cell, gets its kids -/
theorem close_container {m m1 : PMemo} {v v3 : VM} {O : List Ref} {x : Ref} {c : Cell} {ys : List Ref} {t : Tag} {cn : Cell}
    (hc : h[x]? = some c) (ht : c.tag = t) (hcn : cn = ⟨t, ys⟩) (hna : cn.isAtom = false)
    (s3 : Sim h m1 v3.heap v3.memo (x :: O)) (hpre : MPre (m ++ [x]) m1) (hlen : m.length = v.memo.size)
    (hmemo : ∀ (i : Nat) (z : Ref), (v.memo.push v.heap.size)[i]? = some z → v3.memo[i]? = some z)
    (hrel : Pointwise (Rel h m1 v3.heap v3.memo) c.kids ys) :
    Sim h m1 (v3.heap.setIfInBounds v.heap.size cn) v3.memo O := by
  have hi : m1[m.length]? = some x := hpre m.length x (by simp)
  have hi' : v3.memo[m.length]? = some v.heap.size := hmemo m.length _ (by simp [hlen])
  obtain ⟨c0, h0, ha0⟩ := s3.nonatom' _ _ hi'
  refine s3.close hi hi' hna ⟨c, cn, hc, by simp [get_lt h0], by rw [hcn, ht], ?_⟩
  rw [hcn]
  exact Pointwise.imp (fun p q hpq => Rel.set hpq h0 ha0) hrel


theorem step_appends {v : VM} {ys k0 : List Ref} {y : Ref} {S : List Item}
    (hs : v.stack = ys.reverse.map Item.ref ++ Item.mark :: .ref y :: S) (hy : v.heap[y]? = some ⟨.list, k0⟩) :
    v.step {} .appends = .ok { v with heap := v.heap.setIfInBounds y ⟨.list, k0 ++ ys⟩, stack := .ref y :: S } := by
  simp [VM.step, popMark_refs hs, VM.topRef, VM.extend, VM.cell, hy, VM.setCell, bind, Except.bind, pure, Except.pure]

theorem step_append {v : VM} {y1 : Ref} {k0 : List Ref} {y : Ref} {S : List Item}
    (hs : v.stack = .ref y1 :: .ref y :: S) (hy : v.heap[y]? = some ⟨.list, k0⟩) :
    v.step {} .append = .ok { v with heap := v.heap.setIfInBounds y ⟨.list, k0 ++ [y1]⟩, stack := .ref y :: S } := by
  simp [VM.step, VM.popRef, hs, VM.topRef, VM.extend, VM.cell, hy, VM.setCell, bind, Except.bind, pure, Except.pure]

/-- common end of the list / dict cases: the items were saved from the opened state (possibly under a MARK), one
    opcode then rewrote the container cell -/
theorem container_post {m m1 : PMemo} {v v2 v3 v4 : VM} {O : List Ref} {x : Ref} {c : Cell} {ys : List Ref} {cn cn0 : Cell}
    {op0 opc : Op} {pre o1 : List Op}
    (s : Sim h m v.heap v.memo O) (hc : h[x]? = some c) (hcn : cn = ⟨c.tag, ys⟩) (hna : cn.isAtom = false)
    (h2h : v2.heap = (opened v cn0).heap) (h2m : v2.memo = (opened v cn0).memo)
    (hrun1 : ∀ rest, runOps {} (op0 :: .memoize :: (pre ++ rest)) v = runOps {} rest v2)
    (p3 : Post h (m ++ [x]) v2 (x :: O) o1 m1 v3)
    (r3 : Pointwise (Rel h m1 v3.heap v3.memo) c.kids ys)
    (hstep : v3.step {} opc = .ok v4) (hne : opc ≠ .stop)
    (h4h : v4.heap = v3.heap.setIfInBounds v.heap.size cn) (h4m : v4.memo = v3.memo) (h4s : v4.stack = .ref v.heap.size :: v.stack) :
    ∃ v' y, Post h m v O (op0 :: .memoize :: (pre ++ o1 ++ [opc])) m1 v' ∧ v'.stack = .ref y :: v.stack ∧
      Rel h m1 v'.heap v'.memo x y := by
  have hmemo : ∀ (i : Nat) (z : Ref), (v.memo.push v.heap.size)[i]? = some z → v3.memo[i]? = some z := by
    intro i z hz; exact p3.ext.memo i z (by rw [h2m]; exact hz)
  have s4 : Sim h m1 v4.heap v4.memo O := by
    rw [h4h, h4m]
    exact close_container hc rfl hcn hna p3.sim p3.pre s.len hmemo r3
  have hpre : MPre m m1 := (MPre.append m [x]).trans p3.pre
  have hsz : v.heap.size + 1 = v2.heap.size := by rw [h2h]; simp [opened]
  have hframe : ∀ i, i < v.heap.size → v4.heap[i]? = v.heap[i]? := by
    intro i hi
    have hne' : v.heap.size ≠ i := by omega
    rw [h4h]
    simp only [Array.getElem?_setIfInBounds_ne hne']
    rw [p3.frame i (by omega), h2h]
    exact push_old hi
  refine ⟨v4, v.heap.size, ⟨?_, s4, hpre, ?_, hframe⟩, h4s, ?_⟩
  · intro rest
    have : op0 :: Op.memoize :: (pre ++ o1 ++ [opc]) ++ rest = op0 :: Op.memoize :: (pre ++ (o1 ++ (opc :: rest))) := by simp
    rw [this, hrun1, p3.run, runOps_cons hne hstep]
  · refine Ext.ofFrame ?_ ?_ hframe
    · rw [h4h]; simp; have := p3.ext.size; omega
    · intro i z hz
      rw [h4m]
      exact hmemo i z ((Ext.pushMemo v.heap v.memo v.heap.size).memo i z hz)
  · exact Or.inr ⟨m.length, p3.pre _ _ (by simp), by rw [h4m]; exact hmemo _ _ (by simp [s.len])⟩


theorem opened_sim {m : PMemo} {v : VM} {O : List Ref} {x : Ref} {c : Cell} {cn0 : Cell} (s : Sim h m v.heap v.memo O)
    (hc : h[x]? = some c) (ho : opens c.tag = true) (hx : x ∉ m) (hcn0 : cn0.isAtom = false) :
    Sim h (m ++ [x]) (opened v cn0).heap (opened v cn0).memo (x :: O) := by
  have hna : NonAtom h x := ⟨c, hc, by
    obtain ⟨t, ks⟩ := c
    cases t <;> simp [opens] at ho <;> rfl⟩
  exact ((s.open hc ho).allocMemo hx hna hcn0 (fun hO => absurd List.mem_cons_self hO)).1

theorem save_list_ok {sv : Saver} (ih : SaveOK h sv) {x : Ref} {m : PMemo} {c : Cell} (hc : h[x]? = some c)
    (htag : c.tag = .list) (hlen : c.kids.length ≤ batchSize) (hx : x ∉ m) {o : List Op} {m1 : PMemo}
    (hb : batchExact sv 1 .appends .append false true c.kids (m ++ [x]) = .ok (o, m1))
    (v : VM) (O : List Ref) (s : Sim h m v.heap v.memo O) :
    ∃ v' y, Post h m v O (Op.emptyList :: .memoize :: o) m1 v' ∧ v'.stack = .ref y :: v.stack ∧
      Rel h m1 v'.heap v'.memo x y := by
  have ho : opens c.tag = true := by simp [htag, opens]
  have s2 := opened_sim (cn0 := ⟨.list, []⟩) s hc ho hx rfl
  have hrun0 : ∀ rest, runOps {} (Op.emptyList :: .memoize :: rest) v = runOps {} rest (opened v ⟨.list, []⟩) :=
    run_opened (by simp) rfl
  have hy2 : (opened v ⟨.list, []⟩).heap[v.heap.size]? = some ⟨.list, []⟩ := by simp [opened]
  unfold batchExact at hb
  simp only [bind, Except.bind, pure, Except.pure] at hb
  split at hb
  · -- no items
    rename_i hemp
    cases hb
    have hk : c.kids = [] := by simpa using hemp
    have hna : NonAtom h x := ⟨c, hc, by simp [Cell.isAtom, htag]⟩
    obtain ⟨s', r'⟩ := s.allocMemo (cn := ⟨.list, []⟩) hx hna rfl
      (fun _ => ⟨c, ⟨.list, []⟩, hc, by simp, htag.symm, by rw [hk]; exact Pointwise.nil⟩)
    refine ⟨opened v ⟨.list, []⟩, v.heap.size, ⟨fun rest => hrun0 rest, s', MPre.append _ _, ?_, fun i hi => push_old hi⟩, rfl, r'⟩
    exact Ext.ofFrame (by simp [opened]) (Ext.pushMemo v.heap v.memo v.heap.size).memo (fun i hi => push_old hi)
  · rename_i hemp
    split at hb
    · -- one item: `item APPEND`
      rename_i hone
      split at hb
      · cases hb
      · rename_i r1 h1
        obtain ⟨o1, m1'⟩ := r1
        simp only at hb
        cases hb
        obtain ⟨v3, ys, p3, st3, r3⟩ := saveAll_sim ih _ _ _ _ h1 (opened v ⟨.list, []⟩) (x :: O) s2
        have hl : c.kids.length = 1 := by simpa using hone
        obtain ⟨y1, rfl⟩ : ∃ y1, ys = [y1] := by
          have := r3.length_eq
          rw [hl] at this
          cases ys with
          | nil => simp at this
          | cons a t => cases t with
            | nil => exact ⟨a, rfl⟩
            | cons _ _ => simp at this
        have hy3 : v3.heap[v.heap.size]? = some ⟨.list, []⟩ := by
          rw [p3.frame _ (by simp [opened])]; exact hy2
        have hst : v3.step {} .append = .ok ⟨v3.heap.setIfInBounds v.heap.size ⟨.list, [] ++ [y1]⟩,
            .ref v.heap.size :: v.stack, v3.memo⟩ := step_append (by rw [st3]; rfl) hy3
        have := container_post (pre := []) (op0 := .emptyList) s hc (cn := ⟨.list, [] ++ [y1]⟩) (by simp [htag]) rfl rfl rfl
          (fun rest => hrun0 rest) p3 r3 hst (by simp) rfl rfl rfl
        simpa using this
    · -- several items: `MARK items APPENDS`
      rename_i hone
      have hne : c.kids ≠ [] := by simpa using hemp
      rw [chunks_single hne (by simpa using hlen)] at hb
      simp only [saveBatches, bind, Except.bind, pure, Except.pure] at hb
      split at hb
      · cases hb
      · rename_i r0 h0
        obtain ⟨ob, mb⟩ := r0
        split at h0
        · cases h0
        · rename_i r1 h1
          obtain ⟨o1, m1'⟩ := r1
          simp only at h0
          cases h0
          simp only at hb
          cases hb
          let v2 : VM := { opened v ⟨.list, []⟩ with stack := .mark :: (opened v ⟨.list, []⟩).stack }
          obtain ⟨v3, ys, p3, st3, r3⟩ := saveAll_sim ih _ _ _ _ h1 v2 (x :: O) s2
          have hy3 : v3.heap[v.heap.size]? = some ⟨.list, []⟩ := by
            rw [p3.frame _ (by simp [v2, opened])]; exact hy2
          have hst : v3.step {} .appends = .ok ⟨v3.heap.setIfInBounds v.heap.size ⟨.list, [] ++ ys⟩,
              .ref v.heap.size :: v.stack, v3.memo⟩ := step_appends (by rw [st3]; rfl) hy3
          have hrun1 : ∀ rest, runOps {} (Op.emptyList :: .memoize :: ([Op.mark] ++ rest)) v = runOps {} rest v2 := by
            intro rest
            rw [hrun0]
            exact runOps_cons (by simp) rfl
          have := container_post (v2 := v2) (cn0 := ⟨.list, []⟩) (pre := [.mark]) (op0 := .emptyList) s hc (cn := ⟨.list, [] ++ ys⟩)
            (by simp [htag]) rfl rfl rfl
            hrun1 p3 r3 hst (by simp) rfl rfl rfl
          simpa using this


theorem run_pops : ∀ (l : List Ref) (v : VM) (S : List Item) (rest : List Op), v.stack = l.map Item.ref ++ S →
    runOps {} (List.replicate l.length Op.pop ++ rest) v = runOps {} rest { v with stack := S } := by
  intro l
  induction l with
  | nil => intro v S rest hs; simp at hs ⊢; rw [← hs]
  | cons a l ih =>
    intro v S rest hs
    have hst : v.step {} .pop = .ok { v with stack := l.map Item.ref ++ S } := by
      simp [VM.step, hs, pure, Except.pure]
    simp only [List.length_cons, List.replicate_succ, List.cons_append]
    rw [runOps_cons (by simp) hst]
    exact ih _ S rest rfl

/-- a state differing from `v` only in the stack simulates the same -/
theorem Post.restack {m m' : PMemo} {v v' : VM} {O : List Ref} {ops : List Op} (S : List Item)
    (p : Post h m v O ops m' v') (hrun : ∀ rest, runOps {} (ops ++ rest) v = runOps {} rest { v' with stack := S }) :
    Post h m v O ops m' { v' with stack := S } :=
  ⟨hrun, p.sim, p.pre, p.ext, p.frame⟩

theorem step_tupleN {v : VM} {ys : List Ref} {S : List Item} (hs : v.stack = ys.reverse.map Item.ref ++ S) :
    (ys.length = 1 → v.step {} .tuple1 = .ok (VM.alloc { v with stack := S } ⟨.tuple, ys⟩)) ∧
    (ys.length = 2 → v.step {} .tuple2 = .ok (VM.alloc { v with stack := S } ⟨.tuple, ys⟩)) ∧
    (ys.length = 3 → v.step {} .tuple3 = .ok (VM.alloc { v with stack := S } ⟨.tuple, ys⟩)) := by
  refine ⟨?_, ?_, ?_⟩ <;> intro hl
  · match ys, hl with
    | [a], _ => simp at hs; simp [VM.step, VM.popRef, hs, bind, Except.bind, pure, Except.pure]
  · match ys, hl with
    | [a, b], _ => simp at hs; simp [VM.step, VM.popRef, hs, bind, Except.bind, pure, Except.pure]
  · match ys, hl with
    | [a, b, c], _ => simp at hs; simp [VM.step, VM.popRef, hs, bind, Except.bind, pure, Except.pure]

theorem step_tupleM {v : VM} {ys : List Ref} {S : List Item} (hs : v.stack = ys.reverse.map Item.ref ++ Item.mark :: S) :
    v.step {} .tuple = .ok (VM.alloc { v with stack := S } ⟨.tuple, ys⟩) := by
  simp [VM.step, popMark_refs hs, bind, Except.bind, pure, Except.pure]

theorem step_popMarkM {v : VM} {ys : List Ref} {S : List Item} (hs : v.stack = ys.reverse.map Item.ref ++ Item.mark :: S) :
    v.step {} .popMark = .ok { v with stack := S } := by
  simp [VM.step, popMark_refs hs, bind, Except.bind, pure, Except.pure]

theorem step_get {v : VM} {i : Nat} {z : Ref} (hz : v.memo[i]? = some z) :
    v.step {} (.get i) = .ok { v with stack := .ref z :: v.stack } := by
  simp [VM.step, hz, pure, Except.pure]

/-- the end of the tuple case: the elements are on the stack (above a MARK when there are more than three) -/
theorem tuple_finish {m m1 : PMemo} {v v3 : VM} {O : List Ref} {x : Ref} {c : Cell} {ys : List Ref} {o : List Op}
    (hc : h[x]? = some c) (htag : c.tag = .tuple) (hne : c.kids ≠ [])
    (p3 : Post h m v O o m1 v3) (r3 : Pointwise (Rel h m1 v3.heap v3.memo) c.kids ys) (S : List Item)
    {mk : List Op} (hmk : ∀ rest, runOps {} (mk ++ rest) v3 = runOps {} rest (VM.alloc { v3 with stack := S } ⟨.tuple, ys⟩))
    (hx : x ∉ m1) :
    ∃ v' y, Post h m v O (o ++ mk ++ [.memoize]) (m1 ++ [x]) v' ∧ v'.stack = .ref y :: S ∧
      Rel h (m1 ++ [x]) v'.heap v'.memo x y := by
  have hna : NonAtom h x := ⟨c, hc, by
    cases hk : c.kids with
    | nil => exact absurd hk hne
    | cons a t => simp [Cell.isAtom, htag, hk]⟩
  have hys : ys ≠ [] := by
    intro e; subst e
    have := r3.length_eq
    simp at this; exact hne this
  have hcn : (Cell.mk Tag.tuple ys).isAtom = false := by
    cases ys with
    | nil => exact absurd rfl hys
    | cons a t => simp [Cell.isAtom]
  obtain ⟨s', r'⟩ := p3.sim.allocMemo (cn := ⟨.tuple, ys⟩) hx hna hcn (fun _ => ⟨c, ⟨.tuple, ys⟩, hc, by simp, htag.symm,
    Pointwise.imp (fun a b hab => Rel.mono hab (MPre.append _ _)
      ((p3.sim.alloc _).2.trans (Ext.pushMemo _ _ _))) r3⟩)
  let v4 : VM := ⟨v3.heap.push ⟨.tuple, ys⟩, .ref v3.heap.size :: S, v3.memo.push v3.heap.size⟩
  refine ⟨v4, v3.heap.size, ⟨?_, s', p3.pre.trans (MPre.append _ _), ?_, ?_⟩, rfl, r'⟩
  · intro rest
    rw [List.append_assoc, List.append_assoc, p3.run, hmk]
    exact runOps_cons (by simp) (step_memoize (v := VM.alloc { v3 with stack := S } ⟨.tuple, ys⟩) (y := v3.heap.size) (S := S) rfl)
  · exact p3.ext.trans ((p3.sim.alloc _).2.trans (Ext.pushMemo _ _ _))
  · intro i hi
    show (v3.heap.push _)[i]? = _
    rw [push_old (Nat.lt_of_lt_of_le hi p3.ext.size), p3.frame i hi]


theorem Post.under {m m1 : PMemo} {v vm v3 : VM} {O : List Ref} {pre o : List Op} (hh : vm.heap = v.heap) (hm : vm.memo = v.memo)
    (hrun : ∀ rest, runOps {} (pre ++ rest) v = runOps {} rest vm) (p : Post h m vm O o m1 v3) :
    Post h m v O (pre ++ o) m1 v3 :=
  ⟨fun rest => by rw [List.append_assoc, hrun, p.run], p.sim, p.pre, by rw [← hh, ← hm]; exact p.ext,
   by rw [← hh]; exact p.frame⟩

theorem tuple_rec_finish {m m1 : PMemo} {v v3 : VM} {O : List Ref} {x : Ref} {o cl : List Op} {i : Nat}
    (p3 : Post h m v O o m1 v3) (hi : memoIdx m1 x = some i) (S : List Item)
    (hcl : ∀ rest, runOps {} (cl ++ rest) v3 = runOps {} rest { v3 with stack := S }) :
    ∃ v' y, Post h m v O (o ++ cl ++ [.get i]) m1 v' ∧ v'.stack = .ref y :: S ∧ Rel h m1 v'.heap v'.memo x y := by
  have hx : m1[i]? = some x := indexOf?_some hi
  have hlt : i < v3.memo.size := by rw [← p3.sim.len]; exact (List.getElem?_eq_some_iff.mp hx).1
  refine ⟨{ v3 with stack := .ref v3.memo[i] :: S }, v3.memo[i], ⟨?_, p3.sim, p3.pre, p3.ext, p3.frame⟩, rfl,
    Or.inr ⟨i, hx, by simp [hlt]⟩⟩
  intro rest
  rw [List.append_assoc, List.append_assoc, p3.run, hcl]
  exact runOps_cons (by simp) (step_get (v := { v3 with stack := S }) (by simp [hlt]))

theorem leaf_ok {m : PMemo} {v : VM} {O : List Ref} {x : Ref} {c : Cell} {op : Op} (s : Sim h m v.heap v.memo O)
    (hc : h[x]? = some c) (hk : c.kids = []) (hcna : c.isAtom = false) (hne : op ≠ .stop)
    (hst : v.step {} op = .ok (v.alloc ⟨c.tag, []⟩)) (hx : x ∉ m) :
    ∃ v' y, Post h m v O [op, .memoize] (m ++ [x]) v' ∧ v'.stack = .ref y :: v.stack ∧
      Rel h (m ++ [x]) v'.heap v'.memo x y := by
  have hcn : (Cell.mk c.tag []).isAtom = false := by
    obtain ⟨t, ks⟩ := c
    simp at hk; subst hk; exact hcna
  obtain ⟨s', r'⟩ := s.allocMemo (cn := ⟨c.tag, []⟩) hx ⟨c, hc, hcna⟩ hcn
    (fun _ => ⟨c, ⟨c.tag, []⟩, hc, by simp, rfl, by rw [hk]; exact Pointwise.nil⟩)
  refine ⟨opened v ⟨c.tag, []⟩, v.heap.size, ⟨fun rest => run_opened hne hst rest, s', MPre.append _ _, ?_,
    fun i hi => push_old hi⟩, rfl, r'⟩
  exact Ext.ofFrame (by simp [opened]) (Ext.pushMemo v.heap v.memo v.heap.size).memo (fun i hi => push_old hi)

def okCell (c : Cell) : Prop :=
  match c.tag with
  | .str _ | .bytes _ => c.kids = []
  | .list => c.kids.length ≤ batchSize
  | .dict | .set | .frozenset | .global | .obj .. => False
  | _ => True

/-- the fragment of heaps for which the round trip is proved: atoms, strings, bytes, tuples and lists (of at most
    `batchSize` elements) — with arbitrary sharing and arbitrary cycles -/
def Supported (h : Heap) : Prop := ∀ (i : Nat) (c : Cell), h[i]? = some c → okCell c

theorem save_ok (hS : Supported h) : ∀ fuel, SaveOK h (save h fuel) := by
  intro fuel
  induction fuel with
  | zero => intro x m ops m' hs; simp [save] at hs
  | succ fuel ih =>
    intro x m ops m' hs v O s
    unfold save at hs
    split at hs
    · cases hs
    · rename_i c hc
      have hok := hS x c hc
      split at hs
      · -- atom
        rename_i op hop
        cases hs
        obtain ⟨ha, ha', hne, hst⟩ := atomOp?_some hop
        exact ⟨v.alloc ⟨c.tag, []⟩, v.heap.size, Post.alloc s hne (hst v), rfl,
          Or.inl ⟨c, ⟨c.tag, []⟩, hc, by simp [VM.alloc], ha, ha', rfl⟩⟩
      · rename_i hop
        have hcna := atomOp?_none hop
        split at hs
        · -- memo hit
          rename_i i hi
          cases hs
          have := tuple_rec_finish (o := []) (cl := []) (x := x) (Post.refl s) hi v.stack (fun rest => rfl)
          simpa using this
        · rename_i hmi
          have hx : x ∉ m := indexOf?_none hmi
          split at hs
          · -- str
            rename_i sv htag
            cases hs
            have hk : c.kids = [] := by simpa [okCell, htag] using hok
            exact leaf_ok s hc hk hcna (by simp) (by rw [htag]; rfl) hx
          · -- bytes
            rename_i sv htag
            cases hs
            have hk : c.kids = [] := by simpa [okCell, htag] using hok
            exact leaf_ok s hc hk hcna (by simp) (by rw [htag]; rfl) hx
          · -- tuple
            rename_i htag
            simp only [bind, Except.bind, pure, Except.pure] at hs
            have hne : c.kids ≠ [] := by
              intro e; simp [Cell.isAtom, htag, e] at hcna
            have hpos : 0 < c.kids.length := List.length_pos_iff.mpr hne
            split at hs
            · cases hs
            · rename_i r hsa
              obtain ⟨o, m1⟩ := r
              simp only at hs
              by_cases hn : c.kids.length ≤ 3
              · obtain ⟨v3, ys, p3, st3, r3⟩ := saveAll_sim ih _ _ _ _ hsa v O s
                have hlen := r3.length_eq
                split at hs
                · rename_i i hi
                  cases hs
                  simp only [hn, if_true]
                  have := tuple_rec_finish (cl := List.replicate c.kids.length Op.pop) p3 hi v.stack (fun rest => by
                    rw [hlen, ← List.length_reverse]
                    exact run_pops ys.reverse v3 v.stack rest (by rw [st3]))
                  simpa using this
                · rename_i hmi1
                  cases hs
                  have hx1 := indexOf?_none hmi1
                  obtain ⟨t1, t2, t3⟩ := step_tupleN (v := v3) (ys := ys) (S := v.stack) st3
                  have h123 : c.kids.length = 1 ∨ c.kids.length = 2 ∨ c.kids.length = 3 := by omega
                  rcases h123 with hl | hl | hl
                  · simp only [hl]
                    exact tuple_finish (mk := [.tuple1]) hc htag hne p3 r3 v.stack
                      (fun rest => runOps_cons (by simp) (t1 (by omega))) hx1
                  · simp only [hl]
                    exact tuple_finish (mk := [.tuple2]) hc htag hne p3 r3 v.stack
                      (fun rest => runOps_cons (by simp) (t2 (by omega))) hx1
                  · simp only [hl]
                    exact tuple_finish (mk := [.tuple3]) hc htag hne p3 r3 v.stack
                      (fun rest => runOps_cons (by simp) (t3 (by omega))) hx1
              · let vm : VM := { v with stack := .mark :: v.stack }
                obtain ⟨v3, ys, p3', st3, r3⟩ := saveAll_sim ih _ _ _ _ hsa vm O s
                have p3 : Post h m v O ([Op.mark] ++ o) m1 v3 :=
                  Post.under (vm := vm) rfl rfl (fun rest => runOps_cons (by simp) rfl) p3'
                split at hs
                · rename_i i hi
                  cases hs
                  simp only [hn, if_false]
                  have := tuple_rec_finish (cl := [.popMark]) p3 hi v.stack
                    (fun rest => runOps_cons (by simp) (step_popMarkM st3))
                  simpa using this
                · rename_i hmi1
                  cases hs
                  have hx1 := indexOf?_none hmi1
                  obtain ⟨k, hk⟩ : ∃ k, c.kids.length = k + 4 := ⟨c.kids.length - 4, by omega⟩
                  simp only [hk]
                  have := tuple_finish (mk := [.tuple]) hc htag hne p3 r3 v.stack
                    (fun rest => runOps_cons (by simp) (step_tupleM st3)) hx1
                  simpa using this
          · -- list
            rename_i htag
            simp only [bind, Except.bind, pure, Except.pure] at hs
            split at hs
            · cases hs
            · rename_i r hb
              obtain ⟨o, m1⟩ := r
              simp only at hs
              cases hs
              exact save_list_ok ih hc htag (by simpa [okCell, htag] using hok) hx hb v O s
          · rename_i htag; simp [okCell, htag] at hok
          · rename_i htag; simp [okCell, htag] at hok
          · rename_i htag; simp [okCell, htag] at hok
          · rename_i htag; simp [okCell, htag] at hok
          · rename_i htag; simp [okCell, htag] at hok
          · cases hs


/-! ### from the final simulation to the isomorphism -/

theorem Pointwise.imp_mem {α β : Type} {R S : α → β → Prop} {l : List α} {l' : List β} (hp : Pointwise R l l')
    (hRS : ∀ a b, a ∈ l → b ∈ l' → R a b → S a b) : Pointwise S l l' := by
  induction hp with
  | nil => exact Pointwise.nil
  | cons hab _ ih =>
    exact Pointwise.cons (hRS _ _ List.mem_cons_self List.mem_cons_self hab)
      (ih (fun a b ha hb => hRS a b (List.mem_cons_of_mem _ ha) (List.mem_cons_of_mem _ hb)))

theorem Pointwise.exists_left {α β : Type} {R : α → β → Prop} {l : List α} {l' : List β} (hp : Pointwise R l l') :
    ∀ b, b ∈ l' → ∃ a, a ∈ l ∧ R a b := by
  induction hp with
  | nil => intro b hb; cases hb
  | cons hab _ ih =>
    intro b hb
    rcases List.mem_cons.mp hb with e | e
    · subst e; exact ⟨_, List.mem_cons_self, hab⟩
    · obtain ⟨a, ha, hr⟩ := ih b e
      exact ⟨a, List.mem_cons_of_mem _ ha, hr⟩

theorem Pointwise.exists_right {α β : Type} {R : α → β → Prop} {l : List α} {l' : List β} (hp : Pointwise R l l') :
    ∀ a, a ∈ l → ∃ b, b ∈ l' ∧ R a b := by
  induction hp with
  | nil => intro a ha; cases ha
  | cons hab _ ih =>
    intro a ha
    rcases List.mem_cons.mp ha with e | e
    · subst e; exact ⟨_, List.mem_cons_self, hab⟩
    · obtain ⟨b, hb, hr⟩ := ih a e
      exact ⟨b, List.mem_cons_of_mem _ hb, hr⟩

/-- when nothing is open any more, the memo correspondence is an isomorphism of the reachable parts -/
theorem iso_of_sim {m : PMemo} {H : Heap} {M : Array Ref} {r y : Ref} (s : Sim h m H M []) (hr : Rel h m H M r y) :
    ∃ R, Iso h r H y R := by
  let Z : Ref → Ref → Prop := fun x z => ∃ i : Nat, m[i]? = some x ∧ M[i]? = some z
  let R : Ref → Ref → Prop := fun x z => Z x z ∧ Reach h r x ∧ Reach H y z
  have hZna : ∀ x z, Z x z → NonAtom h x ∧ NonAtom H z := by
    rintro x z ⟨i, hi, hi'⟩
    exact ⟨s.nonatom x (List.mem_of_getElem? hi), s.nonatom' i z hi'⟩
  have relZ : ∀ k k', Rel h m H M k k' → (NonAtom h k ∨ NonAtom H k') → Z k k' := by
    rintro k k' (⟨c, c', hc, hc', ha, ha', _⟩ | hz) hna
    · rcases hna with ⟨c1, h1, n1⟩ | ⟨c1, h1, n1⟩
      · rw [hc] at h1; cases h1; rw [ha] at n1; cases n1
      · rw [hc'] at h1; cases h1; rw [ha'] at n1; cases n1
    · exact hz
  have toRelRef : ∀ k k', Rel h m H M k k' → (Z k k' → Reach h r k ∧ Reach H y k') → RelRef h H R k k' := by
    rintro k k' (⟨c, c', hc, hc', ha, ha', ht⟩ | hz) hreach
    · exact Or.inl ⟨c, c', hc, hc', ha, ha', ht⟩
    · exact Or.inr ⟨hz, hreach hz⟩
  have cells : ∀ x z, R x z → ∃ c c', h[x]? = some c ∧ H[z]? = some c' ∧ c.tag = c'.tag ∧
      Pointwise (RelRef h H R) c.kids c'.kids := by
    rintro x z ⟨⟨i, hi, hi'⟩, hrx, hrz⟩
    obtain ⟨c, c', hc, hc', ht, hk⟩ := s.complete i x z hi hi' (by simp)
    refine ⟨c, c', hc, hc', ht.symm, hk.imp_mem (fun a b ha hb hab => toRelRef a b hab (fun hz => ?_))⟩
    exact ⟨Reach.step hrx hc ha (hZna a b hz).1, Reach.step hrz hc' hb (hZna a b hz).2⟩
  refine ⟨R, ⟨?_, fun x z hxz => hxz.2, ?_, ?_, ?_, ?_, cells⟩⟩
  · exact toRelRef r y hr (fun hz => ⟨Reach.root (hZna r y hz).1, Reach.root (hZna r y hz).2⟩)
  · intro x hx
    induction hx with
    | root hna =>
      have hz := relZ r y hr (Or.inl hna)
      exact ⟨y, hz, Reach.root hna, Reach.root (hZna r y hz).2⟩
    | step hxr hc hk hna ih =>
      rename_i x k c
      obtain ⟨z, hxz⟩ := ih
      obtain ⟨c1, c', hc1, hc', _, hkids⟩ := cells x z hxz
      rw [hc] at hc1; cases hc1
      obtain ⟨k', hk', hrel⟩ := hkids.exists_right k hk
      rcases hrel with ⟨c2, _, h2, _, a2, _, _⟩ | hR
      · obtain ⟨c3, h3, n3⟩ := hna
        rw [h2] at h3; cases h3; rw [a2] at n3; cases n3
      · exact ⟨k', hR⟩
  · intro z hz
    induction hz with
    | root hna =>
      have hzz := relZ r y hr (Or.inr hna)
      exact ⟨r, hzz, Reach.root (hZna r y hzz).1, Reach.root hna⟩
    | step hzr hc hk hna ih =>
      rename_i z k' c'
      obtain ⟨x, hxz⟩ := ih
      obtain ⟨c, c1, hc0, hc1, _, hkids⟩ := cells x z hxz
      rw [hc] at hc1; cases hc1
      obtain ⟨k, hk0, hrel⟩ := hkids.exists_left k' hk
      rcases hrel with ⟨_, c2, _, h2, _, a2, _⟩ | hR
      · obtain ⟨c3, h3, n3⟩ := hna
        rw [h2] at h3; cases h3; rw [a2] at n3; cases n3
      · exact ⟨k, hR⟩
  · rintro x z z' ⟨⟨i, hi, hi'⟩, _⟩ ⟨⟨j, hj, hj'⟩, _⟩
    have := nodup_index_unique s.nodup hi hj
    subst this
    rw [hi'] at hj'; cases hj'; rfl
  · rintro x x' z ⟨⟨i, hi, hi'⟩, _⟩ ⟨⟨j, hj, hj'⟩, _⟩
    have := s.inj i j z hi' hj'
    subst this
    rw [hi] at hj; cases hj; rfl

theorem Sim.init : Sim h [] #[] #[] [] := by
  refine ⟨rfl, List.nodup_nil, ?_, ?_, ?_, ?_, ?_⟩
  · intro i j y hi; simp at hi
  · intro x hx; cases hx
  · intro i y hi; simp at hi
  · intro i x y hi; simp at hi
  · intro x hx; cases hx

/-- **T2 for the supported fragment**: atoms, strings, bytes, tuples and lists of at most `batchSize` elements, with
    arbitrary sharing and arbitrary cycles -/
theorem roundtrip_supported (hS : Supported h) {r : Ref} {ops : List Op} (hd : dump h r = .ok ops) {c : Canon}
    (hc : canon h r = some c) : Roundtrip h r := by
  have hd0 := hd
  unfold dump dumpWith at hd
  simp only [bind, Except.bind, pure, Except.pure] at hd
  split at hd
  · cases hd
  · rename_i res hsv
    obtain ⟨o, m'⟩ := res
    simp only at hd
    cases hd
    obtain ⟨v', y, p, hst, hrel⟩ := save_ok hS _ r [] o m' hsv {} [] Sim.init
    have hrun : run (o ++ [.stop]) = .ok (v'.heap, y) := by
      have := p.run [.stop]
      simp only [run, runWith, bind, Except.bind, pure, Except.pure]
      rw [show (({} : VM)) = ({} : VM) from rfl] at this
      rw [this]
      simp [runOps, VM.topRef, hst, bind, Except.bind, pure, Except.pure]
    obtain ⟨R, iso⟩ := iso_of_sim p.sim hrel
    exact ⟨o ++ [.stop], v'.heap, y, c, hd0, hrun, hc, iso_canon iso hc⟩

end

end Pepper.Pickle
