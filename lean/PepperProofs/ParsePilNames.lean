import PepperProofs.ParsePilLoad
import PepperProofs.CompReg
import PepperProofs.WellFormed
/-!
# `compNamesOk` follows from a predicate on the SOURCE

`compNamesOk st` (every name the emitter writes is non-empty over `[A-Za-z0-9_-]`, printed numerals over `[0-9.]`)
is a predicate on the loaded state.  Here it is derived from `Comp.load` and a decidable predicate on the source:
the prefix consists of name characters (`charsOk pfx`) and every name a statement DECLARES is non-empty over the
alphabet (`srcCharsOk`).  Everything else the emitter writes is one of those names, an anonymous name `_Anon<k>`, or a
numeral `parseDec` accepted:

* item names and the strand names of structures are names of table entries (`Comp.WF`);
* the structure names on kinetic lines were found in the table when the line was accepted;
* `%g` / `%f` of a parsed decimal consists of digits and a point.
-/
namespace Pepper.ParsePil
open Pepper Pepper.Comp

/-- all characters are name characters (the string may be empty: prefixes) -/
def charsOk (s : String) : Bool := s.toList.all isNameChar

theorem nameOk_append {p n : String} (hp : charsOk p = true) (hn : nameOk n = true) : nameOk (p ++ n) = true := by
  simp only [charsOk, List.all_eq_true] at hp
  simp only [nameOk, Bool.and_eq_true, Bool.not_eq_true', List.all_eq_true, List.isEmpty_eq_false_iff,
    String.toList_append] at hn ⊢
  refine ⟨fun h => hn.1 (List.append_eq_nil_iff.mp h).2, fun c hc => ?_⟩
  rcases List.mem_append.mp hc with hc | hc
  · exact hp c hc
  · exact hn.2 c hc

theorem nameOk_anonName (k : Nat) : nameOk (anonName k) = true := by
  simp only [nameOk, Bool.and_eq_true, Bool.not_eq_true', List.all_eq_true, List.isEmpty_eq_false_iff, anonName_toList]
  refine ⟨fun h => by simp at h, fun c hc => ?_⟩
  rcases List.mem_append.mp hc with hc | hc
  · have h5 : ∀ c ∈ "_Anon".toList, isNameChar c = true := by decide
    exact h5 c hc
  · exact digit_nameChar (Nat.isDigit_of_mem_toDigits (by omega) (by omega) hc)

/-- the names a statement declares -/
def stmtCharsOk : Stmt → Bool
  | .seq name _ _ => nameOk name
  | .strand _ name _ _ => nameOk name
  | .struct _ name _ _ _ => nameOk name
  | .kinetic _ _ _ _ => true

/-- **source predicate**: every declared sequence / strand / structure name is non-empty over `[A-Za-z0-9_-]` -/
def srcCharsOk (src : Src) : Bool := src.stmts.all stmtCharsOk

/-! ### numerals -/

theorem digit_paramChar {c : Char} (h : c.isDigit = true) : isParamChar c = true := by
  simp [isParamChar, Char.isAlphanum, h]

def DecDigits (d : Dec) : Prop := (∀ c ∈ d.int, c.isDigit = true) ∧ (∀ c ∈ d.frac, c.isDigit = true)

theorem parseDec_digits {t : String} {d : Dec} (h : parseDec t = some d) : DecDigits d := by
  unfold parseDec at h
  simp only [] at h
  split at h
  · split at h
    · cases h
    · cases h
      exact ⟨fun c hc => (mem_takeWhile hc).1, fun _ hc => nomatch hc⟩
  · rename_i f _
    split at h
    · rename_i hf
      cases h
      simp only [Bool.and_eq_true, List.all_eq_true] at hf
      exact ⟨fun c hc => (mem_takeWhile hc).1, hf.1⟩
    · cases h
  · cases h

theorem mem_stripZeros {l : List Char} {c : Char} (h : c ∈ stripZeros l) : c = '0' ∨ c ∈ l := by
  unfold stripZeros at h
  cases hr : l.dropWhile (· == '0') with
  | nil => rw [hr] at h; simp only [List.mem_singleton] at h; exact Or.inl h
  | cons x y =>
    rw [hr] at h
    exact Or.inr ((List.dropWhile_sublist _).subset (by rw [hr]; exact h))

theorem mem_stripTrail {l : List Char} {c : Char} (h : c ∈ stripTrail l) : c ∈ l := by
  unfold stripTrail at h
  have := (List.dropWhile_sublist _).subset (List.mem_reverse.mp h)
  simpa using this

theorem fmtG_paramChars {d : Dec} (hd : DecDigits d) : d.fmtG.all isParamChar = true := by
  rw [List.all_eq_true]
  intro c hc
  unfold Dec.fmtG at hc
  have hz : ∀ c ∈ stripZeros d.int, isParamChar c = true := by
    intro c hc
    rcases mem_stripZeros hc with rfl | hc
    · decide
    · exact digit_paramChar (hd.1 c hc)
  cases hf : stripTrail d.frac with
  | nil => rw [hf] at hc; exact hz c hc
  | cons x y =>
    rw [hf] at hc
    rcases List.mem_append.mp hc with hc | hc
    · exact hz c hc
    · rcases List.mem_cons.mp hc with rfl | hc
      · decide
      · exact digit_paramChar (hd.2 c (mem_stripTrail (by rw [hf]; exact hc)))

theorem fmtF_paramChars {d : Dec} (hd : DecDigits d) : d.fmtF.all isParamChar = true := by
  rw [List.all_eq_true]
  intro c hc
  unfold Dec.fmtF at hc
  rcases List.mem_append.mp hc with hc | hc
  · rcases mem_stripZeros hc with rfl | hc
    · decide
    · exact digit_paramChar (hd.1 c hc)
  · rcases List.mem_cons.mp hc with rfl | hc
    · decide
    · have := (List.take_sublist _ _).subset hc
      rcases List.mem_append.mp this with h | h
      · exact digit_paramChar (hd.2 c h)
      · rw [List.eq_of_mem_replicate h]; decide

theorem optDec_digits {o : OptSrc} {d : Dec} (h : optDec o = some d) : DecDigits d := by
  cases o with
  | default => cases h; exact ⟨by decide, by decide⟩
  | noOpt => cases h; exact ⟨by decide, by decide⟩
  | value t => exact parseDec_digits h

theorem decOpt_ok {t : Option String} {d : Option Dec} (h : decOpt t = some d) : decOk d = true := by
  cases t with
  | none => cases h; rfl
  | some t =>
    simp only [decOpt, Option.map_eq_some_iff] at h
    obtain ⟨x, hx, rfl⟩ := h
    split
    · rfl
    · exact fmtF_paramChars (parseDec_digits hx)

/-! ### the invariant -/

/-- every declared name of the tables, prefixed, is a reader name; numerals print over `[0-9.]`; kinetic lines name
    structures of the table -/
structure NamesInv (pfx : String) (s : St) : Prop where
  seqs : ∀ n ∈ s.seqs.map (·.name), nameOk (pfx ++ n) = true
  strands : ∀ t ∈ s.strands, nameOk (pfx ++ t.name) = true
  structs : ∀ e ∈ s.structs, nameOk (pfx ++ e.name) = true ∧ e.opt.fmtG.all isParamChar = true
  kins : ∀ k ∈ s.kins, (∀ n ∈ k.ins ++ k.outs, nameOk (pfx ++ n) = true) ∧ decOk k.low = true ∧ decOk k.high = true

theorem regStep_seqs (new : List SeqE) (s : St) (i : ItemRef) :
    ∀ e ∈ (regStep new s i).seqs, e ∈ s.seqs ∨ e ∈ new := by
  intro e he
  unfold regStep at he
  split at he
  · exact Or.inl he
  · split at he
    · rename_i x hx
      rcases List.mem_append.mp he with he | he
      · exact Or.inl he
      · simp only [List.mem_singleton] at he; subst he
        exact Or.inr (List.mem_of_find?_eq_some hx)
    · exact Or.inl he

theorem regFold_seqs (new : List SeqE) : ∀ (its : List ItemRef) (s : St),
    ∀ e ∈ (its.foldl (regStep new) s).seqs, e ∈ s.seqs ∨ e ∈ new
  | [], _, e, he => Or.inl he
  | i :: r, s, e, he => by
    rw [List.foldl_cons] at he
    rcases regFold_seqs new r _ e he with h | h
    · exact regStep_seqs new s i e h
    · exact Or.inr h

theorem newAnon_names {a : Nat} {cs : List CItem} {len : Option Nat} {b : Built} (h : buildSuper a cs len = .ok b) :
    ∀ e ∈ b.newAnon, ∃ j, e.name = anonName j := by
  obtain ⟨sg, nf, _⟩ := buildSuper_nf h
  intro e he
  have hm : e.name ∈ (sgAnons sg).map (·.name) := List.mem_map.mpr ⟨e, (nf.memNew e).mp he, rfl⟩
  rw [sgAnons_names] at hm
  obtain ⟨j, _, hj⟩ := List.mem_map.mp hm
  exact ⟨j, hj.symm⟩

theorem registerAnon_names {pfx : String} (hp : charsOk pfx = true) {a : Nat} {cs : List CItem} {len : Option Nat}
    {b : Built} (hb : buildSuper a cs len = .ok b) (s : St)
    (hs : ∀ n ∈ s.seqs.map (·.name), nameOk (pfx ++ n) = true) :
    ∀ n ∈ (registerAnon s b).seqs.map (·.name), nameOk (pfx ++ n) = true := by
  intro n hn
  obtain ⟨e, he, rfl⟩ := List.mem_map.mp hn
  rw [registerAnon_eq] at he
  rcases regFold_seqs b.newAnon b.items s e he with h | h
  · exact hs _ (List.mem_map.mpr ⟨e, h, rfl⟩)
  · obtain ⟨j, hj⟩ := newAnon_names hb e h
    rw [hj]
    exact nameOk_append hp (nameOk_anonName j)

theorem findStruct_mem {s : St} {n : String} (h : (s.findStruct n).isSome = true) : ∃ e ∈ s.structs, e.name = n := by
  unfold St.findStruct at h
  cases hf : s.structs.find? (·.name == n) with
  | none => rw [hf] at h; cases h
  | some e =>
    refine ⟨e, List.mem_of_find?_eq_some hf, ?_⟩
    have := List.find?_some hf
    simpa using this

theorem addStmt_NamesInv {pfx : String} (hp : charsOk pfx = true) {s : St} {a : Nat} {stmt : Stmt} {s' : St} {a' : Nat}
    (hj : NamesInv pfx s) (hok : stmtCharsOk stmt = true) (h : addStmt s a stmt = .ok (s', a')) : NamesInv pfx s' := by
  cases stmt with
  | seq name items len =>
    simp only [stmtCharsOk] at hok
    by_cases hb : ∃ text, items = [.nuc text]
    · obtain ⟨text, rfl⟩ := hb
      obtain ⟨_, l, c, _, rfl, _⟩ := addStmt_seq_base h
      refine ⟨?_, hj.strands, hj.structs, hj.kins⟩
      intro n hn
      simp only [List.map_append, List.map_cons, List.map_nil, List.mem_append, List.mem_singleton] at hn
      rcases hn with hn | rfl
      · exact hj.seqs n hn
      · exact nameOk_append hp hok
    · obtain ⟨_, cs, b, _, hbd, rfl, _⟩ := addStmt_seq_sup (fun t ht => hb ⟨t, ht⟩) h
      obtain ⟨h1, h2, h3⟩ := registerAnon_fields { s with seqs := s.seqs ++ [⟨name, true, false, b.len, [], b.items, b.bases, false⟩] } b
      refine ⟨registerAnon_names hp hbd _ ?_, by rw [h1]; exact hj.strands, by rw [h2]; exact hj.structs,
        by rw [h3]; exact hj.kins⟩
      intro n hn
      simp only [List.map_append, List.map_cons, List.map_nil, List.mem_append, List.mem_singleton] at hn
      rcases hn with hn | rfl
      · exact hj.seqs n hn
      · exact nameOk_append hp hok
  | strand dummy name items len =>
    simp only [stmtCharsOk] at hok
    obtain ⟨_, cs, b, _, hbd, _, rfl, _⟩ := addStmt_strand h
    obtain ⟨h1, h2, h3⟩ := registerAnon_fields { s with strands := s.strands ++ [⟨name, dummy, b.len, b.items, b.bases, false⟩] } b
    refine ⟨?_, ?_, ?_, ?_⟩
    · have hm : ∀ (s0 : St) (bs : List BaseRef), (markInStrand s0 bs).seqs.map (·.name) = s0.seqs.map (·.name) := by
        intro s0 bs
        simp only [markInStrand, List.map_map]
        apply List.map_congr_left
        intro e _
        simp only [Function.comp]
        split <;> rfl
      rw [hm]
      exact registerAnon_names hp hbd _ hj.seqs
    · show ∀ t ∈ (registerAnon _ b).strands, _
      rw [h1]
      intro t ht
      rcases List.mem_append.mp ht with ht | ht
      · exact hj.strands t ht
      · simp only [List.mem_singleton] at ht; subst ht; exact nameOk_append hp hok
    · show ∀ e ∈ (registerAnon _ b).structs, _
      rw [h2]; exact hj.structs
    · show ∀ k ∈ (registerAnon _ b).kins, _
      rw [h3]; exact hj.kins
  | struct opt name strands domain text =>
    simp only [stmtCharsOk] at hok
    obtain ⟨_, objs, dp, full, optv, _, _, _, _, hopt, rfl, _⟩ := addStmt_struct h
    refine ⟨hj.seqs, ?_, ?_, hj.kins⟩
    · intro t ht
      simp only [List.mem_map] at ht
      obtain ⟨o, ho, rfl⟩ := ht
      split
      · exact hj.strands o ho
      · exact hj.strands o ho
    · intro e he
      rcases List.mem_append.mp he with he | he
      · exact hj.structs e he
      · simp only [List.mem_singleton] at he
        subst he
        exact ⟨nameOk_append hp hok, fmtG_paramChars (optDec_digits hopt)⟩
  | kinetic low high ins outs =>
    obtain ⟨hall, lo, hi, hlo, hhi, rfl, _⟩ := addStmt_kinetic h
    refine ⟨hj.seqs, hj.strands, hj.structs, ?_⟩
    intro k hk
    rcases List.mem_append.mp hk with hk | hk
    · exact hj.kins k hk
    · simp only [List.mem_singleton] at hk
      subst hk
      refine ⟨?_, decOpt_ok hlo, decOpt_ok hhi⟩
      intro n hn
      obtain ⟨e, he, rfl⟩ := findStruct_mem (List.all_eq_true.mp hall n hn)
      exact (hj.structs e he).1

theorem addStmts_NamesInv {pfx : String} (hp : charsOk pfx = true) : ∀ (stmts : List Stmt) {s : St} {a : Nat} {s' : St}
    {a' : Nat}, NamesInv pfx s → (∀ x ∈ stmts, stmtCharsOk x = true) → addStmts s a stmts = .ok (s', a') → NamesInv pfx s'
  | [], s, a, s', a', hj, _, h => by
    simp only [addStmts, Except.ok.injEq, Prod.mk.injEq] at h
    obtain ⟨rfl, rfl⟩ := h
    exact hj
  | x :: r, s, a, s', a', hj, hok, h => by
    simp only [addStmts] at h
    cases h1 : addStmt s a x with
    | error e => rw [h1] at h; cases h
    | ok v =>
      obtain ⟨s2, a2⟩ := v
      rw [h1] at h
      exact addStmts_NamesInv hp r (addStmt_NamesInv hp hj (hok x (by simp)) h1)
        (fun y hy => hok y (List.mem_cons_of_mem _ hy)) h

/-- **`compNamesOk` from the source**: for every state `Comp.load` returns under a prefix of name characters, from a
    source whose declared names are non-empty over `[A-Za-z0-9_-]` (and `UserNamesOk`, which gives the table invariant). -/
theorem compNamesOk_of_load {src : Src} {n : Nat} {pfx : String} {a : Nat} {st : St} {a' : Nat}
    (h : Comp.load src n pfx a = .ok (st, a')) (hnames : UserNamesOk src = true) (hp : charsOk pfx = true)
    (hsrc : srcCharsOk src = true) : compNamesOk st = true ∧ ∀ e ∈ st.seqs, nameOk (pfx ++ e.name) = true := by
  obtain ⟨⟨hw, _, _⟩, hpfx, _⟩ := LoadInv.load_inv_all h (LoadInv.stmtNamesOk_of_user hnames)
  obtain ⟨s, hadd, hio⟩ := load_inv h
  have hj0 : NamesInv pfx { name := src.name, pfx := pfx, params := src.params } :=
    { seqs := by intro n hn; cases hn
      strands := by intro n hn; cases hn
      structs := by intro n hn; cases hn
      kins := by intro n hn; cases hn }
  have hj : NamesInv pfx s := addStmts_NamesInv hp src.stmts hj0 (List.all_eq_true.mp hsrc) hadd
  obtain ⟨⟨_, hss, hst, hsu, hsk⟩, _⟩ := addIO_inv hio
  have hseq : ∀ e ∈ st.seqs, nameOk (pfx ++ e.name) = true := by
    intro e he
    rw [hss] at he
    exact hj.seqs _ (List.mem_map.mpr ⟨e, he, rfl⟩)
  have hitem : ∀ i, ItemOk st.seqs i → nameOk (pfx ++ i.name) = true := by
    intro i hi
    obtain ⟨e, he, hn⟩ := List.mem_map.mp hi.name_mem
    rw [← hn]; exact hseq e he
  refine ⟨?_, hseq⟩
  simp only [compNamesOk, Bool.and_eq_true, List.all_eq_true, hpfx]
  refine ⟨⟨⟨⟨?_, ?_⟩, ?_⟩, ?_⟩, ?_⟩
  · intro e he
    simp only [St.baseSeqs, List.mem_filter] at he
    exact hseq e he.1.1
  · intro e he
    simp only [St.supSeqs, List.mem_filter] at he
    refine ⟨hseq e he.1.1, ?_⟩
    intro i hi
    have hsup := ((hw.seqs.entries e he.1.1).sup he.1.2).1
    exact hitem i (hsup i (List.mem_filter.mp hi).1)
  · intro t ht
    refine ⟨by rw [hst] at ht; exact hj.strands t ht, ?_⟩
    intro i hi
    exact hitem i ((hw.strands t ht).items i (List.mem_filter.mp hi).1)
  · intro e he
    have he' : e ∈ s.structs := by rw [hsu] at he; exact he
    refine ⟨⟨(hj.structs e he').1, List.all_eq_true.mp (hj.structs e he').2⟩, ?_⟩
    intro n hn
    have hf := (hw.structs e he).found n hn
    cases hft : findT st.strands n with
    | none => rw [hft] at hf; cases hf
    | some t =>
      have hm : t ∈ st.strands := List.mem_of_find?_eq_some hft
      have hnm : t.name = n := by
        have := List.find?_some hft
        simpa using this
      rw [← hnm, hst] at *
      exact hj.strands t (by rw [hst] at hm; exact hm)
  · intro k hk
    rw [hsk] at hk
    obtain ⟨h1, h2, h3⟩ := hj.kins k hk
    exact ⟨⟨fun n hn => h1 n hn, h2⟩, h3⟩

/-! ### trees -/

open Pepper.Sys Pepper.LoadInv in
/-- the names a system statement introduces: instance and signal names are non-empty over `[A-Za-z0-9_-]` -/
def sstmtCharsOk : SStmt → Bool
  | .imports _ => true
  | .component cname _ _ ins outs => nameOk cname && (ins ++ outs).all (fun r => nameOk r.name)

open Pepper.Sys in
def sysCharsOk (s : SSrc) : Bool := s.stmts.all sstmtCharsOk

theorem charsOk_append {a b : String} (ha : charsOk a = true) (hb : charsOk b = true) : charsOk (a ++ b) = true := by
  simp only [charsOk, List.all_eq_true, String.toList_append] at *
  intro c hc
  rcases List.mem_append.mp hc with hc | hc
  · exact ha c hc
  · exact hb c hc

theorem charsOk_of_nameOk {a : String} (h : nameOk a = true) : charsOk a = true := by
  simp only [nameOk, Bool.and_eq_true] at h
  exact h.2

open Pepper.Sys Pepper.LoadInv in
theorem sys_names {s : SSrc} (h : sysCharsOk s = true) :
    (∀ n ∈ instNames s.stmts, nameOk n = true) ∧ (∀ n ∈ sigNames s.stmts, nameOk n = true) := by
  simp only [sysCharsOk, List.all_eq_true] at h
  constructor
  · intro n hn
    simp only [instNames, List.mem_flatMap] at hn
    obtain ⟨st, hst, hn⟩ := hn
    cases st with
    | imports _ => simp at hn
    | component c t a i o =>
      simp only [List.mem_singleton] at hn; subst hn
      have := h _ hst
      simp only [sstmtCharsOk, Bool.and_eq_true] at this
      exact this.1
  · intro n hn
    simp only [sigNames, List.mem_flatMap] at hn
    obtain ⟨st, hst, hn⟩ := hn
    cases st with
    | imports _ => simp at hn
    | component c t a i o =>
      have := h _ hst
      simp only [sstmtCharsOk, Bool.and_eq_true, List.all_eq_true] at this
      obtain ⟨r, hr, rfl⟩ := List.mem_map.mp hn
      exact this.2 r hr

open Pepper.Sys in
/-- the names by which a parent's `equal` lines refer to the ports of an instance, under the instance's prefix -/
def PortNamesOk (pfx : String) : Inst → Prop
  | .comp cst => ∀ e ∈ cst.seqs, nameOk (pfx ++ e.name) = true
  | .sys sst => ∀ m, (sst.lengths.lookup m).isSome = true → nameOk (pfx ++ m) = true

theorem compsNamesOk_of : ∀ (c : List (String × Sys.Inst)), (∀ x ∈ c, instNamesOk x.2 = true) → compsNamesOk c = true
  | [], _ => rfl
  | (n, i) :: r, h => by
    simp only [compsNamesOk, Bool.and_eq_true]
    exact ⟨h (n, i) (by simp), compsNamesOk_of r (fun x hx => h x (List.mem_cons_of_mem _ hx))⟩

open Pepper.Sys Pepper.LoadInv in
theorem loaded_names {pfx : String} {inst : Inst}
    (hL : Loaded (fun c => UserNamesOk c = true ∧ srcCharsOk c = true) (fun s => sysCharsOk s = true) pfx inst) :
    charsOk pfx = true → instNamesOk inst = true ∧ PortNamesOk pfx inst := by
  induction hL with
  | comp hP hload =>
    intro hp
    obtain ⟨h1, h2⟩ := compNamesOk_of_load hload hP.1 hp hP.2
    exact ⟨by simpa [instNamesOk] using h1, h2⟩
  | sys hQ hsub hinv hio ih =>
    rename_i s path name pfx tm sg lens comps
    intro hp
    obtain ⟨hin, hsn⟩ := sys_names hQ
    have hpc : ∀ c ∈ comps, charsOk (pfx ++ c.1 ++ "-") = true := by
      intro c hc
      exact charsOk_append (charsOk_append hp (charsOk_of_nameOk (hin _ (hinv.compNames c hc)))) (by decide)
    refine ⟨?_, ?_⟩
    · simp only [instNamesOk, sysNamesOk, Bool.and_eq_true]
      refine ⟨compsNamesOk_of _ (fun c hc => (ih c hc (hpc c hc)).1), ?_⟩
      simp only [signalsEmitOk, List.all_eq_true, Bool.and_eq_true]
      intro x hx
      refine ⟨nameOk_append hp (hsn _ (hinv.sigIn x hx)), ?_⟩
      intro e he
      obtain ⟨inst, len, hmem, _, hport⟩ := hinv.entries x hx e he
      have hpn := (ih (e.comp, inst) hmem (hpc _ hmem)).2
      unfold entryName
      cases inst with
      | comp cst =>
        cases hep : e.port with
        | seq i bases =>
          rw [hep] at hport
          obtain ⟨_, _, se, hf, _⟩ := hport
          obtain ⟨hm, hn⟩ := findE_some hf
          have := hpn se hm
          rw [hn] at this
          exact this
        | sig m => rw [hep] at hport; exact absurd hport (by simp [PortInv])
      | sys sst =>
        cases hep : e.port with
        | seq i bases => rw [hep] at hport; exact absurd hport (by simp [PortInv])
        | sig m =>
          rw [hep] at hport
          have : (sst.lengths.lookup m).isSome = true := by
            simp only [PortInv] at hport; rw [hport]; rfl
          exact hpn m this
    · intro m hm
      simp only [SysSt.lengths] at hm
      rw [lookup_isSome_iff, hinv.keys] at hm
      obtain ⟨x, hx, rfl⟩ := List.mem_map.mp hm
      exact nameOk_append hp (hsn _ (hinv.sigIn x hx))

open Pepper.Sys Pepper.LoadInv in
/-- **`instNamesOk` from the sources**: for every tree `Sys.loadFile` returns under a prefix of name characters, from a
    bundle whose component sources have `UserNamesOk` and declare names over `[A-Za-z0-9_-]` (`srcCharsOk`) and whose
    system sources name instances and signals over `[A-Za-z0-9_-]` (`sysCharsOk`) -/
theorem instNamesOk_of_loadFile {b : Bundle}
    (hc : ∀ k c, b.files.lookup k = some (.comp c) → UserNamesOk c = true ∧ srcCharsOk c = true)
    (hs : ∀ k s, b.files.lookup k = some (.sys s) → sysCharsOk s = true)
    {fuel : Nat} {base : String} {args : Nat} {argKey pfx path : String} {includes : List String} {anon : Nat}
    {inst : Inst} {a' : Nat} (h : loadFile b fuel base args argKey pfx path includes anon = .ok (inst, a'))
    (hp : charsOk pfx = true) : instNamesOk inst = true :=
  (loaded_names (loadFile_loaded hc hs _ _ _ _ _ _ _ _ _ _ h) hp).1

open Pepper.Sys in
/-- **bundle predicate** (decidable): every component source declares names over `[A-Za-z0-9_-]`, every system source
    names its instances and signals over `[A-Za-z0-9_-]` -/
def bundleCharsOk (b : Bundle) : Bool :=
  b.files.all (fun kf => match kf.2 with
    | .comp c => srcCharsOk c
    | .sys s => sysCharsOk s)

open Pepper.Sys Pepper.LoadInv in
theorem bundleCharsOk_comp {b : Bundle} (h : bundleCharsOk b = true) {k : String} {c : Comp.Src}
    (hl : b.files.lookup k = some (.comp c)) : srcCharsOk c = true := by
  simp only [bundleCharsOk, List.all_eq_true] at h
  exact h _ (lookup_mem hl)

open Pepper.Sys Pepper.LoadInv in
theorem bundleCharsOk_sys {b : Bundle} (h : bundleCharsOk b = true) {k : String} {s : SSrc}
    (hl : b.files.lookup k = some (.sys s)) : sysCharsOk s = true := by
  simp only [bundleCharsOk, List.all_eq_true] at h
  exact h _ (lookup_mem hl)

end Pepper.ParsePil
