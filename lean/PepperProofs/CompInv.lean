import PepperProofs.CompReg
/-!
# Inversion of `Comp.addStmt`: what an accepted statement did (C01)
-/
set_option linter.unusedSimpArgs false
namespace Pepper.Comp
open Pepper.Constraint

theorem addStmt_seq_base {s : St} {a : Nat} {name : String} {text : List Char} {len : Option Nat} {s' : St} {a' : Nat}
    (h : addStmt s a (.seq name [.nuc text] len) = .ok (s', a')) :
    findE s.seqs name = none ∧ ∃ l c, resolve (parseQuoted text) len = .ok (l, c) ∧
      s' = { s with seqs := s.seqs ++ [⟨name, false, false, l, c, [], [⟨name, false, l⟩], false⟩] } ∧ a' = a := by
  simp only [addStmt] at h
  by_cases hf : (s.findSeq name).isSome = true
  · simp [hf] at h
  · rw [if_neg hf] at h
    cases hr : resolve (parseQuoted text) len with
    | error e => simp [hr] at h
    | ok v =>
      obtain ⟨l, c⟩ := v
      simp only [hr, Except.ok.injEq, Prod.mk.injEq] at h
      refine ⟨by simpa [findSeq_eq] using hf, l, c, rfl, h.1.symm, h.2.symm⟩

theorem addStmt_seq_sup {s : St} {a : Nat} {name : String} {items : List SrcItem} {len : Option Nat} {s' : St} {a' : Nat}
    (hne : ∀ text, items ≠ [.nuc text])
    (h : addStmt s a (.seq name items len) = .ok (s', a')) :
    findE s.seqs name = none ∧ ∃ cs b, cleanConst s items = .ok cs ∧ buildSuper a cs len = .ok b ∧
      s' = registerAnon { s with seqs := s.seqs ++ [⟨name, true, false, b.len, [], b.items, b.bases, false⟩] } b ∧
      a' = b.anon := by
  simp only [addStmt] at h
  by_cases hf : (s.findSeq name).isSome = true
  · simp [hf] at h
  · rw [if_neg hf] at h
    cases hc : cleanConst s items with
    | error e => simp [hc, bind, Except.bind] at h
    | ok cs =>
      cases hb : buildSuper a cs len with
      | error e => simp [hc, hb, bind, Except.bind] at h
      | ok b =>
        simp only [hc, hb, bind, Except.bind, pure, Except.pure, Except.ok.injEq, Prod.mk.injEq] at h
        exact ⟨by simpa [findSeq_eq] using hf, cs, b, rfl, hb, h.1.symm, h.2.symm⟩

theorem addStmt_strand {s : St} {a : Nat} {dummy : Bool} {name : String} {items : List SrcItem} {len : Option Nat} {s' : St} {a' : Nat}
    (h : addStmt s a (.strand dummy name items len) = .ok (s', a')) :
    findT s.strands name = none ∧ ∃ cs b, cleanConst s items = .ok cs ∧ buildSuper a cs len = .ok b ∧ b.len ≠ 0 ∧
      s' = markInStrand (registerAnon { s with strands := s.strands ++ [⟨name, dummy, b.len, b.items, b.bases, false⟩] } b) b.bases ∧
      a' = b.anon := by
  simp only [addStmt] at h
  by_cases hf : (s.findStrand name).isSome = true
  · simp [hf, bind, Except.bind, throw, throwThe, MonadExceptOf.throw] at h
  · cases hc : cleanConst s items with
    | error e => simp [hf, hc, bind, Except.bind] at h
    | ok cs =>
      cases hb : buildSuper a cs len with
      | error e => simp [hf, hc, hb, bind, Except.bind] at h
      | ok b =>
        by_cases hz : b.len = 0
        · simp [hf, hc, hb, hz, bind, Except.bind, throw, throwThe, MonadExceptOf.throw] at h
        · simp [hf, hc, hb, hz, bind, Except.bind, pure, Except.pure] at h
          exact ⟨by simpa [findStrand_eq] using hf, cs, b, rfl, hb, hz, h.1.symm, h.2.symm⟩

/-- the optimisation value `addStmt` stores -/
def optDec : OptSrc → Option Dec
  | .default => some ⟨['1'], []⟩
  | .noOpt => some ⟨['0'], []⟩
  | .value t => parseDec t

theorem addStmt_struct {s : St} {a : Nat} {opt : OptSrc} {name : String} {strands : List String} {domain : Bool}
    {text : List Char} {s' : St} {a' : Nat}
    (h : addStmt s a (.struct opt name strands domain text) = .ok (s', a')) :
    s.findStruct name = none ∧ ∃ objs dp full optv,
      strands.mapM (fun n => match s.findStrand n with
        | some o => pure o | none => throw Err.undefinedStrand) = Except.ok objs ∧
      Notation.compileStruct text = some dp ∧
      (if domain then Notation.domainExpand dp (objs.map (fun o => o.items.map (·.len))) = some full else full = dp) ∧
      Notation.sizesOk full (objs.map (·.len)) = true ∧
      optDec opt = some optv ∧
      s' = { s with strands := s.strands.map (fun (o : StrandE) => if strands.contains o.name then { o with inStructure := true } else o),
                    structs := s.structs ++ [⟨name, optv, strands, full, objs.flatMap (·.bases)⟩] } ∧
      a' = a := by
  by_cases hf : (s.findStruct name).isSome = true
  · simp [addStmt, hf, bind, Except.bind, throw, throwThe, MonadExceptOf.throw] at h
  simp only [addStmt, hf, bind, Except.bind, pure, Except.pure, Bool.false_eq_true, if_false] at h
  split at h
  · simp at h
  rename_i objs hobjs
  split at h
  rotate_left
  · simp [throw, throwThe, MonadExceptOf.throw] at h
  rename_i dp hdp
  cases domain with
  | false =>
    simp only [Bool.false_eq_true, if_false] at h
    by_cases hsz : Notation.sizesOk dp (objs.map (·.len)) = true
    · simp only [hsz, Bool.not_true, Bool.false_eq_true, if_false] at h
      cases opt with
      | default =>
        simp only [Except.ok.injEq, Prod.mk.injEq] at h
        exact ⟨by simpa using hf, objs, dp, dp, _, hobjs, hdp, by simp, hsz, rfl, h.1.symm, h.2.symm⟩
      | noOpt =>
        simp only [Except.ok.injEq, Prod.mk.injEq] at h
        exact ⟨by simpa using hf, objs, dp, dp, _, hobjs, hdp, by simp, hsz, rfl, h.1.symm, h.2.symm⟩
      | value t =>
        cases hp : parseDec t with
        | none => simp [hp, throw, throwThe, MonadExceptOf.throw] at h
        | some d =>
          simp only [hp, Except.ok.injEq, Prod.mk.injEq] at h
          exact ⟨by simpa using hf, objs, dp, dp, d, hobjs, hdp, by simp, hsz, hp, h.1.symm, h.2.symm⟩
    · simp [hsz, throw, throwThe, MonadExceptOf.throw] at h
  | true =>
    simp only [if_true] at h
    cases hfull : Notation.domainExpand dp (objs.map (fun o => o.items.map (·.len))) with
    | none => simp [hfull, throw, throwThe, MonadExceptOf.throw] at h
    | some full =>
      simp only [hfull] at h
      by_cases hsz : Notation.sizesOk full (objs.map (·.len)) = true
      · simp only [hsz, Bool.not_true, Bool.false_eq_true, if_false] at h
        cases opt with
        | default =>
          simp only [Except.ok.injEq, Prod.mk.injEq] at h
          exact ⟨by simpa using hf, objs, dp, full, _, hobjs, hdp, by simp [hfull], hsz, rfl, h.1.symm, h.2.symm⟩
        | noOpt =>
          simp only [Except.ok.injEq, Prod.mk.injEq] at h
          exact ⟨by simpa using hf, objs, dp, full, _, hobjs, hdp, by simp [hfull], hsz, rfl, h.1.symm, h.2.symm⟩
        | value t =>
          cases hp : parseDec t with
          | none => simp [hp, throw, throwThe, MonadExceptOf.throw] at h
          | some d =>
            simp only [hp, Except.ok.injEq, Prod.mk.injEq] at h
            exact ⟨by simpa using hf, objs, dp, full, d, hobjs, hdp, by simp [hfull], hsz, hp, h.1.symm, h.2.symm⟩
      · simp [hsz, throw, throwThe, MonadExceptOf.throw] at h

/-- the rate bound `addStmt` stores: `none` = the default (0 / inf) -/
def decOpt : Option String → Option (Option Dec)
  | none => some none
  | some t => (parseDec t).map (fun d => if d.isZero then none else some d)

theorem addStmt_kinetic {s : St} {a : Nat} {low high : Option String} {ins outs : List String} {s' : St} {a' : Nat}
    (h : addStmt s a (.kinetic low high ins outs) = .ok (s', a')) :
    (ins ++ outs).all (fun n => (s.findStruct n).isSome) = true ∧ ∃ lo hi, decOpt low = some lo ∧ decOpt high = some hi ∧
      s' = { s with kins := s.kins ++ [⟨"Kin" ++ toString s.kins.length, ins, outs, lo, hi⟩] } ∧ a' = a := by
  by_cases hf : (ins ++ outs).all (fun n => (s.findStruct n).isSome) = true
  · refine ⟨hf, ?_⟩
    rcases low with _ | tl <;> rcases high with _ | th
    · simp only [addStmt, hf, bind, Except.bind, pure, Except.pure, Bool.not_true, Bool.false_eq_true, if_false,
        Except.ok.injEq, Prod.mk.injEq] at h
      exact ⟨none, none, rfl, rfl, h.1.symm, h.2.symm⟩
    · cases hph : parseDec th with
      | none => simp [addStmt, hf, hph, bind, Except.bind, pure, Except.pure, throw, throwThe, MonadExceptOf.throw] at h
      | some d =>
        simp only [addStmt, hf, hph, bind, Except.bind, pure, Except.pure, Bool.not_true, Bool.false_eq_true, if_false,
          Except.ok.injEq, Prod.mk.injEq] at h
        exact ⟨none, _, rfl, by simp [decOpt, hph], h.1.symm, h.2.symm⟩
    · cases hpl : parseDec tl with
      | none => simp [addStmt, hf, hpl, bind, Except.bind, pure, Except.pure, throw, throwThe, MonadExceptOf.throw] at h
      | some d =>
        simp only [addStmt, hf, hpl, bind, Except.bind, pure, Except.pure, Bool.not_true, Bool.false_eq_true, if_false,
          Except.ok.injEq, Prod.mk.injEq] at h
        exact ⟨_, none, by simp [decOpt, hpl], rfl, h.1.symm, h.2.symm⟩
    · cases hpl : parseDec tl with
      | none => simp [addStmt, hf, hpl, bind, Except.bind, pure, Except.pure, throw, throwThe, MonadExceptOf.throw] at h
      | some d =>
        cases hph : parseDec th with
        | none => simp [addStmt, hf, hpl, hph, bind, Except.bind, pure, Except.pure, throw, throwThe, MonadExceptOf.throw] at h
        | some d2 =>
          simp only [addStmt, hf, hpl, hph, bind, Except.bind, pure, Except.pure, Bool.not_true, Bool.false_eq_true, if_false,
            Except.ok.injEq, Prod.mk.injEq] at h
          exact ⟨_, _, by simp [decOpt, hpl], by simp [decOpt, hph], h.1.symm, h.2.symm⟩
  · simp [addStmt, hf, bind, Except.bind, throw, throwThe, MonadExceptOf.throw] at h

/-! ### `cleanConst` -/

theorem cleanConst_ref {s : St} {n : String} {st : Bool} {r : List SrcItem} {cs : List CItem}
    (h : cleanConst s (.ref n st :: r) = .ok cs) :
    ∃ e rest, findE s.seqs n = some e ∧ cleanConst s r = .ok rest ∧
      cs = .obj ⟨e.name, st, e.len, e.isSup⟩ (basesOfView e st) :: rest := by
  simp only [cleanConst] at h
  split at h
  · simp [throw, throwThe, MonadExceptOf.throw] at h
  · rename_i e he
    cases hr : cleanConst s r with
    | error x => simp [hr, bind, Except.bind] at h
    | ok rest =>
      simp only [hr, bind, Except.bind, pure, Except.pure, Except.ok.injEq] at h
      exact ⟨e, rest, he, rfl, h.symm⟩

theorem cleanConst_nuc {s : St} {text : List Char} {r : List SrcItem} {cs : List CItem}
    (h : cleanConst s (.nuc text :: r) = .ok cs) :
    ∃ rest, cleanConst s r = .ok rest ∧ cs = .nuc (parseQuoted text) :: rest := by
  simp only [cleanConst] at h
  cases hr : cleanConst s r with
  | error x => simp [hr, bind, Except.bind] at h
  | ok rest =>
    simp only [hr, bind, Except.bind, pure, Except.pure, Except.ok.injEq] at h
    exact ⟨rest, rfl, h.symm⟩

theorem cleanConst_domains {s : St} {n : String} {st : Bool} {r : List SrcItem} {cs : List CItem}
    (h : cleanConst s (.domains n st :: r) = .ok cs) :
    ∃ e objs rest, findE s.seqs n = some e ∧ e.isSup = true ∧
      (itemsOfView e st).mapM (fun (i : ItemRef) => match s.findSeq i.name with
        | some ie => (pure (CItem.obj i (basesOfView ie i.rev)) : Except Err CItem)
        | none => throw Err.other) = .ok objs ∧
      cleanConst s r = .ok rest ∧ cs = objs ++ rest := by
  simp only [cleanConst] at h
  split at h
  · rename_i e he
    cases hs : e.isSup with
    | false => simp [hs, bind, Except.bind, throw, throwThe, MonadExceptOf.throw] at h
    | true =>
      simp only [hs, Bool.not_true, Bool.false_eq_true, if_false, bind, Except.bind, pure, Except.pure] at h
      split at h
      · simp at h
      · rename_i objs hobjs
        cases hr : cleanConst s r with
        | error x => simp [hr] at h
        | ok rest =>
          simp only [hr, Except.ok.injEq] at h
          exact ⟨e, objs, rest, he, hs, hobjs, rfl, h.symm⟩
  · simp [throw, throwThe, MonadExceptOf.throw] at h
end Pepper.Comp
