import PepperProofs.ParseCompChars
/-!
# Shape of everything the `.comp` statement parser accepts (`parse_names_wellformed`)

`parseLineL_acc`, `parseDeclareL_acc`: an accepted statement / declare line satisfies `accStmt` / `accDecl`;
`parseLineL_not_forbidden`: the command word of an accepted line is one of the four statement keywords.
Method: the inversion lemmas of `ParseCompEngine.lean` applied along each regex.
-/
namespace Pepper.ParseComp
open Pepper.Comp

/-! ### generic helpers -/

theorem mapM_option_mem {α β} {f : α → Option β} {l : List α} {ys : List β} (h : l.mapM f = some ys) :
    ∀ y ∈ ys, ∃ x ∈ l, f x = some y := by
  induction l generalizing ys with
  | nil =>
    rw [List.mapM_nil] at h
    cases h
    intro y hy
    cases hy
  | cons a r ih =>
    rw [List.mapM_cons] at h
    cases hfa : f a with
    | none => rw [hfa] at h; cases h
    | some b =>
      rw [hfa] at h
      cases hr : List.mapM f r with
      | none => rw [hr] at h; cases h
      | some bs =>
        rw [hr] at h
        cases h
        intro y hy
        rcases List.mem_cons.1 hy with rfl | hy
        · exact ⟨a, List.mem_cons_self, hfa⟩
        · obtain ⟨x, hx, e⟩ := ih hr y hy
          exact ⟨x, List.mem_cons_of_mem _ hx, e⟩

theorem mapM_except_mem {α β ε} {f : α → Except ε β} {l : List α} {ys : List β} (h : l.mapM f = .ok ys) :
    ∀ y ∈ ys, ∃ x ∈ l, f x = .ok y := by
  induction l generalizing ys with
  | nil =>
    rw [List.mapM_nil] at h
    cases h
    intro y hy
    cases hy
  | cons a r ih =>
    rw [List.mapM_cons] at h
    cases hfa : f a with
    | error e => rw [hfa] at h; cases h
    | ok b =>
      rw [hfa] at h
      cases hr : List.mapM f r with
      | error e => rw [hr] at h; cases h
      | ok bs =>
        rw [hr] at h
        cases h
        intro y hy
        rcases List.mem_cons.1 hy with rfl | hy
        · exact ⟨a, List.mem_cons_self, hfa⟩
        · obtain ⟨x, hx, e⟩ := ih hr y hy
          exact ⟨x, List.mem_cons_of_mem _ hx, e⟩

theorem nameOkL_of {n : Str} (hne : n ≠ []) (hall : ∀ c ∈ n, isName c = true) : nameOkL n = true := by
  simp only [nameOkL, Bool.and_eq_true, Bool.not_eq_true', List.isEmpty_eq_false_iff, List.all_eq_true]
  exact ⟨hne, hall⟩

theorem nameOk_ofList {n : Str} (hne : n ≠ []) (hall : ∀ c ∈ n, isName c = true) : nameOk (String.ofList n) = true := by
  simp only [nameOk, String.toList_ofList]
  exact nameOkL_of hne hall

/-! ### `splitOn`, `strip` -/

theorem splitOn_mem {c : Char} {s p : Str} (h : p ∈ splitOn c s) : ∀ x ∈ p, x ∈ s ∧ x ≠ c := by
  induction s generalizing p with
  | nil =>
    simp only [splitOn, List.mem_singleton] at h
    subst h
    intro x hx
    cases hx
  | cons y r ih =>
    simp only [splitOn] at h
    split at h
    · rcases List.mem_cons.1 h with rfl | h
      · intro x hx; cases hx
      · intro x hx
        obtain ⟨h1, h2⟩ := ih h x hx
        exact ⟨List.mem_cons_of_mem _ h1, h2⟩
    · rename_i hyc
      split at h
      · simp only [List.mem_singleton] at h
        subst h
        intro x hx
        simp only [List.mem_singleton] at hx
        subst hx
        exact ⟨List.mem_cons_self, hyc⟩
      · rename_i hd tl e
        rcases List.mem_cons.1 h with rfl | h
        · intro x hx
          rcases List.mem_cons.1 hx with rfl | hx
          · exact ⟨List.mem_cons_self, hyc⟩
          · obtain ⟨h1, h2⟩ := ih (p := hd) (by rw [e]; exact List.mem_cons_self) x hx
            exact ⟨List.mem_cons_of_mem _ h1, h2⟩
        · intro x hx
          obtain ⟨h1, h2⟩ := ih (p := p) (by rw [e]; exact List.mem_cons_of_mem _ h) x hx
          exact ⟨List.mem_cons_of_mem _ h1, h2⟩

theorem headNot_dropWhile (p : Char → Bool) (s : Str) : HeadNot p (s.dropWhile p) := by
  induction s with
  | nil => exact headNot_nil
  | cons c r ih =>
    rw [List.dropWhile_cons]
    split
    · exact ih
    · rename_i h
      exact headNot_cons (by simpa using h)

theorem mem_dropWhile {p : Char → Bool} {s : Str} {x : Char} (h : x ∈ s.dropWhile p) : x ∈ s :=
  (List.dropWhile_sublist p).subset h

theorem rstrip_sub {s : Str} {x : Char} (h : x ∈ rstrip s) : x ∈ s := by
  unfold rstrip at h
  rw [List.mem_reverse] at h
  exact List.mem_reverse.1 (mem_dropWhile h)

theorem strip_sub {s : Str} {x : Char} (h : x ∈ strip s) : x ∈ s := by
  unfold strip at h
  exact mem_dropWhile (rstrip_sub h)

theorem rstrip_prefix (d : Str) : ∃ t, d = rstrip d ++ t := by
  refine ⟨(d.reverse.takeWhile isSp).reverse, ?_⟩
  unfold rstrip
  rw [← List.reverse_append, List.takeWhile_append_dropWhile, List.reverse_reverse]

theorem rstrip_headNot {d : Str} (h : HeadNot isSp d) : HeadNot isSp (rstrip d) := by
  intro c r e
  obtain ⟨t, ht⟩ := rstrip_prefix d
  rw [e] at ht
  exact h c (r ++ t) ht

theorem rstrip_rstrip (d : Str) : rstrip (rstrip d) = rstrip d := by
  unfold rstrip
  rw [List.reverse_reverse, dropWhile_headNot (headNot_dropWhile _ _)]

theorem strip_strip (s : Str) : strip (strip s) = strip s := by
  unfold strip
  rw [dropWhile_headNot (rstrip_headNot (headNot_dropWhile _ _)), rstrip_rstrip]

theorem strippedL_strip (s : Str) : strippedL (strip s) = true := by
  simp only [strippedL, strip_strip, beq_self_eq_true]

/-- a piece of `[x.strip() for x in text.split(c)]` -/
theorem splitStrip_mem {c : Char} {s p : Str} (h : p ∈ (splitOn c s).map strip) :
    strippedL p = true ∧ ∀ x ∈ p, x ∈ s ∧ x ≠ c := by
  obtain ⟨q, hq, rfl⟩ := List.mem_map.1 h
  exact ⟨strippedL_strip q, fun x hx => splitOn_mem hq x (strip_sub hx)⟩

theorem splitStripNonEmpty_mem {c : Char} {s p : Str} (h : p ∈ splitStripNonEmpty c s) :
    p ≠ [] ∧ strippedL p = true ∧ ∀ x ∈ p, x ∈ s ∧ x ≠ c := by
  unfold splitStripNonEmpty at h
  obtain ⟨h1, h2⟩ := List.mem_filter.1 h
  refine ⟨?_, splitStrip_mem h1⟩
  simpa using h2

/-! ### `parse_constraints` -/

/-- what `re.findall(ITEM, …)` returns: a quoted body over `[?\w\s]`, or a word that does not start with `"` -/
def ItemWord (w : Str) : Prop := (∀ c ∈ w, c = '"' ∨ isBodyCh c = true) ∨ (∃ c r, w = c :: r ∧ c ≠ '"')

theorem reItem_word {t w rest : Str} (h : reItem (fun m rest => some (m, rest)) t = some (w, rest)) : ItemWord w := by
  unfold reItem at h
  rcases alt_some h with h | h
  · obtain ⟨r1, -, h⟩ := lit_some h
    obtain ⟨b, r2, -, -, hb, h⟩ := plus_some h
    obtain ⟨r3, -, h⟩ := lit_some h
    simp only [Option.some.injEq, Prod.mk.injEq] at h
    left
    rw [← h.1]
    intro c hc
    simp only [List.cons_append, List.mem_cons, List.mem_append, List.not_mem_nil, or_false] at hc
    rcases hc with rfl | hc | rfl
    · exact Or.inl rfl
    · exact Or.inr (hb c hc)
    · exact Or.inl rfl
  · right
    rcases alt_some h with h | h
    · obtain ⟨r1, -, h⟩ := lit_some h
      obtain ⟨n, r2, -, -, -, h⟩ := plus_some h
      rcases alt_some h with h | h
      · obtain ⟨r3, -, h⟩ := lit_some h
        obtain ⟨r4, -, h⟩ := lit_some h
        simp only [Option.some.injEq, Prod.mk.injEq] at h
        exact ⟨'d', _, h.1.symm, by decide⟩
      · obtain ⟨r3, -, h⟩ := lit_some h
        simp only [Option.some.injEq, Prod.mk.injEq] at h
        exact ⟨'d', _, h.1.symm, by decide⟩
    · obtain ⟨n, r2, -, hne, hn, h⟩ := plus_some h
      cases n with
      | nil => exact absurd rfl hne
      | cons c n' =>
        have hc : c ≠ '"' := name_ne (hn c List.mem_cons_self) (by decide)
        rcases alt_some h with h | h
        · obtain ⟨r3, -, h⟩ := lit_some h
          simp only [Option.some.injEq, Prod.mk.injEq] at h
          exact ⟨c, _, h.1.symm, hc⟩
        · simp only [Option.some.injEq, Prod.mk.injEq] at h
          exact ⟨c, _, h.1.symm, hc⟩

theorem findItems_mem {f : Nat} {s w : Str} (h : w ∈ findItems f s) : ItemWord w := by
  induction f generalizing s with
  | zero => simp [findItems] at h
  | succ f ih =>
    cases s with
    | nil => simp [findItems] at h
    | cons c r =>
      simp only [findItems] at h
      split at h
      · rename_i m rest e
        rcases List.mem_cons.1 h with rfl | h
        · exact reItem_word e
        · exact ih h
      · exact ih h

theorem parseConstraint_wf {w : Str} {it : SrcItem} (hw : ItemWord w) (h : parseConstraint w = some it) : wfItem it = true := by
  unfold parseConstraint at h
  split at h
  · rename_i b e
    cases h
    unfold reC1 at e
    obtain ⟨r1, hw1, e⟩ := lit_some e
    obtain ⟨b', r2, hr1, hne, hb', e⟩ := plus_some e
    obtain ⟨r3, hr2, e⟩ := lit_some e
    obtain ⟨rfl, -⟩ := endZ_some e
    simp only [wfItem, Bool.and_eq_true, Bool.not_eq_true', List.isEmpty_eq_false_iff, List.all_eq_true]
    refine ⟨hne, ?_⟩
    intro c hc
    rcases hw with hw | ⟨c', r', hw, hq⟩
    · rcases hw c (by rw [hw1, hr1]; simp [hc]) with rfl | hc'
      · exact absurd rfl (body2_notQuote (hb' _ hc))
      · exact hc'
    · rw [hw1] at hw
      simp only [List.cons_append, List.nil_append, List.cons.injEq] at hw
      exact absurd hw.1.symm hq
  · split at h
    · rename_i n st e
      cases h
      unfold reC2 at e
      obtain ⟨n', r2, -, hne, hn, e⟩ := plus_some e
      have : n = n' := by
        rcases alt_some e with e | e
        · obtain ⟨r3, -, e⟩ := lit_some e
          exact (Prod.mk.inj (endZ_some e).1).1
        · exact (Prod.mk.inj (endZ_some e).1).1
      subst this
      exact nameOk_ofList hne hn
    · split at h
      · rename_i n st e
        cases h
        unfold reC3 at e
        obtain ⟨r1, -, e⟩ := lit_some e
        obtain ⟨n', r2, -, hne, hn, e⟩ := plus_some e
        have : n = n' := by
          rcases alt_some e with e | e
          · obtain ⟨r3, -, e⟩ := lit_some e
            obtain ⟨r4, -, e⟩ := lit_some e
            exact (Prod.mk.inj (endZ_some e).1).1
          · obtain ⟨r3, -, e⟩ := lit_some e
            exact (Prod.mk.inj (endZ_some e).1).1
        subst this
        exact nameOk_ofList hne hn
      · cases h

theorem parseConstraints_wf {s : Str} {items : List SrcItem} (h : parseConstraints s = .ok items) :
    items.all wfItem = true := by
  unfold parseConstraints at h
  split at h
  · cases h
  · split at h
    · rename_i l e
      cases h
      rw [List.all_eq_true]
      intro it hit
      obtain ⟨w, hw, hp⟩ := mapM_option_mem e it hit
      exact parseConstraint_wf (findItems_mem hw) hp
    · cases h

/-! ### `sequence`, `strand` -/

theorem nameOk_ofList' {n : Str} (h : nameOkL n = true) : nameOk (String.ofList n) = true := by
  simp only [nameOk, String.toList_ofList]
  exact h

theorem lenTail_some {α : Type} {f : Option Str → α} {s : Str} {v : α} (h : lenTail f s = some v) : ∃ l, v = f l := by
  unfold lenTail at h
  rcases alt_some h with h | h
  · obtain ⟨_, _, -, -, -, h⟩ := sp1_some h
    obtain ⟨_, -, h⟩ := lit_some h
    obtain ⟨_, _, -, -, -, h⟩ := sp1_some h
    obtain ⟨len, _, -, -, -, h⟩ := plus_some h
    exact ⟨some len, (endZ_some h).1⟩
  · exact ⟨none, (endZ_some h).1⟩

/-- `([\w-]+)\s+=\s+([^:]+)(\s+:\s+(\d+))?\s*\Z` -/
theorem nameEq_some {α : Type} {g : Str → Str → Option Str → α} {s : Str} {v : α}
    (h : plus isName (fun name => sp1 <| lit ['='] <| sp1 <| plus notColon fun cons => lenTail fun len => g name cons len) s
      = some v) :
    ∃ name cons len, nameOkL name = true ∧ v = g name cons len := by
  obtain ⟨name, _, -, hne, hn, h⟩ := plus_some h
  obtain ⟨_, _, -, -, -, h⟩ := sp1_some h
  obtain ⟨_, -, h⟩ := lit_some h
  obtain ⟨_, _, -, -, -, h⟩ := sp1_some h
  obtain ⟨cons, _, -, -, -, h⟩ := plus_some h
  obtain ⟨l, h⟩ := lenTail_some h
  exact ⟨name, cons, l, nameOkL_of hne hn, h⟩

theorem reSeq_some {s name cons : Str} {len : Option Str} (h : reSeq s = some (name, cons, len)) : nameOkL name = true := by
  unfold reSeq at h
  obtain ⟨_, -, h⟩ := lit_some h
  obtain ⟨_, _, -, -, -, h⟩ := sp1_some h
  obtain ⟨n, c, l, hn, e⟩ := nameEq_some (g := fun name cons len => (name, cons, len)) h
  simp only [Prod.mk.injEq] at e
  rw [e.1]
  exact hn

theorem reStrand_some {s name cons : Str} {d : Bool} {len : Option Str} (h : reStrand s = some (d, name, cons, len)) :
    nameOkL name = true := by
  unfold reStrand at h
  obtain ⟨_, -, h⟩ := lit_some h
  obtain ⟨_, _, -, -, -, h⟩ := sp1_some h
  rcases alt_some h with h | h
  · obtain ⟨_, -, h⟩ := lit_some h
    obtain ⟨_, _, -, -, -, h⟩ := sp1_some h
    obtain ⟨n, c, l, hn, e⟩ := nameEq_some (g := fun name cons len => (true, name, cons, len)) h
    simp only [Prod.mk.injEq] at e
    rw [e.2.1]
    exact hn
  · obtain ⟨n, c, l, hn, e⟩ := nameEq_some (g := fun name cons len => (false, name, cons, len)) h
    simp only [Prod.mk.injEq] at e
    rw [e.2.1]
    exact hn

theorem parseSeq_acc {s : Str} {st : Stmt} (h : parseSeq s = .ok st) : accStmt st = true := by
  unfold parseSeq at h
  split at h
  · cases h
  · rename_i name cons len e
    split at h
    · cases h
    · rename_i items hc
      cases h
      simp only [accStmt, Bool.and_eq_true]
      exact ⟨nameOk_ofList' (reSeq_some e), parseConstraints_wf hc⟩

theorem parseStrand_acc {s : Str} {st : Stmt} (h : parseStrand s = .ok st) : accStmt st = true := by
  unfold parseStrand at h
  split at h
  · cases h
  · rename_i d name cons len e
    split at h
    · cases h
    · rename_i items hc
      cases h
      simp only [accStmt, Bool.and_eq_true]
      exact ⟨nameOk_ofList' (reStrand_some e), parseConstraints_wf hc⟩

/-! ### `structure` -/

theorem structTail_some {o : OptM} {s : Str} {v : OptM × Str × Str × Bool × Str} (h : structTail o s = some v) :
    ∃ name strands dom text, v = (o, name, strands, dom, text) ∧ nameOkL name = true ∧
      (∀ c ∈ strands, notColon c = true) ∧ text ≠ [] ∧ ∀ c ∈ text, isStructCh c = true := by
  unfold structTail at h
  obtain ⟨_, _, -, -, -, h⟩ := sp1_some h
  obtain ⟨name, _, -, hne, hn, h⟩ := plus_some h
  obtain ⟨_, _, -, -, -, h⟩ := sp1_some h
  obtain ⟨_, -, h⟩ := lit_some h
  obtain ⟨_, _, -, -, -, h⟩ := sp1_some h
  obtain ⟨strands, _, -, -, hs, h⟩ := plus_some h
  obtain ⟨_, _, -, -, -, h⟩ := sp1_some h
  obtain ⟨_, -, h⟩ := lit_some h
  rcases alt_some h with h | h
  · obtain ⟨_, _, -, -, -, h⟩ := sp1_some h
    obtain ⟨_, -, h⟩ := lit_some h
    obtain ⟨_, _, -, -, -, h⟩ := sp1_some h
    obtain ⟨text, _, -, hte, ht, h⟩ := plus_some h
    exact ⟨name, strands, true, text, (endZ_some h).1, nameOkL_of hne hn, hs, hte, ht⟩
  · obtain ⟨_, _, -, -, -, h⟩ := sp1_some h
    obtain ⟨text, _, -, hte, ht, h⟩ := plus_some h
    exact ⟨name, strands, false, text, (endZ_some h).1, nameOkL_of hne hn, hs, hte, ht⟩

theorem reStruct_some {s name strands text : Str} {opt : OptM} {dom : Bool}
    (h : reStruct s = some (opt, name, strands, dom, text)) :
    (∀ t, opt = .val t → ∀ c ∈ t, isOptCh c = true) ∧ nameOkL name = true ∧
      (∀ c ∈ strands, notColon c = true) ∧ text ≠ [] ∧ ∀ c ∈ text, isStructCh c = true := by
  unfold reStruct at h
  obtain ⟨_, -, h⟩ := lit_some h
  rcases alt_some h with h | h
  · obtain ⟨_, _, -, -, -, h⟩ := sp1_some h
    obtain ⟨_, -, h⟩ := lit_some h
    rcases alt_some h with h | h
    · obtain ⟨t, _, -, -, ht, h⟩ := plus_some h
      obtain ⟨_, -, h⟩ := lit_some h
      obtain ⟨_, -, h⟩ := lit_some h
      obtain ⟨n, st, d, tx, e, r⟩ := structTail_some h
      simp only [Prod.mk.injEq] at e
      obtain ⟨rfl, rfl, rfl, rfl, rfl⟩ := e
      refine ⟨?_, r⟩
      intro t' e
      cases e
      exact ht
    · obtain ⟨_, -, h⟩ := lit_some h
      obtain ⟨_, -, h⟩ := lit_some h
      obtain ⟨n, st, d, tx, e, r⟩ := structTail_some h
      simp only [Prod.mk.injEq] at e
      obtain ⟨rfl, rfl, rfl, rfl, rfl⟩ := e
      refine ⟨?_, r⟩
      intro t' e
      cases e
  · obtain ⟨n, st, d, tx, e, r⟩ := structTail_some h
    simp only [Prod.mk.injEq] at e
    obtain ⟨rfl, rfl, rfl, rfl, rfl⟩ := e
    refine ⟨?_, r⟩
    intro t' e
    cases e

theorem looseStrand_of {strands p : Str} (hs : ∀ c ∈ strands, notColon c = true) (hp : p ∈ (splitOn '+' strands).map strip) :
    looseStrand (String.ofList p) = true := by
  obtain ⟨h1, h2⟩ := splitStrip_mem hp
  simp only [looseStrand, String.toList_ofList, Bool.and_eq_true, List.all_eq_true, bne_iff_ne, ne_eq]
  refine ⟨h1, fun x hx => ⟨?_, (h2 x hx).2⟩⟩
  have := hs x (h2 x hx).1
  simpa [notColon] using this

theorem parseStruct_acc {s : Str} {st : Stmt} (h : parseStruct s = .ok st) : accStmt st = true := by
  unfold parseStruct at h
  split at h
  · cases h
  · rename_i opt name strands dom text e
    obtain ⟨ho, hn, hs, hte, ht⟩ := reStruct_some e
    have hstr : (((splitOn '+' strands).map strip).map String.ofList).all looseStrand = true := by
      rw [List.all_eq_true]
      intro x hx
      obtain ⟨p, hp, rfl⟩ := List.mem_map.1 hx
      exact looseStrand_of hs hp
    have htx : text.all isStructCh = true := List.all_eq_true.2 ht
    have hte' : (!text.isEmpty) = true := by simpa using hte
    simp only [] at h
    cases opt with
    | absent =>
      simp only [] at h
      by_cases hok : notationOk text = true
      · have hok' := hok
        unfold notationOk at hok'
        rw [if_pos hok'] at h
        cases h
        simp only [accStmt, Bool.and_eq_true]
        exact ⟨⟨⟨⟨⟨nameOk_ofList' hn, trivial⟩, hstr⟩, hte'⟩, htx⟩, hok⟩
      · unfold notationOk at hok
        rw [if_neg hok] at h
        cases h
    | noOpt =>
      simp only [] at h
      by_cases hok : notationOk text = true
      · have hok' := hok
        unfold notationOk at hok'
        rw [if_pos hok'] at h
        cases h
        simp only [accStmt, Bool.and_eq_true]
        exact ⟨⟨⟨⟨⟨nameOk_ofList' hn, trivial⟩, hstr⟩, hte'⟩, htx⟩, hok⟩
      · unfold notationOk at hok
        rw [if_neg hok] at h
        cases h
    | val t =>
      simp only [] at h
      by_cases hf : pyFloatOk t = true
      · rw [if_pos hf] at h
        simp only [] at h
        by_cases hok : notationOk text = true
        · have hok' := hok
          unfold notationOk at hok'
          rw [if_pos hok'] at h
          cases h
          simp only [accStmt, Bool.and_eq_true]
          refine ⟨⟨⟨⟨⟨nameOk_ofList' hn, ?_⟩, hstr⟩, hte'⟩, htx⟩, hok⟩
          simp only [numOk, String.toList_ofList, Bool.and_eq_true, List.all_eq_true]
          exact ⟨ho t rfl, hf⟩
        · unfold notationOk at hok
          rw [if_neg hok] at h
          cases h
      · rw [if_neg hf] at h
        cases h

/-! ### `kinetic` -/

theorem kinTail_some {p : Option Str} {s : Str} {v : Option Str × Str × Str} (h : kinTail p s = some v) :
    ∃ ins outs, v = (p, ins, outs) ∧ (∀ c ∈ ins, notBrGt c = true) ∧ ∀ c ∈ outs, notNl c = true := by
  unfold kinTail at h
  obtain ⟨_, _, -, -, -, h⟩ := sp1_some h
  obtain ⟨ins, _, -, hi, h⟩ := star_some h
  obtain ⟨_, _, -, -, -, h⟩ := sp1_some h
  obtain ⟨_, -, h⟩ := lit_some h
  obtain ⟨_, _, -, -, -, h⟩ := sp1_some h
  obtain ⟨outs, _, -, ho, h⟩ := star_some h
  simp only [List.nil_append] at h
  exact ⟨ins, outs, (endZ_some h).1, hi, ho⟩

theorem reKin_some {s ins outs : Str} {params : Option Str} (h : reKin s = some (params, ins, outs)) :
    (∀ c ∈ ins, notBrGt c = true) ∧ ∀ c ∈ outs, notNl c = true := by
  unfold reKin at h
  obtain ⟨_, -, h⟩ := lit_some h
  rcases alt_some h with h | h
  · obtain ⟨_, _, -, -, -, h⟩ := sp1_some h
    obtain ⟨_, -, h⟩ := lit_some h
    obtain ⟨p, _, -, -, h⟩ := star_some h
    obtain ⟨_, -, h⟩ := lit_some h
    obtain ⟨i, o, e, r⟩ := kinTail_some h
    simp only [Prod.mk.injEq] at e
    obtain ⟨-, rfl, rfl⟩ := e
    exact r
  · obtain ⟨i, o, e, r⟩ := kinTail_some h
    simp only [Prod.mk.injEq] at e
    obtain ⟨-, rfl, rfl⟩ := e
    exact r

theorem kp1Tail_some {low : Option Str} {s : Str} {v : Option Str × Str} (h : kp1Tail low s = some v) :
    ∃ high, v = (low, high) ∧ ∀ c ∈ high, isKNum c = true := by
  unfold kp1Tail at h
  obtain ⟨_, -, h⟩ := lit_some h
  obtain ⟨_, _, -, -, -, h⟩ := sp1_some h
  obtain ⟨_, -, h⟩ := lit_some h
  obtain ⟨_, _, -, -, -, h⟩ := sp1_some h
  obtain ⟨high, _, -, -, hh, h⟩ := plus_some h
  obtain ⟨_, _, -, -, -, h⟩ := sp1_some h
  obtain ⟨_, -, h⟩ := lit_some h
  exact ⟨high, (endZ_some h).1, hh⟩

theorem reKp1_some {s high : Str} {low : Option Str} (h : reKp1 s = some (low, high)) :
    (∀ l, low = some l → ∀ c ∈ l, isKNum c = true) ∧ ∀ c ∈ high, isKNum c = true := by
  unfold reKp1 at h
  rcases alt_some h with h | h
  · obtain ⟨l, _, -, -, hl, h⟩ := plus_some h
    obtain ⟨_, _, -, -, -, h⟩ := sp1_some h
    obtain ⟨_, -, h⟩ := lit_some h
    obtain ⟨_, _, -, -, -, h⟩ := sp1_some h
    obtain ⟨_, -, h⟩ := lit_some h
    obtain ⟨_, _, -, -, -, h⟩ := sp1_some h
    obtain ⟨hi, e, hh⟩ := kp1Tail_some h
    simp only [Prod.mk.injEq] at e
    obtain ⟨rfl, rfl⟩ := e
    refine ⟨?_, hh⟩
    intro l' e
    cases e
    exact hl
  · obtain ⟨hi, e, hh⟩ := kp1Tail_some h
    simp only [Prod.mk.injEq] at e
    obtain ⟨rfl, rfl⟩ := e
    refine ⟨?_, hh⟩
    intro l' e
    cases e

theorem reKp2_some {s low : Str} (h : reKp2 s = some low) : ∀ c ∈ low, isKNum c = true := by
  unfold reKp2 at h
  obtain ⟨_, -, h⟩ := lit_some h
  obtain ⟨_, _, -, -, -, h⟩ := sp1_some h
  obtain ⟨_, -, h⟩ := lit_some h
  obtain ⟨_, _, -, -, -, h⟩ := sp1_some h
  obtain ⟨l, _, -, -, hl, h⟩ := plus_some h
  obtain ⟨_, _, -, -, -, h⟩ := sp1_some h
  obtain ⟨_, -, h⟩ := lit_some h
  obtain ⟨rfl, -⟩ := endZ_some h
  exact hl

theorem numOk_ofList {cls : Char → Bool} {t : Str} (h1 : ∀ c ∈ t, cls c = true) (h2 : pyFloatOk t = true) :
    numOk cls (String.ofList t) = true := by
  simp only [numOk, String.toList_ofList, Bool.and_eq_true, List.all_eq_true]
  exact ⟨h1, h2⟩

theorem parseKinParams_ok {p : Str} {low high : Option String} (h : parseKinParams p = .ok (low, high)) :
    optNumOk isKNum low = true ∧ optNumOk isKNum high = true := by
  unfold parseKinParams at h
  split at h
  · rename_i lo hi e
    obtain ⟨hl, hh⟩ := reKp1_some e
    cases lo with
    | none =>
      simp only [Bool.true_and] at h
      by_cases hc : pyFloatOk hi = true
      · rw [if_pos hc] at h
        simp only [Except.ok.injEq, Prod.mk.injEq] at h
        obtain ⟨rfl, rfl⟩ := h
        exact ⟨rfl, numOk_ofList hh hc⟩
      · rw [if_neg hc] at h
        cases h
    | some l =>
      simp only [] at h
      by_cases hc : (pyFloatOk l && pyFloatOk hi) = true
      · rw [if_pos hc] at h
        simp only [Bool.and_eq_true] at hc
        simp only [Except.ok.injEq, Prod.mk.injEq] at h
        obtain ⟨rfl, rfl⟩ := h
        exact ⟨numOk_ofList (hl l rfl) hc.1, numOk_ofList hh hc.2⟩
      · rw [if_neg hc] at h
        cases h
  · split at h
    · rename_i lo e
      split at h
      · rename_i hc
        simp only [Except.ok.injEq, Prod.mk.injEq] at h
        obtain ⟨rfl, rfl⟩ := h
        exact ⟨numOk_ofList (reKp2_some e) hc, rfl⟩
      · cases h
    · cases h

theorem looseIn_of {ins p : Str} (hs : ∀ c ∈ ins, notBrGt c = true) (hp : p ∈ splitStripNonEmpty '+' ins) :
    looseIn (String.ofList p) = true := by
  obtain ⟨h0, h1, h2⟩ := splitStripNonEmpty_mem hp
  simp only [looseIn, String.toList_ofList, Bool.and_eq_true, List.all_eq_true, bne_iff_ne, ne_eq, Bool.not_eq_true',
    List.isEmpty_eq_false_iff]
  exact ⟨⟨h0, h1⟩, fun x hx => ⟨hs x (h2 x hx).1, (h2 x hx).2⟩⟩

theorem looseOut_of {outs p : Str} (hs : ∀ c ∈ outs, notNl c = true) (hp : p ∈ splitStripNonEmpty '+' outs) :
    looseOut (String.ofList p) = true := by
  obtain ⟨h0, h1, h2⟩ := splitStripNonEmpty_mem hp
  simp only [looseOut, String.toList_ofList, Bool.and_eq_true, List.all_eq_true, bne_iff_ne, ne_eq, Bool.not_eq_true',
    List.isEmpty_eq_false_iff]
  exact ⟨⟨h0, h1⟩, fun x hx => ⟨hs x (h2 x hx).1, (h2 x hx).2⟩⟩

theorem parseKin_acc {s : Str} {st : Stmt} (h : parseKin s = .ok st) : accStmt st = true := by
  unfold parseKin at h
  split at h
  · cases h
  · rename_i params ins outs e
    obtain ⟨hi, ho⟩ := reKin_some e
    have hI : ((splitStripNonEmpty '+' ins).map String.ofList).all looseIn = true := by
      rw [List.all_eq_true]
      intro x hx
      obtain ⟨p, hp, rfl⟩ := List.mem_map.1 hx
      exact looseIn_of hi hp
    have hO : ((splitStripNonEmpty '+' outs).map String.ofList).all looseOut = true := by
      rw [List.all_eq_true]
      intro x hx
      obtain ⟨p, hp, rfl⟩ := List.mem_map.1 hx
      exact looseOut_of ho hp
    simp only [] at h
    split at h
    · cases h
      simp only [accStmt, optNumOk, Bool.and_eq_true]
      exact ⟨⟨⟨trivial, trivial⟩, hI⟩, hO⟩
    · split at h
      · cases h
        simp only [accStmt, optNumOk, Bool.and_eq_true]
        exact ⟨⟨⟨trivial, trivial⟩, hI⟩, hO⟩
      · split at h
        · cases h
        · rename_i low high hk
          cases h
          obtain ⟨h1, h2⟩ := parseKinParams_ok hk
          simp only [accStmt, Bool.and_eq_true]
          exact ⟨⟨⟨h1, h2⟩, hI⟩, hO⟩

/-! ### the declare line -/

theorem reSig_some {s n : Str} {star : Bool} {st : Option Str} (h : reSig s = some (n, star, st)) :
    nameOkL n = true ∧ ∀ t, st = some t → nameOkL t = true := by
  unfold reSig at h
  obtain ⟨n', _, -, hne, hn, h⟩ := plus_some h
  have key : ∀ (b : Bool) (r : Str),
      alt (lit ['('] <| plus isName fun st => lit [')'] <| endZ (n', b, some st)) (endZ (n', b, none)) r = some (n, star, st) →
      nameOkL n = true ∧ ∀ t, st = some t → nameOkL t = true := by
    intro b r h
    rcases alt_some h with h | h
    · obtain ⟨_, -, h⟩ := lit_some h
      obtain ⟨t, _, -, hte, ht, h⟩ := plus_some h
      obtain ⟨_, -, h⟩ := lit_some h
      have e := (endZ_some h).1
      simp only [Prod.mk.injEq] at e
      obtain ⟨rfl, rfl, rfl⟩ := e
      refine ⟨nameOkL_of hne hn, ?_⟩
      intro t' e
      cases e
      exact nameOkL_of hte ht
    · have e := (endZ_some h).1
      simp only [Prod.mk.injEq] at e
      obtain ⟨rfl, rfl, rfl⟩ := e
      refine ⟨nameOkL_of hne hn, ?_⟩
      intro t' e
      cases e
  rcases alt_some h with h | h
  · obtain ⟨_, -, h⟩ := lit_some h
    exact key true _ h
  · exact key false _ h

theorem parseSignal_wf {s : Str} {p : Port} (h : parseSignal s = .ok p) : wfPort p = true := by
  unfold parseSignal at h
  split at h
  · rename_i n star st e
    cases h
    obtain ⟨h1, h2⟩ := reSig_some e
    simp only [wfPort, Bool.and_eq_true]
    refine ⟨nameOk_ofList' h1, ?_⟩
    cases st with
    | none => rfl
    | some t => exact nameOk_ofList' (h2 t rfl)
  · cases h

theorem declTail_some {name : Str} {p : Option Str} {s : Str} {v : Str × Option Str × Str × Str}
    (h : declTail name p s = some v) : ∃ ins outs, v = (name, p, ins, outs) := by
  unfold declTail at h
  obtain ⟨_, -, h⟩ := lit_some h
  obtain ⟨ins, _, -, -, h⟩ := star_some h
  obtain ⟨_, _, -, -, -, h⟩ := sp1_some h
  obtain ⟨_, -, h⟩ := lit_some h
  obtain ⟨outs, _, -, -, h⟩ := star_some h
  exact ⟨_, _, (endZ_some h).1⟩

theorem reDecl_some {s name ins outs : Str} {params : Option Str} (h : reDecl s = some (name, params, ins, outs)) :
    nameOkL name = true ∧ ∀ p, params = some p → ∀ c ∈ p, notNl c = true := by
  unfold reDecl at h
  obtain ⟨_, -, h⟩ := lit_some h
  obtain ⟨_, _, -, -, -, h⟩ := sp1_some h
  obtain ⟨_, -, h⟩ := lit_some h
  obtain ⟨_, _, -, -, -, h⟩ := sp1_some h
  obtain ⟨n, _, -, hne, hn, h⟩ := plus_some h
  rcases alt_some h with h | h
  · obtain ⟨_, -, h⟩ := lit_some h
    obtain ⟨p, _, -, hp, h⟩ := star_some h
    obtain ⟨_, -, h⟩ := lit_some h
    obtain ⟨i, o, e⟩ := declTail_some h
    simp only [Prod.mk.injEq] at e
    obtain ⟨rfl, rfl, rfl, rfl⟩ := e
    refine ⟨nameOkL_of hne hn, ?_⟩
    intro p' e
    cases e
    simpa using hp
  · obtain ⟨i, o, e⟩ := declTail_some h
    simp only [Prod.mk.injEq] at e
    obtain ⟨rfl, rfl, rfl, rfl⟩ := e
    refine ⟨nameOkL_of hne hn, ?_⟩
    intro p' e
    cases e

theorem looseParam_of {ps p : Str} (hs : ∀ c ∈ ps, notNl c = true) (hp : p ∈ splitStripNonEmpty ',' ps) :
    looseParam (String.ofList p) = true := by
  obtain ⟨h0, h1, h2⟩ := splitStripNonEmpty_mem hp
  simp only [looseParam, String.toList_ofList, Bool.and_eq_true, List.all_eq_true, bne_iff_ne, ne_eq, Bool.not_eq_true',
    List.isEmpty_eq_false_iff]
  exact ⟨⟨h0, h1⟩, fun x hx => ⟨hs x (h2 x hx).1, (h2 x hx).2⟩⟩

theorem mapM_parseSignal_wf {l : List Str} {ps : List Port} (h : l.mapM parseSignal = .ok ps) : ps.all wfPort = true := by
  rw [List.all_eq_true]
  intro p hp
  obtain ⟨x, -, e⟩ := mapM_except_mem h p hp
  exact parseSignal_wf e

theorem parseDeclareL_acc {s : Str} {d : Decl} (h : parseDeclareL s = .ok d) : accDecl d = true := by
  unfold parseDeclareL at h
  split at h
  · cases h
  · rename_i name params ins outs e
    obtain ⟨hn, hp⟩ := reDecl_some e
    simp only [] at h
    split at h
    · cases h
    · rename_i i hi
      split at h
      · cases h
      · rename_i o ho
        cases h
        simp only [accDecl, Bool.and_eq_true]
        refine ⟨⟨⟨nameOk_ofList' hn, ?_⟩, mapM_parseSignal_wf hi⟩, mapM_parseSignal_wf ho⟩
        cases params with
        | none => rfl
        | some p =>
          simp only []
          rw [List.all_eq_true]
          intro x hx
          obtain ⟨q, hq, rfl⟩ := List.mem_map.1 hx
          exact looseParam_of (hp p rfl) hq

/-! ### the dispatch -/

theorem parseLineL_cases {s : Str} {st : Stmt} (h : parseLineL s = .ok st) :
    ∃ w, firstWord s = some w ∧
      ((w = sSequence ∧ parseSeq s = .ok st) ∨ (w = sStrand ∧ parseStrand s = .ok st) ∨
       (w = sStructure ∧ parseStruct s = .ok st) ∨ (w = sKinetic ∧ parseKin s = .ok st)) := by
  unfold parseLineL at h
  split at h
  · cases h
  · rename_i w hw
    refine ⟨w, hw, ?_⟩
    split at h
    · cases h
    · split at h
      · rename_i e
        exact Or.inl ⟨e, h⟩
      · split at h
        · cases h
        · split at h
          · rename_i e
            exact Or.inr (Or.inl ⟨e, h⟩)
          · split at h
            · rename_i e
              exact Or.inr (Or.inr (Or.inl ⟨e, h⟩))
            · split at h
              · rename_i e
                exact Or.inr (Or.inr (Or.inr ⟨e, h⟩))
              · split at h <;> cases h

theorem parseLineL_acc {s : Str} {st : Comp.Stmt} (h : parseLineL s = .ok st) : accStmt st = true := by
  obtain ⟨w, -, h | h | h | h⟩ := parseLineL_cases h
  · exact parseSeq_acc h.2
  · exact parseStrand_acc h.2
  · exact parseStruct_acc h.2
  · exact parseKin_acc h.2

theorem parseLineL_not_forbidden {s : Str} {st : Comp.Stmt} (h : parseLineL s = .ok st) :
    ∃ w, firstWord s = some w ∧ w ∉ forbiddenWords ∧ (w = sSequence ∨ w = sStrand ∨ w = sStructure ∨ w = sKinetic) := by
  obtain ⟨w, hw, h | h | h | h⟩ := parseLineL_cases h
  · obtain ⟨rfl, -⟩ := h
    exact ⟨_, hw, by decide, Or.inl rfl⟩
  · obtain ⟨rfl, -⟩ := h
    exact ⟨_, hw, by decide, Or.inr (Or.inl rfl)⟩
  · obtain ⟨rfl, -⟩ := h
    exact ⟨_, hw, by decide, Or.inr (Or.inr (Or.inl rfl))⟩
  · obtain ⟨rfl, -⟩ := h
    exact ⟨_, hw, by decide, Or.inr (Or.inr (Or.inr rfl))⟩

end Pepper.ParseComp
