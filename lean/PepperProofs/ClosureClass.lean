import PepperModel.Closure
import Batteries.Data.List.Perm
namespace Pepper.Closure

theorem mem_ins {s : List Item} {x y : Item} : y ∈ ins s x ↔ y = x ∨ y ∈ s := by
  unfold ins; split <;> simp_all <;> grind

theorem mem_union {s t : List Item} {y : Item} : y ∈ union s t ↔ y ∈ s ∨ y ∈ t := by
  unfold union
  induction t generalizing s with
  | nil => simp
  | cons a t ih => simp [List.foldl_cons, ih, mem_ins]; grind

theorem mem_diff {s t : List Item} {y : Item} : y ∈ diff s t ↔ y ∈ s ∧ y ∉ t := by
  simp [diff]

theorem foldl_inv {α β} (P : β → Prop) (f : β → α → β) (l : List α) (b : β)
    (h0 : P b) (hs : ∀ b a, a ∈ l → P b → P (f b a)) : P (l.foldl f b) := by
  induction l generalizing b with
  | nil => simpa
  | cons a l ih =>
    simp only [List.foldl_cons]
    exact ih _ (hs b a (by simp) h0) (fun b a' h => hs b a' (by simp [h]))

/-- the loop invariant (soundness part + bookkeeping) -/
structure Inv (eq wc : Adj) (x : Item) (s : St) : Prop where
  x_in : x ∈ s.E
  soundE : ∀ y ∈ s.E, Reach eq wc x false y
  soundW : ∀ y ∈ s.W, Reach eq wc x true y
  edE : ∀ y ∈ s.Ed, y ∈ s.E
  wdW : ∀ y ∈ s.Wd, y ∈ s.W
  doneE : ∀ y ∈ s.Ed, (∀ z ∈ nb eq y, z ∈ s.E) ∧ (∀ z ∈ nb wc y, z ∈ s.W)
  doneW : ∀ y ∈ s.Wd, (∀ z ∈ nb eq y, z ∈ s.W) ∧ (∀ z ∈ nb wc y, z ∈ s.E)

theorem inv_init (eq wc : Adj) (x : Item) : Inv eq wc x (init eq wc x) where
  x_in := by simp [init, mem_ins]
  soundE := by
    intro y hy
    simp only [init, mem_ins, mem_union] at hy
    rcases hy with rfl | hy | hy
    · exact Reach.refl
    · cases hy
    · exact Reach.eqStep Reach.refl hy
  soundW := by
    intro y hy
    simp only [init, mem_union] at hy
    rcases hy with hy | hy
    · cases hy
    · simpa using Reach.wcStep Reach.refl hy
  edE := by intro y hy; cases hy
  wdW := by intro y hy; cases hy
  doneE := by intro y hy; cases hy
  doneW := by intro y hy; cases hy

theorem inv_stepEq {eq wc x s y} (h : Inv eq wc x s) (hy : y ∈ s.E) : Inv eq wc x (stepEq eq wc s y) := by
  have ry := h.soundE y hy
  constructor <;> simp only [stepEq, mem_union, mem_ins]
  · exact Or.inl h.x_in
  · rintro z (hz | hz); exact h.soundE z hz; exact Reach.eqStep ry hz
  · rintro z (hz | hz); exact h.soundW z hz; simpa using Reach.wcStep ry hz
  · rintro z (rfl | hz); exact Or.inl hy; exact Or.inl (h.edE z hz)
  · intro z hz; exact Or.inl (h.wdW z hz)
  · rintro z (rfl | hz)
    · exact ⟨fun w hw => Or.inr hw, fun w hw => Or.inr hw⟩
    · exact ⟨fun w hw => Or.inl ((h.doneE z hz).1 w hw), fun w hw => Or.inl ((h.doneE z hz).2 w hw)⟩
  · intro z hz
    exact ⟨fun w hw => Or.inl ((h.doneW z hz).1 w hw), fun w hw => Or.inl ((h.doneW z hz).2 w hw)⟩

theorem inv_stepWc {eq wc x s y} (h : Inv eq wc x s) (hy : y ∈ s.W) : Inv eq wc x (stepWc eq wc s y) := by
  have ry := h.soundW y hy
  constructor <;> simp only [stepWc, mem_union, mem_ins]
  · exact Or.inl h.x_in
  · rintro z (hz | hz); exact h.soundE z hz; simpa using Reach.wcStep ry hz
  · rintro z (hz | hz); exact h.soundW z hz; exact Reach.eqStep ry hz
  · intro z hz; exact Or.inl (h.edE z hz)
  · rintro z (rfl | hz); exact Or.inl hy; exact Or.inl (h.wdW z hz)
  · intro z hz
    exact ⟨fun w hw => Or.inl ((h.doneE z hz).1 w hw), fun w hw => Or.inl ((h.doneE z hz).2 w hw)⟩
  · rintro z (rfl | hz)
    · exact ⟨fun w hw => Or.inr hw, fun w hw => Or.inr hw⟩
    · exact ⟨fun w hw => Or.inl ((h.doneW z hz).1 w hw), fun w hw => Or.inl ((h.doneW z hz).2 w hw)⟩


theorem stepEq_E_mono {eq wc s y z} (h : z ∈ s.E) : z ∈ (stepEq eq wc s y).E := by
  simp [stepEq, mem_union, h]
theorem stepWc_W_mono {eq wc s y z} (h : z ∈ s.W) : z ∈ (stepWc eq wc s y).W := by
  simp [stepWc, mem_union, h]

theorem inv_roundEq {eq wc x s} (h : Inv eq wc x s) : Inv eq wc x (roundEq eq wc s) := by
  unfold roundEq
  -- strengthen: invariant plus "all of the pending list stays inside E"
  have := foldl_inv (fun t => Inv eq wc x t ∧ ∀ y ∈ diff s.E s.Ed, y ∈ t.E)
    (stepEq eq wc) (diff s.E s.Ed) s ⟨h, fun y hy => (mem_diff.1 hy).1⟩
    (fun b a ha hb => ⟨inv_stepEq hb.1 (hb.2 a ha), fun y hy => stepEq_E_mono (hb.2 y hy)⟩)
  exact this.1

theorem inv_roundWc {eq wc x s} (h : Inv eq wc x s) : Inv eq wc x (roundWc eq wc s) := by
  unfold roundWc
  have := foldl_inv (fun t => Inv eq wc x t ∧ ∀ y ∈ diff s.W s.Wd, y ∈ t.W)
    (stepWc eq wc) (diff s.W s.Wd) s ⟨h, fun y hy => (mem_diff.1 hy).1⟩
    (fun b a ha hb => ⟨inv_stepWc hb.1 (hb.2 a ha), fun y hy => stepWc_W_mono (hb.2 y hy)⟩)
  exact this.1

theorem inv_round {eq wc x s} (h : Inv eq wc x s) : Inv eq wc x (round eq wc s) :=
  inv_roundWc (inv_roundEq h)

theorem inv_iter {eq wc x} (n : Nat) (s : St) (h : Inv eq wc x s) : Inv eq wc x (iter eq wc n s) := by
  induction n generalizing s with
  | zero => simpa [iter]
  | succ n ih =>
    unfold iter; split
    · exact ih _ (inv_round h)
    · exact h

/-- completeness at a fixpoint: when nothing is pending the two sets are closed under all steps -/
theorem complete_of_not_pending {eq wc x s} (h : Inv eq wc x s) (hp : pending s = false) :
    ∀ p y, Reach eq wc x p y → (p = false → y ∈ s.E) ∧ (p = true → y ∈ s.W) := by
  have hE : ∀ y ∈ s.E, y ∈ s.Ed := by
    intro y hy
    have h0 : diff s.E s.Ed = [] := by
      simp [pending] at hp; exact hp.1
    if hn : y ∈ s.Ed then exact hn else
      have : y ∈ diff s.E s.Ed := mem_diff.2 ⟨hy, hn⟩
      rw [h0] at this; cases this
  have hW : ∀ y ∈ s.W, y ∈ s.Wd := by
    intro y hy
    have h0 : diff s.W s.Wd = [] := by
      simp [pending] at hp; exact hp.2
    if hn : y ∈ s.Wd then exact hn else
      have : y ∈ diff s.W s.Wd := mem_diff.2 ⟨hy, hn⟩
      rw [h0] at this; cases this
  intro p y r
  induction r with
  | refl => exact ⟨fun _ => h.x_in, (fun c => nomatch c)⟩
  | @eqStep p y z _ hz ih =>
    cases p with
    | false => exact ⟨fun _ => (h.doneE y (hE y (ih.1 rfl))).1 z hz, (fun c => nomatch c)⟩
    | true => exact ⟨(fun c => nomatch c), fun _ => (h.doneW y (hW y (ih.2 rfl))).1 z hz⟩
  | @wcStep p y z _ hz ih =>
    cases p with
    | false => exact ⟨(fun c => nomatch c), fun _ => (h.doneE y (hE y (ih.1 rfl))).2 z hz⟩
    | true => exact ⟨fun _ => (h.doneW y (hW y (ih.2 rfl))).2 z hz, (fun c => nomatch c)⟩


/-! ### fuel sufficiency: the counting argument -/

theorem nodup_ins {s : List Item} {x} (h : s.Nodup) : (ins s x).Nodup := by
  unfold ins; split
  · exact h
  · exact List.nodup_cons.2 ⟨by assumption, h⟩

theorem length_lt_of_extra {l l' : List Item} (hl : l.Nodup) (hs : ∀ z ∈ l, z ∈ l')
    {y} (hy : y ∈ l') (hn : y ∉ l) : l.length < l'.length := by
  have h1 : (y :: l).Nodup := List.nodup_cons.2 ⟨hn, hl⟩
  have h2 : (y :: l) ⊆ l' := by
    intro z hz; rcases List.mem_cons.1 hz with rfl | hz
    · exact hy
    · exact hs z hz
  have := (List.subperm_of_subset h1 h2).length_le
  simp at this; omega

structure KeyClosed (eq wc : Adj) (K : List Item) : Prop where
  eqK : ∀ y z, z ∈ nb eq y → z ∈ K
  wcK : ∀ y z, z ∈ nb wc y → z ∈ K

structure Inv2 (K : List Item) (s : St) : Prop where
  eK : ∀ y ∈ s.E, y ∈ K
  wK : ∀ y ∈ s.W, y ∈ K
  edN : s.Ed.Nodup
  wdN : s.Wd.Nodup
  edE : ∀ y ∈ s.Ed, y ∈ s.E
  wdW : ∀ y ∈ s.Wd, y ∈ s.W

theorem inv2_stepEq {eq wc K s y} (kc : KeyClosed eq wc K) (h : Inv2 K s) (hy : y ∈ s.E) :
    Inv2 K (stepEq eq wc s y) := by
  constructor <;> simp only [stepEq, mem_union, mem_ins]
  · rintro z (hz | hz); exact h.eK z hz; exact kc.eqK y z hz
  · rintro z (hz | hz); exact h.wK z hz; exact kc.wcK y z hz
  · exact nodup_ins h.edN
  · exact h.wdN
  · rintro z (rfl | hz); exact Or.inl hy; exact Or.inl (h.edE z hz)
  · intro z hz; exact Or.inl (h.wdW z hz)

theorem inv2_stepWc {eq wc K s y} (kc : KeyClosed eq wc K) (h : Inv2 K s) (hy : y ∈ s.W) :
    Inv2 K (stepWc eq wc s y) := by
  constructor <;> simp only [stepWc, mem_union, mem_ins]
  · rintro z (hz | hz); exact h.eK z hz; exact kc.wcK y z hz
  · rintro z (hz | hz); exact h.wK z hz; exact kc.eqK y z hz
  · exact h.edN
  · exact nodup_ins h.wdN
  · intro z hz; exact Or.inl (h.edE z hz)
  · rintro z (rfl | hz); exact Or.inl hy; exact Or.inl (h.wdW z hz)

/-- generic: a fold whose step only grows a component and inserts the processed element -/
theorem foldl_processed {β} (f : β → Item → β) (g : β → List Item)
    (mono : ∀ b a z, z ∈ g b → z ∈ g (f b a)) (adds : ∀ b a, a ∈ g (f b a))
    (l : List Item) (b : β) : (∀ z ∈ g b, z ∈ g (l.foldl f b)) ∧ (∀ a ∈ l, a ∈ g (l.foldl f b)) := by
  induction l generalizing b with
  | nil => simp
  | cons a l ih =>
    simp only [List.foldl_cons]
    have := ih (f b a)
    refine ⟨fun z hz => this.1 z (mono b a z hz), ?_⟩
    intro a' ha'
    rcases List.mem_cons.1 ha' with rfl | h
    · exact this.1 _ (adds b _)
    · exact this.2 a' h

theorem roundEq_facts {eq wc K s} (kc : KeyClosed eq wc K) (h : Inv2 K s) :
    Inv2 K (roundEq eq wc s) ∧ (∀ z ∈ s.Ed, z ∈ (roundEq eq wc s).Ed) ∧
    (∀ a ∈ diff s.E s.Ed, a ∈ (roundEq eq wc s).Ed) ∧ (roundEq eq wc s).Wd = s.Wd := by
  unfold roundEq
  have a := foldl_inv (fun t => (Inv2 K t ∧ ∀ y ∈ diff s.E s.Ed, y ∈ t.E) ∧ t.Wd = s.Wd)
    (stepEq eq wc) (diff s.E s.Ed) s ⟨⟨h, fun y hy => (mem_diff.1 hy).1⟩, rfl⟩
    (fun b a ha hb => ⟨⟨inv2_stepEq kc hb.1.1 (hb.1.2 a ha), fun y hy => stepEq_E_mono (hb.1.2 y hy)⟩, by simpa [stepEq] using hb.2⟩)
  have b := foldl_processed (stepEq eq wc) (fun t => t.Ed)
    (fun b a z hz => by simp [stepEq, mem_ins, hz]) (fun b a => by simp [stepEq, mem_ins]) (diff s.E s.Ed) s
  exact ⟨a.1.1, b.1, b.2, a.2⟩

theorem roundWc_facts {eq wc K s} (kc : KeyClosed eq wc K) (h : Inv2 K s) :
    Inv2 K (roundWc eq wc s) ∧ (∀ z ∈ s.Wd, z ∈ (roundWc eq wc s).Wd) ∧
    (∀ a ∈ diff s.W s.Wd, a ∈ (roundWc eq wc s).Wd) ∧ (roundWc eq wc s).Ed = s.Ed := by
  unfold roundWc
  have a := foldl_inv (fun t => (Inv2 K t ∧ ∀ y ∈ diff s.W s.Wd, y ∈ t.W) ∧ t.Ed = s.Ed)
    (stepWc eq wc) (diff s.W s.Wd) s ⟨⟨h, fun y hy => (mem_diff.1 hy).1⟩, rfl⟩
    (fun b a ha hb => ⟨⟨inv2_stepWc kc hb.1.1 (hb.1.2 a ha), fun y hy => stepWc_W_mono (hb.1.2 y hy)⟩, by simpa [stepWc] using hb.2⟩)
  have b := foldl_processed (stepWc eq wc) (fun t => t.Wd)
    (fun b a z hz => by simp [stepWc, mem_ins, hz]) (fun b a => by simp [stepWc, mem_ins]) (diff s.W s.Wd) s
  exact ⟨a.1.1, b.1, b.2, a.2⟩

def done (s : St) : Nat := s.Ed.length + s.Wd.length

theorem le_of_nodup_subset {l l' : List Item} (hl : l.Nodup) (hs : ∀ z ∈ l, z ∈ l') : l.length ≤ l'.length :=
  (List.subperm_of_subset hl hs).length_le

theorem round_progress {eq wc K s} (kc : KeyClosed eq wc K) (h : Inv2 K s) (hp : pending s = true) :
    Inv2 K (round eq wc s) ∧ done s < done (round eq wc s) := by
  obtain ⟨h1, m1, p1, w1⟩ := roundEq_facts kc h
  obtain ⟨h2, m2, p2, e2⟩ := roundWc_facts kc h1
  refine ⟨h2, ?_⟩
  unfold done round
  rw [e2]
  have leE : s.Ed.length ≤ (roundEq eq wc s).Ed.length := le_of_nodup_subset h.edN m1
  have leW : (roundEq eq wc s).Wd.length ≤ (roundWc eq wc (roundEq eq wc s)).Wd.length :=
    le_of_nodup_subset h1.wdN m2
  rw [w1] at leW
  -- either something was pending for eq at the start, or (nothing for eq, so) something for wc
  by_cases hE : diff s.E s.Ed = []
  · have hW : diff s.W s.Wd ≠ [] := by
      intro c; simp [pending, hE, c] at hp
    obtain ⟨y, hy⟩ := List.exists_mem_of_ne_nil _ hW
    have hy' := mem_diff.1 hy
    -- y is still in W and still not done after roundEq (Wd unchanged, W only grows)
    have : y ∈ diff (roundEq eq wc s).W (roundEq eq wc s).Wd := by
      have e : roundEq eq wc s = s := by simp [roundEq, hE]
      rw [e]; exact hy
    have lt := length_lt_of_extra h1.wdN m2 (p2 y this) (by rw [w1]; exact hy'.2)
    rw [w1] at lt; omega
  · obtain ⟨y, hy⟩ := List.exists_mem_of_ne_nil _ hE
    have lt := length_lt_of_extra h.edN m1 (p1 y hy) (mem_diff.1 hy).2
    omega

theorem done_le {K s} (h : Inv2 K s) : done s ≤ 2 * K.length := by
  have a : s.Ed.length ≤ K.length := le_of_nodup_subset h.edN (fun z hz => h.eK z (h.edE z hz))
  have b : s.Wd.length ≤ K.length := le_of_nodup_subset h.wdN (fun z hz => h.wK z (h.wdW z hz))
  unfold done; omega

theorem iter_reaches_fixpoint {eq wc K} (kc : KeyClosed eq wc K) :
    ∀ n s, Inv2 K s → 2 * K.length < done s + n → pending (iter eq wc n s) = false := by
  intro n
  induction n with
  | zero => intro s h hn; have := done_le h; omega
  | succ n ih =>
    intro s h hn
    unfold iter
    split
    · rename_i hp
      obtain ⟨h', lt⟩ := round_progress kc h hp
      exact ih _ h' (by omega)
    · rename_i hp; simpa using hp


theorem inv2_init {eq wc K x} (kc : KeyClosed eq wc K) (hx : x ∈ K) : Inv2 K (init eq wc x) where
  eK := by
    intro y hy; simp only [init, mem_ins, mem_union] at hy
    rcases hy with rfl | hy | hy
    · exact hx
    · cases hy
    · exact kc.eqK _ _ hy
  wK := by
    intro y hy; simp only [init, mem_union] at hy
    rcases hy with hy | hy
    · cases hy
    · exact kc.wcK _ _ hy
  edN := List.nodup_nil
  wdN := List.nodup_nil
  edE := by intro y hy; cases hy
  wdW := by intro y hy; cases hy

/-- C07 for one class: the sets computed for `x` are exactly the even / odd parity-reachable items. -/
theorem classOf_exact {eq wc : Adj} (kc : KeyClosed eq wc (keys eq)) {x : Item} (hx : x ∈ keys eq) (y : Item) :
    (y ∈ (classOf eq wc x).E ↔ Reach eq wc x false y) ∧ (y ∈ (classOf eq wc x).W ↔ Reach eq wc x true y) := by
  have hi : Inv eq wc x (classOf eq wc x) := inv_iter _ _ (inv_init eq wc x)
  have hf : pending (classOf eq wc x) = false :=
    iter_reaches_fixpoint kc _ _ (inv2_init kc hx) (by simp [done, init])
  have hc := complete_of_not_pending hi hf
  exact ⟨⟨hi.soundE y, fun r => (hc false y r).1 rfl⟩, ⟨hi.soundW y, fun r => (hc true y r).2 rfl⟩⟩

end Pepper.Closure
