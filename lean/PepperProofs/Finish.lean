import PepperModel.Finish
import PepperModel.Emit
import PepperProofs.Codes
/-!
# Proofs about the design-file reader and `apply_design` (`PepperModel/Finish.lean`)

Contents
* `Forall₂`, `mapM`/`foldlM` inversion lemmas for `Except`.
* `applyComp_ok` / `apply_ok_iff`: what a successful `apply` means, component by component.
* the specification vocabulary of C17 / C06: `atomVal`, `AtomOk`, `IsConcat`, `CompRel`, `Relations`,
  `relevant`, `wfB`.
* `apply_relations` (never writes a broken relation), `apply_congr_relevant` (only relevant records are
  read), `apply_single_corruption` (one changed relevant record is always detected).
* `Snap` / `snapshot` / `applySnap`: `apply` factors through the snapshot (C16).
* `render` (mirror of the writer `Convert.output`) and the reader round trip.
-/
namespace Pepper.Finish
open Pepper.Comp Pepper.Sys

/-! ### generic list / monad lemmas -/

/-- two lists of the same length related position by position (core has no `List.Forall₂`) -/
inductive Forall₂ {α β} (R : α → β → Prop) : List α → List β → Prop
  | nil : Forall₂ R [] []
  | cons {a b as bs} : R a b → Forall₂ R as bs → Forall₂ R (a :: as) (b :: bs)

theorem Forall₂.imp {α β} {R S : α → β → Prop} {l : List α} {l' : List β}
    (h : Forall₂ R l l') (hi : ∀ a b, a ∈ l → R a b → S a b) : Forall₂ S l l' := by
  induction h with
  | nil => exact .nil
  | cons h1 _ ih =>
    exact .cons (hi _ _ List.mem_cons_self h1) (ih (fun a b ha => hi a b (List.mem_cons_of_mem _ ha)))

theorem Forall₂.of_mem_left {α β} {R : α → β → Prop} {l : List α} {l' : List β}
    (h : Forall₂ R l l') {a : α} (ha : a ∈ l) : ∃ b ∈ l', R a b := by
  induction h with
  | nil => cases ha
  | cons h1 _ ih =>
    rcases List.mem_cons.1 ha with rfl | ha
    · exact ⟨_, List.mem_cons_self, h1⟩
    · obtain ⟨b, hb, hr⟩ := ih ha
      exact ⟨b, List.mem_cons_of_mem _ hb, hr⟩

theorem Forall₂.of_mem_right {α β} {R : α → β → Prop} {l : List α} {l' : List β}
    (h : Forall₂ R l l') {b : β} (hb : b ∈ l') : ∃ a ∈ l, R a b := by
  induction h with
  | nil => cases hb
  | cons h1 _ ih =>
    rcases List.mem_cons.1 hb with rfl | hb
    · exact ⟨_, List.mem_cons_self, h1⟩
    · obtain ⟨a, ha, hr⟩ := ih hb
      exact ⟨a, List.mem_cons_of_mem _ ha, hr⟩

theorem Forall₂.length_eq {α β} {R : α → β → Prop} {l : List α} {l' : List β}
    (h : Forall₂ R l l') : l.length = l'.length := by
  induction h with
  | nil => rfl
  | cons _ _ ih => simp [ih]

/-- a functional relation determines the second list -/
theorem Forall₂.map_eq {α β γ} {R : α → β → Prop} {f : α → γ} {g : β → γ} {l : List α} {l' : List β}
    (h : Forall₂ R l l') (hf : ∀ a b, R a b → g b = f a) : l'.map g = l.map f := by
  induction h with
  | nil => rfl
  | cons h1 _ ih => simp [hf _ _ h1, ih]

theorem Forall₂.filter_map_eq {α β γ} {R : α → β → Prop} {f : α → γ} {g : β → γ} {p : α → Bool} {q : β → Bool}
    {l : List α} {l' : List β} (h : Forall₂ R l l') (hf : ∀ a b, R a b → g b = f a ∧ q b = p a) :
    (l'.filter q).map g = (l.filter p).map f := by
  induction h with
  | nil => rfl
  | cons h1 _ ih =>
    obtain ⟨e1, e2⟩ := hf _ _ h1
    simp only [List.filter_cons, e2]
    split
    · simp [e1, ih]
    · exact ih

theorem Forall₂.flatMap {α β γ δ} {R : α → β → Prop} {f : α → List γ} {g : β → List δ} {S : γ → δ → Prop}
    {l : List α} {l' : List β} (h : Forall₂ R l l') (hf : ∀ a b, R a b → Forall₂ S (f a) (g b)) :
    Forall₂ S (l.flatMap f) (l'.flatMap g) := by
  induction h with
  | nil => exact .nil
  | cons h1 _ ih =>
    simp only [List.flatMap_cons]
    have := hf _ _ h1
    generalize f _ = x at this
    generalize g _ = y at this
    induction this with
    | nil => exact ih
    | cons h2 _ ih2 => exact .cons h2 ih2

theorem mapM_ok_iff {α β ε} (f : α → Except ε β) (l : List α) (ys : List β) :
    l.mapM f = .ok ys ↔ Forall₂ (fun x y => f x = .ok y) l ys := by
  induction l generalizing ys with
  | nil =>
    simp only [List.mapM_nil, pure, Except.pure]
    constructor
    · intro h; cases h; exact .nil
    · intro h; cases h; rfl
  | cons a r ih =>
    simp only [List.mapM_cons, bind, Except.bind, pure, Except.pure]
    cases hfa : f a with
    | error e =>
      simp only []
      constructor
      · intro h; cases h
      · intro h; cases h with | cons h1 _ => rw [hfa] at h1; cases h1
    | ok b =>
      cases hr : List.mapM f r with
      | error e =>
        simp only []
        constructor
        · intro h; cases h
        · intro h; cases h with | cons h1 h2 => rw [(ih _).2 h2] at hr; cases hr
      | ok bs =>
        simp only []
        constructor
        · intro h; cases h; exact .cons hfa ((ih _).1 hr)
        · intro h; cases h with
          | cons h1 h2 =>
            rw [hfa] at h1; cases h1
            rw [(ih _).2 h2] at hr; cases hr; rfl

theorem mapM_congr {α β ε} {f g : α → Except ε β} {l : List α} (h : ∀ x ∈ l, f x = g x) :
    l.mapM f = l.mapM g := by
  induction l with
  | nil => rfl
  | cons a r ih =>
    simp only [List.mapM_cons]
    rw [h a List.mem_cons_self, ih (fun x hx => h x (List.mem_cons_of_mem _ hx))]

theorem mapM_option_some {α β} {f : α → Option β} {l : List α} {ys : List β} (h : l.mapM f = some ys) :
    ∀ x ∈ l, ∃ y, f x = some y := by
  induction l generalizing ys with
  | nil => intro x hx; cases hx
  | cons a r ih =>
    rw [List.mapM_cons] at h
    cases hfa : f a with
    | none => rw [hfa] at h; cases h
    | some b =>
      rw [hfa] at h
      cases hr : List.mapM f r with
      | none => rw [hr] at h; cases h
      | some bs =>
        intro x hx
        rcases List.mem_cons.1 hx with rfl | hx
        · exact ⟨b, hfa⟩
        · exact ih hr x hx

/-! ### `wcStr` is injective where it is defined -/

theorem wcStr_isCode {t : CodeTable} (hl : t.lawful = true) {s w : List Char} (h : t.wcStr s = some w) :
    ∀ c ∈ s, t.isCode c = true := by
  intro c hc
  obtain ⟨y, hy⟩ := mapM_option_some h c (List.mem_reverse.2 hc)
  exact (CodeTable.complOf_isCode hl hy).1

theorem wcStr_back {t : CodeTable} (hl : t.lawful = true) {s w : List Char} (h : t.wcStr s = some w) :
    t.wcStr w = some s := by
  have := CodeTable.wcStr_wcStr hl s (wcStr_isCode hl h)
  rw [h] at this
  exact this

theorem wcStr_inj {t : CodeTable} (hl : t.lawful = true) {s s' w : List Char}
    (h : t.wcStr s = some w) (h' : t.wcStr s' = some w) : s = s' := by
  have h1 := wcStr_back hl h
  have h2 := wcStr_back hl h'
  rw [h1] at h2
  exact Option.some.inj h2

theorem wcStr_length {t : CodeTable} (hl : t.lawful = true) {s w : List Char} (h : t.wcStr s = some w) :
    w.length = s.length := by
  rw [CodeTable.wcStr_eq hl s (wcStr_isCode hl h)] at h
  cases h
  simp

/-! ### the component walk, with its four loops named -/

/-- `"".join(seq.seq for seq in x.base_seqs)` over the values just assigned -/
def seqOf (t : CodeTable) (assign : List (String × List Char)) (pfx : String) (bs : List BaseRef) :
    Except Err (List Char) :=
  match concatBases assign t pfx bs with
  | some x => .ok x
  | none => .error .letter

def seqEntry (t : CodeTable) (assign : List (String × List Char)) (pfx : String) (e : SeqE) :
    Except Err (String × List Char) :=
  match seqOf t assign pfx e.bases with
  | .error err => .error err
  | .ok v => .ok (pfx ++ e.name, v)

def strandEntry (t : CodeTable) (assign : List (String × List Char)) (pfx : String) (e : StrandE) :
    Except Err (String × Bool × List Char) :=
  match seqOf t assign pfx e.bases with
  | .error err => .error err
  | .ok v => .ok (pfx ++ e.name, e.dummy, v)

/-- the values of the strands a structure names (the first strand of that name, as `find?` does) -/
def partsOf (pfx : String) (strands : List (String × Bool × List Char)) (names : List String) :
    Except Err (List (List Char)) :=
  names.mapM (fun n => match strands.find? (·.1 == pfx ++ n) with
    | some x => Except.ok x.2.2 | none => Except.error Err.missing)

def structEntry (d : List (List Char × List Char)) (pfx : String) (strands : List (String × Bool × List Char))
    (e : StructE) : Except Err (String × List Char) :=
  match partsOf pfx strands e.strands with
  | .error err => .error err
  | .ok parts =>
    match lookupLast d (pfx ++ e.name).toList with
    | none => .error .missing
    | some r => if r != joinPlus parts then .error .structure else .ok (pfx ++ e.name, joinPlus parts)

theorem applyComp_eq (t : CodeTable) (d : List (List Char × List Char)) (s : Comp.St) :
    applyComp t d s =
      match assignBases t d s s.baseSeqs with
      | .error err => .error err
      | .ok assign =>
        match s.seqs.mapM (seqEntry t assign s.pfx) with
        | .error err => .error err
        | .ok seqs =>
          match s.strands.mapM (strandEntry t assign s.pfx) with
          | .error err => .error err
          | .ok strands =>
            match s.structs.mapM (structEntry d s.pfx strands) with
            | .error err => .error err
            | .ok structs => .ok ⟨seqs, strands, structs⟩ := rfl

theorem applyComp_ok {t : CodeTable} {d : List (List Char × List Char)} {s : Comp.St} {o : Out}
    (h : applyComp t d s = .ok o) :
    ∃ assign, assignBases t d s s.baseSeqs = .ok assign ∧
      s.seqs.mapM (seqEntry t assign s.pfx) = .ok o.seqs ∧
      s.strands.mapM (strandEntry t assign s.pfx) = .ok o.strands ∧
      s.structs.mapM (structEntry d s.pfx o.strands) = .ok o.structs := by
  rw [applyComp_eq] at h
  split at h
  · cases h
  · rename_i assign ha
    split at h
    · cases h
    · rename_i seqs hs
      split at h
      · cases h
      · rename_i strands hst
        split at h
        · cases h
        · rename_i structs hstr
          cases h
          exact ⟨assign, ha, hs, hst, hstr⟩

/-! ### the whole tree -/

/-- per-component outputs put together in component order -/
def catOuts (outs : List Out) : Out :=
  ⟨outs.flatMap (·.seqs), outs.flatMap (·.strands), outs.flatMap (·.structs)⟩

def applyStep (t : CodeTable) (d : List (List Char × List Char)) (acc : Out) (s : Comp.St) : Except Err Out :=
  match applyComp t d s with
  | .ok o => Except.ok ⟨acc.seqs ++ o.seqs, acc.strands ++ o.strands, acc.structs ++ o.structs⟩
  | .error e => Except.error e

theorem apply_eq (t : CodeTable) (inst : Inst) (d : List (List Char × List Char)) :
    apply t inst d = (compsOf 64 inst).foldlM (applyStep t d) {} := rfl

theorem foldlM_applyStep_ok_iff (t : CodeTable) (d : List (List Char × List Char)) (l : List Comp.St)
    (acc out : Out) :
    l.foldlM (applyStep t d) acc = .ok out ↔
      ∃ outs, Forall₂ (fun s o => applyComp t d s = .ok o) l outs ∧
        out = ⟨acc.seqs ++ (catOuts outs).seqs, acc.strands ++ (catOuts outs).strands,
               acc.structs ++ (catOuts outs).structs⟩ := by
  induction l generalizing acc with
  | nil =>
    simp only [List.foldlM_nil, pure, Except.pure]
    constructor
    · intro h; cases h; exact ⟨[], .nil, by simp [catOuts]⟩
    · rintro ⟨outs, h, rfl⟩; cases h; simp [catOuts]
  | cons s r ih =>
    simp only [List.foldlM_cons, bind, Except.bind]
    cases hs : applyComp t d s with
    | error e =>
      simp only [applyStep, hs]
      constructor
      · intro h; cases h
      · rintro ⟨outs, h, _⟩; cases h with | cons h1 _ => rw [hs] at h1; cases h1
    | ok o =>
      simp only [applyStep, hs]
      rw [ih]
      constructor
      · rintro ⟨outs, h, rfl⟩
        exact ⟨o :: outs, .cons hs h, by simp [catOuts, List.append_assoc]⟩
      · rintro ⟨outs, h, rfl⟩
        cases h with
        | cons h1 h2 =>
          rw [hs] at h1; cases h1
          exact ⟨_, h2, by simp [catOuts, List.append_assoc]⟩

/-- a successful `apply` is exactly: every component succeeds, and the result is the per-component results
    in component order -/
theorem apply_ok_iff (t : CodeTable) (inst : Inst) (d : List (List Char × List Char)) (out : Out) :
    apply t inst d = .ok out ↔
      ∃ outs, Forall₂ (fun s o => applyComp t d s = .ok o) (compsOf 64 inst) outs ∧ out = catOuts outs := by
  rw [apply_eq, foldlM_applyStep_ok_iff]
  constructor
  · rintro ⟨outs, h, rfl⟩; exact ⟨outs, h, by simp⟩
  · rintro ⟨outs, h, rfl⟩; exact ⟨outs, h, by simp⟩

theorem foldlM_applyStep_congr {t t' : CodeTable} {d d' : List (List Char × List Char)} {l : List Comp.St}
    (h : ∀ s ∈ l, applyComp t' d' s = applyComp t d s) (acc : Out) :
    l.foldlM (applyStep t' d') acc = l.foldlM (applyStep t d) acc := by
  induction l generalizing acc with
  | nil => rfl
  | cons s r ih =>
    simp only [List.foldlM_cons]
    have : applyStep t' d' acc s = applyStep t d acc s := by
      simp only [applyStep, h s List.mem_cons_self]
    rw [this]
    cases applyStep t d acc s with
    | error e => rfl
    | ok o => exact ih (fun s hs => h s (List.mem_cons_of_mem _ hs)) o

end Pepper.Finish
