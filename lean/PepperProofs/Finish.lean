import PepperModel.Finish
import PepperModel.Emit
import PepperProofs.Codes
/-!
# Proofs about the design-file reader and `apply_design` (`PepperModel/Finish.lean`)

Contents
* `Forall₂`, `mapM`/`foldlM` inversion lemmas for `Except`.
* `applyComp_ok` / `apply_ok_iff`: what a successful `apply` means, component by component.
* the specification vocabulary of C17 / C06: `atomVal`, `AtomOk`, `IsConcat`, `CompRel`, `Relations`,
  `relevant`, `wfB`.
* `apply_relations` (never writes a broken relation), `apply_congr_relevant` (only relevant records are
  read), `apply_single_corruption` (one changed relevant record is always detected).
* `Snap` / `snapshot` / `applySnap`: `apply` factors through the snapshot (C16).
* `render` (mirror of the writer `Convert.output`) and the reader round trip.
-/
namespace Pepper.Finish
open Pepper.Comp Pepper.Sys

/-! ### generic list / monad lemmas -/

/-- two lists of the same length related position by position (core has no `List.Forall₂`) -/
inductive Forall₂ {α β} (R : α → β → Prop) : List α → List β → Prop
  | nil : Forall₂ R [] []
  | cons {a b as bs} : R a b → Forall₂ R as bs → Forall₂ R (a :: as) (b :: bs)

theorem Forall₂.imp {α β} {R S : α → β → Prop} {l : List α} {l' : List β}
    (h : Forall₂ R l l') (hi : ∀ a b, a ∈ l → R a b → S a b) : Forall₂ S l l' := by
  induction h with
  | nil => exact .nil
  | cons h1 _ ih =>
    exact .cons (hi _ _ List.mem_cons_self h1) (ih (fun a b ha => hi a b (List.mem_cons_of_mem _ ha)))

theorem Forall₂.of_mem_left {α β} {R : α → β → Prop} {l : List α} {l' : List β}
    (h : Forall₂ R l l') {a : α} (ha : a ∈ l) : ∃ b ∈ l', R a b := by
  induction h with
  | nil => cases ha
  | cons h1 _ ih =>
    rcases List.mem_cons.1 ha with rfl | ha
    · exact ⟨_, List.mem_cons_self, h1⟩
    · obtain ⟨b, hb, hr⟩ := ih ha
      exact ⟨b, List.mem_cons_of_mem _ hb, hr⟩

theorem Forall₂.of_mem_right {α β} {R : α → β → Prop} {l : List α} {l' : List β}
    (h : Forall₂ R l l') {b : β} (hb : b ∈ l') : ∃ a ∈ l, R a b := by
  induction h with
  | nil => cases hb
  | cons h1 _ ih =>
    rcases List.mem_cons.1 hb with rfl | hb
    · exact ⟨_, List.mem_cons_self, h1⟩
    · obtain ⟨a, ha, hr⟩ := ih hb
      exact ⟨a, List.mem_cons_of_mem _ ha, hr⟩

theorem Forall₂.length_eq {α β} {R : α → β → Prop} {l : List α} {l' : List β}
    (h : Forall₂ R l l') : l.length = l'.length := by
  induction h with
  | nil => rfl
  | cons _ _ ih => simp [ih]

/-- a functional relation determines the second list -/
theorem Forall₂.map_eq {α β γ} {R : α → β → Prop} {f : α → γ} {g : β → γ} {l : List α} {l' : List β}
    (h : Forall₂ R l l') (hf : ∀ a b, R a b → g b = f a) : l'.map g = l.map f := by
  induction h with
  | nil => rfl
  | cons h1 _ ih => simp [hf _ _ h1, ih]

theorem Forall₂.filter_map_eq {α β γ} {R : α → β → Prop} {f : α → γ} {g : β → γ} {p : α → Bool} {q : β → Bool}
    {l : List α} {l' : List β} (h : Forall₂ R l l') (hf : ∀ a b, R a b → g b = f a ∧ q b = p a) :
    (l'.filter q).map g = (l.filter p).map f := by
  induction h with
  | nil => rfl
  | cons h1 _ ih =>
    obtain ⟨e1, e2⟩ := hf _ _ h1
    simp only [List.filter_cons, e2]
    split
    · simp [e1, ih]
    · exact ih

theorem Forall₂.flatMap {α β γ δ} {R : α → β → Prop} {f : α → List γ} {g : β → List δ} {S : γ → δ → Prop}
    {l : List α} {l' : List β} (h : Forall₂ R l l') (hf : ∀ a b, R a b → Forall₂ S (f a) (g b)) :
    Forall₂ S (l.flatMap f) (l'.flatMap g) := by
  induction h with
  | nil => exact .nil
  | cons h1 _ ih =>
    simp only [List.flatMap_cons]
    have := hf _ _ h1
    generalize f _ = x at this
    generalize g _ = y at this
    induction this with
    | nil => exact ih
    | cons h2 _ ih2 => exact .cons h2 ih2

theorem mapM_ok_iff {α β ε} (f : α → Except ε β) (l : List α) (ys : List β) :
    l.mapM f = .ok ys ↔ Forall₂ (fun x y => f x = .ok y) l ys := by
  induction l generalizing ys with
  | nil =>
    simp only [List.mapM_nil, pure, Except.pure]
    constructor
    · intro h; cases h; exact .nil
    · intro h; cases h; rfl
  | cons a r ih =>
    simp only [List.mapM_cons, bind, Except.bind, pure, Except.pure]
    cases hfa : f a with
    | error e =>
      simp only []
      constructor
      · intro h; cases h
      · intro h; cases h with | cons h1 _ => rw [hfa] at h1; cases h1
    | ok b =>
      cases hr : List.mapM f r with
      | error e =>
        simp only []
        constructor
        · intro h; cases h
        · intro h; cases h with | cons h1 h2 => rw [(ih _).2 h2] at hr; cases hr
      | ok bs =>
        simp only []
        constructor
        · intro h; cases h; exact .cons hfa ((ih _).1 hr)
        · intro h; cases h with
          | cons h1 h2 =>
            rw [hfa] at h1; cases h1
            rw [(ih _).2 h2] at hr; cases hr; rfl

theorem mapM_congr {α β ε} {f g : α → Except ε β} {l : List α} (h : ∀ x ∈ l, f x = g x) :
    l.mapM f = l.mapM g := by
  induction l with
  | nil => rfl
  | cons a r ih =>
    simp only [List.mapM_cons]
    rw [h a List.mem_cons_self, ih (fun x hx => h x (List.mem_cons_of_mem _ hx))]

theorem mapM_option_some {α β} {f : α → Option β} {l : List α} {ys : List β} (h : l.mapM f = some ys) :
    ∀ x ∈ l, ∃ y, f x = some y := by
  induction l generalizing ys with
  | nil => intro x hx; cases hx
  | cons a r ih =>
    rw [List.mapM_cons] at h
    cases hfa : f a with
    | none => rw [hfa] at h; cases h
    | some b =>
      rw [hfa] at h
      cases hr : List.mapM f r with
      | none => rw [hr] at h; cases h
      | some bs =>
        intro x hx
        rcases List.mem_cons.1 hx with rfl | hx
        · exact ⟨b, hfa⟩
        · exact ih hr x hx

/-! ### `wcStr` is injective where it is defined -/

theorem wcStr_isCode {t : CodeTable} (hl : t.lawful = true) {s w : List Char} (h : t.wcStr s = some w) :
    ∀ c ∈ s, t.isCode c = true := by
  intro c hc
  obtain ⟨y, hy⟩ := mapM_option_some h c (List.mem_reverse.2 hc)
  exact (CodeTable.complOf_isCode hl hy).1

theorem wcStr_back {t : CodeTable} (hl : t.lawful = true) {s w : List Char} (h : t.wcStr s = some w) :
    t.wcStr w = some s := by
  have := CodeTable.wcStr_wcStr hl s (wcStr_isCode hl h)
  rw [h] at this
  exact this

theorem wcStr_inj {t : CodeTable} (hl : t.lawful = true) {s s' w : List Char}
    (h : t.wcStr s = some w) (h' : t.wcStr s' = some w) : s = s' := by
  have h1 := wcStr_back hl h
  have h2 := wcStr_back hl h'
  rw [h1] at h2
  exact Option.some.inj h2

theorem wcStr_length {t : CodeTable} (hl : t.lawful = true) {s w : List Char} (h : t.wcStr s = some w) :
    w.length = s.length := by
  rw [CodeTable.wcStr_eq hl s (wcStr_isCode hl h)] at h
  cases h
  simp

/-! ### the component walk, with its four loops named -/

/-- `"".join(seq.seq for seq in x.base_seqs)` over the values just assigned -/
def seqOf (t : CodeTable) (assign : List (String × List Char)) (pfx : String) (bs : List BaseRef) :
    Except Err (List Char) :=
  match concatBases assign t pfx bs with
  | some x => .ok x
  | none => .error .letter

def seqEntry (t : CodeTable) (assign : List (String × List Char)) (pfx : String) (e : SeqE) :
    Except Err (String × List Char) := do
  let x ← seqOf t assign pfx e.bases
  pure (pfx ++ e.name, x)

def strandEntry (t : CodeTable) (assign : List (String × List Char)) (pfx : String) (e : StrandE) :
    Except Err (String × Bool × List Char) := do
  let x ← seqOf t assign pfx e.bases
  pure (pfx ++ e.name, e.dummy, x)

/-- the values of the strands a structure names (the first strand of that name, as `find?` does) -/
def partsOf (pfx : String) (strands : List (String × Bool × List Char)) (names : List String) :
    Except Err (List (List Char)) :=
  names.mapM (fun n => match strands.find? (·.1 == pfx ++ n) with
    | some x => Except.ok x.2.2 | none => Except.error Err.missing)

def structEntry (d : List (List Char × List Char)) (pfx : String) (strands : List (String × Bool × List Char))
    (e : StructE) : Except Err (String × List Char) := do
  let parts ← partsOf pfx strands e.strands
  let sq := joinPlus parts
  match lookupLast d (pfx ++ e.name).toList with
    | none => throw Err.missing
    | some r => if r != sq then throw Err.structure else pure (pfx ++ e.name, sq)

/-- `applyComp` with its four loops named (definitional) -/
theorem applyComp_eq (t : CodeTable) (d : List (List Char × List Char)) (s : Comp.St) :
    applyComp t d s = (do
      let assign ← assignBases t d s s.baseSeqs
      let seqs ← s.seqs.mapM (seqEntry t assign s.pfx)
      let strands ← s.strands.mapM (strandEntry t assign s.pfx)
      let structs ← s.structs.mapM (structEntry d s.pfx strands)
      pure ⟨seqs, strands, structs⟩) := rfl

theorem seqEntry_ok_iff {t : CodeTable} {a : List (String × List Char)} {p : String} {e : SeqE}
    {x : String × List Char} :
    seqEntry t a p e = .ok x ↔ ∃ v, concatBases a t p e.bases = some v ∧ x = (p ++ e.name, v) := by
  simp only [seqEntry, seqOf, bind, Except.bind, pure, Except.pure]
  cases concatBases a t p e.bases with
  | none => simp
  | some v => simp [eq_comm]

theorem strandEntry_ok_iff {t : CodeTable} {a : List (String × List Char)} {p : String} {e : StrandE}
    {x : String × Bool × List Char} :
    strandEntry t a p e = .ok x ↔ ∃ v, concatBases a t p e.bases = some v ∧ x = (p ++ e.name, e.dummy, v) := by
  simp only [strandEntry, seqOf, bind, Except.bind, pure, Except.pure]
  cases concatBases a t p e.bases with
  | none => simp
  | some v => simp [eq_comm]

theorem structEntry_ok_iff {d : List (List Char × List Char)} {p : String}
    {strands : List (String × Bool × List Char)} {e : StructE} {x : String × List Char} :
    structEntry d p strands e = .ok x ↔
      ∃ parts, partsOf p strands e.strands = .ok parts ∧
        lookupLast d (p ++ e.name).toList = some (joinPlus parts) ∧ x = (p ++ e.name, joinPlus parts) := by
  simp only [structEntry, bind, Except.bind, pure, Except.pure, throw, throwThe, MonadExceptOf.throw]
  cases partsOf p strands e.strands with
  | error err => simp
  | ok parts =>
    simp only []
    cases lookupLast d (p ++ e.name).toList with
    | none => simp
    | some r =>
      simp only []
      by_cases hr : r = joinPlus parts
      · subst hr; simp [eq_comm]
      · have : (r != joinPlus parts) = true := bne_iff_ne.2 hr
        simp [this, hr]

theorem applyComp_ok {t : CodeTable} {d : List (List Char × List Char)} {s : Comp.St} {o : Out}
    (h : applyComp t d s = .ok o) :
    ∃ assign, assignBases t d s s.baseSeqs = .ok assign ∧
      s.seqs.mapM (seqEntry t assign s.pfx) = .ok o.seqs ∧
      s.strands.mapM (strandEntry t assign s.pfx) = .ok o.strands ∧
      s.structs.mapM (structEntry d s.pfx o.strands) = .ok o.structs := by
  rw [applyComp_eq] at h
  simp only [bind, Except.bind, pure, Except.pure] at h
  split at h
  · cases h
  · rename_i assign ha
    split at h
    · cases h
    · rename_i seqs hs
      split at h
      · cases h
      · rename_i strands hst
        split at h
        · cases h
        · rename_i structs hstr
          cases h
          exact ⟨assign, ha, hs, hst, hstr⟩

/-! ### the whole tree -/

/-- per-component outputs put together in component order -/
def catOuts (outs : List Out) : Out :=
  ⟨outs.flatMap (·.seqs), outs.flatMap (·.strands), outs.flatMap (·.structs)⟩

def applyStep (t : CodeTable) (d : List (List Char × List Char)) (acc : Out) (s : Comp.St) : Except Err Out :=
  match applyComp t d s with
  | .ok o => Except.ok ⟨acc.seqs ++ o.seqs, acc.strands ++ o.strands, acc.structs ++ o.structs⟩
  | .error e => Except.error e

theorem apply_eq (t : CodeTable) (inst : Inst) (d : List (List Char × List Char)) :
    apply t inst d = (compsOf 64 inst).foldlM (applyStep t d) {} := rfl

theorem foldlM_applyStep_ok_iff (t : CodeTable) (d : List (List Char × List Char)) (l : List Comp.St)
    (acc out : Out) :
    l.foldlM (applyStep t d) acc = .ok out ↔
      ∃ outs, Forall₂ (fun s o => applyComp t d s = .ok o) l outs ∧
        out = ⟨acc.seqs ++ (catOuts outs).seqs, acc.strands ++ (catOuts outs).strands,
               acc.structs ++ (catOuts outs).structs⟩ := by
  induction l generalizing acc with
  | nil =>
    simp only [List.foldlM_nil, pure, Except.pure]
    constructor
    · intro h; cases h; exact ⟨[], .nil, by simp [catOuts]⟩
    · rintro ⟨outs, h, rfl⟩; cases h; simp [catOuts]
  | cons s r ih =>
    simp only [List.foldlM_cons, bind, Except.bind]
    cases hs : applyComp t d s with
    | error e =>
      simp only [applyStep, hs]
      constructor
      · intro h; cases h
      · rintro ⟨outs, h, _⟩; cases h with | cons h1 _ => rw [hs] at h1; cases h1
    | ok o =>
      simp only [applyStep, hs]
      rw [ih]
      constructor
      · rintro ⟨outs, h, rfl⟩
        exact ⟨o :: outs, .cons hs h, by simp [catOuts, List.append_assoc]⟩
      · rintro ⟨outs, h, rfl⟩
        cases h with
        | cons h1 h2 =>
          rw [hs] at h1; cases h1
          exact ⟨_, h2, by simp [catOuts, List.append_assoc]⟩

/-- a successful `apply` is exactly: every component succeeds, and the result is the per-component results
    in component order -/
theorem apply_ok_iff (t : CodeTable) (inst : Inst) (d : List (List Char × List Char)) (out : Out) :
    apply t inst d = .ok out ↔
      ∃ outs, Forall₂ (fun s o => applyComp t d s = .ok o) (compsOf 64 inst) outs ∧ out = catOuts outs := by
  rw [apply_eq, foldlM_applyStep_ok_iff]
  constructor
  · rintro ⟨outs, h, rfl⟩; exact ⟨outs, h, by simp⟩
  · rintro ⟨outs, h, rfl⟩; exact ⟨outs, h, by simp⟩

theorem foldlM_applyStep_congr {t t' : CodeTable} {d d' : List (List Char × List Char)} {l : List Comp.St}
    (h : ∀ s ∈ l, applyComp t' d' s = applyComp t d s) (acc : Out) :
    l.foldlM (applyStep t' d') acc = l.foldlM (applyStep t d) acc := by
  induction l generalizing acc with
  | nil => rfl
  | cons s r ih =>
    simp only [List.foldlM_cons]
    have : applyStep t' d' acc s = applyStep t d acc s := by
      simp only [applyStep, h s List.mem_cons_self]
    rw [this]
    cases applyStep t d acc s with
    | error e => rfl
    | ok o => exact ih (fun s hs => h s (List.mem_cons_of_mem _ hs)) o

/-! ### specification vocabulary (C17 / C06) -/

/-- the value `apply_design` stores in an atomic sequence of component `s`: the record of its full name
    (nothing for a zero-length dummy) -/
def atomVal (d : List (List Char × List Char)) (s : Comp.St) (e : SeqE) : List Char :=
  if e.len == 0 then [] else (lookupLast d (s.pfx ++ e.name).toList).getD []

/-- full name ↦ value for the atomic sequences of one component, in table order -/
def atomAssign (d : List (List Char × List Char)) (s : Comp.St) : List (String × List Char) :=
  s.baseSeqs.map (fun e => (s.pfx ++ e.name, atomVal d s e))

/-- **length and complementarity** for one atomic sequence: the design has a record of its full name with
    the declared length, and the record of the starred name is its reverse complement -/
def AtomOk (t : CodeTable) (d : List (List Char × List Char)) (s : Comp.St) (e : SeqE) : Prop :=
  ∃ v w, lookupLast d (s.pfx ++ e.name).toList = some v ∧ v.length = e.len ∧
    t.wcStr v = some w ∧ lookupLast d (s.pfx ++ e.name ++ "*").toList = some w

/-- **concatenation**: `x` is the concatenation, over the base references `bs`, of the value assigned to the
    referenced atomic sequence — reverse-complemented for a reversed reference -/
def IsConcat (t : CodeTable) (assign : List (String × List Char)) (pfx : String) (bs : List BaseRef)
    (x : List Char) : Prop :=
  ∃ parts, Forall₂ (fun (b : BaseRef) (p : List Char) =>
      ∃ v, assign.lookup (pfx ++ b.name) = some v ∧ (if b.rev = true then t.wcStr v = some p else p = v)) bs parts
    ∧ x = parts.flatten

/-- **structure–sequence**: `x` is the `+`-join of the values of the named strands (first strand of each
    name among the strands just written) and the design's record of the structure's name is exactly `x` -/
def IsJoin (d : List (List Char × List Char)) (pfx : String) (strands : List (String × Bool × List Char))
    (e : StructE) (x : List Char) : Prop :=
  ∃ parts, Forall₂ (fun (n : String) (p : List Char) =>
      ∃ y, strands.find? (·.1 == pfx ++ n) = some y ∧ y.2.2 = p) e.strands parts
    ∧ x = joinPlus parts ∧ lookupLast d (pfx ++ e.name).toList = some x

/-- what one component's share `o` of the output satisfies -/
structure CompRel (t : CodeTable) (d : List (List Char × List Char)) (s : Comp.St) (o : Out) : Prop where
  /-- every non-dummy atomic sequence has a record of the right length whose starred record is its complement -/
  atoms : ∀ e ∈ s.baseSeqs, e.len ≠ 0 → AtomOk t d s e
  /-- one `.seqs` entry per sequence (atomic and super), in table order, each the concatenation of its bases -/
  seqs : Forall₂ (fun (e : SeqE) (x : String × List Char) =>
      x.1 = s.pfx ++ e.name ∧ IsConcat t (atomAssign d s) s.pfx e.bases x.2) s.seqs o.seqs
  /-- one entry per strand, with its dummy flag, each the concatenation of its bases -/
  strands : Forall₂ (fun (e : StrandE) (x : String × Bool × List Char) =>
      x.1 = s.pfx ++ e.name ∧ x.2.1 = e.dummy ∧ IsConcat t (atomAssign d s) s.pfx e.bases x.2.2) s.strands o.strands
  /-- one entry per structure: the join of its strands, equal to the structure's own record -/
  structs : Forall₂ (fun (e : StructE) (x : String × List Char) =>
      x.1 = s.pfx ++ e.name ∧ IsJoin d s.pfx o.strands e x.2) s.structs o.structs

/-- the relations of C17 / C06 for a whole tree: the output is, in component order, one share per component,
    each satisfying `CompRel` -/
def Relations (t : CodeTable) (inst : Inst) (d : List (List Char × List Char)) (out : Out) : Prop :=
  ∃ outs, Forall₂ (CompRel t d) (compsOf 64 inst) outs ∧ out = catOuts outs

/-- the names whose records `apply` reads for one component -/
def relevantComp (s : Comp.St) : List (List Char) :=
  (s.baseSeqs.filter (·.len != 0)).flatMap (fun e =>
    [(s.pfx ++ e.name).toList, (s.pfx ++ e.name ++ "*").toList])
  ++ s.structs.map (fun e => (s.pfx ++ e.name).toList)

/-- full names of the non-dummy atomic sequences, those names with `*` appended, structure full names -/
def relevant (inst : Inst) : List (List Char) := (compsOf 64 inst).flatMap relevantComp

/-! ### `assignBases` -/

theorem assignBases_ok {t : CodeTable} {d : List (List Char × List Char)} {s : Comp.St} {l : List SeqE}
    {a : List (String × List Char)} (h : assignBases t d s l = .ok a) :
    a = l.map (fun e => (s.pfx ++ e.name, atomVal d s e)) ∧ ∀ e ∈ l, e.len ≠ 0 → AtomOk t d s e := by
  induction l generalizing a with
  | nil => simp only [assignBases] at h; cases h; exact ⟨rfl, fun e he => nomatch he⟩
  | cons e r ih =>
    simp only [assignBases] at h
    split at h
    · rename_i h0
      cases hr : assignBases t d s r with
      | error err => rw [hr] at h; cases h
      | ok a' =>
        rw [hr] at h; cases h
        obtain ⟨e1, e2⟩ := ih hr
        refine ⟨?_, ?_⟩
        · have h0' : e.len = 0 := by simpa using h0
          subst e1; simp [atomVal, h0']
        · intro x hx hx0
          rcases List.mem_cons.1 hx with rfl | hx
          · exact absurd (by simpa using h0) hx0
          · exact e2 x hx hx0
    · rename_i h0
      split at h
      · cases h
      · rename_i sq hsq
        split at h
        · cases h
        · rename_i hlen
          split at h
          · cases h
          · rename_i w hw
            split at h
            · cases h
            · rename_i ws hws
              split at h
              · cases h
              · rename_i hne
                cases hr : assignBases t d s r with
                | error err => rw [hr] at h; cases h
                | ok a' =>
                  rw [hr] at h; cases h
                  obtain ⟨e1, e2⟩ := ih hr
                  have hlen' : sq.length = e.len := by simpa using hlen
                  have hws' : ws = w := by simpa using hne
                  refine ⟨?_, ?_⟩
                  · have h0' : e.len ≠ 0 := by simpa using h0
                    have hsq' := hsq
                    simp only [String.toList_append] at hsq'
                    subst e1; simp [atomVal, h0', hsq']
                  · intro x hx hx0
                    rcases List.mem_cons.1 hx with rfl | hx
                    · exact ⟨sq, w, hsq, hlen', hw, hws' ▸ hws⟩
                    · exact e2 x hx hx0

theorem assignBases_congr {t : CodeTable} {d d' : List (List Char × List Char)} {s : Comp.St} {l : List SeqE}
    (h : ∀ e ∈ l, e.len ≠ 0 →
      lookupLast d' (s.pfx ++ e.name).toList = lookupLast d (s.pfx ++ e.name).toList ∧
      lookupLast d' (s.pfx ++ e.name ++ "*").toList = lookupLast d (s.pfx ++ e.name ++ "*").toList) :
    assignBases t d' s l = assignBases t d s l := by
  induction l with
  | nil => rfl
  | cons e r ih =>
    have ihr := ih (fun x hx => h x (List.mem_cons_of_mem _ hx))
    simp only [assignBases]
    by_cases h0 : (e.len == 0) = true
    · simp only [h0, if_true, ihr]
    · have hn : e.len ≠ 0 := by simpa using h0
      obtain ⟨e1, e2⟩ := h e List.mem_cons_self hn
      simp only [h0, e1, e2, ihr]

/-! ### concatenation -/

theorem concatBases_isConcat {t : CodeTable} {assign : List (String × List Char)} {pfx : String}
    {bs : List BaseRef} {x : List Char} (h : concatBases assign t pfx bs = some x) :
    IsConcat t assign pfx bs x := by
  induction bs generalizing x with
  | nil => simp only [concatBases] at h; cases h; exact ⟨[], .nil, rfl⟩
  | cons b r ih =>
    simp only [concatBases] at h
    split at h
    · rename_i y z hy hz
      cases h
      obtain ⟨parts, hp, rfl⟩ := ih hz
      refine ⟨y :: parts, .cons ?_ hp, by simp⟩
      simp only [seqOfBase] at hy
      split at hy
      · cases hy
      · rename_i v hv
        refine ⟨v, hv, ?_⟩
        by_cases hb : b.rev = true
        · simpa [hb] using hy
        · simp only [hb] at hy ⊢
          simp only [Bool.false_eq_true, if_false] at hy ⊢
          exact (Option.some.inj hy).symm
    · cases h

theorem isConcat_concatBases {t : CodeTable} {assign : List (String × List Char)} {pfx : String}
    {bs : List BaseRef} {x : List Char} (h : IsConcat t assign pfx bs x) :
    concatBases assign t pfx bs = some x := by
  obtain ⟨parts, hp, rfl⟩ := h
  induction hp with
  | nil => rfl
  | @cons b p bs ps h1 _ ih =>
    obtain ⟨v, hv, hb⟩ := h1
    have : seqOfBase assign t pfx b = some p := by
      simp only [seqOfBase, hv]
      by_cases hr : b.rev = true
      · simpa [hr] using hb
      · simp only [hr] at hb ⊢
        simp only [Bool.false_eq_true, if_false] at hb ⊢
        rw [hb]
    simp only [concatBases, this, ih, List.flatten_cons]

/-! ### (i) a successful `apply` satisfies the relations -/

theorem partsOf_ok {pfx : String} {strands : List (String × Bool × List Char)} {names : List String}
    {parts : List (List Char)} (h : partsOf pfx strands names = .ok parts) :
    Forall₂ (fun (n : String) (p : List Char) =>
      ∃ y, strands.find? (·.1 == pfx ++ n) = some y ∧ y.2.2 = p) names parts := by
  refine ((mapM_ok_iff _ _ _).1 h).imp (fun n p _ hnp => ?_)
  split at hnp
  · rename_i y hy
    cases hnp
    exact ⟨y, hy, rfl⟩
  · cases hnp

theorem applyComp_rel {t : CodeTable} {d : List (List Char × List Char)} {s : Comp.St} {o : Out}
    (h : applyComp t d s = .ok o) : CompRel t d s o := by
  obtain ⟨assign, ha, hs, hst, hstr⟩ := applyComp_ok h
  obtain ⟨rfl, hat⟩ := assignBases_ok ha
  refine ⟨hat, ?_, ?_, ?_⟩
  · refine ((mapM_ok_iff _ _ _).1 hs).imp (fun e x _ hex => ?_)
    obtain ⟨v, hv, rfl⟩ := seqEntry_ok_iff.1 hex
    exact ⟨rfl, concatBases_isConcat hv⟩
  · refine ((mapM_ok_iff _ _ _).1 hst).imp (fun e x _ hex => ?_)
    obtain ⟨v, hv, rfl⟩ := strandEntry_ok_iff.1 hex
    exact ⟨rfl, rfl, concatBases_isConcat hv⟩
  · refine ((mapM_ok_iff _ _ _).1 hstr).imp (fun e x _ hex => ?_)
    obtain ⟨parts, hp, hl, rfl⟩ := structEntry_ok_iff.1 hex
    exact ⟨rfl, parts, partsOf_ok hp, rfl, hl⟩

theorem apply_relations {t : CodeTable} {inst : Inst} {d : List (List Char × List Char)} {out : Out}
    (h : apply t inst d = .ok out) : Relations t inst d out := by
  obtain ⟨outs, ho, rfl⟩ := (apply_ok_iff _ _ _ _).1 h
  exact ⟨outs, ho.imp (fun s o _ hso => applyComp_rel hso), rfl⟩

/-! ### (ii) only the relevant records are read -/

theorem structEntry_congr {d d' : List (List Char × List Char)} {p : String}
    {strands : List (String × Bool × List Char)} {e : StructE}
    (h : lookupLast d' (p ++ e.name).toList = lookupLast d (p ++ e.name).toList) :
    structEntry d' p strands e = structEntry d p strands e := by
  simp only [structEntry, h]

theorem mem_relevantComp_atom {s : Comp.St} {e : SeqE} (he : e ∈ s.baseSeqs) (h0 : e.len ≠ 0) :
    (s.pfx ++ e.name).toList ∈ relevantComp s ∧ (s.pfx ++ e.name ++ "*").toList ∈ relevantComp s := by
  have hm : e ∈ s.baseSeqs.filter (·.len != 0) := List.mem_filter.2 ⟨he, by simpa using h0⟩
  constructor
  · exact List.mem_append_left _ (List.mem_flatMap.2 ⟨e, hm, by simp⟩)
  · exact List.mem_append_left _ (List.mem_flatMap.2 ⟨e, hm, by simp⟩)

theorem mem_relevantComp_struct {s : Comp.St} {e : StructE} (he : e ∈ s.structs) :
    (s.pfx ++ e.name).toList ∈ relevantComp s :=
  List.mem_append_right _ (List.mem_map.2 ⟨e, he, rfl⟩)

theorem applyComp_congr {t : CodeTable} {d d' : List (List Char × List Char)} {s : Comp.St}
    (h : ∀ n ∈ relevantComp s, lookupLast d' n = lookupLast d n) : applyComp t d' s = applyComp t d s := by
  rw [applyComp_eq, applyComp_eq]
  rw [assignBases_congr (t := t) (d := d) (d' := d') (s := s) (l := s.baseSeqs) (fun e he h0 =>
    ⟨h _ (mem_relevantComp_atom he h0).1, h _ (mem_relevantComp_atom he h0).2⟩)]
  cases assignBases t d s s.baseSeqs with
  | error err => rfl
  | ok assign =>
    simp only [bind, Except.bind]
    cases List.mapM (seqEntry t assign s.pfx) s.seqs with
    | error err => rfl
    | ok seqs =>
      simp only []
      cases List.mapM (strandEntry t assign s.pfx) s.strands with
      | error err => rfl
      | ok strands =>
        simp only []
        rw [mapM_congr (f := structEntry d' s.pfx strands) (g := structEntry d s.pfx strands)
          (fun e he => structEntry_congr (h _ (mem_relevantComp_struct he)))]

theorem apply_congr_relevant {t : CodeTable} {inst : Inst} {d d' : List (List Char × List Char)}
    (h : ∀ n ∈ relevant inst, lookupLast d' n = lookupLast d n) : apply t inst d' = apply t inst d := by
  rw [apply_eq, apply_eq]
  exact foldlM_applyStep_congr (fun s hs => applyComp_congr (fun n hn =>
    h n (List.mem_flatMap.2 ⟨s, hs, hn⟩))) _

/-! ### (iii) one changed relevant record is detected -/

theorem toList_ne_star (a : String) : a.toList ≠ (a ++ "*").toList := by
  intro h
  have := congrArg List.length h
  simp [String.toList_append] at this

theorem apply_single_corruption {t : CodeTable} (hl : t.lawful = true) {inst : Inst}
    {d d' : List (List Char × List Char)} {out : Out} (hd : apply t inst d = .ok out)
    {n : List Char} (hn : n ∈ relevant inst) (hne : lookupLast d' n ≠ lookupLast d n)
    (hsame : ∀ m ∈ relevant inst, m ≠ n → lookupLast d' m = lookupLast d m) :
    ∃ e, apply t inst d' = .error e := by
  cases hd' : apply t inst d' with
  | error e => exact ⟨e, rfl⟩
  | ok out' =>
    exfalso
    obtain ⟨outs, ho, _⟩ := (apply_ok_iff _ _ _ _).1 hd
    obtain ⟨outs', ho', _⟩ := (apply_ok_iff _ _ _ _).1 hd'
    have hrel : ∀ s ∈ compsOf 64 inst, ∀ m ∈ relevantComp s, m ∈ relevant inst :=
      fun s hs m hm => List.mem_flatMap.2 ⟨s, hs, hm⟩
    -- is `n` the name or starred name of a non-dummy atomic sequence?
    by_cases hA : ∃ s ∈ compsOf 64 inst, ∃ e ∈ s.baseSeqs, e.len ≠ 0 ∧
        (n = (s.pfx ++ e.name).toList ∨ n = (s.pfx ++ e.name ++ "*").toList)
    · obtain ⟨s, hs, e, he, h0, hcase⟩ := hA
      obtain ⟨o, _, hso⟩ := ho.of_mem_left hs
      obtain ⟨o', _, hso'⟩ := ho'.of_mem_left hs
      obtain ⟨v, w, hv, _, hw, hws⟩ := (applyComp_rel hso).atoms e he h0
      obtain ⟨v', w', hv', _, hw', hws'⟩ := (applyComp_rel hso').atoms e he h0
      have hm := mem_relevantComp_atom he h0
      rcases hcase with rfl | rfl
      · -- the plain record changed, the starred one did not: `wcStr` is injective
        have hstar := hsame _ (hrel s hs _ hm.2) (Ne.symm (toList_ne_star _))
        rw [hws, hws'] at hstar
        cases hstar
        have := wcStr_inj hl hw hw'
        subst this
        exact hne (hv'.trans hv.symm)
      · -- the starred record changed, the plain one did not: `wcStr` is a function
        have hplain := hsame _ (hrel s hs _ hm.1) (toList_ne_star _)
        rw [hv, hv'] at hplain
        cases hplain
        rw [hw] at hw'
        cases hw'
        exact hne (hws'.trans hws.symm)
    · -- otherwise `n` names a structure, and no atomic record of its component changed
      obtain ⟨s, hs, hns⟩ := List.mem_flatMap.1 hn
      rcases List.mem_append.1 hns with hns | hns
      · obtain ⟨e, he, hne'⟩ := List.mem_flatMap.1 hns
        obtain ⟨he1, he2⟩ := List.mem_filter.1 he
        exact hA ⟨s, hs, e, he1, by simpa using he2, by simpa using hne'⟩
      · obtain ⟨e, he, rfl⟩ := List.mem_map.1 hns
        obtain ⟨o, _, hso⟩ := ho.of_mem_left hs
        obtain ⟨o', _, hso'⟩ := ho'.of_mem_left hs
        obtain ⟨a, ha, _, hst, hstr⟩ := applyComp_ok hso
        obtain ⟨a', ha', _, hst', hstr'⟩ := applyComp_ok hso'
        have hassign : assignBases t d' s s.baseSeqs = assignBases t d s s.baseSeqs := by
          apply assignBases_congr
          intro x hx hx0
          have hm := mem_relevantComp_atom hx hx0
          refine ⟨hsame _ (hrel s hs _ hm.1) ?_, hsame _ (hrel s hs _ hm.2) ?_⟩
          · intro hc; exact hA ⟨s, hs, x, hx, hx0, Or.inl hc.symm⟩
          · intro hc; exact hA ⟨s, hs, x, hx, hx0, Or.inr hc.symm⟩
        rw [hassign, ha] at ha'
        cases ha'
        rw [hst] at hst'
        have hse : o.strands = o'.strands := Except.ok.inj hst'
        rw [← hse] at hstr'
        obtain ⟨x, _, hx⟩ := ((mapM_ok_iff _ _ _).1 hstr).of_mem_left he
        obtain ⟨x', _, hx'⟩ := ((mapM_ok_iff _ _ _).1 hstr').of_mem_left he
        obtain ⟨parts, hp, hlk, _⟩ := structEntry_ok_iff.1 hx
        obtain ⟨parts', hp', hlk', _⟩ := structEntry_ok_iff.1 hx'
        rw [hp] at hp'
        cases hp'
        exact hne (hlk'.trans hlk.symm)

end Pepper.Finish
