import PepperModel.Finish
import PepperModel.Emit
import PepperProofs.Codes
/-!
# Proofs about the design-file reader and `apply_design` (`PepperModel/Finish.lean`)

Contents
* `Forall₂`, `mapM`/`foldlM` inversion lemmas for `Except`; `wcStr` is injective where defined.
* `applyComp_eq` / `applyComp_ok` / `apply_ok_iff`: what a successful `apply` means, component by component.
* the specification vocabulary of C17 / C06: `atomVal`, `AtomOk`, `IsConcat`, `IsJoin`, `CompRel`, `Relations`,
  `relevant`, `wfB`.
* `apply_relations` / `apply_ok_iff_relations` (success ⇔ the relations hold), `apply_congr_relevant` (only
  relevant records are read), `apply_single_corruption` (one changed relevant record is always detected).
* `Relations.*_names`: what the two output files list.
* `SnapComp` / `snapshot` / `apply_snapshot`: `apply` reads a tree only through its snapshot (C16).
* `finishText` (read, then apply).
* `render` (mirror of the writer `Convert.output`), `wfRec`, and the reader round trip `readDesign_render`.
* `pil*Decls` / `st*Decls` / `treeSeqDecls` / `allComps` / `depth`: the saved state against the emitted `.pil`
  (`compStmts_*Decls`, `instStmts_decls`, `compsOf_allComps`) (C16).
-/
namespace Pepper.Finish
open Pepper.Comp Pepper.Sys

/-! ### generic list / monad lemmas -/

instance instDecidableEqExcept {ε α} [DecidableEq ε] [DecidableEq α] : DecidableEq (Except ε α)
  | .ok a, .ok b => if h : a = b then isTrue (h ▸ rfl) else isFalse (fun h' => h (Except.ok.inj h'))
  | .error a, .error b => if h : a = b then isTrue (h ▸ rfl) else isFalse (fun h' => h (Except.error.inj h'))
  | .ok _, .error _ => isFalse (fun h => nomatch h)
  | .error _, .ok _ => isFalse (fun h => nomatch h)

/-- two lists of the same length related position by position (core has no `List.Forall₂`) -/
inductive Forall₂ {α β} (R : α → β → Prop) : List α → List β → Prop
  | nil : Forall₂ R [] []
  | cons {a b as bs} : R a b → Forall₂ R as bs → Forall₂ R (a :: as) (b :: bs)

theorem Forall₂.imp {α β} {R S : α → β → Prop} {l : List α} {l' : List β}
    (h : Forall₂ R l l') (hi : ∀ a b, a ∈ l → R a b → S a b) : Forall₂ S l l' := by
  induction h with
  | nil => exact .nil
  | cons h1 _ ih =>
    exact .cons (hi _ _ List.mem_cons_self h1) (ih (fun a b ha => hi a b (List.mem_cons_of_mem _ ha)))

theorem Forall₂.of_mem_left {α β} {R : α → β → Prop} {l : List α} {l' : List β}
    (h : Forall₂ R l l') {a : α} (ha : a ∈ l) : ∃ b ∈ l', R a b := by
  induction h with
  | nil => cases ha
  | cons h1 _ ih =>
    rcases List.mem_cons.1 ha with rfl | ha
    · exact ⟨_, List.mem_cons_self, h1⟩
    · obtain ⟨b, hb, hr⟩ := ih ha
      exact ⟨b, List.mem_cons_of_mem _ hb, hr⟩

theorem Forall₂.of_mem_right {α β} {R : α → β → Prop} {l : List α} {l' : List β}
    (h : Forall₂ R l l') {b : β} (hb : b ∈ l') : ∃ a ∈ l, R a b := by
  induction h with
  | nil => cases hb
  | cons h1 _ ih =>
    rcases List.mem_cons.1 hb with rfl | hb
    · exact ⟨_, List.mem_cons_self, h1⟩
    · obtain ⟨a, ha, hr⟩ := ih hb
      exact ⟨a, List.mem_cons_of_mem _ ha, hr⟩

theorem Forall₂.length_eq {α β} {R : α → β → Prop} {l : List α} {l' : List β}
    (h : Forall₂ R l l') : l.length = l'.length := by
  induction h with
  | nil => rfl
  | cons _ _ ih => simp [ih]

/-- a functional relation determines the second list -/
theorem Forall₂.map_eq {α β γ} {R : α → β → Prop} {f : α → γ} {g : β → γ} {l : List α} {l' : List β}
    (h : Forall₂ R l l') (hf : ∀ a b, R a b → g b = f a) : l'.map g = l.map f := by
  induction h with
  | nil => rfl
  | cons h1 _ ih => simp [hf _ _ h1, ih]

theorem Forall₂.filter_map_eq {α β γ} {R : α → β → Prop} {f : α → γ} {g : β → γ} {p : α → Bool} {q : β → Bool}
    {l : List α} {l' : List β} (h : Forall₂ R l l') (hf : ∀ a b, R a b → g b = f a ∧ q b = p a) :
    (l'.filter q).map g = (l.filter p).map f := by
  induction h with
  | nil => rfl
  | cons h1 _ ih =>
    obtain ⟨e1, e2⟩ := hf _ _ h1
    simp only [List.filter_cons, e2]
    split
    · simp [e1, ih]
    · exact ih

theorem Forall₂.flatMap {α β γ δ} {R : α → β → Prop} {f : α → List γ} {g : β → List δ} {S : γ → δ → Prop}
    {l : List α} {l' : List β} (h : Forall₂ R l l') (hf : ∀ a b, R a b → Forall₂ S (f a) (g b)) :
    Forall₂ S (l.flatMap f) (l'.flatMap g) := by
  induction h with
  | nil => exact .nil
  | cons h1 _ ih =>
    simp only [List.flatMap_cons]
    have := hf _ _ h1
    generalize f _ = x at this
    generalize g _ = y at this
    induction this with
    | nil => exact ih
    | cons h2 _ ih2 => exact .cons h2 ih2

theorem mapM_ok_iff {α β ε} (f : α → Except ε β) (l : List α) (ys : List β) :
    l.mapM f = .ok ys ↔ Forall₂ (fun x y => f x = .ok y) l ys := by
  induction l generalizing ys with
  | nil =>
    simp only [List.mapM_nil, pure, Except.pure]
    constructor
    · intro h; cases h; exact .nil
    · intro h; cases h; rfl
  | cons a r ih =>
    simp only [List.mapM_cons, bind, Except.bind, pure, Except.pure]
    cases hfa : f a with
    | error e =>
      simp only []
      constructor
      · intro h; cases h
      · intro h; cases h with | cons h1 _ => rw [hfa] at h1; cases h1
    | ok b =>
      cases hr : List.mapM f r with
      | error e =>
        simp only []
        constructor
        · intro h; cases h
        · intro h; cases h with | cons h1 h2 => rw [(ih _).2 h2] at hr; cases hr
      | ok bs =>
        simp only []
        constructor
        · intro h; cases h; exact .cons hfa ((ih _).1 hr)
        · intro h; cases h with
          | cons h1 h2 =>
            rw [hfa] at h1; cases h1
            rw [(ih _).2 h2] at hr; cases hr; rfl

theorem mapM_congr {α β ε} {f g : α → Except ε β} {l : List α} (h : ∀ x ∈ l, f x = g x) :
    l.mapM f = l.mapM g := by
  induction l with
  | nil => rfl
  | cons a r ih =>
    simp only [List.mapM_cons]
    rw [h a List.mem_cons_self, ih (fun x hx => h x (List.mem_cons_of_mem _ hx))]

theorem mapM_option_some {α β} {f : α → Option β} {l : List α} {ys : List β} (h : l.mapM f = some ys) :
    ∀ x ∈ l, ∃ y, f x = some y := by
  induction l generalizing ys with
  | nil => intro x hx; cases hx
  | cons a r ih =>
    rw [List.mapM_cons] at h
    cases hfa : f a with
    | none => rw [hfa] at h; cases h
    | some b =>
      rw [hfa] at h
      cases hr : List.mapM f r with
      | none => rw [hr] at h; cases h
      | some bs =>
        intro x hx
        rcases List.mem_cons.1 hx with rfl | hx
        · exact ⟨b, hfa⟩
        · exact ih hr x hx

/-! ### `wcStr` is injective where it is defined -/

theorem wcStr_isCode {t : CodeTable} (hl : t.lawful = true) {s w : List Char} (h : t.wcStr s = some w) :
    ∀ c ∈ s, t.isCode c = true := by
  intro c hc
  obtain ⟨y, hy⟩ := mapM_option_some h c (List.mem_reverse.2 hc)
  exact (CodeTable.complOf_isCode hl hy).1

theorem wcStr_back {t : CodeTable} (hl : t.lawful = true) {s w : List Char} (h : t.wcStr s = some w) :
    t.wcStr w = some s := by
  have := CodeTable.wcStr_wcStr hl s (wcStr_isCode hl h)
  rw [h] at this
  exact this

theorem wcStr_inj {t : CodeTable} (hl : t.lawful = true) {s s' w : List Char}
    (h : t.wcStr s = some w) (h' : t.wcStr s' = some w) : s = s' := by
  have h1 := wcStr_back hl h
  have h2 := wcStr_back hl h'
  rw [h1] at h2
  exact Option.some.inj h2

theorem wcStr_length {t : CodeTable} (hl : t.lawful = true) {s w : List Char} (h : t.wcStr s = some w) :
    w.length = s.length := by
  rw [CodeTable.wcStr_eq hl s (wcStr_isCode hl h)] at h
  cases h
  simp

/-! ### the component walk, with its four loops named -/

/-- `"".join(seq.seq for seq in x.base_seqs)` over the values just assigned -/
def seqOf (t : CodeTable) (assign : List (String × List Char)) (pfx : String) (bs : List BaseRef) :
    Except Err (List Char) :=
  match concatBases assign t pfx bs with
  | some x => .ok x
  | none => .error .letter

def seqEntry (t : CodeTable) (assign : List (String × List Char)) (pfx : String) (e : SeqE) :
    Except Err (String × List Char) := do
  let x ← seqOf t assign pfx e.bases
  pure (pfx ++ e.name, x)

def strandEntry (t : CodeTable) (assign : List (String × List Char)) (pfx : String) (e : StrandE) :
    Except Err (String × Bool × List Char) := do
  let x ← seqOf t assign pfx e.bases
  pure (pfx ++ e.name, e.dummy, x)

/-- the values of the strands a structure names (the first strand of that name, as `find?` does) -/
def partsOf (pfx : String) (strands : List (String × Bool × List Char)) (names : List String) :
    Except Err (List (List Char)) :=
  names.mapM (fun n => match strands.find? (·.1 == pfx ++ n) with
    | some x => Except.ok x.2.2 | none => Except.error Err.missing)

def structEntry (d : List (List Char × List Char)) (pfx : String) (strands : List (String × Bool × List Char))
    (e : StructE) : Except Err (String × List Char) := do
  let parts ← partsOf pfx strands e.strands
  let sq := joinPlus parts
  match lookupLast d (pfx ++ e.name).toList with
    | none => throw Err.missing
    | some r => if r != sq then throw Err.structure else pure (pfx ++ e.name, sq)

/-- `applyComp` with its four loops named (definitional) -/
theorem applyComp_eq (t : CodeTable) (d : List (List Char × List Char)) (s : Comp.St) :
    applyComp t d s = (do
      let assign ← assignBases t d s s.baseSeqs
      let seqs ← s.seqs.mapM (seqEntry t assign s.pfx)
      let strands ← s.strands.mapM (strandEntry t assign s.pfx)
      let structs ← s.structs.mapM (structEntry d s.pfx strands)
      pure ⟨seqs, strands, structs⟩) := rfl

theorem seqEntry_ok_iff {t : CodeTable} {a : List (String × List Char)} {p : String} {e : SeqE}
    {x : String × List Char} :
    seqEntry t a p e = .ok x ↔ ∃ v, concatBases a t p e.bases = some v ∧ x = (p ++ e.name, v) := by
  simp only [seqEntry, seqOf, bind, Except.bind, pure, Except.pure]
  cases concatBases a t p e.bases with
  | none => simp
  | some v => simp [eq_comm]

theorem strandEntry_ok_iff {t : CodeTable} {a : List (String × List Char)} {p : String} {e : StrandE}
    {x : String × Bool × List Char} :
    strandEntry t a p e = .ok x ↔ ∃ v, concatBases a t p e.bases = some v ∧ x = (p ++ e.name, e.dummy, v) := by
  simp only [strandEntry, seqOf, bind, Except.bind, pure, Except.pure]
  cases concatBases a t p e.bases with
  | none => simp
  | some v => simp [eq_comm]

theorem structEntry_ok_iff {d : List (List Char × List Char)} {p : String}
    {strands : List (String × Bool × List Char)} {e : StructE} {x : String × List Char} :
    structEntry d p strands e = .ok x ↔
      ∃ parts, partsOf p strands e.strands = .ok parts ∧
        lookupLast d (p ++ e.name).toList = some (joinPlus parts) ∧ x = (p ++ e.name, joinPlus parts) := by
  simp only [structEntry, bind, Except.bind, pure, Except.pure, throw, throwThe, MonadExceptOf.throw]
  cases partsOf p strands e.strands with
  | error err => simp
  | ok parts =>
    simp only []
    cases lookupLast d (p ++ e.name).toList with
    | none => simp
    | some r =>
      simp only []
      by_cases hr : r = joinPlus parts
      · subst hr; simp [eq_comm]
      · have : (r != joinPlus parts) = true := bne_iff_ne.2 hr
        simp [this, hr]

theorem applyComp_ok {t : CodeTable} {d : List (List Char × List Char)} {s : Comp.St} {o : Out}
    (h : applyComp t d s = .ok o) :
    ∃ assign, assignBases t d s s.baseSeqs = .ok assign ∧
      s.seqs.mapM (seqEntry t assign s.pfx) = .ok o.seqs ∧
      s.strands.mapM (strandEntry t assign s.pfx) = .ok o.strands ∧
      s.structs.mapM (structEntry d s.pfx o.strands) = .ok o.structs := by
  rw [applyComp_eq] at h
  simp only [bind, Except.bind, pure, Except.pure] at h
  split at h
  · cases h
  · rename_i assign ha
    split at h
    · cases h
    · rename_i seqs hs
      split at h
      · cases h
      · rename_i strands hst
        split at h
        · cases h
        · rename_i structs hstr
          cases h
          exact ⟨assign, ha, hs, hst, hstr⟩

/-! ### the whole tree -/

/-- per-component outputs put together in component order -/
def catOuts (outs : List Out) : Out :=
  ⟨outs.flatMap (·.seqs), outs.flatMap (·.strands), outs.flatMap (·.structs)⟩

def applyStep (t : CodeTable) (d : List (List Char × List Char)) (acc : Out) (s : Comp.St) : Except Err Out :=
  match applyComp t d s with
  | .ok o => Except.ok ⟨acc.seqs ++ o.seqs, acc.strands ++ o.strands, acc.structs ++ o.structs⟩
  | .error e => Except.error e

theorem apply_eq (t : CodeTable) (inst : Inst) (d : List (List Char × List Char)) :
    apply t inst d = (compsOf 64 inst).foldlM (applyStep t d) {} := rfl

theorem foldlM_applyStep_ok_iff (t : CodeTable) (d : List (List Char × List Char)) (l : List Comp.St)
    (acc out : Out) :
    l.foldlM (applyStep t d) acc = .ok out ↔
      ∃ outs, Forall₂ (fun s o => applyComp t d s = .ok o) l outs ∧
        out = ⟨acc.seqs ++ (catOuts outs).seqs, acc.strands ++ (catOuts outs).strands,
               acc.structs ++ (catOuts outs).structs⟩ := by
  induction l generalizing acc with
  | nil =>
    simp only [List.foldlM_nil, pure, Except.pure]
    constructor
    · intro h; cases h; exact ⟨[], .nil, by simp [catOuts]⟩
    · rintro ⟨outs, h, rfl⟩; cases h; simp [catOuts]
  | cons s r ih =>
    simp only [List.foldlM_cons, bind, Except.bind]
    cases hs : applyComp t d s with
    | error e =>
      simp only [applyStep, hs]
      constructor
      · intro h; cases h
      · rintro ⟨outs, h, _⟩; cases h with | cons h1 _ => rw [hs] at h1; cases h1
    | ok o =>
      simp only [applyStep, hs]
      rw [ih]
      constructor
      · rintro ⟨outs, h, rfl⟩
        exact ⟨o :: outs, .cons hs h, by simp [catOuts, List.append_assoc]⟩
      · rintro ⟨outs, h, rfl⟩
        cases h with
        | cons h1 h2 =>
          rw [hs] at h1; cases h1
          exact ⟨_, h2, by simp [catOuts, List.append_assoc]⟩

/-- a successful `apply` is exactly: every component succeeds, and the result is the per-component results
    in component order -/
theorem apply_ok_iff (t : CodeTable) (inst : Inst) (d : List (List Char × List Char)) (out : Out) :
    apply t inst d = .ok out ↔
      ∃ outs, Forall₂ (fun s o => applyComp t d s = .ok o) (compsOf 64 inst) outs ∧ out = catOuts outs := by
  rw [apply_eq, foldlM_applyStep_ok_iff]
  constructor
  · rintro ⟨outs, h, rfl⟩; exact ⟨outs, h, by simp⟩
  · rintro ⟨outs, h, rfl⟩; exact ⟨outs, h, by simp⟩

theorem foldlM_applyStep_congr {t t' : CodeTable} {d d' : List (List Char × List Char)} {l : List Comp.St}
    (h : ∀ s ∈ l, applyComp t' d' s = applyComp t d s) (acc : Out) :
    l.foldlM (applyStep t' d') acc = l.foldlM (applyStep t d) acc := by
  induction l generalizing acc with
  | nil => rfl
  | cons s r ih =>
    simp only [List.foldlM_cons]
    have : applyStep t' d' acc s = applyStep t d acc s := by
      simp only [applyStep, h s List.mem_cons_self]
    rw [this]
    cases applyStep t d acc s with
    | error e => rfl
    | ok o => exact ih (fun s hs => h s (List.mem_cons_of_mem _ hs)) o

/-! ### specification vocabulary (C17 / C06) -/

/-- the value `apply_design` stores in an atomic sequence of component `s`: the record of its full name
    (nothing for a zero-length dummy) -/
def atomVal (d : List (List Char × List Char)) (s : Comp.St) (e : SeqE) : List Char :=
  if e.len == 0 then [] else (lookupLast d (s.pfx ++ e.name).toList).getD []

/-- full name ↦ value for the atomic sequences of one component, in table order -/
def atomAssign (d : List (List Char × List Char)) (s : Comp.St) : List (String × List Char) :=
  s.baseSeqs.map (fun e => (s.pfx ++ e.name, atomVal d s e))

/-- **length and complementarity** for one atomic sequence: the design has a record of its full name with
    the declared length, and the record of the starred name is its reverse complement -/
def AtomOk (t : CodeTable) (d : List (List Char × List Char)) (s : Comp.St) (e : SeqE) : Prop :=
  ∃ v w, lookupLast d (s.pfx ++ e.name).toList = some v ∧ v.length = e.len ∧
    t.wcStr v = some w ∧ lookupLast d (s.pfx ++ e.name ++ "*").toList = some w

/-- **concatenation**: `x` is the concatenation, over the base references `bs`, of the value assigned to the
    referenced atomic sequence — reverse-complemented for a reversed reference -/
def IsConcat (t : CodeTable) (assign : List (String × List Char)) (pfx : String) (bs : List BaseRef)
    (x : List Char) : Prop :=
  ∃ parts, Forall₂ (fun (b : BaseRef) (p : List Char) =>
      ∃ v, assign.lookup (pfx ++ b.name) = some v ∧ (if b.rev = true then t.wcStr v = some p else p = v)) bs parts
    ∧ x = parts.flatten

/-- **structure–sequence**: `x` is the `+`-join of the values of the named strands (first strand of each
    name among the strands just written) and the design's record of the structure's name is exactly `x` -/
def IsJoin (d : List (List Char × List Char)) (pfx : String) (strands : List (String × Bool × List Char))
    (e : StructE) (x : List Char) : Prop :=
  ∃ parts, Forall₂ (fun (n : String) (p : List Char) =>
      ∃ y, strands.find? (·.1 == pfx ++ n) = some y ∧ y.2.2 = p) e.strands parts
    ∧ x = joinPlus parts ∧ lookupLast d (pfx ++ e.name).toList = some x

/-- what one component's share `o` of the output satisfies -/
structure CompRel (t : CodeTable) (d : List (List Char × List Char)) (s : Comp.St) (o : Out) : Prop where
  /-- every non-dummy atomic sequence has a record of the right length whose starred record is its complement -/
  atoms : ∀ e ∈ s.baseSeqs, e.len ≠ 0 → AtomOk t d s e
  /-- one `.seqs` entry per sequence (atomic and super), in table order, each the concatenation of its bases -/
  seqs : Forall₂ (fun (e : SeqE) (x : String × List Char) =>
      x.1 = s.pfx ++ e.name ∧ IsConcat t (atomAssign d s) s.pfx e.bases x.2) s.seqs o.seqs
  /-- one entry per strand, with its dummy flag, each the concatenation of its bases -/
  strands : Forall₂ (fun (e : StrandE) (x : String × Bool × List Char) =>
      x.1 = s.pfx ++ e.name ∧ x.2.1 = e.dummy ∧ IsConcat t (atomAssign d s) s.pfx e.bases x.2.2) s.strands o.strands
  /-- one entry per structure: the join of its strands, equal to the structure's own record -/
  structs : Forall₂ (fun (e : StructE) (x : String × List Char) =>
      x.1 = s.pfx ++ e.name ∧ IsJoin d s.pfx o.strands e x.2) s.structs o.structs

/-- the relations of C17 / C06 for a whole tree: the output is, in component order, one share per component,
    each satisfying `CompRel` -/
def Relations (t : CodeTable) (inst : Inst) (d : List (List Char × List Char)) (out : Out) : Prop :=
  ∃ outs, Forall₂ (CompRel t d) (compsOf 64 inst) outs ∧ out = catOuts outs

/-- the names whose records `apply` reads for one component -/
def relevantComp (s : Comp.St) : List (List Char) :=
  (s.baseSeqs.filter (·.len != 0)).flatMap (fun e =>
    [(s.pfx ++ e.name).toList, (s.pfx ++ e.name ++ "*").toList])
  ++ s.structs.map (fun e => (s.pfx ++ e.name).toList)

/-- full names of the non-dummy atomic sequences, those names with `*` appended, structure full names -/
def relevant (inst : Inst) : List (List Char) := (compsOf 64 inst).flatMap relevantComp

/-! ### `assignBases` -/

theorem assignBases_ok {t : CodeTable} {d : List (List Char × List Char)} {s : Comp.St} {l : List SeqE}
    {a : List (String × List Char)} (h : assignBases t d s l = .ok a) :
    a = l.map (fun e => (s.pfx ++ e.name, atomVal d s e)) ∧ ∀ e ∈ l, e.len ≠ 0 → AtomOk t d s e := by
  induction l generalizing a with
  | nil => simp only [assignBases] at h; cases h; exact ⟨rfl, fun e he => nomatch he⟩
  | cons e r ih =>
    simp only [assignBases] at h
    split at h
    · rename_i h0
      cases hr : assignBases t d s r with
      | error err => rw [hr] at h; cases h
      | ok a' =>
        rw [hr] at h; cases h
        obtain ⟨e1, e2⟩ := ih hr
        refine ⟨?_, ?_⟩
        · have h0' : e.len = 0 := by simpa using h0
          subst e1; simp [atomVal, h0']
        · intro x hx hx0
          rcases List.mem_cons.1 hx with rfl | hx
          · exact absurd (by simpa using h0) hx0
          · exact e2 x hx hx0
    · rename_i h0
      split at h
      · cases h
      · rename_i sq hsq
        split at h
        · cases h
        · rename_i hlen
          split at h
          · cases h
          · rename_i w hw
            split at h
            · cases h
            · rename_i ws hws
              split at h
              · cases h
              · rename_i hne
                cases hr : assignBases t d s r with
                | error err => rw [hr] at h; cases h
                | ok a' =>
                  rw [hr] at h; cases h
                  obtain ⟨e1, e2⟩ := ih hr
                  have hlen' : sq.length = e.len := by simpa using hlen
                  have hws' : ws = w := by simpa using hne
                  refine ⟨?_, ?_⟩
                  · have h0' : e.len ≠ 0 := by simpa using h0
                    have hsq' := hsq
                    simp only [String.toList_append] at hsq'
                    subst e1; simp [atomVal, h0', hsq']
                  · intro x hx hx0
                    rcases List.mem_cons.1 hx with rfl | hx
                    · exact ⟨sq, w, hsq, hlen', hw, hws' ▸ hws⟩
                    · exact e2 x hx hx0

theorem assignBases_congr {t : CodeTable} {d d' : List (List Char × List Char)} {s : Comp.St} {l : List SeqE}
    (h : ∀ e ∈ l, e.len ≠ 0 →
      lookupLast d' (s.pfx ++ e.name).toList = lookupLast d (s.pfx ++ e.name).toList ∧
      lookupLast d' (s.pfx ++ e.name ++ "*").toList = lookupLast d (s.pfx ++ e.name ++ "*").toList) :
    assignBases t d' s l = assignBases t d s l := by
  induction l with
  | nil => rfl
  | cons e r ih =>
    have ihr := ih (fun x hx => h x (List.mem_cons_of_mem _ hx))
    simp only [assignBases]
    by_cases h0 : (e.len == 0) = true
    · simp only [h0, if_true, ihr]
    · have hn : e.len ≠ 0 := by simpa using h0
      obtain ⟨e1, e2⟩ := h e List.mem_cons_self hn
      simp only [h0, e1, e2, ihr]

/-! ### concatenation -/

theorem concatBases_isConcat {t : CodeTable} {assign : List (String × List Char)} {pfx : String}
    {bs : List BaseRef} {x : List Char} (h : concatBases assign t pfx bs = some x) :
    IsConcat t assign pfx bs x := by
  induction bs generalizing x with
  | nil => simp only [concatBases] at h; cases h; exact ⟨[], .nil, rfl⟩
  | cons b r ih =>
    simp only [concatBases] at h
    split at h
    · rename_i y z hy hz
      cases h
      obtain ⟨parts, hp, rfl⟩ := ih hz
      refine ⟨y :: parts, .cons ?_ hp, by simp⟩
      simp only [seqOfBase] at hy
      split at hy
      · cases hy
      · rename_i v hv
        refine ⟨v, hv, ?_⟩
        by_cases hb : b.rev = true
        · simpa [hb] using hy
        · simp only [hb] at hy ⊢
          simp only [Bool.false_eq_true, if_false] at hy ⊢
          exact (Option.some.inj hy).symm
    · cases h

theorem isConcat_concatBases {t : CodeTable} {assign : List (String × List Char)} {pfx : String}
    {bs : List BaseRef} {x : List Char} (h : IsConcat t assign pfx bs x) :
    concatBases assign t pfx bs = some x := by
  obtain ⟨parts, hp, rfl⟩ := h
  induction hp with
  | nil => rfl
  | @cons b p bs ps h1 _ ih =>
    obtain ⟨v, hv, hb⟩ := h1
    have : seqOfBase assign t pfx b = some p := by
      simp only [seqOfBase, hv]
      by_cases hr : b.rev = true
      · simpa [hr] using hb
      · simp only [hr] at hb ⊢
        simp only [Bool.false_eq_true, if_false] at hb ⊢
        rw [hb]
    simp only [concatBases, this, ih, List.flatten_cons]

/-! ### (i) a successful `apply` satisfies the relations -/

theorem partsOf_ok {pfx : String} {strands : List (String × Bool × List Char)} {names : List String}
    {parts : List (List Char)} (h : partsOf pfx strands names = .ok parts) :
    Forall₂ (fun (n : String) (p : List Char) =>
      ∃ y, strands.find? (·.1 == pfx ++ n) = some y ∧ y.2.2 = p) names parts := by
  refine ((mapM_ok_iff _ _ _).1 h).imp (fun n p _ hnp => ?_)
  split at hnp
  · rename_i y hy
    cases hnp
    exact ⟨y, hy, rfl⟩
  · cases hnp

theorem applyComp_rel {t : CodeTable} {d : List (List Char × List Char)} {s : Comp.St} {o : Out}
    (h : applyComp t d s = .ok o) : CompRel t d s o := by
  obtain ⟨assign, ha, hs, hst, hstr⟩ := applyComp_ok h
  obtain ⟨rfl, hat⟩ := assignBases_ok ha
  refine ⟨hat, ?_, ?_, ?_⟩
  · refine ((mapM_ok_iff _ _ _).1 hs).imp (fun e x _ hex => ?_)
    obtain ⟨v, hv, rfl⟩ := seqEntry_ok_iff.1 hex
    exact ⟨rfl, concatBases_isConcat hv⟩
  · refine ((mapM_ok_iff _ _ _).1 hst).imp (fun e x _ hex => ?_)
    obtain ⟨v, hv, rfl⟩ := strandEntry_ok_iff.1 hex
    exact ⟨rfl, rfl, concatBases_isConcat hv⟩
  · refine ((mapM_ok_iff _ _ _).1 hstr).imp (fun e x _ hex => ?_)
    obtain ⟨parts, hp, hl, rfl⟩ := structEntry_ok_iff.1 hex
    exact ⟨rfl, parts, partsOf_ok hp, rfl, hl⟩

theorem apply_relations {t : CodeTable} {inst : Inst} {d : List (List Char × List Char)} {out : Out}
    (h : apply t inst d = .ok out) : Relations t inst d out := by
  obtain ⟨outs, ho, rfl⟩ := (apply_ok_iff _ _ _ _).1 h
  exact ⟨outs, ho.imp (fun s o _ hso => applyComp_rel hso), rfl⟩

/-! ### conversely: a design satisfying the relations is accepted, with exactly that output -/

theorem assignBases_complete {t : CodeTable} {d : List (List Char × List Char)} {s : Comp.St} {l : List SeqE}
    (h : ∀ e ∈ l, e.len ≠ 0 → AtomOk t d s e) :
    assignBases t d s l = .ok (l.map (fun e => (s.pfx ++ e.name, atomVal d s e))) := by
  induction l with
  | nil => rfl
  | cons e r ih =>
    have ihr := ih (fun x hx => h x (List.mem_cons_of_mem _ hx))
    simp only [assignBases]
    by_cases h0 : (e.len == 0) = true
    · simp only [h0, if_true, ihr, Except.map, List.map_cons, atomVal]
    · have hn : e.len ≠ 0 := by simpa using h0
      obtain ⟨v, w, hv, hlen, hw, hws⟩ := h e List.mem_cons_self hn
      have h1 : (v.length != e.len) = false := by simp [hlen]
      have h2 : (w != w) = false := by simp
      simp only [h0, hv, h1, hw, hws, h2, ihr, Except.map, List.map_cons, atomVal, Bool.false_eq_true, if_false,
        Option.getD_some]

theorem partsOf_complete {pfx : String} {strands : List (String × Bool × List Char)} {names : List String}
    {parts : List (List Char)}
    (h : Forall₂ (fun (n : String) (p : List Char) =>
      ∃ y, strands.find? (·.1 == pfx ++ n) = some y ∧ y.2.2 = p) names parts) :
    partsOf pfx strands names = .ok parts := by
  refine (mapM_ok_iff _ _ _).2 (h.imp (fun n p _ hnp => ?_))
  obtain ⟨y, hy, rfl⟩ := hnp
  simp only [hy]

theorem applyComp_of_rel {t : CodeTable} {d : List (List Char × List Char)} {s : Comp.St} {o : Out}
    (h : CompRel t d s o) : applyComp t d s = .ok o := by
  have ha := assignBases_complete h.atoms
  have hs : s.seqs.mapM (seqEntry t (atomAssign d s) s.pfx) = .ok o.seqs := by
    refine (mapM_ok_iff _ _ _).2 (h.seqs.imp (fun e x _ hex => ?_))
    exact seqEntry_ok_iff.2 ⟨x.2, isConcat_concatBases hex.2, by rw [← hex.1]⟩
  have hst : s.strands.mapM (strandEntry t (atomAssign d s) s.pfx) = .ok o.strands := by
    refine (mapM_ok_iff _ _ _).2 (h.strands.imp (fun e x _ hex => ?_))
    exact strandEntry_ok_iff.2 ⟨x.2.2, isConcat_concatBases hex.2.2, by rw [← hex.1, ← hex.2.1]⟩
  have hstr : s.structs.mapM (structEntry d s.pfx o.strands) = .ok o.structs := by
    refine (mapM_ok_iff _ _ _).2 (h.structs.imp (fun e x _ hex => ?_))
    obtain ⟨hx1, parts, hp, hx2, hl⟩ := hex
    exact structEntry_ok_iff.2 ⟨parts, partsOf_complete hp, hx2 ▸ hl, by rw [← hx1, ← hx2]⟩
  rw [applyComp_eq]
  simp only [atomAssign] at hs hst
  simp only [ha, hs, hst, hstr, bind, Except.bind, pure, Except.pure]

/-- `apply` succeeds with output `out` exactly when the design satisfies the relations with `out` -/
theorem apply_ok_iff_relations {t : CodeTable} {inst : Inst} {d : List (List Char × List Char)} {out : Out} :
    apply t inst d = .ok out ↔ Relations t inst d out := by
  constructor
  · exact apply_relations
  · rintro ⟨outs, ho, rfl⟩
    exact (apply_ok_iff _ _ _ _).2 ⟨outs, ho.imp (fun s o _ hso => applyComp_of_rel hso), rfl⟩

/-! ### (ii) only the relevant records are read -/

theorem structEntry_congr {d d' : List (List Char × List Char)} {p : String}
    {strands : List (String × Bool × List Char)} {e : StructE}
    (h : lookupLast d' (p ++ e.name).toList = lookupLast d (p ++ e.name).toList) :
    structEntry d' p strands e = structEntry d p strands e := by
  simp only [structEntry, h]

theorem mem_relevantComp_atom {s : Comp.St} {e : SeqE} (he : e ∈ s.baseSeqs) (h0 : e.len ≠ 0) :
    (s.pfx ++ e.name).toList ∈ relevantComp s ∧ (s.pfx ++ e.name ++ "*").toList ∈ relevantComp s := by
  have hm : e ∈ s.baseSeqs.filter (·.len != 0) := List.mem_filter.2 ⟨he, by simpa using h0⟩
  constructor
  · exact List.mem_append_left _ (List.mem_flatMap.2 ⟨e, hm, by simp⟩)
  · exact List.mem_append_left _ (List.mem_flatMap.2 ⟨e, hm, by simp⟩)

theorem mem_relevantComp_struct {s : Comp.St} {e : StructE} (he : e ∈ s.structs) :
    (s.pfx ++ e.name).toList ∈ relevantComp s :=
  List.mem_append_right _ (List.mem_map.2 ⟨e, he, rfl⟩)

theorem applyComp_congr {t : CodeTable} {d d' : List (List Char × List Char)} {s : Comp.St}
    (h : ∀ n ∈ relevantComp s, lookupLast d' n = lookupLast d n) : applyComp t d' s = applyComp t d s := by
  rw [applyComp_eq, applyComp_eq]
  rw [assignBases_congr (t := t) (d := d) (d' := d') (s := s) (l := s.baseSeqs) (fun e he h0 =>
    ⟨h _ (mem_relevantComp_atom he h0).1, h _ (mem_relevantComp_atom he h0).2⟩)]
  cases assignBases t d s s.baseSeqs with
  | error err => rfl
  | ok assign =>
    simp only [bind, Except.bind]
    cases List.mapM (seqEntry t assign s.pfx) s.seqs with
    | error err => rfl
    | ok seqs =>
      simp only []
      cases List.mapM (strandEntry t assign s.pfx) s.strands with
      | error err => rfl
      | ok strands =>
        simp only []
        rw [mapM_congr (f := structEntry d' s.pfx strands) (g := structEntry d s.pfx strands)
          (fun e he => structEntry_congr (h _ (mem_relevantComp_struct he)))]

theorem apply_congr_relevant {t : CodeTable} {inst : Inst} {d d' : List (List Char × List Char)}
    (h : ∀ n ∈ relevant inst, lookupLast d' n = lookupLast d n) : apply t inst d' = apply t inst d := by
  rw [apply_eq, apply_eq]
  exact foldlM_applyStep_congr (fun s hs => applyComp_congr (fun n hn =>
    h n (List.mem_flatMap.2 ⟨s, hs, hn⟩))) _

/-! ### (iii) one changed relevant record is detected -/

theorem toList_ne_star (a : String) : a.toList ≠ (a ++ "*").toList := by
  intro h
  have := congrArg List.length h
  simp [String.toList_append] at this

theorem apply_single_corruption {t : CodeTable} (hl : t.lawful = true) {inst : Inst}
    {d d' : List (List Char × List Char)} {out : Out} (hd : apply t inst d = .ok out)
    {n : List Char} (hn : n ∈ relevant inst) (hne : lookupLast d' n ≠ lookupLast d n)
    (hsame : ∀ m ∈ relevant inst, m ≠ n → lookupLast d' m = lookupLast d m) :
    ∃ e, apply t inst d' = .error e := by
  cases hd' : apply t inst d' with
  | error e => exact ⟨e, rfl⟩
  | ok out' =>
    exfalso
    obtain ⟨outs, ho, _⟩ := (apply_ok_iff _ _ _ _).1 hd
    obtain ⟨outs', ho', _⟩ := (apply_ok_iff _ _ _ _).1 hd'
    have hrel : ∀ s ∈ compsOf 64 inst, ∀ m ∈ relevantComp s, m ∈ relevant inst :=
      fun s hs m hm => List.mem_flatMap.2 ⟨s, hs, hm⟩
    -- is `n` the name or starred name of a non-dummy atomic sequence?
    by_cases hA : ∃ s ∈ compsOf 64 inst, ∃ e ∈ s.baseSeqs, e.len ≠ 0 ∧
        (n = (s.pfx ++ e.name).toList ∨ n = (s.pfx ++ e.name ++ "*").toList)
    · obtain ⟨s, hs, e, he, h0, hcase⟩ := hA
      obtain ⟨o, _, hso⟩ := ho.of_mem_left hs
      obtain ⟨o', _, hso'⟩ := ho'.of_mem_left hs
      obtain ⟨v, w, hv, _, hw, hws⟩ := (applyComp_rel hso).atoms e he h0
      obtain ⟨v', w', hv', _, hw', hws'⟩ := (applyComp_rel hso').atoms e he h0
      have hm := mem_relevantComp_atom he h0
      rcases hcase with rfl | rfl
      · -- the plain record changed, the starred one did not: `wcStr` is injective
        have hstar := hsame _ (hrel s hs _ hm.2) (Ne.symm (toList_ne_star _))
        rw [hws, hws'] at hstar
        cases hstar
        have := wcStr_inj hl hw hw'
        subst this
        exact hne (hv'.trans hv.symm)
      · -- the starred record changed, the plain one did not: `wcStr` is a function
        have hplain := hsame _ (hrel s hs _ hm.1) (toList_ne_star _)
        rw [hv, hv'] at hplain
        cases hplain
        rw [hw] at hw'
        cases hw'
        exact hne (hws'.trans hws.symm)
    · -- otherwise `n` names a structure, and no atomic record of its component changed
      obtain ⟨s, hs, hns⟩ := List.mem_flatMap.1 hn
      rcases List.mem_append.1 hns with hns | hns
      · obtain ⟨e, he, hne'⟩ := List.mem_flatMap.1 hns
        obtain ⟨he1, he2⟩ := List.mem_filter.1 he
        exact hA ⟨s, hs, e, he1, by simpa using he2, by simpa using hne'⟩
      · obtain ⟨e, he, rfl⟩ := List.mem_map.1 hns
        obtain ⟨o, _, hso⟩ := ho.of_mem_left hs
        obtain ⟨o', _, hso'⟩ := ho'.of_mem_left hs
        obtain ⟨a, ha, _, hst, hstr⟩ := applyComp_ok hso
        obtain ⟨a', ha', _, hst', hstr'⟩ := applyComp_ok hso'
        have hassign : assignBases t d' s s.baseSeqs = assignBases t d s s.baseSeqs := by
          apply assignBases_congr
          intro x hx hx0
          have hm := mem_relevantComp_atom hx hx0
          refine ⟨hsame _ (hrel s hs _ hm.1) ?_, hsame _ (hrel s hs _ hm.2) ?_⟩
          · intro hc; exact hA ⟨s, hs, x, hx, hx0, Or.inl hc.symm⟩
          · intro hc; exact hA ⟨s, hs, x, hx, hx0, Or.inr hc.symm⟩
        rw [hassign, ha] at ha'
        cases ha'
        rw [hst] at hst'
        have hse : o.strands = o'.strands := Except.ok.inj hst'
        rw [← hse] at hstr'
        obtain ⟨x, _, hx⟩ := ((mapM_ok_iff _ _ _).1 hstr).of_mem_left he
        obtain ⟨x', _, hx'⟩ := ((mapM_ok_iff _ _ _).1 hstr').of_mem_left he
        obtain ⟨parts, hp, hlk, _⟩ := structEntry_ok_iff.1 hx
        obtain ⟨parts', hp', hlk', _⟩ := structEntry_ok_iff.1 hx'
        rw [hp] at hp'
        cases hp'
        exact hne (hlk'.trans hlk.symm)

/-! ### well-formed trees: the `.seqs` entry of an atomic sequence is its design record -/

/-- atomic names are distinct within the component, an atomic sequence is its own single base sequence,
    strand names are distinct within the component (what `Comp.load` builds) -/
def wfCompB (s : Comp.St) : Bool :=
  decide ((s.baseSeqs.map (·.name)).Nodup)
  && s.baseSeqs.all (fun e => decide (e.bases = [⟨e.name, false, e.len⟩]))
  && decide ((s.strands.map (·.name)).Nodup)

def wfB (inst : Inst) : Bool := (compsOf 64 inst).all wfCompB

theorem lookup_map_name {pfx : String} {g : SeqE → List Char} {l : List SeqE}
    (hn : (l.map (·.name)).Nodup) {e : SeqE} (he : e ∈ l) :
    (l.map (fun e => (pfx ++ e.name, g e))).lookup (pfx ++ e.name) = some (g e) := by
  induction l with
  | nil => cases he
  | cons a r ih =>
    simp only [List.map_cons, List.nodup_cons, List.mem_map, not_exists, not_and] at hn
    simp only [List.map_cons, List.lookup_cons]
    rcases List.mem_cons.1 he with rfl | he'
    · simp
    · have hne : (pfx ++ e.name == pfx ++ a.name) = false := by
        apply beq_false_of_ne
        intro hc
        exact hn.1 e he' ((String.append_right_inj pfx).1 hc)
      rw [hne]
      exact ih hn.2 he'

/-- under `wfCompB`, the entry written for an atomic sequence is exactly the value assigned to it -/
theorem CompRel.atomic_entry {t : CodeTable} {d : List (List Char × List Char)} {s : Comp.St} {o : Out}
    (hr : CompRel t d s o) (hw : wfCompB s = true) {e : SeqE} (he : e ∈ s.baseSeqs) :
    (s.pfx ++ e.name, atomVal d s e) ∈ o.seqs := by
  simp only [wfCompB, Bool.and_eq_true, decide_eq_true_eq, List.all_eq_true] at hw
  obtain ⟨⟨hnd, hb⟩, _⟩ := hw
  have hes : e ∈ s.seqs := (List.mem_filter.1 he).1
  obtain ⟨x, hx, hx1, parts, hp, hx2⟩ := hr.seqs.of_mem_left hes
  rw [hb e he] at hp
  cases hp with
  | cons h1 h2 =>
    cases h2
    obtain ⟨v, hv, hrev⟩ := h1
    simp only [Bool.false_eq_true, if_false] at hrev
    have := lookup_map_name (pfx := s.pfx) (g := atomVal d s) hnd he
    simp only [atomAssign] at hv
    rw [this] at hv
    cases hv
    have hx' : x = (s.pfx ++ e.name, atomVal d s e) := by
      rcases x with ⟨x1, x2⟩
      simp only at hx1 hx2
      subst hx1; subst hx2; subst hrev
      simp
    exact hx' ▸ hx

/-- `Relations` read record by record on a well-formed tree: for every component `s` and every non-dummy
    atomic sequence `e`, the written entry of `s.pfx ++ e.name` is the design's record of that name, it has
    length `e.len`, and its reverse complement is the record of the starred name -/
theorem Relations.atomic_entries {t : CodeTable} {inst : Inst} {d : List (List Char × List Char)} {out : Out}
    (hrel : Relations t inst d out) (hw : wfB inst = true) :
    ∀ s ∈ compsOf 64 inst, ∀ e ∈ s.baseSeqs, e.len ≠ 0 →
      ∃ v, (s.pfx ++ e.name, v) ∈ out.seqs ∧ lookupLast d (s.pfx ++ e.name).toList = some v ∧
        v.length = e.len ∧ t.wcStr v = lookupLast d (s.pfx ++ e.name ++ "*").toList := by
  intro s hs e he h0
  obtain ⟨outs, ho, rfl⟩ := hrel
  obtain ⟨o, hoo, hr⟩ := ho.of_mem_left hs
  have hws : wfCompB s = true := List.all_eq_true.1 hw s hs
  obtain ⟨v, w, hv, hlen, hw', hstar⟩ := hr.atoms e he h0
  refine ⟨v, ?_, hv, hlen, by rw [hw', hstar]⟩
  have hm := hr.atomic_entry hws he
  have hval : atomVal d s e = v := by
    have : (e.len == 0) = false := by simpa using h0
    simp only [atomVal, this, hv, Bool.false_eq_true, if_false, Option.getD_some]
  rw [hval] at hm
  exact List.mem_flatMap.2 ⟨o, hoo, hm⟩

/-! ### what the two files list (C06) -/

theorem CompRel.seq_names {t : CodeTable} {d : List (List Char × List Char)} {s : Comp.St} {o : Out}
    (hr : CompRel t d s o) : o.seqs.map (·.1) = s.seqs.map (fun e => s.pfx ++ e.name) :=
  hr.seqs.map_eq (fun _ _ h => h.1)

theorem CompRel.strand_names {t : CodeTable} {d : List (List Char × List Char)} {s : Comp.St} {o : Out}
    (hr : CompRel t d s o) : o.strands.map (·.1) = s.strands.map (fun e => s.pfx ++ e.name) :=
  hr.strands.map_eq (fun _ _ h => h.1)

theorem CompRel.struct_names {t : CodeTable} {d : List (List Char × List Char)} {s : Comp.St} {o : Out}
    (hr : CompRel t d s o) : o.structs.map (·.1) = s.structs.map (fun e => s.pfx ++ e.name) :=
  hr.structs.map_eq (fun _ _ h => h.1)

theorem CompRel.real_strand_names {t : CodeTable} {d : List (List Char × List Char)} {s : Comp.St} {o : Out}
    (hr : CompRel t d s o) :
    (o.strands.filter (fun x => !x.2.1)).map (·.1) =
      (s.strands.filter (fun e => !e.dummy)).map (fun e => s.pfx ++ e.name) :=
  hr.strands.filter_map_eq (fun _ _ h => ⟨h.1, by rw [h.2.1]⟩)

theorem flatMap_map_eq {α β γ} {R : α → β → Prop} {l : List α} {l' : List β} (h : Forall₂ R l l')
    {f : α → List γ} {g : β → List γ} (hfg : ∀ a b, R a b → g b = f a) : l'.flatMap g = l.flatMap f := by
  induction h with
  | nil => rfl
  | cons h1 _ ih => simp [hfg _ _ h1, ih]

theorem Relations.seq_names {t : CodeTable} {inst : Inst} {d : List (List Char × List Char)} {out : Out}
    (h : Relations t inst d out) :
    out.seqs.map (·.1) = (compsOf 64 inst).flatMap (fun s => s.seqs.map (fun e => s.pfx ++ e.name)) := by
  obtain ⟨outs, ho, rfl⟩ := h
  simp only [catOuts, List.map_flatMap]
  exact flatMap_map_eq ho (fun _ _ hr => hr.seq_names)

theorem Relations.strand_names {t : CodeTable} {inst : Inst} {d : List (List Char × List Char)} {out : Out}
    (h : Relations t inst d out) :
    out.strands.map (·.1) = (compsOf 64 inst).flatMap (fun s => s.strands.map (fun e => s.pfx ++ e.name)) := by
  obtain ⟨outs, ho, rfl⟩ := h
  simp only [catOuts, List.map_flatMap]
  exact flatMap_map_eq ho (fun _ _ hr => hr.strand_names)

theorem Relations.struct_names {t : CodeTable} {inst : Inst} {d : List (List Char × List Char)} {out : Out}
    (h : Relations t inst d out) :
    out.structs.map (·.1) = (compsOf 64 inst).flatMap (fun s => s.structs.map (fun e => s.pfx ++ e.name)) := by
  obtain ⟨outs, ho, rfl⟩ := h
  simp only [catOuts, List.map_flatMap]
  exact flatMap_map_eq ho (fun _ _ hr => hr.struct_names)

theorem Relations.real_strand_names {t : CodeTable} {inst : Inst} {d : List (List Char × List Char)} {out : Out}
    (h : Relations t inst d out) :
    (out.strands.filter (fun x => !x.2.1)).map (·.1) =
      (compsOf 64 inst).flatMap (fun s => (s.strands.filter (fun e => !e.dummy)).map (fun e => s.pfx ++ e.name)) := by
  obtain ⟨outs, ho, rfl⟩ := h
  simp only [catOuts, List.filter_flatMap, List.map_flatMap]
  exact flatMap_map_eq ho (fun _ _ hr => hr.real_strand_names)

/-! ### `apply` reads a tree only through its snapshot (C16) -/

/-- what `apply` reads of one component -/
structure SnapComp where
  pfx : String
  seqs : List (String × Bool × Nat × List BaseRef)       -- name, is-super, length, `base_seqs`
  strands : List (String × Bool × List BaseRef)           -- name, dummy flag, `base_seqs`
  structs : List (String × List String)                   -- name, names of its strands
deriving Repr, DecidableEq

def snapComp (s : Comp.St) : SnapComp :=
  ⟨s.pfx, s.seqs.map (fun e => (e.name, e.isSup, e.len, e.bases)),
   s.strands.map (fun e => (e.name, e.dummy, e.bases)), s.structs.map (fun e => (e.name, e.strands))⟩

/-- the snapshot of a saved system: one `SnapComp` per component, in `System.components` order -/
def snapshot (inst : Inst) : List SnapComp := (compsOf 64 inst).map snapComp

theorem mapM_eq_of_map_eq {α α' β γ ε} {π : α → γ} {π' : α' → γ} {f : α → Except ε β} {g : α' → Except ε β}
    (hfg : ∀ x y, π x = π' y → f x = g y) {l : List α} {l' : List α'} (h : l.map π = l'.map π') :
    l.mapM f = l'.mapM g := by
  induction l generalizing l' with
  | nil => cases l' with
    | nil => rfl
    | cons _ _ => cases h
  | cons a r ih =>
    cases l' with
    | nil => cases h
    | cons a' r' =>
      simp only [List.map_cons, List.cons.injEq] at h
      simp only [List.mapM_cons]
      rw [hfg a a' h.1, ih h.2]

theorem assignBases_snap {t : CodeTable} {d : List (List Char × List Char)} {s s' : Comp.St}
    (hp : s.pfx = s'.pfx) {l l' : List SeqE}
    (h : l.map (fun e => (e.name, e.len)) = l'.map (fun e => (e.name, e.len))) :
    assignBases t d s l = assignBases t d s' l' := by
  induction l generalizing l' with
  | nil => cases l' with
    | nil => rfl
    | cons _ _ => cases h
  | cons a r ih =>
    cases l' with
    | nil => cases h
    | cons a' r' =>
      simp only [List.map_cons, List.cons.injEq, Prod.mk.injEq] at h
      obtain ⟨⟨h1, h2⟩, h3⟩ := h
      simp only [assignBases, hp, h1, h2, ih h3]

theorem baseSeqs_snap (s : Comp.St) :
    s.baseSeqs.map (fun e => (e.name, e.len)) =
      ((snapComp s).seqs.filter (fun x => !x.2.1)).map (fun x => (x.1, x.2.2.1)) := by
  simp only [St.baseSeqs, snapComp, List.filter_map, List.map_map]
  rfl

theorem applyComp_snap {t : CodeTable} {d : List (List Char × List Char)} {s s' : Comp.St}
    (h : snapComp s = snapComp s') : applyComp t d s = applyComp t d s' := by
  have hp : s.pfx = s'.pfx := congrArg SnapComp.pfx h
  have hseqs : s.seqs.map (fun e => (e.name, e.isSup, e.len, e.bases)) =
      s'.seqs.map (fun e => (e.name, e.isSup, e.len, e.bases)) := congrArg SnapComp.seqs h
  have hstrands : s.strands.map (fun e => (e.name, e.dummy, e.bases)) =
      s'.strands.map (fun e => (e.name, e.dummy, e.bases)) := congrArg SnapComp.strands h
  have hstructs : s.structs.map (fun e => (e.name, e.strands)) =
      s'.structs.map (fun e => (e.name, e.strands)) := congrArg SnapComp.structs h
  have hbase : assignBases t d s s.baseSeqs = assignBases t d s' s'.baseSeqs :=
    assignBases_snap hp (by rw [baseSeqs_snap, baseSeqs_snap, h])
  rw [applyComp_eq, applyComp_eq, hbase, ← hp]
  have h1 : ∀ assign, s.seqs.mapM (seqEntry t assign s.pfx) = s'.seqs.mapM (seqEntry t assign s.pfx) := by
    intro assign
    refine mapM_eq_of_map_eq (fun x y hxy => ?_) hseqs
    simp only [Prod.mk.injEq] at hxy
    simp only [seqEntry, hxy.1, hxy.2.2.2]
  have h2 : ∀ assign, s.strands.mapM (strandEntry t assign s.pfx) = s'.strands.mapM (strandEntry t assign s.pfx) := by
    intro assign
    refine mapM_eq_of_map_eq (fun x y hxy => ?_) hstrands
    simp only [Prod.mk.injEq] at hxy
    simp only [strandEntry, hxy.1, hxy.2.1, hxy.2.2]
  have h3 : ∀ strands, s.structs.mapM (structEntry d s.pfx strands) = s'.structs.mapM (structEntry d s.pfx strands) := by
    intro strands
    refine mapM_eq_of_map_eq (fun x y hxy => ?_) hstructs
    simp only [Prod.mk.injEq] at hxy
    simp only [structEntry, hxy.1, hxy.2]
  simp only [h1, h2, h3]

theorem foldlM_applyStep_snap {t : CodeTable} {d : List (List Char × List Char)} {l l' : List Comp.St}
    (h : l.map snapComp = l'.map snapComp) (acc : Out) :
    l.foldlM (applyStep t d) acc = l'.foldlM (applyStep t d) acc := by
  induction l generalizing l' acc with
  | nil => cases l' with
    | nil => rfl
    | cons _ _ => cases h
  | cons a r ih =>
    cases l' with
    | nil => cases h
    | cons a' r' =>
      simp only [List.map_cons, List.cons.injEq] at h
      simp only [List.foldlM_cons]
      have : applyStep t d acc a = applyStep t d acc a' := by simp only [applyStep, applyComp_snap h.1]
      rw [this]
      cases applyStep t d acc a' with
      | error e => rfl
      | ok o => exact ih h.2 o

theorem apply_snapshot {t : CodeTable} {d : List (List Char × List Char)} {i1 i2 : Inst}
    (h : snapshot i1 = snapshot i2) : apply t i1 d = apply t i2 d := by
  rw [apply_eq, apply_eq]
  exact foldlM_applyStep_snap h _

/-! ### reading then applying -/

inductive Failure
  | unreadable                      -- the design file does not parse (`read_design` raises)
  | inconsistent (e : Err)          -- `apply_design` trips one of its assertions / a `KeyError`
deriving Repr, DecidableEq

/-- `finish` up to the point where the files are written: read the design text, apply it -/
def finishText (t : CodeTable) (alpha : List Char) (inst : Inst) (text : List Char) : Except Failure Out :=
  match readDesign alpha text with
  | none => .error .unreadable
  | some d => match apply t inst d with
    | .ok o => .ok o
    | .error e => .error (.inconsistent e)

theorem finishText_ok_iff {t : CodeTable} {alpha : List Char} {inst : Inst} {text : List Char} {out : Out} :
    finishText t alpha inst text = .ok out ↔ ∃ d, readDesign alpha text = some d ∧ apply t inst d = .ok out := by
  unfold finishText
  cases readDesign alpha text with
  | none => simp
  | some d =>
    simp only [Option.some.injEq, exists_eq_left']
    cases ha : apply t inst d with
    | error e => simp
    | ok o => simp

/-! ### the writer and the reader round trip

`render` mirrors `Convert.output` (`design/constraint_load.py`): per record the four lines
`<int>:<name>`, `<seq> <float> <float> <int>`, target structure, mfe structure — each ended by a newline —
and then the trailer `Total n(s*) = <float>` without a final newline.  The header number is carried along
with the record (`Convert.output` prints the running index, `0` for starred views); the reader ignores it. -/

def renderRec (num : List Char) (r : Rec) : List (List Char) :=
  [num ++ ':' :: r.name, r.seq ++ r.fields.flatMap (' ' :: ·), r.target, r.mfe]

def renderLines (rs : List (List Char × Rec)) (total : List Char) : List (List Char) :=
  rs.flatMap (fun x => renderRec x.1 x.2) ++ [trailerPrefix ++ ' ' :: total]

def unlines : List (List Char) → List Char
  | [] => []
  | [l] => l
  | l :: r => l ++ '\n' :: unlines r

def render (rs : List (List Char × Rec)) (total : List Char) : List Char := unlines (renderLines rs total)

def okWord (p : Char → Bool) (w : List Char) : Bool := !w.isEmpty && w.all p

/-- a record the writer can produce: no field empty, each over its own alphabet, numeric fields valid -/
def wfRec (alpha : List Char) (x : List Char × Rec) : Bool :=
  okWord Char.isDigit x.1 && okWord isVarChar x.2.name && okWord (alpha.contains ·) x.2.seq
  && (match x.2.fields with
      | [f1, f2, f3] => okWord isNumChar f1 && validFloat f1 && okWord isNumChar f2 && validFloat f2
                        && okWord Char.isDigit f3
      | _ => false)
  && okWord isStructChar x.2.target && okWord isStructChar x.2.mfe

/-- the sequence alphabet contains neither blanks nor a newline (true of every `pyparsing.Word` alphabet
    the live grammar uses; checked by `decide` for the generated one) -/
def okAlpha (alpha : List Char) : Bool := alpha.all (fun c => c != ' ' && c != '\t' && c != '\n')

theorem splitLines_ne_nil (l : List Char) : splitLines l ≠ [] := by
  cases l with
  | nil => simp [splitLines]
  | cons c r =>
    simp only [splitLines]
    split
    · simp
    · split <;> simp

theorem splitLines_no_nl {l : List Char} (h : ∀ c ∈ l, c ≠ '\n') : splitLines l = [l] := by
  induction l with
  | nil => rfl
  | cons c r ih =>
    simp only [splitLines, ih (fun x hx => h x (List.mem_cons_of_mem _ hx))]
    have : (c == '\n') = false := beq_false_of_ne (h c List.mem_cons_self)
    simp [this]

theorem splitLines_append_nl {l : List Char} (h : ∀ c ∈ l, c ≠ '\n') (rest : List Char) :
    splitLines (l ++ '\n' :: rest) = l :: splitLines rest := by
  induction l with
  | nil =>
    simp only [List.nil_append, splitLines]
    cases hs : splitLines rest with
    | nil => exact absurd hs (splitLines_ne_nil rest)
    | cons a b => simp
  | cons c r ih =>
    simp only [List.cons_append, splitLines, ih (fun x hx => h x (List.mem_cons_of_mem _ hx))]
    have : (c == '\n') = false := beq_false_of_ne (h c List.mem_cons_self)
    simp [this]

theorem splitLines_unlines {ls : List (List Char)} (hne : ls ≠ []) (h : ∀ l ∈ ls, ∀ c ∈ l, c ≠ '\n') :
    splitLines (unlines ls) = ls := by
  induction ls with
  | nil => exact absurd rfl hne
  | cons l r ih =>
    cases r with
    | nil => simp only [unlines]; exact splitLines_no_nl (h l List.mem_cons_self)
    | cons l2 r2 =>
      simp only [unlines]
      rw [splitLines_append_nl (h l List.mem_cons_self)]
      rw [ih (by simp) (fun x hx => h x (List.mem_cons_of_mem _ hx))]

/-! #### words -/

theorem dropWhile_ws_word {w rest : List Char} (hw : w ≠ []) (hws : ∀ c ∈ w, isWs c = false) :
    (w ++ rest).dropWhile isWs = w ++ rest := by
  cases w with
  | nil => exact absurd rfl hw
  | cons c r =>
    simp only [List.cons_append]
    rw [List.dropWhile_cons_of_neg (by simp [hws c List.mem_cons_self])]

theorem takeWhile_word {p : Char → Bool} {w rest : List Char} (hp : ∀ c ∈ w, p c = true)
    (hrest : ∀ c r, rest = c :: r → p c = false) : (w ++ rest).takeWhile p = w := by
  induction w with
  | nil =>
    cases rest with
    | nil => rfl
    | cons c r => simp [hrest c r rfl]
  | cons a r ih =>
    simp only [List.cons_append, List.takeWhile_cons, hp a List.mem_cons_self, if_true]
    rw [ih (fun x hx => hp x (List.mem_cons_of_mem _ hx))]

/-- one word of a line: no leading blank -/
theorem scanWords_word {p : Char → Bool} {ps : List (Char → Bool)} {w rest : List Char} (hw : w ≠ [])
    (hp : ∀ c ∈ w, p c = true) (hws : ∀ c ∈ w, isWs c = false)
    (hrest : ∀ c r, rest = c :: r → p c = false) :
    scanWords (p :: ps) (w ++ rest) = (scanWords ps rest).map (w :: ·) := by
  simp only [scanWords]
  rw [dropWhile_ws_word hw hws, takeWhile_word hp hrest]
  have : w.isEmpty = false := by cases w with
    | nil => exact absurd rfl hw
    | cons _ _ => rfl
  simp [this]

/-- one word of a line after a single blank -/
theorem scanWords_blank_word {p : Char → Bool} {ps : List (Char → Bool)} {w rest : List Char} (hw : w ≠ [])
    (hp : ∀ c ∈ w, p c = true) (hws : ∀ c ∈ w, isWs c = false)
    (hrest : ∀ c r, rest = c :: r → p c = false) :
    scanWords (p :: ps) (' ' :: (w ++ rest)) = (scanWords ps rest).map (w :: ·) := by
  have h1 : scanWords (p :: ps) (' ' :: (w ++ rest)) = scanWords (p :: ps) (w ++ rest) := by
    simp only [scanWords]
    rw [List.dropWhile_cons_of_pos (by decide)]
  rw [h1, scanWords_word hw hp hws hrest]

theorem scanWords_end : scanWords [] [] = some [] := rfl

theorem okWord_iff {p : Char → Bool} {w : List Char} : okWord p w = true ↔ w ≠ [] ∧ ∀ c ∈ w, p c = true := by
  cases w <;> simp [okWord]

/-- a character satisfying `p` is not `x` when `p x` is false -/
theorem ne_of_pred {p : Char → Bool} {c x : Char} (h : p c = true) (hx : p x = false) : c ≠ x := by
  intro hc; subst hc; rw [hx] at h; cases h

theorem notWs_of_pred {p : Char → Bool} {c : Char} (h : p c = true) (h1 : p ' ' = false) (h2 : p '\t' = false) :
    isWs c = false := by
  have a := ne_of_pred h h1
  have b := ne_of_pred h h2
  simp [isWs, a, b]

theorem digit_facts : Char.isDigit ' ' = false ∧ Char.isDigit '\t' = false ∧ Char.isDigit '\n' = false
    ∧ Char.isDigit ':' = false ∧ Char.isDigit 'T' = false := by decide
theorem var_facts : isVarChar ' ' = false ∧ isVarChar '\t' = false ∧ isVarChar '\n' = false
    ∧ isVarChar ':' = false := by decide
theorem num_facts : isNumChar ' ' = false ∧ isNumChar '\t' = false ∧ isNumChar '\n' = false := by decide
theorem struct_facts : isStructChar ' ' = false ∧ isStructChar '\t' = false ∧ isStructChar '\n' = false := by decide

theorem alpha_facts {alpha : List Char} (ha : okAlpha alpha = true) :
    alpha.contains ' ' = false ∧ alpha.contains '\t' = false ∧ alpha.contains '\n' = false := by
  simp only [okAlpha, List.all_eq_true, Bool.and_eq_true, bne_iff_ne] at ha
  refine ⟨?_, ?_, ?_⟩ <;>
  · apply Bool.eq_false_iff.2
    intro hc
    have := ha _ (List.contains_iff_mem.1 hc)
    simp at this

theorem trailerPrefix_eq : trailerPrefix = 'T' :: "otal n(s*) =".toList := by decide
theorem trailerPrefix_length : trailerPrefix.length = 13 := by decide

/-- a line starting with a digit is not the trailer -/
theorem not_trailer {c : Char} {l : List Char} (hc : c.isDigit = true) :
    ((c :: l).take trailerPrefix.length == trailerPrefix) = false := by
  apply Bool.eq_false_iff.2
  intro h
  have := eq_of_beq h
  rw [trailerPrefix_length, trailerPrefix_eq] at this
  simp only [List.take_succ_cons, List.cons.injEq] at this
  exact ne_of_pred hc digit_facts.2.2.2.2 this.1

theorem parseHeader_render {num name : List Char} (hnum : okWord Char.isDigit num = true)
    (hname : okWord isVarChar name = true) : parseHeader (num ++ ':' :: name) = some name := by
  obtain ⟨n1, n2⟩ := okWord_iff.1 hnum
  obtain ⟨v1, v2⟩ := okWord_iff.1 hname
  have s3 : scanWords [isVarChar] name = some [name] := by
    have := scanWords_word (p := isVarChar) (ps := []) (w := name) (rest := []) v1 v2
      (fun c hc => notWs_of_pred (v2 c hc) var_facts.1 var_facts.2.1) (fun c r h => nomatch h)
    simpa [scanWords_end] using this
  have s2 : scanWords [(· == ':'), isVarChar] (':' :: name) = some [[':'], name] := by
    have := scanWords_word (p := (· == ':')) (ps := [isVarChar]) (w := [':']) (rest := name) (by simp)
      (by simp) (by simp [isWs])
      (fun c r h => by
        have : isVarChar c = true := v2 c (by rw [h]; exact List.mem_cons_self)
        exact beq_false_of_ne (ne_of_pred this var_facts.2.2.2))
    simpa [s3] using this
  have s1 : scanWords [Char.isDigit, (· == ':'), isVarChar] (num ++ ':' :: name) = some [num, [':'], name] := by
    have := scanWords_word (p := Char.isDigit) (ps := [(· == ':'), isVarChar]) (w := num) (rest := ':' :: name) n1 n2
      (fun c hc => notWs_of_pred (n2 c hc) digit_facts.1 digit_facts.2.1)
      (fun c r h => by cases h; exact digit_facts.2.2.2.1)
    simpa [s2] using this
  simp only [parseHeader, s1]

theorem scanStruct_render {w : List Char} (h : okWord isStructChar w = true) :
    scanWords [isStructChar] w = some [w] := by
  obtain ⟨v1, v2⟩ := okWord_iff.1 h
  have := scanWords_word (p := isStructChar) (ps := []) (w := w) (rest := []) v1 v2
    (fun c hc => notWs_of_pred (v2 c hc) struct_facts.1 struct_facts.2.1) (fun c r h => nomatch h)
  simpa [scanWords_end] using this

theorem scanSeqLine_render {alpha : List Char} (ha : okAlpha alpha = true) {sq f1 f2 f3 : List Char}
    (hsq : okWord (alpha.contains ·) sq = true) (h1 : okWord isNumChar f1 = true)
    (h2 : okWord isNumChar f2 = true) (h3 : okWord Char.isDigit f3 = true) :
    scanWords [(alpha.contains ·), isNumChar, isNumChar, Char.isDigit]
      (sq ++ [f1, f2, f3].flatMap (' ' :: ·)) = some [sq, f1, f2, f3] := by
  obtain ⟨a1, a2⟩ := okWord_iff.1 hsq
  obtain ⟨b1, b2⟩ := okWord_iff.1 h1
  obtain ⟨c1, c2⟩ := okWord_iff.1 h2
  obtain ⟨d1, d2⟩ := okWord_iff.1 h3
  obtain ⟨al1, al2, _⟩ := alpha_facts ha
  have e : sq ++ [f1, f2, f3].flatMap (' ' :: ·) = sq ++ (' ' :: (f1 ++ (' ' :: (f2 ++ (' ' :: (f3 ++ [])))))) := by
    simp
  rw [e]
  have s4 : scanWords [Char.isDigit] (' ' :: (f3 ++ [])) = some [f3] := by
    have := scanWords_blank_word (p := Char.isDigit) (ps := []) (w := f3) (rest := []) d1 d2
      (fun c hc => notWs_of_pred (d2 c hc) digit_facts.1 digit_facts.2.1) (fun c r h => nomatch h)
    simpa [scanWords_end] using this
  have s3 : scanWords [isNumChar, Char.isDigit] (' ' :: (f2 ++ (' ' :: (f3 ++ [])))) = some [f2, f3] := by
    have := scanWords_blank_word (p := isNumChar) (ps := [Char.isDigit]) (w := f2) (rest := ' ' :: (f3 ++ [])) c1 c2
      (fun c hc => notWs_of_pred (c2 c hc) num_facts.1 num_facts.2.1)
      (fun c r h => by cases h; exact num_facts.1)
    rw [this, s4]; rfl
  have s2 : scanWords [isNumChar, isNumChar, Char.isDigit] (' ' :: (f1 ++ (' ' :: (f2 ++ (' ' :: (f3 ++ []))))))
      = some [f1, f2, f3] := by
    have := scanWords_blank_word (p := isNumChar) (ps := [isNumChar, Char.isDigit]) (w := f1)
      (rest := ' ' :: (f2 ++ (' ' :: (f3 ++ [])))) b1 b2
      (fun c hc => notWs_of_pred (b2 c hc) num_facts.1 num_facts.2.1)
      (fun c r h => by cases h; exact num_facts.1)
    rw [this, s3]; rfl
  have := scanWords_word (p := (alpha.contains ·)) (ps := [isNumChar, isNumChar, Char.isDigit]) (w := sq)
    (rest := ' ' :: (f1 ++ (' ' :: (f2 ++ (' ' :: (f3 ++ [])))))) a1 a2
    (fun c hc => notWs_of_pred (p := (alpha.contains ·)) (a2 c hc) al1 al2)
    (fun c r h => by cases h; exact al1)
  rw [this, s2]; rfl

theorem scanTrailer_render {x : List Char} (hx : okWord isNumChar x = true) :
    scanWords [isNumChar] (' ' :: x) = some [x] := by
  obtain ⟨b1, b2⟩ := okWord_iff.1 hx
  have := scanWords_blank_word (p := isNumChar) (ps := []) (w := x) (rest := []) b1 b2
    (fun c hc => notWs_of_pred (b2 c hc) num_facts.1 num_facts.2.1) (fun c r h => nomatch h)
  simpa [scanWords_end] using this

/-- the record parser inverts the writer, line by line -/
theorem parseRecords_render {alpha : List Char} (ha : okAlpha alpha = true) {total : List Char}
    (ht : okWord isNumChar total = true) (hv : validFloat total = true)
    (rs : List (List Char × Rec)) (hrs : ∀ x ∈ rs, wfRec alpha x = true) (fuel : Nat) (hf : rs.length < fuel) :
    parseRecords alpha fuel (renderLines rs total) = some (rs.map (·.2)) := by
  induction rs generalizing fuel with
  | nil =>
    cases fuel with
    | zero => cases hf
    | succ fuel =>
      simp only [renderLines, List.flatMap_nil, List.nil_append, parseRecords]
      have hd : (trailerPrefix ++ ' ' :: total).dropWhile isWs = trailerPrefix ++ ' ' :: total := by
        rw [trailerPrefix_eq]; rfl
      have htk : (trailerPrefix ++ ' ' :: total).take trailerPrefix.length = trailerPrefix := List.take_left
      have hdr : (trailerPrefix ++ ' ' :: total).drop trailerPrefix.length = ' ' :: total := List.drop_left
      simp [hd, htk, hdr, scanTrailer_render ht, hv]
  | cons x r ih =>
    cases fuel with
    | zero => cases hf
    | succ fuel =>
      obtain ⟨num, rec⟩ := x
      have hx := hrs _ List.mem_cons_self
      simp only [wfRec, Bool.and_eq_true] at hx
      obtain ⟨⟨⟨⟨⟨hnum, hname⟩, hseq⟩, hfields⟩, htg⟩, hmf⟩ := hx
      obtain ⟨name, sq, fields, tg, mf⟩ := rec
      simp only at hname hseq hfields htg hmf
      split at hfields
      · rename_i f1 f2 f3
        simp only [Bool.and_eq_true] at hfields
        obtain ⟨⟨⟨⟨hf1, hv1⟩, hf2⟩, hv2⟩, hf3⟩ := hfields
        have ihr := ih (fun y hy => hrs y (List.mem_cons_of_mem _ hy)) fuel (by simp at hf; omega)
        obtain ⟨n1, n2⟩ := okWord_iff.1 hnum
        have hlines : renderLines ((num, ⟨name, sq, [f1, f2, f3], tg, mf⟩) :: r) total =
            (num ++ ':' :: name) :: (sq ++ [f1, f2, f3].flatMap (' ' :: ·)) :: tg :: mf :: renderLines r total := by
          simp [renderLines, renderRec]
        rw [hlines]
        have hnt : (((num ++ ':' :: name).dropWhile isWs).take trailerPrefix.length == trailerPrefix) = false := by
          cases num with
          | nil => exact absurd rfl n1
          | cons c cs =>
            have hc : c.isDigit = true := n2 c List.mem_cons_self
            have : ((c :: cs) ++ ':' :: name).dropWhile isWs = c :: (cs ++ ':' :: name) := by
              simp only [List.cons_append]
              rw [List.dropWhile_cons_of_neg]
              simp [notWs_of_pred hc digit_facts.1 digit_facts.2.1]
            rw [this]
            exact not_trailer hc
        simp only [parseRecords, hnt, parseHeader_render hnum hname, scanSeqLine_render ha hseq hf1 hf2 hf3,
          scanStruct_render htg, scanStruct_render hmf, hv1, hv2, ihr]
        simp
      · cases hfields

theorem renderLines_length (rs : List (List Char × Rec)) (total : List Char) :
    (renderLines rs total).length = 4 * rs.length + 1 := by
  induction rs with
  | nil => rfl
  | cons x r ih =>
    simp only [renderLines, List.flatMap_cons, List.length_append, List.length_cons, List.length_nil,
      renderRec] at ih ⊢
    omega

theorem no_nl_of_pred {p : Char → Bool} {w : List Char} (h : ∀ c ∈ w, p c = true) (hp : p '\n' = false) :
    ∀ c ∈ w, c ≠ '\n' := fun c hc => ne_of_pred (h c hc) hp

theorem renderLines_no_nl {alpha : List Char} (ha : okAlpha alpha = true) {total : List Char}
    (ht : okWord isNumChar total = true) (rs : List (List Char × Rec)) (hrs : ∀ x ∈ rs, wfRec alpha x = true) :
    ∀ l ∈ renderLines rs total, ∀ c ∈ l, c ≠ '\n' := by
  intro l hl c hc
  simp only [renderLines, List.mem_append, List.mem_flatMap, List.mem_singleton] at hl
  rcases hl with ⟨x, hx, hl⟩ | rfl
  · have hw := hrs x hx
    obtain ⟨num, name, sq, fields, tg, mf⟩ := x
    simp only [wfRec, Bool.and_eq_true] at hw
    obtain ⟨⟨⟨⟨⟨hnum, hname⟩, hseq⟩, hfields⟩, htg⟩, hmf⟩ := hw
    have nnum := no_nl_of_pred (okWord_iff.1 hnum).2 digit_facts.2.2.1
    have nname := no_nl_of_pred (okWord_iff.1 hname).2 var_facts.2.2.1
    have nseq := no_nl_of_pred (p := (alpha.contains ·)) (okWord_iff.1 hseq).2 (alpha_facts ha).2.2
    have ntg := no_nl_of_pred (okWord_iff.1 htg).2 struct_facts.2.2
    have nmf := no_nl_of_pred (okWord_iff.1 hmf).2 struct_facts.2.2
    simp only [renderRec, List.mem_cons, List.not_mem_nil, or_false] at hl
    rcases hl with rfl | rfl | rfl | rfl
    · rcases List.mem_append.1 hc with h | h
      · exact nnum c h
      · rcases List.mem_cons.1 h with rfl | h
        · decide
        · exact nname c h
    · split at hfields
      · rename_i f1 f2 f3
        simp only [Bool.and_eq_true] at hfields
        obtain ⟨⟨⟨⟨hf1, _⟩, hf2⟩, _⟩, hf3⟩ := hfields
        have m1 := no_nl_of_pred (okWord_iff.1 hf1).2 num_facts.2.2
        have m2 := no_nl_of_pred (okWord_iff.1 hf2).2 num_facts.2.2
        have m3 := no_nl_of_pred (okWord_iff.1 hf3).2 digit_facts.2.2.1
        simp only [List.flatMap_cons, List.flatMap_nil, List.mem_append, List.mem_cons, List.not_mem_nil,
          or_false] at hc
        rcases hc with h | (rfl | h) | (rfl | h) | (rfl | h)
        · exact nseq c h
        · decide
        · exact m1 c h
        · decide
        · exact m2 c h
        · decide
        · exact m3 c h
      · cases hfields
    · exact ntg c hc
    · exact nmf c hc
  · rcases List.mem_append.1 hc with h | h
    · intro hcn; subst hcn; revert h; decide
    · rcases List.mem_cons.1 h with rfl | h
      · decide
      · exact no_nl_of_pred (okWord_iff.1 ht).2 num_facts.2.2 c h

/-- reading what the writer wrote gives back the `name ↦ sequence` list, record by record -/
theorem readDesign_render {alpha : List Char} (ha : okAlpha alpha = true) {total : List Char}
    (ht : okWord isNumChar total = true) (hv : validFloat total = true)
    (rs : List (List Char × Rec)) (hrs : ∀ x ∈ rs, wfRec alpha x = true) :
    readDesign alpha (render rs total) = some (rs.map (fun x => (x.2.name, x.2.seq))) := by
  have hsl : splitLines (render rs total) = renderLines rs total :=
    splitLines_unlines (by simp [renderLines]) (renderLines_no_nl ha ht rs hrs)
  simp only [readDesign, hsl]
  rw [parseRecords_render ha ht hv rs hrs _ (by rw [renderLines_length]; omega)]
  simp [List.map_map, Function.comp_def]

/-! ### the saved state against the `.pil` written by the same compile (C16) -/

/-- what a statement list declares, kind by kind -/
def pilSeqDecls (l : List Pil.Stmt) : List (String × Nat) :=
  l.filterMap (fun st => match st with | .seq n tpl => some (n, tpl.length) | _ => none)
def pilSupDecls (l : List Pil.Stmt) : List (String × List String) :=
  l.filterMap (fun st => match st with | .sup n items => some (n, items) | _ => none)
def pilStrandDecls (l : List Pil.Stmt) : List (String × Bool × List String) :=
  l.filterMap (fun st => match st with | .strand n dummy items => some (n, dummy, items) | _ => none)
def pilStructDecls (l : List Pil.Stmt) : List (String × List String × List Char) :=
  l.filterMap (fun st => match st with | .struct n _ strands s => some (n, strands, s) | _ => none)

/-- the same four lists read off the saved component state -/
def stSeqDecls (s : Comp.St) : List (String × Nat) :=
  (s.baseSeqs.filter (·.len != 0)).map (fun e => (s.pfx ++ e.name, e.len))
def stSupDecls (s : Comp.St) : List (String × List String) :=
  (s.supSeqs.filter (·.len != 0)).map (fun e =>
    (s.pfx ++ e.name, (e.items.filter (!·.dummy)).map (Emit.itemRaw s.pfx)))
def stStrandDecls (s : Comp.St) : List (String × Bool × List String) :=
  s.strands.map (fun e => (s.pfx ++ e.name, e.dummy, (e.items.filter (!·.dummy)).map (Emit.itemRaw s.pfx)))
def stStructDecls (s : Comp.St) : List (String × List String × List Char) :=
  s.structs.map (fun e => (s.pfx ++ e.name, e.strands.map (s.pfx ++ ·), e.struct))

/-- the recorded length of an atomic sequence is the length of its constraint string (what
    `Constraint.resolve` returns, `resolve_length`; an invariant of loaded components) -/
def constLenB (s : Comp.St) : Bool := s.baseSeqs.all (fun e => e.const.length == e.len)

theorem pilSeqDecls_append (a b : List Pil.Stmt) : pilSeqDecls (a ++ b) = pilSeqDecls a ++ pilSeqDecls b :=
  List.filterMap_append
theorem pilSupDecls_append (a b : List Pil.Stmt) : pilSupDecls (a ++ b) = pilSupDecls a ++ pilSupDecls b :=
  List.filterMap_append
theorem pilStrandDecls_append (a b : List Pil.Stmt) :
    pilStrandDecls (a ++ b) = pilStrandDecls a ++ pilStrandDecls b := List.filterMap_append
theorem pilStructDecls_append (a b : List Pil.Stmt) :
    pilStructDecls (a ++ b) = pilStructDecls a ++ pilStructDecls b := List.filterMap_append

theorem filterMap_fun_none {α γ} (l : List α) : l.filterMap (fun _ => (none : Option γ)) = [] := by
  induction l with
  | nil => rfl
  | cons a r ih => simp [ih]

theorem filterMap_fun_some {α γ} (k : α → γ) (l : List α) : l.filterMap (fun x => some (k x)) = l.map k := by
  induction l with
  | nil => rfl
  | cons a r ih => simp [ih]

theorem compStmts_seqDecls (s : Comp.St) (h : constLenB s = true) :
    pilSeqDecls (Emit.compStmts s) = stSeqDecls s := by
  simp only [constLenB, List.all_eq_true, beq_iff_eq] at h
  simp only [Emit.compStmts, pilSeqDecls, stSeqDecls, List.filterMap_append, List.filterMap_map,
    Function.comp_def, filterMap_fun_none, filterMap_fun_some, List.append_nil]
  apply List.map_congr_left
  intro e he
  rw [h e (List.mem_filter.1 he).1]

theorem compStmts_supDecls (s : Comp.St) : pilSupDecls (Emit.compStmts s) = stSupDecls s := by
  simp only [Emit.compStmts, pilSupDecls, stSupDecls, List.filterMap_append, List.filterMap_map,
    Function.comp_def, filterMap_fun_none, filterMap_fun_some, List.append_nil, List.nil_append]

theorem compStmts_strandDecls (s : Comp.St) : pilStrandDecls (Emit.compStmts s) = stStrandDecls s := by
  simp only [Emit.compStmts, pilStrandDecls, stStrandDecls, List.filterMap_append, List.filterMap_map,
    Function.comp_def, filterMap_fun_none, filterMap_fun_some, List.append_nil, List.nil_append]

theorem compStmts_structDecls (s : Comp.St) : pilStructDecls (Emit.compStmts s) = stStructDecls s := by
  simp only [Emit.compStmts, pilStructDecls, stStructDecls, List.filterMap_append, List.filterMap_map,
    Function.comp_def, filterMap_fun_none, filterMap_fun_some, List.append_nil, List.nil_append]

/-! #### the whole tree -/

mutual
/-- all components of a tree in `System.components` order (no fuel) -/
def allComps : Inst → List Comp.St
  | .comp st => [st]
  | .sys st => allCompsSys st
def allCompsSys : SysSt → List Comp.St
  | .mk _ _ _ _ _ _ components _ _ => allCompsList components
def allCompsList : List (String × Inst) → List Comp.St
  | [] => []
  | (_, i) :: r => allComps i ++ allCompsList r
end

mutual
/-- nesting depth of a tree -/
def depth : Inst → Nat
  | .comp _ => 0
  | .sys st => depthSys st
def depthSys : SysSt → Nat
  | .mk _ _ _ _ _ _ components _ _ => depthList components
def depthList : List (String × Inst) → Nat
  | [] => 0
  | (_, i) :: r => max (depth i + 1) (depthList r)
end

mutual
/-- the sequences a tree's `.pil` declares: per component its non-dummy atomic sequences, and after the
    components of each system one sequence per signal, of the signal's length -/
def treeSeqDecls : Inst → List (String × Nat)
  | .comp st => stSeqDecls st
  | .sys st => treeSeqDeclsSys st
def treeSeqDeclsSys : SysSt → List (String × Nat)
  | .mk _ _ pfx _ signals lengths components _ _ =>
    treeSeqDeclsList components ++ signals.map (fun x => (pfx ++ x.1, (lengths.lookup x.1).getD 0))
def treeSeqDeclsList : List (String × Inst) → List (String × Nat)
  | [] => []
  | (_, i) :: r => treeSeqDecls i ++ treeSeqDeclsList r
end

mutual
def allConstLen : Inst → Bool
  | .comp st => constLenB st
  | .sys st => allConstLenSys st
def allConstLenSys : SysSt → Bool
  | .mk _ _ _ _ _ _ components _ _ => allConstLenList components
def allConstLenList : List (String × Inst) → Bool
  | [] => true
  | (_, i) :: r => allConstLen i && allConstLenList r
end

mutual
/-- `compsOf` with enough fuel is the plain traversal -/
theorem compsOf_allComps : ∀ (i : Inst) (fuel : Nat), depth i < fuel → compsOf fuel i = allComps i
  | .comp st, fuel, h => by
    cases fuel with
    | zero => cases h
    | succ f => simp [compsOf, allComps]
  | .sys (.mk p n pf t sg l c is os), fuel, h => by
    cases fuel with
    | zero => cases h
    | succ f =>
      simp only [compsOf, allComps, allCompsSys, SysSt.components]
      exact compsOf_allCompsList c f (by simp only [depth, depthSys] at h; omega)
theorem compsOf_allCompsList : ∀ (c : List (String × Inst)) (fuel : Nat), depthList c ≤ fuel →
    c.flatMap (fun x => compsOf fuel x.2) = allCompsList c
  | [], _, _ => rfl
  | (_, i) :: r, fuel, h => by
    simp only [depthList] at h
    simp only [List.flatMap_cons, allCompsList]
    rw [compsOf_allComps i fuel (by omega), compsOf_allCompsList r fuel (by omega)]
end

/-- the signal statements a system appends after its components (the expression of `Emit.sysStmts`) -/
def sigStmts (pfx : String) (signals : List (String × List SigEntry)) (lengths : List (String × Nat)) :
    List Pil.Stmt :=
  signals.flatMap (fun (sg, entries) =>
      let len := (lengths.lookup sg).getD 0
      [Pil.Stmt.seq (pfx ++ sg) (List.replicate len 'N'),
       Pil.Stmt.equal ((pfx ++ sg) :: entries.map (fun e =>
          (match e.port with
           | .seq i _ => pfx ++ e.comp ++ "-" ++ i.name
           | .sig n => pfx ++ e.comp ++ "-" ++ n) ++ (if e.wc then "*" else "")))])

theorem sigStmts_decls (pfx : String) (signals : List (String × List SigEntry)) (lengths : List (String × Nat)) :
    pilSeqDecls (sigStmts pfx signals lengths) = signals.map (fun x => (pfx ++ x.1, (lengths.lookup x.1).getD 0)) ∧
    pilSupDecls (sigStmts pfx signals lengths) = [] ∧ pilStrandDecls (sigStmts pfx signals lengths) = [] ∧
    pilStructDecls (sigStmts pfx signals lengths) = [] := by
  induction signals with
  | nil => exact ⟨rfl, rfl, rfl, rfl⟩
  | cons a r ih =>
    obtain ⟨sg, entries⟩ := a
    obtain ⟨h1, h2, h3, h4⟩ := ih
    simp only [sigStmts, List.flatMap_cons, List.map_cons] at h1 h2 h3 h4 ⊢
    refine ⟨?_, ?_, ?_, ?_⟩
    · rw [pilSeqDecls_append, h1]; simp [pilSeqDecls]
    · rw [pilSupDecls_append, h2]; simp [pilSupDecls]
    · rw [pilStrandDecls_append, h3]; simp [pilStrandDecls]
    · rw [pilStructDecls_append, h4]; simp [pilStructDecls]

theorem sysStmts_eq (p n pfx : String) (t : List (String × String)) (sg : List (String × List SigEntry))
    (l : List (String × Nat)) (c : List (String × Inst)) (is os : List SigRef) :
    Emit.sysStmts (.mk p n pfx t sg l c is os) = Emit.compsStmts c ++ sigStmts pfx sg l := by
  simp only [Emit.sysStmts, sigStmts]
  congr 2

mutual
/-- the declarations of a tree's `.pil`, kind by kind, are those of its saved components in order (plus one
    sequence per signal) -/
theorem instStmts_decls : ∀ (i : Inst),
    (allConstLen i = true → pilSeqDecls (Emit.instStmts i) = treeSeqDecls i) ∧
    pilSupDecls (Emit.instStmts i) = (allComps i).flatMap stSupDecls ∧
    pilStrandDecls (Emit.instStmts i) = (allComps i).flatMap stStrandDecls ∧
    pilStructDecls (Emit.instStmts i) = (allComps i).flatMap stStructDecls
  | .comp st => by
    simp only [Emit.instStmts, allComps, allConstLen, treeSeqDecls, List.flatMap_cons, List.flatMap_nil,
      List.append_nil]
    exact ⟨compStmts_seqDecls st, compStmts_supDecls st, compStmts_strandDecls st, compStmts_structDecls st⟩
  | .sys (.mk p n pfx t sg l c is os) => by
    obtain ⟨h1, h2, h3, h4⟩ := compsStmts_decls c
    obtain ⟨g1, g2, g3, g4⟩ := sigStmts_decls pfx sg l
    simp only [Emit.instStmts, sysStmts_eq, allComps, allCompsSys, allConstLen, allConstLenSys, treeSeqDecls,
      treeSeqDeclsSys, pilSeqDecls_append, pilSupDecls_append, pilStrandDecls_append, pilStructDecls_append,
      g1, g2, g3, g4, h2, h3, h4, List.append_nil]
    exact ⟨fun hc => by rw [h1 hc], trivial, trivial, trivial⟩
theorem compsStmts_decls : ∀ (c : List (String × Inst)),
    (allConstLenList c = true → pilSeqDecls (Emit.compsStmts c) = treeSeqDeclsList c) ∧
    pilSupDecls (Emit.compsStmts c) = (allCompsList c).flatMap stSupDecls ∧
    pilStrandDecls (Emit.compsStmts c) = (allCompsList c).flatMap stStrandDecls ∧
    pilStructDecls (Emit.compsStmts c) = (allCompsList c).flatMap stStructDecls
  | [] => ⟨fun _ => rfl, rfl, rfl, rfl⟩
  | (_, i) :: r => by
    obtain ⟨h1, h2, h3, h4⟩ := instStmts_decls i
    obtain ⟨k1, k2, k3, k4⟩ := compsStmts_decls r
    simp only [Emit.compsStmts, allCompsList, allConstLenList, treeSeqDeclsList, pilSeqDecls_append,
      pilSupDecls_append, pilStrandDecls_append, pilStructDecls_append, List.flatMap_append, h2, h3, h4, k2, k3,
      k4, Bool.and_eq_true]
    exact ⟨fun hc => by rw [h1 hc.1, k1 hc.2], trivial, trivial, trivial⟩
end

end Pepper.Finish
