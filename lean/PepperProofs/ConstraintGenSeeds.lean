import PepperProofs.ConstraintGenGraph
/-!
# The seeding of `get_constraints`: what the `init` calls and the links are

Generic lemmas about the exception-propagating loops (`mapME`, `flatME`), then facts about `seeds`.
-/
namespace Pepper.ConstraintGen
open Pepper Pepper.Pil Pepper.Closure Pepper.LinkSpec

/-! ## loops with exceptions -/

theorem mapME_ok_iff {α β : Type} {f : α → Except Err β} {l : List α} {bs : List β} :
    mapME f l = .ok bs ↔ List.Forall₂ (fun a b => f a = .ok b) l bs := by
  induction l generalizing bs with
  | nil =>
    constructor
    · intro h; simp [mapME] at h; subst h; exact List.Forall₂.nil
    · intro h; cases h; rfl
  | cons a l ih =>
    constructor
    · intro h
      simp only [mapME] at h
      cases ha : f a with
      | error e => simp [ha] at h
      | ok b =>
        simp only [ha] at h
        cases hr : mapME f l with
        | error e => simp [hr] at h
        | ok bs' =>
          simp only [hr, Except.ok.injEq] at h
          subst h
          exact List.Forall₂.cons ha (ih.1 hr)
    · intro h
      cases h with
      | cons ha hr =>
        simp only [mapME, ha, ih.2 hr]

theorem forall₂_mem_right {α β : Type} {R : α → β → Prop} {l : List α} {bs : List β} (h : List.Forall₂ R l bs)
    {b : β} (hb : b ∈ bs) : ∃ a ∈ l, R a b := by
  induction h with
  | nil => cases hb
  | cons hab _ ih =>
    rcases List.mem_cons.1 hb with rfl | hb
    · exact ⟨_, List.mem_cons_self, hab⟩
    · obtain ⟨a, ha, hr⟩ := ih hb
      exact ⟨a, List.mem_cons_of_mem _ ha, hr⟩

theorem forall₂_mem_left {α β : Type} {R : α → β → Prop} {l : List α} {bs : List β} (h : List.Forall₂ R l bs)
    {a : α} (ha : a ∈ l) : ∃ b ∈ bs, R a b := by
  induction h with
  | nil => cases ha
  | cons hab _ ih =>
    rcases List.mem_cons.1 ha with rfl | ha
    · exact ⟨_, List.mem_cons_self, hab⟩
    · obtain ⟨b, hb, hr⟩ := ih ha
      exact ⟨b, List.mem_cons_of_mem _ hb, hr⟩

theorem mapME_mem {α β : Type} {f : α → Except Err β} {l : List α} {bs : List β} (h : mapME f l = .ok bs)
    {b : β} (hb : b ∈ bs) : ∃ a ∈ l, f a = .ok b := forall₂_mem_right (mapME_ok_iff.1 h) hb

theorem mapME_mem_left {α β : Type} {f : α → Except Err β} {l : List α} {bs : List β} (h : mapME f l = .ok bs)
    {a : α} (ha : a ∈ l) : ∃ b ∈ bs, f a = .ok b := forall₂_mem_left (mapME_ok_iff.1 h) ha

/-- a loop whose body never raises -/
theorem mapME_total {α β : Type} {f : α → Except Err β} {g : α → β} (l : List α) (h : ∀ a ∈ l, f a = .ok (g a)) :
    mapME f l = .ok (l.map g) := by
  induction l with
  | nil => rfl
  | cons a l ih =>
    simp only [mapME, h a List.mem_cons_self, ih (fun a ha => h a (List.mem_cons_of_mem _ ha)), List.map_cons]

theorem flatME_ok {α β : Type} {f : α → Except Err (List β)} {l : List α} {bs : List β} (h : flatME f l = .ok bs) :
    ∃ ls, mapME f l = .ok ls ∧ bs = ls.flatten := by
  unfold flatME at h
  cases hm : mapME f l with
  | error e => simp [hm] at h
  | ok ls => simp only [hm, Except.ok.injEq] at h; exact ⟨ls, rfl, h.symm⟩

theorem flatME_mem {α β : Type} {f : α → Except Err (List β)} {l : List α} {bs : List β} (h : flatME f l = .ok bs)
    (b : β) : b ∈ bs ↔ ∃ a ∈ l, ∃ cs, f a = .ok cs ∧ b ∈ cs := by
  obtain ⟨ls, hm, rfl⟩ := flatME_ok h
  simp only [List.mem_flatten]
  constructor
  · rintro ⟨cs, hcs, hb⟩
    obtain ⟨a, ha, hf⟩ := mapME_mem hm hcs
    exact ⟨a, ha, cs, hf, hb⟩
  · rintro ⟨a, ha, cs, hf, hb⟩
    obtain ⟨cs', hcs', hf'⟩ := mapME_mem_left hm ha
    rw [hf] at hf'
    cases hf'
    exact ⟨cs, hcs', hb⟩

theorem flatME_total {α β : Type} {f : α → Except Err (List β)} {g : α → List β} (l : List α)
    (h : ∀ a ∈ l, f a = .ok (g a)) : flatME f l = .ok (l.flatMap g) := by
  unfold flatME
  rw [mapME_total l h]
  simp [List.flatMap]

/-! ## what `seeds` produces -/

/-- the part of well-formedness of a specification that the graph-level theorems need: every template
    letter (and the default `N`) is a code of the table -/
structure SpecCodes (tbl : CodeTable) (spec : Spec) : Prop where
  nCode : tbl.isCode 'N' = true
  templates : ∀ o ∈ spec.baseSeqs, ∀ ch ∈ o.template, tbl.isCode ch = true

theorem mem_enum {α : Type} {l : List α} {p : Nat × α} (h : p ∈ enum l) : p.2 ∈ l ∧ l[p.1]? = some p.2 := by
  unfold enum at h
  obtain ⟨k, hk, he⟩ := List.getElem_of_mem h
  have hk1 : k < l.length := by simp [List.length_zip] at hk; omega
  have : ((List.range l.length).zip l)[k] = (k, l[k]) := by
    rw [List.getElem_zip]; simp
  rw [this] at he
  subst he
  exact ⟨List.getElem_mem hk1, List.getElem?_eq_getElem hk1⟩

theorem layoutInits_letters {mode : Layout} {spec : Spec} {lay : Lay} {li : List (Nat × Char)}
    (h : layoutInits mode spec lay = .ok li) : ∀ p ∈ li, p.2 = 'N' := by
  intro p hp
  unfold layoutInits at h
  cases mode with
  | struct =>
    simp only at h
    obtain ⟨a, _, cs, hcs, hpc⟩ := (flatME_mem h p).1 hp
    obtain ⟨x, _, hx⟩ := mapME_mem hcs hpc
    split at hx
    · cases hx; rfl
    · cases hx
  | strand =>
    simp only at h
    obtain ⟨a, _, cs, hcs, hpc⟩ := (flatME_mem h p).1 hp
    obtain ⟨x, _, hx⟩ := mapME_mem hcs hpc
    split at hx
    · cases hx; rfl
    · cases hx

theorem seqInits_letters {tbl : CodeTable} {spec : Spec} (ok : SpecCodes tbl spec) (e : Enc) :
    ∀ p ∈ seqInits spec e, tbl.isCode p.2 = true := by
  intro p hp
  unfold seqInits at hp
  rcases List.mem_append.1 hp with hp | hp
  · obtain ⟨⟨k, o⟩, hko, hp⟩ := List.mem_flatMap.1 hp
    simp only at hp
    rcases List.mem_append.1 hp with hp | hp
    · obtain ⟨⟨x, c⟩, hxc, rfl⟩ := List.mem_map.1 hp
      exact ok.templates o (mem_enum hko).1 c (mem_enum hxc).1
    · obtain ⟨x, _, rfl⟩ := List.mem_map.1 hp
      exact ok.nCode
  · obtain ⟨⟨k, o⟩, hko, hp⟩ := List.mem_flatMap.1 hp
    simp only at hp
    rcases List.mem_append.1 hp with hp | hp
    · obtain ⟨x, _, rfl⟩ := List.mem_map.1 hp
      exact ok.nCode
    · obtain ⟨x, _, rfl⟩ := List.mem_map.1 hp
      exact ok.nCode

/-- unfolding `seeds` -/
theorem seeds_ok {mode : Layout} {spec : Spec} {s : Seeds} (h : seeds mode spec = .ok s) :
    ∃ li ce be ee se te,
      layoutInits mode spec (layOf mode spec) = .ok li ∧
      copyEdges mode spec (layOf mode spec) = .ok ce ∧
      bondEdges mode spec (layOf mode spec) = .ok be ∧
      equalEdges spec (encOf spec (layOf mode spec)) = .ok ee ∧
      supEdges spec (encOf spec (layOf mode spec)) = .ok se ∧
      strandEdges spec (layOf mode spec) (encOf spec (layOf mode spec)) = .ok te ∧
      s = ⟨(layOf mode spec).total, li ++ seqInits spec (encOf spec (layOf mode spec)), ce ++ ee ++ se ++ te,
           be ++ viewEdges spec (encOf spec (layOf mode spec))⟩ := by
  unfold seeds at h
  simp only at h
  cases h1 : layoutInits mode spec (layOf mode spec) with
  | error e => simp [h1] at h
  | ok li =>
  cases h2 : copyEdges mode spec (layOf mode spec) with
  | error e => simp [h1, h2] at h
  | ok ce =>
  cases h3 : bondEdges mode spec (layOf mode spec) with
  | error e => simp [h1, h2, h3] at h
  | ok be =>
  cases h4 : equalEdges spec (encOf spec (layOf mode spec)) with
  | error e => simp [h1, h2, h3, h4] at h
  | ok ee =>
  cases h5 : supEdges spec (encOf spec (layOf mode spec)) with
  | error e => simp [h1, h2, h3, h4, h5] at h
  | ok se =>
  cases h6 : strandEdges spec (layOf mode spec) (encOf spec (layOf mode spec)) with
  | error e => simp [h1, h2, h3, h4, h5, h6] at h
  | ok te =>
    simp only [h1, h2, h3, h4, h5, h6, Except.ok.injEq] at h
    exact ⟨li, ce, be, ee, se, te, rfl, rfl, rfl, rfl, rfl, rfl, h.symm⟩

theorem seeds_codes {tbl : CodeTable} {mode : Layout} {spec : Spec} {s : Seeds} (ok : SpecCodes tbl spec)
    (h : seeds mode spec = .ok s) : ∀ p ∈ s.inits, tbl.isCode p.2 = true := by
  obtain ⟨li, ce, be, ee, se, te, h1, _, _, _, _, _, rfl⟩ := seeds_ok h
  intro p hp
  rcases List.mem_append.1 hp with hp | hp
  · rw [layoutInits_letters h1 p hp]; exact ok.nCode
  · exact seqInits_letters ok _ p hp

/-- **`get_constraints` after a successful seeding**: the three possible outcomes, in terms of the seeded
    graph (`finish_spec` instantiated). -/
theorem getConstraintsT_spec {tbl : CodeTable} (hl : tbl.lawful = true) {mode : Layout} {spec : Spec}
    (ok : SpecCodes tbl spec) {s : Seeds} {c : Cons} (hs : seeds mode spec = .ok s) (hb : build s = .ok c) :
    c.WF tbl ∧
    ((getConstraintsT tbl mode spec = .error .overconstrained ∧ ¬ GraphSat tbl c) ∨
     (getConstraintsT tbl mode spec = .error .noPositions ∧ GraphSat tbl c ∧ ∀ x ∈ c.keys, ¬ x < s.P) ∨
     (∃ a, getConstraintsT tbl mode spec = .ok a ∧ GraphSat tbl c ∧ GraphExact tbl c s.P a)) := by
  obtain ⟨wf, _⟩ := build_spec (tbl := tbl) hb (seeds_codes ok hs)
  refine ⟨wf, ?_⟩
  have : getConstraintsT tbl mode spec = finish tbl s.P c := by simp [getConstraintsT, hs, hb]
  rw [this]
  exact finish_spec hl s.P wf

end Pepper.ConstraintGen
