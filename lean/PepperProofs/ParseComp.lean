import PepperProofs.ParseCompRenderStruct
import PepperProofs.ParseCompRenderKin
import PepperProofs.ParseCompRenderDecl
import PepperProofs.ParseCompSound
import PepperProofs.ParseCompDoc
import PepperProofs.ParseCompC09
/-!
# `.comp` statement parser: assembly of the parts, statements on `String`

Parts: `ParseCompEngine` (the backtracking engine), `ParseCompDefs` (canonical spelling, well-formedness, accepted
shapes), `ParseCompChars`, `ParseCompRenderCons` / `…Seq` / `…Struct` / `…Kin` / `…Decl` (parse ∘ render = id),
`ParseCompSound` (shape of accepted statements), `ParseCompDoc` (the statement loop is line-local), `ParseCompC09`
(from accepted text to C09's hypothesis).
-/
namespace Pepper.ParseComp
open Pepper.Comp

theorem parseLineL_render {sp : Nat → Str} (hsp : SpOkL sp) (s : Stmt) (h : wfStmt s = true) :
    parseLineL (renderStmtL sp s) = .ok s := by
  cases s with
  | seq n items len => exact parseLineL_seq hsp n items len h
  | strand d n items len => exact parseLineL_strand hsp d n items len h
  | struct opt n strands domain text => exact parseLineL_struct hsp opt n strands domain text h
  | kinetic lo hi ins outs => exact parseLineL_kinetic hsp lo hi ins outs h

theorem SpOk.toL {sp : Nat → String} (h : SpOk sp) : SpOkL (fun i => (sp i).toList) := h

theorem spOk_single : SpOk (fun _ => " ") := by
  intro i
  show " ".toList ≠ [] ∧ ∀ c ∈ " ".toList, isBlank c = true
  decide

theorem parseLine_render {sp : Nat → String} (hsp : SpOk sp) (s : Stmt) (h : wfStmt s = true) :
    parseLine (renderStmtWith sp s) = .ok s := by
  unfold parseLine renderStmtWith
  rw [String.toList_ofList]
  exact parseLineL_render hsp.toL s h

theorem parseDeclare_render {sp : Nat → String} (hsp : SpOk sp) (d : Decl) (h : wfDecl d = true) :
    parseDeclare (renderDeclWith sp d) = .ok d := by
  unfold parseDeclare renderDeclWith
  rw [String.toList_ofList]
  exact parseDeclareL_render hsp.toL d h

/-- the lines of a document as strings -/
theorem mem_docLines {text l : String} (h : l ∈ docLines text) : l.toList ∈ docLinesL text.toList := by
  unfold docLines at h
  obtain ⟨x, hx, rfl⟩ := List.mem_map.mp h
  rw [String.toList_ofList]
  exact hx

theorem parseLine_ofList (l : Str) : parseLine (String.ofList l) = parseLineL l := by
  unfold parseLine
  rw [String.toList_ofList]

/-- **the document parser is total and line-local** -/
theorem parseDoc_ok_iff (text decl : String) (src : Src) :
    parseDoc text decl = .ok src ↔
      ∃ d, parseDeclare decl = .ok d ∧ src = ⟨d.name, d.params, d.inputs, d.outputs, src.stmts⟩ ∧
        (docLines text).map parseLine = src.stmts.map .ok := by
  unfold parseDoc parseDeclare docLines
  rw [parseDocL_ok_iff]
  constructor
  · rintro ⟨d, hd, hs, hl⟩
    refine ⟨d, hd, hs, ?_⟩
    rw [List.map_map, ← hl]
    apply List.map_congr_left
    intro l _
    exact parseLine_ofList l
  · rintro ⟨d, hd, hs, hl⟩
    refine ⟨d, hd, hs, ?_⟩
    rw [List.map_map] at hl
    rw [← hl]
    apply List.map_congr_left
    intro l _
    exact (parseLine_ofList l).symm

theorem parseDoc_total (text decl : String) :
    (∃ src, parseDoc text decl = .ok src) ↔
      (∃ d, parseDeclare decl = .ok d) ∧ ∀ l ∈ docLines text, ∃ st, parseLine l = .ok st := by
  unfold parseDoc parseDeclare
  rw [parseDocL_total]
  constructor
  · rintro ⟨hd, hl⟩
    refine ⟨hd, ?_⟩
    intro l hl'
    unfold parseLine
    exact hl _ (mem_docLines hl')
  · rintro ⟨hd, hl⟩
    refine ⟨hd, ?_⟩
    intro l hl'
    have := hl (String.ofList l) (by unfold docLines; exact List.mem_map.mpr ⟨l, hl', rfl⟩)
    rwa [parseLine_ofList] at this

end Pepper.ParseComp
