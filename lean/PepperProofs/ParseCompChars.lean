import PepperProofs.ParseCompDefs
import Std.Data.String.ToNat
/-!
# Character-class facts and Python string helpers used by the `.comp` parser proofs
-/
namespace Pepper.ParseComp

/-! ### classes -/

theorem isSp_cases {c : Char} (h : isSp c = true) :
    c = ' ' ∨ c = '\t' ∨ c = '\n' ∨ c = '\r' ∨ c = '\x0b' ∨ c = '\x0c' ∨ c = '\x1c' ∨ c = '\x1d' ∨ c = '\x1e' ∨ c = '\x1f' := by
  simpa [isSp, or_assoc] using h

theorem isBlank_cases {c : Char} (h : isBlank c = true) : c = ' ' ∨ c = '\t' := by
  simpa [isBlank] using h

theorem blank_isSp {c : Char} (h : isBlank c = true) : isSp c = true := by
  rcases isBlank_cases h with rfl | rfl <;> decide

theorem blank_notName {c : Char} (h : isBlank c = true) : isName c = false := by
  rcases isBlank_cases h with rfl | rfl <;> decide

theorem blank_notColon {c : Char} (h : isBlank c = true) : notColon c = true := by
  rcases isBlank_cases h with rfl | rfl <;> decide

theorem blank_notNl {c : Char} (h : isBlank c = true) : notNl c = true := by
  rcases isBlank_cases h with rfl | rfl <;> decide

theorem blank_notBrGt {c : Char} (h : isBlank c = true) : notBrGt c = true := by
  rcases isBlank_cases h with rfl | rfl <;> decide

theorem blank_notBr {c : Char} (h : isBlank c = true) : notBr c = true := by
  rcases isBlank_cases h with rfl | rfl <;> decide

theorem blank_ne {c d : Char} (h : isBlank c = true) (hd : isBlank d = false) : c ≠ d := by
  rintro rfl
  rw [h] at hd
  cases hd

/-- a name character is no white space -/
theorem name_notSp {c : Char} (h : isName c = true) : isSp c = false := by
  cases hs : isSp c with
  | false => rfl
  | true =>
    exfalso
    rcases isSp_cases hs with rfl | rfl | rfl | rfl | rfl | rfl | rfl | rfl | rfl | rfl <;> exact absurd h (by decide)

theorem name_ne {c d : Char} (h : isName c = true) (hd : isName d = false) : c ≠ d := by
  rintro rfl
  rw [h] at hd
  cases hd

theorem name_notColon {c : Char} (h : isName c = true) : notColon c = true := by
  simp only [notColon, bne_iff_ne, ne_eq]
  exact name_ne h (by decide)

theorem name_notNl {c : Char} (h : isName c = true) : notNl c = true := by
  simp only [notNl, bne_iff_ne, ne_eq]
  exact name_ne h (by decide)

theorem name_notBrGt {c : Char} (h : isName c = true) : notBrGt c = true := by
  simp only [notBrGt, Bool.and_eq_true, bne_iff_ne, ne_eq]
  exact ⟨⟨name_ne h (by decide), name_ne h (by decide)⟩, name_ne h (by decide)⟩

theorem name_notBr {c : Char} (h : isName c = true) : notBr c = true := by
  simp only [notBr, Bool.and_eq_true, bne_iff_ne, ne_eq]
  exact ⟨name_ne h (by decide), name_ne h (by decide)⟩

theorem word_isName {c : Char} (h : isWord c = true) : isName c = true := by simp [isName, h]

theorem dig_isWord {c : Char} (h : isDig c = true) : isWord c = true := by
  simp only [isDig] at h
  simp [isWord, Char.isAlphanum, h]

theorem dig_isName {c : Char} (h : isDig c = true) : isName c = true := word_isName (dig_isWord h)

theorem dig_notSp {c : Char} (h : isDig c = true) : isSp c = false := name_notSp (dig_isName h)

theorem body_notQuote {c : Char} (h : isBodyCh c = true) : c ≠ '"' := by
  rintro rfl
  exact absurd h (by decide)

theorem body2_notQuote {c : Char} (h : isBody2Ch c = true) : c ≠ '"' := by
  rintro rfl
  exact absurd h (by decide)

theorem body_isBody2 {c : Char} (h : isBodyCh c = true) : isBody2Ch c = true := by
  simp only [isBodyCh, Bool.or_eq_true] at h
  simp only [isBody2Ch, Bool.or_eq_true]
  rcases h with (h | h) | h
  · exact Or.inl (Or.inl (Or.inr h))
  · exact Or.inl (Or.inr h)
  · exact Or.inr h

theorem body_notColon {c : Char} (h : isBodyCh c = true) : notColon c = true := by
  simp only [notColon, bne_iff_ne, ne_eq]
  rintro rfl
  exact absurd h (by decide)

theorem hu_isStruct {c : Char} (h : isHUCh c = true) : isStructCh c = true := by
  simp only [isHUCh, Bool.or_eq_true] at h
  simp only [isStructCh, Bool.or_eq_true]
  rcases h with (((((h | h) | h) | h) | h) | h) | h <;> simp [h]

theorem dp_isStruct {c : Char} (h : isDPCh c = true) : isStructCh c = true := by
  simp only [isDPCh, Bool.or_eq_true] at h
  simp only [isStructCh, Bool.or_eq_true]
  rcases h with ((((h | h) | h) | h) | h) | h <;> simp [h]

theorem struct_notNl_or_sp {c : Char} (h : isStructCh c = true) : c ≠ 'd' := by
  rintro rfl
  exact absurd h (by decide)

/-! ### `digitsToNat` -/

theorem digitsToNat_eq (s : Str) : digitsToNat s = Nat.ofDigitChars 10 s 0 := by
  unfold digitsToNat Nat.ofDigitChars
  congr 1
  funext a c
  have : '0'.toNat = 48 := by decide
  rw [this, Nat.mul_comm]

theorem digitsToNat_repr (n : Nat) : digitsToNat (Nat.repr n).toList = n := by
  rw [digitsToNat_eq, Nat.toList_repr, Nat.ofDigitChars_ten_toDigits]

theorem repr_digits (n : Nat) : ∀ c ∈ (Nat.repr n).toList, isDig c = true := by
  intro c hc
  rw [Nat.toList_repr] at hc
  exact Nat.isDigit_of_mem_toDigits (by omega) (by omega) hc

theorem repr_ne_nil (n : Nat) : (Nat.repr n).toList ≠ [] := by
  rw [Nat.toList_repr]
  exact Nat.toDigits_ne_nil

/-! ### `takeWhile` / `dropWhile` / `strip` / `firstWord` -/

theorem takeWhile_append_all {p : Char → Bool} {a b : Str} (ha : ∀ c ∈ a, p c = true) (hb : HeadNot p b) :
    (a ++ b).takeWhile p = a := by
  induction a with
  | nil =>
    cases b with
    | nil => rfl
    | cons c r => simp [List.takeWhile, hb c r rfl]
  | cons c r ih =>
    simp only [List.cons_append, List.takeWhile_cons, ha c (by simp), if_true]
    rw [ih (fun x hx => ha x (by simp [hx]))]

theorem dropWhile_append_all {p : Char → Bool} {a b : Str} (ha : ∀ c ∈ a, p c = true) (hb : HeadNot p b) :
    (a ++ b).dropWhile p = b := by
  induction a with
  | nil =>
    cases b with
    | nil => rfl
    | cons c r => simp [List.dropWhile, hb c r rfl]
  | cons c r ih =>
    simp only [List.cons_append, List.dropWhile_cons, ha c (by simp), if_true]
    exact ih (fun x hx => ha x (by simp [hx]))

theorem dropWhile_headNot {p : Char → Bool} {b : Str} (hb : HeadNot p b) : b.dropWhile p = b := by
  simpa using dropWhile_append_all (a := []) (p := p) (by simp) hb

/-- the command word of a line that starts with a keyword (no white space in it) followed by white space -/
theorem firstWord_kw {kw rest : Str} (hne : kw ≠ []) (hkw : ∀ c ∈ kw, isSp c = false) (hrest : HeadNot (fun c => !isSp c) rest) :
    firstWord (kw ++ rest) = some kw := by
  unfold firstWord
  have hd : (kw ++ rest).dropWhile isSp = kw ++ rest := by
    apply dropWhile_headNot
    apply headNot_append hne
    intro c r e
    subst e
    exact hkw c (by simp)
  rw [hd]
  have ht : (kw ++ rest).takeWhile (fun c => !isSp c) = kw :=
    takeWhile_append_all (fun c hc => by simp [hkw c hc]) hrest
  cases hkr : kw ++ rest with
  | nil =>
    cases kw with
    | nil => exact absurd rfl hne
    | cons c r => cases hkr
  | cons c r =>
    simp only
    rw [← hkr, ht]

theorem strip_allSp {s : Str} (h : ∀ c ∈ s, isSp c = true) : strip s = [] := by
  unfold strip rstrip
  have : s.dropWhile isSp = [] := by
    simpa using dropWhile_append_all (a := s) (b := []) h headNot_nil
  rw [this]
  rfl

/-- `strip` of a non-empty text without white space at either end, surrounded by white space -/
theorem strip_pad {a x b : Str} (ha : ∀ c ∈ a, isSp c = true) (hb : ∀ c ∈ b, isSp c = true) (hne : x ≠ [])
    (hx1 : HeadNot isSp x) (hx2 : HeadNot isSp x.reverse) : strip (a ++ (x ++ b)) = x := by
  unfold strip rstrip
  rw [dropWhile_append_all ha (headNot_append hne hx1), List.reverse_append,
    dropWhile_append_all (fun c hc => hb c (by simpa using hc)) hx2, List.reverse_reverse]

/-- a non-empty text over a class disjoint from white space has no white space at either end -/
theorem headNot_sp_of_all {cls : Char → Bool} {x : Str} (h : ∀ c ∈ x, cls c = true) (hd : ∀ c, cls c = true → isSp c = false) :
    HeadNot isSp x ∧ HeadNot isSp x.reverse :=
  ⟨headNot_of_all h hd, headNot_of_all (fun c hc => h c (by simpa using hc)) hd⟩

end Pepper.ParseComp
