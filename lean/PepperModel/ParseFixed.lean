import PepperModel.ParseComp
import PepperModel.Fix
/-!
# Text of a `--fixed` file
(mirrors `peppercompiler/compiler.py`: `parse_fixed`, `load_fixed` from the opened file on, and the dispatch
`if type_ in "sequence": … elif type_ in "signal": … elif type_ == "strand": … elif type_ == "structure": …`
at the top of the loop in `compiler()`; what each branch then does to the objects is `PepperModel/Fix.lean`)

**Regular expressions.**  The engine is the one of `PepperModel/ParseComp.lean` (continuation-passing transcription of
Python's backtracking `re`: greedy repetitions that give characters back, "present" before "absent", first complete
match wins).  `parse_fixed` calls `utils.match(r"(\w+) ([\w_-]+)[ \t]*=[ \t]*([ATCGNS+]+)(?: #.*)?", line)`, and
`utils.match` replaces EVERY blank of the pattern by `\s+` — also the two blanks that stand inside the character
classes — and appends `\s*\Z`.  The pattern that `re.match` sees is therefore

    (\w+)\s+([\w_-]+)[\s+\t]*=[\s+\t]*([ATCGNS+]+)(?:\s+#.*)?\s*\Z

and the class around the `=` sign is `[\s+\t]`: any white space character AND the plus sign (`reFixed`, `isPad`).
`load_fixed` tests every raw line (with its newline) with `re.match(r"\s*(#.*)?\s*\Z", line)` (`reSkip`, no
`utils.match` rewriting there) and hands every other line, still with its newline, to `parse_fixed`.

**Python pieces.**  `open(filename, "r")` + `for line in f` = text mode with universal newlines: `\r\n` and a lone `\r`
become `\n` (`univNl`), the text is cut AFTER every `\n`, the terminator stays on the line, a last line without
terminator is a line, an empty text has no lines (`linesKeep`).  Only `\n` separates lines (`\x0b`, `\x0c`,
`\x1c`–`\x1e` do not — they are `\s` for the regexes).  The list comprehension raises `ValueError` at the first
line that is neither skipped nor parsed; nothing catches it, the compile fails: `Except.error .syntax`.  (A missing
file is `error(…)` before any text exists; not part of this model.)  `type_ in "sequence"` on two `str`s is the
SUBSTRING test (`isSub`).  NON-ASCII INPUT IS OUTSIDE THE MODEL (`\w`, `\s` have further Unicode members).

Surprising behaviour of the real code, modelled as it is (none of it is repaired here):
* the kind word is any `\w+`; `kindOf` is a substring dispatch in code order: `seq`, `e`, `nce`, `s`, `n`, `que` …
  select the sequence branch, `sig`, `a`, `l`, `gn`, `i` … the signal branch (unless they are also substrings of
  `sequence`: `s`, `n` are sequences), only the exact words `strand` / `structure` select those branches, and EVERY
  OTHER WORD (`sequences`, `Sequence`, `struct`, `str`, `domain`, `signals`, …) is silently ignored: the line is
  read, checked against the regex and then has no effect at all, without a warning.
* `+` is a member of the class around `=`: `sequence x +=+ ACGT`, `sequence x+++=ACGT` are accepted, and leading `+`
  signs of the sequence text are eaten by the (greedy) class in front of the group as long as one character is left
  for the group: `structure s = +ACGT` fixes `s` to `ACGT` (one strand, not an empty strand followed by `ACGT`), and
  `structure s = ++` fixes it to `+`.
* white space inside the class and for the separator is `\s`, so the four controls 0x1c–0x1f, form feed and vertical tab
  separate the fields; `parse_fixed` applied to a string with an inner `\n` (never produced by `load_fixed`) lets
  the separators span lines.
* a comment needs white space in front of its `#` (`ACGT#c` is a syntax error = the compile fails), and the name
  may consist of dashes only (`sequence - = A`).
* leading white space in front of the kind word is a syntax error (`re.match` is anchored, the pattern starts with
  `\w+`): one indented line makes the whole compile fail with `ValueError`.
* a line consisting of a comment is skipped only if nothing but white space follows the comment's line — always true
  for the lines of a file.
-/
namespace Pepper.ParseFixed
open Pepper.ParseComp (Str K lit star plus alt sp1 atEnd endZ isSp isWord isName notNl)

/-! ### literals, as character lists -/

def sSequence : Str := ['s', 'e', 'q', 'u', 'e', 'n', 'c', 'e']
example : sSequence = "sequence".toList := by decide
def sSignal : Str := ['s', 'i', 'g', 'n', 'a', 'l']
example : sSignal = "signal".toList := by decide
def sStrand : Str := ['s', 't', 'r', 'a', 'n', 'd']
example : sStrand = "strand".toList := by decide
def sStructure : Str := ['s', 't', 'r', 'u', 'c', 't', 'u', 'r', 'e']
example : sStructure = "structure".toList := by decide

/-! ### character classes -/

/-- `[\s+\t]` — what `utils.match` makes of `[ \t]` -/
def isPad (c : Char) : Bool := isSp c || c == '+' || c == '\t'
/-- `[ATCGNS+]` -/
def isFixCh (c : Char) : Bool := c == 'A' || c == 'T' || c == 'C' || c == 'G' || c == 'N' || c == 'S' || c == '+'

inductive Err
  | syntax        -- `raise ValueError(line)`: a line that is neither skipped nor matched by the regex
deriving Repr, DecidableEq, BEq

/-! ### `parse_fixed` -/

/-- `(?:\s+#.*)?\s*\Z` returning `v` -/
def tail {α : Type} (v : α) : K α :=
  alt (sp1 <| lit ['#'] <| star notNl (fun _ => endZ v) []) (endZ v)

/-- `(\w+)\s+([\w_-]+)[\s+\t]*=[\s+\t]*([ATCGNS+]+)(?:\s+#.*)?\s*\Z` -/
def reFixed : K (Str × Str × Str) :=
  plus isWord fun ty => sp1 <| plus isName fun name =>
    star isPad (fun _ => lit ['='] <| star isPad (fun _ => plus isFixCh fun seq => tail (ty, name, seq)) []) []

def parseFixedL (s : Str) : Except Err (Str × Str × Str) :=
  match reFixed s with
  | some r => .ok r
  | none => .error .syntax

/-- `parse_fixed(line)`: `(type_, name, seq)` or `ValueError` -/
def parseFixedLine (line : String) : Except Err (String × String × String) :=
  match parseFixedL line.toList with
  | .ok (t, n, s) => .ok (String.ofList t, String.ofList n, String.ofList s)
  | .error e => .error e

/-! ### `load_fixed` -/

/-- `\s*(#.*)?\s*\Z` -/
def reSkip : K Unit :=
  star isSp (fun _ => alt (lit ['#'] <| star notNl (fun _ => endZ ()) []) (endZ ())) []

def skipL (s : Str) : Bool := (reSkip s).isSome

/-- `re.match(r"\s*(#.*)?\s*\Z", line)` is not `None` -/
def skipLine (line : String) : Bool := skipL line.toList

/-- universal newlines of a text-mode file: `\r\n` ↦ `\n`, lone `\r` ↦ `\n`; the flag says that the previous
    character was a `\r` (already translated) -/
def univNl : Bool → Str → Str
  | _, [] => []
  | cr, c :: r =>
    if c = '\r' then '\n' :: univNl true r
    else if c = '\n' then (if cr then univNl false r else '\n' :: univNl false r)
    else c :: univNl false r

/-- `for line in f`: cut after every `\n`, keep it -/
def linesKeep : Str → List Str
  | [] => []
  | c :: r =>
    if c = '\n' then ['\n'] :: linesKeep r
    else match linesKeep r with
      | [] => [[c]]
      | h :: t => (c :: h) :: t

/-- the lines `for line in f` yields for a file with this content -/
def fileLines (text : Str) : List Str := linesKeep (univNl false text)

/-- `[parse_fixed(line) for line in f if not re.match(…, line)]` -/
def loadLines : List Str → Except Err (List (Str × Str × Str))
  | [] => .ok []
  | l :: r =>
    if skipL l then loadLines r
    else match parseFixedL l with
      | .error e => .error e
      | .ok x => match loadLines r with
        | .error e => .error e
        | .ok xs => .ok (x :: xs)

def loadFixedL (text : Str) : Except Err (List (Str × Str × Str)) := loadLines (fileLines text)

/-- `load_fixed` on a file with this content -/
def loadFixed (text : String) : Except Err (List (String × String × String)) :=
  match loadFixedL text.toList with
  | .ok l => .ok (l.map fun (t, n, s) => (String.ofList t, String.ofList n, String.ofList s))
  | .error e => .error e

/-! ### the dispatch of `compiler()` -/

/-- `a in b` for two `str`s -/
def isSub : Str → Str → Bool
  | a, [] => a.isEmpty
  | a, c :: r => a.isPrefixOf (c :: r) || isSub a r

/-- the four branches of the loop; `Fix.Kind` has the three kinds of named objects, signals are fixed by `Fix.fixSignal` -/
inductive FixKind
  | sequence | signal | strand | structure
deriving Repr, DecidableEq, BEq

def kindOfL (w : Str) : Option FixKind :=
  if isSub w sSequence then some .sequence
  else if isSub w sSignal then some .signal
  else if w = sStrand then some .strand
  else if w = sStructure then some .structure
  else none

/-- which branch a kind word selects; `none` = the loop body does nothing for this line -/
def kindOf (w : String) : Option FixKind := kindOfL w.toList

/-- a line that does something: the branch, the name looked up in `system.seqs` / `.signals` / `.strands` / `.structs`,
    and the string handed to `fix_seq` / `fix_signal` (as `Fix.fixNamed` / `Fix.fixSignal` take it) -/
structure Entry where
  kind : FixKind
  name : String
  seq : List Char
deriving Repr, DecidableEq

/-- the keyword that names a branch (what the driver's `compile` operation takes in its `fixed` field) -/
def FixKind.word : FixKind → String
  | .sequence => "sequence"
  | .signal => "signal"
  | .strand => "strand"
  | .structure => "structure"

/-- the `Fix.Kind` of a branch that fixes a named object (`Fix.fixNamed`); `none` for signals (`Fix.fixSignal`) -/
def FixKind.named : FixKind → Option Fix.Kind
  | .sequence => some .sequence
  | .signal => none
  | .strand => some .strand
  | .structure => some .structure

def entryOfL (x : Str × Str × Str) : Option Entry :=
  (kindOfL x.1).map fun k => ⟨k, String.ofList x.2.1, x.2.2⟩

def fixedEntriesL (text : Str) : Except Err (List Entry) :=
  match loadFixedL text with
  | .ok l => .ok (l.filterMap entryOfL)
  | .error e => .error e

/-- the text of a fixed file ↦ the lines the loop of `compiler()` acts on, in order (lines whose kind word selects no
    branch are dropped, exactly as the loop does nothing for them); `error` = the compile fails with `ValueError` -/
def fixedEntries (text : String) : Except Err (List Entry) := fixedEntriesL text.toList

/-- how many parsed lines select no branch -/
def ignoredCount (text : String) : Nat :=
  match loadFixedL text.toList with
  | .ok l => (l.filter fun x => (kindOfL x.1).isNone).length
  | .error _ => 0

end Pepper.ParseFixed
