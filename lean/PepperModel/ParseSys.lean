import PepperModel.Sys
/-!
# Statement-level text parsing of `.sys` files
(mirrors `peppercompiler/system_parser_pyparsing.py` — `parse_declare_statement`, `parse_import_statement`,
`parse_component_statement`, i.e. the pyparsing grammars `decl_stat`, `import_stat`, `component_stat` run with
`parseString(…, parseAll=True)` — and `peppercompiler/system_parser.py` `load_system`: the first-statement search
and the statement loop from `doc.split("\n")` on; pyparsing 3.3.2 as installed in /venv)

Input of this model: text as Python sees it (a `str`; a file's text after the universal-newline translation of
text-mode reading).  `parseDoc` takes the first statement (what the first-statement search of `load_system` found,
`firstStatement` models that search) and the document text AFTER parameter substitution
(`var_substitute.process_list`, modelled in `PepperModel/Subst.lean`).  Output: the system source AST `Sys.SSrc`
that `Sys.loadFile` consumes.

## How the pyparsing grammar was translated

The grammar is a PEG: every element either matches at a position and yields the next position, or raises
`ParseException`; `And` is sequencing; `Optional(e)` / `ZeroOrMore(e)` catch the `ParseException` of `e` and go
on from where `e` was TRIED (all of `e` is undone — this is the only backtracking there is); a `Word` is greedy
and never gives characters back.  Each nonterminal is one hand-written function `Str → Option (result × rest)`.

* **Pre-parse.**  Before trying to match, every element skips (1) ignorable expressions and (2) its white-space
  characters.  (2): the module calls `ParserElement.setDefaultWhitespaceChars(" \t")` before building the grammar,
  and an element copies the default when it is CONSTRUCTED, so all elements of the three grammars skip exactly
  space and tab whatever other modules set later.  (1): the last lines of the module build a never-used
  `document` grammar out of the same element objects and call `document.ignore(pythonStyleComment)`; `ignore`
  is propagated IN PLACE to every sub-expression, so the three statement grammars ignore `#.*` too (this, not the
  `re.sub` of the loop, is why `import a # note` works).  The ignorable is `Suppress(Regex("#.*"))` with white
  space `" \t"`.  Net effect, `skip`: drop spaces/tabs, and if a `#` follows drop up to (not including) the next
  `\n` or the end.  `skip` is idempotent, which is why it does not matter that `And`, `Group`, `Optional` … pre-parse
  as well, nor where exactly a failed `Optional` leaves the position.
* **Tabs.**  `parseString` first replaces the input by `instring.expandtabs()` (`keepTabs` is off): `expandTabs`
  (tab stops every 8 columns, column reset after `\n` and `\r`).  So a tab inside a template argument becomes
  spaces, which the argument `Word` accepts.
* `Word(init, body)` = `word`: after `skip`, one `init` character then the longest run of `body` characters.
* a string in a grammar (`"*"`, `S(":")`, `S("as")`, `S(system)`) is a `Literal` = `lit`: after `skip`, the exact
  characters; NO boundary condition (`declare systemX: ->` declares `X`; `import a asb` aliases `b`).
* `CaselessKeyword(k)` = `kw`: after `skip`, the next `len k` characters equal `k` up to ASCII case, and the
  character after them, if any, is not in `identChars` = `[A-Za-z0-9_$]`.  (The "not preceded by an identifier
  character" test of `Keyword` can never fail here: the keyword is the first element, so either it is tried at
  position 0 or the character before it was skipped, i.e. is a space.)
* `List(e, d)` = `Group(Optional(e + ZeroOrMore(Suppress(d) + e)))` = `listOf`; `delimitedList(e)` =
  `e + ZeroOrMore(Suppress(",") + e)` = `list1`; both use `more` for the `ZeroOrMore`: a `d` that is not followed
  by an `e` is given back (so a trailing delimiter is left for the next element, which then fails).
* `Flag("*")` = `Optional("*")` mapped to `bool`; `O(S("as") + var, default=None)`: alias or `None`;
  `O(S("(") + List(…) + S(")"), default=[])`: if anything in the parenthesis fails the whole group is undone and
  the next element (`:`) meets the `(` and fails.
* `parseAll=True` = `endOk`: `self.preParse` (= `skip`), then `Empty() + StringEnd()` **built at call time**, which
  therefore skips the white-space characters that are the process-global default AT THAT MOMENT (parameter `dw`:
  `" \t"` as long as the last module that set it was one of `system_parser_pyparsing`, `nupack_out_grammar`,
  `RNAfold_grammar`, `nupack_in_parser`, `component_parser_pyparsing`; `" \t\n"` after `nupack_mfe_grammar`), and no
  comments.  In `load_system` every statement is `strip()`ped, so `dw` cannot matter there (theorem
  `Props.parseLine_dw_irrelevant`); it matters for direct calls like `parse_import_statement("import a\n")`.
  In the compiler process the order is: `system_parser_pyparsing` is imported lazily by the first `load_file`
  (sets `" \t"`), nothing later changes it.
* **Template arguments.**  `python_object = Word(py_chars, py_chars+" ")` with `py_chars` = printable ASCII without
  `,` and `)`; the parse action `eval`s the text AS SOON AS the word is matched (even if the parenthesis later
  turns out not to close), in the globals of `system_parser_pyparsing`.  An exception of `eval` (SyntaxError,
  NameError, …) is not a `ParseException`: it is not caught by `Optional`, it aborts the statement = reject.  The AST
  keeps only the NUMBER of arguments.  `argVerdict` decides the outcome of `eval` for the following texts and only
  for them (**in-model argument language**): at most 200 characters, and either
  (i) a quoted string `'…'` / `"…"` whose body is over `[A-Za-z0-9_ ]`, possibly followed by spaces: evaluates; or
  (ii) a text over `[0-9+*( -]` (digits, `+`, `-`, `*`, `(`, space) without two adjacent `*` (`**` is the power
  operator: `9**9**9` does not terminate in reasonable time): evaluates iff it is a Python expression, i.e.
  `unary* NUMBER (binop unary* NUMBER)*` with `unary ∈ {+,-}`, `binop ∈ {+,-,*}`, `NUMBER` a digit run that is all
  zeros or does not start with `0` (`01` is a SyntaxError), tokens optionally separated by spaces; any `(` is a
  SyntaxError because the matching `)` cannot be part of the word.
  Every other argument text (names, floats, attribute access, comparisons, lists, …) is **outside the model**:
  the statement yields `Err.outOfModel` at the moment Python would call `eval`, and the harness reports such
  lines separately instead of comparing them.
* exceptions: `ParseException` and the exception of `utils.error` (DEBUG) = `Err.reject`.

## `load_system`

`firstStatement`: `for line in f: line = re.sub(r"#.*\n", "", line).strip(); if line: break` — here the lines still
end in `\n`, so the regex does strip comments; the statement found (or `""`) goes to `parse_declare_statement`
WITHOUT a look at its first word (`DeClArE system …` is accepted: the keyword is caseless).  The rest of the file
goes through `process_list`.  Statement loop (`parseLines`): `re.sub(r"#.*\n", "", line)` (`subComment`; never
matches inside a line of `split("\n")`, modelled as the code does it), `strip()`, skip if empty, first word by
`split()[0]`, exact (case-SENSITIVE) comparison with `declare` (error) / `import` / `component`, anything else is an
error.  So `IMPORT a` is rejected by the loop although `parse_import_statement` would accept it.

NON-ASCII INPUT IS OUTSIDE THE MODEL (`str.strip`/`split` know further Unicode spaces, `str.upper` maps `ı` to `I`);
the correspondence generator stays ASCII.
-/
namespace Pepper.ParseSys
open Pepper.Sys

abbrev Str := List Char

/-! ### character classes -/

/-- `str.isspace` on ASCII: what `strip()` and `split()` treat as white space -/
def isSp (c : Char) : Bool :=
  c == ' ' || c == '\t' || c == '\n' || c == '\r' || c == '\x0b' || c == '\x0c' ||
  c == '\x1c' || c == '\x1d' || c == '\x1e' || c == '\x1f'
/-- `alphas` -/
def isVar0 (c : Char) : Bool := c.isAlpha
/-- `alphanums + "_"` -/
def isVarC (c : Char) : Bool := c.isAlphanum || c == '_'
/-- `alphanums + ".-_/~"` -/
def isPathC (c : Char) : Bool := c.isAlphanum || c == '.' || c == '-' || c == '_' || c == '/' || c == '~'
/-- `printables`: `!` … `~` -/
def isPrintable (c : Char) : Bool := 33 ≤ c.toNat && c.toNat ≤ 126
/-- `py_chars` -/
def isPy0 (c : Char) : Bool := isPrintable c && c != ',' && c != ')'
/-- `py_chars + " "` -/
def isPyC (c : Char) : Bool := isPy0 c || c == ' '
/-- `Keyword.DEFAULT_KEYWORD_CHARS` = `alphanums + "_$"` (compared after `upper()`) -/
def isIdent (c : Char) : Bool := c.isAlphanum || c == '_' || c == '$'
/-- the grammar's white space `" \t"` -/
def isWs (c : Char) : Bool := c == ' ' || c == '\t'

/-! ### Python string functions -/

/-- `str.expandtabs()` (tab size 8); `col` is the current column -/
def expandTabs : Str → Nat → Str
  | [], _ => []
  | c :: r, col =>
    if c == '\t' then List.replicate (8 - col % 8) ' ' ++ expandTabs r (col + (8 - col % 8))
    else if c == '\n' || c == '\r' then c :: expandTabs r 0
    else c :: expandTabs r (col + 1)

def lstrip (s : Str) : Str := s.dropWhile isSp
def rstrip (s : Str) : Str := (s.reverse.dropWhile isSp).reverse
/-- `str.strip()` -/
def strip (s : Str) : Str := rstrip (lstrip s)

/-- `s.split()[0]` of a string that starts with a non-space character -/
def firstWord (s : Str) : Str := s.takeWhile (fun c => !isSp c)

/-- `str.split(sep)` for a one-character separator -/
def splitOn (sep : Char) : Str → List Str
  | [] => [[]]
  | c :: r =>
    if c == sep then [] :: splitOn sep r
    else match splitOn sep r with
      | [] => [[c]]      -- unreachable: `splitOn` never returns `[]`
      | x :: xs => (c :: x) :: xs

/-- `re.sub(r"#.*\n", "", s)`: a `#` starts a match iff a `\n` follows somewhere (`.` does not cross it), the match
    then ends with the first such `\n`; `pending` holds, in reverse, the text since a `#` whose fate is open -/
def subCommentAux : Str → Option Str → Str
  | [], none => []
  | [], some p => p.reverse
  | c :: r, none => if c == '#' then subCommentAux r (some ['#']) else c :: subCommentAux r none
  | c :: r, some p => if c == '\n' then subCommentAux r none else subCommentAux r (some (c :: p))

def subComment (s : Str) : Str := subCommentAux s none

/-- what `load_system` does to a raw line before looking at it -/
def cleanLine (l : Str) : Str := strip (subComment l)

/-! ### pre-parse and the leaf elements -/

def skipWs : Str → Str
  | [] => []
  | c :: r => if isWs c then skipWs r else c :: r

/-- the `.*` of the comment regex: up to, not including, the next `\n` -/
def skipLine : Str → Str
  | [] => []
  | c :: r => if c == '\n' then c :: r else skipLine r

/-- `preParse`: ignorables (`[ \t]*#.*`), then white space -/
def skip (s : Str) : Str :=
  match skipWs s with
  | '#' :: r => skipLine r
  | t => t

def dropPrefix : Str → Str → Option Str
  | [], s => some s
  | _ :: _, [] => none
  | p :: ps, c :: r => if c == p then dropPrefix ps r else none

/-- `Literal(p)` -/
def lit (p : Str) (s : Str) : Option Str := dropPrefix p (skip s)

/-- `Word(init, body)` -/
def word (init body : Char → Bool) (s : Str) : Option (Str × Str) :=
  match skip s with
  | [] => none
  | c :: r => if init c then some (c :: r.takeWhile body, r.dropWhile body) else none

/-- `CaselessKeyword(k)` -/
def kw (k : Str) (s : Str) : Option Str :=
  let t := skip s
  if (t.take k.length).map Char.toUpper == k.map Char.toUpper then
    match t.drop k.length with
    | [] => some []
    | c :: r => if isIdent c then none else some (c :: r)
  else none

/-- `var = Word(alphas, alphanums+"_")` -/
def var (s : Str) : Option (Str × Str) := word isVar0 isVarC s
/-- `path = Word(alphanums+".-_/~")` -/
def path (s : Str) : Option (Str × Str) := word isPathC isPathC s

/-- `ZeroOrMore(Suppress(delim) + item)`; every round consumes at least the delimiter, `fuel` = input length + 1
    never runs out -/
def more {α : Type} (delim : Str) (item : Str → Option (α × Str)) : Nat → Str → List α × Str
  | 0, s => ([], s)
  | fuel + 1, s =>
    match lit delim s with
    | none => ([], s)
    | some r =>
      match item r with
      | none => ([], s)
      | some (x, r') =>
        let (xs, r'') := more delim item fuel r'
        (x :: xs, r'')

/-- `delimitedList(item, delim)` = `item + ZeroOrMore(Suppress(delim) + item)` -/
def list1 {α : Type} (delim : Str) (item : Str → Option (α × Str)) (s : Str) : Option (List α × Str) :=
  match item s with
  | none => none
  | some (x, r) =>
    let (xs, r') := more delim item (r.length + 1) r
    some (x :: xs, r')

/-- `List(item, delim)` = `Group(Optional(item + ZeroOrMore(Suppress(delim) + item)))`: never fails -/
def listOf {α : Type} (delim : Str) (item : Str → Option (α × Str)) (s : Str) : List α × Str :=
  match list1 delim item s with
  | none => ([], s)
  | some r => r

/-- `signal = Group(var + Flag("*"))` -/
def signal (s : Str) : Option (SigRef × Str) :=
  match var s with
  | none => none
  | some (n, r) =>
    match lit ['*'] r with
    | some r' => some (⟨String.ofList n, true⟩, r')
    | none => some (⟨String.ofList n, false⟩, r)

/-- `signal_list = List(signal, "+")` -/
def signalList (s : Str) : List SigRef × Str := listOf ['+'] signal s

/-- `parseAll=True`: `dw` = the process-global default white space at call time -/
def endOk (dw : Str) (s : Str) : Bool := ((skip s).dropWhile (fun c => dw.contains c)).isEmpty

/-! ### template arguments -/

inductive ArgV | ok | bad | unk
deriving Repr, DecidableEq

/-- state of the expression recogniser: an operand is needed / inside a number (did it start with `0`?) / an
    operand is complete -/
inductive ASt | need | inNum (lead0 : Bool) | done
deriving Repr, DecidableEq

/-- one character of an argument over `[0-9+*( -]`; `none` = SyntaxError -/
def aStep : ASt → Char → Option ASt
  | .need, c =>
    if c.isDigit then some (.inNum (c == '0')) else if c == '+' || c == '-' || c == ' ' then some .need else none
  | .inNum z, c =>
    if c.isDigit then (if z && c != '0' then none else some (.inNum z))
    else if c == '+' || c == '-' || c == '*' then some .need else if c == ' ' then some .done else none
  | .done, c =>
    if c == '+' || c == '-' || c == '*' then some .need else if c == ' ' then some .done else none

def aRun : ASt → Str → Bool
  | .need, [] => false
  | _, [] => true
  | st, c :: r => match aStep st c with
    | none => false
    | some st' => aRun st' r

def isArithC (c : Char) : Bool := c.isDigit || c == '+' || c == '-' || c == '*' || c == '(' || c == ' '
def isStrBodyC (c : Char) : Bool := c.isAlphanum || c == '_' || c == ' '

def hasPow : Str → Bool
  | '*' :: '*' :: _ => true
  | _ :: r => hasPow r
  | [] => false

/-- a quoted string with a harmless body, possibly followed by spaces -/
def isSimpleString (a : Str) : Bool :=
  match a with
  | q :: r =>
    (q == '\'' || q == '"') &&
    (match (r.reverse.dropWhile (· == ' ')) with
     | q' :: body => q' == q && body.all isStrBodyC
     | [] => false)
  | [] => false

/-- what `eval` does with an argument text: evaluates / raises / not modelled -/
def argVerdict (a : Str) : ArgV :=
  if a.length > 200 then .unk
  else if isSimpleString a then .ok
  else if !a.all isArithC || hasPow a then .unk
  else if aRun .need a then .ok else .bad

inductive Err | reject | outOfModel
deriving Repr, DecidableEq

/-- `python_object`: the word, then `eval` -/
def pyObj (s : Str) : Except Err (Option Str) :=
  match word isPy0 isPyC s with
  | none => .ok none
  | some (a, r) =>
    match argVerdict a with
    | .ok => .ok (some r)
    | .bad => .error .reject
    | .unk => .error .outOfModel

/-- `ZeroOrMore(Suppress(",") + python_object)`, counting -/
def pyMore : Nat → Str → Except Err (Nat × Str)
  | 0, s => .ok (0, s)
  | fuel + 1, s =>
    match lit [','] s with
    | none => .ok (0, s)
    | some r =>
      match pyObj r with
      | .error e => .error e
      | .ok none => .ok (0, s)
      | .ok (some r') =>
        match pyMore fuel r' with
        | .error e => .error e
        | .ok (n, r'') => .ok (n + 1, r'')

/-- `List(python_object, ",")`, counting -/
def pyList (s : Str) : Except Err (Nat × Str) :=
  match pyObj s with
  | .error e => .error e
  | .ok none => .ok (0, s)
  | .ok (some r) =>
    match pyMore (r.length + 1) r with
    | .error e => .error e
    | .ok (n, r') => .ok (n + 1, r')

/-- `component_params = O(S("(") + List(python_object, ",") + S(")"), default=[])` -/
def componentParams (s : Str) : Except Err (Nat × Str) :=
  match lit ['('] s with
  | none => .ok (0, s)
  | some r =>
    match pyList r with
    | .error e => .error e
    | .ok (n, r') =>
      match lit [')'] r' with
      | some r'' => .ok (n, r'')
      | none => .ok (0, s)

/-- `decl_params = O(S("(") + List(var, ",") + S(")"), default=[])` -/
def declParams (s : Str) : List String × Str :=
  match lit ['('] s with
  | none => ([], s)
  | some r =>
    let (ps, r') := listOf [','] var r
    match lit [')'] r' with
    | some r'' => (ps.map String.ofList, r'')
    | none => ([], s)

/-! ### the three statements -/

/-- `Group(path + O(S("as") + var, default=None))` -/
def importItem (s : Str) : Option ((String × Option String) × Str) :=
  match path s with
  | none => none
  | some (p, r) =>
    match lit ['a', 's'] r with
    | none => some ((String.ofList p, none), r)
    | some r1 =>
      match var r1 with
      | none => some ((String.ofList p, none), r)
      | some (a, r2) => some ((String.ofList p, some (String.ofList a)), r2)

/-- `parse_import_statement` -/
def parseImportL (dw : Str) (s0 : Str) : Option (List (String × Option String)) :=
  match kw "import".toList (expandTabs s0 0) with
  | none => none
  | some r =>
    match list1 [','] importItem r with
    | none => none
    | some (items, r') => if endOk dw r' then some items else none

/-- `parse_component_statement` -/
def parseComponentL (dw : Str) (s0 : Str) : Except Err SStmt :=
  match kw "component".toList (expandTabs s0 0) with
  | none => .error .reject
  | some r1 =>
    match var r1 with
    | none => .error .reject
    | some (name, r2) =>
      match lit ['='] r2 with
      | none => .error .reject
      | some r3 =>
        match var r3 with
        | none => .error .reject
        | some (templ, r4) =>
          match componentParams r4 with
          | .error e => .error e
          | .ok (n, r5) =>
            match lit [':'] r5 with
            | none => .error .reject
            | some r6 =>
              let (ins, r7) := signalList r6
              match lit ['-', '>'] r7 with
              | none => .error .reject
              | some r8 =>
                let (outs, r9) := signalList r8
                if endOk dw r9 then .ok (.component (String.ofList name) (String.ofList templ) n ins outs)
                else .error .reject

/-- the declare header -/
structure Decl where
  name : String
  params : List String
  inputs : List SigRef
  outputs : List SigRef
deriving Repr, DecidableEq

/-- `parse_declare_statement` -/
def parseDeclareL (dw : Str) (s0 : Str) : Option Decl :=
  match kw "declare".toList (expandTabs s0 0) with
  | none => none
  | some r1 =>
    match lit "system".toList r1 with
    | none => none
    | some r2 =>
      match var r2 with
      | none => none
      | some (name, r3) =>
        let (ps, r4) := declParams r3
        match lit [':'] r4 with
        | none => none
        | some r5 =>
          let (ins, r6) := signalList r5
          match lit ['-', '>'] r6 with
          | none => none
          | some r7 =>
            let (outs, r8) := signalList r7
            if endOk dw r8 then some ⟨String.ofList name, ps, ins, outs⟩ else none

/-! ### `load_system` -/

/-- the body of the statement loop on one cleaned, non-empty line: dispatch on the first word -/
def parseStmtL (dw : Str) (c : Str) : Except Err SStmt :=
  let cmd := firstWord c
  if cmd == "declare".toList then .error .reject
  else if cmd == "import".toList then
    match parseImportL dw c with
    | some items => .ok (.imports items)
    | none => .error .reject
  else if cmd == "component".toList then parseComponentL dw c
  else .error .reject

/-- the body of the statement loop on one raw line: `none` = the line is skipped -/
def parseLineL (dw : Str) (l : Str) : Except Err (Option SStmt) :=
  let c := cleanLine l
  if c.isEmpty then .ok none
  else match parseStmtL dw c with
    | .error e => .error e
    | .ok st => .ok (some st)

/-- `for line in doc.split("\n"): …` -/
def parseLines (dw : Str) : List Str → Except Err (List SStmt)
  | [] => .ok []
  | l :: r =>
    match parseLineL dw l with
    | .error e => .error e
    | .ok none => parseLines dw r
    | .ok (some st) =>
      match parseLines dw r with
      | .error e => .error e
      | .ok sts => .ok (st :: sts)

/-- `load_system` from the first statement and the substituted document to the source AST -/
def parseDocL (dw : Str) (decl : Str) (doc : Str) : Except Err SSrc :=
  match parseDeclareL dw decl with
  | none => .error .reject
  | some d =>
    match parseLines dw (splitOn '\n' doc) with
    | .error e => .error e
    | .ok sts => .ok ⟨d.name, d.params, d.inputs, d.outputs, sts⟩

/-- lines of a text file as `for line in f` yields them (each with its `\n`, the last one possibly without) -/
def fileLines : Str → Str → List Str
  | [], [] => []
  | [], acc => [acc.reverse]
  | c :: r, acc => if c == '\n' then (c :: acc).reverse :: fileLines r [] else fileLines r (c :: acc)

/-- the first-statement search: the statement found (`""` if there is none) and the lines left in the file -/
def firstStatementAux : List Str → Str × List Str
  | [] => ([], [])
  | l :: r =>
    let c := cleanLine l
    if c.isEmpty then firstStatementAux r else (c, r)

def firstStatementL (text : Str) : Str × List Str := firstStatementAux (fileLines text [])

/-! ### `String` front ends -/

def defaultWs : String := " \t"

def parseImport (dw : String) (line : String) : Option (List (String × Option String)) :=
  parseImportL dw.toList line.toList
def parseComponent (dw : String) (line : String) : Except Err SStmt := parseComponentL dw.toList line.toList
def parseDeclare (dw : String) (line : String) : Option Decl := parseDeclareL dw.toList line.toList
def parseLine (dw : String) (line : String) : Except Err (Option SStmt) := parseLineL dw.toList line.toList
def parseDoc (dw : String) (decl doc : String) : Except Err SSrc := parseDocL dw.toList decl.toList doc.toList
def firstStatement (text : String) : String × List String :=
  let (c, r) := firstStatementL text.toList
  (String.ofList c, r.map String.ofList)

/-! ### spelling: statements as text, with free blanks where the grammar skips white space

`Layout` gives the NUMBER of blanks at every place where the grammar allows white space; the default values are the
canonical spelling, the one `progen.render_sys` writes (`renderSStmt`, `renderDecl`).  Places where at least one
blank is mandatory (after the keyword, before `as`) are rendered with one blank more than the layout says.
List positions are numbered: element `i` of a list uses `commaL i`, `commaR i`, `asL i`, `asR i`, `inGap i`, `outGap i`. -/

def sp (n : Nat) : Str := List.replicate n ' '

/-- blanks around one signal of a signal list: before its `*`, before and after the `+` that follows it -/
structure SigGap where
  star : Nat := 0
  plusL : Nat := 1
  plusR : Nat := 1

structure Layout where
  /-- before the keyword -/
  lead : Nat := 0
  /-- after the keyword (one more) -/
  afterKw : Nat := 0
  /-- `declare`: between `system` and the name (may be 0: `systemX`) -/
  afterSystem : Nat := 1
  eqL : Nat := 1
  eqR : Nat := 1
  /-- write `()` for an empty parameter / argument list -/
  emptyParens : Bool := false
  parL : Nat := 0
  parIn : Nat := 0
  /-- before `)` (parameter lists of `declare` only; in an argument list such blanks are part of the argument) -/
  parOut : Nat := 0
  colonL : Nat := 0
  colonR : Nat := 1
  arrowL : Nat := 1
  arrowR : Nat := 1
  /-- after the statement -/
  trail : Nat := 0
  /-- before / after the comma that follows list element `i` (before: not in argument lists) -/
  commaL : Nat → Nat := fun _ => 0
  commaR : Nat → Nat := fun _ => 1
  /-- before (one more) / after the `as` of import item `i` (after may be 0: `asX`) -/
  asL : Nat → Nat := fun _ => 0
  asR : Nat → Nat := fun _ => 1
  inGap : Nat → SigGap := fun _ => {}
  outGap : Nat → SigGap := fun _ => {}

def renderSigW (g : SigGap) (r : SigRef) : Str := r.name.toList ++ (if r.star then sp g.star ++ ['*'] else [])

def renderSigsW (G : Nat → SigGap) : Nat → List SigRef → Str
  | _, [] => []
  | i, [r] => renderSigW (G i) r
  | i, r :: r2 :: rest =>
    renderSigW (G i) r ++ sp (G i).plusL ++ ['+'] ++ sp (G i).plusR ++ renderSigsW G (i + 1) (r2 :: rest)

/-- a comma-separated list of words -/
def renderCommaW (L : Layout) (left : Bool) : Nat → List Str → Str
  | _, [] => []
  | _, [w] => w
  | i, w :: w2 :: rest =>
    w ++ sp (if left then L.commaL i else 0) ++ [','] ++ sp (L.commaR i) ++ renderCommaW L left (i + 1) (w2 :: rest)

/-- `(p1, p2)`; nothing (or `()`) for an empty list.  `left`: blanks before `,` and `)` are written -/
def renderParensW (L : Layout) (left : Bool) (ws : List Str) : Str :=
  if ws.isEmpty && !L.emptyParens then []
  else sp L.parL ++ ['('] ++ sp L.parIn ++ renderCommaW L left 0 ws ++ sp (if left then L.parOut else 0) ++ [')']

def renderItemW (L : Layout) (i : Nat) (it : String × Option String) : Str :=
  match it.2 with
  | some a => it.1.toList ++ sp (L.asL i + 1) ++ ['a', 's'] ++ sp (L.asR i) ++ a.toList
  | none => it.1.toList

def renderItemsW (L : Layout) : Nat → List (String × Option String) → Str
  | _, [] => []
  | i, [it] => renderItemW L i it
  | i, it :: it2 :: rest =>
    renderItemW L i it ++ sp (L.commaL i) ++ [','] ++ sp (L.commaR i) ++ renderItemsW L (i + 1) (it2 :: rest)

/-- `: ins -> outs`, up to the last non-blank character -/
def renderIOW (L : Layout) (ins outs : List SigRef) : Str :=
  sp L.colonL ++ [':'] ++ sp L.colonR ++ renderSigsW L.inGap 0 ins ++ sp L.arrowL ++ ['-', '>'] ++
    (if outs.isEmpty then [] else sp L.arrowR ++ renderSigsW L.outGap 0 outs)

/-- the blanks after the last non-blank character -/
def tailBlanks (L : Layout) (outs : List SigRef) : Nat := (if outs.isEmpty then L.arrowR else 0) + L.trail

/-- a statement without the blanks before and after it; every template argument is spelled `1` (the AST keeps
    their number only) -/
def renderCoreW (L : Layout) : SStmt → Str
  | .imports items => "import".toList ++ sp (L.afterKw + 1) ++ renderItemsW L 0 items
  | .component name templ args ins outs =>
    "component".toList ++ sp (L.afterKw + 1) ++ name.toList ++ sp L.eqL ++ ['='] ++ sp L.eqR ++
      templ.toList ++ renderParensW L false (List.replicate args ['1']) ++ renderIOW L ins outs

def stmtTail (L : Layout) : SStmt → Nat
  | .imports _ => L.trail
  | .component _ _ _ _ outs => tailBlanks L outs

def renderSStmtW (L : Layout) (s : SStmt) : Str := sp L.lead ++ renderCoreW L s ++ sp (stmtTail L s)

def renderDeclCoreW (L : Layout) (d : Decl) : Str :=
  "declare".toList ++ sp (L.afterKw + 1) ++ "system".toList ++ sp L.afterSystem ++ d.name.toList ++
    renderParensW L true (d.params.map String.toList) ++ renderIOW L d.inputs d.outputs

def renderDeclW (L : Layout) (d : Decl) : Str :=
  sp L.lead ++ renderDeclCoreW L d ++ sp (tailBlanks L d.outputs)

/-- the canonical spelling (what `progen.render_sys` writes) -/
def renderSStmt (s : SStmt) : String := String.ofList (renderSStmtW {} s)
def renderDecl (d : Decl) : String := String.ofList (renderDeclW {} d)

/-- the statements one per line, each line ended by `\n` (what `process_list` hands to the statement loop for a
    file without templates, comments and blank lines); line `i` is laid out by `Ls i` -/
def renderDocW (Ls : Nat → Layout) : Nat → List SStmt → Str
  | _, [] => []
  | i, s :: r => renderSStmtW (Ls i) s ++ '\n' :: renderDocW Ls (i + 1) r

/-- a whole file: the declare line, then the statements -/
def renderFileW (L : Layout) (Ls : Nat → Layout) (src : SSrc) : Str :=
  renderDeclW L ⟨src.name, src.params, src.inputs, src.outputs⟩ ++ '\n' :: renderDocW Ls 0 src.stmts

def renderDoc (stmts : List SStmt) : String := String.ofList (renderDocW (fun _ => {}) 0 stmts)

end Pepper.ParseSys
