/-!
# Nucleotide constraints with multipliers and wildcards
(mirrors `component_parser_regex.parse_constraint` for a quoted region and
`DNA_classes.Sequence._get_length_const`)
-/
namespace Pepper.Constraint

inductive Mult
  | num (n : Nat)
  | wild
deriving Repr, DecidableEq, BEq

/-- Python's `\s` on ASCII -/
def isSpace (c : Char) : Bool := c == ' ' || c == '\t' || c == '\n' || c == '\r' || c == '\x0b' || c == '\x0c'

def takeNum : List Char → Nat → Nat × List Char
  | c :: r, acc => if c.isDigit then takeNum r (acc * 10 + (c.toNat - 48)) else (acc, c :: r)
  | [], acc => (acc, [])

theorem takeNum_length_le (s : List Char) (acc : Nat) : (takeNum s acc).2.length ≤ s.length := by
  induction s generalizing acc with
  | nil => simp [takeNum]
  | cons c r ih =>
    unfold takeNum; split
    · exact Nat.le_trans (ih _) (Nat.le_succ _)
    · simp

/-- the body of a quoted region ↦ list of (multiplier, code): white space is dropped, a number or `?`
    sets the factor of the next letter, every other letter of a run has factor 1, a factor that is not
    followed by a letter is dropped -/
def parseQuotedAux : List Char → Mult → List (Mult × Char)
  | [], _ => []
  | c :: r, f =>
    if isSpace c then parseQuotedAux r f
    else if c.isDigit then
      have : (takeNum r (c.toNat - 48)).2.length < (c :: r).length := by
        have := takeNum_length_le r (c.toNat - 48); simp; omega
      parseQuotedAux (takeNum r (c.toNat - 48)).2 (.num (takeNum r (c.toNat - 48)).1)
    else if c == '?' then parseQuotedAux r .wild
    else (f, c) :: parseQuotedAux r (.num 1)
termination_by s => s.length

def parseQuoted (s : List Char) : List (Mult × Char) := parseQuotedAux (s.filter (!isSpace ·)) (.num 1)

inductive Err
  | tooManyWild     -- "Too many wildcards"
  | mismatch        -- declared length disagrees with the parts
  | wildNoLength    -- `WildError`: a `?` but no declared length
  | tooShort        -- negative remainder
deriving Repr, DecidableEq, BEq

def fixedSum : List (Mult × Char) → Nat
  | [] => 0
  | (.num n, _) :: r => n + fixedSum r
  | (.wild, _) :: r => fixedSum r

def wildCount : List (Mult × Char) → Nat
  | [] => 0
  | (.num _, _) :: r => wildCount r
  | (.wild, _) :: r => wildCount r + 1

def expand (w : Nat) : List (Mult × Char) → List Char
  | [] => []
  | (.num n, c) :: r => List.replicate n c ++ expand w r
  | (.wild, c) :: r => List.replicate w c ++ expand w r

/-- `_get_length_const`: the resolved (length, long-form constraint) -/
def resolve (parts : List (Mult × Char)) (length : Option Nat) : Except Err (Nat × List Char) :=
  if wildCount parts > 1 then .error .tooManyWild
  else if wildCount parts = 0 then
    match length with
    | some l => if l = fixedSum parts then .ok (l, expand 0 parts) else .error .mismatch
    | none => .ok (fixedSum parts, expand 0 parts)
  else
    match length with
    | none => .error .wildNoLength
    | some l => if l < fixedSum parts then .error .tooShort
                else .ok (l, expand (l - fixedSum parts) parts)

/-- the same list with the wildcard written out as the number `w` -/
def explicit (w : Nat) : List (Mult × Char) → List (Mult × Char)
  | [] => []
  | (.num n, c) :: r => (.num n, c) :: explicit w r
  | (.wild, c) :: r => (.num w, c) :: explicit w r

end Pepper.Constraint
