/-!
# `pickle` — the object graph that `compiler.save` writes and `compiler.load` reads back
(mirrors CPython 3.12: the unpickler `pickle._Unpickler` of `Lib/pickle.py` — the readable reference of the C
`_pickle.Unpickler` that `pickle.load` really runs — and the pickler `_pickle.Pickler` of `Modules/_pickle.c`, protocol
`pickle.DEFAULT_PROTOCOL = 4`, which is what `pickle.dump(obj, f)` in `peppercompiler/compiler.py: save` uses)

**Heap.**  Python objects are cells of an array, references are indices (`Ref`).  A cell is a `Tag` (the kind and the
payload that is not a reference) and the list of references it holds (`kids`), in a fixed layout per kind:

* `none`, `bool b`, `int z`, `float bits` (the 8 big-endian bytes of the IEEE double as 16 hex digits, NEVER a `Float`),
  `str s`, `bytes hex`: no kids;
* `tuple`, `list`, `set`, `frozenset`: the elements in (iteration) order;  `dict`: `k₀, v₀, k₁, v₁, …` in iteration order;
* `global`: `[module, qualname]`, two `str` cells (the pickler saves these two strings as objects, memoised by identity);
* `obj viaNew hasState nItems`: an object the pickler handles through `__reduce_ex__(4)` — exactly the 5-tuple
  `(func, args, state, listitems, dictitems)` the pickler sees: kids `= cls/func :: args :: [state]? ++ listitems ++
  dictitems(k, v flattened)`.  `viaNew = true`: `func` is `copyreg.__newobj__`, the first kid is the CLASS (`args[0]`)
  and the second the rest of the argument tuple (`NEWOBJ`); `viaNew = false`: first kid is the callable (`REDUCE`).
  For an ordinary instance `state` is the instance's own `__dict__` (a `dict` cell with identity).

Mutable containers and instances are UPDATED IN PLACE (`APPENDS`, `SETITEMS`, `ADDITEMS`, `BUILD` rewrite the one cell):
that is what gives sharing and cycles (`s.wc.wc is s`).

**Unpickler** (`run`): stack of items (reference or MARK; `pickle.py` keeps a `metastack`, the C code a mark array — the
same thing), memo (`MEMOIZE` stores at index `len(memo)`; `BINPUT i` is supported for the dense use `i ≤ len(memo)`,
anything else is `unsupported`).  Every stack underflow, missing MARK, bad memo index, dangling reference and wrong cell
kind is an explicit `Err`, never a default.  What a real unpickler does and this one does NOT:
* `find_class` (import the module, `getattr` along the qualified name): `STACK_GLOBAL` makes a `global` cell holding the two
  strings; that the fresh process finds the same class there is outside the model;
* calling the class (`cls.__new__(cls, *args)` for `NEWOBJ`, `func(*args)` for `REDUCE`) is modelled as "a NEW object that
  remembers how it was made" (`obj` cell) — right for `object.__new__`, `OrderedDict()`, `copyreg._reconstructor`, wrong for
  a callable that hands out an existing object;
* `BUILD` mirrors `load_build`: a class with `__setstate__` (listed in `Cfg.setstate` by module and qualified name) is
  `unsupported`; `(state, slotstate)` 2-tuples are split; a true `state` must be a dict and is COPIED, key by key, into the
  instance's own attribute dict (a new `dict` cell allocated at the first `BUILD`, which becomes the `state` kid — the
  pickled dict itself is dropped, exactly as in Python); non-empty `slotstate` is `unsupported`.  Interning of the keys
  (`sys.intern`) is not modelled (identity of attribute-name strings);
* dict / set semantics need key equality (`keyEq`): strings, bytes, ints, bools (with `True == 1`), `None` by value;
  `global`s by their two names; `obj`s by identity (assumes no `__eq__`); floats, tuples and frozensets as keys are
  `unsupported` unless they are the same cell; lists, dicts and sets are unhashable = an error.  A key that is already
  present keeps its OLD key object and position and gets the new value (Python's `d[k] = v`).

**Pickler** (`dump`): `save` mirrors `_pickle.c: save` with CPython's memo discipline — `None`, `bool`, `int`, `float`
are written before the memo is consulted and never memoised; then memo lookup BY CELL (= `id(obj)`) → `BINGET`; `str` /
`bytes`: the literal then `MEMOIZE`; tuple: `()` → `EMPTY_TUPLE` un-memoised; elements, then the re-check "did saving my
elements memoise me" (recursive tuple: `POP`×n or `POP_MARK`, then `BINGET`), else `TUPLE1/2/3` or `MARK … TUPLE`, then
`MEMOIZE`; list: `EMPTY_LIST MEMOIZE` then batches; dict: `EMPTY_DICT MEMOIZE` then batches; set: `EMPTY_SET MEMOIZE`
batches with `ADDITEMS`; frozenset: `MARK … FROZENSET MEMOIZE` with the same re-check; class: module string, qualname
string (both through `save`, so memoised strings), `STACK_GLOBAL`, `MEMOIZE`; `obj`: `save_reduce` — class, args, `NEWOBJ`
(or callable, args, `REDUCE`), memo re-check (`POP` + `BINGET`) or `MEMOIZE`, list items, dict items, state + `BUILD`.
Batching is the C code's, which is NOT `pickle.py`'s (`batchSize = 1000`):
* exact `list`: one element → `APPEND`; else every batch, also a last batch of one, is `MARK … APPENDS`;
* exact `dict`: one pair → `SETITEM`; else `MARK … SETITEMS` per batch and — `do { … } while (i == BATCHSIZE)` — an EMPTY
  batch `MARK SETITEMS` after a last full batch (sizes 1000, 2000, …); `set` likewise with `ADDITEMS`;
* items coming from an iterator (`listitems` / `dictitems` of a reduce value): a batch of exactly one is `APPEND` /
  `SETITEM` without a MARK, no empty batch.
`PROTO` and `FRAME` are not produced (framing is a property of the byte stream, not of the opcode sequence).

**Canonical form** (`canon`): the non-atomic cells reachable from the root, numbered in first-visit order of a depth-first
walk (kids in order), each with its tag and its kids renamed to those numbers; atomic cells (`None`, bools, ints, floats
and the empty tuple — exactly the objects the pickler never memoises, whose identity therefore cannot and need not
survive) are inlined by value.  Two rooted heaps have the same canonical form iff their reachable parts are isomorphic
including sharing and cycles (`PepperProps/C16Pickle.lean`).
-/
namespace Pepper.Pickle

abbrev Ref := Nat

inductive Tag
  | none | bool (b : Bool) | int (z : Int) | float (bits : String)
  | str (s : String) | bytes (hex : String)
  | tuple | list | dict | set | frozenset
  | global
  | obj (viaNew : Bool) (hasState : Bool) (nItems : Nat)
  deriving DecidableEq, Repr, Inhabited

structure Cell where
  tag : Tag
  kids : List Ref := []
  deriving DecidableEq, Repr, Inhabited

abbrev Heap := Array Cell

/-- the objects the pickler writes before looking at the memo and never memoises -/
def Cell.isAtom (c : Cell) : Bool :=
  match c.tag with
  | .none | .bool _ | .int _ | .float _ => true
  | .tuple => c.kids.isEmpty
  | _ => false

/-! ### opcodes -/

inductive Op
  | proto (n : Nat) | frame | stop
  | none | newtrue | newfalse
  | int (z : Int)            -- BININT, BININT1, BININT2, LONG1 (LONG4)
  | float (bits : String)    -- BINFLOAT, payload = 16 hex digits
  | str (s : String)         -- SHORT_BINUNICODE, BINUNICODE, BINUNICODE8
  | bytes (hex : String)     -- SHORT_BINBYTES, BINBYTES, BINBYTES8
  | memoize
  | get (i : Nat)            -- BINGET, LONG_BINGET
  | put (i : Nat)            -- BINPUT, LONG_BINPUT
  | emptyDict | emptyList | emptyTuple | emptySet
  | mark | setitem | setitems | append | appends | additems | frozenset
  | tuple | tuple1 | tuple2 | tuple3
  | global (module name : String) | stackGlobal
  | newobj | newobjEx | reduce | build
  | pop | popMark | dup
  deriving DecidableEq, Repr, Inhabited

inductive Err
  | stack            -- underflow, or a MARK where a value is needed
  | noMark           -- no MARK on the stack
  | memo             -- memo index not present
  | ref              -- dangling reference
  | kind (what : String)          -- wrong kind of cell for the opcode (TypeError / AttributeError / UnpicklingError)
  | unsupported (what : String)   -- legal Python that this model does not mirror
  | eof              -- op list ended without STOP
  | proto
  | fuel
  deriving DecidableEq, Repr, Inhabited

def Err.cls : Err → String
  | .stack => "stack" | .noMark => "no-mark" | .memo => "memo" | .ref => "ref"
  | .kind w => "kind:" ++ w | .unsupported w => "unsupported:" ++ w | .eof => "eof" | .proto => "proto" | .fuel => "fuel"

/-! ### layout of `obj` cells -/

structure ObjParts where
  viaNew : Bool
  cls : Ref
  args : Ref
  state : Option Ref
  items : List Ref
  ditems : List Ref     -- k, v flattened
  deriving DecidableEq, Repr

def ObjParts.cell (p : ObjParts) : Cell :=
  ⟨.obj p.viaNew p.state.isSome p.items.length, p.cls :: p.args :: (p.state.toList ++ (p.items ++ p.ditems))⟩

def Cell.objParts? (c : Cell) : Option ObjParts :=
  match c.tag, c.kids with
  | .obj vn true n, cls :: args :: st :: rest => some ⟨vn, cls, args, some st, rest.take n, rest.drop n⟩
  | .obj vn false n, cls :: args :: rest => some ⟨vn, cls, args, none, rest.take n, rest.drop n⟩
  | _, _ => none

/-! ### the unpickler -/

inductive Item
  | ref (r : Ref) | mark
  deriving DecidableEq, Repr, Inhabited

structure VM where
  heap : Heap := #[]
  stack : List Item := []      -- head = top
  memo : Array Ref := #[]
  deriving Repr, Inhabited

/-- classes (module, qualified name) that define `__setstate__`: `BUILD` on their instances is `unsupported` -/
structure Cfg where
  setstate : List (String × String) := []

def VM.alloc (v : VM) (c : Cell) : VM :=
  { v with heap := v.heap.push c, stack := .ref v.heap.size :: v.stack }

def VM.cell (v : VM) (r : Ref) : Except Err Cell :=
  match v.heap[r]? with
  | some c => .ok c
  | none => .error .ref

def VM.popRef (v : VM) : Except Err (Ref × VM) :=
  match v.stack with
  | .ref r :: rest => .ok (r, { v with stack := rest })
  | _ => .error .stack

def VM.topRef (v : VM) : Except Err Ref :=
  match v.stack with
  | .ref r :: _ => .ok r
  | _ => .error .stack

/-- items above the topmost MARK (in push order) and the stack below it -/
def splitMark : List Item → List Ref → Option (List Ref × List Item)
  | [], _ => none
  | .mark :: rest, acc => some (acc, rest)
  | .ref r :: rest, acc => splitMark rest (r :: acc)

def VM.popMark (v : VM) : Except Err (List Ref × VM) :=
  match splitMark v.stack [] with
  | some (items, rest) => .ok (items, { v with stack := rest })
  | none => .error .noMark

def strOf (h : Heap) (r : Ref) : Option String :=
  match h[r]? with
  | some ⟨.str s, _⟩ => some s
  | _ => none

/-- Python's `a == b` for two objects used as dict keys / set members (see the header for what is covered) -/
def keyEq (h : Heap) (a b : Ref) : Except Err Bool :=
  if a = b then .ok true else
  match h[a]?, h[b]? with
  | some ca, some cb =>
    match ca.tag, cb.tag with
    | .str s, .str t => .ok (s == t)
    | .bytes s, .bytes t => .ok (s == t)
    | .int x, .int y => .ok (x == y)
    | .bool x, .bool y => .ok (x == y)
    | .bool x, .int y => .ok ((if x then 1 else 0) == y)
    | .int x, .bool y => .ok (x == (if y then 1 else 0))
    | .none, .none => .ok true
    | .float _, _ => .error (.unsupported "float key")
    | _, .float _ => .error (.unsupported "float key")
    | .tuple, .tuple => if ca.kids.isEmpty && cb.kids.isEmpty then .ok true
                        else if ca.kids.length != cb.kids.length then .ok false else .error (.unsupported "tuple key")
    | .frozenset, .frozenset => .error (.unsupported "frozenset key")
    | .global, .global =>
      match ca.kids, cb.kids with
      | [m1, n1], [m2, n2] =>
        match strOf h m1, strOf h n1, strOf h m2, strOf h n2 with
        | some a1, some a2, some b1, some b2 => .ok (a1 == b1 && a2 == b2)
        | _, _, _, _ => .error (.kind "global")
      | _, _ => .error (.kind "global")
    | _, _ => .ok false
  | _, _ => .error .ref

def hashable (h : Heap) (k : Ref) : Except Err Unit :=
  match h[k]? with
  | some c => match c.tag with
    | .list | .dict | .set => .error (.kind "unhashable")
    | _ => .ok ()
  | none => .error .ref

/-- `d[k] = v` on the flattened pair list -/
def dictSet (h : Heap) : List Ref → Ref → Ref → Except Err (List Ref)
  | [], k, v => .ok [k, v]
  | [_], _, _ => .error (.kind "dict")
  | k0 :: v0 :: rest, k, v => do
    if (← keyEq h k0 k) then pure (k0 :: v :: rest)
    else
      let r ← dictSet h rest k v
      pure (k0 :: v0 :: r)

def dictSetMany (h : Heap) : List Ref → List Ref → Except Err (List Ref)
  | kvs, [] => .ok kvs
  | _, [_] => .error (.kind "odd")
  | kvs, k :: v :: rest => do
    hashable h k
    let kvs' ← dictSet h kvs k v
    dictSetMany h kvs' rest

/-- `s.add(x)` -/
def setAdd (h : Heap) : List Ref → Ref → Except Err (List Ref)
  | [], x => .ok [x]
  | y :: rest, x => do
    if (← keyEq h y x) then pure (y :: rest)
    else
      let r ← setAdd h rest x
      pure (y :: r)

def setAddMany (h : Heap) : List Ref → List Ref → Except Err (List Ref)
  | s, [] => .ok s
  | s, x :: rest => do
    hashable h x
    let s' ← setAdd h s x
    setAddMany h s' rest

def VM.setCell (v : VM) (r : Ref) (c : Cell) : VM := { v with heap := v.heap.setIfInBounds r c }

/-- `list_obj.extend(items)` on the object under the items -/
def VM.extend (v : VM) (target : Ref) (items : List Ref) : Except Err VM := do
  let c ← v.cell target
  match c.tag with
  | .list => pure (v.setCell target { c with kids := c.kids ++ items })
  | .obj .. =>
    match c.objParts? with
    | some p => pure (v.setCell target { p with items := p.items ++ items }.cell)
    | none => throw (.kind "obj")
  | _ => throw (.kind "append")

/-- `dict[k] = v` for the pairs, on the object under them -/
def VM.setitems (v : VM) (target : Ref) (kvs : List Ref) : Except Err VM := do
  let c ← v.cell target
  match c.tag with
  | .dict =>
    let k' ← dictSetMany v.heap c.kids kvs
    pure (v.setCell target { c with kids := k' })
  | .obj .. =>
    match c.objParts? with
    | some p =>
      let d' ← dictSetMany v.heap p.ditems kvs
      pure (v.setCell target { p with ditems := d' }.cell)
    | none => throw (.kind "obj")
  | _ => throw (.kind "setitem")

/-- truth value of a cell, as `if state:` sees it (`none` = not decidable here) -/
def truthy (c : Cell) : Option Bool :=
  match c.tag with
  | .none => some false
  | .bool b => some b
  | .int z => some (z != 0)
  | .str s => some (s != "")
  | .bytes s => some (s != "")
  | .tuple | .list | .dict | .set | .frozenset => some (!c.kids.isEmpty)
  | .global => some true
  | .float _ => none
  | .obj .. => none

def classNames (h : Heap) (cls : Ref) : Option (String × String) :=
  match h[cls]? with
  | some ⟨.global, [m, n]⟩ =>
    match strOf h m, strOf h n with
    | some a, some b => some (a, b)
    | _, _ => none
  | _ => none

/-- the instance's own `__dict__` cell; allocated (empty) when the instance has none yet -/
def VM.instDict (v : VM) (inst : Ref) (p : ObjParts) : Ref × VM :=
  match p.state with
  | some d => (d, v)
  | none => (v.heap.size,
      { v with heap := (v.heap.push ⟨.dict, []⟩).setIfInBounds inst { p with state := some v.heap.size }.cell })

/-- `if state: inst_dict = inst.__dict__; for k, v in state.items(): inst_dict[k] = v` for the pickled state cell `dc` -/
def VM.updateAttrs (v : VM) (inst : Ref) (p : ObjParts) (dc : Cell) : Except Err VM :=
  match truthy dc with
  | none => .error (.unsupported "state truth value")
  | some false => .ok v
  | some true =>
    if dc.tag != .dict then .error (.kind "state") else
    match (v.instDict inst p).2.cell (v.instDict inst p).1 with
    | .error e => .error e
    | .ok cur =>
      if cur.tag != .dict then .error (.kind "__dict__") else
      match dictSetMany (v.instDict inst p).2.heap cur.kids dc.kids with
      | .error e => .error e
      | .ok k' => .ok ((v.instDict inst p).2.setCell (v.instDict inst p).1 { cur with kids := k' })

/-- `if slotstate: for k, v in slotstate.items(): setattr(inst, k, v)` — only the empty case is mirrored -/
def VM.slotState (v : VM) (slot : Option Ref) : Except Err VM :=
  match slot with
  | none => .ok v
  | some s =>
    match v.cell s with
    | .error e => .error e
    | .ok sl =>
      match truthy sl with
      | some false => .ok v
      | _ => .error (.unsupported "slotstate")

/-- `load_build` -/
def VM.build (cfg : Cfg) (v0 : VM) : Except Err VM := do
  let (st, v) ← v0.popRef
  let inst ← v.topRef
  let ic ← v.cell inst
  match ic.objParts? with
  | none => throw (.kind "build")
  | some p =>
    match classNames v.heap p.cls with
    | none => throw (.kind "class")
    | some mn =>
      if cfg.setstate.contains mn then throw (.unsupported "__setstate__") else
      let sc ← v.cell st
      -- `if isinstance(state, tuple) and len(state) == 2: state, slotstate = state`
      let ds : Ref × Option Ref :=
        match sc.tag, sc.kids with
        | .tuple, [a, b] => (a, some b)
        | _, _ => (st, none)
      let dc ← v.cell ds.1
      let v1 ← v.updateAttrs inst p dc
      v1.slotState ds.2

def VM.step (cfg : Cfg) (v : VM) : Op → Except Err VM
  | .proto n => if n ≤ 5 then pure v else throw .proto
  | .frame => pure v
  | .stop => pure v     -- handled by `runOps`
  | .none => pure (v.alloc ⟨.none, []⟩)
  | .newtrue => pure (v.alloc ⟨.bool true, []⟩)
  | .newfalse => pure (v.alloc ⟨.bool false, []⟩)
  | .int z => pure (v.alloc ⟨.int z, []⟩)
  | .float b => pure (v.alloc ⟨.float b, []⟩)
  | .str s => pure (v.alloc ⟨.str s, []⟩)
  | .bytes s => pure (v.alloc ⟨.bytes s, []⟩)
  | .memoize => do
    let r ← v.topRef
    pure { v with memo := v.memo.push r }
  | .get i =>
    match v.memo[i]? with
    | some r => pure { v with stack := .ref r :: v.stack }
    | none => throw .memo
  | .put i => do
    let r ← v.topRef
    if i < v.memo.size then pure { v with memo := v.memo.setIfInBounds i r }
    else if i = v.memo.size then pure { v with memo := v.memo.push r }
    else throw (.unsupported "sparse memo")
  | .emptyDict => pure (v.alloc ⟨.dict, []⟩)
  | .emptyList => pure (v.alloc ⟨.list, []⟩)
  | .emptyTuple => pure (v.alloc ⟨.tuple, []⟩)
  | .emptySet => pure (v.alloc ⟨.set, []⟩)
  | .mark => pure { v with stack := .mark :: v.stack }
  | .setitem => do
    let (val, v1) ← v.popRef
    let (key, v2) ← v1.popRef
    let t ← v2.topRef
    v2.setitems t [key, val]
  | .setitems => do
    let (items, v1) ← v.popMark
    let t ← v1.topRef
    v1.setitems t items
  | .append => do
    let (val, v1) ← v.popRef
    let t ← v1.topRef
    v1.extend t [val]
  | .appends => do
    let (items, v1) ← v.popMark
    let t ← v1.topRef
    v1.extend t items
  | .additems => do
    let (items, v1) ← v.popMark
    let t ← v1.topRef
    let c ← v1.cell t
    if c.tag != .set then throw (.kind "additems") else
    let k' ← setAddMany v1.heap c.kids items
    pure (v1.setCell t { c with kids := k' })
  | .frozenset => do
    let (items, v1) ← v.popMark
    let k' ← setAddMany v1.heap [] items
    pure (v1.alloc ⟨.frozenset, k'⟩)
  | .tuple => do
    let (items, v1) ← v.popMark
    pure (v1.alloc ⟨.tuple, items⟩)
  | .tuple1 => do
    let (a, v1) ← v.popRef
    pure (v1.alloc ⟨.tuple, [a]⟩)
  | .tuple2 => do
    let (b, v1) ← v.popRef
    let (a, v2) ← v1.popRef
    pure (v2.alloc ⟨.tuple, [a, b]⟩)
  | .tuple3 => do
    let (c, v1) ← v.popRef
    let (b, v2) ← v1.popRef
    let (a, v3) ← v2.popRef
    pure (v3.alloc ⟨.tuple, [a, b, c]⟩)
  | .global m n =>
    let i := v.heap.size
    pure { v with heap := ((v.heap.push ⟨.str m, []⟩).push ⟨.str n, []⟩).push ⟨.global, [i, i + 1]⟩,
                  stack := .ref (i + 2) :: v.stack }
  | .stackGlobal => do
    let (n, v1) ← v.popRef
    let (m, v2) ← v1.popRef
    match strOf v2.heap m, strOf v2.heap n with
    | some _, some _ => pure (v2.alloc ⟨.global, [m, n]⟩)
    | _, _ => throw (.kind "STACK_GLOBAL requires str")
  | .newobj => do
    let (args, v1) ← v.popRef
    let (cls, v2) ← v1.popRef
    let ac ← v2.cell args
    let cc ← v2.cell cls
    if ac.tag != .tuple then throw (.kind "NEWOBJ args") else
    if cc.tag != .global then throw (.kind "NEWOBJ class") else
    pure (v2.alloc (ObjParts.cell ⟨true, cls, args, none, [], []⟩))
  | .newobjEx => do
    let (kw, v0) ← v.popRef
    let (args, v1) ← v0.popRef
    let (cls, v2) ← v1.popRef
    let kc ← v2.cell kw
    let ac ← v2.cell args
    let cc ← v2.cell cls
    if kc.tag != .dict then throw (.kind "NEWOBJ_EX kwargs") else
    if !kc.kids.isEmpty then throw (.unsupported "NEWOBJ_EX kwargs") else
    if ac.tag != .tuple then throw (.kind "NEWOBJ_EX args") else
    if cc.tag != .global then throw (.kind "NEWOBJ_EX class") else
    pure (v2.alloc (ObjParts.cell ⟨true, cls, args, none, [], []⟩))
  | .reduce => do
    let (args, v1) ← v.popRef
    let (f, v2) ← v1.popRef
    let ac ← v2.cell args
    let fc ← v2.cell f
    if ac.tag != .tuple then throw (.kind "REDUCE args") else
    if fc.tag != .global then throw (.kind "REDUCE callable") else
    pure (v2.alloc (ObjParts.cell ⟨false, f, args, none, [], []⟩))
  | .build => v.build cfg
  | .pop =>
    match v.stack with
    | _ :: rest => pure { v with stack := rest }    -- a value, or (pickle.py: empty frame → pop_mark) the MARK itself
    | [] => throw .stack
  | .popMark => do
    let (_, v1) ← v.popMark
    pure v1
  | .dup => do
    let r ← v.topRef
    pure { v with stack := .ref r :: v.stack }

/-- run until STOP; what follows STOP is not read -/
def runOps (cfg : Cfg) : List Op → VM → Except Err (VM × Ref)
  | [], _ => .error .eof
  | .stop :: _, v => do
    let r ← v.topRef
    pure (v, r)
  | op :: rest, v => do
    let v' ← v.step cfg op
    runOps cfg rest v'

def runWith (cfg : Cfg) (ops : List Op) : Except Err (Heap × Ref) := do
  let (v, r) ← runOps cfg ops {}
  pure (v.heap, r)

def run (ops : List Op) : Except Err (Heap × Ref) := runWith {} ops

/-! ### the pickler -/

def batchSize : Nat := 1000

/-- the pickler's memo: position = memo index, entry = the cell (`id(obj)`) -/
abbrev PMemo := List Ref

abbrev Saver := Ref → PMemo → Except Err (List Op × PMemo)

def saveAll (save : Saver) : List Ref → PMemo → Except Err (List Op × PMemo)
  | [], m => .ok ([], m)
  | k :: ks, m => do
    let (o1, m1) ← save k m
    let (o2, m2) ← saveAll save ks m1
    pure (o1 ++ o2, m2)

def chunksAux {α : Type} (n : Nat) : Nat → List α → List (List α)
  | 0, _ => []
  | f + 1, l => if l.isEmpty then [] else l.take n :: chunksAux n f (l.drop n)

/-- consecutive pieces of `n` elements (the last one shorter); `n ≥ 1` -/
def chunks {α : Type} (n : Nat) (l : List α) : List (List α) := chunksAux n l.length l

/-- one batch: `MARK items… CLOSE`, or for a single item (when `single` is given) `item SINGLE` -/
def saveBatches (save : Saver) (per : Nat) (close : Op) (single : Option Op) :
    List (List Ref) → PMemo → Except Err (List Op × PMemo)
  | [], m => .ok ([], m)
  | c :: cs, m => do
    let (o1, m1) ← saveAll save c m
    let this := match single with
      | some s => if c.length == per then o1 ++ [s] else Op.mark :: o1 ++ [close]
      | none => Op.mark :: o1 ++ [close]
    let (o2, m2) ← saveBatches save per close single cs m1
    pure (this ++ o2, m2)

/-- `batch_list_exact` / `batch_dict_exact` / the loop of `save_set` (`per` = references per item: 1 or 2).
    `emptyTail`: the `do … while (i == BATCHSIZE)` loops write an empty batch after a last full one. -/
def batchExact (save : Saver) (per : Nat) (close single : Op) (emptyTail : Bool) (singleSpecial : Bool)
    (kids : List Ref) (m : PMemo) : Except Err (List Op × PMemo) := do
  if kids.isEmpty then pure ([], m)
  else if singleSpecial && kids.length == per then
    let (o, m1) ← saveAll save kids m
    pure (o ++ [single], m1)
  else
    let (o, m1) ← saveBatches save per close none (chunks (per * batchSize) kids) m
    pure (if emptyTail && kids.length % (per * batchSize) == 0 then o ++ [.mark, close] else o, m1)

/-- `batch_list` / `batch_dict` on an iterator -/
def batchIter (save : Saver) (per : Nat) (close single : Op) (kids : List Ref) (m : PMemo) :
    Except Err (List Op × PMemo) :=
  saveBatches save per close (some single) (chunks (per * batchSize) kids) m

/-- position of the first occurrence -/
def indexOf? (x : Ref) : List Ref → Option Nat
  | [] => none
  | y :: ys => if y = x then some 0 else (indexOf? x ys).map (· + 1)

def memoIdx (m : PMemo) (x : Ref) : Option Nat := indexOf? x m

def atomOp? (c : Cell) : Option Op :=
  match c.tag with
  | .none => some .none
  | .bool true => some .newtrue
  | .bool false => some .newfalse
  | .int z => some (.int z)
  | .float b => some (.float b)
  | .tuple => if c.kids.isEmpty then some .emptyTuple else none
  | _ => none

/-- `save(obj)` -/
def save (h : Heap) : Nat → Ref → PMemo → Except Err (List Op × PMemo)
  | 0, _, _ => .error .fuel
  | fuel + 1, x, m =>
    match h[x]? with
    | none => .error .ref
    | some c =>
      match atomOp? c with
      | some op => .ok ([op], m)
      | none =>
        match memoIdx m x with
        | some i => .ok ([.get i], m)
        | none =>
          match c.tag with
          | .str s => .ok ([.str s, .memoize], m ++ [x])
          | .bytes s => .ok ([.bytes s, .memoize], m ++ [x])
          | .tuple => do
            let n := c.kids.length
            let (o, m1) ← saveAll (save h fuel) c.kids m
            match memoIdx m1 x with
            | some i =>   -- recursive tuple: it was memoised while its elements were saved
              pure ((if n ≤ 3 then o ++ List.replicate n .pop else Op.mark :: o ++ [.popMark]) ++ [.get i], m1)
            | none =>
              let body := match n with
                | 1 => o ++ [.tuple1]
                | 2 => o ++ [.tuple2]
                | 3 => o ++ [.tuple3]
                | _ => Op.mark :: o ++ [.tuple]
              pure (body ++ [.memoize], m1 ++ [x])
          | .list => do
            let (o, m1) ← batchExact (save h fuel) 1 .appends .append false true c.kids (m ++ [x])
            pure (Op.emptyList :: .memoize :: o, m1)
          | .dict => do
            if c.kids.length % 2 != 0 then throw (.kind "dict") else
            let (o, m1) ← batchExact (save h fuel) 2 .setitems .setitem true true c.kids (m ++ [x])
            pure (Op.emptyDict :: .memoize :: o, m1)
          | .set => do
            let (o, m1) ← batchExact (save h fuel) 1 .additems .additems true false c.kids (m ++ [x])
            pure (Op.emptySet :: .memoize :: o, m1)
          | .frozenset => do
            let (o, m1) ← saveAll (save h fuel) c.kids m
            match memoIdx m1 x with
            | some i => pure (Op.mark :: o ++ [.popMark, .get i], m1)
            | none => pure (Op.mark :: o ++ [.frozenset, .memoize], m1 ++ [x])
          | .global =>
            match c.kids with
            | [mo, na] => do
              match strOf h mo, strOf h na with
              | some _, some _ =>
                let (o1, m1) ← save h fuel mo m
                let (o2, m2) ← save h fuel na m1
                pure (o1 ++ o2 ++ [.stackGlobal, .memoize], m2 ++ [x])
              | _, _ => throw (.kind "global")
            | _ => throw (.kind "global")
          | .obj .. =>
            match c.objParts? with
            | none => .error (.kind "obj")
            | some p => do
              if p.ditems.length % 2 != 0 then throw (.kind "obj") else
              let (o1, m1) ← save h fuel p.cls m
              let (o2, m2) ← save h fuel p.args m1
              let mk : Op := if p.viaNew then .newobj else .reduce
              let (o3, m3) : List Op × PMemo := match memoIdx m2 x with
                | some i => ([.pop, .get i], m2)
                | none => ([.memoize], m2 ++ [x])
              let (o4, m4) ← batchIter (save h fuel) 1 .appends .append p.items m3
              let (o5, m5) ← batchIter (save h fuel) 2 .setitems .setitem p.ditems m4
              let (o6, m6) ← match p.state with
                | none => pure ([], m5)
                | some st => do
                  let (o, m') ← save h fuel st m5
                  pure (o ++ [.build], m')
              pure (o1 ++ o2 ++ [mk] ++ o3 ++ o4 ++ o5 ++ o6, m6)
          | _ => .error (.kind "atom")

/-- enough for every heap: `save` recurses at most once per cell on a path -/
def dumpFuel (h : Heap) : Nat := h.size + 2

/-- `pickle.dumps(obj)` as an opcode list, without `PROTO` / `FRAME` -/
def dumpWith (h : Heap) (r : Ref) (fuel : Nat) : Except Err (List Op) := do
  let (o, _) ← save h fuel r []
  pure (o ++ [.stop])

def dump (h : Heap) (r : Ref) : Except Err (List Op) := dumpWith h r (dumpFuel h)

/-! ### reachability and the canonical form -/

/-- depth-first first-visit order of the non-atomic cells reachable from the references in `todo`
    (`seen` = visited so far, in order); `none`: dangling reference or out of fuel -/
def visit (h : Heap) : Nat → List Ref → List Ref → Option (List Ref)
  | 0, _, _ => none
  | _ + 1, [], seen => some seen
  | fuel + 1, x :: todo, seen =>
    match h[x]? with
    | none => none
    | some c =>
      if c.isAtom || seen.contains x then visit h fuel todo seen
      else visit h fuel (c.kids ++ todo) (seen ++ [x])

def kidsLen (h : Heap) (i : Nat) : Nat :=
  match h[i]? with
  | some c => c.kids.length
  | none => 0

/-- enough for every heap (`PepperProofs/Pickle.lean: visit_fuel`): one step per stack entry, at most one push per kid -/
def visitFuel (h : Heap) : Nat := 2 + ((List.range h.size).map (kidsLen h)).sum

/-- the non-atomic cells reachable from `r`, in first-visit order -/
def reach (h : Heap) (r : Ref) : Option (List Ref) := visit h (visitFuel h) [r] []

inductive CRef
  | atom (t : Tag)     -- inlined by value (`tuple` = the empty tuple)
  | idx (n : Nat)      -- the n-th cell of the canonical form
  deriving DecidableEq, Repr, Inhabited

structure Canon where
  root : CRef
  cells : List (Tag × List CRef)
  deriving DecidableEq, Repr, Inhabited

def mapOpt {α β : Type} (f : α → Option β) : List α → Option (List β)
  | [] => some []
  | x :: xs =>
    match f x, mapOpt f xs with
    | some y, some ys => some (y :: ys)
    | _, _ => none

def rename (h : Heap) (order : List Ref) (k : Ref) : Option CRef :=
  match h[k]? with
  | none => none
  | some c => if c.isAtom then some (.atom c.tag) else (indexOf? k order).map .idx

def canonCell (h : Heap) (order : List Ref) (x : Ref) : Option (Tag × List CRef) :=
  match h[x]? with
  | none => none
  | some c => (mapOpt (rename h order) c.kids).map (fun ks => (c.tag, ks))

def canon (h : Heap) (r : Ref) : Option Canon :=
  match reach h r with
  | none => none
  | some order =>
    match rename h order r, mapOpt (canonCell h order) order with
    | some root, some cells => some ⟨root, cells⟩
    | _, _ => none

/-- the round trip evaluated on one rooted heap: `dump` succeeds, `run` of its opcodes succeeds, both canonical forms
    exist and are equal (driver op `pickle-roundtrip`; `PepperProps/C16Pickle.lean: roundtrip_of_check`) -/
def roundtripB (h : Heap) (r : Ref) : Bool :=
  match dump h r with
  | .error _ => false
  | .ok ops =>
    match run ops with
    | .error _ => false
    | .ok (h', r') =>
      match canon h r, canon h' r' with
      | some c, some c' => c == c'
      | _, _ => false

/-! ### the heaps for which the round trip is PROVED (`PepperProofs/Pickle.lean: Supported`, `roundtrip_supported`), as a
    decidable check (`supportedB_sound`); the driver evaluates it on every real heap (op `pickle-supported`) -/

/-- the texts of the keys of a flattened pair list, when all keys are `str` cells -/
def keyStrs (H : Heap) : List Ref → Option (List String)
  | [] => some []
  | [_] => none
  | k :: _ :: rest =>
    match strOf H k, keyStrs H rest with
    | some s, some ss => some (s :: ss)
    | _, _ => none

def strKeysB (h : Heap) (kids : List Ref) : Bool :=
  match keyStrs h kids with
  | some ss => decide ss.Nodup
  | none => false

def classB (h : Heap) (cls : Ref) : Bool :=
  match h[cls]? with
  | some ⟨.global, [mo, na]⟩ => (strOf h mo).isSome && (strOf h na).isSome
  | _ => false

def okCellB (h : Heap) (c : Cell) : Bool :=
  match c.tag with
  | .str _ | .bytes _ => c.kids.isEmpty
  | .list => decide (c.kids.length ≤ batchSize)
  | .dict => decide (c.kids.length < 2 * batchSize) && strKeysB h c.kids
  | .global => match c.kids with
    | [mo, na] => (strOf h mo).isSome && (strOf h na).isSome
    | _ => false
  | .obj .. => match c.objParts? with
    | none => false
    | some p =>
      c == p.cell && p.items.isEmpty &&
      (match h[p.args]? with | some ca => ca.tag == .tuple && ca.kids.isEmpty | none => false) &&
      classB h p.cls && decide (p.ditems.length < 2 * batchSize) && strKeysB h p.ditems &&
      (match p.state with
        | none => true
        | some d => match h[d]? with
          | some cd => cd.tag == .dict && !cd.kids.isEmpty && strKeysB h cd.kids
          | none => false)
  | .set | .frozenset => false
  | _ => true

def stateAt (h : Heap) (o : Ref) : Option Ref :=
  match h[o]? with
  | some c => match c.objParts? with
    | some p => p.state
    | none => none
  | none => none

/-- the state dicts of all instances -/
def stateRefs (h : Heap) : List Ref := (List.range h.size).filterMap (stateAt h)

def ownerB (h : Heap) (states : List Ref) : Bool :=
  (List.range h.size).all fun p =>
    match h[p]? with
    | none => true
    | some c => c.kids.all fun k =>
      !states.contains k ||
      (match c.objParts? with
        | some pp => pp.state == some k && k != pp.cls && k != pp.args && !pp.items.contains k && !pp.ditems.contains k
        | none => false)

def uniqB (h : Heap) : Bool :=
  let owners := (List.range h.size).filter (fun o => (stateAt h o).isSome)
  owners.all fun o1 => owners.all fun o2 => o1 == o2 || stateAt h o1 != stateAt h o2

def supportedB (h : Heap) (r : Ref) : Bool :=
  (List.range h.size).all (fun i => match h[i]? with | some c => okCellB h c | none => true) &&
  !(stateRefs h).contains r && ownerB h (stateRefs h) && uniqB h

/-! ### the C16 snapshot read off a decoded heap
(mirrors `harness/snapshot.py: snap` — the `tree` part — on the cell vocabulary: attribute lookup in an instance's state
dict, `OrderedDict` items = the dict items of a `REDUCE`d object, `isinstance(s, SuperSequence)` = the class's qualified
name is `SuperSequence`, `ReverseSuperSequence` or `Strand`; `"%f" % s.opt` is left to the caller: the number is handed
out as it is in the heap) -/

structure SnapSeq where
  name : String
  sup : Bool
  len : Int
  const : String
  items : List (String × Bool)
  bases : List (String × Bool × Int)
  deriving Repr, DecidableEq

structure SnapStrand where
  name : String
  dummy : Bool
  len : Int
  items : List (String × Bool)
  bases : List (String × Bool × Int)
  deriving Repr, DecidableEq

structure SnapStruct where
  name : String
  strands : List String
  struct : String
  opt : Tag                  -- `int z` or `float bits`
  bases : List (String × Bool × Int)
  deriving Repr, DecidableEq

structure SnapComp where
  pfx : String
  seqs : List SnapSeq
  strands : List SnapStrand
  structs : List SnapStruct
  kins : List (String × List String × List String)
  deriving Repr, DecidableEq

inductive SnapInst
  | comp (c : SnapComp)
  | sys (pfx : String) (signals : List (String × List (String × String × Bool))) (lengths : List (String × Int))
      (components : List (String × SnapInst))
  deriving Repr

def pairsOf : List Ref → List (Ref × Ref)
  | k :: v :: rest => (k, v) :: pairsOf rest
  | _ => []

/-- value of the attribute `name` of the instance `o` -/
def attr (h : Heap) (o : Ref) (name : String) : Option Ref :=
  match h[o]? with
  | some c => match c.objParts? with
    | some p => match p.state with
      | some d => match h[d]? with
        | some ⟨.dict, kids⟩ => ((pairsOf kids).find? (fun kv => strOf h kv.1 == some name)).map (·.2)
        | _ => none
      | none => none
    | none => none
  | none => none

/-- `(key, value)` pairs of an `OrderedDict` (or plain dict) with string keys -/
def odItems (h : Heap) (o : Ref) : Option (List (String × Ref)) :=
  match h[o]? with
  | some c =>
    let kvs := match c.tag with
      | .dict => some (pairsOf c.kids)
      | .obj .. => c.objParts?.map (fun (p : ObjParts) => pairsOf p.ditems)
      | _ => none
    kvs.bind (mapOpt (fun kv => (strOf h kv.1).map (fun s => (s, kv.2))))
  | none => none

def intAt (h : Heap) (r : Ref) : Option Int :=
  match h[r]? with
  | some ⟨.int z, _⟩ => some z
  | some ⟨.bool b, _⟩ => some (if b then 1 else 0)
  | _ => none

/-- `bool(x)` for the values that occur (bools, ints, None) -/
def boolAt (h : Heap) (r : Ref) : Option Bool :=
  match h[r]? with
  | some c => truthy c
  | none => none

def seqAt (h : Heap) (r : Ref) : Option (List Ref) :=
  match h[r]? with
  | some ⟨.list, ks⟩ => some ks
  | some ⟨.tuple, ks⟩ => some ks
  | _ => none

def className (h : Heap) (o : Ref) : Option String :=
  match h[o]? with
  | some c => match c.objParts? with
    | some p => (classNames h p.cls).map (·.2)
    | none => none
  | none => none

def strAttr (h : Heap) (o : Ref) (n : String) : Option String := (attr h o n).bind (strOf h)
def intAttr (h : Heap) (o : Ref) (n : String) : Option Int := (attr h o n).bind (intAt h)
def boolAttr (h : Heap) (o : Ref) (n : String) : Option Bool := (attr h o n).bind (boolAt h)
def listAttr (h : Heap) (o : Ref) (n : String) : Option (List Ref) := (attr h o n).bind (seqAt h)

def dropLast (s : String) : String := String.ofList s.toList.dropLast
def rstripStar (s : String) : String := String.ofList (s.toList.reverse.dropWhile (· == '*')).reverse

/-- `[i.name[:-1] if i.reversed else i.name, bool(i.reversed)]` -/
def snapItem (h : Heap) (i : Ref) : Option (String × Bool) := do
  let n ← strAttr h i "name"
  let rv ← boolAttr h i "reversed"
  pure (if rv then dropLast n else n, rv)

/-- `[b.name.rstrip("*") if b.reversed else b.name, bool(b.reversed), b.length]` -/
def snapBase (h : Heap) (b : Ref) : Option (String × Bool × Int) := do
  let n ← strAttr h b "name"
  let rv ← boolAttr h b "reversed"
  let l ← intAttr h b "length"
  pure (if rv then rstripStar n else n, rv, l)

def isSuperClass (n : String) : Bool := n == "SuperSequence" || n == "ReverseSuperSequence" || n == "Strand"

def snapSeq (h : Heap) (name : String) (s : Ref) : Option SnapSeq := do
  let cn ← className h s
  let len ← intAttr h s "length"
  if isSuperClass cn then
    let items ← (← listAttr h s "seqs").mapM (snapItem h)
    let bases ← (← listAttr h s "base_seqs").mapM (snapBase h)
    pure ⟨name, true, len, "", items, bases⟩
  else
    let const ← strAttr h s "const"
    pure ⟨name, false, len, const, [], [(name, false, len)]⟩

def snapStrand (h : Heap) (name : String) (s : Ref) : Option SnapStrand := do
  let dummy ← boolAttr h s "dummy"
  let len ← intAttr h s "length"
  let items ← (← listAttr h s "seqs").mapM (snapItem h)
  let bases ← (← listAttr h s "base_seqs").mapM (snapBase h)
  pure ⟨name, dummy, len, items, bases⟩

def snapStruct (h : Heap) (name : String) (s : Ref) : Option SnapStruct := do
  let strands ← (← listAttr h s "strands").mapM (fun x => strAttr h x "name")
  let st ← strAttr h s "struct"
  let optRef ← attr h s "opt"
  let opt ← (h[optRef]?).map (·.tag)
  let bases ← (← listAttr h s "base_seqs").mapM (snapBase h)
  pure ⟨name, strands, st, opt, bases⟩

def snapKin (h : Heap) (name : String) (k : Ref) : Option (String × List String × List String) := do
  let ins ← (← listAttr h k "inputs").mapM (fun x => strAttr h x "name")
  let outs ← (← listAttr h k "outputs").mapM (fun x => strAttr h x "name")
  pure (name, ins, outs)

def snapComp (h : Heap) (c : Ref) : Option SnapComp := do
  let pfx ← strAttr h c "prefix"
  let seqs ← (← odItems h (← attr h c "seqs")).mapM (fun (n, s) => snapSeq h n s)
  let strands ← (← odItems h (← attr h c "strands")).mapM (fun (n, s) => snapStrand h n s)
  let structs ← (← odItems h (← attr h c "structs")).mapM (fun (n, s) => snapStruct h n s)
  let kins ← (← odItems h (← attr h c "kinetics")).mapM (fun (n, s) => snapKin h n s)
  pure ⟨pfx, seqs, strands, structs, kins⟩

/-- one `(port, cname, wc)` entry of a signal: a port that is a string is a sub-system's signal (`"@" + port`) -/
def snapSignalEntry (h : Heap) (e : Ref) : Option (String × String × Bool) := do
  match ← seqAt h e with
  | [port, cname, wc] =>
    let pn ← match strOf h port with
      | some s => some ("@" ++ s)
      | none => strAttr h port "name"
    let cn ← strOf h cname
    let w ← boolAt h wc
    pure (pn, cn, w)
  | _ => none

def snapInst (h : Heap) : Nat → Ref → Option SnapInst
  | 0, _ => none
  | fuel + 1, o => do
    let cn ← className h o
    if cn == "Component" then (snapComp h o).map .comp
    else
      let pfx ← strAttr h o "prefix"
      let sigs ← (← odItems h (← attr h o "signals")).mapM (fun (n, es) => do
        let rows ← (← seqAt h es).mapM (snapSignalEntry h)
        pure (n, rows))
      let lens ← (← odItems h (← attr h o "lengths")).mapM (fun (n, l) => (intAt h l).map (fun z => (n, z)))
      let comps ← (← odItems h (← attr h o "components")).mapM (fun (n, s) => (snapInst h fuel s).map (fun i => (n, i)))
      pure (.sys pfx sigs lens comps)

/-- the C16 snapshot of the system rooted at `r` of a decoded heap -/
def snapshotOfHeap (h : Heap) (r : Ref) : Option SnapInst := snapInst h 64 r

/-! ### statistics (evidence only) -/

def countTag (h : Heap) (order : List Ref) (p : Tag → Bool) : Nat :=
  (order.filter (fun x => match h[x]? with | some c => p c.tag | none => false)).length

end Pepper.Pickle
