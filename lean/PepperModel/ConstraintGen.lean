import PepperModel.Pil
import PepperModel.Closure
import PepperModel.Generated.Tables
import PepperModel.Ssm
/-!
# The designer front-end: `design/constraint_load.py` and the file-writing part of
# `design/spurious_design.py : design()`; the reader `load_input_files` of `spuriousSSM.c`

Mirrors, for a loaded `Pil.Spec` (= `PIL_class.Spec` after `PIL_parser.load_spec`):
`index_func_strand`, `index_func_struct` (`strand_start`, `struct_start`, `get_index`,
`get_index_strand`), `Constraints.init / add_eq / add_wc / propagate / propagate_templates / get_reps /
dump`, `intersect_groups`, `Convert.get_constraints`; then `eq_map / wc_map / st_map / print_list`
and `load_input_files`.

Translation choices
* **Nodes.**  The Python keys are `int` layout positions and `(num, x)` tuples (`num` = 0,1 for the
  first base sequence and its `.wc` view, …, then the super-sequences and their `.wc` views).  They are
  encoded into `Nat` for `Closure.propagate`: position `i ↦ i` (`i < P`, `P` = final `prev_length`
  of the layout), `(num, x) ↦ P + num·M + x` with `M` = 1 + the longest sequence.  `isinstance(y, int)`
  is `y < P`.
* **Dicts** `eq`, `wc`, `st`, `done`, `eq_rep`, `wc_rep` are `Tab`s (an array indexed by the encoded
  node; `Tab.get`/`Tab.set` behave like a finite map, `PepperProofs/ConstraintGen.lean: Tab.get_set`) plus
  the key list in insertion order where the Python iterates (`st.items()` = init order, `eq.keys()`
  after `propagate` = order of the result of `Closure.propagate`).
* **Order of the seeding.**  The Python interleaves `init` and `add_wc` for the reversed views and runs
  the seeding loops in a fixed order.  The model first produces the list of `init`s (same order), then
  the `eq` links and the `wc` links (each in the Python's order); `eq` and `wc` are different dicts, so
  only the order inside each matters for their contents.  Exceptions: `init` twice ↦ `.assertion`;
  `add_*` on a key that was never initialised ↦ `.keyError`; `strand_start[..] == None` used in
  arithmetic (structure layout, strand that occurs in no structure) ↦ `.layout`; the `assert`s of
  `get_index*` ↦ `.assertion`.  Where two of them could fire in one run the model reports the `init`
  one first; on specifications produced by `Pil.load` only `.layout` is possible.
* **`propagate_templates`**: `for x, st in list(self.st.items())` is a fold over the *snapshot* of
  the items; `ValueError` ↦ `.overconstrained`; a `KeyError` of `group[..]`, `rev_group[..]`,
  `complement[..]` ↦ `.keyError`; the two `assert y not in done` ↦ `.assertion`.  `complement[st]` in
  the last loop is evaluated once per element, i.e. not at all when `wc[x]` is empty.
* **`get_reps`** re-reads `eq_rep[x]` / `wc_rep[x]` in every iteration like the Python.
* **`dump`**: `max([])` (no integer key) ↦ `.noPositions`.
* Blank counts are the generated constants `strandGap`, `structGapStrands`, `structGapStructs`
  (measured on the working tree by `extract_tables.py`).
-/
namespace Pepper.ConstraintGen
open Pepper Pepper.Pil

/-! ## finite maps on encoded nodes -/

abbrev Tab (α : Type) := Array (Option α)

namespace Tab
variable {α : Type}
def empty : Tab α := #[]
def get (t : Tab α) (k : Nat) : Option α := match t[k]? with | some v => v | none => none
def set (t : Tab α) (k : Nat) (v : α) : Tab α :=
  if k < t.size then t.setIfInBounds k (some v)
  else (t ++ Array.replicate (k - t.size) none).push (some v)
def has (t : Tab α) (k : Nat) : Bool := (t.get k).isSome
end Tab

inductive Layout | strand | struct
deriving Repr, DecidableEq

inductive Err
  | overconstrained   -- the ValueError of propagate_templates
  | keyError          -- a KeyError (missing code, link on an uninitialised index)
  | assertion         -- an `assert`
  | layout            -- `None + int`: structure layout with a strand that occurs in no structure
  | noPositions       -- `max([])` in dump
deriving Repr, DecidableEq

/-- `for a in l: f(a)` collecting results, stopping at the first exception -/
def mapME {α β : Type} (f : α → Except Err β) : List α → Except Err (List β)
  | [] => .ok []
  | a :: r => match f a with
    | .error e => .error e
    | .ok b => match mapME f r with
      | .error e => .error e
      | .ok bs => .ok (b :: bs)

def flatME {α β : Type} (f : α → Except Err (List β)) (l : List α) : Except Err (List β) :=
  match mapME f l with
  | .error e => .error e
  | .ok ls => .ok ls.flatten

/-- `enumerate` -/
def enum {α : Type} (l : List α) : List (Nat × α) := (List.range l.length).zip l

/-- items with the running `offset` of the Python loops (`offset += item.length`) -/
def withOffsets {α : Type} (len : α → Nat) : List α → Nat → List (Nat × α)
  | [], _ => []
  | a :: r, off => (off, a) :: withOffsets len r (off + len a)

/-! ## layout (`index_func_strand`, `index_func_struct`) -/

structure Lay where
  strandStart : List (Option Nat)   -- `strand_start`, indexed by `strand.num`
  structStart : List Nat            -- `struct_start`, indexed by `struct.num`
  total : Nat                       -- final `prev_length`
deriving Repr

def strandIdx (spec : Spec) (n : String) : Option Nat := spec.strands.findIdx? (·.name == n)

/-- `struct.strands` as (strand.num, strand) -/
def structStrands (spec : Spec) (so : StructObj) : List (Nat × StrandObj) :=
  so.strands.filterMap (fun n => match strandIdx spec n, spec.findStrand n with
    | some i, some o => some (i, o)
    | _, _ => none)

def layStrandAux : List StrandObj → Nat → List (Option Nat) × Nat
  | [], p => ([], p)
  | s :: r, p =>
    let (l, t) := layStrandAux r (p + s.len + Generated.strandGap)
    (some p :: l, t)

def layStrand (spec : Spec) : Lay :=
  let (l, t) := layStrandAux spec.strands 0
  ⟨l, [], t⟩

def layStructStrands : List (Nat × StrandObj) → List (Option Nat) → Nat → List (Option Nat) × Nat
  | [], ss, p => (ss, p)
  | (i, o) :: r, ss, p =>
    let ss' := if (ss.getD i none).isNone then ss.set i (some p) else ss
    layStructStrands r ss' (p + o.len + Generated.structGapStrands)

def layStructAux (spec : Spec) : List StructObj → List (Option Nat) → Nat → List Nat × List (Option Nat) × Nat
  | [], ss, p => ([], ss, p)
  | so :: r, ss, p =>
    let (ss', p') := layStructStrands (structStrands spec so) ss p
    let (sts, ss'', t) := layStructAux spec r ss' (p' + (Generated.structGapStructs - Generated.structGapStrands))
    (p :: sts, ss'', t)

def layStruct (spec : Spec) : Lay :=
  let (sts, ss, t) := layStructAux spec spec.structs (List.replicate spec.strands.length none) 0
  ⟨ss, sts, t⟩

def layOf (mode : Layout) (spec : Spec) : Lay :=
  match mode with
  | .strand => layStrand spec
  | .struct => layStruct spec

/-- `get_index_strand(strand, index)` (same text in both layouts) -/
def getIndexStrand (lay : Lay) (num len index : Nat) : Except Err Nat :=
  if index < len then
    match lay.strandStart.getD num none with
    | some s => .ok (s + index)
    | none => .error .layout
  else .error .assertion

/-- loop of `get_index` in the strand layout -/
def getIndexS (lay : Lay) : List (Nat × StrandObj) → Nat → Except Err Nat
  | [], _ => .error .assertion
  | (i, o) :: r, index =>
    if index ≥ o.len then getIndexS lay r (index - o.len) else getIndexStrand lay i o.len index

/-- loop of `get_index` in the structure layout -/
def getIndexT : List (Nat × StrandObj) → Nat → Nat → Except Err Nat
  | [], _, _ => .error .assertion
  | (_, o) :: r, index, result =>
    if index ≥ o.len then getIndexT r (index - o.len) (result + o.len + Generated.structGapStrands)
    else .ok (result + index)

def getIndex (mode : Layout) (spec : Spec) (lay : Lay) (sidx : Nat) (so : StructObj) (index : Nat) :
    Except Err Nat :=
  if index < so.len then
    match mode with
    | .strand => getIndexS lay (structStrands spec so) index
    | .struct => getIndexT (structStrands spec so) index (lay.structStart.getD sidx 0)
  else .error .assertion

/-! ## sequence nodes -/

/-- `seq.num` of a view -/
def numOf (spec : Spec) (i : ItemRef) : Option Nat :=
  match spec.baseSeqs.findIdx? (·.name == i.name) with
  | some k => some (2 * k + (if i.rev then 1 else 0))
  | none => match spec.supSeqs.findIdx? (·.name == i.name) with
    | some k => some (2 * spec.baseSeqs.length + 2 * k + (if i.rev then 1 else 0))
    | none => none

def lenOf (spec : Spec) (i : ItemRef) : Nat :=
  match spec.findSeq i.name with
  | some o => o.len
  | none => 0

structure Enc where
  P : Nat
  M : Nat
deriving Repr

def Enc.sq (e : Enc) (num x : Nat) : Nat := e.P + num * e.M + x

def maxLen (spec : Spec) : Nat := spec.seqs.foldl (fun m o => max m o.len) 0

def encOf (spec : Spec) (lay : Lay) : Enc := ⟨lay.total, maxLen spec + 1⟩

def sqOf (spec : Spec) (e : Enc) (i : ItemRef) (x : Nat) : Except Err Nat :=
  match numOf spec i with
  | some n => .ok (e.sq n x)
  | none => .error .keyError

/-! ## the seeding of `get_constraints` -/

/-- the `init` calls of the layout part -/
def layoutInits (mode : Layout) (spec : Spec) (lay : Lay) : Except Err (List (Nat × Char)) :=
  match mode with
  | .struct =>
    flatME (fun (p : Nat × StructObj) =>
      mapME (fun x => match getIndex mode spec lay p.1 p.2 x with
        | .ok i => .ok (i, 'N') | .error e => .error e) (List.range p.2.len)) (enum spec.structs)
  | .strand =>
    flatME (fun (p : Nat × StrandObj) =>
      mapME (fun x => match getIndexStrand lay p.1 p.2.len x with
        | .ok i => .ok (i, 'N') | .error e => .error e) (List.range p.2.len)) (enum spec.strands)

/-- the `init` calls for sequences and super-sequences (forward view, then the `.wc` view) -/
def seqInits (spec : Spec) (e : Enc) : List (Nat × Char) :=
  (enum spec.baseSeqs).flatMap (fun (k, o) =>
    (enum o.template).map (fun (x, c) => (e.sq (2 * k) x, c)) ++
    (List.range o.len).map (fun x => (e.sq (2 * k + 1) x, 'N')))
  ++ (enum spec.supSeqs).flatMap (fun (k, o) =>
    (List.range o.len).map (fun x => (e.sq (2 * spec.baseSeqs.length + 2 * k) x, 'N')) ++
    (List.range o.len).map (fun x => (e.sq (2 * spec.baseSeqs.length + 2 * k + 1) x, 'N')))

/-- structure layout: "constrain all instances of the same strand to be equal" -/
def copyEdges (mode : Layout) (spec : Spec) (lay : Lay) : Except Err (List (Nat × Nat)) :=
  match mode with
  | .strand => .ok []
  | .struct =>
    flatME (fun (p : Nat × StructObj) =>
      flatME (fun (q : Nat × Nat × StrandObj) =>
        mapME (fun x =>
          match getIndexStrand lay q.2.1 q.2.2.len x with
          | .error e => .error e
          | .ok x2 => match getIndex mode spec lay p.1 p.2 (q.1 + x) with
            | .error e => .error e
            | .ok y2 => .ok (x2, y2)) (List.range q.2.2.len))
        (withOffsets (fun (s : Nat × StrandObj) => s.2.len) (structStrands spec p.2) 0))
      (enum spec.structs)

/-- "structural constraints": one `add_wc` per bond -/
def bondEdges (mode : Layout) (spec : Spec) (lay : Lay) : Except Err (List (Nat × Nat)) :=
  flatME (fun (p : Nat × StructObj) =>
    mapME (fun (b : Nat × Nat) =>
      match getIndex mode spec lay p.1 p.2 b.1 with
      | .error e => .error e
      | .ok x2 => match getIndex mode spec lay p.1 p.2 b.2 with
        | .error e => .error e
        | .ok y2 => .ok (x2, y2)) p.2.bonds)
    (enum spec.structs)

/-- the `add_wc` of every reversed view: `(seq.wc.num, x) ~ (seq.num, length - x - 1)` -/
def viewEdges (spec : Spec) (e : Enc) : List (Nat × Nat) :=
  (enum spec.baseSeqs).flatMap (fun (k, o) =>
    (List.range o.len).map (fun x => (e.sq (2 * k + 1) x, e.sq (2 * k) (o.len - x - 1))))
  ++ (enum spec.supSeqs).flatMap (fun (k, o) =>
    (List.range o.len).map (fun x =>
      (e.sq (2 * spec.baseSeqs.length + 2 * k + 1) x, e.sq (2 * spec.baseSeqs.length + 2 * k) (o.len - x - 1))))

/-- "equality constraints": every later member of an `equal` line against the first -/
def equalEdges (spec : Spec) (e : Enc) : Except Err (List (Nat × Nat)) :=
  flatME (fun (its : List ItemRef) =>
    match its with
    | [] => .error .assertion
    | first :: rest =>
      flatME (fun (it : ItemRef) =>
        if lenOf spec it != lenOf spec first then .error .assertion
        else mapME (fun x =>
          match sqOf spec e first x with
          | .error er => .error er
          | .ok a => match sqOf spec e it x with
            | .error er => .error er
            | .ok b => .ok (a, b)) (List.range (lenOf spec it))) rest)
    spec.equals

/-- "super-sequence constraints" -/
def supEdges (spec : Spec) (e : Enc) : Except Err (List (Nat × Nat)) :=
  flatME (fun (p : Nat × SeqObj) =>
    flatME (fun (q : Nat × ItemRef) =>
      mapME (fun x =>
        match sqOf spec e q.2 x with
        | .error er => .error er
        | .ok b => .ok (e.sq (2 * spec.baseSeqs.length + 2 * p.1) (q.1 + x), b)) (List.range (lenOf spec q.2)))
      (withOffsets (lenOf spec) p.2.items 0))
    (enum spec.supSeqs)

/-- "strand constraints" -/
def strandEdges (spec : Spec) (lay : Lay) (e : Enc) : Except Err (List (Nat × Nat)) :=
  flatME (fun (p : Nat × StrandObj) =>
    flatME (fun (q : Nat × ItemRef) =>
      mapME (fun x =>
        match getIndexStrand lay p.1 p.2.len (q.1 + x) with
        | .error er => .error er
        | .ok a => match sqOf spec e q.2 x with
          | .error er => .error er
          | .ok b => .ok (a, b)) (List.range (lenOf spec q.2)))
      (withOffsets (lenOf spec) p.2.items 0))
    (enum spec.strands)

structure Seeds where
  P : Nat
  inits : List (Nat × Char)
  eqE : List (Nat × Nat)
  wcE : List (Nat × Nat)
deriving Repr

def seeds (mode : Layout) (spec : Spec) : Except Err Seeds :=
  let lay := layOf mode spec
  let e := encOf spec lay
  match layoutInits mode spec lay with
  | .error er => .error er
  | .ok li =>
  match copyEdges mode spec lay with
  | .error er => .error er
  | .ok ce =>
  match bondEdges mode spec lay with
  | .error er => .error er
  | .ok be =>
  match equalEdges spec e with
  | .error er => .error er
  | .ok ee =>
  match supEdges spec e with
  | .error er => .error er
  | .ok se =>
  match strandEdges spec lay e with
  | .error er => .error er
  | .ok te =>
    .ok ⟨lay.total, li ++ seqInits spec e, ce ++ ee ++ se ++ te, be ++ viewEdges spec e⟩

/-! ## `Constraints` -/

structure Cons where
  keys : List Nat              -- insertion order of `eq` / `wc` / `st`
  eq : Tab (List Nat)
  wc : Tab (List Nat)
  st : Tab Char
deriving Repr

/-- all the `init` calls; fails on the duplicate assertion -/
def initAll : List (Nat × Char) → Cons → Except Err Cons
  | [], c => .ok c
  | (x, letter) :: r, c =>
    if c.eq.has x || c.wc.has x || c.st.has x then .error .assertion
    else initAll r ⟨c.keys ++ [x], c.eq.set x [], c.wc.set x [], c.st.set x letter⟩

/-- `d[x].append(y); d[y].append(x)` -/
def addLink (t : Tab (List Nat)) (x y : Nat) : Except Err (Tab (List Nat)) :=
  match t.get x with
  | none => .error .keyError
  | some lx =>
    let t1 := t.set x (lx ++ [y])
    match t1.get y with
    | none => .error .keyError
    | some ly => .ok (t1.set y (ly ++ [x]))

def addLinks : List (Nat × Nat) → Tab (List Nat) → Except Err (Tab (List Nat))
  | [], t => .ok t
  | (x, y) :: r, t => match addLink t x y with
    | .error e => .error e
    | .ok t' => addLinks r t'

def build (s : Seeds) : Except Err Cons :=
  match initAll s.inits ⟨[], Tab.empty, Tab.empty, Tab.empty⟩ with
  | .error e => .error e
  | .ok c =>
  match addLinks s.eqE c.eq with
  | .error e => .error e
  | .ok eq =>
  match addLinks s.wcE c.wc with
  | .error e => .error e
  | .ok wc => .ok { c with eq := eq, wc := wc }

def adjOf (keys : List Nat) (t : Tab (List Nat)) : Closure.Adj :=
  keys.map (fun k => (k, (t.get k).getD []))

/-- `intersect_groups` with the exception classes of `propagate_templates` -/
def isect (tbl : CodeTable) (a b : Char) : Except Err Char :=
  match tbl.intersect a b with
  | .ok e => .ok e
  | .error .empty => .error .overconstrained
  | .error .key => .error .keyError

structure PT where
  st : Tab Char
  done : Tab Unit

/-- `for y in self.eq[x]: assert y not in done; st = intersect_groups(st, self.st[y])` -/
def meetEq (tbl : CodeTable) (s : PT) : List Nat → Char → Except Err Char
  | [], c => .ok c
  | y :: r, c =>
    if s.done.has y then .error .assertion
    else match s.st.get y with
      | none => .error .keyError
      | some sy => match isect tbl c sy with
        | .error e => .error e
        | .ok c' => meetEq tbl s r c'

/-- `for y in self.wc[x]: assert y not in done; st = intersect_groups(st, complement[self.st[y]])` -/
def meetWc (tbl : CodeTable) (s : PT) : List Nat → Char → Except Err Char
  | [], c => .ok c
  | y :: r, c =>
    if s.done.has y then .error .assertion
    else match s.st.get y with
      | none => .error .keyError
      | some sy => match tbl.complOf sy with
        | none => .error .keyError
        | some cy => match isect tbl c cy with
          | .error e => .error e
          | .ok c' => meetWc tbl s r c'

def applyTo (s : PT) (c : Char) (l : List Nat) : PT :=
  l.foldl (fun s y => ⟨s.st.set y c, s.done.set y ()⟩) s

/-- body of the loop of `propagate_templates` for the snapshot item `(x, letter)` -/
def ptStep (tbl : CodeTable) (r : Closure.Res) (s : PT) (item : Nat × Char) : Except Err PT :=
  let (x, letter) := item
  if s.done.has x then .ok s
  else match r.get x with
    | none => .error .keyError
    | some (E, W) =>
      if W.contains x then .error .overconstrained
      else match meetEq tbl s E letter with
        | .error e => .error e
        | .ok c1 => match meetWc tbl s W c1 with
          | .error e => .error e
          | .ok c =>
            let s1 := applyTo s c E
            match W with
            | [] => .ok s1
            | _ :: _ => match tbl.complOf c with
              | none => .error .keyError
              | some cc => .ok (applyTo s1 cc W)

def ptLoop (tbl : CodeTable) (r : Closure.Res) : List (Nat × Char) → PT → Except Err PT
  | [], s => .ok s
  | it :: rest, s => match ptStep tbl r s it with
    | .error e => .error e
    | .ok s' => ptLoop tbl r rest s'

def sameKeys (a b : List Nat) : Bool := a.all b.contains && b.all a.contains

/-- `propagate_templates`; `items` is `list(self.st.items())` -/
def propagateTemplates (tbl : CodeTable) (keys : List Nat) (r : Closure.Res) (st : Tab Char) :
    Except Err (Tab Char) :=
  if !sameKeys keys (r.map (·.1)) then .error .assertion
  else
    let items := keys.filterMap (fun k => (st.get k).map (fun c => (k, c)))
    match ptLoop tbl r items ⟨st, Tab.empty⟩ with
    | .error e => .error e
    | .ok s => .ok s.st

/-- `min_([y for y in l if isvalid(y)])` -/
def minValid (P : Nat) (l : List Nat) : Option Nat :=
  l.foldl (fun m y => if y < P then (match m with | none => some y | some v => some (min v y)) else m) none

structure Reps where
  eqRep : Tab (Option Nat)
  wcRep : Tab (Option Nat)

def repGet (t : Tab (Option Nat)) (x : Nat) : Option Nat := (t.get x).getD none

/-- body of the loop of `get_reps` -/
def repStep (P : Nat) (s : Reps) (ent : Nat × List Nat × List Nat) : Reps :=
  let (x, E, W) := ent
  let s0 : Reps := ⟨s.eqRep.set x (minValid P E), s.wcRep.set x (minValid P W)⟩
  let s1 := E.foldl (fun (s : Reps) y =>
    let e1 := s.eqRep.set y (repGet s.eqRep x)
    ⟨e1, s.wcRep.set y (repGet s.wcRep x)⟩) s0
  W.foldl (fun (s : Reps) y =>
    let e1 := s.eqRep.set y (repGet s.wcRep x)
    ⟨e1, s.wcRep.set y (repGet e1 x)⟩) s1

def getReps (P : Nat) (r : Closure.Res) : Reps := r.foldl (repStep P) ⟨Tab.empty, Tab.empty⟩

abbrev Arrays := List (Option Nat) × List (Option Nat) × List (Option Char)

/-- `dump` -/
def dump (P : Nat) (r : Closure.Res) (reps : Reps) (st : Tab Char) : Except Err Arrays :=
  match (r.map (·.1)).filter (· < P) with
  | [] => .error .noPositions
  | k :: ks =>
    let n := ks.foldl max k + 1
    .ok ((List.range n).map (repGet reps.eqRep), (List.range n).map (repGet reps.wcRep),
         (List.range n).map st.get)

/-- everything after the seeding -/
def finish (tbl : CodeTable) (P : Nat) (c : Cons) : Except Err Arrays :=
  match Closure.propagate (adjOf c.keys c.eq) (adjOf c.keys c.wc) with
  | .error _ => .error .assertion
  | .ok r =>
    match propagateTemplates tbl c.keys r c.st with
    | .error e => .error e
    | .ok st => dump P r (getReps P r) st

/-- `Convert(file, struct_orient).get_constraints()` on the loaded specification -/
def getConstraintsT (tbl : CodeTable) (mode : Layout) (spec : Spec) : Except Err Arrays :=
  match seeds mode spec with
  | .error e => .error e
  | .ok s => match build s with
    | .error e => .error e
    | .ok c => finish tbl s.P c

def getConstraints (mode : Layout) (spec : Spec) : Except Err Arrays :=
  getConstraintsT Generated.pilTable mode spec

/-! ## `design()`: mapping and files -/

def eqMap : Option Nat → Int
  | some x => (x : Int) + 1
  | none => 0

def wcMap : Option Nat → Int
  | some x => (x : Int) + 1
  | none => -1

def stMap : Option Char → Char
  | some c => c
  | none => ' '

structure Files where
  st : String
  eq : String
  wc : String
deriving Repr, DecidableEq

def digitChar (d : Nat) : Char := Char.ofNat (48 + d)

/-- decimal digits of a natural number (`"%d"`) -/
def showNat (n : Nat) : List Char :=
  if h : n < 10 then [digitChar n] else showNat (n / 10) ++ [digitChar (n % 10)]
termination_by n
decreasing_by omega

/-- `"%d" % x` -/
def showInt : Int → List Char
  | .ofNat n => showNat n
  | .negSucc n => '-' :: showNat (n + 1)

/-- `print_list(xs, name, "%d ")` -/
def printInts (l : List Int) : String := String.ofList (l.flatMap (fun x => showInt x ++ [' ']))

/-- the three files `design()` writes -/
def ssmFiles (a : Arrays) : Files :=
  { eq := printInts (a.1.map eqMap)
    wc := printInts (a.2.1.map wcMap)
    st := String.ofList (a.2.2.map stMap) }

/-! ## `load_input_files` (template / wc / eq given, no start sequence) -/

def templateChars : List Char := "ATCGatcgRYWSMKBDHVNrywsmkbdhvn ".toList

def stripTrailing {α : Type} (p : α → Bool) (l : List α) : List α := (l.reverse.dropWhile p).reverse

/-- the template: characters outside the accepted set are skipped, trailing blanks stripped -/
def readTemplate (s : String) : List Char :=
  stripTrailing (· == ' ') (s.toList.filter templateChars.contains)

def isWs (c : Char) : Bool := c == ' ' || c == '\t' || c == '\n' || c == '\r' || c == '\x0b' || c == '\x0c'

def splitWs : List Char → List Char → List (List Char)
  | [], cur => if cur.isEmpty then [] else [cur.reverse]
  | c :: r, cur =>
    if isWs c then (if cur.isEmpty then splitWs r [] else cur.reverse :: splitWs r [])
    else splitWs r (c :: cur)

/-- one number as this model reads it: optional sign, decimal digits (the files `design()` writes
    contain nothing else; `%lf` accepts more) -/
def parseInt (tok : List Char) : Option Int :=
  let (neg, ds) := match tok with
    | '-' :: r => (true, r)
    | '+' :: r => (false, r)
    | r => (false, r)
  if ds.isEmpty || !ds.all Char.isDigit then none
  else
    let n : Nat := ds.foldl (fun a c => a * 10 + (c.toNat - 48)) 0
    some (if neg then -(n : Int) else (n : Int))

/-- `while (fscanf(f," %lf",&r)>0)`: numbers up to the first token that is not one -/
def readInts (s : String) : List Int :=
  let rec go : List (List Char) → List Int
    | [] => []
    | t :: r => match parseInt t with
      | some v => v :: go r
      | none => []
  go (splitWs s.toList [])

/-- `load_input_files` after the three files have been scanned; `none` = `exit(-1)` -/
def reconcile (st : List Char) (wc0 : List Int) (eqRead : List Int) : Option Ssm.Triple :=
  if wc0.any (fun v => v == 0 || v < -1) then none else
  let eq0 := stripTrailing (· == (0 : Int)) eqRead
  if eq0.any (· < 0) then none else
  let m := max eq0.length st.length
  -- wc longer than everything else: only trailing -1 may be dropped
  let extra := wc0.drop m
  if m > 0 && extra.any (· != -1) then none else
  let wc1 := if m > 0 then wc0.take m else wc0
  let n := max m wc1.length
  if n == 0 then none
  else if st.length != n || wc1.length != n || eq0.length != n then none
  else
    -- "corrections to defaults for ' ' separators" (the start sequence is drawn from the template:
    -- it is blank exactly where the template letter has no choice set)
    let blank := fun (i : Nat) => !(Ssm.isCode (st.getD i ' ')) || eq0.getD i 0 == 0
    some { st := (List.range n).map (fun i => if blank i then ' ' else st.getD i ' ')
           eq := (List.range n).map (fun i => if blank i then 0 else (eq0.getD i 0).toNat)
           wc := (List.range n).map (fun i => if blank i then -1 else wc1.getD i (-1)) }

/-- `load_input_files`; `none` = `exit(-1)` -/
def readTriple (f : Files) : Option Ssm.Triple :=
  reconcile (readTemplate f.st) (readInts f.wc) (readInts f.eq)

/-! ## the contract -/

/-- maximal runs of non-blank positions: (start, length) -/
def runsAux : List Char → Nat → Option (Nat × Nat) → List (Nat × Nat)
  | [], _, cur => match cur with | some r => [r] | none => []
  | c :: r, i, cur =>
    if c == ' ' then (match cur with | some x => x :: runsAux r (i + 1) none | none => runsAux r (i + 1) none)
    else match cur with
      | some (s, l) => runsAux r (i + 1) (some (s, l + 1))
      | none => runsAux r (i + 1) (some (i, 1))

def runs (st : List Char) : List (Nat × Nat) := runsAux st 0 none

/-- expected strands, grouped by complex: lengths (zero-length strands and empty complexes dropped) -/
abbrev Segs := List (List Nat)

def Segs.norm (s : Segs) : Segs := (s.map (fun c => c.filter (· != 0))).filter (fun c => !c.isEmpty)

/-- required blanks before each run: 0 for the first, 1 inside a complex, 2 at a complex boundary -/
def Segs.gaps (s : Segs) : List (Nat × Nat) :=
  match (s.norm.flatMap (fun c => match c with
    | [] => []
    | l :: r => (2, l) :: r.map (fun x => (1, x)))) with
  | [] => []
  | (_, l) :: r => (0, l) :: r

/-- "at least one blank between strands and two between complexes", against the expected strands -/
def sepsOk (st : List Char) (segs : Segs) : Bool :=
  let rs := runs st
  let gs := segs.gaps
  rs.length == gs.length &&
  (rs.zip gs).all (fun ((_, l), (_, l')) => l == l') &&
  (List.range rs.length).all (fun k =>
    match k with
    | 0 => true
    | k' + 1 =>
      let (s0, l0) := rs.getD k' (0, 0)
      let (s1, _) := rs.getD (k' + 1) (0, 0)
      let (g, _) := gs.getD (k' + 1) (0, 0)
      decide (s0 + l0 + g ≤ s1))

/-- the strands the layout puts on the line, by complex -/
def segsOf (mode : Layout) (spec : Spec) : Segs :=
  match mode with
  | .strand => spec.strands.map (fun o => [o.len])
  | .struct => spec.structs.map (fun so => (structStrands spec so).map (fun p => p.2.len))

/-- The documented input contract of spuriousSSM (C05): `Ssm.Contract` (equal lengths, 1-based, blanks
    exactly where `eq = 0` and there `wc = -1`, `eq` idempotent and lowest, `wc` a representative,
    constant on classes, pairing back, never the own class, equal positions same code, paired
    positions complementary codes) and the separator clause. -/
def SsmContract (t : Ssm.Triple) (segs : Segs) : Bool := Ssm.contractB t && sepsOk t.st segs

/-- the start sequence `main` builds: random bases from the template's choice sets (`pick i` is the
    draw at position `i`), then `constrain` -/
def startOf (t : Ssm.Triple) (pick : Nat → Nat) : Ssm.Seq :=
  (List.range t.N).map (fun i =>
    let ch := Ssm.choices (t.stAt i)
    ch.getD (pick i % ch.length) ' ')

end Pepper.ConstraintGen

/-! # Specification side

Everything below is written from the semantic definitions of DESIGN.md §4 over `Pil.denote spec`
(a `Design`: domains with templates, strands as lists of `Nuc`s, structures as dot-paren strings,
`equal` entries as lists of regions) and shares nothing with the graph construction above. -/
namespace Pepper.LinkSpec
open Pepper

inductive Base | A | C | G | T
deriving Repr, DecidableEq

def Base.compl : Base → Base
  | .A => .T | .T => .A | .C => .G | .G => .C

def Base.bit : Base → Nat
  | .A => 1 | .C => 2 | .G => 4 | .T => 8

def Base.toChar : Base → Char
  | .A => 'A' | .C => 'C' | .G => 'G' | .T => 'T'

def Base.all : List Base := [.A, .C, .G, .T]

/-- the base a nucleotide carries under an assignment of the domain positions -/
def val (a : Var → Base) (n : Nuc) : Base := if n.comp then (a n.var).compl else a n.var

/-- the code `c` allows the base `b` -/
def allows (tbl : CodeTable) (c : Char) (b : Base) : Prop := tbl.maskC c &&& b.bit ≠ 0

instance (tbl : CodeTable) (c : Char) (b : Base) : Decidable (allows tbl c b) := by
  unfold allows; infer_instance

/-- base pairs of a dot-paren string; positions do not count `+` -/
def pairsAux : List Char → Nat → List Nat → List (Nat × Nat)
  | [], _, _ => []
  | c :: r, p, stk =>
    if c == '+' then pairsAux r p stk
    else if c == '(' then pairsAux r (p + 1) (p :: stk)
    else if c == ')' then
      match stk with
      | o :: stk' => (o, p) :: pairsAux r (p + 1) stk'
      | [] => pairsAux r (p + 1) []
    else pairsAux r (p + 1) stk

def pairs (s : List Char) : List (Nat × Nat) := pairsAux s 0 []

def strandNucs (d : Design) (n : String) : List Nuc :=
  match d.strands.find? (·.1 == n) with
  | some (_, _, l) => l
  | none => []

/-- the nucleotides of a structure, strand after strand -/
def structNucs (d : Design) (s : StructD) : List Nuc := s.strands.flatMap (strandNucs d)

/-- an assignment satisfies a design -/
structure Sat (tbl : CodeTable) (d : Design) (a : Var → Base) : Prop where
  tmpl : ∀ p ∈ d.domains, ∀ (k : Nat) (c : Char), p.2[k]? = some c → allows tbl c (a ⟨p.1, k⟩)
  equal : ∀ e ∈ d.equals, ∀ r ∈ e, ∀ s ∈ e, ∀ (k : Nat) (m n : Nuc), r[k]? = some m → s[k]? = some n → val a m = val a n
  pair : ∀ s ∈ d.structs, ∀ ij ∈ pairs s.struct, ∀ (m n : Nuc),
    (structNucs d s)[ij.1]? = some m → (structNucs d s)[ij.2]? = some n → val a m = (val a n).compl

def Satisfiable (tbl : CodeTable) (d : Design) : Prop := ∃ a, Sat tbl d a

/-- a link of the design between two domain positions; `odd` = the two must be complementary -/
structure Link where
  a : Var
  b : Var
  odd : Bool
deriving Repr, DecidableEq

def regionLinks (r s : List Nuc) : List Link :=
  (r.zip s).map (fun (m, n) => ⟨m.var, n.var, m.comp != n.comp⟩)

def equalLinks (d : Design) : List Link :=
  d.equals.flatMap (fun e => e.flatMap (fun r => e.flatMap (fun s => regionLinks r s)))

def pairLinks (d : Design) : List Link :=
  d.structs.flatMap (fun s =>
    let ns := structNucs d s
    (pairs s.struct).filterMap (fun (i, j) =>
      match ns[i]?, ns[j]? with
      | some m, some n => some ⟨m.var, n.var, m.comp == n.comp⟩
      | _, _ => none))

def links (d : Design) : List Link := equalLinks d ++ pairLinks d

/-- parity reachability in the link graph: what "the specification forces equal (`false`) /
    complementary (`true`)" means -/
inductive ParityReach (d : Design) (v : Var) : Bool → Var → Prop
  | refl : ParityReach d v false v
  | fwd {w : Var} {p : Bool} (e : Link) : ParityReach d v p w → e ∈ links d → e.a = w →
      ParityReach d v (p != e.odd) e.b
  | bwd {w : Var} {p : Bool} (e : Link) : ParityReach d v p w → e ∈ links d → e.b = w →
      ParityReach d v (p != e.odd) e.a

/-- the two nucleotides are forced equal (`false`) / complementary (`true`) -/
def NucReach (d : Design) (m : Nuc) (p : Bool) (n : Nuc) : Prop :=
  ParityReach d m.var ((p != m.comp) != n.comp) n.var

/-! ### naive decision procedure and the arrays the property demands -/

def vars (d : Design) : List Var :=
  d.domains.flatMap (fun (n, t) => (List.range t.length).map (fun k => ⟨n, k⟩))

def templateOf (d : Design) (v : Var) : Option Char :=
  match d.domains.find? (·.1 == v.dom) with
  | some (_, t) => t[v.idx]?
  | none => none

def addNew (s : List (Var × Bool)) (q : Var × Bool) : List (Var × Bool) := if s.contains q then s else s ++ [q]

/-- one round of saturation over all links, both directions -/
def satStep (ls : List Link) (s : List (Var × Bool)) : List (Var × Bool) :=
  ls.foldl (fun acc e =>
    let acc := s.foldl (fun a q => if q.1 == e.a then addNew a (e.b, q.2 != e.odd) else a) acc
    s.foldl (fun a q => if q.1 == e.b then addNew a (e.a, q.2 != e.odd) else a) acc) s

def satIter (ls : List Link) : Nat → List (Var × Bool) → List (Var × Bool)
  | 0, s => s
  | n + 1, s =>
    let s' := satStep ls s
    if s'.length == s.length then s else satIter ls n s'

/-- all (position, parity) reachable from `v` -/
def classOf (d : Design) (v : Var) : List (Var × Bool) :=
  satIter (links d) (2 * (vars d).length + 2 * (links d).length + 2) [(v, false)]

/-- the set of bases allowed for `v` by every template in its class (complemented at odd parity) -/
def classMask (tbl : CodeTable) (d : Design) (cls : List (Var × Bool)) : Nat :=
  cls.foldl (fun m (w, p) =>
    match templateOf d w with
    | some c => m &&& (if p then complMask (tbl.maskC c) else tbl.maskC c)
    | none => m) 15

/-- naive decision procedure: no class is its own partner and every class has a common base -/
def satisfiableB (tbl : CodeTable) (d : Design) : Bool :=
  (vars d).all (fun v =>
    let cls := classOf d v
    !cls.contains (v, true) && classMask tbl d cls != 0)

/-- the line of nucleotides the layout describes: strand after strand with the blanks; the strand
    layout has every strand once, the structure layout every structure with its strands -/
def lineOf (struct : Bool) (d : Design) : List (Option Nuc) :=
  let raw :=
    if struct then
      d.structs.flatMap (fun s =>
        s.strands.flatMap (fun n => (strandNucs d n).map some ++ [none]) ++ [none])
    else
      d.strands.flatMap (fun (_, _, l) => l.map some ++ [none, none])
  (raw.reverse.dropWhile Option.isNone).reverse

def minOpt (l : List Nat) : Option Nat :=
  l.foldl (fun m y => match m with | none => some y | some v => some (min v y)) none

def codeOfMask (tbl : CodeTable) (m : Nat) : Option Char := tbl.revOf (canonStr m)

/-- the arrays the property demands, from the semantic graph and the line -/
def specArrays (tbl : CodeTable) (struct : Bool) (d : Design) :
    List (Option Nat) × List (Option Nat) × List (Option Char) :=
  let line := lineOf struct d
  let idx := List.range line.length
  let per := line.map (fun on => on.map (fun n => (n, classOf d n.var)))
  let reps := fun (want : Bool) (n : Nuc) (cls : List (Var × Bool)) =>
    minOpt (idx.filter (fun j => match line.getD j none with
      | some m => cls.contains (m.var, (want != n.comp) != m.comp)
      | none => false))
  (per.map (fun x => match x with | some (n, cls) => reps false n cls | none => none),
   per.map (fun x => match x with | some (n, cls) => reps true n cls | none => none),
   per.map (fun x => match x with
     | some (n, cls) =>
       let m := classMask tbl d cls
       codeOfMask tbl (if n.comp then complMask m else m)
     | none => none))

end Pepper.LinkSpec
