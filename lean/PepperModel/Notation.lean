/-!
# Secondary-structure notations
(mirrors `HU_grammar.py`, `exDotParen_grammar.py`, `DotParen_grammar.py`, `HU2dotParen.py`, the
notation dispatch at the end of `component_parser_regex.parse_structure_statement` and the
domain-level expansion in `component_class.Component.add_structure`)

pyparsing grammars become a tokenizer (white space = blank and tab, as `compiler` sets it) plus
recursive-descent parsers over tokens.  A pyparsing `ParseException`/`ParseSyntaxException`/`error()`
is `none` (the statement is rejected).
-/
namespace Pepper.Notation

inductive Tok
  | num (n : Nat)
  | ch (c : Char)
deriving Repr, DecidableEq, BEq

def isWs (c : Char) : Bool := c == ' ' || c == '\t'

/-- read a maximal run of digits as a number (`Word(nums)` + `int`) -/
def takeNum : List Char → Nat → Nat × List Char
  | c :: r, acc => if c.isDigit then takeNum r (acc * 10 + (c.toNat - 48)) else (acc, c :: r)
  | [], acc => (acc, [])

theorem takeNum_length_le (s : List Char) (acc : Nat) : (takeNum s acc).2.length ≤ s.length := by
  induction s generalizing acc with
  | nil => simp [takeNum]
  | cons c r ih =>
    unfold takeNum; split
    · exact Nat.le_trans (ih _) (Nat.le_succ _)
    · simp

def tokenize : List Char → List Tok
  | [] => []
  | c :: r =>
    if isWs c then tokenize r
    else if c.isDigit then
      have : (takeNum r (c.toNat - 48)).2.length < (c :: r).length := by
        have := takeNum_length_le r (c.toNat - 48); simp; omega
      Tok.num (takeNum r (c.toNat - 48)).1 :: tokenize (takeNum r (c.toNat - 48)).2
    else Tok.ch c :: tokenize r
termination_by s => s.length

/-! ### nucleotide-level structures -/

/-- a balanced multi-strand structure: unpaired base, strand break, or a base pair around a sub-structure -/
inductive T
  | dot
  | brk
  | pair (inner : List T)
deriving Repr

mutual
def T.flat : T → List Char
  | .dot => ['.']
  | .brk => ['+']
  | .pair inner => '(' :: (flatL inner ++ [')'])
def flatL : List T → List Char
  | [] => []
  | t :: ts => t.flat ++ flatL ts
end

/-- `DotParen_grammar.parse` (with `parseAll`): `some tree` iff the string is balanced.
    Stack-based: `stk` holds the partially built enclosing levels, innermost first. -/
def parseDPAux : List Char → List T → List (List T) → Option (List T)
  | [], cur, [] => some cur.reverse
  | [], _, _ :: _ => none                                  -- unclosed "("
  | '.' :: r, cur, stk => parseDPAux r (T.dot :: cur) stk
  | '+' :: r, cur, stk => parseDPAux r (T.brk :: cur) stk
  | '(' :: r, cur, stk => parseDPAux r [] (cur :: stk)
  | ')' :: r, cur, up :: stk => parseDPAux r (T.pair cur.reverse :: up) stk
  | ')' :: _, _, [] => none                                -- unmatched ")"
  | _ :: _, _, _ => none                                   -- foreign character

def parseDP (s : List Char) : Option (List T) := parseDPAux s [] []

/-- the depth-counter view of balance, used by specifications -/
def balancedAux : List Char → Nat → Bool
  | [], d => d == 0
  | '(' :: r, d => balancedAux r (d + 1)
  | ')' :: r, d => d != 0 && balancedAux r (d - 1)
  | c :: r, d => (c == '.' || c == '+') && balancedAux r d

def balanced (s : List Char) : Bool := balancedAux s 0

/-! ### extended (run-length) dot-paren -/

def isDPSym (c : Char) : Bool := c == '.' || c == '(' || c == ')' || c == '+'

/-- `exDotParen_grammar.parse`: `ZeroOrMore(Group(Optional(int, default=1) + symbol))`, `parseAll` -/
def parseExt : List Tok → Option (List (Nat × Char))
  | [] => some []
  | Tok.num n :: Tok.ch c :: r => if isDPSym c then (parseExt r).map ((n, c) :: ·) else none
  | Tok.ch c :: r => if isDPSym c then (parseExt r).map ((1, c) :: ·) else none
  | _ => none

def expandExt : List (Nat × Char) → List Char
  | [] => []
  | (n, c) :: r => List.replicate n c ++ expandExt r

/-- `extended2dotParen` -/
def extended2dotParen (s : List Char) : Option (List Char) :=
  match parseExt (tokenize s) with
  | none => none
  | some p =>
    let out := expandExt p
    if (parseDP out).isSome then some out else none

/-! ### HU notation -/

inductive HU
  | plus
  | U (n : Nat)
  | H (n : Nat) (inner : List HU)
deriving Repr

mutual
def HU.expand : HU → List Char
  | .plus => ['+']
  | .U n => List.replicate n '.'
  | .H n inner => List.replicate n '(' ++ expandL inner ++ List.replicate n ')'
def expandL : List HU → List Char
  | [] => []
  | h :: hs => h.expand ++ expandL hs
end

/-- `HU_grammar.parse` on tokens; `stk` holds (helix size, terms before it) of the open helices -/
def parseHUAux : List Tok → List HU → List (Nat × List HU) → Option (List HU)
  | [], cur, [] => some cur.reverse
  | [], _, _ :: _ => none
  | Tok.ch '+' :: r, cur, stk => parseHUAux r (HU.plus :: cur) stk
  | Tok.ch 'U' :: Tok.num n :: r, cur, stk => parseHUAux r (HU.U n :: cur) stk
  | Tok.ch 'H' :: Tok.num n :: Tok.ch '(' :: r, cur, stk => parseHUAux r [] ((n, cur) :: stk)
  | Tok.ch ')' :: r, cur, (n, up) :: stk => parseHUAux r (HU.H n cur.reverse :: up) stk
  | _, _, _ => none

def parseHU (ts : List Tok) : Option (List HU) := parseHUAux ts [] []

/-- `HU2dotParen` -/
def HU2dotParen (s : List Char) : Option (List Char) := (parseHU (tokenize s)).map expandL

/-! ### `dotParen2HU` -/

/-- `count_parens`: strip levels that contain exactly one pair and nothing else -/
def countParens : Nat → List T → Nat × List T
  | fuel + 1, [T.pair inner] => let r := countParens fuel inner; (r.1 + 1, r.2)
  | _, e => (0, e)

/-- split off a maximal run of leading dots -/
def spanDots : List T → Nat × List T
  | T.dot :: r => let p := spanDots r; (p.1 + 1, p.2)
  | l => (0, l)

/-- `resolve` at tree level: runs of dots become one `U`, chains of singly nested pairs one `H` -/
def toHU : Nat → List T → List HU
  | 0, _ => []
  | _, [] => []
  | fuel + 1, T.brk :: r => HU.plus :: toHU fuel r
  | fuel + 1, T.dot :: r => let p := spanDots r; HU.U (p.1 + 1) :: toHU fuel p.2
  | fuel + 1, T.pair inner :: r =>
    let p := countParens fuel inner
    HU.H (p.1 + 1) (toHU fuel p.2) :: toHU fuel r

mutual
def T.size : T → Nat
  | .dot => 1
  | .brk => 1
  | .pair inner => 1 + sizeL inner
def sizeL : List T → Nat
  | [] => 0
  | t :: ts => t.size + sizeL ts
end

/-- decimal digits of a number, as `"%d"` prints them -/
def natStr (n : Nat) : List Char :=
  if h : n < 10 then [Char.ofNat (48 + n)] else natStr (n / 10) ++ [Char.ofNat (48 + n % 10)]
termination_by n
decreasing_by omega

/-- Python `str.strip()` restricted to blanks and tabs -/
def stripWs (s : List Char) : List Char := ((s.reverse.dropWhile isWs).reverse).dropWhile isWs

mutual
/-- the text `dotParen2HU` prints: every term followed by a blank, helix bodies stripped -/
def HU.render : HU → List Char
  | .plus => ['+', ' ']
  | .U n => 'U' :: natStr n ++ [' ']
  | .H n inner => 'H' :: natStr n ++ ['('] ++ stripWs (renderL inner) ++ [')', ' ']
def renderL : List HU → List Char
  | [] => []
  | h :: hs => h.render ++ renderL hs
end

/-- `dotParen2HU` (text in, text out) -/
def dotParen2HU (s : List Char) : Option (List Char) :=
  (parseDP s).map (fun ts => stripWs (renderL (toHU (sizeL ts + 1) ts)))

/-! ### notation dispatch of `parse_structure_statement` -/

def okHUChars (s : List Char) : Bool := s.all (fun c => c == 'H' || c == 'U' || c == '(' || c == ')' || c == '+' || c.isDigit || isWs c)
def okDPChars (s : List Char) : Bool := s.all (fun c => c == '.' || c == '(' || c == ')' || c == '+' || c.isDigit || isWs c)

/-- token-level core of the two converters -/
def compileToks (hu : Bool) (ts : List Tok) : Option (List Char) :=
  if hu then (parseHU ts).map expandL
  else match parseExt ts with
    | none => none
    | some p => if (parseDP (expandExt p)).isSome then some (expandExt p) else none

/-- the secondary-structure text of a structure statement ↦ plain dot-paren, or rejection -/
def compileStruct (s : List Char) : Option (List Char) :=
  if s.contains 'U' || s.contains 'H' then
    if okHUChars s then compileToks true (tokenize s) else none
  else
    if okDPChars s then compileToks false (tokenize s) else none

/-- canonical text of a token stream: every token followed by one blank -/
def renderToks : List Tok → List Char
  | [] => []
  | Tok.num n :: r => natStr n ++ ' ' :: renderToks r
  | Tok.ch c :: r => c :: ' ' :: renderToks r

/-! ### domain-level structures (`Component.add_structure`) -/

def splitOn (c : Char) : List Char → List (List Char)
  | [] => [[]]
  | d :: r => match splitOn c r with
    | [] => [[]]     -- unreachable
    | h :: t => if d == c then [] :: h :: t else (d :: h) :: t

def joinPlus : List (List Char) → List Char
  | [] => []
  | [a] => a
  | a :: r => a ++ '+' :: joinPlus r

/-- expand one strand's domain-level string against its domain lengths -/
def expandStrand : List Char → List Nat → List Char
  | c :: cs, n :: ns => List.replicate n c ++ expandStrand cs ns
  | _, _ => []

/-- `add_structure` for `isdomain`: `struct` is the already compiled domain-level dot-paren,
    `doms` the domain lengths of each strand.  `recheck` says whether the balance of the expanded
    string is re-checked (the behaviour after the repair of defect F4). -/
def domainExpand (struct : List Char) (doms : List (List Nat)) : Option (List Char) :=
  let subs := splitOn '+' struct
  if subs.length != doms.length then none
  else if !(List.zip subs doms).all (fun (s, d) => s.length == d.length) then none
  else
    let full := joinPlus ((List.zip subs doms).map (fun (s, d) => expandStrand s d))
    if balanced full then some full else none

/-- `Structure.__init__`: one segment per strand, each of the strand's length -/
def sizesOk (struct : List Char) (lens : List Nat) : Bool :=
  let subs := splitOn '+' struct
  subs.length == lens.length && (List.zip subs lens).all (fun (s, n) => s.length == n)

end Pepper.Notation
