import PepperModel.Pil
/-!
# The designer front-end's PIL *text* reader
(mirrors `design/PIL_parser.py` completely: `load_spec`, `parse_seq`, `parse_sup_seq`, `parse_strand`, `parse_struct`,
`parse_equal`, and `utils.match`; the statements it produces are the calls `spec.add_seq / add_sup_seq / add_strand /
add_struct / add_equal` it makes on `PIL_class.Spec`, i.e. exactly the `Pil.Stmt` list `Pil.load` consumes)

**The reader is not a pyparsing grammar.**  `PIL_parser.py` is line oriented and uses `re`:

* `open(filename, "r")` — text mode, universal newlines: `\r\n` and a lone `\r` arrive as `\n` (`uniNl`);
  `for line in f` cuts after every `\n` only (`splitLines`; the flag says whether the line had its `\n` — the last
  line of a file may not);
* `re.sub(r"#.*\n", "", line)` — a comment is removed **only when the line is newline-terminated** (`.` does not match
  `\n` and the pattern insists on the `\n`): a `#` on an unterminated last line stays (`cleanLine`);
* `line.strip()`, `line.split()`, and `\s` in a `str` pattern all use `Py_UNICODE_ISSPACE`; on ASCII that is
  `\t \n \v \f \r \x1c \x1d \x1e \x1f` and the blank (`isWs`);  `\w` on ASCII is `[A-Za-z0-9_]`;
* `utils.match(regex, line)` = `re.match(regex.replace(" ", r"\s+") + r"\s*\Z", line)`.  The four statement regexes are
  matched here by deterministic scanners.  Why no backtracking is lost (the line is already stripped):
  - `\s+` followed by something that cannot start with white space, and `[\w-]+` followed by `\s+`, are maximal runs;
  - `([^:]*)(\s+:\s+.*)?\s*\Z` (super-sequence, strand): `[^:]*` stops at the FIRST colon; without a colon the
    optional group is skipped; with one, the group must match there, which needs white space on both sides of the
    colon, and the white space before it must be in addition to the one `=\s+` needs (`bodyColon`);
  - `([^:\s]*)(\s+:\s+.*)?\s*\Z` (sequence): the template is the maximal run of non-colon non-space characters; an empty
    template needs TWO white-space characters between `=` and `:` (`seqBody`);
  - `structure( \[([\w.]+)\])? ([\w-]+) = ([^:]*) : (.*)`: the colon is mandatory; the parameter alphabet `[\w.]` has no
    `-`, so `[no-opt]` is a syntax error; `strand_names.split("+")` + `strip()` keeps inner white space and empty names;
    the structure loses blanks and tabs only (not `\v \f \x1c…`) before the `.()+` alphabet check;
* `error()` is `sys.exit(1)`; a `kinetic` line is `pass` (it leaves no statement); `equal` takes all further tokens.

Loops become structural recursion; `error()` becomes `Except.error`.  Input is ASCII (the harness sends ASCII only).
-/
namespace Pepper.ParsePil
open Pepper

inductive Err
  | command | seqSyntax | template | supSyntax | strandSyntax | structSyntax | structChars
deriving Repr, DecidableEq, BEq

/-- `Py_UNICODE_ISSPACE` on ASCII -/
def isWs (c : Char) : Bool :=
  c == ' ' || c == '\t' || c == '\n' || c == '\x0b' || c == '\x0c' || c == '\r' ||
  c == '\x1c' || c == '\x1d' || c == '\x1e' || c == '\x1f'

/-- `[\w-]` on ASCII -/
def isNameChar (c : Char) : Bool := c.isAlphanum || c == '_' || c == '-'

/-- `[\w.+-]` on ASCII (the class was `[\w.]` before repair F18) -/
def isParamChar (c : Char) : Bool := c.isAlphanum || c == '_' || c == '.' || c == '+' || c == '-'

/-- universal newlines of text-mode `open` -/
def uniNl : List Char → List Char
  | [] => []
  | '\r' :: '\n' :: r => '\n' :: uniNl r
  | '\r' :: r => '\n' :: uniNl r
  | c :: r => c :: uniNl r

/-- `for line in f`: the lines without their `\n`, with "was newline-terminated" -/
def splitLines : List Char → List (List Char × Bool)
  | [] => []
  | c :: r =>
    if c == '\n' then ([], true) :: splitLines r
    else match splitLines r with
      | [] => [([c], false)]
      | (l, t) :: rest => (c :: l, t) :: rest

def rstrip (l : List Char) : List Char := (l.reverse.dropWhile isWs).reverse

/-- `str.strip()` -/
def strip (l : List Char) : List Char := rstrip (l.dropWhile isWs)

/-- `re.sub(r"#.*\n", "", line).strip()` -/
def cleanLine (l : List Char) (terminated : Bool) : List Char :=
  strip (if terminated then l.takeWhile (· != '#') else l)

/-- a non-space character in front of the words of `r`: it extends the first word iff `r` starts with a non-space -/
def consWord (c : Char) (r : List Char) (ws : List (List Char)) : List (List Char) :=
  match r, ws with
  | d :: _, w :: ws' => if isWs d then [c] :: w :: ws' else (c :: w) :: ws'
  | _, ws => [c] :: ws

/-- `str.split()` -/
def words : List Char → List (List Char)
  | [] => []
  | c :: r => if isWs c then words r else consWord c r (words r)

/-- `\s+`, maximal -/
def ws1 : List Char → Option (List Char)
  | [] => none
  | c :: r => if isWs c then some (r.dropWhile isWs) else none

/-- `\s+([\w-]+)\s+=` : the name and what follows the `=` -/
def nameEq (l : List Char) : Option (String × List Char) :=
  match ws1 l with
  | none => none
  | some l1 =>
    let nm := l1.takeWhile isNameChar
    if nm.isEmpty then none
    else match ws1 (l1.dropWhile isNameChar) with
      | some ('=' :: r) => some (String.ofList nm, r)
      | _ => none

/-- `\s+:\s+.*` -/
def colonTail (l : List Char) : Bool :=
  match ws1 l with
  | some (':' :: c :: _) => isWs c
  | _ => false

/-- after `=`:  `\s+([^:\s]*)(\s+:\s+.*)?\s*\Z` — the template -/
def seqBody (t : List Char) : Option (List Char) :=
  let w := t.takeWhile isWs
  let rest := t.dropWhile isWs
  if w.isEmpty then none
  else
    let tm := rest.takeWhile (fun c => c != ':' && !isWs c)
    let rest' := rest.dropWhile (fun c => c != ':' && !isWs c)
    if tm.isEmpty then
      -- the template is empty: `=\s+` must leave one white-space character to the group
      match rest with
      | [] => some []
      | ':' :: c :: _ => if 2 ≤ w.length && isWs c then some [] else none
      | _ => none
    else if rest'.all isWs || colonTail rest' then some tm
    else none

/-- after `=`:  `\s+([^:]*)(\s+:\s+.*)?\s*\Z` (`mandatory = false`) or `\s+([^:]*)\s+:\s+(.*)\s*\Z` (`true`):
    group `[^:]*` (white space at its ends is irrelevant to the callers) and the text after the colon's white space -/
def bodyColon (mandatory : Bool) (t : List Char) : Option (List Char × List Char) :=
  match t with
  | [] => none
  | c0 :: _ =>
    if !isWs c0 then none
    else
      let pre := t.takeWhile (· != ':')
      match t.dropWhile (· != ':') with
      | [] => if mandatory then none else some (pre, [])
      | _ :: after =>
        match pre.reverse, after with
        | p :: _ :: _, c :: _ => if isWs p && isWs c then some (pre, after.dropWhile isWs) else none
        | _, _ => none

/-- one `+`-separated field of the strand list, `strip()`ped -/
def splitOnPlus : List Char → List (List Char)
  | [] => [[]]
  | c :: r => match splitOnPlus r with
    | [] => [[]]
    | h :: t => if c == '+' then [] :: h :: t else (c :: h) :: t

def dropPrefix? : List Char → List Char → Option (List Char)
  | [], l => some l
  | _ :: _, [] => none
  | p :: ps, c :: r => if p == c then dropPrefix? ps r else none

def str (l : List Char) : String := String.ofList l

/-- `parse_seq` (with the template alphabet check against `group.keys()`) -/
def parseSeq (tbl : CodeTable) (rest : List Char) : Except Err Pil.Stmt :=
  match nameEq rest with
  | none => .error .seqSyntax
  | some (name, t) =>
    match seqBody t with
    | none => .error .seqSyntax
    | some tm => if tm.all tbl.isCode then .ok (.seq name tm) else .error .template

/-- `parse_sup_seq` -/
def parseSup (rest : List Char) : Except Err Pil.Stmt :=
  match nameEq rest with
  | none => .error .supSyntax
  | some (name, t) =>
    match bodyColon false t with
    | none => .error .supSyntax
    | some (items, _) => .ok (.sup name ((words items).map str))

/-- `(\[dummy\] )?` of `parse_strand`: after the maximal `\s+`, the literal `[dummy]` (a name cannot start with `[`);
    returns the flag and the text the name pattern ` ([\w-]+) =` is matched against -/
def dummyPrefix (rest : List Char) : Bool × List Char :=
  match ws1 rest with
  | some l1 => (match dropPrefix? "[dummy]".toList l1 with
    | some l2 => (true, l2)
    | none => (false, rest))
  | none => (false, rest)

/-- `parse_strand` -/
def parseStrand (rest : List Char) : Except Err Pil.Stmt :=
  let d := dummyPrefix rest
  match nameEq d.2 with
  | none => .error .strandSyntax
  | some (name, t) =>
    match bodyColon false t with
    | none => .error .strandSyntax
    | some (items, _) => .ok (.strand name d.1 ((words items).map str))

/-- `( \[([\w.]+)\])?` of `parse_struct`: the optional bracketed parameter and the text the name pattern is matched
    against; `none` when a `[` is not followed by `[\w.]+]` (then ` ([\w-]+)` cannot match the `[` either) -/
def structHdr (rest : List Char) : Option (Option String × List Char) :=
  match ws1 rest with
  | some ('[' :: l1) =>
    let p := l1.takeWhile isParamChar
    if p.isEmpty then none
    else (match l1.dropWhile isParamChar with
      | ']' :: l2 => some (some (str p), l2)
      | _ => none)
  | _ => some (none, rest)

/-- `parse_struct` -/
def parseStruct (rest : List Char) : Except Err Pil.Stmt :=
  match structHdr rest with
  | none => .error .structSyntax
  | some (params, rest') =>
    match nameEq rest' with
    | none => .error .structSyntax
    | some (name, t) =>
      match bodyColon true t with
      | none => .error .structSyntax
      | some (names, st) =>
        let strands := (splitOnPlus names).map (fun n => str (strip n))
        let st' := st.filter (fun c => c != ' ' && c != '\t')
        if st'.all (fun c => c == '.' || c == '(' || c == ')' || c == '+') then .ok (.struct name params strands st')
        else .error .structChars

/-- one stripped, non-empty line: the statement `load_spec` hands to `Spec`, `none` for a `kinetic` line -/
def parseLine (tbl : CodeTable) (line : List Char) : Except Err (Option Pil.Stmt) :=
  let cmd := match words line with | w :: _ => w | [] => []
  -- the line is stripped, so it starts with its first token
  let rest := line.drop cmd.length
  if cmd == "sequence".toList then (parseSeq tbl rest).map some
  else if cmd == "super-sequence".toList || cmd == "sup-sequence".toList then (parseSup rest).map some
  else if cmd == "strand".toList then (parseStrand rest).map some
  else if cmd == "structure".toList then (parseStruct rest).map some
  else if cmd == "equal".toList then .ok (some (.equal (((words line).drop 1).map str)))
  else if cmd == "kinetic".toList then .ok none
  else .error .command

/-- the loop of `load_spec` -/
def parseLines (tbl : CodeTable) : List (List Char × Bool) → Except Err (List Pil.Stmt)
  | [] => .ok []
  | (l, t) :: r =>
    let c := cleanLine l t
    if c.isEmpty then parseLines tbl r
    else match parseLine tbl c with
      | .error e => .error e
      | .ok none => parseLines tbl r
      | .ok (some s) => match parseLines tbl r with
        | .ok ss => .ok (s :: ss)
        | .error e => .error e

/-- `load_spec` on the contents of the file, up to the calls on `Spec` -/
def parsePil (tbl : CodeTable) (text : String) : Except Err (List Pil.Stmt) :=
  parseLines tbl (splitLines (uniNl text.toList))

end Pepper.ParsePil
