/-!
# Template parameter substitution
(mirrors `var_substitute.process_list` and the arity binding at the head of
`component_parser.load_component` / `system_parser.load_system`)

Strings are `List Char`.  How the Python was translated:

* `for line in lines:` with the accumulator `out` and the mutated dict `params` becomes the structural
  recursion `processList` over the list of lines with the environment threaded through; `out += lines`
  becomes `++` in front of the result for the remaining lines (string concatenation is associative).
* `re.sub(r"#.*", "", line)` is `stripComment`: from every `#` up to, not including, the next `\n`.
* `re.match(r"\s*length\s+(\w+)\s*=\s*(.*)", line)` is `matchLength`.  No two adjacent pieces of that regex
  can match the same character, so the greedy left-to-right reading is the only match the backtracking engine
  can find.  `\s` is Python's `str.isspace` (the complete Unicode list, `isSpace`); `\w` is modelled for ASCII
  (`[A-Za-z0-9_]`) — non-ASCII letters in a `length` name are outside the model.
* `re.sub(r"<([^<>]*?)>", eval_brackets, line)` is `substExprs`: a left-to-right scan that remembers the text
  since the last `<`; a `>` closes the candidate (the expression is evaluated and replaced by `str` of its
  value, the replacement is not re-scanned), another `<` abandons it and starts a new candidate.
* Python's `eval` is the PARAMETER `evalExpr`, `str` the parameter `str`; an exception raised by `eval`
  is `Except.error` and aborts the whole call, as in Python.  `evalInt` is a concrete evaluator for the
  integer fragment (literals, bound names, `+ - * // %`, unary `+ -`, parentheses, blanks) used by the driver.
* `duplicate` is a recursion on a fuel argument initialised with the number of `{` in the line; every recursive
  call is on a string with one `{` less (`PepperProofs/Subst.lean`, `duplicate_unfold`), so the fuel never
  runs out and `duplicate` satisfies the Python's recursion equation.  `re.search(r"{([^{}]*?)}", line)`
  is `findGroup` (try every start position from the left), `str.split(",")` is `splitOn ','`.
* `if not line.endswith("\n"): line += "\n"` is `terminate`; `if lines.strip():` is `¬ isBlank`.

`handExpand` is the specification: the file one would write by hand.  It differs from `processList` only in
the treatment of brace groups, where it uses the decomposition `segs` of the line into literal text and groups
and the lexicographic product `choices` instead of the recursion of `duplicate`.
-/
namespace Pepper.Subst

abbrev Str := List Char

deriving instance DecidableEq for Except

/-! ### environments (`params`, a Python dict) -/

/-- association list, most recent binding first (a later `params[name] = val` shadows an earlier one) -/
abbrev Env (Val : Type) := List (Str × Val)

def Env.get {Val : Type} : Env Val → Str → Option Val
  | [], _ => none
  | (k, v) :: r, x => if k = x then some v else Env.get r x

def Env.set {Val : Type} (env : Env Val) (x : Str) (v : Val) : Env Val := (x, v) :: env

inductive Err
  | syntax       -- `SyntaxError` from `eval`
  | name         -- unbound name (`NameError`; `TypeError` when `__builtins__` is `None`)
  | zerodiv      -- `ZeroDivisionError`
  | unsupported  -- valid or invalid Python outside the integer fragment of `evalInt`
  | fuel         -- parser fuel exhausted: not expected (3·tokens+4 bounds every call path); would show as a correspondence break
  | arity        -- number of arguments differs from the number of declared parameters
deriving Repr, DecidableEq

/-- `params = {}; if len(param_names) != len(args): error(...); for name, val in zip(param_names, args): params[name] = val` -/
def bindArgs {Val : Type} (ps : List Str) (as : List Val) : Except Err (Env Val) :=
  if ps.length ≠ as.length then .error .arity
  else .ok ((ps.zip as).foldl (fun env pa => env.set pa.1 pa.2) [])

/-! ### character classes -/

/-- Python `str.isspace` = `\s` of `re` on `str` patterns (complete list, checked against CPython 3.12) -/
def isSpace (c : Char) : Bool :=
  let n := c.toNat
  (9 ≤ n && n ≤ 13) || (28 ≤ n && n ≤ 32) || n == 0x85 || n == 0xa0 || n == 0x1680 ||
  (0x2000 ≤ n && n ≤ 0x200a) || n == 0x2028 || n == 0x2029 || n == 0x202f || n == 0x205f || n == 0x3000

def isDigit (c : Char) : Bool := '0' ≤ c && c ≤ '9'
def isAlpha (c : Char) : Bool := ('a' ≤ c && c ≤ 'z') || ('A' ≤ c && c ≤ 'Z')
/-- `\w` restricted to ASCII -/
def isWord (c : Char) : Bool := isAlpha c || isDigit c || c == '_'

/-! ### comments, `length` lines -/

/-- `re.sub(r"#.*", "", line)`; the flag says whether we are inside a comment -/
def stripC : Bool → Str → Str
  | _, [] => []
  | false, c :: r => if c = '#' then stripC true r else c :: stripC false r
  | true, c :: r => if c = '\n' then c :: stripC false r else stripC true r

def stripComment (l : Str) : Str := stripC false l

def dropPrefix : Str → Str → Option Str
  | [], l => some l
  | _ :: _, [] => none
  | p :: ps, c :: r => if p = c then dropPrefix ps r else none

/-- `re.match(r"\s*length\s+(\w+)\s*=\s*(.*)", line)`: the name and the source text of the value -/
def matchLength (l : Str) : Option (Str × Str) :=
  match dropPrefix ['l', 'e', 'n', 'g', 't', 'h'] (l.dropWhile isSpace) with
  | none => none
  | some l2 =>
    match l2 with
    | [] => none
    | c :: _ =>
      if !isSpace c then none else
      let l3 := l2.dropWhile isSpace
      let name := l3.takeWhile isWord
      if name = [] then none else
      match (l3.dropWhile isWord).dropWhile isSpace with
      | '=' :: l4 => some (name, (l4.dropWhile isSpace).takeWhile (· ≠ '\n'))
      | _ => none

/-! ### `<expression>` -/

/-- `re.sub(r"<([^<>]*?)>", eval_brackets, line)`.  `pend = some acc`: a `<` has been seen and `acc` is the
    text after it, reversed. -/
def substAux {E : Type} (ev : Str → Except E Str) : Str → Option Str → Except E Str
  | [], none => .ok []
  | [], some acc => .ok ('<' :: acc.reverse)
  | c :: r, none =>
    if c = '<' then substAux ev r (some []) else (substAux ev r none).map (c :: ·)
  | c :: r, some acc =>
    if c = '>' then
      match ev acc.reverse with
      | .error e => .error e
      | .ok v => (substAux ev r none).map (v ++ ·)
    else if c = '<' then (substAux ev r (some [])).map (('<' :: acc.reverse) ++ ·)
    else substAux ev r (some (c :: acc))

def substExprs {E : Type} (ev : Str → Except E Str) (l : Str) : Except E Str := substAux ev l none

/-! ### `{a,b,...}` -/

def notBrace (c : Char) : Bool := c != '{' && c != '}'

/-- `re.search(r"{([^{}]*?)}", line)`: `(line[:m.start()], m.group(1), line[m.end():])` -/
def findGroup : Str → Option (Str × Str × Str)
  | [] => none
  | c :: r =>
    if c = '{' then
      match r.dropWhile notBrace with
      | '}' :: e => some ([], r.takeWhile notBrace, e)
      | _ => (findGroup r).map (fun x => (c :: x.1, x.2.1, x.2.2))
    else (findGroup r).map (fun x => (c :: x.1, x.2.1, x.2.2))

/-- `s.split(sep)` for a one-character separator -/
def splitOn (sep : Char) : Str → List Str
  | [] => [[]]
  | c :: r =>
    if c = sep then [] :: splitOn sep r
    else match splitOn sep r with
      | a :: as => (c :: a) :: as
      | [] => [[c]]

def countOpen (l : Str) : Nat := l.count '{'

/-- `duplicate(line)` with explicit fuel -/
def duplicateFuel : Nat → Str → Str
  | 0, l => l
  | n + 1, l =>
    match findGroup l with
    | none => l
    | some (start, inner, stop) =>
      ((splitOn ',' inner).map (fun op => duplicateFuel n (start ++ op ++ stop))).flatten

def duplicate (l : Str) : Str := duplicateFuel (countOpen l) l

/-- `if not line.endswith("\n"): line += "\n"` -/
def terminate (l : Str) : Str := if l.getLast? = some '\n' then l else l ++ ['\n']

/-- `not lines.strip()` -/
def isBlank (l : Str) : Bool := l.all isSpace

def keepNonBlank (l : Str) : Str := if isBlank l then [] else l

/-! ### the function -/

section
variable {E Val : Type} (evalExpr : Env Val → Str → Except E Val) (str : Val → Str)

/-- `process_list(lines, params)` -/
def processList : List Str → Env Val → Except E Str
  | [], _ => .ok []
  | line :: rest, env =>
    let l1 := stripComment line
    match matchLength l1 with
    | some (name, src) =>
      match evalExpr env src with
      | .error e => .error e
      | .ok v => processList rest (env.set name v)
    | none =>
      match substExprs (fun e => (evalExpr env e).map str) l1 with
      | .error e => .error e
      | .ok l2 => (processList rest env).map (keepNonBlank (duplicate (terminate l2)) ++ ·)

/-- The texts handed to `duplicate`, in order, up to the first evaluation error: each source line that is
    not a `length` line, after comment stripping, expression substitution and newline termination. -/
def substituted : List Str → Env Val → List Str
  | [], _ => []
  | line :: rest, env =>
    let l1 := stripComment line
    match matchLength l1 with
    | some (name, src) =>
      match evalExpr env src with
      | .error _ => []
      | .ok v => substituted rest (env.set name v)
    | none =>
      match substExprs (fun e => (evalExpr env e).map str) l1 with
      | .error _ => []
      | .ok l2 => terminate l2 :: substituted rest env
end

/-! ### the specification: the hand-expanded file -/

/-- a piece of a line: literal text, or a brace group with its alternatives -/
inductive Seg
  | text (s : Str)
  | group (alts : List Str)
deriving Repr, DecidableEq

/-- `sep.join(l)` -/
def joinWith (sep : Char) : List Str → Str
  | [] => []
  | [a] => a
  | a :: b :: r => a ++ sep :: joinWith sep (b :: r)

/-- how a piece is written in the template -/
def Seg.render : Seg → Str
  | .text s => s
  | .group alts => '{' :: (joinWith ',' alts ++ ['}'])

def render : List Seg → Str
  | [] => []
  | s :: r => s.render ++ render r

/-- All instances of a line, one per element of the cartesian product of the alternatives of its groups,
    in lexicographic order with the leftmost group varying slowest. -/
def choices : List Seg → List Str
  | [] => [[]]
  | .text s :: r => (choices r).map (s ++ ·)
  | .group alts :: r => alts.flatMap (fun a => (choices r).map (a ++ ·))

/-- the number of instances of a line: the product of the numbers of alternatives of its groups -/
def total : List Seg → Nat
  | [] => 1
  | .text _ :: r => total r
  | .group alts :: r => alts.length * total r

/-- the instance number `j` of a line: the leftmost group takes its alternative number `j / (product of the
    sizes of the groups to its right)`, the rest of the line is instance number `j % (that product)` -/
def pickAt : List Seg → Nat → Str
  | [], _ => []
  | .text s :: r, j => s ++ pickAt r j
  | .group alts :: r, j => (alts[j / total r]?).getD [] ++ pickAt r (j % total r)

/-- the number of groups -/
def groups : List Seg → Nat
  | [] => 0
  | .text _ :: r => groups r
  | .group _ :: r => groups r + 1

/-- Well-formed pieces: no brace inside literal text or alternatives, no comma inside an alternative,
    at least one alternative per group. -/
def Seg.wf : Seg → Bool
  | .text s => s.all notBrace
  | .group alts => !alts.isEmpty && alts.all (fun a => a.all (fun c => notBrace c && c != ','))

def wfSegs (S : List Seg) : Bool := S.all Seg.wf

/-- The braces of the line, read left to right, are `{ } { } … { }`: groups are not nested and there is no
    stray `{` or `}`.  The flag says whether we are inside a group. -/
def flatB : Bool → Str → Bool
  | inside, [] => !inside
  | false, c :: r => if c = '{' then flatB true r else if c = '}' then false else flatB false r
  | true, c :: r => if c = '}' then flatB false r else if c = '{' then false else flatB true r

def FlatBraces (l : Str) : Prop := flatB false l = true

instance (l : Str) : Decidable (FlatBraces l) := inferInstanceAs (Decidable (_ = true))

def pushChar (c : Char) : List Seg → List Seg
  | .text s :: r => .text (c :: s) :: r
  | r => .text [c] :: r

def pushAltChar (c : Char) : List Seg → List Seg
  | .group (a :: as) :: r => .group ((c :: a) :: as) :: r
  | r => r

def newAlt : List Seg → List Seg
  | .group as :: r => .group ([] :: as) :: r
  | r => r

/-- Decomposition of a line into literal text and brace groups (the flag says whether we are inside a group;
    then the result starts with that group).  For lines with flat braces `render (segs false l) = l` and the
    pieces are well formed (`PepperProofs/Subst.lean`). -/
def segs : Bool → Str → List Seg
  | false, [] => []
  | true, [] => [.group [[]]]
  | false, c :: r => if c = '{' then segs true r else pushChar c (segs false r)
  | true, c :: r =>
    if c = '}' then .group [[]] :: segs false r
    else if c = ',' then newAlt (segs true r)
    else pushAltChar c (segs true r)

/-- the lines replacing one (newline-terminated) template line in the hand-expanded file, concatenated -/
def expandLine (l : Str) : Str := (choices (segs false l)).flatten

section
variable {E Val : Type} (evalExpr : Env Val → Str → Except E Val) (str : Val → Str)

/-- The hand-expanded file: per line, strip the comment; a `length` line updates the environment and
    vanishes; replace every `<e>` by its value; write one newline-terminated line per combination of
    alternatives (leftmost group slowest); omit the result if it is all white space. -/
def handExpand : List Str → Env Val → Except E Str
  | [], _ => .ok []
  | line :: rest, env =>
    let l1 := stripComment line
    match matchLength l1 with
    | some (name, src) =>
      match evalExpr env src with
      | .error e => .error e
      | .ok v => handExpand rest (env.set name v)
    | none =>
      match substExprs (fun e => (evalExpr env e).map str) l1 with
      | .error e => .error e
      | .ok l2 => (handExpand rest env).map (keepNonBlank (expandLine (terminate l2)) ++ ·)
end

/-! ### a concrete evaluator for the integer fragment -/

inductive Tok
  | num (n : Nat) | id (s : Str) | plus | minus | star | fdiv | pct | lp | rp
deriving Repr, DecidableEq

def digitsVal (ds : Str) : Nat := ds.foldl (fun acc c => acc * 10 + (c.toNat - 48)) 0

/-- Python keywords and `__builtins__`: spellings that are not plain variable references -/
def reserved : List Str := [
  "False", "None", "True", "and", "as", "assert", "async", "await", "break", "class", "continue", "def", "del",
  "elif", "else", "except", "finally", "for", "from", "global", "if", "import", "in", "is", "lambda", "nonlocal",
  "not", "or", "pass", "raise", "return", "try", "while", "with", "yield", "__builtins__", "__debug__"].map String.toList

/-- tokens of the fragment; anything else is `unsupported` -/
def tokenize : Nat → Str → Except Err (List Tok)
  | 0, _ => .error .fuel
  | _ + 1, [] => .ok []
  | f + 1, c :: r =>
    if c = ' ' ∨ c = '\t' then tokenize f r
    else if isDigit c then
      let ds := c :: r.takeWhile isDigit
      let rest := r.dropWhile isDigit
      let glued := match rest with
        | d :: _ => isWord d || d == '.'
        | [] => false
      if glued || (c == '0' && ds.any (· != '0')) then .error .unsupported
      else (tokenize f rest).map (Tok.num (digitsVal ds) :: ·)
    else if isAlpha c || c == '_' then
      let w := c :: r.takeWhile isWord
      if reserved.contains w then .error .unsupported
      else (tokenize f (r.dropWhile isWord)).map (Tok.id w :: ·)
    else if c = '+' then (tokenize f r).map (Tok.plus :: ·)
    else if c = '-' then (tokenize f r).map (Tok.minus :: ·)
    else if c = '%' then (tokenize f r).map (Tok.pct :: ·)
    else if c = '(' then (tokenize f r).map (Tok.lp :: ·)
    else if c = ')' then (tokenize f r).map (Tok.rp :: ·)
    else if c = '*' then
      match r with
      | '*' :: _ => .error .unsupported
      | _ => (tokenize f r).map (Tok.star :: ·)
    else if c = '/' then
      match r with
      | '/' :: r' => (tokenize f r').map (Tok.fdiv :: ·)
      | _ => .error .unsupported
    else .error .unsupported

inductive Op | add | sub | mul | fdiv | mod
deriving Repr, DecidableEq

inductive Ast
  | num (n : Nat)
  | var (x : Str)
  | neg (a : Ast)
  | pos (a : Ast)
  | bin (op : Op) (a b : Ast)
deriving Repr

mutual
/-- `expr := term (('+' | '-') term)*` -/
def parseExpr : Nat → List Tok → Except Err (Ast × List Tok)
  | 0, _ => .error .fuel
  | f + 1, ts =>
    match parseTerm f ts with
    | .error e => .error e
    | .ok (a, r) => exprLoop f a r
def exprLoop : Nat → Ast → List Tok → Except Err (Ast × List Tok)
  | 0, _, _ => .error .fuel
  | f + 1, a, .plus :: r =>
    match parseTerm f r with
    | .error e => .error e
    | .ok (b, r') => exprLoop f (.bin .add a b) r'
  | f + 1, a, .minus :: r =>
    match parseTerm f r with
    | .error e => .error e
    | .ok (b, r') => exprLoop f (.bin .sub a b) r'
  | _ + 1, a, ts => .ok (a, ts)
/-- `term := factor (('*' | '//' | '%') factor)*` -/
def parseTerm : Nat → List Tok → Except Err (Ast × List Tok)
  | 0, _ => .error .fuel
  | f + 1, ts =>
    match parseFactor f ts with
    | .error e => .error e
    | .ok (a, r) => termLoop f a r
def termLoop : Nat → Ast → List Tok → Except Err (Ast × List Tok)
  | 0, _, _ => .error .fuel
  | f + 1, a, .star :: r =>
    match parseFactor f r with
    | .error e => .error e
    | .ok (b, r') => termLoop f (.bin .mul a b) r'
  | f + 1, a, .fdiv :: r =>
    match parseFactor f r with
    | .error e => .error e
    | .ok (b, r') => termLoop f (.bin .fdiv a b) r'
  | f + 1, a, .pct :: r =>
    match parseFactor f r with
    | .error e => .error e
    | .ok (b, r') => termLoop f (.bin .mod a b) r'
  | _ + 1, a, ts => .ok (a, ts)
/-- `factor := ('-' | '+') factor | NUMBER | NAME | '(' expr ')'` -/
def parseFactor : Nat → List Tok → Except Err (Ast × List Tok)
  | 0, _ => .error .fuel
  | f + 1, .minus :: r =>
    match parseFactor f r with
    | .error e => .error e
    | .ok (a, r') => .ok (.neg a, r')
  | f + 1, .plus :: r =>
    match parseFactor f r with
    | .error e => .error e
    | .ok (a, r') => .ok (.pos a, r')
  | _ + 1, .num _ :: .lp :: _ => .error .unsupported      -- call syntax `2 (…)`: valid Python, outside the fragment
  | _ + 1, .id _ :: .lp :: _ => .error .unsupported
  | _ + 1, .num n :: r => .ok (.num n, r)
  | _ + 1, .id x :: r => .ok (.var x, r)
  | f + 1, .lp :: r =>
    match parseExpr f r with
    | .error e => .error e
    | .ok (_, .rp :: .lp :: _) => .error .unsupported
    | .ok (a, .rp :: r') => .ok (a, r')
    | .ok _ => .error .syntax
  | _ + 1, _ => .error .syntax
end

/-- evaluation in Python's order (left operand, right operand, operation); `//` and `%` round to minus
    infinity -/
def evalAst (env : Env Int) : Ast → Except Err Int
  | .num n => .ok n
  | .var x => match env.get x with
    | some v => .ok v
    | none => .error .name
  | .neg a => (evalAst env a).map (fun x => -x)
  | .pos a => evalAst env a
  | .bin op a b =>
    match evalAst env a with
    | .error e => .error e
    | .ok x =>
      match evalAst env b with
      | .error e => .error e
      | .ok y =>
        match op with
        | .add => .ok (x + y)
        | .sub => .ok (x - y)
        | .mul => .ok (x * y)
        | .fdiv => if y = 0 then .error .zerodiv else .ok (Int.fdiv x y)
        | .mod => if y = 0 then .error .zerodiv else .ok (Int.fmod x y)

/-- `eval(src, params)` for the integer fragment (compile first: a syntax error wins over any run-time error) -/
def evalInt (env : Env Int) (src : Str) : Except Err Int :=
  match tokenize (src.length + 1) src with
  | .error e => .error e
  | .ok ts =>
    match parseExpr (3 * ts.length + 4) ts with
    | .error e => .error e
    | .ok (a, []) => evalAst env a
    | .ok (_, _ :: _) => .error .syntax

/-- Python `str(i)` for an `int` -/
def pyStrInt (i : Int) : Str :=
  if i < 0 then '-' :: Nat.toDigits 10 i.natAbs else Nat.toDigits 10 i.toNat

/-- the template instantiated with an argument tuple, for the integer fragment -/
def instantiate (ps : List Str) (as : List Int) (lines : List Str) : Except Err Str :=
  match bindArgs ps as with
  | .error e => .error e
  | .ok env => processList evalInt pyStrInt lines env

end Pepper.Subst
