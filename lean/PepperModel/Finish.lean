import PepperModel.Sys
/-!
# Design files and finishing
(mirrors `nupack_out_grammar.py` + `kinetics.read_design` — the `.mfe` reader —, `finish.apply_design` and
the two writers in `finish.finish`; the `.mfe` *writer* is `Convert.output` of the designer front-end)

A design file is a list of records `(name, sequence, target structure, mfe structure)` followed by a
`Total n(s*) = x` trailer; the reader keeps `name ↦ sequence` (a later record overrides an earlier one, as
the Python dict does).  `apply` walks the saved system exactly like `apply_design`: atomic sequences are
looked up by their full name (and checked against the record of the starred name), composites are
concatenations of what was just assigned, every structure is compared with its own record.
-/
namespace Pepper.Finish
open Pepper.Comp Pepper.Sys

/-! ### the `.mfe` text format -/

structure Rec where
  name : List Char
  seq : List Char
  fields : List (List Char)     -- the three numeric fields, uninterpreted
  target : List Char
  mfe : List Char
deriving Repr, DecidableEq, BEq

def isVarChar (c : Char) : Bool := c.isAlphanum || c == '_' || c == '-' || c == '*'
def isStructChar (c : Char) : Bool := c == '.' || c == '(' || c == ')' || c == '+'
def isNumChar (c : Char) : Bool := c.isDigit || c == '-' || c == '.'

def splitLines : List Char → List (List Char)
  | [] => [[]]
  | c :: r => match splitLines r with
    | [] => [[]]
    | h :: t => if c == '\n' then [] :: h :: t else (c :: h) :: t

def isWs (c : Char) : Bool := c == ' ' || c == '\t'

/-- a line as a sequence of pyparsing `Word`s: optional blanks, then a maximal non-empty run of each class in turn -/
def scanWords : List (Char → Bool) → List Char → Option (List (List Char))
  | [], l => if l.all isWs then some [] else none
  | p :: ps, l =>
    let l' := l.dropWhile isWs
    let w := l'.takeWhile p
    if w.isEmpty then none else (scanWords ps (l'.drop w.length)).map (w :: ·)

/-- what Python's `float()` accepts among words over digits, `-` and `.` -/
def validFloat (w : List Char) : Bool :=
  let body := match w with | '-' :: r => r | r => r
  let ip := body.takeWhile Char.isDigit
  let rest := body.dropWhile Char.isDigit
  match rest with
  | [] => !ip.isEmpty
  | '.' :: f => f.all Char.isDigit && !(ip.isEmpty && f.isEmpty)
  | _ => false

/-- header line `<int>:<name>` -/
def parseHeader (l : List Char) : Option (List Char) :=
  match scanWords [Char.isDigit, (· == ':'), isVarChar] l with
  | some [_, [_], nm] => some nm
  | _ => none

def trailerPrefix : List Char := "Total n(s*) =".toList

/-- `nupack_out_grammar.document` on the lines of a design file: the records, or `none` (a parse error or a
    numeric field that `float()` rejects).  `alpha` is the set of characters the reader accepts in a
    sequence (generated from the live grammar). -/
def parseRecords (alpha : List Char) : Nat → List (List Char) → Option (List Rec)
  | 0, _ => none
  | fuel + 1, lines =>
    match lines with
    | [] => none
    | l :: rest =>
      let l0 := l.dropWhile isWs
      if l0.take trailerPrefix.length == trailerPrefix then
        match scanWords [isNumChar] (l0.drop trailerPrefix.length) with
        | some [x] => if validFloat x && rest.all (fun r => r.all isWs) then some [] else none
        | _ => none
      else
        match parseHeader l, rest with
        | some nm, l2 :: l3 :: l4 :: rest' =>
          match scanWords [(alpha.contains ·), isNumChar, isNumChar, Char.isDigit] l2,
                scanWords [isStructChar] l3, scanWords [isStructChar] l4 with
          | some [sq, f1, f2, f3], some [tg], some [mf] =>
            if validFloat f1 && validFloat f2 then
              (parseRecords alpha fuel rest').map (⟨nm, sq, [f1, f2, f3], tg, mf⟩ :: ·)
            else none
          | _, _, _ => none
        | _, _ => none

def readDesign (alpha : List Char) (text : List Char) : Option (List (List Char × List Char)) :=
  let ls := splitLines text
  (parseRecords alpha (ls.length + 1) ls).map (fun rs => rs.map (fun r => (r.name, r.seq)))

/-- dict semantics: the last record of a name wins -/
def lookupLast (d : List (List Char × List Char)) (n : List Char) : Option (List Char) :=
  (d.reverse.find? (·.1 == n)).map (·.2)

/-! ### `apply_design` -/

inductive Err
  | missing        -- KeyError: no record of that name
  | length         -- designed sequence has the wrong length
  | letter         -- a letter without complement
  | complement     -- the starred record is not the reverse complement
  | structure      -- a structure's record differs from the concatenation of its strands
deriving Repr, DecidableEq, BEq

structure Out where
  seqs : List (String × List Char) := []       -- every sequence (atomic and super), in `system.seqs` order
  strands : List (String × Bool × List Char) := []
  structs : List (String × List Char) := []
deriving Repr, DecidableEq, BEq

/-- components of an instance tree with their order (`System.components` recursion) -/
def compsOf : Nat → Inst → List Comp.St
  | 0, _ => []
  | _ + 1, .comp s => [s]
  | fuel + 1, .sys st => st.components.flatMap (fun (_, i) => compsOf fuel i)

def seqOfBase (assign : List (String × List Char)) (t : CodeTable) (pfx : String) (b : BaseRef) : Option (List Char) :=
  match assign.lookup (pfx ++ b.name) with
  | none => none
  | some s => if b.rev then t.wcStr s else some s

def concatBases (assign : List (String × List Char)) (t : CodeTable) (pfx : String) : List BaseRef → Option (List Char)
  | [] => some []
  | b :: r => match seqOfBase assign t pfx b, concatBases assign t pfx r with
    | some x, some y => some (x ++ y)
    | _, _ => none

def joinPlus : List (List Char) → List Char
  | [] => []
  | [a] => a
  | a :: r => a ++ '+' :: joinPlus r

/-- assign the atomic sequences of one component -/
def assignBases (t : CodeTable) (d : List (List Char × List Char)) (s : Comp.St) :
    List SeqE → Except Err (List (String × List Char))
  | [] => .ok []
  | e :: r =>
    if e.len == 0 then (assignBases t d s r).map ((s.pfx ++ e.name, []) :: ·)
    else
      let full := s.pfx ++ e.name
      match lookupLast d full.toList with
      | none => .error .missing
      | some sq =>
        if sq.length != e.len then .error .length
        else match t.wcStr sq with
          | none => .error .letter
          | some w =>
            match lookupLast d (full ++ "*").toList with
            | none => .error .missing
            | some ws => if ws != w then .error .complement
                         else (assignBases t d s r).map ((full, sq) :: ·)

def applyComp (t : CodeTable) (d : List (List Char × List Char)) (s : Comp.St) : Except Err Out := do
  let assign ← assignBases t d s s.baseSeqs
  let seqOf := fun (bs : List BaseRef) => match concatBases assign t s.pfx bs with
    | some x => Except.ok x | none => Except.error Err.letter
  let seqs ← s.seqs.mapM (fun (e : SeqE) => do
    let x ← seqOf e.bases
    pure (s.pfx ++ e.name, x))
  let strands ← s.strands.mapM (fun (e : StrandE) => do
    let x ← seqOf e.bases
    pure (s.pfx ++ e.name, e.dummy, x))
  let structs ← s.structs.mapM (fun (e : StructE) => do
    let parts ← e.strands.mapM (fun n => match strands.find? (·.1 == s.pfx ++ n) with
      | some x => Except.ok x.2.2 | none => Except.error Err.missing)
    let sq := joinPlus parts
    match lookupLast d (s.pfx ++ e.name).toList with
    | none => throw Err.missing
    | some r => if r != sq then throw Err.structure else pure (s.pfx ++ e.name, sq))
  pure ⟨seqs, strands, structs⟩

/-- `apply_design` on a whole saved system.  The Python loops kind by kind over the merged tables
    (all atomic sequences of all components, then all super-sequences, strands, structures); a failure
    anywhere aborts, success yields the same assignments, so the per-component order used here gives the
    same outcome up to which error is reported first. -/
def apply (t : CodeTable) (inst : Inst) (d : List (List Char × List Char)) : Except Err Out :=
  (compsOf 64 inst).foldlM (fun (acc : Out) (s : Comp.St) =>
    match applyComp t d s with
    | .ok o => Except.ok ⟨acc.seqs ++ o.seqs, acc.strands ++ o.strands, acc.structs ++ o.structs⟩
    | .error e => Except.error e) {}

/-- the `.seqs` file and the strands-to-order file -/
def seqsFile (o : Out) : List String :=
  ["# Sequences"] ++ o.seqs.map (fun (n, s) => "sequence " ++ n ++ " = " ++ String.ofList s)
  ++ ["# Strands"] ++ o.strands.map (fun (n, _, s) => "strand " ++ n ++ " = " ++ String.ofList s)
  ++ ["# Structures"] ++ o.structs.map (fun (n, s) => "structure " ++ n ++ " = " ++ String.ofList s)

def strandsFile (o : Out) : List String :=
  (o.strands.filter (fun x => !x.2.1)).map (fun (n, _, s) => "strand " ++ n ++ "\t" ++ String.ofList s)

end Pepper.Finish
