import PepperModel.Sys
import PepperModel.Pil
/-!
# The emitted PIL as a statement list

`Comp.emitPil` / `Sys.emitPilInst` model the *text* the compiler writes.  `pilStmts` is the same output as
the statement list a PIL reader obtains from that text (sequence / sup-sequence / strand / structure /
equal; kinetic lines carry no constraint and are compared separately).  The harness checks on every run
that reading the implementation's `.pil` gives exactly `pilStmts` of the model.
-/
namespace Pepper.Emit
open Pepper.Comp Pepper.Sys

def itemRaw (pfx : String) (i : ItemRef) : String := Comp.fullName pfx i.name i.rev

def compStmts (s : Comp.St) : List Pil.Stmt :=
  let p := s.pfx
  ((s.baseSeqs.filter (·.len != 0)).map (fun e => Pil.Stmt.seq (p ++ e.name) e.const))
  ++ ((s.supSeqs.filter (·.len != 0)).map (fun e =>
        Pil.Stmt.sup (p ++ e.name) ((e.items.filter (!·.dummy)).map (itemRaw p))))
  ++ (s.strands.map (fun e => Pil.Stmt.strand (p ++ e.name) e.dummy ((e.items.filter (!·.dummy)).map (itemRaw p))))
  ++ (s.structs.map (fun e => Pil.Stmt.struct (p ++ e.name) (some (String.ofList e.opt.fmtG ++ "nt"))
        (e.strands.map (p ++ ·)) e.struct))

mutual
def instStmts : Inst → List Pil.Stmt
  | .comp st => compStmts st
  | .sys st => sysStmts st
def sysStmts : SysSt → List Pil.Stmt
  | .mk _ _ pfx _ signals lengths components _ _ =>
    compsStmts components ++
    signals.flatMap (fun (sg, entries) =>
      let len := (lengths.lookup sg).getD 0
      [Pil.Stmt.seq (pfx ++ sg) (List.replicate len 'N'),
       Pil.Stmt.equal ((pfx ++ sg) :: entries.map (fun e =>
          (match e.port with
           | .seq i _ => pfx ++ e.comp ++ "-" ++ i.name
           | .sig n => pfx ++ e.comp ++ "-" ++ n) ++ (if e.wc then "*" else "")))])
def compsStmts : List (String × Inst) → List Pil.Stmt
  | [] => []
  | (_, i) :: r => instStmts i ++ compsStmts r
end

end Pepper.Emit
