/-!
# Nucleotide codes (mirrors the tables of `DNA_classes.py`, `design/PIL_DNA_classes.py`,
`design/DNA_nupack_classes.py` and the `WC`/`randbasec`/`degenerates` tables of `spuriousSSM.c`)

A `CodeTable` is exactly what the Python modules hold: `group` (code ↦ string of bases),
`complement` (code ↦ code) and `rev_group` (string of bases ↦ code).  The concrete tables are
*generated* from /repo on every run (`Generated/Tables.lean`); everything in this file and every
theorem outside `PepperProps/C11.lean` is stated for an arbitrary table satisfying `lawful`.
-/
namespace Pepper

structure CodeTable where
  group : List (Char × List Char)
  compl : List (Char × Char)
  rev   : List (List Char × Char)
deriving Repr, DecidableEq

/-- association-list lookup, first match (Python dict built from an item list keeps the *last*
    value for a duplicated key; tables with duplicated keys are excluded by `lawful`). -/
def assoc {α β} [BEq α] (l : List (α × β)) (k : α) : Option β :=
  match l with
  | [] => none
  | (a, b) :: r => if a == k then some b else assoc r k

def baseBit : Char → Nat
  | 'A' => 1 | 'C' => 2 | 'G' => 4 | 'T' => 8 | _ => 0

/-- the set of bases of a string, as a 4-bit mask -/
def maskOf : List Char → Nat
  | [] => 0
  | c :: r => baseBit c ||| maskOf r

/-- Watson–Crick complement on base sets: A↔T, C↔G -/
def complMask (m : Nat) : Nat :=
  (if m &&& 1 != 0 then 8 else 0) ||| (if m &&& 8 != 0 then 1 else 0) |||
  (if m &&& 2 != 0 then 4 else 0) ||| (if m &&& 4 != 0 then 2 else 0)

/-- canonical spelling of a base set: the letters in the order A C G T (= sorted by code point,
    which is what `"".join(sorted(set))` produces in the Python) -/
def canonStr (m : Nat) : List Char :=
  (if m &&& 1 != 0 then ['A'] else []) ++ (if m &&& 2 != 0 then ['C'] else []) ++
  (if m &&& 4 != 0 then ['G'] else []) ++ (if m &&& 8 != 0 then ['T'] else [])

namespace CodeTable

def groupOf (t : CodeTable) (c : Char) : Option (List Char) := assoc t.group c
def complOf (t : CodeTable) (c : Char) : Option Char := assoc t.compl c
def revOf (t : CodeTable) (s : List Char) : Option Char := assoc t.rev s
def codes (t : CodeTable) : List Char := t.group.map (·.1)
def isCode (t : CodeTable) (c : Char) : Bool := (t.groupOf c).isSome
def maskC (t : CodeTable) (c : Char) : Nat := match t.groupOf c with | some g => maskOf g | none => 0

inductive Err | empty | key
deriving Repr, DecidableEq

/-- insertion into a list sorted by code point, without duplicates -/
def insSorted (c : Char) : List Char → List Char
  | [] => [c]
  | d :: r => if c.toNat < d.toNat then c :: d :: r else if c == d then d :: r else d :: insSorted c r

def sortDedup (l : List Char) : List Char := l.foldr insSorted []

/-- `constraint_load.intersect_groups` / the body of `Sequence.fix_seq`:
    set intersection, `ValueError` when empty, then `rev_group["".join(sorted(inter))]` (`KeyError`
    when the intersection has no code). -/
def intersect (t : CodeTable) (c d : Char) : Except Err Char :=
  match t.groupOf c, t.groupOf d with
  | some g, some h =>
    let i := sortDedup (g.filter (h.contains ·))
    if i.isEmpty then .error .empty
    else match t.revOf i with
      | some e => .ok e
      | none => .error .key
  | _, _ => .error .key

/-- `wc(seq)` / `seq_comp(seq)`: reversed, complemented letter by letter (`KeyError` ↦ `none`) -/
def wcStr (t : CodeTable) (s : List Char) : Option (List Char) := s.reverse.mapM t.complOf

/-- the laws of property C11 as one executable check -/
def lawful (t : CodeTable) : Bool :=
  -- keys are distinct; complement has exactly the same keys
  t.codes.Nodup
  && (t.compl.map (·.1)).Nodup
  && t.codes.all (fun c => (t.complOf c).isSome)
  && t.compl.all (fun (c, d) => t.isCode c && t.isCode d)
  -- every value is a non-empty canonical subset of ACGT, and distinct codes denote distinct sets
  && t.group.all (fun (_, g) => g != [] && canonStr (maskOf g) == g)
  && (t.group.map (fun (_, g) => maskOf g)).Nodup
  -- rev_group inverts group
  && t.rev == t.group.map (fun (c, g) => (g, c))
  -- complement denotes the complement set
  && t.group.all (fun (c, g) => match t.complOf c with
        | some d => t.maskC d == complMask (maskOf g)
        | none => false)
  -- closure under non-empty intersection
  && t.group.all (fun (_, g) => t.group.all (fun (_, h) =>
        (maskOf g &&& maskOf h) == 0 || t.group.any (fun (_, e) => maskOf e == (maskOf g &&& maskOf h))))

/-- two tables are the same maps (order of the item lists is irrelevant) -/
def sameAs (t u : CodeTable) : Bool :=
  t.codes.all (fun c => t.groupOf c == u.groupOf c && t.complOf c == u.complOf c)
  && u.codes.all (fun c => t.groupOf c == u.groupOf c && t.complOf c == u.complOf c)
  && t.compl.all (fun (c, _) => t.complOf c == u.complOf c)
  && u.compl.all (fun (c, _) => t.complOf c == u.complOf c)

end CodeTable

/-! ### The C side, as extracted -/

/-- `degenerates` string of spuriousSSM.c: space-separated pairs template-letter, base -/
def degeneratePairs : List Char → List (Char × Char)
  | a :: b :: ' ' :: r => (a, b) :: degeneratePairs r
  | [a, b] => [(a, b)]
  | _ => []

/-- the C tables agree with a Python table on every code:
    `WC` = complement, `randbasec` choice set = group, `degenerates` = {(code, base)} -/
def cAgrees (t : CodeTable) (cWC : List (Char × Char)) (cDeg : List Char)
    (cRand : List (Char × List Char)) : Bool :=
  t.codes.all (fun c => assoc cWC c == t.complOf c && assoc cRand c == t.groupOf c)
  && cWC.all (fun (c, _) => t.isCode c)
  && cRand.all (fun (c, _) => t.isCode c)
  && (degeneratePairs cDeg).all (fun (c, b) => match t.groupOf c with
        | some g => g.contains b | none => false)
  && t.group.all (fun (c, g) => g.all (fun b => (degeneratePairs cDeg).contains (c, b)))

end Pepper
