import PepperModel.Sys
import PepperModel.ConstraintGen
/-!
# The emitted NUPACK `.des` as a document, and what it means (C03)

`Comp.emitDes` / `Sys.emitDesInst` model the *text* `Component.output_nupack` / `System.output_nupack`
write.  `desDoc` is the same output as the line list a reader of the format obtains from that text
(four kinds of lines: `structure n = dotparen`, `sequence n = template`, `n : item*`, `n < decimal`), in the
same order.  The harness checks on every run that an independent reader of the implementation's `.des`
text gives exactly `desDoc` of the model.

An instance tree is first flattened into its *blocks* in emission order (`blocksInst`): one block per
component (`Comp.St`, which carries its prefix) and one per signal of every (sub-)system (prefix, name,
length, bound ports).  `desDoc` is the concatenation of the blocks' lines; `designOf` is the design the
same object tables describe (components: domains / strands / structures over the `base_seqs` of the
tables; a signal: one domain `S` and the `equals` entry `[S, R₁', …]` with `Rᵢ' = rc Rᵢ` for a
complementary binding) — the harness checks on every run that it is the design `Denote.denoteTop`
assigns to the source.

Semantics (`SatDes`, the reading of NUPACK's format the compiler relies on): variables are
`(sequence name, index)`, restricted by the sequence templates; an assignment line lays the listed
sequences (reverse complement for `*`) onto the positions of the structure of that name (`+` is not a
position); every base pair `(i, j)` of the structure's dot-paren forces positions `i`, `j` complementary.
The design side reuses `LinkSpec.Sat` / `LinkSpec.links` (the specification layer of C04/C15).
-/
namespace Pepper.Des
open Pepper.Comp Pepper.Sys Pepper.LinkSpec

/-! ### document AST -/

structure Item where
  name : String
  star : Bool
deriving Repr, DecidableEq, BEq

inductive Line
  | struct (name : String) (dp : List Char)
  | seq (name : String) (tmpl : List Char)
  | assign (name : String) (items : List Item)
  | bound (name : String) (text : String)
deriving Repr, DecidableEq, BEq

abbrev DesDoc := List Line

def Item.render (i : Item) : String := i.name ++ (if i.star then "*" else "")

/-- the text of a line, up to blanks (the reader splits items on white space) -/
def Line.render : Line → String
  | .struct n dp => "structure " ++ n ++ " = " ++ String.ofList dp
  | .seq n t => "sequence " ++ n ++ " = " ++ String.ofList t
  | .assign n its => n ++ " : " ++ Comp.joinWith " " (its.map Item.render)
  | .bound n t => n ++ " < " ++ t

def Line.asStruct : Line → Option (String × List Char) | .struct n dp => some (n, dp) | _ => none
def Line.asSeq : Line → Option (String × List Char) | .seq n t => some (n, t) | _ => none
def Line.asAssign : Line → Option (String × List Item) | .assign n its => some (n, its) | _ => none
def Line.asBound : Line → Option (String × String) | .bound n t => some (n, t) | _ => none

def structLines (doc : DesDoc) : List (String × List Char) := doc.filterMap Line.asStruct
def seqLines (doc : DesDoc) : List (String × List Char) := doc.filterMap Line.asSeq
def assignLines (doc : DesDoc) : List (String × List Item) := doc.filterMap Line.asAssign
def boundLines (doc : DesDoc) : List (String × String) := doc.filterMap Line.asBound

/-! ### blocks of an instance tree, in emission order -/

inductive Block
  | comp (st : Comp.St)
  | signal (pfx sg : String) (len : Nat) (entries : List SigEntry)
deriving Repr, DecidableEq

mutual
def blocksInst : Inst → List Block
  | .comp st => [.comp st]
  | .sys st => blocksSys st
def blocksSys : SysSt → List Block
  | .mk _ _ pfx _ signals lengths components _ _ =>
    blocksComps components ++
    signals.map (fun (sg, entries) => Block.signal pfx sg ((lengths.lookup sg).getD 0) entries)
def blocksComps : List (String × Inst) → List Block
  | [] => []
  | (_, i) :: r => blocksInst i ++ blocksComps r
end

/-! ### emission as AST -/

def baseItem (p : String) (b : BaseRef) : Item := ⟨p ++ b.name, b.rev⟩

/-- `Component.output_nupack` -/
def compDoc (s : Comp.St) : DesDoc :=
  let p := s.pfx
  (s.structs.map (fun e => Line.struct (p ++ e.name) e.struct))
  ++ ((s.baseSeqs.filter (·.len != 0)).map (fun e => Line.seq (p ++ e.name) e.const))
  ++ (s.structs.flatMap (fun e =>
      [Line.assign (p ++ e.name) ((e.bases.filter (·.len != 0)).map (baseItem p))]
      ++ (if e.opt.isZero then [] else [Line.bound (p ++ e.name) (String.ofList e.opt.fmtF)])))

def duplex (len : Nat) : List Char := List.replicate len '(' ++ '+' :: List.replicate len ')'

/-- prefix of the component instance a signal entry refers to -/
def entryPfx (pfx : String) (e : SigEntry) : String := pfx ++ e.comp ++ "-"

/-- name suffix of the connector structure and the sequences laid next to the signal -/
def portItems (pfx : String) (e : SigEntry) : String × List Item :=
  match e.port with
  | .seq i bases =>
    if i.isSup then (e.comp ++ "-" ++ i.name, (bases.filter (·.len != 0)).map (baseItem (entryPfx pfx e)))
    else (e.comp ++ "-" ++ i.name, [⟨entryPfx pfx e ++ i.name, false⟩])
  | .sig n => (e.comp ++ "-" ++ n, [⟨entryPfx pfx e ++ n, false⟩])

def wcName (pfx sg : String) : String := pfx ++ sg ++ "-_WC"

/-- the connector block of one signal in `System.output_nupack` -/
def signalDoc (pfx sg : String) (len : Nat) (entries : List SigEntry) : DesDoc :=
  let sname := pfx ++ sg
  [Line.seq sname (List.replicate len 'N'),
   Line.seq (wcName pfx sg) (List.replicate len 'N'),
   Line.struct (sname ++ "-_Self") (duplex len),
   Line.assign (sname ++ "-_Self") [⟨wcName pfx sg, false⟩, ⟨sname, false⟩]] ++
  (Sys.dedupEntries entries).flatMap (fun e =>
    let dn := sname ++ "-" ++ (portItems pfx e).1 ++ Sys.rcSuffix entries e
    [Line.struct dn (duplex len),
     Line.assign dn (⟨if e.wc then sname else wcName pfx sg, false⟩ :: (portItems pfx e).2)])

def blockDoc : Block → DesDoc
  | .comp st => compDoc st
  | .signal pfx sg len es => signalDoc pfx sg len es

def docOf (bs : List Block) : DesDoc := bs.flatMap blockDoc

/-- what `Sys.emitDesInst` prints, as a document -/
def desDoc (i : Inst) : DesDoc := docOf (blocksInst i)

/-! ### semantics of a document -/

/-- template length of the sequence of that name (first definition; 0 when undefined) -/
def seqLen (doc : DesDoc) (n : String) : Nat :=
  match (seqLines doc).lookup n with
  | some t => t.length
  | none => 0

def itemNucs (doc : DesDoc) (it : Item) : List Nuc :=
  if it.star then rc (fwd it.name (seqLen doc it.name)) else fwd it.name (seqLen doc it.name)

/-- the nucleotides laid onto the positions of structure `name` -/
def desPositions (doc : DesDoc) (name : String) : List Nuc :=
  match (assignLines doc).lookup name with
  | some its => its.flatMap (itemNucs doc)
  | none => []

/-- the pairs of positions `l` that dot-paren `dp` forces complementary -/
def pairLinksOn (dp : List Char) (l : List Nuc) : List (Nuc × Nuc) :=
  (pairs dp).filterMap (fun (i, j) =>
    match l[i]?, l[j]? with
    | some m, some n => some (m, n)
    | _, _ => none)

/-- link-graph view: all links are odd (the two nucleotides are complementary) -/
def desLinks (doc : DesDoc) : List (Nuc × Nuc) :=
  (structLines doc).flatMap (fun (n, dp) => pairLinksOn dp (desPositions doc n))

/-- an assignment of bases to the sequence positions satisfies the document -/
structure SatDes (tbl : CodeTable) (doc : DesDoc) (a : Var → Base) : Prop where
  tmpl : ∀ p ∈ seqLines doc, ∀ (k : Nat) (c : Char), p.2[k]? = some c → allows tbl c (a ⟨p.1, k⟩)
  pair : ∀ l ∈ desLinks doc, val a l.1 = (val a l.2).compl

/-- the reader's well-formedness conditions: every structure has exactly one assignment, every assigned
    name is a structure, every item is a defined sequence, and the number of nucleotides laid onto a
    structure is its number of positions -/
def wellFormed (doc : DesDoc) : Bool :=
  (structLines doc).all (fun (n, dp) =>
    ((assignLines doc).filter (·.1 == n)).length == 1
    && (desPositions doc n).length == (dp.filter (· != '+')).length)
  && (assignLines doc).all (fun (n, its) =>
    (structLines doc).any (·.1 == n) && its.all (fun it => (seqLines doc).any (·.1 == it.name)))

/-! ### the design side -/

/-- an assignment satisfies a design (`LinkSpec.Sat`) -/
abbrev Sat (tbl : CodeTable) (d : Design) (a : Var → Base) : Prop := LinkSpec.Sat tbl d a

/-- odd links from the structures' base pairs over the strands' nucleotides, even links from `equals` -/
abbrev designLinks (d : Design) : List Link := LinkSpec.links d

/-- the nucleotides of the strands of structure `name` -/
def designPositions (d : Design) (name : String) : List Nuc :=
  match d.structs.find? (·.name == name) with
  | some s => structNucs d s
  | none => []

/-! ### the design of the object tables -/

/-- nucleotides of a base reference under a prefix -/
def nucsB (p : String) (b : BaseRef) : List Nuc :=
  if b.rev then rc (fwd (p ++ b.name) b.len) else fwd (p ++ b.name) b.len

/-- the nucleotides of a `base_seqs` list -/
def cnucs (p : String) (bs : List BaseRef) : List Nuc := bs.flatMap (nucsB p)

def optOfDec (d : Dec) : Opt :=
  if d.frac.all (· == '0') then
    let n := (stripZeros d.int).foldl (fun a c => a * 10 + (c.toNat - 48)) 0
    if n == 0 then .noOpt else .nt n
  else .other (String.ofList (d.int ++ '.' :: d.frac))

def compDesign (s : Comp.St) : Design :=
  let p := s.pfx
  { domains := (s.baseSeqs.filter (·.len != 0)).map (fun e => (p ++ e.name, e.const))
    seqs := ((s.baseSeqs.filter (·.len != 0)) ++ (s.supSeqs.filter (·.len != 0))).map
              (fun e => (p ++ e.name, cnucs p e.bases))
    strands := s.strands.map (fun t => (p ++ t.name, t.dummy, cnucs p t.bases))
    structs := s.structs.map (fun e => ⟨p ++ e.name, e.strands.map (p ++ ·), e.struct, optOfDec e.opt⟩)
    kinetics := s.kins.map (fun k => ⟨k.ins.map (p ++ ·), k.outs.map (p ++ ·),
        (match k.low with | some d => String.ofList d.fmtF | none => "0.000000"),
        (match k.high with | some d => String.ofList d.fmtF | none => "inf")⟩)
    equals := [] }

/-- the nucleotides of a bound port as declared (unreversed) -/
def portNucs (pfx : String) (len : Nat) (e : SigEntry) : List Nuc :=
  match e.port with
  | .seq i bases => if i.isSup then cnucs (entryPfx pfx e) bases else fwd (entryPfx pfx e ++ i.name) i.len
  | .sig n => fwd (entryPfx pfx e ++ n) len

/-- the region the signal is equal to: the port, or its reverse complement for a complementary binding -/
def portRegion (pfx : String) (len : Nat) (e : SigEntry) : List Nuc :=
  if e.wc then rc (portNucs pfx len e) else portNucs pfx len e

def signalDesign (pfx sg : String) (len : Nat) (entries : List SigEntry) : Design :=
  { Design.empty with
    domains := [(pfx ++ sg, List.replicate len 'N')]
    seqs := [(pfx ++ sg, fwd (pfx ++ sg) len)]
    equals := [fwd (pfx ++ sg) len :: entries.map (portRegion pfx len)] }

def blockDesign : Block → Design
  | .comp st => compDesign st
  | .signal pfx sg len es => signalDesign pfx sg len es

def designOfBlocks (bs : List Block) : Design :=
  { domains := bs.flatMap (fun b => (blockDesign b).domains)
    seqs := bs.flatMap (fun b => (blockDesign b).seqs)
    strands := bs.flatMap (fun b => (blockDesign b).strands)
    structs := bs.flatMap (fun b => (blockDesign b).structs)
    kinetics := bs.flatMap (fun b => (blockDesign b).kinetics)
    equals := bs.flatMap (fun b => (blockDesign b).equals) }

/-- the design the object tables of an instance tree describe -/
def designOf (i : Inst) : Design := designOfBlocks (blocksInst i)

/-! ### consistency of the tables (decidable; evaluated by the driver for every accepted program) -/

/-- a reference to sequence `x` resolves to one of `lines` (name, template) with a template of `l` letters -/
def Resolves (lines : List (String × List Char)) (x : String) (l : Nat) : Prop :=
  ∃ q ∈ lines, q.1 = x ∧ q.2.length = l

instance (lines : List (String × List Char)) (x : String) (l : Nat) : Decidable (Resolves lines x l) := by
  unfold Resolves; infer_instance

/-- a component's structures are made of its own strands, and every base sequence they mention is one of
    the component's emitted sequences, with that length -/
def CompOk (st : Comp.St) : Prop :=
  (∀ e ∈ st.structs, (∀ n ∈ e.strands, (st.findStrand n).isSome = true) ∧
      e.bases = e.strands.flatMap (fun n => match st.findStrand n with | some t => t.bases | none => [])) ∧
  (∀ e ∈ st.structs, ∀ b ∈ e.bases, b.len ≠ 0 → Resolves (seqLines (compDoc st)) (st.pfx ++ b.name) b.len)

instance (st : Comp.St) : Decidable (CompOk st) := by unfold CompOk; infer_instance

/-- a bound port has the signal's length and its sequences are domains of the program (`doms`: the
    components' sequences and the signals of sub-systems — not an auxiliary `-_WC` sequence) -/
def EntryOk (doms : List (String × List Char)) (pfx : String) (len : Nat) (e : SigEntry) : Prop :=
  match e.port with
  | .seq i bases =>
    if i.isSup then ((bases.map (·.len)).sum = len ∧ ∀ b ∈ bases, b.len ≠ 0 → Resolves doms (entryPfx pfx e ++ b.name) b.len)
    else (i.len = len ∧ Resolves doms (entryPfx pfx e ++ i.name) len)
  | .sig n => Resolves doms (entryPfx pfx e ++ n) len

instance (doms : List (String × List Char)) (pfx : String) (len : Nat) (e : SigEntry) :
    Decidable (EntryOk doms pfx len e) := by
  unfold EntryOk; split <;> infer_instance

/-- consistency of one block.  A component: `CompOk`.  A signal: every bound port is `EntryOk`, and entries of one
    signal with equal connector name and orientation are the same entry — what `Sys.loadFile` guarantees (two
    bindings of one port of one instance store the same port object); `System.output_nupack` writes such a
    connector once (`Sys.dedupEntries`, repair F17), so without this clause the document would say nothing about
    the dropped entry -/
def BlockOk (doms : List (String × List Char)) : Block → Prop
  | .comp st => CompOk st
  | .signal pfx _ len es => (∀ e ∈ es, EntryOk doms pfx len e) ∧
      (∀ e ∈ es, ∀ e' ∈ es, e.connName = e'.connName → e.wc = e'.wc → e = e')

instance (doms : List (String × List Char)) (b : Block) : Decidable (BlockOk doms b) := by
  cases b <;> unfold BlockOk <;> infer_instance

/-- names are unique across the tree and every block is consistent -/
structure BlocksOk (bs : List Block) : Prop where
  seqNames : ((seqLines (docOf bs)).map (·.1)).Nodup
  structNames : ((assignLines (docOf bs)).map (·.1)).Nodup
  strandNames : ((designOfBlocks bs).strands.map (·.1)).Nodup
  blocks : ∀ b ∈ bs, BlockOk (designOfBlocks bs).domains b

instance (bs : List Block) : Decidable (BlocksOk bs) :=
  decidable_of_iff
    ((((seqLines (docOf bs)).map (·.1)).Nodup ∧ ((assignLines (docOf bs)).map (·.1)).Nodup) ∧
     (((designOfBlocks bs).strands.map (·.1)).Nodup ∧ ∀ b ∈ bs, BlockOk (designOfBlocks bs).domains b))
    ⟨fun h => ⟨h.1.1, h.1.2, h.2.1, h.2.2⟩, fun h => ⟨⟨h.1, h.2⟩, h.3, h.4⟩⟩

end Pepper.Des
