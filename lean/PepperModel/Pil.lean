import PepperModel.Sem
import PepperModel.Codes
/-!
# PIL documents and the designer front-end's object model
(mirrors `design/PIL_class.py` (`Spec`, `get_seqs`, `get_strands`), `design/PIL_DNA_classes.py`
(`Sequence`, `SuperSequence`, `Strand`, `Structure`, `get_bonds`) at the level of parsed statements;
the statement regexes of `design/PIL_parser.py` are on the implementation side of the correspondence:
the harness renders a statement list to text for the real reader and sends the list itself here)

Python object references become names + orientation (`ItemRef`); what the code reads through a
reference (`length`, `base_seqs`, `seqs`) is looked up in the `Spec` tables.  A failed `assert` /
`error()` is `Except.error` with a small class.
-/
namespace Pepper.Pil

/-- one statement of a PIL file, as the reader hands it to `Spec` -/
inductive Stmt
  | seq (name : String) (template : List Char)
  | sup (name : String) (items : List String)                 -- raw item names, possibly ending in `*`
  | strand (name : String) (dummy : Bool) (items : List String)
  | struct (name : String) (params : Option String) (strands : List String) (struct : List Char)
  | equal (items : List String)
  | kinetic
deriving Repr, DecidableEq, BEq

/-- reference to a base sequence view -/
structure BaseRef where
  name : String
  rev : Bool
  len : Nat
deriving Repr, DecidableEq, BEq

def BaseRef.inv (b : BaseRef) : BaseRef := { b with rev := !b.rev }

/-- reference to a sequence / super-sequence view (`seq` or `seq.wc`) -/
structure ItemRef where
  name : String
  rev : Bool
deriving Repr, DecidableEq, BEq

def ItemRef.inv (i : ItemRef) : ItemRef := { i with rev := !i.rev }

/-- a `Sequence` or `SuperSequence` object (forward view) -/
structure SeqObj where
  name : String
  isSup : Bool
  len : Nat
  template : List Char        -- base sequences only
  items : List ItemRef        -- super-sequences only: `seqs`
  bases : List BaseRef        -- `base_seqs` of the forward view
deriving Repr, DecidableEq, BEq

structure StrandObj where
  name : String
  dummy : Bool
  len : Nat
  items : List ItemRef
  bases : List BaseRef
deriving Repr, DecidableEq, BEq

structure StructObj where
  name : String
  params : Option String
  strands : List String
  struct : List Char
  len : Nat
  bonds : List (Nat × Nat)
deriving Repr, DecidableEq, BEq

structure Spec where
  seqs : List SeqObj := []            -- `spec.seqs` in insertion order (base and super)
  strands : List StrandObj := []
  structs : List StructObj := []
  equals : List (List ItemRef) := []
deriving Repr, DecidableEq, BEq

inductive Err
  | dupSeq | dupStrand | dupStruct | undefinedSeq | undefinedStrand
  | structCount | structLen | structChars | bonds | equalLen | emptyEqual | template
deriving Repr, DecidableEq, BEq

def Spec.findSeq (s : Spec) (n : String) : Option SeqObj := s.seqs.find? (·.name == n)
def Spec.findStrand (s : Spec) (n : String) : Option StrandObj := s.strands.find? (·.name == n)
def Spec.baseSeqs (s : Spec) : List SeqObj := s.seqs.filter (!·.isSup)
def Spec.supSeqs (s : Spec) : List SeqObj := s.seqs.filter (·.isSup)

/-- `get_seqs`: a trailing `*` selects the complement view; the rest must be a defined sequence -/
def resolveItem (s : Spec) (raw : String) : Except Err (ItemRef × SeqObj) :=
  let cs := raw.toList
  let (nm, rev) := match cs.reverse with
    | '*' :: r => (String.ofList r.reverse, true)
    | _ => (raw, false)
  match s.findSeq nm with
  | some o => .ok (⟨nm, rev⟩, o)
  | none => .error .undefinedSeq

def basesOfView (o : SeqObj) (rev : Bool) : List BaseRef :=
  if rev then o.bases.reverse.map BaseRef.inv else o.bases

def resolveItems (s : Spec) : List String → Except Err (List (ItemRef × SeqObj))
  | [] => .ok []
  | r :: rs => do
    let x ← resolveItem s r
    let xs ← resolveItems s rs
    pure (x :: xs)

/-- `get_bonds`: positions do not count strand breaks; an unmatched `)` is an assertion failure,
    an unmatched `(` is silently unpaired (as in the Python) -/
def getBondsAux : List Char → Nat → List Nat → List (Nat × Nat) → Except Err (List (Nat × Nat))
  | [], _, _, acc => .ok acc.reverse
  | '+' :: r, pos, stk, acc => getBondsAux r pos stk acc
  | '(' :: r, pos, stk, acc => getBondsAux r (pos + 1) (pos :: stk) acc
  | ')' :: r, pos, stk, acc => match stk with
    | [] => .error .bonds
    | o :: stk' => getBondsAux r (pos + 1) stk' ((o, pos) :: acc)
  | '.' :: r, pos, stk, acc => getBondsAux r (pos + 1) stk acc
  | _ :: _, _, _, _ => .error .structChars

def getBonds (s : List Char) : Except Err (List (Nat × Nat)) := getBondsAux s 0 [] []

def splitPlus : List Char → List (List Char)
  | [] => [[]]
  | d :: r => match splitPlus r with
    | [] => [[]]
    | h :: t => if d == '+' then [] :: h :: t else (d :: h) :: t

/-- `Spec.add_*` -/
def Spec.add (tbl : CodeTable) (s : Spec) : Stmt → Except Err Spec
  | .seq name template =>
    if (s.findSeq name).isSome then .error .dupSeq
    else if !template.all tbl.isCode then .error .template
    else .ok { s with seqs := s.seqs ++ [⟨name, false, template.length, template, [], [⟨name, false, template.length⟩]⟩] }
  | .sup name items => do
    if (s.findSeq name).isSome then throw .dupSeq
    let its ← resolveItems s items
    let bases := its.flatMap (fun (i, o) => basesOfView o i.rev)
    let len := (its.map (fun (_, o) => o.len)).sum
    pure { s with seqs := s.seqs ++ [⟨name, true, len, [], its.map (·.1), bases⟩] }
  | .strand name dummy items => do
    if (s.findStrand name).isSome then throw .dupStrand
    let its ← resolveItems s items
    let bases := its.flatMap (fun (i, o) => basesOfView o i.rev)
    let len := (its.map (fun (_, o) => o.len)).sum
    pure { s with strands := s.strands ++ [⟨name, dummy, len, its.map (·.1), bases⟩] }
  | .struct name params strands struct => do
    if (s.structs.find? (·.name == name)).isSome then throw .dupStruct
    let objs ← strands.mapM (fun n => match s.findStrand n with
      | some o => pure o | none => throw Err.undefinedStrand)
    if !struct.all (fun c => c == '.' || c == '(' || c == ')' || c == '+') then throw .structChars
    let bonds ← getBonds struct
    let subs := splitPlus struct
    if subs.length != objs.length then throw .structCount
    if !(List.zip objs subs).all (fun (o, sub) => o.len == sub.length) then throw .structLen
    pure { s with structs := s.structs ++ [⟨name, params, strands, struct, (objs.map (·.len)).sum, bonds⟩] }
  | .equal items => do
    let its ← resolveItems s items
    match its with
    | [] => throw .emptyEqual       -- `seqs[0]` raises IndexError
    | (_, o) :: _ =>
      if !its.all (fun (_, p) => p.len == o.len) then throw .equalLen
      pure { s with equals := s.equals ++ [its.map (·.1)] }
  | .kinetic => pure s

def load (tbl : CodeTable) : List Stmt → Spec → Except Err Spec
  | [], s => .ok s
  | st :: r, s => match s.add tbl st with
    | .ok s' => load tbl r s'
    | .error e => .error e

/-! ### what a PIL document denotes -/

def nucsOfBase (b : BaseRef) : List Nuc := if b.rev then rc (fwd b.name b.len) else fwd b.name b.len
def nucsOfBases (bs : List BaseRef) : List Nuc := bs.flatMap nucsOfBase

def optOfParams : Option String → Opt
  | none => .nt 1
  | some p =>
    -- `[<Float>nt]`; the designer ignores the parameter, PIL_Spec defines `no-opt` / a zero bound as "do not optimise"
    let cs := p.toList
    let ip := cs.takeWhile Char.isDigit
    let rest := cs.dropWhile Char.isDigit
    let frac := match rest with | '.' :: f => f.takeWhile Char.isDigit | _ => []
    let fracT := (frac.reverse.dropWhile (· == '0')).reverse
    if ip.isEmpty && frac.isEmpty then .nt 1
    else
      let n := ip.foldl (fun a c => a * 10 + (c.toNat - 48)) 0
      if fracT.isEmpty then (if n == 0 then .noOpt else .nt n)
      else .other (String.ofList ((match ip.dropWhile (· == '0') with | [] => ['0'] | r => r) ++ '.' :: fracT))

/-- the design a loaded PIL specification denotes (zero-length objects cannot be expressed and are omitted) -/
def denote (s : Spec) : Design :=
  { domains := (s.baseSeqs.filter (·.len != 0)).map (fun o => (o.name, o.template))
    seqs := (s.seqs.filter (·.len != 0)).map (fun o => (o.name, nucsOfBases o.bases))
    strands := s.strands.map (fun o => (o.name, o.dummy, nucsOfBases o.bases))
    structs := s.structs.map (fun o => ⟨o.name, o.strands, o.struct, optOfParams o.params⟩)
    kinetics := []
    equals := s.equals.map (fun its => its.filterMap (fun i =>
      (s.findSeq i.name).map (fun o => nucsOfBases (basesOfView o i.rev)))) }

end Pepper.Pil
