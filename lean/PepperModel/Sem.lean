/-!
# Shared semantic domain: oriented domain positions

All meaning is expressed over nucleotides of *base domains*: `Var` = nucleotide `idx` of the atomic
sequence `dom`; `Nuc` = that nucleotide or its Watson–Crick partner.  A region (sequence,
super-sequence, strand) denotes a `List Nuc`; the reverse complement of a region is `rc`.
A `Design` is what a `.comp`/`.sys` source, a `.pil` file or a `.des` file *denotes*; C01/C02/C03/C06/C14
compare designs, C04/C15 read the link graph and satisfiability off a design.
-/
namespace Pepper

structure Var where
  dom : String
  idx : Nat
deriving Repr, DecidableEq, BEq, Hashable

structure Nuc where
  var : Var
  comp : Bool
deriving Repr, DecidableEq, BEq

def Nuc.flip (n : Nuc) : Nuc := { n with comp := !n.comp }

/-- reverse complement of a region -/
def rc (l : List Nuc) : List Nuc := l.reverse.map Nuc.flip

/-- the nucleotides of an atomic sequence read 5'→3' -/
def fwd (name : String) (len : Nat) : List Nuc := (List.range len).map fun k => ⟨⟨name, k⟩, false⟩

/-- optimisation parameter of a structure as the formats can express it -/
inductive Opt
  | noOpt
  | nt (n : Nat)
  | other (text : String)   -- a value the PIL/DES formats cannot express (e.g. a fractional bound)
deriving Repr, DecidableEq, BEq

structure StructD where
  name : String
  strands : List String
  struct : List Char
  opt : Opt
deriving Repr, DecidableEq, BEq

structure KinD where
  inputs : List String
  outputs : List String
  low : String      -- printed decimal, compared as text
  high : String
deriving Repr, DecidableEq, BEq

/-- the design a file denotes -/
structure Design where
  domains  : List (String × List Char)           -- atomic sequences of non-zero length: name, template codes
  seqs     : List (String × List Nuc)            -- named sequences and super-sequences of non-zero length
  strands  : List (String × Bool × List Nuc)     -- name, dummy flag, nucleotides
  structs  : List StructD
  kinetics : List KinD
  equals   : List (List (List Nuc))              -- each entry: regions forced position-wise equal
deriving Repr, DecidableEq, BEq

def Design.empty : Design := ⟨[], [], [], [], [], []⟩

end Pepper
