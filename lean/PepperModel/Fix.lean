import PepperModel.Sys
/-!
# Fixed sequences (`compiler.parse_fixed` lines applied by `compiler.compiler`, `fix_signal`,
`Sequence/ReverseSequence/SuperSequence/Structure.fix_seq`)

Mutation of `Sequence.const` becomes a functional update of the component tables inside the instance
tree.  Outcomes per line: `ok` (possibly unchanged with a warning when the name is unknown) or an error
(`length` assertion / empty intersection), which aborts the compile as the uncaught exception does.
-/
namespace Pepper.Fix
open Pepper.Comp Pepper.Sys

inductive Err
  | length | empty | key | strandCount
deriving Repr, DecidableEq, BEq

/-- `Sequence.fix_seq` on the long-form constraint -/
def fixConst (t : CodeTable) : List Char → List Char → Except Err (List Char)
  | [], [] => .ok []
  | c :: cs, f :: fs =>
    match t.intersect c f with
    | .ok e => (fixConst t cs fs).map (e :: ·)
    | .error .empty => .error .empty
    | .error .key => .error .key
  | _, _ => .error .length

def setConst (s : Comp.St) (name : String) (c : List Char) : Comp.St :=
  { s with seqs := s.seqs.map (fun e => if e.name == name then { e with const := c } else e) }

mutual
/-- `x.fix_seq(str)` for a sequence / super-sequence view -/
def fixItem (t : CodeTable) : Nat → Comp.St → String → Bool → List Char → Except Err Comp.St
  | 0, _, _, _, _ => .error .key
  | fuel + 1, s, name, rev, str =>
    match s.findSeq name with
    | none => .error .key
    | some e =>
      if !e.isSup then
        match (if rev then t.wcStr str else some str) with
        | none => .error .key
        | some f =>
          if f.length != e.len then .error .length
          else match fixConst t e.const f with
            | .ok c => .ok (setConst s name c)
            | .error x => .error x
      else
        if str.length != e.len then .error .length
        else fixList t fuel s (itemsOfView e rev) str
termination_by fuel => (fuel, 0)
/-- the loop `for seq in self.seqs: seq.fix_seq(fixed[i:i+seq.length]); i += seq.length` -/
def fixList (t : CodeTable) : Nat → Comp.St → List ItemRef → List Char → Except Err Comp.St
  | _, s, [], _ => .ok s
  | fuel, s, i :: r, str =>
    match fixItem t fuel s i.name i.rev (str.take i.len) with
    | .ok s' => fixList t fuel s' r (str.drop i.len)
    | .error x => .error x
termination_by fuel _ l _ => (fuel, l.length + 1)
end

def fixItems (t : CodeTable) (s : Comp.St) (items : List ItemRef) (str : List Char) : Except Err Comp.St :=
  fixList t (s.seqs.length + 1) s items str

/-- `Strand.fix_seq` (= `SuperSequence.fix_seq`) -/
def fixStrand (t : CodeTable) (s : Comp.St) (e : StrandE) (str : List Char) : Except Err Comp.St :=
  if str.length != e.len then .error .length else fixItems t s e.items str

/-- `Structure.fix_seq` -/
def fixStruct (t : CodeTable) (s : Comp.St) (e : StructE) (str : List Char) : Except Err Comp.St :=
  let parts := Notation.splitOn '+' str
  if parts.length != e.strands.length then .error .strandCount
  else (List.zip e.strands parts).foldlM (fun (acc : Comp.St) (np : String × List Char) =>
    match acc.findStrand np.1 with
    | some se => fixStrand t acc se np.2
    | none => .error .key) s

/-- split `inst-rest` at the first dash (instance names contain no dash) -/
def splitFirstDash (n : String) : Option (String × String) :=
  match n.splitOn "-" with
  | a :: b :: r => some (a, Comp.joinWith "-" (b :: r))
  | _ => none

inductive Kind | sequence | strand | structure
deriving Repr, DecidableEq, BEq

/-- outcome of one line: the new tree, or `none` when the name is not found (warning) -/
def fixNamed (t : CodeTable) (k : Kind) : Nat → Inst → String → List Char → Except Err (Option Inst)
  | 0, _, _, _ => .ok none
  | _ + 1, .comp s, name, str =>
    match k with
    | .sequence => match s.findSeq name with
      | none => .ok none
      | some _ => (fixItem t (s.seqs.length + 1) s name false str).map (fun s' => some (.comp s'))
    | .strand => match s.findStrand name with
      | none => .ok none
      | some e => (fixStrand t s e str).map (fun s' => some (.comp s'))
    | .structure => match s.findStruct name with
      | none => .ok none
      | some e => (fixStruct t s e str).map (fun s' => some (.comp s'))
  | fuel + 1, .sys (.mk p n pf tm sg l comps i o), name, str =>
    match splitFirstDash name with
    | none => .ok none
    | some (cn, rest) =>
      match comps.lookup cn with
      | none => .ok none
      | some sub =>
        match fixNamed t k fuel sub rest str with
        | .error e => .error e
        | .ok none => .ok none
        | .ok (some sub') =>
          .ok (some (.sys (.mk p n pf tm sg l (comps.map (fun (c, x) => if c == cn then (c, sub') else (c, x))) i o)))

/-- `fix_signal` -/
def fixSignal (t : CodeTable) : Nat → SysSt → String → List Char → Except Err (Option SysSt)
  | 0, _, _, _ => .ok none
  | fuel + 1, st, name, str =>
    match st.signals.lookup name with
    | none => .ok none
    | some entries =>
      (entries.foldlM (fun (acc : SysSt) (e : SigEntry) =>
        match acc with
        | .mk p n pf tm sg l comps i o =>
          match comps.lookup e.comp with
          | none => Except.error Err.key
          | some sub =>
            let upd (sub' : Inst) : SysSt := .mk p n pf tm sg l (comps.map (fun (c, x) => if c == e.comp then (c, sub') else (c, x))) i o
            match e.port, sub with
            | .seq it _, .comp cs =>
              (fixItem t (cs.seqs.length + 1) cs it.name e.wc str).map (fun cs' => upd (.comp cs'))
            | .sig sn, .sys ss =>
              let str' := if e.wc then t.wcStr str else some str
              match str' with
              | none => Except.error Err.key
              | some f => match fixSignal t fuel ss sn f with
                | .error x => Except.error x
                | .ok none => Except.error Err.key
                | .ok (some ss') => Except.ok (upd (.sys ss'))
            | _, _ => Except.error Err.key) st).map some

end Pepper.Fix
