/-!
# File-system footprints of `pepper-compiler`, `pepper-design-spurious`, `pepper-finish`, and an
# abstract file system with interleaved processes

Mirrors the *file-name logic* of

* `compiler.py : main / compiler / save`            (tool `compile`),
* `design/spurious_design.py : main / design` and `design/find_file.py : find_file` (tool `design`),
* `finish.py : main / finish` with the default no-kinetics options (tool `finish`).

What is mirrored one-to-one: the defaulting rules of the three `main`s (`if not options.x:` — an
option that is absent **or the empty string** takes the default), the `re.match(r"(.*)\.(sys|comp)\Z")`
/ `(save|mfe)` / `pil` basename inference (one suffix is stripped, once; names containing a newline,
on which `.` would not match, are outside the model), `find_file` (tries `name`, then `name+".pil"`,
against the list of existing regular files, otherwise `parser.error` and nothing is touched), the four
scratch names `tempname+".st/.wc/.eq/.sp"` with `tempname` defaulting to the basename, and which
files each tool opens for reading (`reads`), only tests for existence with `os.path.isfile`
(`probes`) and creates / truncates / removes (`writes`).

What is opaque: the *contents* of files, and the set of source files a compile reads (`load_file`
follows `import`s through the include path and probes `X.sys` / `X.comp` for every component): it is
the parameter `Args.sources`.  The model describes runs that do not fail; a failing run stops early
and touches a subset (e.g. a syntax error in the `.sys` file: nothing is written; the unreachable
`"_" in st` exit of `design` happens before the `.sp` file is opened).

Translation notes.  `design` opens `tempname+".sp"` for writing *before* the `--just-files` return, so
the `.sp` file belongs to the write set even with `--just-files`; the `.mfe` output does not.  Without
`--just-files` the designer's output is read back from the `.sp` file, the output is written and the
four scratch files are removed when `cleanup` (removal counts as a write).  Sets are duplicate-tolerant
lists; the driver sorts and de-duplicates.

Second half: an abstract file system (`Fs`), processes as interaction trees (`Proc`: the next
operation may depend on every value read so far — this subsumes straight-line operation lists `Op`
whose written contents are functions of the values read earlier, see `Proc.ofOps`), threads,
schedules (`runSched`: one index per step = which process moves next; the complete schedules are the
interleavings, `interleavings` enumerates the stutter-free ones), and sequential execution `runSeq`.
-/
namespace Pepper.Fs

abbrev Path := String

/-! ## 1. Names -/

/-- Python `if not options.x: options.x = d` -/
def orDefault (o : Option String) (d : String) : String :=
  match o with
  | some s => if s = "" then d else s
  | none => d

/-- Python `if strandsname:` -/
def givenList (o : Option String) : List String :=
  match o with
  | some s => if s = "" then [] else [s]
  | none => []

def dropSuffix? (b suf : List Char) : Option (List Char) :=
  if suf.isSuffixOf b then some (b.take (b.length - suf.length)) else none

/-- `p = re.match(r"(.*)\.(e1|e2)\Z", b); if p: b = p.group(1)`; `exts` are given with their dot. -/
def stripExt (b : String) (exts : List String) : String :=
  match exts.findSome? (fun e => dropSuffix? b.toList e.toList) with
  | some r => String.ofList r
  | none => b

inductive Tool where
  | compile | design | finish
deriving DecidableEq, Repr

/-- The command line of any of the three tools (fields a tool does not have are ignored by it). -/
structure Args where
  /-- first positional argument: BASENAME / infilename -/
  arg0 : String
  output : Option String := none
  save : Option String := none
  tempname : Option String := none
  design : Option String := none
  seqs : Option String := none
  strands : Option String := none
  fixed : Option String := none
  /-- `--des` (compile) -/
  des : Bool := false
  /-- `--just-files` (design) -/
  justFiles : Bool := true
  /-- not `--keep-temp` (design; only matters without `--just-files`) -/
  cleanup : Bool := true
  /-- compile: the source files `load_file` opens or probes (opaque) -/
  sources : List Path := []
  /-- design: regular files present when `find_file` runs -/
  existing : List Path := []
deriving Repr

structure Invocation where
  tool : Tool
  args : Args
deriving Repr

structure Footprint where
  /-- opened for reading -/
  reads : List Path
  /-- tested with `os.path.isfile` -/
  probes : List Path
  /-- opened for writing (created / truncated) or removed -/
  writes : List Path
deriving Repr, DecidableEq

def tempExts : List String := [".eq", ".wc", ".st", ".sp"]
/-- `eqname, wcname, stname, sp_outname` in the order `design` opens them -/
def tempFiles (t : String) : List Path := tempExts.map (fun e => t ++ e)

-- compile
def compileBase (a : Args) : String := stripExt a.arg0 [".sys", ".comp"]
def compileOutput (a : Args) : Path := orDefault a.output (compileBase a ++ (if a.des then ".des" else ".pil"))
def compileSave (a : Args) : Path := orDefault a.save (compileBase a ++ ".save")

-- design
def designInfile (a : Args) : Option Path :=
  if a.arg0 ∈ a.existing then some a.arg0
  else if a.arg0 ++ ".pil" ∈ a.existing then some (a.arg0 ++ ".pil")
  else none
def designProbes (a : Args) : List Path :=
  if a.arg0 ∈ a.existing then [a.arg0] else [a.arg0, a.arg0 ++ ".pil"]
def designBase (infile : Path) : String := stripExt infile [".pil"]
def designOutput (a : Args) (infile : Path) : Path := orDefault a.output (designBase infile ++ ".mfe")
def designTemp (a : Args) (infile : Path) : String := orDefault a.tempname (designBase infile)

-- finish
def finishBase (a : Args) : String := stripExt a.arg0 [".save", ".mfe"]
def finishSave (a : Args) : Path := orDefault a.save (finishBase a ++ ".save")
def finishDesign (a : Args) : Path := orDefault a.design (finishBase a ++ ".mfe")
def finishSeqs (a : Args) : Path := orDefault a.seqs (finishBase a ++ ".seqs")

/-- The explicitly named result files of a run (after defaulting): `--output`/`--save` of a compile,
    `--output` of a design run that gets that far, `--seqs`/`--strands` of a finish. -/
def outNames (i : Invocation) : List Path :=
  match i.tool with
  | .compile => [compileOutput i.args, compileSave i.args]
  | .design =>
    match designInfile i.args with
    | some f => if i.args.justFiles then [] else [designOutput i.args f]
    | none => []
  | .finish => finishSeqs i.args :: givenList i.args.strands

/-- The scratch-name roots of a run (`--tempname` after defaulting); only design runs have one. -/
def tempRoots (i : Invocation) : List String :=
  match i.tool with
  | .design =>
    match designInfile i.args with
    | some f => [designTemp i.args f]
    | none => []
  | _ => []

def readsOf (i : Invocation) : List Path :=
  match i.tool with
  | .compile => i.args.sources ++ givenList i.args.fixed
  | .design =>
    match designInfile i.args with
    | some f => f :: (if i.args.justFiles then [] else [designTemp i.args f ++ ".sp"])
    | none => []
  | .finish => [finishSave i.args, finishDesign i.args]

def probesOf (i : Invocation) : List Path :=
  match i.tool with
  | .compile => i.args.sources ++ givenList i.args.fixed
  | .design => designProbes i.args
  | .finish => [finishSave i.args, finishDesign i.args]

def writesOf (i : Invocation) : List Path :=
  (tempRoots i).flatMap tempFiles ++ outNames i

/-- everything a run learns about the directory: contents read and existence tests -/
def observes (i : Invocation) : List Path := readsOf i ++ probesOf i

def footprintOf (i : Invocation) : Footprint := ⟨readsOf i, probesOf i, writesOf i⟩
def footprint (t : Tool) (a : Args) : Footprint := footprintOf ⟨t, a⟩

/-! ### the hypotheses of `C20.footprints_disjoint`, executable -/

/-- the explicitly given names of the two runs are pairwise distinct: no `--output`/`--save`/`--seqs`/
    `--strands` name (after defaulting) is shared, and the temp names differ -/
def namesDistinct (A B : Invocation) : Bool :=
  (outNames A).all (fun n => !(outNames B).contains n) && (tempRoots A).all (fun t => !(tempRoots B).contains t)

/-- no cross-collision from `A` to `B`: no result name or input of `A` is literally one of `B`'s scratch
    files `<temp>.eq/.wc/.st/.sp`, and no input of `A` is a result name of `B` -/
def crossFree (A B : Invocation) : Bool :=
  (outNames A ++ observes A).all (fun n => (tempRoots B).all (fun t => !(tempFiles t).contains n)) &&
  (observes A).all (fun n => !(outNames B).contains n)

/-- the decidable side condition -/
def sideCond (A B : Invocation) : Bool := crossFree A B && crossFree B A

/-- the name ends in one of the four scratch extensions -/
def hasTempExt (n : String) : Bool := tempExts.any (fun e => e.toList.isSuffixOf n.toList)

/-! ## 2. Abstract file system -/

/-- A log-structured map: the first entry for a path wins; `none` = the file does not exist. -/
structure Fs where
  entries : List (Path × Option String)
deriving Repr

def Fs.empty : Fs := ⟨[]⟩
def Fs.read (fs : Fs) (p : Path) : Option String :=
  match fs.entries.lookup p with
  | some v => v
  | none => none
def Fs.set (fs : Fs) (p : Path) (v : Option String) : Fs := ⟨(p, v) :: fs.entries⟩
def Fs.write (fs : Fs) (p : Path) (c : String) : Fs := fs.set p (some c)
def Fs.remove (fs : Fs) (p : Path) : Fs := fs.set p none
/-- same files with the same contents -/
def Fs.same (a b : Fs) : Prop := ∀ p, a.read p = b.read p
/-- directory listing with contents, each existing path once (in order of last modification) -/
def Fs.files (fs : Fs) : List (Path × String) :=
  (fs.entries.map Prod.fst).eraseDups.filterMap (fun p => (fs.read p).map (fun c => (p, c)))

/-! ## 3. Processes -/

/-- A process: what it does next may depend on every value it has read so far. -/
inductive Proc where
  | done : Proc
  | read (p : Path) (k : Option String → Proc) : Proc
  | write (p : Path) (c : String) (k : Proc) : Proc
  | remove (p : Path) (k : Proc) : Proc

/-- every read of the process is in `R` and every write / remove in `W`, on every branch -/
def Proc.Within (R W : List Path) : Proc → Prop
  | .done => True
  | .read p k => p ∈ R ∧ ∀ v, (k v).Within R W
  | .write p _ k => p ∈ W ∧ k.Within R W
  | .remove p k => p ∈ W ∧ k.Within R W

/-- run a process alone to completion; returns the file system and the values it read, oldest first -/
def Proc.run : Proc → Fs → List (Option String) → Fs × List (Option String)
  | .done, fs, log => (fs, log)
  | .read p k, fs, log => (k (fs.read p)).run fs (log ++ [fs.read p])
  | .write p c k, fs, log => k.run (fs.set p (some c)) log
  | .remove p k, fs, log => k.run (fs.set p none) log

/-- Straight-line operations: the content written is a function of the values read earlier. -/
inductive Op where
  | read (p : Path)
  | write (p : Path) (content : List (Option String) → String)
  | remove (p : Path)

def Proc.ofOps : List Op → List (Option String) → Proc
  | [], _ => .done
  | .read p :: r, log => .read p (fun v => Proc.ofOps r (log ++ [v]))
  | .write p f :: r, log => .write p (f log) (Proc.ofOps r log)
  | .remove p :: r, log => .remove p (Proc.ofOps r log)

/-- A process together with its declared footprint. -/
structure Job where
  proc : Proc
  reads : List Path
  writes : List Path

/-- two jobs do not touch each other's files -/
def Indep (a b : Job) : Prop :=
  (∀ p ∈ a.writes, p ∉ b.writes) ∧ (∀ p ∈ a.reads, p ∉ b.writes) ∧ (∀ p ∈ b.reads, p ∉ a.writes)

structure Thread where
  job : Job
  proc : Proc
  log : List (Option String)

def Thread.start (j : Job) : Thread := ⟨j, j.proc, []⟩
def Thread.isDone (t : Thread) : Bool :=
  match t.proc with
  | .done => true
  | _ => false

/-- one operation of one thread -/
def Thread.step (t : Thread) (fs : Fs) : Fs × Thread :=
  match t.proc with
  | .done => (fs, t)
  | .read p k => (fs, { t with proc := k (fs.read p), log := t.log ++ [fs.read p] })
  | .write p c k => (fs.set p (some c), { t with proc := k })
  | .remove p k => (fs.set p none, { t with proc := k })

structure Config where
  fs : Fs
  threads : List Thread

def Config.init (fs : Fs) (js : List Job) : Config := ⟨fs, js.map Thread.start⟩
def Config.complete (c : Config) : Bool := c.threads.all Thread.isDone
def Config.logs (c : Config) : List (List (Option String)) := c.threads.map Thread.log

def stepThreads : Nat → Fs → List Thread → Fs × List Thread
  | _, fs, [] => (fs, [])
  | 0, fs, t :: ts => ((t.step fs).1, (t.step fs).2 :: ts)
  | n + 1, fs, t :: ts => ((stepThreads n fs ts).1, t :: (stepThreads n fs ts).2)

/-- thread number `i` performs its next operation (nothing happens if it has finished or does not exist) -/
def Config.stepAt (c : Config) (i : Nat) : Config :=
  ⟨(stepThreads i c.fs c.threads).1, (stepThreads i c.fs c.threads).2⟩

/-- run a schedule: the list says which thread moves at each step -/
def runSched (s : List Nat) (c : Config) : Config := s.foldl Config.stepAt c

/-- run the jobs one after another, each to completion; returns the final file system and each job's read log -/
def runSeq (fs : Fs) : List Job → Fs × List (List (Option String))
  | [] => (fs, [])
  | j :: js => ((runSeq (j.proc.run fs []).1 js).1, (j.proc.run fs []).2 :: (runSeq (j.proc.run fs []).1 js).2)

def interleavingsAux : Nat → List Nat → List (List Nat)
  | 0, _ => [[]]
  | fuel + 1, ns =>
    if ns.all (· == 0) then [[]]
    else (List.range ns.length).flatMap (fun i =>
      if ns.getD i 0 > 0 then (interleavingsAux fuel (ns.set i (ns.getD i 0 - 1))).map (i :: ·) else [])

/-- all schedules in which thread `i` moves exactly `ns[i]` times: the interleavings of straight-line
    processes with `ns[i]` operations -/
def interleavings (ns : List Nat) : List (List Nat) := interleavingsAux ns.sum ns

/-! ## 4. The tools as straight-line processes over opaque contents -/

/-- `content p log`: what the tool writes into `p` after having read the values `log`. -/
def toolOps (i : Invocation) (content : Path → List (Option String) → String) : List Op :=
  let w := fun p => Op.write p (content p)
  match i.tool with
  | .compile => (readsOf i).map Op.read ++ [w (compileOutput i.args), w (compileSave i.args)]
  | .design =>
    match designInfile i.args with
    | none => []
    | some f =>
      let t := designTemp i.args f
      Op.read f :: (tempFiles t).map w ++
        (if i.args.justFiles then []
         else [Op.read (t ++ ".sp"), w (designOutput i.args f)] ++
              (if i.args.cleanup then [t ++ ".st", t ++ ".wc", t ++ ".eq", t ++ ".sp"].map Op.remove else []))
  | .finish => [Op.read (finishSave i.args), Op.read (finishDesign i.args), w (finishSeqs i.args)] ++
      (givenList i.args.strands).map w

def Op.within (R W : List Path) : Op → Prop
  | .read p => p ∈ R
  | .write p _ => p ∈ W
  | .remove p => p ∈ W

def toolJob (i : Invocation) (content : Path → List (Option String) → String) : Job :=
  ⟨Proc.ofOps (toolOps i content) [], observes i, writesOf i⟩

end Pepper.Fs
