import PepperModel.Fix
/-!
# Specification of fixed sequences (the reference side of C12)

`Fix.lean` mirrors the *code* (`fix_seq` recursing through `seqs`, slicing the string, `wc(...)` for
starred views).  This file says what fixing *means*, without recursion over objects:

* a **position** is `(base sequence, index, complemented?)`; the positions of a view are read off the
  `base_seqs` list the compiler already keeps for every object (`posOfView`);
* `narrow` replaces the code at one position by its intersection with one letter (complemented where the
  position is flagged);
* `specFix` narrows position `k` by letter `k`, for all `k`, after checking the length.

It also defines the well-formedness invariant `wfB` of a loaded component (every reference resolves to an
entry of the recorded length and kind, `base_seqs` of a composite object is the concatenation of its
items' views, references only point backwards) as one executable check, so that the driver can evaluate
it on every program of a run.  Everything here is new (no Python counterpart); executable, core-only.
-/
namespace Pepper.FixSpec
open Pepper.Comp Pepper.Fix

/-- base-sequence name, index, complemented? -/
abbrev Pos := String × Nat × Bool

def flipPos (p : Pos) : Pos := (p.1, p.2.1, !p.2.2)

/-- total complement of a letter (identity off the table) -/
def complC (t : CodeTable) (c : Char) : Char := (t.complOf c).getD c

/-- positions of one `base_seqs` member read 5'→3' -/
def posOfBase (b : BaseRef) : List Pos :=
  if b.rev then ((List.range b.len).map (fun i => ((b.name, i, true) : Pos))).reverse
  else (List.range b.len).map (fun i => ((b.name, i, false) : Pos))

def posOfBases (bs : List BaseRef) : List Pos := bs.flatMap posOfBase

/-- the positions of the view `name` / `name*` of a sequence or super-sequence: its `base_seqs` unfolded;
    the starred view is the reversed list with the flags flipped -/
def posOfView (st : St) (name : String) (rev : Bool) : List Pos :=
  match st.findSeq name with
  | none => []
  | some e => if rev then (posOfBases e.bases).reverse.map flipPos else posOfBases e.bases

def posOfItem (st : St) (i : ItemRef) : List Pos := posOfView st i.name i.rev

/-- the letter that lands on the base sequence itself -/
def codeFor (t : CodeTable) (p : Pos) (c : Char) : Char := if p.2.2 then complC t c else c

/-- intersection of two codes, `none` when it is empty (or an argument is not a code) -/
def interO (t : CodeTable) (c d : Char) : Option Char :=
  match t.intersect c d with
  | .ok e => some e
  | .error _ => none

/-- narrow index `i` of a long-form constraint by letter `d` -/
def narrowC (t : CodeTable) (cs : List Char) (i : Nat) (d : Char) : Option (List Char) :=
  (cs[i]?).bind fun x => (interO t x d).map fun y => cs.set i y

/-- narrow one position by one letter: `const[i] := const[i] ∩ (compl c | c)`; `none` when the
    intersection is empty (also when the position does not exist, which well-formedness excludes) -/
def narrow (t : CodeTable) (st : St) (p : Pos) (c : Char) : Option St :=
  (st.findSeq p.1).bind fun e => (narrowC t e.const p.2.1 (codeFor t p c)).map (setConst st p.1)

def specFold (t : CodeTable) (st : St) : List (Pos × Char) → Option St
  | [] => some st
  | (p, c) :: r => (narrow t st p c).bind fun st' => specFold t st' r

/-- fixing the positions `pos` to the string `str`: a wrong length is `Err.length`, an empty intersection
    is `Err.empty`, otherwise every position has been narrowed by its letter -/
def specFix (t : CodeTable) (st : St) (pos : List Pos) (str : List Char) : Except Fix.Err St :=
  if pos.length != str.length then .error .length
  else match specFold t st (pos.zip str) with
    | some st' => .ok st'
    | none => .error .empty

/-- the positions of a strand, by name -/
def posOfStrandName (st : St) (n : String) : List Pos :=
  match st.findStrand n with
  | some s => posOfBases s.bases
  | none => []

/-- `Structure.fix_seq` as a specification: the string is split at `+` into one part per strand, each part
    must have as many letters as its strand has positions, and then the positions of all strands, in order,
    are fixed to the letters of all parts, in order -/
def specFixStruct (t : CodeTable) (st : St) (e : StructE) (str : List Char) : Except Fix.Err St :=
  let parts := Notation.splitOn '+' str
  let l := e.strands.zip parts
  if parts.length != e.strands.length then .error .strandCount
  else if !l.all (fun np => (posOfStrandName st np.1).length == np.2.length) then .error .length
  else specFix t st (l.flatMap (fun np => posOfStrandName st np.1)) parts.flatten

/-- reverse complement of a string of codes -/
def wc (t : CodeTable) (s : List Char) : List Char := s.reverse.map (complC t)

open Pepper.Sys in
/-- replace the instance `cn` of a system -/
def updComp (st : SysSt) (cn : String) (sub' : Inst) : SysSt :=
  match st with
  | .mk p n pf tm sg l comps i o =>
    .mk p n pf tm sg l (comps.map (fun (c, x) => if c == cn then (c, sub') else (c, x))) i o

open Pepper.Sys in
/-- `fix_signal`, one binding, as a specification: the string that reaches the bound object is `str` when the
    parity flag of the binding is false and its reverse complement when it is true; a component's port
    sequence (always the unstarred object) is fixed to it position by position, a sub-system's signal is
    fixed to it one level down -/
def sigStepSpec (t : CodeTable) (fuel : Nat) (str : List Char) (acc : SysSt) (e : SigEntry) : Except Fix.Err SysSt :=
  let s := if e.wc then wc t str else str
  match acc.components.lookup e.comp with
  | none => .error .key
  | some sub =>
    match e.port, sub with
    | .seq it _, .comp cs =>
      if (cs.findSeq it.name).isSome then
        (specFix t cs (posOfView cs it.name false) s).map (fun cs' => updComp acc e.comp (.comp cs'))
      else .error .key
    | .sig sn, .sys ss =>
      match fixSignal t fuel ss sn s with
      | .error x => .error x
      | .ok none => .error .key
      | .ok (some ss') => .ok (updComp acc e.comp (.sys ss'))
    | _, _ => .error .key

/-! ### well-formedness of a loaded component -/

def idxOf (st : St) (n : String) : Nat := st.seqs.findIdx (·.name == n)

/-- a `seqs` entry without its constraint string / a component with all constraint strings erased:
    everything a fix must leave untouched -/
def sk (e : SeqE) : SeqE := { e with const := [] }
def skel (st : St) : St := { st with seqs := st.seqs.map sk }

def basesOfItem (st : St) (i : ItemRef) : List BaseRef :=
  match st.findSeq i.name with
  | some e => basesOfView e i.rev
  | none => []

/-- the reference resolves to an entry of the recorded length and kind; a super-sequence it points to was
    defined before position `bound` -/
def itemOK (st : St) (bound : Nat) (i : ItemRef) : Bool :=
  match st.findSeq i.name with
  | some e => e.len == i.len && e.isSup == i.isSup && (!e.isSup || decide (idxOf st i.name < bound))
  | none => false

/-- shape of one `seqs` entry: recorded lengths add up, items resolve, `base_seqs` is the concatenation of
    the items' views (an atomic sequence is its own single base sequence) -/
def seqOK (st : St) (e : SeqE) : Bool :=
  (e.bases.map (·.len)).sum == e.len
  && (if e.isSup then
        e.items.all (itemOK st (idxOf st e.name))
        && decide (e.bases = e.items.flatMap (basesOfItem st))
        && e.len == (e.items.map (·.len)).sum
      else
        decide (e.bases = [⟨e.name, false, e.len⟩]))

/-- the long-form constraint of an atomic sequence has the recorded length and consists of codes -/
def constOK (t : CodeTable) (e : SeqE) : Bool :=
  e.const.all t.isCode && (e.isSup || e.const.length == e.len)

def strandOK (st : St) (s : StrandE) : Bool :=
  s.items.all (itemOK st st.seqs.length)
  && decide (s.bases = s.items.flatMap (basesOfItem st))
  && s.len == (s.items.map (·.len)).sum
  && (s.bases.map (·.len)).sum == s.len

def structOK (st : St) (x : StructE) : Bool := x.strands.all (fun n => (st.findStrand n).isSome)

/-- the part of the invariant that does not look at constraint strings -/
def shapeB (st : St) : Bool :=
  decide ((st.seqs.map (·.name)).Nodup)
  && st.seqs.all (seqOK st)
  && st.strands.all (strandOK st)
  && st.structs.all (structOK st)

/-- the invariant of a loaded component that the theorems of C12 assume -/
def wfB (t : CodeTable) (st : St) : Bool := shapeB st && st.seqs.all (constOK t)

open Pepper.Sys in
/-- every component of an instance tree is well-formed (to the depth the fuel reaches) -/
def wfInst (t : CodeTable) : Nat → Inst → Bool
  | _, .comp s => wfB t s
  | 0, .sys _ => true
  | fuel + 1, .sys st => st.components.all (fun p => wfInst t fuel p.2)

end Pepper.FixSpec
