import PepperModel.Mfe
/-!
# The GC-content field of a `.mfe` record: `"%f" % (k / n)` in exact integer arithmetic
(mirrors, in `Convert.output` of `design/constraint_load.py`,
`gc_content = (seq.count("C") + seq.count("G")) / length` and `f.write("%s %f %f %d\n" % (seq, 0, gc_content, 0))`)

No `Float` anywhere: both steps of CPython are correctly rounded operations on rationals, so they are functions on `Nat`.

* `k / n` on two Python ints is `long_true_divide`: the IEEE-754 binary64 number nearest to the rational `k/n`, ties to
  even (for operands below `2^53` it is the hardware division of the two exactly converted doubles, which is the same
  thing).  For `0 < k ≤ n` the result is `m / 2^s` with `2^52 ≤ m ≤ 2^53`: `binade k n` picks `s` so that
  `2^52 ≤ k·2^s / n < 2^53` and `m = roundHalfEven (k·2^s) n` (`divRne`).  `k = 0` gives `0`.
  The exponent range of binary64 is not modelled (unbounded exponent): `k/n ≥ 1/n` is a normal number unless
  `n ≥ 2^1022`, and for such `n` both the real subnormal/zero result and the model's are below `5·10^-7` and print as
  `0.000000`; sequence lengths are machine integers anyway.
* `"%f" % x` is `PyOS_double_to_string(x, 'f', 6, …)`, i.e. David Gay's correctly rounded `dtoa` in mode 3: the EXACT
  binary value `m / 2^s` rounded to 6 decimals, ties to even ON THE EXACT VALUE (so `"%f" % (1/128)` — exactly
  `0.0078125` — is `0.007812`, and `"%f" % (3/128)` is `0.023438`).  `fmtF6 m s` is `roundHalfEven (m·10^6) (2^s)`
  written as integer part, `.`, six zero-padded digits.
* `"%f" % 0` (an `int` argument is converted with `float()`) is `fmtF6 0 0`; `"%d" % 0` is `Nat.repr 0`.

`recordLine` is the whole line `"%s %f %f %d"`; `Mfe.recordGc` / `Mfe.outputGc` are `Mfe.record` / `Mfe.output` with the
real token where those write the opaque `GC`:
* a structure: `(struct.seq.count("C") + struct.seq.count("G")) / struct.length`, where `struct.seq` is the `+`-join of the
  strands' letters and `struct.length` is the SUM OF THE STRAND LENGTHS (`Structure.__init__`), i.e. the `+` signs are not
  counted in the denominator (and are neither `C` nor `G`);
* a sequence: `(seq.seq.count("C") + seq.seq.count("G")) / seq.length`; `str.count` counts the literal letters `C` and
  `G` only, so a degenerate code of an undesigned position (`S`, `N`, …) contributes nothing; `seq.seq` has `seq.length`
  letters;
* the starred record of a sequence re-uses THE SAME `gc_content` variable (the value of the forward sequence — the
  reverse complement is not counted again; for designed letters the two agree, for templates with e.g. `B`/`V` a recount
  would also agree since only literal `C`/`G` count and they swap).
A zero-length sequence raises `ZeroDivisionError` in Python; `gcToken k 0` is a junk value (`0.000000`) and the theorems
carry `0 < n` (compiled programs have no zero-length record: `C06.Text.lengths_nonzero_of_compile`).
-/
namespace Pepper.GcFloat

/-- `a / b` rounded to the nearest integer, ties to even (`b > 0`) -/
def roundHalfEven (a b : Nat) : Nat :=
  let q := a / b
  let r := a % b
  if 2 * r > b || (2 * r == b && q % 2 == 1) then q + 1 else q

/-- the binary exponent of the quotient: the `s` with `2^52 ≤ k·2^s / n < 2^53` (for `0 < k ≤ n`) -/
def binade (k n : Nat) : Nat :=
  let s0 := 52 + (n.log2 - k.log2)
  if 2 ^ 52 * n ≤ k * 2 ^ s0 then s0 else s0 + 1

/-- Python's `k / n` on ints (`0 ≤ k ≤ n`, `0 < n`): the double is `(divRne k n).1 / 2^(divRne k n).2` -/
def divRne (k n : Nat) : Nat × Nat :=
  if k == 0 then (0, 0) else
    let s := binade k n
    (roundHalfEven (k * 2 ^ s) n, s)

def digit (d : Nat) : Char := Nat.digitChar (d % 10)

/-- six decimals, zero-padded -/
def pad6 (f : Nat) : List Char :=
  [digit (f / 100000), digit (f / 10000), digit (f / 1000), digit (f / 100), digit (f / 10), digit f]

/-- `"%f" % x` for the non-negative double `x = m / 2^s` -/
def fmtF6 (m s : Nat) : List Char :=
  let q := roundHalfEven (m * 1000000) (2 ^ s)
  (Nat.repr (q / 1000000)).toList ++ '.' :: pad6 (q % 1000000)

/-- **`"%f" % (k / n)`** -/
def gcToken (k n : Nat) : List Char :=
  let d := divRne k n
  fmtF6 d.1 d.2

/-- `"%f" % 0` -/
def fmtF0 : List Char := fmtF6 0 0
/-- `"%d" % 0` -/
def fmtD0 : List Char := (Nat.repr 0).toList

/-- `"%s %f %f %d" % (seq, 0, k / n, 0)` (without the newline) -/
def recordLine (seq : List Char) (k n : Nat) : List Char :=
  seq ++ ' ' :: fmtF0 ++ ' ' :: gcToken k n ++ ' ' :: fmtD0

/-- `s.count("C") + s.count("G")` -/
def gcCount (s : List Char) : Nat := s.count 'C' + s.count 'G'

end Pepper.GcFloat

namespace Pepper.Mfe
open Pepper.Pil Pepper.GcFloat

/-- one record of the `.mfe` file as four lines, with the GC-content `k / n` printed as Python prints it -/
def recordGc (num : Nat) (name : String) (seq struct1 struct2 : List Char) (k n : Nat) : List String :=
  [toString num ++ ":" ++ name, String.ofList (recordLine seq k n), String.ofList struct1, String.ofList struct2]

/-- `output(outname, findmfe=False)` after `process_results`, GC-content included: the whole text of the file -/
def outputGc (t : CodeTable) (spec : Spec) (a : Assigned) (strandSeqs : List (String × List Char)) : Option (List String) := do
  let structLines ← (List.zip (List.range spec.structs.length) spec.structs).mapM (fun (n, so) => do
    let parts ← so.strands.mapM (fun sn => strandSeqs.lookup sn)
    let s := joinPlus parts
    -- `struct.length` = sum of `strand.length`; `strand.seq` has `strand.length` letters (`set_seq` asserts it)
    pure (recordGc n so.name s so.struct so.struct (gcCount s) (parts.map List.length).sum))
  let seqLines ← (List.zip (List.range spec.seqs.length) spec.seqs).mapM (fun (n, o) => do
    let s ← getSeq t spec a (spec.seqs.length + 2) ⟨o.name, false⟩
    let w ← t.wcStr s
    let dots := List.replicate o.len '.'
    -- the starred record is written with the forward sequence's `gc_content`
    pure (recordGc (n + spec.structs.length) o.name s dots dots (gcCount s) o.len
          ++ recordGc 0 (o.name ++ "*") w dots dots (gcCount s) o.len))
  pure (structLines.flatten ++ seqLines.flatten ++ ["Total n(s*) = " ++ String.ofList fmtF0])

end Pepper.Mfe
