import PepperModel.Comp
/-!
# Systems: imports, instances, signals, emission, fixed sequences, top-level compile
(mirrors `system_class.load_file`, `system_class.System` (`add_import`, `add_component`, `add_IO`,
`output_synthesis`, `output_nupack`), the statement loop of `system_parser.load_system`, and
`compiler.compiler` / `compiler.fix_signal` / `*.fix_seq` of `DNA_classes`)

The file system is a `Bundle`: normalised path ↦ parsed source.  `os.path.join` / `dirname` are
modelled on `/`-separated strings.  Template arguments arrive already substituted into the sources
(parameter substitution is C13's model); only the *number* of arguments is checked here.
-/
namespace Pepper.Sys
open Pepper.Comp

/-! ### sources -/

structure SigRef where
  name : String
  star : Bool
deriving Repr, DecidableEq, BEq

inductive SStmt
  | imports (items : List (String × Option String))            -- path, optional alias
  | component (name templ : String) (args : Nat) (ins outs : List SigRef)
deriving Repr, DecidableEq, BEq

structure SSrc where
  name : String
  params : List String
  inputs : List SigRef
  outputs : List SigRef
  stmts : List SStmt
deriving Repr, DecidableEq, BEq

inductive FileSrc
  | comp (c : Comp.Src)
  | sys (s : SSrc)
deriving Repr

/-- path (normalised, with extension) ↦ source.  A template instantiated with different arguments is
    a different source text after substitution: the key carries the argument tuple rendered by the
    harness (`path@args`), the bare path answers "does the file exist". -/
structure Bundle where
  files : List (String × FileSrc)
  exists_ : List String
deriving Repr

/-! ### paths -/

def splitSlash (s : String) : List String := s.splitOn "/"

/-- `os.path.normpath` on relative `/`-paths without `..` -/
def normPath (p : String) : String :=
  let segs := (splitSlash p).filter (fun x => x != "" && x != ".")
  let r := Comp.joinWith "/" segs
  if p.startsWith "/" then "/" ++ r else if r == "" then "." else r

/-- `os.path.join(a, b)` -/
def pathJoin (a b : String) : String :=
  if b.startsWith "/" then b else if a == "" then b else if a.endsWith "/" then a ++ b else a ++ "/" ++ b

/-- `os.path.dirname` -/
def dirname (p : String) : String :=
  match (splitSlash p).reverse with
  | [] => ""
  | [_] => ""
  | _ :: r => let d := Comp.joinWith "/" r.reverse; if d == "" && p.startsWith "/" then "/" else d

/-! ### object model -/

inductive Port
  | seq (i : ItemRef) (bases : List BaseRef)     -- a component's sequence object (unreversed after the F2 repair)
  | sig (name : String)                          -- a sub-system's signal, by name
deriving Repr, DecidableEq, BEq

structure SigEntry where
  port : Port
  comp : String
  wc : Bool
deriving Repr, DecidableEq, BEq

mutual
inductive Inst
  | comp (st : Comp.St)
  | sys (st : SysSt)
inductive SysSt
  | mk (path name pfx : String) (template : List (String × String))
       (signals : List (String × List SigEntry)) (lengths : List (String × Nat))
       (components : List (String × Inst)) (inputSeqs outputSeqs : List SigRef)
end

def SysSt.path : SysSt → String | .mk p _ _ _ _ _ _ _ _ => p
def SysSt.name : SysSt → String | .mk _ n _ _ _ _ _ _ _ => n
def SysSt.pfx : SysSt → String | .mk _ _ p _ _ _ _ _ _ => p
def SysSt.template : SysSt → List (String × String) | .mk _ _ _ t _ _ _ _ _ => t
def SysSt.signals : SysSt → List (String × List SigEntry) | .mk _ _ _ _ s _ _ _ _ => s
def SysSt.lengths : SysSt → List (String × Nat) | .mk _ _ _ _ _ l _ _ _ => l
def SysSt.components : SysSt → List (String × Inst) | .mk _ _ _ _ _ _ c _ _ => c
def SysSt.inputSeqs : SysSt → List SigRef | .mk _ _ _ _ _ _ _ i _ => i
def SysSt.outputSeqs : SysSt → List SigRef | .mk _ _ _ _ _ _ _ _ o => o

inductive Err
  | comp (e : Comp.Err)
  | ambiguous | missing | dupImport | unknownTemplate | dupComponent | portCount
  | dummySignal | signalLength | undefinedSignal | arity | fuel | wrongKind
deriving Repr

/-- first match of `base.sys` / `base.comp` in `dir :: includes` — `load_file`'s search loop.
    `probe p` says whether file `p` exists. -/
def resolveImport (probe : String → Bool) (base : String) (dir : String) (includes : List String) :
    Except Err (String × Bool × String) :=     -- (file name, is system, new_path)
  let rec go : List String → Except Err (String × Bool × String)
    | [] => .error .missing
    | inc :: r =>
      let bp := pathJoin inc base
      let issys := probe (bp ++ ".sys")
      let iscomp := probe (bp ++ ".comp")
      if issys && iscomp then .error .ambiguous
      else if issys then .ok (bp ++ ".sys", true, dirname bp)
      else if iscomp then .ok (bp ++ ".comp", false, dirname bp)
      else go r
  go (dir :: includes)

def lookupSig (l : List (String × List SigEntry)) (n : String) : Option (List SigEntry) := l.lookup n

def addSig (sigs : List (String × List SigEntry)) (n : String) (e : SigEntry) : List (String × List SigEntry) :=
  if (sigs.lookup n).isSome then sigs.map (fun (k, v) => if k == n then (k, v ++ [e]) else (k, v))
  else sigs ++ [(n, [e])]

mutual
/-- `load_file` -/
def loadFile (b : Bundle) (fuel : Nat) (base : String) (args : Nat) (argKey : String) (pfx : String)
    (path : String) (includes : List String) (anon : Nat) : Except Err (Inst × Nat) :=
  match fuel with
  | 0 => .error .fuel
  | fuel + 1 =>
    match resolveImport (fun p => b.exists_.contains (normPath p)) base path includes with
    | .error e => .error e
    | .ok (fname, issys, newPath) =>
      let key := normPath fname ++ argKey
      match b.files.lookup key with
      | none => .error .missing
      | some (.comp c) =>
        if issys then .error .wrongKind else
        match Comp.load c args pfx anon with
        | .ok (st, a) => .ok (.comp st, a)
        | .error e => .error (.comp e)
      | some (.sys s) =>
        if !issys then .error .wrongKind else
        if s.params.length != args then .error .arity else
        match loadStmts b fuel includes s.stmts (.mk newPath s.name pfx [] [] [] [] [] []) anon with
        | .error e => .error e
        | .ok (st, a) =>
          -- add_IO
          if !(s.inputs ++ s.outputs).all (fun r => (st.signals.lookup r.name).isSome) then .error .undefinedSignal
          else match st with
            | .mk p n pf t sg l c _ _ => .ok (.sys (.mk p n pf t sg l c s.inputs s.outputs), a)

def loadStmts (b : Bundle) (fuel : Nat) (includes : List String) : List SStmt → SysSt → Nat → Except Err (SysSt × Nat)
  | [], st, a => .ok (st, a)
  | .imports items :: r, st, a =>
    let rec addImports : List (String × Option String) → List (String × String) → Except Err (List (String × String))
      | [], t => .ok t
      | (p, al) :: rest, t =>
        let name := match al with
          | some n => n
          | none => match (splitSlash p).reverse with | x :: _ => x | [] => p
        if (t.lookup name).isSome then .error .dupImport else addImports rest (t ++ [(name, p)])
    match addImports items st.template with
    | .error e => .error e
    | .ok t => match st with
      | .mk p n pf _ sg l c i o => loadStmts b fuel includes r (.mk p n pf t sg l c i o) a
  | .component cname templ args ins outs :: r, st, a =>
    match st.template.lookup templ with
    | none => .error .unknownTemplate
    | some tpath =>
      if (st.components.lookup cname).isSome then .error .dupComponent else
      -- the argument tuple is part of the bundle key; the harness renders it as "@(…)" after the instance path
      match loadFile b fuel tpath args ("@" ++ st.pfx ++ cname) (st.pfx ++ cname ++ "-") st.path includes a with
      | .error e => .error e
      | .ok (inst, a') =>
        let bind (sigs : List (String × List SigEntry)) (lens : List (String × Nat))
            (globs : List SigRef) (ports : List (Port × Bool × Nat × Bool)) :
            Except Err (List (String × List SigEntry) × List (String × Nat)) :=
          (List.zip globs ports).foldlM (fun (acc : List (String × List SigEntry) × List (String × Nat)) (gp : SigRef × (Port × Bool × Nat × Bool)) =>
            let (g, (port, locWc, len, dummy)) := gp
            let wc := g.star != locWc
            match acc.2.lookup g.name with
            | none => if dummy then .error .dummySignal
                      else .ok (addSig acc.1 g.name ⟨port, cname, wc⟩, acc.2 ++ [(g.name, len)])
            | some l0 => if l0 != len then .error .signalLength
                         else .ok (addSig acc.1 g.name ⟨port, cname, wc⟩, acc.2)) (sigs, lens)
        match inst with
        | .comp cst =>
          if ins.length != cst.inputSeqs.length || outs.length != cst.outputSeqs.length then .error .portCount else
          let ports := (cst.inputSeqs ++ cst.outputSeqs).map (fun (i : ItemRef) =>
            let fwdRef : ItemRef := { i with rev := false }
            let bases := match cst.findSeq i.name with | some e => e.bases | none => []
            (Port.seq fwdRef bases, i.rev, i.len, i.len == 0))
          match bind st.signals st.lengths (ins ++ outs) ports with
          | .error e => .error e
          | .ok (sg, l) => match st with
            | .mk p n pf t _ _ c i o => loadStmts b fuel includes r (.mk p n pf t sg l (c ++ [(cname, inst)]) i o) a'
        | .sys sst =>
          if ins.length != sst.inputSeqs.length || outs.length != sst.outputSeqs.length then .error .portCount else
          let ports := (sst.inputSeqs ++ sst.outputSeqs).map (fun (r : SigRef) =>
            (Port.sig r.name, r.star, (sst.lengths.lookup r.name).getD 0, false))
          match bind st.signals st.lengths (ins ++ outs) ports with
          | .error e => .error e
          | .ok (sg, l) => match st with
            | .mk p n pf t _ _ c i o => loadStmts b fuel includes r (.mk p n pf t sg l (c ++ [(cname, inst)]) i o) a'
end

/-! ### emission -/

mutual
def emitPilInst : Inst → List String
  | .comp st => Comp.emitPil st
  | .sys st => emitPilSys st
def emitPilSys : SysSt → List String
  | .mk _ _ pfx _ signals lengths components _ _ =>
    emitPilComps components ++
    signals.flatMap (fun (sg, entries) =>
      let len := (lengths.lookup sg).getD 0
      let sname := pfx ++ sg
      ["sequence " ++ sname ++ " = " ++ String.ofList (List.replicate len 'N') ++ " : " ++ toString len,
       "equal " ++ sname ++ " " ++ String.join (entries.map (fun e =>
          (match e.port with
           | .seq i _ => pfx ++ e.comp ++ "-" ++ i.name
           | .sig n => pfx ++ e.comp ++ "-" ++ n) ++ (if e.wc then "* " else " ")))])
def emitPilComps : List (String × Inst) → List String
  | [] => []
  | (_, i) :: r => emitPilInst i ++ emitPilComps r
end

/-- the name `System.output_nupack` gives the connector of a signal entry, after the signal's own name -/
def SigEntry.connName (e : SigEntry) : String :=
  match e.port with
  | .seq i _ => e.comp ++ "-" ++ i.name
  | .sig n => e.comp ++ "-" ++ n

/-- `done` set of `System.output_nupack`: a port bound to one signal twice in the same orientation (as an input and as
    an output of the instance) gets one connector (repair F17) -/
def dedupEntriesAux : List (String × Bool) → List SigEntry → List SigEntry
  | _, [] => []
  | seen, e :: r =>
    if seen.contains (e.connName, e.wc) then dedupEntriesAux seen r
    else e :: dedupEntriesAux ((e.connName, e.wc) :: seen) r
def dedupEntries (es : List SigEntry) : List SigEntry := dedupEntriesAux [] es

/-- suffix of a connector's structure name: a port bound to the signal in BOTH orientations gets two connectors, and the
    one of the complementary binding is called `…-_rc` (repair F17b) -/
def rcSuffix (es : List SigEntry) (e : SigEntry) : String :=
  if e.wc && es.any (fun e' => e'.connName == e.connName && !e'.wc) then "-_rc" else ""

mutual
def emitDesInst : Inst → List String
  | .comp st => Comp.emitDes st
  | .sys st => emitDesSys st
def emitDesSys : SysSt → List String
  | .mk _ _ pfx _ signals lengths components _ _ =>
    emitDesComps components ++
    signals.flatMap (fun (sg, entries) =>
      let len := (lengths.lookup sg).getD 0
      let sname := pfx ++ sg
      let wcName := sname ++ "-_WC"
      let duplex := String.ofList (List.replicate len '(' ++ '+' :: List.replicate len ')')
      ["sequence " ++ sname ++ " = " ++ String.ofList (List.replicate len 'N'),
       "sequence " ++ wcName ++ " = " ++ String.ofList (List.replicate len 'N'),
       "structure " ++ sname ++ "-_Self = " ++ duplex,
       sname ++ "-_Self : " ++ wcName ++ " " ++ sname] ++
      (dedupEntries entries).flatMap (fun e =>
        let (sigName, seqs) := match e.port with
          | .seq i bases =>
            if i.isSup then (e.comp ++ "-" ++ i.name,
              Comp.joinWith " " ((bases.filter (·.len != 0)).map (fun b => pfx ++ e.comp ++ "-" ++ b.name ++ (if b.rev then "*" else ""))))
            else (e.comp ++ "-" ++ i.name, pfx ++ e.comp ++ "-" ++ i.name)
          | .sig n => (e.comp ++ "-" ++ n, pfx ++ e.comp ++ "-" ++ n)
        let dn := sname ++ "-" ++ sigName ++ rcSuffix entries e
        ["structure " ++ dn ++ " = " ++ duplex,
         dn ++ " : " ++ (if e.wc then sname else wcName) ++ " " ++ seqs]))
def emitDesComps : List (String × Inst) → List String
  | [] => []
  | (_, i) :: r => emitDesInst i ++ emitDesComps r
end

end Pepper.Sys
