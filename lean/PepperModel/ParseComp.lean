import PepperModel.Comp
/-!
# Statement-level text parsing of `.comp` files
(mirrors `peppercompiler/utils.py` `match`; `peppercompiler/component_parser_regex.py`
`parse_declare_statement`, `parse_signal`, `parse_general_sequence_statement`, `parse_strand_statement`,
`parse_structure_statement`, `parse_kinetic_statement`, `parse_constraints`, `parse_constraint`; and the statement
loop of `peppercompiler/component_parser.py` `load_component` from `doc.split("\n")` on)

Input of this model: the declare line (first statement of the file) and the document text AFTER comment stripping
and parameter substitution (`var_substitute.process_list`, modelled in `PepperModel/Subst.lean`).  Output: the
component source AST `Comp.Src` that `Comp.load` consumes.

**Regular expressions.**  `utils.match(regex, line)` replaces every space of the pattern by `\s+`, appends `\s*\Z`
and calls `re.match` (anchored at the start).  Python's `re` is a backtracking engine: a quantifier is greedy (tries
the longest repetition first and gives characters back one at a time), an optional group / `?` tries "present"
before "absent", alternatives are tried left to right, and the first complete match found in that order is THE
match (its groups are what `m.group` returns).  This file transcribes each regex combinator by combinator into
continuation-passing style: a piece of a pattern is a function taking the continuation `k` (the rest of the
pattern, which receives what the piece captured) and the input; `star`/`plus` try the longest run first and fall
back (`Option.orElse`) to shorter ones exactly like the engine; `alt a b` is `a` or else `b`.  The first `some` in
that order is the engine's match.  Each definition `re…` below carries the Python pattern (after the `utils.match`
rewriting) in its doc-comment.  Literal pieces of the patterns are the character-list constants `sSequence`, `sDomainsP`, …
(each followed by an `example` that it is the string's character list; string literals inside the definitions would make
`whnf`-based proof automation evaluate UTF-8 decoding).

**Character classes** are those of `re` on ASCII `str` input: `\w` = `[A-Za-z0-9_]`, `\d` = `[0-9]`,
`\s` = `str.isspace` = `[ \t\n\r\f\v\x1c\x1d\x1e\x1f]` (the four separator controls 0x1c–0x1f ARE white space for
`re`, `str.strip` and `str.split`), `.` = anything but `\n`, a negated class `[^…]` also matches `\n`.
NON-ASCII INPUT IS OUTSIDE THE MODEL (`\w`, `\d`, `\s`, `float`, `int` all have further Unicode members); the
correspondence generator stays ASCII and reports non-ASCII lines separately.

**Python pieces.**  `str.split("+")`/`split(",")`/`split("\n")` = `splitOn`; `x.strip()` = `strip`;
`line.split()[0]` = `firstWord` (`IndexError` on a blank line = reject); `int(\d+ text)` = `digitsToNat`;
`float(text)` either raises `ValueError` (= reject) or succeeds, the model keeps the TEXT (as `Comp.OptSrc.value` and
`Comp.Stmt.kinetic` do) and only decides acceptance with `pyFloatOk` (CPython's `float_from_string` grammar:
underscores only between digits, `inf`/`infinity`/`nan` in any case, decimal mantissa with at least one digit,
optional exponent; white space does not occur in the captured texts); `error(...)` (with `utils.DEBUG` an exception,
otherwise `sys.exit(1)`) and every other exception (`NameError` for the undefined name `parse_sequence_statement` in
the `super-sequence`/`sup-sequence` branch, `TypeError` in the `equal` branch, `ValueError` of `float`) are
`Except.error`.  `re.findall` = `findItems` (left-to-right scan, non-overlapping).  Loops over the input that are not
structural (`consLoop`, `findItems`) take a fuel argument initialised with the input length + 1: every iteration
consumes at least one character, so the fuel never runs out.

**What is handed on unparsed**, as in `Comp.Stmt`: the body of a quoted region (`SrcItem.nuc`, parsed by
`Constraint.parseQuoted`), the secondary-structure text (`Stmt.struct … text`, compiled by `Notation.compileStruct`;
`parse_structure_statement` calls `HU2dotParen` / `extended2dotParen` itself and an exception raised there is a
reject of the statement — in the model that reject happens one step later in `Comp.addStmt`, the branch test and the
character check in front of the conversion are modelled here).

Surprising behaviour of the real code, modelled as it is (none of it is repaired here):
* `re.sub(r"#.*\n", "", line)` in the statement loop never strips anything (a line from `split("\n")` has no `\n`).
* strand names inside a `structure` statement and structure names inside a `kinetic` statement are arbitrary text
  (`[^:]+` / `[^\[\]>]*` / `.*` split at `+` and stripped): `structure s = a b$ + : ..` yields the strand names
  `"a b$"` and `""`; in a `kinetic` statement empty names are dropped.  They are only checked later against the tables.
* `kinetic [] A -> B` is accepted (empty parameter text counts as "no parameters"); `[ k > 1 /M/s]` (leading blank)
  is rejected; exponents `1e3`, `inf`, `nan`, `1_0` pass `float`.
* `[\wd\.]+nt` accepts `[infnt]`, `[nannt]`, `[1e3nt]`, `[1_0nt]`.
* the parameter list of the declare line is whatever stands between the first `(` after the name and the LAST `)`
  that is directly followed by `:` (greedy `.*`).
-/
namespace Pepper.ParseComp
open Pepper.Comp

abbrev Str := List Char

/-! ### literals of the patterns, as character lists (the `example`s tie them to the strings) -/

def sSequence : Str := ['s', 'e', 'q', 'u', 'e', 'n', 'c', 'e']
example : sSequence = "sequence".toList := by decide
def sStrand : Str := ['s', 't', 'r', 'a', 'n', 'd']
example : sStrand = "strand".toList := by decide
def sDummy : Str := ['[', 'd', 'u', 'm', 'm', 'y', ']']
example : sDummy = "[dummy]".toList := by decide
def sStructure : Str := ['s', 't', 'r', 'u', 'c', 't', 'u', 'r', 'e']
example : sStructure = "structure".toList := by decide
def sNoOpt : Str := ['n', 'o', '-', 'o', 'p', 't']
example : sNoOpt = "no-opt".toList := by decide
def sDomain : Str := ['d', 'o', 'm', 'a', 'i', 'n']
example : sDomain = "domain".toList := by decide
def sKinetic : Str := ['k', 'i', 'n', 'e', 't', 'i', 'c']
example : sKinetic = "kinetic".toList := by decide
def sPerMs : Str := ['/', 'M', '/', 's']
example : sPerMs = "/M/s".toList := by decide
def sDeclare : Str := ['d', 'e', 'c', 'l', 'a', 'r', 'e']
example : sDeclare = "declare".toList := by decide
def sComponent : Str := ['c', 'o', 'm', 'p', 'o', 'n', 'e', 'n', 't']
example : sComponent = "component".toList := by decide
def sDomainsP : Str := ['d', 'o', 'm', 'a', 'i', 'n', 's', '(']
example : sDomainsP = "domains(".toList := by decide
def sInf : Str := ['i', 'n', 'f']
example : sInf = "inf".toList := by decide
def sInfinity : Str := ['i', 'n', 'f', 'i', 'n', 'i', 't', 'y']
example : sInfinity = "infinity".toList := by decide
def sNan : Str := ['n', 'a', 'n']
example : sNan = "nan".toList := by decide
def sSuperSequence : Str := ['s', 'u', 'p', 'e', 'r', '-', 's', 'e', 'q', 'u', 'e', 'n', 'c', 'e']
example : sSuperSequence = "super-sequence".toList := by decide
def sSupSequence : Str := ['s', 'u', 'p', '-', 's', 'e', 'q', 'u', 'e', 'n', 'c', 'e']
example : sSupSequence = "sup-sequence".toList := by decide
def sEqual : Str := ['e', 'q', 'u', 'a', 'l']
example : sEqual = "equal".toList := by decide

/-! ### character classes -/

/-- `\s` of `re` on ASCII input = `str.isspace` -/
def isSp (c : Char) : Bool :=
  c == ' ' || c == '\t' || c == '\n' || c == '\r' || c == '\x0b' || c == '\x0c' ||
  c == '\x1c' || c == '\x1d' || c == '\x1e' || c == '\x1f'
/-- `\d` -/
def isDig (c : Char) : Bool := c.isDigit
/-- `\w` -/
def isWord (c : Char) : Bool := c.isAlphanum || c == '_'
/-- `[\w-]` -/
def isName (c : Char) : Bool := isWord c || c == '-'
/-- `[^:]` -/
def notColon (c : Char) : Bool := c != ':'
/-- `.` -/
def notNl (c : Char) : Bool := c != '\n'
/-- `[\wd\.]` -/
def isOptCh (c : Char) : Bool := isWord c || c == 'd' || c == '.'
/-- `[HU.()+\d\s]` -/
def isStructCh (c : Char) : Bool :=
  c == 'H' || c == 'U' || c == '.' || c == '(' || c == ')' || c == '+' || isDig c || isSp c
/-- `[HU()+\d\s]` -/
def isHUCh (c : Char) : Bool := c == 'H' || c == 'U' || c == '(' || c == ')' || c == '+' || isDig c || isSp c
/-- `[.()+\d\s]` -/
def isDPCh (c : Char) : Bool := c == '.' || c == '(' || c == ')' || c == '+' || isDig c || isSp c
/-- `[^\[\]]` -/
def notBr (c : Char) : Bool := c != '[' && c != ']'
/-- `[^\[\]>]` -/
def notBrGt (c : Char) : Bool := c != '[' && c != ']' && c != '>'
/-- `[\deE.]` -/
def isKNum (c : Char) : Bool := isDig c || c == 'e' || c == 'E' || c == '.'
/-- `[?\w\s]` -/
def isBodyCh (c : Char) : Bool := c == '?' || isWord c || isSp c
/-- `[-?\w\s]` -/
def isBody2Ch (c : Char) : Bool := c == '-' || c == '?' || isWord c || isSp c

/-! ### the backtracking engine, continuation-passing -/

/-- the rest of a pattern: input ↦ result of the first complete match, if any -/
abbrev K (α : Type) := Str → Option α

/-- a literal -/
def lit {α : Type} : Str → K α → K α
  | [], k, s => k s
  | _ :: _, _, [] => none
  | p :: ps, k, c :: r => if c = p then lit ps k r else none

/-- `[cls]*` (greedy): `pre` is what the repetition has consumed so far; the continuation gets the captured
    text.  Longest first, then one character less, … -/
def star {α : Type} (cls : Char → Bool) (k : Str → K α) (pre : Str) : K α
  | [] => k pre []
  | c :: r =>
    if cls c then (star cls k (pre ++ [c]) r).orElse (fun _ => k pre (c :: r))
    else k pre (c :: r)

/-- `[cls]+` (greedy) -/
def plus {α : Type} (cls : Char → Bool) (k : Str → K α) : K α
  | [] => none
  | c :: r => if cls c then star cls k [c] r else none

/-- `a|b`, also `(a)?` = `a|ε` and `x?` -/
def alt {α : Type} (a b : K α) : K α := fun s => (a s).orElse (fun _ => b s)

/-- `\s+` (what `utils.match` makes of a space in the pattern) -/
def sp1 {α : Type} (k : K α) : K α := plus isSp (fun _ => k)

/-- `\Z` -/
def atEnd {α : Type} (k : K α) : K α := fun s => if s.isEmpty then k s else none

/-- `\s*\Z` (appended by `utils.match`) returning `v` -/
def endZ {α : Type} (v : α) : K α := star isSp (fun _ => atEnd (fun _ => some v)) []

/-! ### Python string helpers -/

def splitOn (c : Char) : Str → List Str
  | [] => [[]]
  | x :: r =>
    if x = c then [] :: splitOn c r
    else match splitOn c r with
      | [] => [[x]]          -- unreachable: `splitOn` never returns `[]`
      | h :: t => (x :: h) :: t

def rstrip (s : Str) : Str := (s.reverse.dropWhile isSp).reverse
def strip (s : Str) : Str := rstrip (s.dropWhile isSp)

/-- `s.split()[0]` -/
def firstWord (s : Str) : Option Str :=
  match s.dropWhile isSp with
  | [] => none
  | t => some (t.takeWhile (fun c => !isSp c))

/-- `int(text)` for `text` matched by `\d+` -/
def digitsToNat (s : Str) : Nat := s.foldl (fun a c => a * 10 + (c.toNat - 48)) 0

/-- `[x.strip() for x in text.split(c) if x.strip()]` -/
def splitStripNonEmpty (c : Char) (s : Str) : List Str := ((splitOn c s).map strip).filter (fun x => !x.isEmpty)

/-! ### `float(text)`: does it raise? -/

/-- `_Py_string_to_number_with_underscores`: an underscore must stand between two digits -/
def underscoresOk : Char → Str → Bool
  | prev, [] => prev != '_'
  | prev, c :: r =>
    if c == '_' then prev.isDigit && underscoresOk c r
    else (prev != '_' || c.isDigit) && underscoresOk c r

def stripSign (s : Str) : Str := match s with
  | '+' :: r => r
  | '-' :: r => r
  | _ => s

/-- `_PyOS_ascii_strtod` + `_Py_parse_inf_or_nan` must consume the whole text (no white space inside) -/
def pyFloatPlain (s0 : Str) : Bool :=
  let s := stripSign s0
  let l := s.map Char.toLower
  if l == sInf || l == sInfinity || l == sNan then true
  else
    let ip := s.takeWhile Char.isDigit
    let r1 := s.dropWhile Char.isDigit
    let fp := match r1 with | '.' :: t => t.takeWhile Char.isDigit | _ => []
    let r2 := match r1 with | '.' :: t => t.dropWhile Char.isDigit | _ => r1
    if ip.isEmpty && fp.isEmpty then false
    else match r2 with
      | [] => true
      | e :: t => (e == 'e' || e == 'E') && !(stripSign t).isEmpty && (stripSign t).all Char.isDigit

/-- `float(text)` does not raise (ASCII text without white space) -/
def pyFloatOk (s : Str) : Bool := underscoresOk '\x00' s && pyFloatPlain (s.filter (· != '_'))

/-! ### errors -/

inductive Err
  | blank         -- `line.split()[0]` on a line without a word
  | syntax        -- a statement regex does not match
  | constraints   -- "Invalid sequence constraints format"
  | number        -- `float()` raises
  | notation      -- "Invalid HU-notation / dot paren notation"
  | signal        -- "Invalid signal format"
  | command       -- `declare` (second one), `equal`, `super-sequence`, `sup-sequence`, unknown command
deriving Repr, DecidableEq, BEq

deriving instance DecidableEq for Except

/-! ### `parse_constraints`, `parse_constraint` -/

/-- `("[?\w\s]+"|domains\([-\w]+\*?\)|[-\w]+\*?)`; the continuation gets the matched text -/
def reItem {α : Type} (k : Str → K α) : K α :=
  alt (lit ['"'] <| plus isBodyCh fun b => lit ['"'] <| k ('"' :: b ++ ['"']))
  (alt (lit sDomainsP <| plus isName fun n =>
          alt (lit ['*'] <| lit [')'] <| k (sDomainsP ++ n ++ ['*', ')']))
              (lit [')'] <| k (sDomainsP ++ n ++ [')'])))
       (plus isName fun n => alt (lit ['*'] <| k (n ++ ['*'])) (k n)))

/-- `\A((ITEM)(\Z|\s+))*\Z` followed by `\s*\Z`; the fuel bounds the number of iterations of the outer `*` -/
def consLoop : Nat → K Unit
  | 0 => fun _ => none
  | f + 1 =>
    alt (reItem fun _ => alt (atEnd (consLoop f)) (sp1 (consLoop f)))
        (atEnd (endZ ()))

def consOk (s : Str) : Bool := (consLoop (s.length + 1) s).isSome

/-- `re.findall(ITEM, text)` -/
def findItems : Nat → Str → List Str
  | 0, _ => []
  | _ + 1, [] => []
  | f + 1, c :: r =>
    match reItem (fun m rest => some (m, rest)) (c :: r) with
    | some (m, rest) => m :: findItems f rest
    | none => findItems f r

/-- `"([-?\w\s]+)"` + `\s*\Z` -/
def reC1 : K Str := lit ['"'] <| plus isBody2Ch fun b => lit ['"'] <| endZ b
/-- `([-\w]+)(\*?)` + `\s*\Z` -/
def reC2 : K (Str × Bool) := plus isName fun n => alt (lit ['*'] <| endZ (n, true)) (endZ (n, false))
/-- `domains\(([-\w]+)(\*?)\)` + `\s*\Z` -/
def reC3 : K (Str × Bool) := lit sDomainsP <| plus isName fun n =>
  alt (lit ['*'] <| lit [')'] <| endZ (n, true)) (lit [')'] <| endZ (n, false))

/-- `parse_constraint`: the three alternatives in the order of the code (`None` when none matches; the caller would
    crash on it) -/
def parseConstraint (w : Str) : Option SrcItem :=
  match reC1 w with
  | some b => some (.nuc b)
  | none =>
    match reC2 w with
    | some (n, st) => some (.ref (String.ofList n) st)
    | none =>
      match reC3 w with
      | some (n, st) => some (.domains (String.ofList n) st)
      | none => none

def parseConstraints (s : Str) : Except Err (List SrcItem) :=
  if !consOk s then .error .constraints
  else match (findItems (s.length + 1) s).mapM parseConstraint with
    | some l => .ok l
    | none => .error .constraints

/-! ### statements -/

/-- `( : (\d+))?` + `\s*\Z` after the constraints group -/
def lenTail {α : Type} (f : Option Str → α) : K α :=
  alt (sp1 <| lit [':'] <| sp1 <| plus isDig fun len => endZ (f (some len))) (endZ (f none))

/-- `sequence\s+([\w-]+)\s+=\s+([^:]+)(\s+:\s+(\d+))?\s*\Z` -/
def reSeq : K (Str × Str × Option Str) :=
  lit sSequence <| sp1 <| plus isName fun name => sp1 <| lit ['='] <| sp1 <| plus notColon fun cons =>
    lenTail fun len => (name, cons, len)

def parseSeq (s : Str) : Except Err Stmt :=
  match reSeq s with
  | none => .error .syntax
  | some (name, cons, len) =>
    match parseConstraints cons with
    | .error e => .error e
    | .ok items => .ok (.seq (String.ofList name) items (len.map digitsToNat))

/-- `strand\s+(\[dummy\]\s+)?([\w-]+)\s+=\s+([^:]+)(\s+:\s+(\d+))?\s*\Z` -/
def reStrand : K (Bool × Str × Str × Option Str) :=
  lit sStrand <| sp1 <|
    alt (lit sDummy <| sp1 <| plus isName fun name => sp1 <| lit ['='] <| sp1 <| plus notColon fun cons =>
          lenTail fun len => (true, name, cons, len))
        (plus isName fun name => sp1 <| lit ['='] <| sp1 <| plus notColon fun cons =>
          lenTail fun len => (false, name, cons, len))

def parseStrand (s : Str) : Except Err Stmt :=
  match reStrand s with
  | none => .error .syntax
  | some (dummy, name, cons, len) =>
    match parseConstraints cons with
    | .error e => .error e
    | .ok items => .ok (.strand dummy (String.ofList name) items (len.map digitsToNat))

/-- groups 3/4 of the structure regex -/
inductive OptM
  | absent | noOpt | val (t : Str)
deriving Repr, DecidableEq

/-- `\s+([\w-]+)\s+=\s+([^:]+)\s+:(\s+domain)?\s+([HU.()+\d\s]+)\s*\Z` (the structure regex after the option group) -/
def structTail (opt : OptM) : K (OptM × Str × Str × Bool × Str) :=
  sp1 <| plus isName fun name => sp1 <| lit ['='] <| sp1 <| plus notColon fun strands => sp1 <| lit [':'] <|
    alt (sp1 <| lit sDomain <| sp1 <| plus isStructCh fun text => endZ (opt, name, strands, true, text))
        (sp1 <| plus isStructCh fun text => endZ (opt, name, strands, false, text))

/-- `structure(\s+\[(([\wd\.]+)nt|(no-opt))\])?` followed by `structTail` -/
def reStruct : K (OptM × Str × Str × Bool × Str) :=
  lit sStructure <|
    alt (sp1 <| lit ['['] <|
          alt (plus isOptCh fun t => lit ['n', 't'] <| lit [']'] <| structTail (.val t))
              (lit sNoOpt <| lit [']'] <| structTail .noOpt))
        (structTail .absent)

def parseStruct (s : Str) : Except Err Stmt :=
  match reStruct s with
  | none => .error .syntax
  | some (opt, name, strands, domain, text) =>
    let names := ((splitOn '+' strands).map strip).map String.ofList
    let optR : Except Err OptSrc := match opt with
      | .absent => .ok .default
      | .noOpt => .ok .noOpt
      | .val t => if pyFloatOk t then .ok (.value (String.ofList t)) else .error .number
    match optR with
    | .error e => .error e
    | .ok o =>
      -- `if "U" in struct or "H" in struct:` full match of `[HU()+\d\s]+`, else of `[.()+\d\s]+` (each + `\s*\Z`)
      let ok := if text.contains 'U' || text.contains 'H' then text.all isHUCh else text.all isDPCh
      if ok then .ok (.struct o (String.ofList name) names domain text) else .error .notation

/-- `\s+([^\[\]>]*)\s+->\s+(.*)\s*\Z` (the kinetic regex after the parameter group) -/
def kinTail (p : Option Str) : K (Option Str × Str × Str) :=
  sp1 <| star notBrGt (fun ins => sp1 <| lit ['-', '>'] <| sp1 <| star notNl (fun outs => endZ (p, ins, outs)) []) []

/-- `kinetic(\s+\[([^\[\]]*)\])?` followed by `kinTail` -/
def reKin : K (Option Str × Str × Str) :=
  lit sKinetic <|
    alt (sp1 <| lit ['['] <| star notBr (fun p => lit [']'] <| kinTail (some p)) []) (kinTail none)

/-- `k\s+<\s+([\deE.]+)\s+/M/s\s*\Z` -/
def kp1Tail (low : Option Str) : K (Option Str × Str) :=
  lit ['k'] <| sp1 <| lit ['<'] <| sp1 <| plus isKNum fun high => sp1 <| lit sPerMs <| endZ (low, high)

/-- `(([\deE.]+)\s+/M/s\s+<\s+)?k\s+<\s+([\deE.]+)\s+/M/s\s*\Z` -/
def reKp1 : K (Option Str × Str) :=
  alt (plus isKNum fun low => sp1 <| lit sPerMs <| sp1 <| lit ['<'] <| sp1 <| kp1Tail (some low))
      (kp1Tail none)

/-- `k\s+>\s+([\deE.]+)\s+/M/s\s*\Z` -/
def reKp2 : K Str :=
  lit ['k'] <| sp1 <| lit ['>'] <| sp1 <| plus isKNum fun low => sp1 <| lit sPerMs <| endZ low

/-- the parameter text of a kinetic statement ↦ (low, high) texts -/
def parseKinParams (p : Str) : Except Err (Option String × Option String) :=
  match reKp1 p with
  | some (low, high) =>
    -- `if low: low = float(low)` (a matched `low` is never empty); `high = float(high)`
    if (match low with | some l => pyFloatOk l | none => true) && pyFloatOk high
    then .ok (low.map String.ofList, some (String.ofList high)) else .error .number
  | none =>
    match reKp2 p with
    | some low => if pyFloatOk low then .ok (some (String.ofList low), none) else .error .number
    | none => .error .syntax

def parseKin (s : Str) : Except Err Stmt :=
  match reKin s with
  | none => .error .syntax
  | some (params, ins, outs) =>
    let insL := (splitStripNonEmpty '+' ins).map String.ofList
    let outsL := (splitStripNonEmpty '+' outs).map String.ofList
    match params with
    | none => .ok (.kinetic none none insL outsL)
    | some p =>
      if p.isEmpty then .ok (.kinetic none none insL outsL)    -- `if params:` is false for the empty string
      else match parseKinParams p with
        | .error e => .error e
        | .ok (low, high) => .ok (.kinetic low high insL outsL)

/-! ### the declare line -/

/-- `([\w-]+)(\*)?(\(([\w-]+)\))?` + `\s*\Z` -/
def reSig : K (Str × Bool × Option Str) :=
  plus isName fun n =>
    alt (lit ['*'] <| alt (lit ['('] <| plus isName fun st => lit [')'] <| endZ (n, true, some st)) (endZ (n, true, none)))
        (alt (lit ['('] <| plus isName fun st => lit [')'] <| endZ (n, false, some st)) (endZ (n, false, none)))

def parseSignal (s : Str) : Except Err Port :=
  match reSig s with
  | some (n, star, st) => .ok ⟨String.ofList n, star, st.map String.ofList⟩
  | none => .error .signal

/-- `:(.*)\s+->(.*)\s*\Z` -/
def declTail (name : Str) (p : Option Str) : K (Str × Option Str × Str × Str) :=
  lit [':'] <| star notNl (fun ins => sp1 <| lit ['-', '>'] <| star notNl (fun outs => endZ (name, p, ins, outs)) []) []

/-- `declare\s+component\s+([\w-]+)(\((.*)\))?:(.*)\s+->(.*)\s*\Z` -/
def reDecl : K (Str × Option Str × Str × Str) :=
  lit sDeclare <| sp1 <| lit sComponent <| sp1 <| plus isName fun name =>
    alt (lit ['('] <| star notNl (fun p => lit [')'] <| declTail name (some p)) []) (declTail name none)

structure Decl where
  name : String
  params : List String
  inputs : List Port
  outputs : List Port
deriving Repr, DecidableEq

def parseDeclareL (s : Str) : Except Err Decl :=
  match reDecl s with
  | none => .error .syntax
  | some (name, params, ins, outs) =>
    let ps := match params with
      | none => []
      | some p => (splitStripNonEmpty ',' p).map String.ofList     -- `if params:`: the empty text gives `[]` either way
    match (splitStripNonEmpty '+' ins).mapM parseSignal with
    | .error e => .error e
    | .ok i =>
      match (splitStripNonEmpty '+' outs).mapM parseSignal with
      | .error e => .error e
      | .ok o => .ok ⟨String.ofList name, ps, i, o⟩

/-- `parse_declare_statement` -/
def parseDeclare (line : String) : Except Err Decl := parseDeclareL line.toList

/-! ### the statement loop of `load_component` -/

/-- the body of the loop for one stripped, non-empty line: read the command word off and dispatch -/
def parseLineL (s : Str) : Except Err Stmt :=
  match firstWord s with
  | none => .error .blank
  | some w =>
    if w = sDeclare then .error .command
    else if w = sSequence then parseSeq s
    else if w = sSuperSequence || w = sSupSequence then .error .command   -- NameError
    else if w = sStrand then parseStrand s
    else if w = sStructure then parseStruct s
    else if w = sKinetic then parseKin s
    else if w = sEqual then .error .command                                          -- TypeError
    else .error .command

def parseLine (line : String) : Except Err Stmt := parseLineL line.toList

/-- `re.sub(r"#.*\n", "", line)`: a `#` starts a match only if a `\n` follows somewhere (`.` does not cross it);
    `pending` holds the text since a `#` whose fate is not yet known -/
def stripCommentAux : Str → Option Str → Str
  | [], none => []
  | [], some p => p.reverse
  | c :: r, none => if c = '#' then stripCommentAux r (some ['#']) else c :: stripCommentAux r none
  | c :: r, some p => if c = '\n' then stripCommentAux r none else stripCommentAux r (some (c :: p))

def stripComment (s : Str) : Str := stripCommentAux s none

/-- what the loop does to a raw line before looking at it -/
def cleanLine (l : Str) : Str := strip (stripComment l)

/-- `for line in doc.split("\n"): …` -/
def parseLines : List Str → Except Err (List Stmt)
  | [] => .ok []
  | l :: r =>
    let c := cleanLine l
    if c.isEmpty then parseLines r
    else match parseLineL c with
      | .error e => .error e
      | .ok st => match parseLines r with
        | .error e => .error e
        | .ok sts => .ok (st :: sts)

def parseDocL (text : Str) (decl : Str) : Except Err Src :=
  match parseDeclareL decl with
  | .error e => .error e
  | .ok d =>
    match parseLines (splitOn '\n' text) with
    | .error e => .error e
    | .ok sts => .ok ⟨d.name, d.params, d.inputs, d.outputs, sts⟩

/-- `load_component` from the declare line and the substituted document to the source AST -/
def parseDoc (text : String) (decl : String) : Except Err Src := parseDocL text.toList decl.toList

end Pepper.ParseComp
