import PepperModel.Codes
import PepperModel.Generated.Tables
/-!
# `SpuriousDesign/spuriousSSM.c` — constraint handling and the main search loop

Mirrors `WC`, `test_consistency`, `constrain`, `constrain_single_fast`, `randbasec` (choice sets),
`mutate`, the `nq`/`bmax` part of `set_auto_spurious_weights`, and `main` from `load_input_files();`
to the end (default `bmax`, `constrain` + `test_consistency`, the `freeloc` table, the search loop,
final `constrain` + `test_consistency`, output).

Translation choices
* **Arrays** are lists with total indexing: `St[i]` ↦ `stAt i` (default `' '`), `eq[i]` ↦ `eqAt i`
  (default `0`), `wc[i]` ↦ `wcAt i` (default `-1`), `S[i]` ↦ `sAt S i` (default `' '`); a store
  `S[j] = v` ↦ `List.set`.  The *values* of `eq`/`wc` stay 1-based exactly as in the files and in
  the C ("treacherous programming convention"), `eq` as `Nat` (the loader rejects negatives), `wc`
  as `Int` (`-1` = none).  Out-of-range reads are undefined behaviour in C and a default value here.
  That every index the modelled C text computes is in range under the contract is a theorem about
  the bounds-checked twin `PepperModel/SsmChecked.lean` (every access `A[i]?`, explicit `oob`
  result): `C19Safe.Props.no_oob_under_contract`, and `C19Safe.Props.checked_refines_total` shows
  that an `ok` result of the twin is the result of the functions below (`PepperProps/C19Safe.lean`).
  Index computations that this total model leaves out and the twin restores: the lookup
  `freeloc[k]` of the drawn index (an `Event` here carries the looked-up position), `oldc = S[i]` /
  `St[i]` in `mutate`, the save / restore loops over `oldS`, the reads of `test_consistency`'s error
  messages (`S[wc[i]]`, `S[eq[i]]`, …), the `nbp` loop, `strlen(S)` as bound of the automatic `nq`
  loop; `wcIx` maps `wc[i] = 0` to position `0` where the C reads `wc[-1]`.  Outside the modelled
  text (loader, scoring code) memory safety is covered by sanitizer runs only.
* **`for` loops** are `assignLoop` over the explicit index list (`List.range`, `List.range'`); the
  loop body `if (p j) S[j] = f(S[i])` re-reads `S[i]` in every iteration, as the C does.
  In `constrain` the statements `S[j]=…; marked[j]=1;` under one condition are run as two loops
  over the same condition (neither reads the other's array).
* **Random choices** (`int_urn`, `randbasec`) are *inputs*: an `Event` carries the chosen index,
  the new base and `cmp`, the outcome of the floating-point comparison of `score_all` before and
  after (`-1` new < old, `0` equal, `1` otherwise — a NaN compares as `1`).  The scoring code is
  not modelled.  `tmax` (wall clock) is modelled as absent (`0`).
* **`exit(-1)`** after a failed `test_consistency` ↦ `none` in `program`.
* The loader strips trailing blanks of the template, so a triple whose last position is blank is
  read as a shorter one; the contract therefore asks for a non-blank last position.
-/
namespace Pepper.Ssm

abbrev Seq := List Char

/-- contents of the `.st`, `.eq`, `.wc` files after `load_input_files` -/
structure Triple where
  st : List Char
  eq : List Nat
  wc : List Int
deriving Repr, DecidableEq

namespace Triple
def N (t : Triple) : Nat := t.st.length
def stAt (t : Triple) (i : Nat) : Char := t.st.getD i ' '
def eqAt (t : Triple) (i : Nat) : Nat := t.eq.getD i 0
def wcAt (t : Triple) (i : Nat) : Int := t.wc.getD i (-1)
/-- the 0-based position `wc[i]-1` -/
def wcIx (t : Triple) (i : Nat) : Nat := (t.wcAt i).toNat - 1
end Triple

def sAt (S : Seq) (i : Nat) : Char := S.getD i ' '

/-! ### tables -/

/-- `WC(c)`: the `switch`, `default: return ' '` -/
def WC (c : Char) : Char := match assoc Generated.cWC c with | some d => d | none => ' '

/-- the `choices` string of `randbasec(c)` (`default: " "`) -/
def choices (c : Char) : List Char := match assoc Generated.cRandbase c with | some l => l | none => [' ']

/-- specification side: `b` is in the set of bases denoted by the code `c` (Python table of
    `DNA_classes.py`; C11 shows that the C tables denote the same sets) -/
def memCode (b c : Char) : Bool := match Generated.dnaTable.groupOf c with | some g => g.contains b | none => false

def isCode (c : Char) : Bool := Generated.dnaTable.isCode c

/-- `strstr(text, {a,b,0}) != NULL` -/
def hasSub2 (a b : Char) : List Char → Bool
  | x :: y :: r => (x == a && y == b) || hasSub2 a b (y :: r)
  | _ => false

/-! ### loops -/

/-- `for j in js: if (p j) L[j] = f(L[src]);` -/
def assignLoop {α : Type} (d : α) (p : Nat → Bool) (src : Nat) (f : α → α) : List Nat → List α → List α
  | [], L => L
  | j :: js, L => assignLoop d p src f js (if p j then L.set j (f (L.getD src d)) else L)

/-- `constrain_single_fast(S, wc, eq, i)`: both loops run over `j = i+1 … N-1` -/
def constrainSingleFast (t : Triple) (S : Seq) (i : Nat) : Seq :=
  let js := List.range' (i + 1) (t.N - (i + 1))
  let S1 := assignLoop ' ' (fun j => t.eqAt j == t.eqAt i) i id js S
  assignLoop ' ' (fun j => (t.eqAt j : Int) == t.wcAt i) i WC js S1

/-- body of the outer loop of `constrain` for one `i`; state = (`S`, `marked`) -/
def constrainStep (t : Triple) (sm : Seq × List Bool) (i : Nat) : Seq × List Bool :=
  if sm.2.getD i false then sm
  else
    let js := List.range t.N
    let pe := fun j => t.eqAt j == t.eqAt i
    let pw := fun j => (t.eqAt j : Int) == t.wcAt i
    let S1 := assignLoop ' ' pe i id js sm.1
    let m1 := assignLoop false pe i (fun _ => true) js sm.2
    let S2 := assignLoop ' ' pw i WC js S1
    let m2 := assignLoop false pw i (fun _ => true) js m1
    (S2, m2)

/-- `constrain(S, wc, eq)` (`marked = calloc(N)`) -/
def constrain (t : Triple) (S : Seq) : Seq :=
  ((List.range t.N).foldl (constrainStep t) (S, List.replicate t.N false)).1

/-- `test_consistency(S, St, wc, eq)`; returns `OK` -/
def testConsistency (t : Triple) (S : Seq) : Bool :=
  let idx := List.range t.N
  let ok1 := idx.all (fun i =>
    !(t.wcAt i != -1 && t.wcAt (t.wcIx i) != (t.eqAt i : Int)) &&
    !(t.eqAt i != 0 && t.eqAt (t.eqAt i - 1) != t.eqAt i))
  if !ok1 then false
  else
    idx.all (fun i =>
      !(sAt S i != ' ' && !hasSub2 (t.stAt i) (sAt S i) Generated.cDegenerates) &&
      !(t.wcAt i != -1 && sAt S i != WC (sAt S (t.wcIx i))) &&
      !(t.eqAt i != 0 && sAt S i != sAt S (t.eqAt i - 1)))
    && idx.all (fun i =>
      !(t.wcAt i != -1 && t.stAt i != WC (t.stAt (t.wcIx i))) &&
      !(t.eqAt i != 0 && t.stAt i != t.stAt (t.eqAt i - 1)))

/-! ### free locations, `nq`, stopping parameters -/

def isFixed (c : Char) : Bool := c == 'A' || c == 'C' || c == 'G' || c == 'T'

/-- `eq[i]==i+1 && (wc[i]>i+1 || wc[i]==-1)`: `i` is the lowest position of its class and of the
    partner class -/
def isClassRep (t : Triple) (i : Nat) : Bool :=
  t.eqAt i == i + 1 && (decide (t.wcAt i > (i : Int) + 1) || t.wcAt i == -1)

/-- the `freeloc` table of `main` -/
def freeLocs (t : Triple) : List Nat :=
  (List.range t.N).filter (fun i => isClassRep t i && !isFixed (t.stAt i))

/-- "number of unique base equivalence classes" -/
def nq (t : Triple) : Nat := ((List.range t.N).filter (isClassRep t)).length

def defaultBmax (bmult : Nat) (t : Triple) : Nat := bmult * nq t + 1

/-- the stopping options of the command line (`tmax` absent) -/
structure Opts where
  automatic : Bool := false
  bmax : Option Nat := none      -- `bmax=` / `bored=` given (`bmax_set`)
  imax : Nat := 0
  bmult : Nat := 12
deriving Repr

/-- the value of `bmax` when the loop starts -/
def effectiveBmax (o : Opts) (t : Triple) : Nat :=
  match o.bmax with
  | some b => b
  | none => if o.automatic then defaultBmax o.bmult t
            else if o.imax == 0 then defaultBmax o.bmult t else 0

structure Params where
  bmax : Nat
  imax : Nat
deriving Repr

structure State where
  S : Seq
  bored : Nat
  steps : Nat
deriving Repr

/-- one iteration's inputs: mutated index, new base, score comparison -/
structure Event where
  idx : Nat
  base : Char
  cmp : Int
deriving Repr

/-- the `while` condition (without the wall-clock clause) -/
def running (p : Params) (nfree : Nat) (s : State) : Bool :=
  (p.imax == 0 || decide (s.steps < p.imax)) && (p.bmax == 0 || decide (s.bored < p.bmax)) && decide (nfree > 0)

/-- `mutate` with the random choices made: `S[i] = b; constrain_single_fast(S, wc, eq, i)` -/
def mutate (t : Triple) (S : Seq) (i : Nat) (b : Char) : Seq := constrainSingleFast t (S.set i b) i

/-- loop body -/
def step (t : Triple) (s : State) (e : Event) : State :=
  if e.cmp ≤ 0 then
    { S := mutate t s.S e.idx e.base, bored := if e.cmp < 0 then 0 else s.bored + 1, steps := s.steps + 1 }
  else
    { S := s.S, bored := s.bored + 1, steps := s.steps + 1 }

/-- state when the loop exits (or when the supplied events are used up) -/
def run (t : Triple) (p : Params) (nfree : Nat) : State → List Event → State
  | s, [] => s
  | s, e :: es => if running p nfree s then run t p nfree (step t s e) es else s

/-- the states after each executed iteration -/
def runList (t : Triple) (p : Params) (nfree : Nat) : State → List Event → List State
  | _, [] => []
  | s, e :: es => if running p nfree s then step t s e :: runList t p nfree (step t s e) es else []

/-- a legal outcome of the two random draws of `mutate` -/
def validEvent (t : Triple) (e : Event) : Bool :=
  (freeLocs t).contains e.idx && (choices (t.stAt e.idx)).contains e.base

/-- `main` after `load_input_files`, from start sequence `start` (the `sequence=` file or the
    random initial sequence); `none` = `exit(-1)` -/
def program (t : Triple) (o : Opts) (start : Seq) (es : List Event) : Option Seq :=
  let S := constrain t start
  if !testConsistency t S then none
  else
    let fin := run t ⟨effectiveBmax o t, o.imax⟩ (freeLocs t).length ⟨S, 0, 0⟩ es
    let S' := constrain t fin.S
    if !testConsistency t S' then none else some S'

/-! ### contract and goal -/

/-- clauses of the contract about the blank / code status of position `i` -/
def ContractBlank (t : Triple) (i : Nat) : Prop :=
  (t.stAt i = ' ' ↔ t.eqAt i = 0) ∧
  (t.stAt i ≠ ' ' → isCode (t.stAt i) = true) ∧
  (t.eqAt i = 0 → t.wcAt i = -1)

/-- clauses about `eq[i]` -/
def ContractEq (t : Triple) (i : Nat) : Prop :=
  t.eqAt i ≠ 0 → t.eqAt i ≤ i + 1 ∧ t.eqAt (t.eqAt i - 1) = t.eqAt i ∧
    t.wcAt (t.eqAt i - 1) = t.wcAt i ∧ t.stAt (t.eqAt i - 1) = t.stAt i

/-- clauses about `wc[i]` -/
def ContractWc (t : Triple) (i : Nat) : Prop :=
  t.wcAt i ≠ -1 → 1 ≤ t.wcAt i ∧ t.wcAt i ≤ (t.N : Int) ∧ t.wcAt i ≠ (t.eqAt i : Int) ∧
    (t.eqAt (t.wcIx i) : Int) = t.wcAt i ∧ t.wcAt (t.wcIx i) = (t.eqAt i : Int) ∧
    t.stAt i = WC (t.stAt (t.wcIx i))

instance (t : Triple) (i : Nat) : Decidable (ContractBlank t i) := by unfold ContractBlank; infer_instance
instance (t : Triple) (i : Nat) : Decidable (ContractEq t i) := by unfold ContractEq; infer_instance
instance (t : Triple) (i : Nat) : Decidable (ContractWc t i) := by unfold ContractWc; infer_instance

/-- The documented input contract (help text of spuriousSSM + what the Python front-end emits),
    0-based positions, 1-based values: blanks are exactly the `eq = 0` positions and have `wc = -1`;
    `eq[i]` is the lowest member of the class of `i`; `wc` and the template are constant on
    classes; `wc[i]` is `-1` or the representative of the complementary class, which is never the
    class itself, and pairs back; paired positions carry complementary codes. -/
def Contract (t : Triple) : Prop :=
  0 < t.N ∧ t.eq.length = t.N ∧ t.wc.length = t.N ∧ t.stAt (t.N - 1) ≠ ' ' ∧
  ∀ i, i < t.N → ContractBlank t i ∧ ContractEq t i ∧ ContractWc t i

instance (t : Triple) : Decidable (Contract t) := by unfold Contract; infer_instance

def contractB (t : Triple) : Bool := decide (Contract t)

/-- The goal: a sequence of the input length whose blanks are the template's, whose bases lie in
    the template's sets and which obeys every `eq` and `wc` entry. -/
def Good (t : Triple) (S : Seq) : Prop :=
  S.length = t.N ∧
  ∀ i, i < t.N →
    (sAt S i = ' ' ↔ t.stAt i = ' ') ∧
    (t.stAt i ≠ ' ' → memCode (sAt S i) (t.stAt i) = true) ∧
    (t.eqAt i ≠ 0 → sAt S i = sAt S (t.eqAt i - 1)) ∧
    (t.wcAt i ≠ -1 → sAt S i = WC (sAt S (t.wcIx i)))

instance (t : Triple) (S : Seq) : Decidable (Good t S) := by unfold Good; infer_instance

def goodB (t : Triple) (S : Seq) : Bool := decide (Good t S)

/-- What `constrain` needs of the start sequence: right length, blank where the template is, and an
    allowed base at every position whose value `constrain` copies (the class representatives whose
    partner class lies above them).  Every other position may hold anything. -/
def StartOK (t : Triple) (S : Seq) : Prop :=
  S.length = t.N ∧
  ∀ i, i < t.N →
    (t.stAt i = ' ' → sAt S i = ' ') ∧
    (isClassRep t i = true → memCode (sAt S i) (t.stAt i) = true)

instance (t : Triple) (S : Seq) : Decidable (StartOK t S) := by unfold StartOK; infer_instance

def startOKB (t : Triple) (S : Seq) : Bool := decide (StartOK t S)

end Pepper.Ssm
