import PepperModel.Ssm
/-!
# `SpuriousDesign/spuriousSSM.c` — the bounds-checked twin of `PepperModel/Ssm.lean`

Every function of `Ssm.lean` that reads or writes an array of the C program has a twin here in which
every read `A[i]` is `rd … A i` (`A[i]?`) and every store `A[j] = v` is `wr … A j v` (checks
`j < A.length`).  An out-of-range access — undefined behaviour in the C program — is the explicit
result `Res.oob ⟨which array, which index, where⟩`, never a default value.  `PepperProps/C19Safe.lean`
proves (T1) that an `ok` result is the result of the total model and (T2) that under the contract of
C19 no access is out of range.

Translation choices (in addition to those of `Ssm.lean`)
* **Index expressions are the C's**, computed in `Int` (C `int`; overflow of `int` is not modelled):
  `wc[i]-1`, `eq[i]-1`, `freeloc[k]`, loop counters `0..N-1`, `i+1..N-1`, `1..N-1`.  A negative index
  is out of range.  Guards stay where the C has them and in the C's order (`&&` / `||` short-circuit:
  the right operand's reads happen only when the left operand lets them).
* **Array extents** are the *logical* ones: `St`, `eq`, `wc`, `S` have the lengths of the lists of
  the `Triple` / of the sequence (the loader exits unless all four are `N`), `marked`, `freeloc`,
  `oldS` have `N` cells (`calloc(N)` / `malloc(N)`).  The real allocations of `S`, `St`, `wc`, `eq`
  are larger (`100 +` file length), so an access that is `oob` here can land in allocated padding in
  the real process — it is still outside the array the program means.
* **C strings**: `S` and `St` carry a terminating NUL at index `N`.  Only the error messages of
  `test_consistency` can touch it (`S[wc[i]]`, `S[eq[i]]`, `St[wc[i]]`, `St[eq[i]]` — sic, without
  `-1`): those reads are `rdZ` (index `= length` yields the NUL, beyond is `oob`).
* **Repeated reads** of one cell with no store to that array in between (`eq[i]` in both operands of
  a condition, `S[i]` in a condition and in the message under it) are one `rd`.  Reads the C repeats
  *per loop iteration* (`eq[i]`, `wc[i]`, `S[i]` inside the `j` loops) are repeated per iteration.
* `freeloc` is the `calloc(N)` array itself (zero-filled beyond `Nfree`) together with `Nfree`; an
  event carries the drawn *table index* `k` (`int_urn(0,Nfree-1)`), and `mutate` does the lookup
  `freeloc[k]`.  (`Ssm.Event` carries the looked-up position: the total model had dropped this read.)
* The search loop keeps `oldS` and runs the two copy loops `oldS[i]=S[i]` / `S[i]=oldS[i]`
  (dropped in the total model, which just keeps the old list).  The content of `oldS` after `malloc`
  is modelled as blanks; it is overwritten before it is read.
* `set_auto_spurious_weights` (with `score=automatic`, also when `bmax` is given): the `nq` loop over
  `strlen(S)` and the `nbp` loop `wc[i-1]==wc[i]+1` are run; the first loop (`S[i]`, `S[i-1]` up to
  the NUL) stays inside the string by construction and is not modelled, nor are the weights.

What the total model had quietly dropped (all restored here): the `freeloc[k]` lookup; `oldc = S[i]`
and `St[i]` in `mutate`; the save / restore loops over `oldS`; the `marked[i]` read and `marked[j]`
stores as checked accesses; `wc[i]-1` for `wc[i] ≤ 0` (`wcIx` maps `0` to position `0`, the C reads
`wc[-1]`); the reads of the error messages; the `nbp` loop; the `nq` loop of `score=automatic` running
over `strlen(S)` rather than `N`, and running although `bmax=` is given.

Not modelled (neither here nor in `Ssm.lean`): the loader, `randbasec`'s read `choices[int_urn(…)]` in
a string literal and the re-draw loop `do … while (oldc == S[i])` (same cell `S[i]`, `St[i]`), the
scoring code (`score_all`, `spurious`, `test_evals`), output.
-/
namespace Pepper.SsmChecked
open Pepper.Ssm

/-- the arrays of the C program -/
inductive Arr | St | eq | wc | S | marked | freeloc | oldS
deriving Repr, DecidableEq

/-- where in the C text -/
inductive Site
  | testConsistency1 | testConsistency2 | testConsistency3 | testConsistencyMsg
  | constrain | constrainSingleFast | mutate | freelocTable | nq | nbp | loopSave | loopRestore
deriving Repr, DecidableEq

/-- one out-of-range access -/
structure Oob where
  arr : Arr
  idx : Int
  site : Site
deriving Repr, DecidableEq

inductive Res (α : Type) where
  | ok (v : α)
  | oob (o : Oob)
deriving Repr, DecidableEq

namespace Res
def bind {α β : Type} : Res α → (α → Res β) → Res β
  | ok v, f => f v
  | oob o, _ => oob o
instance : Monad Res where
  pure := Res.ok
  bind := Res.bind
def isOob {α : Type} : Res α → Bool
  | ok _ => false
  | oob _ => true
end Res
open Res

/-- `A[i]` -/
def rd {α : Type} (a : Arr) (s : Site) (A : List α) (i : Int) : Res α :=
  if 0 ≤ i then
    match A[i.toNat]? with
    | some v => ok v
    | none => oob ⟨a, i, s⟩
  else oob ⟨a, i, s⟩

/-- `A[i] = v` -/
def wr {α : Type} (a : Arr) (s : Site) (A : List α) (i : Int) (v : α) : Res (List α) :=
  if 0 ≤ i ∧ i.toNat < A.length then ok (A.set i.toNat v) else oob ⟨a, i, s⟩

/-- `A[i]` of a NUL-terminated string of `A.length` characters -/
def rdZ (a : Arr) (s : Site) (A : List Char) (i : Int) : Res Char :=
  if i = (A.length : Int) then ok (Char.ofNat 0) else rd a s A i

/-! ### generic loops -/

/-- `for i in is: st = step(st, i)` -/
def foldlC {σ : Type} (step : σ → Nat → Res σ) : σ → List Nat → Res σ
  | s, [] => ok s
  | s, i :: is => do let s' ← step s i; foldlC step s' is

/-- `for i in is: if (!body(i)) OK = 0;` -/
def allC (body : Nat → Res Bool) : List Nat → Bool → Res Bool
  | [], OK => ok OK
  | i :: is, OK => do let b ← body i; allC body is (OK && b)

/-- `for i in is: if (body(i)) n++;` -/
def countC (body : Nat → Res Bool) : List Nat → Nat → Res Nat
  | [], n => ok n
  | i :: is, n => do let b ← body i; countC body is (if b then n + 1 else n)

/-- `for j in js: if (eq[j] == key) { S[j] = f(S[i]); [marked[j] = 1;] }` where `key` is `eq[i]` or
    `wc[i]`, re-read in every iteration as the C does; state = (`S`, `marked`) -/
def classLoopC (s : Site) (t : Triple) (key : Res Int) (i : Nat) (f : Char → Char) (mark : Bool) :
    List Nat → Seq × List Bool → Res (Seq × List Bool)
  | [], sm => ok sm
  | j :: js, sm => do
    let ej ← rd .eq s t.eq j
    let k ← key
    if (ej : Int) == k then do
      let v ← rd .S s sm.1 i
      let S' ← wr .S s sm.1 j (f v)
      let m' ← if mark then wr .marked s sm.2 j true else pure sm.2
      classLoopC s t key i f mark js (S', m')
    else classLoopC s t key i f mark js sm

/-- `eq[i]` as the comparison key -/
def eqKey (s : Site) (t : Triple) (i : Nat) : Res Int := do let e ← rd .eq s t.eq i; pure (e : Int)
/-- `wc[i]` as the comparison key -/
def wcKey (s : Site) (t : Triple) (i : Nat) : Res Int := rd .wc s t.wc i

/-! ### `constrain_single_fast`, `constrain` -/

/-- `constrain_single_fast(S, wc, eq, i)` -/
def constrainSingleFastC (t : Triple) (S : Seq) (i : Nat) : Res Seq := do
  let js := List.range' (i + 1) (t.N - (i + 1))
  let sm1 ← classLoopC .constrainSingleFast t (eqKey .constrainSingleFast t i) i id false js (S, [])
  let sm2 ← classLoopC .constrainSingleFast t (wcKey .constrainSingleFast t i) i WC false js sm1
  pure sm2.1

/-- body of the outer loop of `constrain` -/
def constrainStepC (t : Triple) (sm : Seq × List Bool) (i : Nat) : Res (Seq × List Bool) := do
  let mi ← rd .marked .constrain sm.2 i
  if mi then pure sm
  else do
    let js := List.range t.N
    let sm1 ← classLoopC .constrain t (eqKey .constrain t i) i id true js sm
    classLoopC .constrain t (wcKey .constrain t i) i WC true js sm1

/-- `constrain(S, wc, eq)` -/
def constrainC (t : Triple) (S : Seq) : Res Seq := do
  let sm ← foldlC (constrainStepC t) (S, List.replicate t.N false) (List.range t.N)
  pure sm.1

/-! ### `test_consistency` -/

/-- first loop: `wc[i] != -1 && wc[wc[i]-1] != eq[i]`, `eq[i] != 0 && eq[eq[i]-1] != eq[i]`
    (the messages print `i+1` only) -/
def tcBody1 (t : Triple) (i : Nat) : Res Bool := do
  let wi ← rd .wc .testConsistency1 t.wc i
  let b1 ← (if wi != -1 then (do
      let ww ← rd .wc .testConsistency1 t.wc (wi - 1)
      let ei ← rd .eq .testConsistency1 t.eq i
      pure (!(ww != (ei : Int))))
    else pure true)
  let ei ← rd .eq .testConsistency1 t.eq i
  let b2 ← (if ei != 0 then (do
      let ee ← rd .eq .testConsistency1 t.eq ((ei : Int) - 1)
      pure (!(ee != ei)))
    else pure true)
  pure (b1 && b2)

/-- `if (c != WC(A[wc[i]-1])) { message reads A[wc[i]]; OK = 0; }` under the guard `wc[i] != -1` -/
def tcWc (s : Site) (a : Arr) (A : Seq) (c : Char) (wi : Int) : Res Bool :=
  if wi != -1 then (do
    let sw ← rd a s A (wi - 1)
    if c != WC sw then (do
      let _ ← rdZ a .testConsistencyMsg A wi
      pure false)
    else pure true)
  else pure true

/-- `if (c != A[eq[i]-1]) { message reads A[eq[i]]; OK = 0; }` under the guard `eq[i] != 0` -/
def tcEq (s : Site) (a : Arr) (A : Seq) (c : Char) (ei : Nat) : Res Bool :=
  if ei != 0 then (do
    let se ← rd a s A ((ei : Int) - 1)
    if c != se then (do
      let _ ← rdZ a .testConsistencyMsg A (ei : Int)
      pure false)
    else pure true)
  else pure true

/-- second loop: `pair = {St[i], S[i]}`, template test, `wc[i] != -1 && S[i] != WC(S[wc[i]-1])`,
    `eq[i] != 0 && S[i] != S[eq[i]-1]`; the messages read `S[wc[i]]` and `S[eq[i]]` -/
def tcBody2 (t : Triple) (S : Seq) (i : Nat) : Res Bool := do
  let sti ← rd .St .testConsistency2 t.st i
  let si ← rd .S .testConsistency2 S i
  let b1 := !(si != ' ' && !hasSub2 sti si Generated.cDegenerates)
  let wi ← rd .wc .testConsistency2 t.wc i
  let b2 ← tcWc .testConsistency2 .S S si wi
  let ei ← rd .eq .testConsistency2 t.eq i
  let b3 ← tcEq .testConsistency2 .S S si ei
  pure (b1 && b2 && b3)

/-- third loop: the same for the template; the messages read `St[wc[i]]` and `St[eq[i]]`.  (The C reads
    `St[i]` only under the guards; `i < N = ` length of `St`, so reading it once up front cannot fail.) -/
def tcBody3 (t : Triple) (i : Nat) : Res Bool := do
  let wi ← rd .wc .testConsistency3 t.wc i
  let sti ← rd .St .testConsistency3 t.st i
  let b1 ← tcWc .testConsistency3 .St t.st sti wi
  let ei ← rd .eq .testConsistency3 t.eq i
  let b2 ← tcEq .testConsistency3 .St t.st sti ei
  pure (b1 && b2)

/-- `test_consistency(S, St, wc, eq)` -/
def testConsistencyC (t : Triple) (S : Seq) : Res Bool := do
  let idx := List.range t.N
  let ok1 ← allC (tcBody1 t) idx true
  if !ok1 then pure false
  else do
    let ok2 ← allC (tcBody2 t S) idx true
    allC (tcBody3 t) idx ok2

/-! ### `nq`, `nbp`, `bmax` -/

/-- `eq[i]==i+1 && (wc[i]>i+1 || wc[i]==-1)` -/
def isClassRepC (s : Site) (t : Triple) (i : Nat) : Res Bool := do
  let ei ← rd .eq s t.eq i
  if (ei : Int) == (i : Int) + 1 then do
    let wi ← rd .wc s t.wc i
    pure (decide (wi > (i : Int) + 1) || wi == -1)
  else pure false

/-- `for (i=0; i<n; i++) if (eq[i]==i+1 && (wc[i]>i+1 || wc[i]==-1)) nq++;` -/
def nqC (t : Triple) (n : Nat) : Res Nat := countC (isClassRepC .nq t) (List.range n) 0

/-- `for (i=1; i<N; i++) if (wc[i-1]==wc[i]+1) nbp++;` -/
def nbpC (t : Triple) : Res Nat :=
  countC (fun i => do
    let a ← rd .wc .nbp t.wc ((i : Int) - 1)
    let b ← rd .wc .nbp t.wc i
    pure (a == b + 1)) (List.range' 1 (t.N - 1)) 0

/-- the value of `bmax` when the loop starts: `set_auto_spurious_weights(testS, …)` runs whenever
    `score=automatic` (its result is dropped when `bmax=` is given) with `n = strlen(S)`; the default
    rule of `main` runs over `N` -/
def effectiveBmaxC (o : Opts) (t : Triple) (start : Seq) : Res Nat := do
  let auto ← (if o.automatic then (do
      let _ ← nbpC t
      let q ← nqC t start.length
      pure (o.bmult * q + 1))
    else pure 0)
  match o.bmax with
  | some b => pure b
  | none =>
    if o.automatic then pure auto
    else if o.imax == 0 then do
      let q ← nqC t t.N
      pure (o.bmult * q + 1)
    else pure 0

/-! ### the `freeloc` table -/

/-- body of the loop that fills `freeloc`; state = (`freeloc`, `Nfree`) -/
def freelocStepC (t : Triple) (fn : List Nat × Nat) (i : Nat) : Res (List Nat × Nat) := do
  let c ← isClassRepC .freelocTable t i
  if c then do
    let ch ← rd .St .freelocTable t.st i
    if !isFixed ch then do
      let fl ← wr .freeloc .freelocTable fn.1 fn.2 i
      pure (fl, fn.2 + 1)
    else pure fn
  else pure fn

/-- `freeloc = calloc(N, sizeof(int)); Nfree = 0; for (i=0; i<N; i++) …` -/
def freelocC (t : Triple) : Res (List Nat × Nat) :=
  foldlC (freelocStepC t) (List.replicate t.N 0, 0) (List.range t.N)

/-! ### `mutate`, the search loop, `main` -/

/-- one iteration's inputs: the drawn index into `freeloc`, the new base, the score comparison -/
structure EventC where
  k : Nat
  base : Char
  cmp : Int
deriving Repr

/-- `mutate(S, St, wc, eq)` with the random choices made -/
def mutateC (t : Triple) (fl : List Nat) (nfree : Nat) (S : Seq) (k : Nat) (b : Char) : Res Seq := do
  if nfree == 0 then pure S
  else do
    let i ← rd .freeloc .mutate fl k
    let _oldc ← rd .S .mutate S i
    let _stc ← rd .St .mutate t.st i
    let S1 ← wr .S .mutate S i b
    constrainSingleFastC t S1 i

/-- `for i in is: dst[i] = src[i]` -/
def copyLoopC (s : Site) (srcA dstA : Arr) (src : Seq) : List Nat → Seq → Res Seq
  | [], dst => ok dst
  | i :: is, dst => do
    let v ← rd srcA s src i
    let d ← wr dstA s dst i v
    copyLoopC s srcA dstA src is d

structure StateC where
  S : Seq
  oldS : Seq
  bored : Nat
  steps : Nat
deriving Repr

def StateC.toState (s : StateC) : State := ⟨s.S, s.bored, s.steps⟩

/-- loop body -/
def stepC (t : Triple) (fl : List Nat) (nfree : Nat) (s : StateC) (e : EventC) : Res StateC := do
  let idx := List.range t.N
  let oldS ← copyLoopC .loopSave .S .oldS s.S idx s.oldS
  let S1 ← mutateC t fl nfree s.S e.k e.base
  if e.cmp ≤ 0 then
    pure { S := S1, oldS := oldS, bored := if e.cmp < 0 then 0 else s.bored + 1, steps := s.steps + 1 }
  else do
    let S2 ← copyLoopC .loopRestore .oldS .S oldS idx S1
    pure { S := S2, oldS := oldS, bored := s.bored + 1, steps := s.steps + 1 }

/-- the search loop -/
def runC (t : Triple) (p : Params) (fl : List Nat) (nfree : Nat) : StateC → List EventC → Res StateC
  | s, [] => ok s
  | s, e :: es =>
    if running p nfree s.toState then do
      let s' ← stepC t fl nfree s e
      runC t p fl nfree s' es
    else ok s

/-- `main` after `load_input_files` -/
def programC (t : Triple) (o : Opts) (start : Seq) (es : List EventC) : Res (Option Seq) := do
  let bmax ← effectiveBmaxC o t start
  let S ← constrainC t start
  let c ← testConsistencyC t S
  if !c then pure none
  else do
    let fn ← freelocC t
    let fin ← runC t ⟨bmax, o.imax⟩ fn.1 fn.2 ⟨S, List.replicate t.N ' ', 0, 0⟩ es
    let S' ← constrainC t fin.S
    let c' ← testConsistencyC t S'
    if !c' then pure none else pure (some S')

/-- the event of the total model: the looked-up position -/
def EventC.toEvent (t : Triple) (e : EventC) : Event := ⟨(freeLocs t).getD e.k 0, e.base, e.cmp⟩

end Pepper.SsmChecked
