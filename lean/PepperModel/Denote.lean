import PepperModel.Sem
import PepperModel.Comp
import PepperModel.Sys
/-!
# What a source program denotes (the specification side of C01 / C02 / C14)

`denoteComp` is defined *directly on the source AST*, compositionally, without the object tables of the
compile path: a quoted region is a fresh anonymous domain of its resolved length; a name is the
nucleotides bound to it; `x*` is the reverse complement; `domains(y)` is the nucleotides of `y` (it only
changes the segmentation that domain-level structures read); a strand is the concatenation of its
items; a structure's target is what its notation spells.  Zero-length objects denote `[]` and are
omitted from `domains` / `seqs` (the formats cannot express them).

Conventions of a `Design`: `domains` lists atomic sequences in order of definition (an anonymous region
counts at the place of the item that introduces it, after the named object is complete);
`seqs` lists the atomic ones first, then the super-sequences — the per-kind order is what
"nothing reordered" means.  Anonymous domains are named `_Anon<k>` with `k` counting occurrences; designs
are compared up to a renaming of those (`canon`, in the harness).
-/
namespace Pepper.Denote
open Pepper.Comp Pepper.Constraint

/-- what a name is bound to: its nucleotides and its segmentation into items -/
structure Bind where
  nucs : List Nuc
  segs : List (List Nuc)
  isSup : Bool
deriving Repr

structure Env where
  seqs : List (String × Bind) := []
  strands : List (String × List Nuc × List (List Nuc)) := []
  anon : Nat := 0

structure Out where
  domains : List (String × List Char) := []
  baseSeqs : List (String × List Nuc) := []
  supSeqs : List (String × List Nuc) := []
  strands : List (String × Bool × List Nuc) := []
  structs : List StructD := []
  kinetics : List KinD := []

inductive Err
  | undefined | duplicate | length | wildcard | notation | zeroStrand | number
deriving Repr, DecidableEq, BEq

def rcSegs (segs : List (List Nuc)) : List (List Nuc) := segs.reverse.map rc

/-- items of one statement: first pass computes everything except the wildcard region's length -/
structure ItemsAcc where
  segs : List (List Nuc) := []           -- in order; the wildcard region is a placeholder `[]`
  newDomains : List (Nat × String × List Char) := []   -- (segment index, name, template)
  wild : Option (Nat × List (Mult × Char)) := none    -- segment index, parts
  anon : Nat

def denoteItems (pfx : String) (env : Env) : List SrcItem → ItemsAcc → Except Err ItemsAcc
  | [], a => .ok a
  | .ref n star :: r, a =>
    match env.seqs.lookup n with
    | none => .error .undefined
    | some b => denoteItems pfx env r { a with segs := a.segs ++ [if star then rc b.nucs else b.nucs] }
  | .domains n star :: r, a =>
    match env.seqs.lookup n with
    | none => .error .undefined
    | some b =>
      if !b.isSup then .error .undefined
      else denoteItems pfx env r { a with segs := a.segs ++ (if star then rcSegs b.segs else b.segs) }
  | .nuc text :: r, a =>
    let parts := parseQuoted text
    match resolve parts none with
    | .ok (l, c) =>
      let name := pfx ++ "_Anon" ++ toString a.anon
      denoteItems pfx env r { a with segs := a.segs ++ [fwd name l], newDomains := a.newDomains ++ [(a.segs.length, name, c)], anon := a.anon + 1 }
    | .error .wildNoLength =>
      if a.wild.isSome then .error .wildcard
      else denoteItems pfx env r { a with segs := a.segs ++ [[]], wild := some (a.segs.length, parts) }
    | .error _ => .error .wildcard

def setAt {α} (l : List α) (i : Nat) (x : α) : List α := l.take i ++ x :: l.drop (i + 1)

/-- the nucleotides and segmentation of an item list with an optional declared length -/
def denoteRegion (pfx : String) (env : Env) (items : List SrcItem) (length : Option Nat) :
    Except Err (List (List Nuc) × List (String × List Char) × Nat) := do
  let a ← denoteItems pfx env items { anon := env.anon }
  let fixedLen := (a.segs.map List.length).sum
  match a.wild with
  | none =>
    match length with
    | some l => if l != fixedLen then throw .length
    | none => pure ()
    pure (a.segs, a.newDomains.map (·.2), a.anon)
  | some (i, parts) =>
    match length with
    | none => throw .wildcard
    | some l =>
      if l < fixedLen then throw .length
      match resolve parts (some (l - fixedLen)) with
      | .error _ => throw .length
      | .ok (wl, c) =>
        let name := pfx ++ "_Anon" ++ toString a.anon
        -- the wildcard region is introduced by its item: its domain is listed at that item's place
        let k := (a.newDomains.filter (fun d => d.1 < i)).length
        let doms := a.newDomains.map (·.2)
        pure (setAt a.segs i (fwd name wl), doms.take k ++ (name, c) :: doms.drop k, a.anon + 1)

def optOf : OptSrc → Except Err Opt
  | .default => .ok (.nt 1)
  | .noOpt => .ok .noOpt
  | .value t =>
    match parseDec t with
    | none => .error .number
    | some d =>
      if d.frac.all (· == '0') then
        let n := (stripZeros d.int).foldl (fun a c => a * 10 + (c.toNat - 48)) 0
        .ok (if n == 0 then .noOpt else .nt n)
      else .ok (.other (String.ofList d.fmtG))

def kinOf (pfx : String) (low high : Option String) (ins outs : List String) : Except Err KinD := do
  let f := fun (o : Option String) (dflt : String) => match o with
    | none => pure dflt
    | some t => match parseDec t with
      | some d => pure (if d.isZero then dflt else String.ofList d.fmtF)
      | none => throw Err.number
  let lo ← f low "0.000000"
  let hi ← f high "inf"
  pure ⟨ins.map (pfx ++ ·), outs.map (pfx ++ ·), lo, hi⟩

/-- the non-empty anonymous domains a statement introduces -/
def withNewDomains (o : Out) (doms : List (String × List Char)) : Out :=
  let ds := doms.filter (fun (d : String × List Char) => d.2.length != 0)
  { o with domains := o.domains ++ ds,
           baseSeqs := o.baseSeqs ++ ds.map (fun (d : String × List Char) => (d.1, fwd d.1 d.2.length)) }

def denoteStmt (pfx : String) (env : Env) (o : Out) : Stmt → Except Err (Env × Out)
  | .seq name [.nuc text] length =>
    if (env.seqs.lookup name).isSome then .error .duplicate else
    match resolve (parseQuoted text) length with
    | .error _ => .error .length
    | .ok (l, c) =>
      let nucs := fwd (pfx ++ name) l
      .ok ({ env with seqs := env.seqs ++ [(name, ⟨nucs, [nucs], false⟩)] },
           if l == 0 then o else { o with domains := o.domains ++ [(pfx ++ name, c)], baseSeqs := o.baseSeqs ++ [(pfx ++ name, nucs)] })
  | .seq name items length => do
    if (env.seqs.lookup name).isSome then throw .duplicate
    let (segs, doms, anon) ← denoteRegion pfx env items length
    let nucs := segs.flatten
    let o1 := withNewDomains o doms
    pure ({ env with seqs := env.seqs ++ [(name, ⟨nucs, segs, true⟩)], anon := anon },
          if nucs.isEmpty then o1 else { o1 with supSeqs := o1.supSeqs ++ [(pfx ++ name, nucs)] })
  | .strand dummy name items length => do
    if (env.strands.lookup name).isSome then throw .duplicate
    let (segs, doms, anon) ← denoteRegion pfx env items length
    let nucs := segs.flatten
    if nucs.isEmpty then throw .zeroStrand
    let o1 := withNewDomains o doms
    pure ({ env with strands := env.strands ++ [(name, nucs, segs)], anon := anon },
          { o1 with strands := o1.strands ++ [(pfx ++ name, dummy, nucs)] })
  | .struct opt name strands domain text => do
    if o.structs.any (·.name == pfx ++ name) then throw .duplicate
    let objs ← strands.mapM (fun n => match env.strands.lookup n with
      | some x => pure x | none => throw Err.undefined)
    let dp ← match Notation.compileStruct text with
      | some d => pure d | none => throw Err.notation
    let full ← if domain then
        (match Notation.domainExpand dp (objs.map (fun x => x.2.map List.length)) with
         | some f => pure f | none => throw Err.notation)
      else pure dp
    if !Notation.sizesOk full (objs.map (fun x => x.1.length)) then throw .length
    let ov ← optOf opt
    pure (env, { o with structs := o.structs ++ [⟨pfx ++ name, strands.map (pfx ++ ·), full, ov⟩] })
  | .kinetic low high ins outs => do
    if !(ins ++ outs).all (fun n => o.structs.any (·.name == pfx ++ n)) then throw .undefined
    let k ← kinOf pfx low high ins outs
    pure (env, { o with kinetics := o.kinetics ++ [k] })

def denoteStmts (pfx : String) : List Stmt → Env → Out → Except Err (Env × Out)
  | [], e, o => .ok (e, o)
  | s :: r, e, o => match denoteStmt pfx e o s with
    | .ok (e', o') => denoteStmts pfx r e' o'
    | .error x => .error x

def Out.design (o : Out) (equals : List (List (List Nuc))) : Design :=
  ⟨o.domains, o.baseSeqs ++ o.supSeqs, o.strands, o.structs, o.kinetics, equals⟩

/-- what a component source denotes, its ports (nucleotides of the sequence named in the declaration
    and the star of the declaration), and the next anonymous number -/
def denoteComp (src : Src) (pfx : String) (anon : Nat) : Except Err (Out × List (List Nuc × Bool) × Nat) := do
  let (env, o) ← denoteStmts pfx src.stmts { anon := anon } {}
  let ports ← (src.inputs ++ src.outputs).mapM (fun (p : Comp.Port) =>
    match env.seqs.lookup p.seq with
    | none => throw Err.undefined
    | some b =>
      match p.struct with
      | some sn => if o.structs.any (·.name == pfx ++ sn) then pure (b.nucs, p.star) else throw Err.undefined
      | none => pure (b.nucs, p.star))
  pure (o, ports, env.anon)


/-! ### systems -/
open Pepper.Sys

def Design.append (a b : Design) : Design :=
  ⟨a.domains ++ b.domains, a.seqs ++ b.seqs, a.strands ++ b.strands, a.structs ++ b.structs,
   a.kinetics ++ b.kinetics, a.equals ++ b.equals⟩

structure SigAcc where
  order : List String := []                              -- signals in order of first binding
  len : List (String × Nat) := []
  members : List (String × List (List Nuc)) := []

def bindPorts (acc : SigAcc) (globs : List SigRef) (ports : List (List Nuc × Bool)) : Except Err SigAcc :=
  (List.zip globs ports).foldlM (fun (a : SigAcc) (gp : SigRef × (List Nuc × Bool)) =>
    let g := gp.1
    let x := gp.2.1
    let region := if g.star != gp.2.2 then rc x else x     -- equal when the stars agree, reverse complement otherwise
    match a.len.lookup g.name with
    | none =>
      if x.isEmpty then Except.error Err.length
      else Except.ok { order := a.order ++ [g.name], len := a.len ++ [(g.name, x.length)],
                       members := a.members ++ [(g.name, [region])] }
    | some l =>
      if l != x.length then Except.error Err.length
      else Except.ok { a with members := a.members.map (fun (k, v) => if k == g.name then (k, v ++ [region]) else (k, v)) }) acc

mutual
/-- the design of `base` instantiated under prefix `pfx`, and its ports -/
def denoteFile (b : Bundle) : Nat → String → Nat → String → String → String → List String → Nat →
    Except Err (Design × List (List Nuc × Bool) × Nat)
  | 0, _, _, _, _, _, _, _ => .error .undefined
  | fuel + 1, base, args, argKey, pfx, path, includes, anon =>
    match resolveImport (fun p => b.exists_.contains (normPath p)) base path includes with
    | .error _ => .error .undefined
    | .ok (fname, issys, newPath) =>
      match b.files.lookup (normPath fname ++ argKey) with
      | none => .error .undefined
      | some (.comp c) =>
        if issys || c.params.length != args then .error .undefined else
        match denoteComp c pfx anon with
        | .error e => .error e
        | .ok (o, ports, a) => .ok (o.design [], ports, a)
      | some (.sys s) =>
        if !issys || s.params.length != args then .error .undefined else
        match denoteSysStmts b fuel includes newPath pfx s.stmts [] Design.empty {} anon with
        | .error e => .error e
        | .ok (d, sa, a) =>
          if !(s.inputs ++ s.outputs).all (fun r => sa.order.contains r.name) then .error .undefined else
          let sigDesign : Design :=
            { Design.empty with
              domains := sa.order.map (fun n => (pfx ++ n, List.replicate ((sa.len.lookup n).getD 0) 'N'))
              seqs := sa.order.map (fun n => (pfx ++ n, fwd (pfx ++ n) ((sa.len.lookup n).getD 0)))
              equals := sa.order.map (fun n => fwd (pfx ++ n) ((sa.len.lookup n).getD 0) :: (sa.members.lookup n).getD []) }
          .ok (Design.append d sigDesign,
               (s.inputs ++ s.outputs).map (fun r => (fwd (pfx ++ r.name) ((sa.len.lookup r.name).getD 0), r.star)), a)

def denoteSysStmts (b : Bundle) (fuel : Nat) (includes : List String) (path pfx : String) :
    List SStmt → List (String × String) → Design → SigAcc → Nat → Except Err (Design × SigAcc × Nat)
  | [], _, d, sa, a => .ok (d, sa, a)
  | .imports items :: r, tmpl, d, sa, a =>
    let add := items.foldl (fun (acc : Option (List (String × String))) (it : String × Option String) =>
      match acc with
      | none => none
      | some t =>
        let name := match it.2 with
          | some n => n
          | none => match (splitSlash it.1).reverse with | x :: _ => x | [] => it.1
        if (t.lookup name).isSome then none else some (t ++ [(name, it.1)])) (some tmpl)
    match add with
    | none => .error .duplicate
    | some t => denoteSysStmts b fuel includes path pfx r t d sa a
  | .component cname templ args ins outs :: r, tmpl, d, sa, a =>
    match tmpl.lookup templ with
    | none => .error .undefined
    | some tpath =>
      match denoteFile b fuel tpath args ("@" ++ pfx ++ cname) (pfx ++ cname ++ "-") path includes a with
      | .error e => .error e
      | .ok (d', ports, a') =>
        if ports.length != ins.length + outs.length then .error .length else
        match bindPorts sa (ins ++ outs) ports with
        | .error e => .error e
        | .ok sa' => denoteSysStmts b fuel includes path pfx r tmpl (Design.append d d') sa' a'
end

/-- the design a whole compilation unit denotes -/
def denoteTop (b : Bundle) (entry : String) (args : Nat) (includes : List String) (anon : Nat) : Except Err Design :=
  (denoteFile b 32 entry args "@" "" "." includes anon).map (·.1)

end Pepper.Denote
