import PepperModel.Sem
import PepperModel.Codes
import PepperModel.Constraint
import PepperModel.Notation
/-!
# Components: source AST, object model, elaboration, PIL / DES emission
(mirrors `component_parser.load_component` from the statement loop on, `component_class.Component`
(`add_sequence`, `clean_const`, `add_super_sequence`, `add_strand`, `add_structure`, `add_kinetic`,
`add_IO`, `output_synthesis`, `output_nupack`) and `DNA_classes` (`Sequence`, `ReverseSequence`,
`AnonymousSequence`, `SuperSequence`, `ReverseSuperSequence`, `Strand`, `Structure`, `Kinetics`))

The statement-level regexes are on the implementation side of the correspondence: the harness renders
an AST to `.comp` text for the real compiler and sends the AST here.  The two leaf notations that carry
real logic — quoted nucleotide regions and secondary-structure text — arrive as raw text and go
through `Constraint.parseQuoted` and `Notation.compileStruct`.

Python object references become values: `ItemRef` = (local name, orientation, length, kind) and
`BaseRef` for atomic sequences; whatever else the code reads through a reference (`seqs`,
`base_seqs`, `const`) is looked up by name in the component's tables.  The process-wide counter
`AnonymousSequence.num` is threaded through as `anon`.  Every `error()` / failed `assert` is
`Except.error`.
-/
namespace Pepper.Comp
open Pepper.Constraint

/-! ### source AST -/

inductive SrcItem
  | nuc (text : List Char)                 -- body of a quoted region
  | ref (name : String) (star : Bool)      -- `x` / `x*`
  | domains (name : String) (star : Bool)  -- `domains(x)` / `domains(x*)`
deriving Repr, DecidableEq, BEq

inductive OptSrc
  | default                -- no bracket: 1.0
  | noOpt                  -- `[no-opt]`: 0.0
  | value (text : String)  -- `[<decimal>nt]`
deriving Repr, DecidableEq, BEq

inductive Stmt
  | seq (name : String) (items : List SrcItem) (len : Option Nat)
  | strand (dummy : Bool) (name : String) (items : List SrcItem) (len : Option Nat)
  | struct (opt : OptSrc) (name : String) (strands : List String) (domain : Bool) (text : List Char)
  | kinetic (low high : Option String) (ins outs : List String)
deriving Repr, DecidableEq, BEq

structure Port where
  seq : String
  star : Bool
  struct : Option String
deriving Repr, DecidableEq, BEq

structure Src where
  name : String
  params : List String
  inputs : List Port
  outputs : List Port
  stmts : List Stmt
deriving Repr, DecidableEq, BEq

/-! ### object model -/

structure BaseRef where
  name : String
  rev : Bool
  len : Nat
deriving Repr, DecidableEq, BEq

def BaseRef.inv (b : BaseRef) : BaseRef := { b with rev := !b.rev }

structure ItemRef where
  name : String
  rev : Bool
  len : Nat
  isSup : Bool
deriving Repr, DecidableEq, BEq

def ItemRef.inv (i : ItemRef) : ItemRef := { i with rev := !i.rev }
def ItemRef.dummy (i : ItemRef) : Bool := i.len == 0

structure SeqE where
  name : String
  isSup : Bool
  anon : Bool
  len : Nat
  const : List Char           -- atomic sequences: long-form constraint
  items : List ItemRef        -- super-sequences: `seqs`
  bases : List BaseRef        -- `base_seqs` of the forward view
  inStrand : Bool := false
deriving Repr, DecidableEq, BEq

def SeqE.ref (e : SeqE) : ItemRef := ⟨e.name, false, e.len, e.isSup⟩

structure StrandE where
  name : String
  dummy : Bool
  len : Nat
  items : List ItemRef
  bases : List BaseRef
  inStructure : Bool := false
deriving Repr, DecidableEq, BEq

/-- a decimal numeral as the source wrote it: integer digits and fractional digits -/
structure Dec where
  int : List Char
  frac : List Char
deriving Repr, DecidableEq, BEq

structure StructE where
  name : String
  opt : Dec
  strands : List String
  struct : List Char
  bases : List BaseRef
deriving Repr, DecidableEq, BEq

structure KinE where
  name : String
  ins : List String
  outs : List String
  low : Option Dec      -- none = 0
  high : Option Dec     -- none = inf
deriving Repr, DecidableEq, BEq

structure St where
  name : String
  pfx : String
  params : List String := []
  seqs : List SeqE := []          -- `seqs` dict in insertion order; `base_seqs` / `sup_seqs` are its two filters
  strands : List StrandE := []
  structs : List StructE := []
  kins : List KinE := []
  inputSeqs : List ItemRef := []
  inputStructs : List (Option String) := []
  outputSeqs : List ItemRef := []
  outputStructs : List (Option String) := []
deriving Repr, DecidableEq, BEq

inductive Err
  | dupSeq | dupStrand | dupStruct | undefinedSeq | undefinedSup | undefinedStrand | undefinedStruct
  | constraint (e : Constraint.Err) | tooManyWild | lengthMismatch | wildNoLength | tooShort
  | zeroStrand | structNotation | structCount | structDomains | structLen | unbalanced
  | badNumber | superSeqStatement | arity | other
deriving Repr, DecidableEq, BEq

def St.findSeq (s : St) (n : String) : Option SeqE := s.seqs.find? (·.name == n)
def St.findStrand (s : St) (n : String) : Option StrandE := s.strands.find? (·.name == n)
def St.findStruct (s : St) (n : String) : Option StructE := s.structs.find? (·.name == n)
def St.baseSeqs (s : St) : List SeqE := s.seqs.filter (!·.isSup)
def St.supSeqs (s : St) : List SeqE := s.seqs.filter (·.isSup)

/-- `seq.seqs` / `(~seq).seqs` of a super-sequence view -/
def itemsOfView (e : SeqE) (rev : Bool) : List ItemRef :=
  if rev then e.items.reverse.map ItemRef.inv else e.items

/-- `base_seqs` of a view -/
def basesOfView (e : SeqE) (rev : Bool) : List BaseRef :=
  if rev then e.bases.reverse.map BaseRef.inv else e.bases

/-! ### `clean_const` -/

/-- a constraint item after name resolution -/
inductive CItem
  | obj (i : ItemRef) (bases : List BaseRef)     -- a sequence / super-sequence view and its `base_seqs`
  | nuc (parts : List (Mult × Char))
deriving Repr

def cleanConst (s : St) : List SrcItem → Except Err (List CItem)
  | [] => .ok []
  | .ref name star :: r => do
    match s.findSeq name with
    | none => throw .undefinedSeq
    | some e =>
      let rest ← cleanConst s r
      pure (.obj ⟨e.name, star, e.len, e.isSup⟩ (basesOfView e star) :: rest)
  | .domains name star :: r => do
    match s.findSeq name with
    | some e =>
      if !e.isSup then throw .undefinedSup
      let its := itemsOfView e star
      let objs ← its.mapM (fun (i : ItemRef) => match s.findSeq i.name with
        | some ie => pure (CItem.obj i (basesOfView ie i.rev))
        | none => throw Err.other)
      let rest ← cleanConst s r
      pure (objs ++ rest)
    | none => throw .undefinedSup
  | .nuc text :: r => do
    let rest ← cleanConst s r
    pure (.nuc (parseQuoted text) :: rest)

/-! ### `SuperSequence.__init__` (also `Strand`) -/

def anonName (k : Nat) : String := "_Anon" ++ toString k

structure Built where
  items : List ItemRef
  bases : List BaseRef
  len : Nat
  newAnon : List SeqE          -- anonymous sequences created, in creation order
  anon : Nat                   -- counter afterwards
deriving Repr

structure Acc where
  items : List ItemRef := []
  bases : List BaseRef := []
  len : Nat := 0
  newAnon : List SeqE := []
  anon : Nat
  wild : Option (Nat × Nat × List (Mult × Char)) := none

def mkAnon (k : Nat) (len : Nat) (const : List Char) : SeqE :=
  ⟨anonName k, false, true, len, const, [], [⟨anonName k, false, len⟩], false⟩

def buildStep (a : Acc) : CItem → Except Err Acc
  | .obj i bs => .ok { a with items := a.items ++ [i], bases := a.bases ++ bs, len := a.len + i.len }
  | .nuc parts =>
    match resolve parts none with
    | .ok (l, c) =>
      let e := mkAnon a.anon l c
      .ok { a with items := a.items ++ [e.ref], bases := a.bases ++ e.bases, len := a.len + l,
                   newAnon := a.newAnon ++ [e], anon := a.anon + 1 }
    | .error .wildNoLength =>
      if a.wild.isSome then .error .tooManyWild
      else .ok { a with wild := some (a.items.length, a.bases.length, parts) }
    | .error e => .error (.constraint e)

def buildFold : List CItem → Acc → Except Err Acc
  | [], a => .ok a
  | c :: r, a => match buildStep a c with
    | .ok a' => buildFold r a'
    | .error e => .error e

def insertAt {α} (l : List α) (i : Nat) (x : α) : List α := l.take i ++ x :: l.drop i

def buildSuper (anon : Nat) (items : List CItem) (length : Option Nat) : Except Err Built := do
  let a ← buildFold items { anon := anon }
  match a.wild with
  | none =>
    match length with
    | some l => if a.len == l then pure ⟨a.items, a.bases, a.len, a.newAnon, a.anon⟩ else throw .lengthMismatch
    | none => pure ⟨a.items, a.bases, a.len, a.newAnon, a.anon⟩
  | some (i, j, parts) =>
    match length with
    | none => throw .wildNoLength
    | some l =>
      if l < a.len then throw .tooShort
      match resolve parts (some (l - a.len)) with
      | .error e => throw (.constraint e)
      | .ok (wl, c) =>
        let e := mkAnon a.anon wl c
        pure ⟨insertAt a.items i e.ref, insertAt a.bases j ⟨e.name, false, wl⟩, a.len + wl,
              a.newAnon ++ [e], a.anon + 1⟩

/-- register the anonymous sequences of a freshly built object in `seqs` order of its items
    (`for seq in sup.seqs: … if seq.name not in self.seqs`) -/
def registerAnon (s : St) (b : Built) : St :=
  b.items.foldl (fun s i =>
    if (s.findSeq i.name).isSome then s
    else match b.newAnon.find? (·.name == i.name) with
      | some e => { s with seqs := s.seqs ++ [e] }
      | none => s) s

/-! ### statements -/

def parseDec (s : String) : Option Dec :=
  let cs := s.toList
  let ip := cs.takeWhile Char.isDigit
  let rest := cs.dropWhile Char.isDigit
  match rest with
  | [] => if ip.isEmpty then none else some ⟨ip, []⟩
  | '.' :: f => if f.all Char.isDigit && !(ip.isEmpty && f.isEmpty) then some ⟨ip, f⟩ else none
  | _ => none

def Dec.isZero (d : Dec) : Bool := d.int.all (· == '0') && d.frac.all (· == '0')
def stripZeros (l : List Char) : List Char := match l.dropWhile (· == '0') with | [] => ['0'] | r => r
/-- `"%d" % float`: truncation -/
def Dec.fmtD (d : Dec) : List Char := stripZeros d.int
/-- drop trailing zeros -/
def stripTrail (l : List Char) : List Char := (l.reverse.dropWhile (· == '0')).reverse
/-- `"%g" % float` for decimals below 10^6 with at most six significant digits: shortest plain form -/
def Dec.fmtG (d : Dec) : List Char :=
  match stripTrail d.frac with
  | [] => stripZeros d.int
  | f => stripZeros d.int ++ '.' :: f
/-- `"%f" % float` for decimals with at most six fractional digits -/
def Dec.fmtF (d : Dec) : List Char := stripZeros d.int ++ '.' :: (d.frac ++ List.replicate (6 - d.frac.length) '0').take 6

def markInStrand (s : St) (bs : List BaseRef) : St :=
  { s with seqs := s.seqs.map (fun e => if bs.any (·.name == e.name) then { e with inStrand := true } else e) }

def addStmt (s : St) (anon : Nat) : Stmt → Except Err (St × Nat)
  | .seq name items length =>
    if (s.findSeq name).isSome then .error .dupSeq
    else match items with
    | [.nuc text] =>
      match resolve (parseQuoted text) length with
      | .ok (l, c) => .ok ({ s with seqs := s.seqs ++ [⟨name, false, false, l, c, [], [⟨name, false, l⟩], false⟩] }, anon)
      | .error e => .error (.constraint e)
    | _ => do
      let cs ← cleanConst s items
      let b ← buildSuper anon cs length
      let s1 := { s with seqs := s.seqs ++ [⟨name, true, false, b.len, [], b.items, b.bases, false⟩] }
      pure (registerAnon s1 b, b.anon)
  | .strand dummy name items length => do
    if (s.findStrand name).isSome then throw .dupStrand
    let cs ← cleanConst s items
    let b ← buildSuper anon cs length
    if b.len == 0 then throw .zeroStrand
    let s1 := { s with strands := s.strands ++ [⟨name, dummy, b.len, b.items, b.bases, false⟩] }
    let s2 := registerAnon s1 b
    pure (markInStrand s2 b.bases, b.anon)
  | .struct opt name strands domain text => do
    if (s.findStruct name).isSome then throw .dupStruct
    let objs ← strands.mapM (fun n => match s.findStrand n with
      | some o => pure o | none => throw Err.undefinedStrand)
    let dp ← match Notation.compileStruct text with
      | some d => pure d | none => throw Err.structNotation
    let full ← if domain then
        (match Notation.domainExpand dp (objs.map (fun o => o.items.map (·.len))) with
         | some f => pure f | none => throw Err.structDomains)
      else pure dp
    if !Notation.sizesOk full (objs.map (·.len)) then throw .structLen
    let optv ← match opt with
      | .default => pure (⟨['1'], []⟩ : Dec)
      | .noOpt => pure ⟨['0'], []⟩
      | .value t => match parseDec t with | some d => pure d | none => throw Err.badNumber
    let s1 : St := { s with strands := s.strands.map (fun (o : StrandE) => if strands.contains o.name then { o with inStructure := true } else o) }
    let se : StructE := ⟨name, optv, strands, full, objs.flatMap (·.bases)⟩
    pure ({ s1 with structs := s1.structs ++ [se] }, anon)
  | .kinetic low high ins outs => do
    if !(ins ++ outs).all (fun n => (s.findStruct n).isSome) then throw .undefinedStruct
    let lo ← match low with
      | none => pure none
      | some t => match parseDec t with | some d => pure (if d.isZero then none else some d) | none => throw Err.badNumber
    let hi ← match high with
      | none => pure none
      | some t => match parseDec t with | some d => pure (if d.isZero then none else some d) | none => throw Err.badNumber
    pure ({ s with kins := s.kins ++ [⟨"Kin" ++ toString s.kins.length, ins, outs, lo, hi⟩] }, anon)

def addStmts (s : St) (anon : Nat) : List Stmt → Except Err (St × Nat)
  | [] => .ok (s, anon)
  | st :: r => match addStmt s anon st with
    | .ok (s', a') => addStmts s' a' r
    | .error e => .error e

def addIO (s : St) (inputs outputs : List Port) : Except Err St := do
  let go := fun (ps : List Port) => ps.mapM (fun (p : Port) => do
    match s.findSeq p.seq with
    | none => throw Err.undefinedSeq
    | some e =>
      match p.struct with
      | some sn => if (s.findStruct sn).isNone then throw Err.undefinedStruct
      | none => pure ()
      pure ((⟨e.name, p.star, e.len, e.isSup⟩ : ItemRef), p.struct))
  let ins ← go inputs
  let outs ← go outputs
  pure { s with inputSeqs := ins.map (·.1), inputStructs := ins.map (·.2),
                outputSeqs := outs.map (·.1), outputStructs := outs.map (·.2) }

/-- `load_component` after parameter substitution -/
def load (src : Src) (args : Nat) (pfx : String) (anon : Nat) : Except Err (St × Nat) := do
  if src.params.length != args then throw .arity
  let (s, a) ← addStmts { name := src.name, pfx := pfx, params := src.params } anon src.stmts
  let s ← addIO s src.inputs src.outputs
  pure (s, a)

/-! ### emission -/

def fullName (pfx : String) (n : String) (rev : Bool) : String := pfx ++ n ++ (if rev then "*" else "")

def joinWith (sep : String) : List String → String
  | [] => ""
  | [a] => a
  | a :: r => a ++ sep ++ joinWith sep r

def itemNames (pfx : String) (its : List ItemRef) : String :=
  joinWith " " ((its.filter (!·.dummy)).map (fun i => fullName pfx i.name i.rev))

/-- `output_synthesis`: the non-comment lines written for one component -/
def emitPil (s : St) : List String :=
  let p := s.pfx
  ((s.baseSeqs.filter (·.len != 0)).map (fun e =>
      "sequence " ++ p ++ e.name ++ " = " ++ String.ofList e.const ++ " : " ++ toString e.len))
  ++ ((s.supSeqs.filter (·.len != 0)).map (fun e =>
      "sup-sequence " ++ p ++ e.name ++ " = " ++ itemNames p e.items ++ " : " ++ toString e.len))
  ++ (s.strands.map (fun e =>
      "strand " ++ (if e.dummy then "[dummy] " else "") ++ p ++ e.name ++ " = " ++ itemNames p e.items ++ " : " ++ toString e.len))
  ++ (s.structs.map (fun e =>
      "structure [" ++ String.ofList e.opt.fmtG ++ "nt] " ++ p ++ e.name ++ " = " ++
        joinWith " + " (e.strands.map (p ++ ·)) ++ " : " ++ String.ofList e.struct))
  ++ (s.kins.map (fun k =>
      "kinetic [" ++ (match k.low with | some d => String.ofList d.fmtF | none => "0.000000") ++ " /M/s < k < " ++
        (match k.high with | some d => String.ofList d.fmtF | none => "inf") ++ " /M/s] " ++
        joinWith " + " (k.ins.map (p ++ ·)) ++ " -> " ++ joinWith " + " (k.outs.map (p ++ ·))))

/-- `output_nupack` -/
def emitDes (s : St) : List String :=
  let p := s.pfx
  (s.structs.map (fun e => "structure " ++ p ++ e.name ++ " = " ++ String.ofList e.struct))
  ++ ((s.baseSeqs.filter (·.len != 0)).map (fun e => "sequence " ++ p ++ e.name ++ " = " ++ String.ofList e.const))
  ++ (s.structs.flatMap (fun e =>
      [p ++ e.name ++ " : " ++ joinWith " " ((e.bases.filter (·.len != 0)).map (fun b => fullName p b.name b.rev))]
      ++ (if e.opt.isZero then [] else [p ++ e.name ++ " < " ++ String.ofList e.opt.fmtF])))

end Pepper.Comp
