/-!
# `design/constraints.py : propagate_constraints`

The model keeps the round structure of the Python: for each key `x` not yet resolved, start from
`eq[x] ∪ {x}` / `wc[x]`, then repeat { process every pending `eq` item; process every pending `wc`
item } until nothing is pending, then store the two sets with every member.  Python sets become
duplicate-free lists (iteration order of a Python set is unspecified; the theorems show the result
does not depend on it).  The `while` loop becomes a fuelled iteration; `2·|keys|+1` rounds are
proved sufficient.  The two `assert`s of the Python (`y in keys and y not in eq_all`) are modelled
by `classBad`: the call fails iff some member of the computed class is not a key or is already
resolved (see the comment at `propagate`).
-/
namespace Pepper.Closure

abbrev Item := Nat
abbrev Adj := List (Item × List Item)

def nb (g : Adj) (x : Item) : List Item :=
  match g.lookup x with
  | some l => l
  | none => []

def ins (s : List Item) (x : Item) : List Item := if x ∈ s then s else x :: s
def union (s t : List Item) : List Item := t.foldl ins s
def diff (s t : List Item) : List Item := s.filter (fun y => !(t.contains y))

structure St where
  E : List Item
  W : List Item
  Ed : List Item
  Wd : List Item
deriving Repr

def stepEq (eq wc : Adj) (s : St) (y : Item) : St :=
  { s with E := union s.E (nb eq y), W := union s.W (nb wc y), Ed := ins s.Ed y }
def stepWc (eq wc : Adj) (s : St) (y : Item) : St :=
  { s with W := union s.W (nb eq y), E := union s.E (nb wc y), Wd := ins s.Wd y }

def roundEq (eq wc : Adj) (s : St) : St := (diff s.E s.Ed).foldl (stepEq eq wc) s
def roundWc (eq wc : Adj) (s : St) : St := (diff s.W s.Wd).foldl (stepWc eq wc) s
def round (eq wc : Adj) (s : St) : St := roundWc eq wc (roundEq eq wc s)

def pending (s : St) : Bool := !(diff s.E s.Ed).isEmpty || !(diff s.W s.Wd).isEmpty

def iter (eq wc : Adj) : Nat → St → St
  | 0, s => s
  | n+1, s => if pending s then iter eq wc n (round eq wc s) else s

def init (eq wc : Adj) (x : Item) : St :=
  { E := ins (union [] (nb eq x)) x, W := union [] (nb wc x), Ed := [], Wd := [] }

def keys (g : Adj) : List Item := g.map (·.1)

def classOf (eq wc : Adj) (x : Item) : St := iter eq wc (2 * (keys eq).length + 1) (init eq wc x)

/-- result map: item ↦ (its equals, its complements) -/
abbrev Res := List (Item × List Item × List Item)

def Res.get (r : Res) (x : Item) : Option (List Item × List Item) := r.lookup x
def Res.has (r : Res) (x : Item) : Bool := (r.lookup x).isSome
/-- `d[y] = v` on an insertion-ordered dict -/
def Res.set (r : Res) (y : Item) (v : List Item × List Item) : Res :=
  if r.has y then r.map (fun (k, w) => if k == y then (k, v) else (k, w)) else r ++ [(y, v)]

/-- one of the Python's asserts would fire while resolving this class -/
def classBad (eq : Adj) (r : Res) (s : St) : Bool :=
  (s.E ++ s.W).any (fun y => !((keys eq).contains y) || r.has y)

def storeClass (r : Res) (s : St) : Res :=
  let r1 := s.E.foldl (fun r y => r.set y (s.E, s.W)) r
  s.W.foldl (fun r y => r.set y (s.W, s.E)) r1

inductive Err | keysDiffer | assertion
deriving Repr, DecidableEq

def resolve (eq wc : Adj) (r : Res) (x : Item) : Except Err Res :=
  if r.has x then .ok r
  else
    let s := classOf eq wc x
    if classBad eq r s then .error .assertion else .ok (storeClass r s)

def resolveAll (eq wc : Adj) : List Item → Res → Except Err Res
  | [], r => .ok r
  | x :: xs, r => match resolve eq wc r x with
    | .ok r' => resolveAll eq wc xs r'
    | .error e => .error e

/-- `propagate_constraints(eq, wc)`.
    Every member of a class is processed by the Python loop unless an assert fires first, and the
    sets only grow, so "an assert fires" is equivalent to "the class computed without asserts
    contains a non-key or an already resolved item" (`classBad`). -/
def propagate (eq wc : Adj) : Except Err Res :=
  if keys eq != keys wc then .error .keysDiffer
  else resolveAll eq wc (keys eq) []

/-! ### the documented precondition -/

/-- `y in eq[x] ⇒ x in eq[y]`, likewise for `wc`; every neighbour is a key; keys are those of a dict -/
structure Pre (eq wc : Adj) : Prop where
  sameKeys : keys eq = keys wc
  nodupKeys : (keys eq).Nodup
  eqClosed : ∀ y z, z ∈ nb eq y → z ∈ keys eq
  wcClosed : ∀ y z, z ∈ nb wc y → z ∈ keys eq
  eqSymm : ∀ y z, z ∈ nb eq y → y ∈ nb eq z
  wcSymm : ∀ y z, z ∈ nb wc y → y ∈ nb wc z

/-- executable form of `Pre`, used by the driver and the harness generators -/
def preB (eq wc : Adj) : Bool :=
  keys eq == keys wc && (keys eq).Nodup
  && eq.all (fun (y, l) => l.all (fun z => (keys eq).contains z && (nb eq z).contains y))
  && wc.all (fun (y, l) => l.all (fun z => (keys eq).contains z && (nb wc z).contains y))

/-- parity-labelled reachability: the specification of C07 -/
inductive Reach (eq wc : Adj) (x : Item) : Bool → Item → Prop
  | refl : Reach eq wc x false x
  | eqStep {p y z} : Reach eq wc x p y → z ∈ nb eq y → Reach eq wc x p z
  | wcStep {p y z} : Reach eq wc x p y → z ∈ nb wc y → Reach eq wc x (!p) z

/-- a deliberately naive, different algorithm for the same closure (used as the oracle of the
    failing-input search): saturate the set of (item, parity) pairs `n` times over all edges -/
def naiveStep (eq wc : Adj) (s : List (Item × Bool)) : List (Item × Bool) :=
  s.foldl (fun acc (y, p) =>
    let acc := (nb eq y).foldl (fun a z => if a.contains (z, p) then a else a ++ [(z, p)]) acc
    (nb wc y).foldl (fun a z => if a.contains (z, !p) then a else a ++ [(z, !p)]) acc) s

def naiveIter (eq wc : Adj) : Nat → List (Item × Bool) → List (Item × Bool)
  | 0, s => s
  | n+1, s => naiveIter eq wc n (naiveStep eq wc s)

def naiveClass (eq wc : Adj) (x : Item) : List Item × List Item :=
  let s := naiveIter eq wc (2 * (keys eq).length + 2) [(x, false)]
  ((s.filter (fun q => !q.2)).map (·.1), (s.filter (fun q => q.2)).map (·.1))

end Pepper.Closure
