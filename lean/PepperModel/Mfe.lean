import PepperModel.Pil
import PepperModel.Codes
/-!
# Loading a designed nucleotide string back into the specification and writing the `.mfe`
(mirrors `Convert.process_results`, `Sequence/SuperSequence.set_seq`, `get_seq`, `Structure.get_seq` of
`design/PIL_DNA_classes.py` and `Convert.output(findmfe=False)` of `design/constraint_load.py`)

Python keeps `x.seq` on every view and maintains `x.wc.seq = seq_comp(x.seq)` whenever it sets one of them,
so the state is a map from the *forward* name to its sequence.  Setting a view `(name, rev)` to `s` sets the
forward value `if rev then seq_comp s else s`; an already set object is only compared (`assert self.seq == seq`),
not redistributed.  The GC-content field of the file is a float and is kept opaque (`"GC"`).
-/
namespace Pepper.Mfe
open Pepper.Pil

abbrev Assigned := List (String × List Char)

inductive Err
  | differs      -- "was designed with 2 different sequences"
  | length       -- "Designed sequence length mismatch"
  | letter       -- a letter without complement
  | index        -- position outside the designed string
  | undefined
deriving Repr, DecidableEq, BEq

def fwdValue (t : CodeTable) (rev : Bool) (s : List Char) : Except Err (List Char) :=
  if rev then (match t.wcStr s with | some r => .ok r | none => .error .letter) else .ok s

mutual
/-- `view.set_seq(s)` -/
def setSeq (t : CodeTable) (spec : Spec) : Nat → Assigned → ItemRef → List Char → Except Err Assigned
  | 0, _, _, _ => .error .undefined
  | fuel + 1, a, i, s =>
    match spec.findSeq i.name with
    | none => .error .undefined
    | some o =>
      match fwdValue t i.rev s with
      | .error e => .error e
      | .ok v =>
        if o.isSup && s.length != o.len then .error .length
        else match a.lookup i.name with
          | some old => if !old.isEmpty then (if old == v then .ok a else .error .differs)
                        else setFresh t spec fuel a i o s v
          | none => setFresh t spec fuel a i o s v
/-- first assignment of an object: record it, then (super-sequences) hand the pieces to the sub-sequences of the view -/
def setFresh (t : CodeTable) (spec : Spec) : Nat → Assigned → ItemRef → SeqObj → List Char → List Char → Except Err Assigned
  | fuel, a, i, o, s, v =>
    let a1 := a.filter (·.1 != i.name) ++ [(i.name, v)]
    if !o.isSup then .ok a1
    else setList t spec fuel a1 (if i.rev then o.items.reverse.map ItemRef.inv else o.items) s
/-- `for sub_seq in self.seqs: sub_seq.set_seq(seq[i:i+len]); i += len` -/
def setList (t : CodeTable) (spec : Spec) : Nat → Assigned → List ItemRef → List Char → Except Err Assigned
  | _, a, [], _ => .ok a
  | fuel, a, i :: r, s =>
    let len := match spec.findSeq i.name with | some o => o.len | none => 0
    match setSeq t spec fuel a i (s.take len) with
    | .ok a' => setList t spec fuel a' r (s.drop len)
    | .error e => .error e
end

/-- `strand.set_seq(seq)` (a `Strand` is a `SuperSequence` that is not in `spec.seqs`) -/
def setStrand (t : CodeTable) (spec : Spec) (a : Assigned) (st : StrandObj) (s : List Char) : Except Err Assigned :=
  if s.length != st.len then .error .length else setList t spec (spec.seqs.length + 2) a st.items s

/-- `process_results(nts)`: the string of every strand read off the designed positions, handed down to the sequences -/
def processResults (t : CodeTable) (spec : Spec) (start : StrandObj → Option Nat) (nts : List Char) :
    Except Err (Assigned × List (String × List Char)) :=
  spec.strands.foldlM (fun (acc : Assigned × List (String × List Char)) (st : StrandObj) =>
    match start st with
    | none => Except.error Err.index
    | some p =>
      let s := (nts.drop p).take st.len
      if s.length != st.len then Except.error Err.index
      else match setStrand t spec acc.1 st s with
        | .ok a' => Except.ok (a', acc.2 ++ [(st.name, s)])
        | .error e => Except.error e) ([], [])

/-- `get_seq()`: the designed sequence, or the template / the concatenation of the parts' `get_seq()` -/
def getSeq (t : CodeTable) (spec : Spec) (a : Assigned) : Nat → ItemRef → Option (List Char)
  | 0, _ => none
  | fuel + 1, i =>
    match spec.findSeq i.name with
    | none => none
    | some o =>
      let fwdv : Option (List Char) := match a.lookup i.name with
        | some v => if v.isEmpty then none else some v
        | none => none
      match fwdv with
      | some v => if i.rev then t.wcStr v else some v
      | none =>
        if !o.isSup then (if i.rev then t.wcStr o.template else some o.template)
        else
          (if i.rev then o.items.reverse.map ItemRef.inv else o.items).foldlM
            (fun (acc : List Char) (j : ItemRef) => (getSeq t spec a fuel j).map (acc ++ ·)) []

def joinPlus : List (List Char) → List Char
  | [] => []
  | [x] => x
  | x :: r => x ++ '+' :: joinPlus r

/-- one record of the `.mfe` file as four lines (the GC-content float is opaque) -/
def record (num : Nat) (name : String) (seq struct1 struct2 : List Char) : List String :=
  [toString num ++ ":" ++ name, String.ofList seq ++ " 0.000000 GC 0", String.ofList struct1, String.ofList struct2]

/-- `output(outname, findmfe=False)` after `process_results` -/
def output (t : CodeTable) (spec : Spec) (a : Assigned) (strandSeqs : List (String × List Char)) : Option (List String) := do
  let structLines ← (List.zip (List.range spec.structs.length) spec.structs).mapM (fun (n, so) => do
    let parts ← so.strands.mapM (fun sn => strandSeqs.lookup sn)
    pure (record n so.name (joinPlus parts) so.struct so.struct))
  let seqLines ← (List.zip (List.range spec.seqs.length) spec.seqs).mapM (fun (n, o) => do
    let s ← getSeq t spec a (spec.seqs.length + 2) ⟨o.name, false⟩
    let w ← t.wcStr s
    let dots := List.replicate o.len '.'
    pure (record (n + spec.structs.length) o.name s dots dots ++ record 0 (o.name ++ "*") w dots dots))
  pure (structLines.flatten ++ seqLines.flatten ++ ["Total n(s*) = 0.000000"])

end Pepper.Mfe
