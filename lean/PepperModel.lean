import PepperModel.Codes
import PepperModel.Generated.Tables
import PepperModel.Closure
