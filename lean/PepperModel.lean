import PepperModel.Codes
import PepperModel.Generated.Tables
import PepperModel.Closure
import PepperModel.Notation
import PepperModel.Sem
import PepperModel.Pil
