import PepperProofs.ParseSys
import PepperProofs.ParseSysInv
import PepperProps.C09
/-!
# The `.sys` statement parser as a function on text (supports C02/C09/C13)

Model: `PepperModel/ParseSys.lean` — the three pyparsing statement grammars of `system_parser_pyparsing.py` and the
first-statement search / statement loop of `system_parser.load_system`, on text.  It is tied to the real functions by
`harness/parsecorr_sys.py` (per-line and per-document correspondence).  Proofs: `PepperProofs/ParseSys.lean`
(render, then parse), `PepperProofs/ParseSysInv.lean` (what accepted text looks like, line-locality, `dw`).

`dw` is pyparsing's process-global default white space at call time (see the model's header); every theorem about
the statement loop holds for every `dw`, and `parseLine_dw_irrelevant` says the loop does not depend on it at all.

Argument texts outside the model's argument language make the model answer `Err.outOfModel` (never `.ok`), so every
theorem with a hypothesis `… = .ok …` is about statements whose arguments the model does decide.
-/
namespace Pepper.ParseSys.Props
open Pepper.Sys Pepper.ParseSys

/-! ## (a) what is rendered parses back -/

/-- well-formed statement AST: the instance / template / signal names and import aliases are
    `[A-Za-z][A-Za-z0-9_]*`, import paths are non-empty over `[A-Za-z0-9._/~-]`, an import statement has at least one
    item.  Nothing else: no name is excluded for looking like a keyword (`as`, `import`, `system` are fine as names,
    paths and aliases — the grammar is position-driven), the number of arguments is arbitrary. -/
abbrev wfSStmt (s : SStmt) : Bool := stmtNamesOk s
/-- well-formed declare header: system name, parameter names and signal names are `[A-Za-z][A-Za-z0-9_]*` -/
abbrev wfDecl (d : Decl) : Bool := declNamesOk d

/-- **parse ∘ render = id, canonical spelling.**  Every well-formed statement, written the way `progen.render_sys`
    writes it (`renderSStmt`: single blanks, `, ` and ` + ` separators, `name(1, 1)` for two arguments, the trailing
    blank of `x -> ` when there are no outputs), goes through the statement loop of `load_system` — comment regex,
    `strip`, dispatch on the first word, pyparsing grammar with `parseAll` — and comes out as the same AST. -/
theorem parse_render (dw : String) (s : SStmt) (h : wfSStmt s = true) :
    parseLine dw (renderSStmt s) = .ok (some s) := by
  simp only [parseLine, renderSStmt, String.toList_ofList]
  exact parseLineL_render dw.toList {} s h

/-- **parse ∘ render = id, any number of blanks** at each of the places where the grammar skips white space
    (`Layout`: before and after the statement, after the keyword (≥ 1), around `=`, `(`, `,`, `:`, `+`, `->`, before
    `*`, before (≥ 1) and after (≥ 0: `a asb` does alias `b`) `as`, and `()` for an empty argument list).
    Not covered by this theorem (by the correspondence only): tabs (the model expands them as `str.expandtabs`
    does), a trailing `# comment`, blanks in front of `,` / `)` inside an ARGUMENT list (there they belong to the
    argument text), and argument spellings other than `1`. -/
theorem parse_render_spaced (dw : String) (L : Layout) (s : SStmt) (h : wfSStmt s = true) :
    parseLine dw (String.ofList (renderSStmtW L s)) = .ok (some s) := by
  simp only [parseLine, String.toList_ofList]
  exact parseLineL_render dw.toList L s h

/-- the same for a direct call of `parse_import_statement` / `parse_component_statement` on the unstripped text -/
theorem parse_render_direct (dw : String) (L : Layout) (s : SStmt) (h : wfSStmt s = true) :
    (match s with
     | .imports items => parseImport dw (String.ofList (renderSStmtW L s)) = some items
     | .component .. => parseComponent dw (String.ofList (renderSStmtW L s)) = .ok s) := by
  cases s with
  | imports items =>
    simp only [parseImport, String.toList_ofList, renderSStmtW, List.append_assoc]
    exact parseImportL_render dw.toList L items h L.lead _
  | component name templ args ins outs =>
    simp only [parseComponent, String.toList_ofList, renderSStmtW, List.append_assoc]
    exact parseComponentL_render dw.toList L name templ args ins outs h L.lead _

/-- **the declare line**, canonical spelling -/
theorem parse_render_declare (dw : String) (d : Decl) (h : wfDecl d = true) :
    parseDeclare dw (renderDecl d) = some d := by
  simp only [parseDeclare, renderDecl, String.toList_ofList]
  exact parseDeclareL_renderDeclW dw.toList {} d h

/-- the declare line with any number of blanks (also between `system` and the name: 0 is allowed, `declare systemX:`
    declares `X`), as written and as the first-statement search hands it on (cleaned) -/
theorem parse_render_declare_spaced (dw : String) (L : Layout) (d : Decl) (h : wfDecl d = true) :
    parseDeclare dw (String.ofList (renderDeclW L d)) = some d ∧
    parseDeclare dw (String.ofList (cleanLine (renderDeclW L d))) = some d := by
  simp only [parseDeclare, String.toList_ofList]
  refine ⟨parseDeclareL_renderDeclW dw.toList L d h, ?_⟩
  rw [cleanLine_renderDeclW L d h]
  have := parseDeclareL_render dw.toList L d h 0 0
  rwa [sp_zero, List.nil_append, List.append_nil] at this

/-- **a whole rendered file parses back.**  For every well-formed system source: write the declare line, then one
    statement per line (each line with its own free layout).  Then (1) the first-statement search of `load_system`
    finds exactly the declare line (blanks stripped) and leaves exactly the statement lines in the file, and (2) the
    declare parser and the statement loop, run on those, rebuild the source.  (Between (1) and (2) the real code runs
    `process_list` on the remaining lines — the identity on such text apart from dropping blank lines; that is C13's
    model `Subst`, not repeated here.) -/
theorem parse_render_file (dw : String) (L : Layout) (Ls : Nat → Layout) (src : SSrc) (h : srcNamesOk src = true) :
    firstStatementL (renderFileW L Ls src) =
      (renderDeclCoreW L ⟨src.name, src.params, src.inputs, src.outputs⟩, fileLines (renderDocW Ls 0 src.stmts) []) ∧
    parseDocL dw.toList (renderDeclCoreW L ⟨src.name, src.params, src.inputs, src.outputs⟩) (renderDocW Ls 0 src.stmts) =
      .ok src := by
  have h' : declNamesOk ⟨src.name, src.params, src.inputs, src.outputs⟩ = true ∧ src.stmts.all stmtNamesOk = true := by
    simpa [srcNamesOk] using h
  refine ⟨firstStatementL_render L _ h'.1 _, ?_⟩
  have hd := parseDeclareL_render dw.toList L ⟨src.name, src.params, src.inputs, src.outputs⟩ h'.1 0 0
  rw [sp_zero, List.nil_append, List.append_nil] at hd
  simp only [parseDocL, hd, parseLines_render dw.toList Ls src.stmts 0 h'.2]

/-- the canonical spelling of a whole document -/
theorem parse_render_doc (dw : String) (src : SSrc) (h : srcNamesOk src = true) :
    parseDoc dw (renderDecl ⟨src.name, src.params, src.inputs, src.outputs⟩) (renderDoc src.stmts) = .ok src := by
  have h' : declNamesOk ⟨src.name, src.params, src.inputs, src.outputs⟩ = true ∧ src.stmts.all stmtNamesOk = true := by
    simpa [srcNamesOk] using h
  simp only [parseDoc, renderDecl, renderDoc, String.toList_ofList, parseDocL,
    parseDeclareL_renderDeclW dw.toList {} _ h'.1, parseLines_render dw.toList (fun _ => {}) src.stmts 0 h'.2]

example : wfSStmt (.component "gate1" "And22" 2 [⟨"x", true⟩, ⟨"y0", false⟩] [⟨"z_1", false⟩]) = true := by decide
example : renderSStmt (.component "gate1" "And22" 2 [⟨"x", true⟩, ⟨"y0", false⟩] [⟨"z_1", false⟩]) =
    "component gate1 = And22(1, 1): x* + y0 -> z_1" := by decide
example : wfSStmt (.imports [("../lib/And-2.v~1", some "as"), ("as", none), ("import", some "system")]) = true := by decide
example : renderSStmt (.imports [("../lib/And-2.v~1", some "as"), ("as", none)]) = "import ../lib/And-2.v~1 as as, as" := by
  decide
example : wfDecl ⟨"Osc", ["t", "bm"], [⟨"x", false⟩], []⟩ = true := by decide
example : renderDecl ⟨"Osc", ["t", "bm"], [⟨"x", false⟩], []⟩ = "declare system Osc(t, bm): x -> " := by decide
/-- the hypothesis is needed: a name with `-` is not read back -/
example : wfSStmt (.component "a-b" "c" 0 [] []) = false ∧
    parseLine " \t" (renderSStmt (.component "a-b" "c" 0 [] [])) = .error .reject := by decide
example : wfSStmt (.imports []) = false ∧ parseLine " \t" (renderSStmt (.imports [])) = .error .reject := by decide

/-! ## (b) what is accepted is well formed -/

/-- **every accepted name is `[A-Za-z][A-Za-z0-9_]*`, every accepted import path is non-empty over
    `[A-Za-z0-9._/~-]`** — for every line of text whatsoever that the statement loop accepts. -/
theorem parse_names_wellformed (dw line : String) (st : SStmt) (h : parseLine dw line = .ok (some st)) :
    stmtNamesOk st = true :=
  parseLineL_namesOk dw.toList line.toList st h

/-- the same for direct calls of the two statement parsers -/
theorem parse_names_wellformed_direct (dw line : String) :
    (∀ items, parseImport dw line = some items → stmtNamesOk (.imports items) = true) ∧
    (∀ st, parseComponent dw line = .ok st → stmtNamesOk st = true) :=
  ⟨fun items h => parseImportL_namesOk dw.toList line.toList items h,
   fun st h => parseComponentL_namesOk dw.toList line.toList st h⟩

/-- the declare header: system name, parameters, signals -/
theorem parse_names_wellformed_declare (dw line : String) (d : Decl) (h : parseDeclare dw line = some d) :
    declNamesOk d = true :=
  parseDeclareL_namesOk dw.toList line.toList d h

/-- a whole accepted document -/
theorem parse_names_wellformed_doc (dw decl doc : String) (src : SSrc) (h : parseDoc dw decl doc = .ok src) :
    srcNamesOk src = true :=
  parseDocL_namesOk dw.toList decl.toList doc.toList src h

example : parseLine " \t" "  component g = And(2*3, 'x'): a* + b ->   # note" =
    .ok (some (.component "g" "And" 2 [⟨"a", true⟩, ⟨"b", false⟩] [])) := by decide
example : parseLine " \t" "import a asb, c/d" = .ok (some (.imports [("a", some "b"), ("c/d", none)])) := by decide
example : parseLine " \t" "IMPORT a" = .error .reject ∧ parseImport " \t" "IMPORT a" = some [("a", none)] := by decide
example : parseDeclare " \t" "DeClArE systemX(n): ->" = some ⟨"X", ["n"], [], []⟩ := by decide
example : parseLine " \t" "component g = And(6  16): a -> b" = .error .reject := by decide
example : parseLine " \t" "component g = And(toe): a -> b" = .error .outOfModel := by decide

/-! ## (c) the statement loop is line-local -/

/-- **a document is accepted iff its first statement is a declare statement and every line of `doc.split("\n")`
    is accepted by the loop body (blank lines yield nothing); the statements are the per-line results in order.**
    So the per-line correspondence covers documents. -/
theorem parseDoc_line_local (dw decl doc : String) (src : SSrc) :
    parseDoc dw decl doc = .ok src ↔
      ∃ (d : Decl) (rs : List (Option SStmt)), parseDeclare dw decl = some d ∧
        (splitOn '\n' doc.toList).map (parseLineL dw.toList) = rs.map Except.ok ∧
        src = ⟨d.name, d.params, d.inputs, d.outputs, rs.filterMap id⟩ := by
  simp only [parseDoc, parseDeclare]
  rw [parseDocL_ok_iff]
  constructor
  · rintro ⟨d, sts, hd, hl, rfl⟩
    obtain ⟨rs, hrs, rfl⟩ := (parseLines_ok_iff _ _ _).1 hl
    exact ⟨d, rs, hd, hrs, rfl⟩
  · rintro ⟨d, rs, hd, hrs, rfl⟩
    exact ⟨d, rs.filterMap id, hd, (parseLines_ok_iff _ _ _).2 ⟨rs, hrs, rfl⟩, rfl⟩

/-- … and rejected (or out of the model) iff the first statement is not a declare statement or some line is -/
theorem parseDoc_rejects_iff (dw decl doc : String) :
    (∃ e, parseDoc dw decl doc = .error e) ↔
      parseDeclare dw decl = none ∨ ∃ l ∈ splitOn '\n' doc.toList, ∃ e, parseLineL dw.toList l = .error e := by
  simp only [parseDoc, parseDeclare, parseDocL]
  cases hd : parseDeclareL dw.toList decl.toList with
  | none => simp
  | some d =>
    simp only [reduceCtorEq, false_or]
    rw [← parseLines_error_iff]
    cases hl : parseLines dw.toList (splitOn '\n' doc.toList) with
    | error e => simp
    | ok sts => simp

/-- **the process-global white-space default cannot influence `load_system`**: whatever value `dw` another grammar
    module of the package left behind (all of them consist of characters `str.strip` removes), the statement loop
    gives the same result on every line. -/
theorem parseLine_dw_irrelevant (dw dw' line : String) (h : dwOk dw.toList = true) (h' : dwOk dw'.toList = true) :
    parseLine dw line = parseLine dw' line :=
  parseLineL_dw_irrelevant dw.toList dw'.toList line.toList h h'

theorem parseDoc_dw_irrelevant (dw dw' decl doc : String) (h : dwOk dw.toList = true) (h' : dwOk dw'.toList = true)
    (hd : parseDeclare dw decl = parseDeclare dw' decl) : parseDoc dw decl doc = parseDoc dw' decl doc := by
  simp only [parseDoc, parseDocL, parseDeclare] at hd ⊢
  rw [hd, parseLines_dw_irrelevant dw.toList dw'.toList _ h h']

/-- but a direct call does depend on it -/
example : parseImport " \t" "import a\n" = none ∧ parseImport " \t\n" "import a\n" = some [("a", none)] := by decide

/-! ## (d) text level: systems given as text compile to well-formed specifications -/

/-- a system source that came out of the text parser satisfies the name hypothesis of the system-level theorems
    (`sysNamesOk`: instance names without `-`, signal names non-empty, without `-`, not ending in `*`) -/
theorem sysNamesOk_of_text (dw decl doc : String) (src : SSrc) (h : parseDoc dw decl doc = .ok src) :
    Pepper.SysProofs.sysNamesOk src = true :=
  sysNamesOk_of_parse dw.toList decl.toList doc.toList src h

/-- **C09 for systems, from text.**  Take any bundle in which every SYSTEM source is the result of `parseDoc` on some
    (first statement, substituted document) pair — arbitrary text — and every component source satisfies `UserNamesOk`
    (for component sources that come from text, the `.comp` parser's own theorem gives this).  Whatever instance tree
    `load_file` returns, the emitted specification is well formed.  What composes cleanly: the hypothesis
    `bundleNamesOk` of `C09.output_wellformed_system` is discharged for systems by the parser itself — no condition on
    the `.sys` texts is left.  What does not: the bundle still abstracts the file system (which text is found under
    which path) and template substitution (`process_list`, C13's model) — the documents are the substituted ones. -/
theorem output_wellformed_system_text (b : Bundle) (fuel : Nat) (base : String) (args : Nat) (argKey pfx path : String)
    (includes : List String) (anon : Nat) (inst : Inst) (a' : Nat)
    (h : Sys.loadFile b fuel base args argKey pfx path includes anon = .ok (inst, a'))
    (hsys : ∀ k s, (k, FileSrc.sys s) ∈ b.files → ∃ dw decl doc, parseDoc dw decl doc = .ok s)
    (hcomp : ∀ k c, (k, FileSrc.comp c) ∈ b.files → Pepper.Comp.UserNamesOk c = true) :
    Pepper.WellFormed.WellFormedPil (Emit.instStmts inst) = true := by
  refine Pepper.C09.output_wellformed_system b fuel base args argKey pfx path includes anon inst a' h ?_
  simp only [Pepper.SysProofs.bundleNamesOk, List.all_eq_true]
  rintro ⟨k, f⟩ hkf
  cases f with
  | comp c => exact hcomp k c hkf
  | sys s =>
    obtain ⟨dw, decl, doc, hp⟩ := hsys k s hkf
    exact sysNamesOk_of_text dw decl doc s hp

/-- the property's wording: for every bundle of parsed documents, compilation rejects or emits a well-formed
    specification -/
theorem rejects_or_wellformed_system_text (b : Bundle) (fuel : Nat) (base : String) (args : Nat)
    (argKey pfx path : String) (includes : List String) (anon : Nat)
    (hsys : ∀ k s, (k, FileSrc.sys s) ∈ b.files → ∃ dw decl doc, parseDoc dw decl doc = .ok s)
    (hcomp : ∀ k c, (k, FileSrc.comp c) ∈ b.files → Pepper.Comp.UserNamesOk c = true) :
    (∃ e, Sys.loadFile b fuel base args argKey pfx path includes anon = .error e) ∨
    (∃ inst a', Sys.loadFile b fuel base args argKey pfx path includes anon = .ok (inst, a') ∧
      Pepper.WellFormed.WellFormedPil (Emit.instStmts inst) = true) := by
  cases h : Sys.loadFile b fuel base args argKey pfx path includes anon with
  | error e => exact Or.inl ⟨e, rfl⟩
  | ok r =>
    obtain ⟨inst, a'⟩ := r
    exact Or.inr ⟨inst, a', rfl,
      output_wellformed_system_text b fuel base args argKey pfx path includes anon inst a' h hsys hcomp⟩

end Pepper.ParseSys.Props
