import PepperModel.Generated.Tables
import PepperProofs.Finish
/-!
# C17 — finish refuses designs that are inconsistent with the saved system

Model: `PepperModel/Finish.lean` — `readDesign` (the `.mfe` reader: `nupack_out_grammar.document` +
`kinetics.read_design`), `apply` (`finish.apply_design` on the saved tree).  The vocabulary of the statements
(`Relations`, `CompRel`, `AtomOk`, `IsConcat`, `IsJoin`, `relevant`, `finishText`, `render`) is defined in
`PepperProofs/Finish.lean`.

A design is the map `name ↦ sequence` the reader produces (`lookupLast`: the last record of a name wins, as
in the Python dict).  Every theorem is for an arbitrary lawful code table and an arbitrary saved tree; no
well-formedness of the tree is needed for (i)–(iii) (`wfB` is only used to read `Relations` record by record,
`atomic_entry_is_record`).
-/
namespace Pepper.C17
open Pepper Pepper.Finish Pepper.Comp Pepper.Sys

/-- The hypothesis `t.lawful` of the detection theorems below holds for the finisher's own table, which is
    regenerated from `DNA_classes.py` on every run: no duplicated key, complementing is an involution (so no two
    letters share a complement) and denotes the complements of the bases. -/
theorem finisher_table_lawful : Generated.dnaTable.lawful = true := by decide

/-- (i) Finish never writes a broken relation — for ARBITRARY design maps, not only single corruptions.
    If `apply` succeeds on `d'` then (`Relations`): the output is one share per component, in order; in each
    share every non-dummy atomic sequence has a record of its declared length whose starred record is its
    reverse complement (`AtomOk`), every sequence / strand entry is the concatenation of the values of its
    base sequences, reverse-complemented for reversed references (`IsConcat`), and every structure entry is
    the `+`-join of its strands' entries and equals the structure's own record (`IsJoin`). -/
theorem never_writes_broken {t : CodeTable} {inst : Inst} {d' : List (List Char × List Char)} {out : Out}
    (h : apply t inst d' = .ok out) : Relations t inst d' out :=
  apply_relations h

/-- `Relations` read record by record on a well-formed tree (`wfB`: atomic names distinct within a
    component, an atomic sequence is its own base sequence): for every component `s` and every non-dummy
    atomic sequence `e` the written entry of `s.pfx ++ e.name` is the design's record of that name, it has
    length `e.len`, and its reverse complement is the record of the starred name. -/
theorem atomic_entry_is_record {t : CodeTable} {inst : Inst} {d' : List (List Char × List Char)} {out : Out}
    (hw : wfB inst = true) (h : apply t inst d' = .ok out) :
    ∀ s ∈ compsOf 64 inst, ∀ e ∈ s.baseSeqs, e.len ≠ 0 →
      ∃ v, (s.pfx ++ e.name, v) ∈ out.seqs ∧ lookupLast d' (s.pfx ++ e.name).toList = some v ∧
        v.length = e.len ∧ t.wcStr v = lookupLast d' (s.pfx ++ e.name ++ "*").toList :=
  (apply_relations h).atomic_entries hw

/-- (i) is sharp: finishing succeeds with output `out` exactly when the design satisfies the relations with
    `out` — nothing else is checked, nothing less. -/
theorem accepts_exactly_consistent {t : CodeTable} {inst : Inst} {d' : List (List Char × List Char)} {out : Out} :
    apply t inst d' = .ok out ↔ Relations t inst d' out :=
  apply_ok_iff_relations

/-- (ii) Records that do not influence the results are ignored: if `d'` agrees with `d` on the relevant names
    (full names of the non-dummy atomic sequences, those names with `*`, structure full names) then finishing
    gives the identical result — the same outputs or the same error. -/
theorem irrelevant_records_ignored {t : CodeTable} {inst : Inst} {d d' : List (List Char × List Char)}
    (h : ∀ n ∈ relevant inst, lookupLast d' n = lookupLast d n) : apply t inst d' = apply t inst d :=
  apply_congr_relevant h

/-- (iii) A single corruption is detected: if the design `d` is valid and `d'` differs from it on exactly one
    relevant name (changed, missing or replaced record), finishing `d'` stops with an error.  Uses that
    `wcStr` is injective where defined (from `complOf_involutive`, C11) and that a structure's strands do not
    change when no atomic record changes. -/
theorem single_corruption_detected {t : CodeTable} (hl : t.lawful = true) {inst : Inst}
    {d d' : List (List Char × List Char)} {out : Out} (hd : apply t inst d = .ok out)
    (h : ∃ n ∈ relevant inst, lookupLast d' n ≠ lookupLast d n ∧
      ∀ m ∈ relevant inst, m ≠ n → lookupLast d' m = lookupLast d m) :
    ∃ e, apply t inst d' = .error e := by
  obtain ⟨n, hn, hne, hsame⟩ := h
  exact apply_single_corruption hl hd hn hne hsame

/-- (ii)+(iii) as the property words it: against a valid design, a map that differs in at most one relevant
    name either is refused or gives outputs identical to those of the uncorrupted design. -/
theorem corruption_dichotomy {t : CodeTable} (hl : t.lawful = true) {inst : Inst}
    {d d' : List (List Char × List Char)} {out : Out} (hd : apply t inst d = .ok out)
    (hone : ∀ n ∈ relevant inst, ∀ m ∈ relevant inst,
      lookupLast d' n ≠ lookupLast d n → lookupLast d' m ≠ lookupLast d m → m = n) :
    (∃ e, apply t inst d' = .error e) ∨ apply t inst d' = .ok out := by
  by_cases hex : ∃ n ∈ relevant inst, lookupLast d' n ≠ lookupLast d n
  · obtain ⟨n, hn, hne⟩ := hex
    refine Or.inl (single_corruption_detected hl hd ⟨n, hn, hne, fun m hm hmn => ?_⟩)
    exact Decidable.byContradiction (fun hc => hmn (hone n hn m hm hne hc))
  · refine Or.inr ((irrelevant_records_ignored (fun n hn => ?_)).trans hd)
    exact Decidable.byContradiction (fun hc => hex ⟨n, hn, hc⟩)

/-! ### record level: reading, then the guard -/

/-- a design text the reader rejects (damaged header, missing line, bad numeric field, missing trailer, …)
    makes finishing fail -/
theorem unreadable_fails {t : CodeTable} {α : List Char} {inst : Inst} {x' : List Char}
    (h : readDesign α x' = none) : finishText t α inst x' = .error .unreadable := by
  simp [finishText, h]

/-- (i) for texts -/
theorem text_never_writes_broken {t : CodeTable} {α : List Char} {inst : Inst} {x' : List Char} {out : Out}
    (h : finishText t α inst x' = .ok out) : ∃ d', readDesign α x' = some d' ∧ Relations t inst d' out := by
  obtain ⟨d', hr, ha⟩ := finishText_ok_iff.1 h
  exact ⟨d', hr, apply_relations ha⟩

/-- (ii) for texts -/
theorem text_irrelevant_ignored {t : CodeTable} {α : List Char} {inst : Inst} {x x' : List Char}
    {d d' : List (List Char × List Char)} (hx : readDesign α x = some d) (hx' : readDesign α x' = some d')
    (h : ∀ n ∈ relevant inst, lookupLast d' n = lookupLast d n) :
    finishText t α inst x' = finishText t α inst x := by
  simp only [finishText, hx, hx', apply_congr_relevant h]

/-- (iii) for texts -/
theorem text_single_corruption_detected {t : CodeTable} (hl : t.lawful = true) {α : List Char} {inst : Inst}
    {x x' : List Char} {d d' : List (List Char × List Char)} {out : Out}
    (hx : readDesign α x = some d) (hx' : readDesign α x' = some d') (hok : finishText t α inst x = .ok out)
    (h : ∃ n ∈ relevant inst, lookupLast d' n ≠ lookupLast d n ∧
      ∀ m ∈ relevant inst, m ≠ n → lookupLast d' m = lookupLast d m) :
    ∃ e, finishText t α inst x' = .error (.inconsistent e) := by
  obtain ⟨d0, hr0, ha0⟩ := finishText_ok_iff.1 hok
  rw [hx] at hr0
  cases hr0
  obtain ⟨e, he⟩ := single_corruption_detected hl ha0 h
  exact ⟨e, by simp [finishText, hx', he]⟩

/-- The property at record level: `x` is a valid design text, `x'` any text.  Either `x'` does not parse and
    finishing fails, or it parses to a map; if that map differs from the one of `x` in at most one relevant
    name, finishing either fails or produces exactly the outputs of the uncorrupted design. -/
theorem read_then_guard {t : CodeTable} (hl : t.lawful = true) {α : List Char} {inst : Inst}
    {x x' : List Char} {out : Out} (hok : finishText t α inst x = .ok out)
    (hone : ∀ d d', readDesign α x = some d → readDesign α x' = some d' →
      ∀ n ∈ relevant inst, ∀ m ∈ relevant inst,
        lookupLast d' n ≠ lookupLast d n → lookupLast d' m ≠ lookupLast d m → m = n) :
    (∃ f, finishText t α inst x' = .error f) ∨ finishText t α inst x' = .ok out := by
  obtain ⟨d, hr, ha⟩ := finishText_ok_iff.1 hok
  cases hr' : readDesign α x' with
  | none => exact Or.inl ⟨_, unreadable_fails hr'⟩
  | some d' =>
    rcases corruption_dichotomy hl ha (hone d d' hr hr') with ⟨e, he⟩ | hsame
    · exact Or.inl ⟨.inconsistent e, by simp [finishText, hr', he]⟩
    · exact Or.inr (by simp [finishText, hr', hsame])

/-- The reader inverts the writer.  `render` (defined in `PepperProofs/Finish.lean`) prints a list of records
    the way `Convert.output` does — per record `<int>:<name>`, `<seq> <float> <float> <int>`, the target and
    the mfe structure, then the trailer `Total n(s*) = <float>`.  For every list of well-formed records
    (`wfRec`: header number over digits, name over `isVarChar`, sequence over the reader's alphabet `α`,
    valid numeric fields, structure lines over `.()+`, none of them empty) the reader returns exactly the
    list `name ↦ sequence`, in order.  `okAlpha α`: no blank or newline in the sequence alphabet. -/
theorem reader_roundtrip {α : List Char} (hα : okAlpha α = true) {total : List Char}
    (ht : okWord isNumChar total = true) (hv : validFloat total = true)
    (rs : List (List Char × Rec)) (hrs : ∀ x ∈ rs, wfRec α x = true) :
    readDesign α (render rs total) = some (rs.map (fun x => (x.2.name, x.2.seq))) :=
  readDesign_render hα ht hv rs hrs

/-- so a rendered valid design is finished exactly as its map is -/
theorem finish_rendered {t : CodeTable} {α : List Char} (hα : okAlpha α = true) {total : List Char}
    (ht : okWord isNumChar total = true) (hv : validFloat total = true)
    (rs : List (List Char × Rec)) (hrs : ∀ x ∈ rs, wfRec α x = true) (inst : Inst) (out : Out) :
    finishText t α inst (render rs total) = .ok out ↔
      apply t inst (rs.map (fun x => (x.2.name, x.2.seq))) = .ok out := by
  rw [finishText_ok_iff, reader_roundtrip hα ht hv rs hrs]
  simp

/-! ### non-vacuity

One system with one component `c` (prefix `c-`): atomic sequences `a` (3 nt) and `b` (2 nt), the
super-sequence `ab = a b*` (a reversed reference), the strand `S = ab`, the structure `T` on `S`. -/

def exComp : Comp.St :=
  { name := "c", pfx := "c-",
    seqs := [⟨"a", false, false, 3, "NNN".toList, [], [⟨"a", false, 3⟩], true⟩,
             ⟨"b", false, false, 2, "NN".toList, [], [⟨"b", false, 2⟩], true⟩,
             ⟨"ab", true, false, 5, [], [⟨"a", false, 3, false⟩, ⟨"b", true, 2, false⟩],
               [⟨"a", false, 3⟩, ⟨"b", true, 2⟩], false⟩],
    strands := [⟨"S", false, 5, [⟨"ab", false, 5, true⟩], [⟨"a", false, 3⟩, ⟨"b", true, 2⟩], true⟩],
    structs := [⟨"T", ⟨['1'], []⟩, ["S"], ".....".toList, [⟨"a", false, 3⟩, ⟨"b", true, 2⟩]⟩] }

def exInst : Inst := .sys (.mk "" "top" "" [] [] [] [("c", .comp exComp)] [] [])

/-- a valid design (with one record nobody reads) -/
def exD : List (List Char × List Char) :=
  [("c-T".toList, "ACGAA".toList), ("c-a".toList, "ACG".toList), ("c-a*".toList, "CGT".toList),
   ("c-b".toList, "TT".toList), ("c-b*".toList, "AA".toList), ("junk".toList, "GGG".toList)]

example : wfB exInst = true := by decide

example : relevant exInst = ["c-a".toList, "c-a*".toList, "c-b".toList, "c-b*".toList, "c-T".toList] := by decide

/-- the valid design is accepted -/
example : apply Generated.dnaTable exInst exD =
    .ok ⟨[("c-a", "ACG".toList), ("c-b", "TT".toList), ("c-ab", "ACGAA".toList)],
         [("c-S", false, "ACGAA".toList)], [("c-T", "ACGAA".toList)]⟩ := by decide

/-- a changed base is refused -/
example : apply Generated.dnaTable exInst
    [("c-T".toList, "ACGAA".toList), ("c-a".toList, "ACC".toList), ("c-a*".toList, "CGT".toList),
     ("c-b".toList, "TT".toList), ("c-b*".toList, "AA".toList)] = .error .complement := by decide

/-- a renamed record is refused -/
example : apply Generated.dnaTable exInst
    [("c-T".toList, "ACGAA".toList), ("c-a".toList, "ACG".toList), ("c-a*".toList, "CGT".toList),
     ("c-bx".toList, "TT".toList), ("c-b*".toList, "AA".toList)] = .error .missing := by decide

/-- a deleted starred record is refused -/
example : apply Generated.dnaTable exInst
    [("c-T".toList, "ACGAA".toList), ("c-a".toList, "ACG".toList),
     ("c-b".toList, "TT".toList), ("c-b*".toList, "AA".toList)] = .error .missing := by decide

/-- a changed structure record is refused; a changed irrelevant record is not noticed -/
example : apply Generated.dnaTable exInst
    [("c-T".toList, "ACGAT".toList), ("c-a".toList, "ACG".toList), ("c-a*".toList, "CGT".toList),
     ("c-b".toList, "TT".toList), ("c-b*".toList, "AA".toList)] = .error .structure := by decide
example : apply Generated.dnaTable exInst (exD ++ [("junk".toList, "T".toList)]) =
    apply Generated.dnaTable exInst exD := by decide

/-- the live reader alphabet has no blank or newline -/
example : okAlpha Generated.alphaMfeSeq = true := by decide

/-- the valid design as the records `Convert.output` writes (structures first, then each sequence and its
    starred view), the text they render to, and what the reader returns -/
def exRecs : List (List Char × Rec) :=
  [("0".toList, ⟨"c-T".toList, "ACGAA".toList, ["0.000000".toList, "0.400000".toList, "0".toList], ".....".toList, ".....".toList⟩),
   ("1".toList, ⟨"c-a".toList, "ACG".toList, ["0.000000".toList, "0.666667".toList, "0".toList], "...".toList, "...".toList⟩),
   ("0".toList, ⟨"c-a*".toList, "CGT".toList, ["0.000000".toList, "0.666667".toList, "0".toList], "...".toList, "...".toList⟩),
   ("2".toList, ⟨"c-b".toList, "TT".toList, ["0.000000".toList, "0.000000".toList, "0".toList], "..".toList, "..".toList⟩),
   ("0".toList, ⟨"c-b*".toList, "AA".toList, ["0.000000".toList, "0.000000".toList, "0".toList], "..".toList, "..".toList⟩)]

example : exRecs.all (wfRec Generated.alphaMfeSeq) = true := by decide

example : render exRecs "0.000000".toList =
    ("0:c-T\nACGAA 0.000000 0.400000 0\n.....\n.....\n" ++
     "1:c-a\nACG 0.000000 0.666667 0\n...\n...\n" ++
     "0:c-a*\nCGT 0.000000 0.666667 0\n...\n...\n" ++
     "2:c-b\nTT 0.000000 0.000000 0\n..\n..\n" ++
     "0:c-b*\nAA 0.000000 0.000000 0\n..\n..\n" ++
     "Total n(s*) = 0.000000").toList := by decide +kernel

example : finishText Generated.dnaTable Generated.alphaMfeSeq exInst (render exRecs "0.000000".toList) =
    .ok ⟨[("c-a", "ACG".toList), ("c-b", "TT".toList), ("c-ab", "ACGAA".toList)],
         [("c-S", false, "ACGAA".toList)], [("c-T", "ACGAA".toList)]⟩ := by decide +kernel

/-- damaged texts: a header without its colon does not parse; a changed base parses and is refused -/
example : finishText Generated.dnaTable Generated.alphaMfeSeq exInst
    "0 c-T\nACGAA 0.0 0.4 0\n.....\n.....\nTotal n(s*) = 0.0".toList = .error .unreadable := by decide +kernel
example : finishText Generated.dnaTable Generated.alphaMfeSeq exInst
    ("0:c-T\nACGAA 0.0 0.4 0\n.....\n.....\n1:c-a\nACC 0.0 0.6 0\n...\n...\n0:c-a*\nCGT 0.0 0.6 0\n...\n...\n" ++
     "2:c-b\nTT 0.0 0.0 0\n..\n..\n0:c-b*\nAA 0.0 0.0 0\n..\n..\nTotal n(s*) = 0.0").toList
    = .error (.inconsistent .complement) := by decide +kernel

end Pepper.C17
