import PepperModel.Generated.Tables
import PepperProofs.Codes
/-!
# C11 — degenerate-base tables form a consistent, complement-closed algebra

The quantifier of C11 is a finite table; the table is the one *extracted from /repo on this run*
(`Generated/Tables.lean`), so these `decide` proofs are proofs about the code's current tables.
The unbounded clause (all strings) is `wc_wc`, proved for every lawful table in `PepperProofs/Codes`.
-/
namespace Pepper.C11
open Pepper Pepper.Generated

/-- compiler table: complement denotes the complement set, is an involution, intersections are closed,
    `rev_group` inverts `group` -/
theorem dna_lawful : dnaTable.lawful = true := by decide
/-- designer front-end table -/
theorem pil_lawful : pilTable.lawful = true := by decide
/-- PIL parser's alphabet table -/
theorem nupack_lawful : nupackTable.lawful = true := by decide

/-- the three Python copies agree on every code -/
theorem python_copies_agree : dnaTable.sameAs pilTable = true ∧ dnaTable.sameAs nupackTable = true := by decide

/-- the bundled spuriousSSM agrees with them on every code (`WC`, `randbasec`, `degenerates`) -/
theorem c_copy_agrees : cAgrees dnaTable cWC cDegenerates cRandbase = true := by decide

/-- every code (hence every non-empty intersection of two codes) is accepted by the PIL reader and by
    the design-file reader -/
theorem tools_accept_codes :
    dnaTable.codes.all (fun c => alphaPilParseSeq.contains c && alphaMfeSeq.contains c) = true := by decide

/-- complementing twice is the identity, for every code of the live table -/
theorem compl_involutive (c d : Char) (h : dnaTable.complOf c = some d) : dnaTable.complOf d = some c :=
  CodeTable.complOf_involutive dna_lawful h

/-- reverse-complementing any string over the code alphabet twice returns it -/
theorem wc_wc (s : List Char) (h : ∀ c ∈ s, dnaTable.isCode c = true) :
    (dnaTable.wcStr s).bind dnaTable.wcStr = some s :=
  CodeTable.wcStr_wcStr dna_lawful s h

/-- the intersection of two codes that share a base is again a code, and it denotes the intersection -/
theorem intersection_closed (c d : Char) (hc : dnaTable.isCode c = true) (hd : dnaTable.isCode d = true)
    (hne : dnaTable.maskC c &&& dnaTable.maskC d ≠ 0) :
    ∃ e, dnaTable.intersect c d = .ok e ∧ dnaTable.maskC e = dnaTable.maskC c &&& dnaTable.maskC d :=
  CodeTable.intersect_ok dna_lawful hc hd hne


/-- Boolean equality of intersection results (used to state table-wide laws decidably) -/
def resEq : Except CodeTable.Err Char → Except CodeTable.Err Char → Bool
  | .ok a, .ok b => a == b
  | .error a, .error b => decide (a = b)
  | _, _ => false

theorem resEq_eq {a b : Except CodeTable.Err Char} (h : resEq a b = true) : a = b := by
  cases a <;> cases b <;> simp_all [resEq]

/-- intersection does not depend on the order of its operands — for every pair of codes of the live table,
    error outcomes (no common base) included -/
theorem intersect_comm (c d : Char) (hc : c ∈ dnaTable.codes) (hd : d ∈ dnaTable.codes) :
    dnaTable.intersect c d = dnaTable.intersect d c := by
  have h : dnaTable.codes.all (fun c => dnaTable.codes.all (fun d =>
      resEq (dnaTable.intersect c d) (dnaTable.intersect d c))) = true := by decide
  exact resEq_eq (List.all_eq_true.1 (List.all_eq_true.1 h c hc) d hd)

/-- intersecting a code with itself returns it -/
theorem intersect_idem (c : Char) (hc : c ∈ dnaTable.codes) : dnaTable.intersect c c = .ok c := by
  have h : dnaTable.codes.all (fun c => resEq (dnaTable.intersect c c) (.ok c)) = true := by decide
  exact resEq_eq (List.all_eq_true.1 h c hc)

/-- complementing commutes with intersection: whenever `c ∩ d = e`, the complements of `c` and `d` intersect in
    the complement of `e` (what lets the designer front-end merge the template of a position with the
    complemented template of its partner in either order) -/
theorem compl_intersect (c d e : Char) (hc : c ∈ dnaTable.codes) (hd : d ∈ dnaTable.codes)
    (h : dnaTable.intersect c d = .ok e) :
    ∃ c' d' e', dnaTable.complOf c = some c' ∧ dnaTable.complOf d = some d' ∧ dnaTable.complOf e = some e' ∧
      dnaTable.intersect c' d' = .ok e' := by
  have hb : dnaTable.codes.all (fun c => dnaTable.codes.all (fun d =>
      match dnaTable.intersect c d, dnaTable.complOf c, dnaTable.complOf d with
      | .ok e, some c', some d' =>
        (match dnaTable.complOf e with
         | some e' => resEq (dnaTable.intersect c' d') (.ok e')
         | none => false)
      | .ok _, _, _ => false
      | .error _, _, _ => true)) = true := by decide
  have := List.all_eq_true.1 (List.all_eq_true.1 hb c hc) d hd
  rw [h] at this
  cases hcc : dnaTable.complOf c with
  | none => simp [hcc] at this
  | some c' =>
    cases hdd : dnaTable.complOf d with
    | none => simp [hcc, hdd] at this
    | some d' =>
      cases hee : dnaTable.complOf e with
      | none => simp [hcc, hdd, hee] at this
      | some e' =>
        simp only [hcc, hdd, hee] at this
        exact ⟨c', d', e', rfl, rfl, rfl, resEq_eq this⟩

/-- non-vacuity of the three laws: `B ∩ H = Y` and, complemented, `V ∩ D = R` -/
example : resEq (dnaTable.intersect 'B' 'H') (.ok 'Y') = true ∧ resEq (dnaTable.intersect 'V' 'D') (.ok 'R') = true ∧
    dnaTable.complOf 'B' = some 'V' ∧ dnaTable.complOf 'H' = some 'D' ∧ dnaTable.complOf 'Y' = some 'R' ∧
    'B' ∈ dnaTable.codes ∧ 'H' ∈ dnaTable.codes := by decide

/-- non-vacuity: the live table has the 15 IUPAC codes and `D ∩ V` exists -/
example : dnaTable.codes.length = 15 ∧
    (match dnaTable.intersect 'D' 'V' with | .ok e => e == 'R' | _ => false) = true := by decide

end Pepper.C11
