import PepperModel.Generated.Tables
import PepperProofs.Codes
/-!
# C11 — degenerate-base tables form a consistent, complement-closed algebra

The quantifier of C11 is a finite table; the table is the one *extracted from /repo on this run*
(`Generated/Tables.lean`), so these `decide` proofs are proofs about the code's current tables.
The unbounded clause (all strings) is `wc_wc`, proved for every lawful table in `PepperProofs/Codes`.
-/
namespace Pepper.C11
open Pepper Pepper.Generated

/-- compiler table: complement denotes the complement set, is an involution, intersections are closed,
    `rev_group` inverts `group` -/
theorem dna_lawful : dnaTable.lawful = true := by decide
/-- designer front-end table -/
theorem pil_lawful : pilTable.lawful = true := by decide
/-- PIL parser's alphabet table -/
theorem nupack_lawful : nupackTable.lawful = true := by decide

/-- the three Python copies agree on every code -/
theorem python_copies_agree : dnaTable.sameAs pilTable = true ∧ dnaTable.sameAs nupackTable = true := by decide

/-- the bundled spuriousSSM agrees with them on every code (`WC`, `randbasec`, `degenerates`) -/
theorem c_copy_agrees : cAgrees dnaTable cWC cDegenerates cRandbase = true := by decide

/-- every code (hence every non-empty intersection of two codes) is accepted by the PIL reader and by
    the design-file reader -/
theorem tools_accept_codes :
    dnaTable.codes.all (fun c => alphaPilParseSeq.contains c && alphaMfeSeq.contains c) = true := by decide

/-- complementing twice is the identity, for every code of the live table -/
theorem compl_involutive (c d : Char) (h : dnaTable.complOf c = some d) : dnaTable.complOf d = some c :=
  CodeTable.complOf_involutive dna_lawful h

/-- reverse-complementing any string over the code alphabet twice returns it -/
theorem wc_wc (s : List Char) (h : ∀ c ∈ s, dnaTable.isCode c = true) :
    (dnaTable.wcStr s).bind dnaTable.wcStr = some s :=
  CodeTable.wcStr_wcStr dna_lawful s h

/-- the intersection of two codes that share a base is again a code, and it denotes the intersection -/
theorem intersection_closed (c d : Char) (hc : dnaTable.isCode c = true) (hd : dnaTable.isCode d = true)
    (hne : dnaTable.maskC c &&& dnaTable.maskC d ≠ 0) :
    ∃ e, dnaTable.intersect c d = .ok e ∧ dnaTable.maskC e = dnaTable.maskC c &&& dnaTable.maskC d :=
  CodeTable.intersect_ok dna_lawful hc hd hne

/-- non-vacuity: the live table has the 15 IUPAC codes and `D ∩ V` exists -/
example : dnaTable.codes.length = 15 ∧
    (match dnaTable.intersect 'D' 'V' with | .ok e => e == 'R' | _ => false) = true := by decide

end Pepper.C11
